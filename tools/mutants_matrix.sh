#!/bin/bash
# Re-runs every hand-made mutant under /verif/mutants/<ID>/*.diff against the CURRENT quick check of <ID> (tools/mutant.py on a
# private copy) and records the verdicts in mutants/matrix.txt.   usage: tools/mutants_matrix.sh [nworkers]
out=/verif/mutants/matrix.txt
n=${1:-1}
muts=($(ls /verif/mutants/*/*.diff))
worker() {
  k=$1; : > $out.part$k
  for i in "${!muts[@]}"; do
    [ $((i % n)) -eq $k ] || continue
    f=${muts[$i]}; id=$(basename $(dirname $f)); name=$(basename $f .diff)
    if ! patch -p1 --dry-run -s -d /repo -i $f >/dev/null 2>&1; then echo "$id/$name -> patch no longer applies to /repo HEAD (the code it mutates was repaired or moved)" >> $out.part$k; continue; fi
    r=$(python3 /verif/tools/mutant.py $f $id quick 2>&1)
    verdict=$(echo "$r" | grep -o "exit [0-9] ([A-Za-z]*)" | tail -1)
    [ -z "$verdict" ] && verdict="no verdict ($(echo "$r" | tail -1 | cut -c1-80))"
    key=$(echo "$r" | grep -m1 "^VIOLATION" | grep -o "key=[^ ]*")
    echo "$id/$name -> $verdict ; first: $key" >> $out.part$k
  done
}
for k in $(seq 0 $((n-1))); do worker $k & done
wait
cat $out.part* | sort > $out; rm -f $out.part*
