#!/usr/bin/env python3
"""Regenerates section 9 ("As built") of DESIGN.md between the ASBUILT markers: hand-written text from
tools/asbuilt_text.md plus tables generated from checks.d, build/runlogs, known_findings.txt, /repo's git log and
seeded/*/meta.json."""
import json, os, re, subprocess, collections
R = os.path.dirname(os.path.dirname(os.path.abspath(__file__)))
checks = {f[:-5]: json.load(open(R + "/checks.d/" + f)) for f in sorted(os.listdir(R + "/checks.d")) if f.endswith(".json")}


def lastrun(pid, tier):
    p = R + "/build/runlogs/%s_%s.log" % (pid, tier)
    if not os.path.exists(p):
        return None
    for line in open(p, errors="replace"):
        m = re.match(r"\[vf\] %s %s: evaluations=(\d+) distinct_nontrivial=(\d+) exhaustive=(\w+) violations=(\d+) known=(\d+) wall=([\d.]+)s" % (pid, tier), line)
        if m:
            return m.groups()
    return None


out = []

# 9.x per-check table
out.append("\n### 9.3 Checks as registered (last complete runs on the integrator's machine, 16 cores)\n")
out.append("| id | engine / level | flavour | parts | quick: evaluations / distinct non-trivial / wall | thorough: evaluations / distinct non-trivial / wall | known findings reported |")
out.append("|---|---|---|---|---|---|---|")
known = collections.Counter()
fixed = collections.Counter()
for line in open(R + "/known_findings.txt"):
    m = re.match(r"(known|fixed):\s+property=(\S+)", line)
    if m:
        (known if m.group(1) == "known" else fixed)[m.group(2)] += 1
for pid, c in checks.items():
    src = open(R + "/harness/" + c["source"], errors="replace").read()
    nparts = len(re.findall(r"^VF_PART\(", src, re.M))
    q, t = lastrun(pid, "quick"), lastrun(pid, "thorough")
    f = lambda r: "%s / %s / %ss%s" % (r[0], r[1], r[5], "" if r[2] == "True" else " (deadline: exhaustive=false)") if r else "n/a"
    out.append("| %s | %s / %s | %s | %d | %s | %s | %d known, %d fixed |" % (pid, c.get("engine", "E1"), c["level"], c.get("flavour", "rel"), nparts, f(q), f(t), known[pid], fixed[pid]))
out.append("\nThe `rule` of every check (how cases are enumerated, what is non-trivial) is in `checks.d/<ID>.json` and is copied into each evidence file.\n")

T_CHECKS = "\n".join(out); out = []
# fix commits
out.append("\n### 9.4 Repairs made in /repo (`fix:` commits, one defect each, guard-independent)\n")
log = subprocess.check_output(["git", "-C", "/repo", "log", "--reverse", "--format=%h %s"], text=True).splitlines()
reverted = set()
for l in log:
    m = re.match(r"\S+ Revert \"(.*)\"", l)
    if m:
        reverted.add(m.group(1))
n = 0
for l in log:
    h, s = l.split(" ", 1)
    if s.startswith("fix:"):
        n += 1
        out.append("* `%s` %s%s" % (h, s[4:].strip(), "  **(reverted: a stable test freezes the old behaviour; stays a known finding)**" if s in reverted else ""))
out.append("\n%d fix commits (%d later reverted). Hook commit: `61094de60` (guarded by `GSTLEARN_VERIF`, add-only). After the last of them `python3 tools/baseline.py` (guard off) reports 113/113 stable tests passing.\n" % (n, len(reverted)))

T_FIXES = "\n".join(out); out = []
# seeded
out.append("\n### 9.7 Independently seeded changes and which checks catch them\n")
out.append("Each change was written by a fresh sub-agent that saw only the property text and a scratch worktree (nothing from /verif), and was confirmed by `tools/confirm_seed.py` (patch applies, library builds, the 113 stable tests pass, the demonstration exits 0 without and non-zero with the patch; for the 19 round-3 seeds confirmed by `tools/confirm_group.py` the suite was run once with all 19 patches applied together - every stable test passed - and the demonstration per seed; C11d's seeder reported its own patched-suite run). `tools/mutant.py <patch> <ID> quick` then ran the registered check against a patched private copy; `seeded/detection_matrix.txt` is the last run of all 80 seeds against the current quick tiers. Three patches (C11c, C13a, C13d) were rebased because later `fix:` commits touched the same lines (originals kept next to them).\n")
out.append("| seed | breaks | needs | confirmed | caught by (quick unless stated) | first finding key |")
out.append("|---|---|---|---|---|---|")
sd = R + "/seeded"
for d in sorted(os.listdir(sd)) if os.path.isdir(sd) else []:
    mp = os.path.join(sd, d, "meta.json")
    if not os.path.exists(mp):
        continue
    m = json.load(open(mp))
    out.append("| %s | %s | %s | %s | %s | %s |" % (d, m.get("property"), m.get("needs", "").replace("|", "/"), m.get("confirmed"), m.get("caught_by", ""), m.get("first_key", "")))
out.append("")

T_SEEDS = "\n".join(out)
# hand-made mutants
out = []
mp = R + "/mutants/matrix.txt"
if os.path.exists(mp):
    rows = [l.rstrip("\n") for l in open(mp) if l.strip()]
    det = [r for r in rows if "DETECTED" in r or ("BROKEN" in r and "first: key=" in r)]  # BROKEN + a VIOLATION key: the mutant also kills shards
    gone = [r for r in rows if "no longer applies" in r]
    rest = [r for r in rows if r not in det and r not in gone]
    out.append("\n**Hand-made mutants (regression).** While writing a harness its owner mutated the library code the property is anchored in "
               "(`mutants/<ID>/<name>.diff` + one-line `.txt`). `tools/mutants_matrix.sh` re-runs all of them against the current quick tiers "
               "(`mutants/matrix.txt`): %d files, %d detected (one of them, C06/m11, prints its VIOLATION lines and then corrupts the heap so that the run ends as BROKEN, exit 2), %d no longer apply to /repo HEAD (bundles of proposed fixes kept for reference, or the "
               "mutated code was repaired since), %d silent:\n" % (len(rows), len(det), len(gone), len(rest)))
    for r in rest:
        name = r.split(" -> ")[0]
        tp = R + "/mutants/" + name + ".txt"
        why = open(tp, errors="replace").read().strip().replace("\n", " ")[:260] if os.path.exists(tp) else ""
        out.append("* `%s` - %s" % (name, why))
    out.append("")
T_MUT = "\n".join(out)
raw = open(R + "/tools/asbuilt_text.md").read()
for pid in checks:
    raw = raw.replace("{{N_%s}}" % pid, str(known[pid]))
txt = raw.replace("{{TABLE_CHECKS}}", T_CHECKS).replace("{{TABLE_FIXES}}", T_FIXES).replace("{{TABLE_SEEDS}}", T_SEEDS).replace("{{TABLE_MUTANTS}}", T_MUT) + "\n"
p = R + "/DESIGN.md"
s = open(p).read()
B, E = "<!-- ASBUILT-BEGIN -->", "<!-- ASBUILT-END -->"
if B in s:
    s = s[:s.index(B)] + B + "\n" + txt + E + s[s.index(E) + len(E):]
else:
    s = s.rstrip("\n") + "\n\n" + B + "\n" + txt + E + "\n"
open(p, "w").write(s)
print("section 9 regenerated (%d chars)" % len(txt))
