#!/usr/bin/env python3
"""Confirm a seeded change:  tools/confirm_seed.py <dir containing patch.diff, demo.cpp[, build_demo.sh]> [--skip-suite]
Uses the persistent confirmation worktree /var/tmp/seedconf (a git worktree of /repo with its own _build incl. tests).
Steps: sync worktree to /repo HEAD; demo on original must exit 0; apply patch; build; stable suite must pass; demo must fail; revert.
Prints a JSON summary."""
import json, os, re, subprocess, sys
W = "/var/tmp/seedconf"
d = os.path.abspath(sys.argv[1])
skip_suite = "--skip-suite" in sys.argv
def sh(cmd, cwd=W, timeout=7200):
    os.makedirs(W + "/_nfdir", exist_ok=True)
    r = subprocess.run(cmd, shell=True, cwd=cwd, stdout=subprocess.PIPE, stderr=subprocess.STDOUT, text=True, timeout=timeout,
                       env=dict(os.environ, PYGSTLEARN_DIR=W + "/_nfdir/"))
    return r.returncode, r.stdout
def build():
    rc, out = sh("cmake --build _build -j12")
    return rc, out[-2000:]
def demo():
    exe = os.path.join(d, "demo_confirm")
    rc, out = sh("g++ -std=c++20 -O1 -fopenmp -w -I include -I _build -I /usr/include/eigen3 %s -o %s -L _build/RelWithDebInfo -lgstlearn -Wl,-rpath,%s/_build/RelWithDebInfo" % (os.path.join(d, "demo.cpp"), exe, W))
    if rc != 0:
        return None, out[-1500:]
    rc, out = sh("timeout 600 " + exe, cwd=d)
    return rc, out[-1500:]
def suite():
    rc, out = sh("ctest --test-dir _build -j8 --timeout 1800 -E _cmp$ ; ctest --test-dir _build -j8 --timeout 900 -R _cmp$")
    passed = set(re.findall(r"Test\s+#\d+:\s+(\S+)\s+\.+\s+Passed", out))
    stable = [s.split("::")[0] for s in json.load(open("/root/.vp/BASELINE.json"))["stable_pass"]]
    return [s for s in stable if s not in passed]
res = {}
head = subprocess.check_output("git -C /repo rev-parse HEAD", shell=True, text=True).strip()
sh("git checkout -q -- . && git checkout -q --detach " + head)
rc, out = build(); res["build_original"] = rc
rc, out = demo(); res["demo_original_exit"] = rc; res["demo_original_tail"] = out[-400:]
rc, out = sh("git apply " + os.path.join(d, "patch.diff")); res["apply"] = rc
if rc != 0: res["apply_out"] = out
else:
    rc, out = build(); res["build_patched"] = rc
    if rc != 0: res["build_out"] = out
    else:
        if not skip_suite: res["stable_failing_with_patch"] = suite()
        rc, out = demo(); res["demo_patched_exit"] = rc; res["demo_patched_tail"] = out[-600:]
sh("git checkout -q -- .")
build()
res["confirmed"] = bool(res.get("demo_original_exit") == 0 and res.get("demo_patched_exit") not in (0, None) and res.get("stable_failing_with_patch", []) == [] and res.get("build_patched") == 0)
print(json.dumps(res, indent=1))
