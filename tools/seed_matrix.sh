#!/bin/bash
# Re-runs every stored seed against the CURRENT quick check of its property (tools/mutant.py) and records the verdicts.
# usage: tools/seed_matrix.sh [nworkers]   (seeds are dealt round-robin to the workers; mutant.py works on private copies)
out=/verif/seeded/detection_matrix.txt
n=${1:-1}
seeds=($(ls -d /verif/seeded/*/ | xargs -n1 basename))
worker() {
  k=$1; : > $out.part$k
  for i in "${!seeds[@]}"; do
    [ $((i % n)) -eq $k ] || continue
    s=${seeds[$i]}; id=${s:0:3}
    r=$(python3 /verif/tools/mutant.py /verif/seeded/$s/patch.diff $id quick 2>&1)
    verdict=$(echo "$r" | grep -o "exit [0-9] ([A-Za-z]*)" | tail -1)
    key=$(echo "$r" | grep -m1 "^VIOLATION" | grep -o "key=[^ ]*")
    nk=$(echo "$r" | grep -c "^VIOLATION")
    echo "$s $id quick -> $verdict ; violation keys: $nk ; first: $key" >> $out.part$k
  done
}
for k in $(seq 0 $((n-1))); do worker $k & done
wait
cat $out.part* | sort > $out; rm -f $out.part* $out.tmp
