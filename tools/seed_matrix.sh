#!/bin/bash
# Re-runs every stored seed against the CURRENT quick check of its property (tools/mutant.py) and records the verdicts
out=/verif/seeded/detection_matrix.txt
: > $out.tmp
for d in /verif/seeded/*/; do
  s=$(basename $d); id=${s:0:3}
  r=$(python3 /verif/tools/mutant.py $d/patch.diff $id quick 2>&1)
  verdict=$(echo "$r" | grep -o "exit [0-9] ([A-Za-z]*)" | tail -1)
  key=$(echo "$r" | grep -m1 "^VIOLATION" | grep -o "key=[^ ]*")
  nk=$(echo "$r" | grep -c "^VIOLATION")
  echo "$s $id quick -> $verdict ; violation keys: $nk ; first: $key" >> $out.tmp
done
mv $out.tmp $out
