#!/usr/bin/env python3
"""Rewrites `known:` lines whose key no longer triggers (per tools/known_audit.py logic) into `fixed:` lines, using a
table (property, key regex) -> subject substring of the /repo fix commit. Lines with no rule are left and printed."""
import re, os, subprocess, collections, sys
R = os.path.dirname(os.path.dirname(os.path.abspath(__file__)))
RULES = [
 ("C01", r"krigtest:iech0=0", "krigtest(iech0=0) processes all targets"),
 ("C01", r"krigtest:lhs-rhs-export", "krigtest returns all-zero LHS and RHS"),
 ("C01", r"rhs:undefined-target-drift", "external drift is undefined reuses the drift"),
 ("C03", r".*PENTA.*", "PENTA structure is not the pentaspherical"),
 ("C04", r"optim:active-cov-list.*", "ignore the list of active structures"),
 ("C04", r"optim:stale-cache.*", "failing optimised covariance-matrix request corrupts"),
 ("C04", r"neigh-ball:differs:nmaxi-exceeds.*", "empty when nmaxi exceeds the number of samples"),
 ("C04", r"neigh-ball:plain-scan-ignores-third.*", "isotropic moving-neighbourhood radius ignores the third"),
 ("C05", r"migrate:point-to-grid-fill:selection", "migrating points to a grid (expansion) reads the wrong sample"),
 ("C06", r"select:radius-without-coeffs.*", "isotropic moving-neighbourhood radius ignores the third"),
 ("C06", r"summary:.*", "neighbourhood summary (test_neigh) describes"),
 ("C06", r"ball:.*", "ball-tree search returns masked samples and ignores anisotropy"),
 ("C06", r"knn:not-in-increasing-order", "k-nearest neighbours are not returned in increasing"),
 ("C06", r"knn:ball-from-vectors.*", "Ball built from vectors frees the wrong number"),
 ("C07", r"setLocatorsByColIdx:.*", "setLocatorsByColIdx assigns the locators to the first columns"),
 ("C07", r"setNameByColIdx:.*", "setNameByColIdx can create two columns"),
 ("C07", r".*\[auto-rank.*", "automatic rank gives one column two roles"),
 ("C07", r".*\[deleted-uid\].*", "accepts the UID of a deleted column"),
 ("C07", r"names:regex-ambiguity", "generated name contains '.' is confused"),
 ("C07", r"active-count:.*", "getSampleNumber(true) counts samples whose selection"),
 ("C08", r"roundtrip:MeshEStandard:dims", "reloaded from a neutral file have a space dimension of 0"),
 ("C08", r"roundtrip:NeighBench:width", "NeighBench reloaded from a neutral file reports a width"),
 ("C08", r"roundtrip:NeighImage:crash.*", "NeighImage::_deserialize writes into an empty vector"),
 ("C08", r"roundtrip:FracEnviron:(file|crash).*", "FracEnviron cannot reload the neutral files"),
 ("C08", r".*DbMeshStandard.*", "DbMeshStandard::createFromNF dies"),
 ("C09", r"site:ASerializable::_recordReadVec.*", "vector readers accept one value too many"),
 ("C09", r"(Db|DbGraphO):(uncaught-exception|invalid-object-negative-dimension)|site:Db::_deserialize:resource-exhaustion|AnamDiscreteIR:resource-exhaustion", "Db::_deserialize crashes or exhausts memory"),
 ("C09", r"DbGrid:.*|site:DbGrid::_deserialize.*|DbMeshTurbo:.*", "DbGrid::_deserialize ignores the failure of the Db part"),
 ("C09", r"DbMeshStandard:valid-file:SIGFPE", "DbMeshStandard::createFromNF dies"),
 ("C09", r"MeshEStandard:valid-file:SIGSEGV", "reloaded from a neutral file have a space dimension of 0"),
 ("C09", r"NeighImage:valid-file:SIGSEGV", "NeighImage::_deserialize writes into an empty vector"),
 ("C10", r"(optim|covmat):stale-cache-after-failure", "failing optimised covariance-matrix request corrupts"),
 ("C10", r"mvndst:.*", "mvndst returns different values"),
 ("C10", r"kcalc:stale-after-update:(Stdv|Sigma00p)", "setVar does not invalidate"),
 ("C10", r"kcalc:stale-after-update:Y0p", "_deleteY0p deletes _Y0"),
 ("C10", r"vec:(erase|insert).*", "erase/insert(iterator) use an iterator of the shared storage"),
 ("C10", r"vec:getVector.*", "getVector() gives write access to a storage shared"),
 ("C11", r"dense:scale-row-col.*", "multiplyRow/divideRow map the vector"),
 ("C11", r"dense:prod(MatVec|VecMat)InPlace.*", "in-place products map x and y with the untransposed"),
 ("C11", r"dense:prodNormMat:vec.*", "vector is used as a column instead of a diagonal"),
 ("C11", r"generic:prodNormMatVecInPlace.*", "second factor read with transposed indices"),
 ("C11", r"prodMatMat:generic-fallback.*", "exchanges the two dimensions of op(y)"),
 ("C11", r"prodMatInPlace:.*", "both an operand and the destination"),
 ("C11", r"prodMatMat:factory:.*", "passes the back-end flag as a number of rows"),
 ("C11", r"sparse-eigen:prodVecMatInPlace.*", "stray '* xm'"),
 ("C11", r"sparse-(eigen|cs):transpose.*", "cs_transpose(old,0) drops the values"),
 ("C11", r"sparse-eigen:addScalarDiag.*", "only the diagonal terms already stored"),
 ("C11", r"sparse-cs:setDiagonal.*", "off-diagonal terms are kept"),
 ("C11", r"sparse-cs:prodVecMat.*", "output sized with the wrong dimension"),
 ("C11", r"sparse-cs:solve.*", "cs_cholsol returns 1 on success"),
 ("C11", r"sparse(-cs)?:(setValues|createFromAnyMatrix|NF_Triplet).*", "requested dimensions ignored when the last rows"),
 ("C11", r"sparse-(eigen|cs):prodNormMatMat.*", "result of a congruence is square"),
 ("C11", r"sparse-cs:resetFromTriplet.*", "allocated by malloc (csparse) and released by operator delete"),
 ("C11", r"vector:.*", "unqualified abs() is the integer one"),
 ("C13", r"simtub:cond:point-target|pgs:facies-at-data:point-target", "conditional turning bands onto a point Db"),
 ("C13", r"(pgs|gibbs):.*nbsimu>=2", "Gibbs results are stored in the wrong GAUSFAC"),
 ("C13", r"bounds:one-sided-beyond-20", "ignores a one-sided bound beyond"),
 ("C13", r"fixed-point-seed:.*", "park the random generator on its fixed point"),
 ("C14", r"lcg:fixed-point-seed", "park the random generator on its fixed point"),
 ("C14", r"moments:poisson.*", "law_poisson is biased"),
 ("C15", r"proj:rows-shifted.*", "turbo-mesh projection matrix rows are shifted"),
 ("C15", r"proj:rows-missing.*", "standard-mesh projection matrix lacks the rows"),
 ("C16", r"derived:(multiple|divider):.*", "coarsened / refined grids are misplaced"),
 ("C16", r"derived:subgrid:rotation", "createSubGrid misplaces the sub-grid"),
 ("C16", r"derived:dilate:.*", "Grid::dilate moves the origin by twice"),
 ("C16", r"locate:migrate-grid-to-point.*", "migration from a grid to points reads the node at the lower-left"),
 ("C17", r"fit:uncaught-exception:multivariate:.*", "automatic fitting throws std::length_error"),
 ("C17", r"sill:undefined:constant-sill.*|constraint:violated:constantSill=1", "constant-sill constraint returns undefined sills"),
 ("C17", r"constraint:sill-bound-applied-to-its-square-root.*", "sill constraints are applied to the square root"),
 ("C17", r"constraint:violated-after-structure-reduction:.*", "user bounds are dropped when the first fitting pass"),
 ("C17", r"option:lock_iso2d.*", "option lock_iso2d is ignored for 2-D"),
 ("C18", r"empirical-anam:gaussian-dilution.*", "Gaussian dilution ignores the non-positive data"),
 ("C18", r"empirical-anam:table-not-sorted.*", "law_invcdf_gaussian returns -0"),
 ("C18", r"anam-db:gaussianToRawByLocator.*", "gaussianToRawByLocator always fails"),
 ("C18", r"anam-db:normalScore.*", "normal score transform of a Db ignores the selection"),
 ("C19", r"reports-success:.*", "report success on some failures"),
 ("C19", r"rollback:(krigtest|simtub-cond):(addvar#2|after-preprocess|after-run)", "leave their temporary variables behind"),
 ("C19", r"rollback:kriging-extdrift:natural:image-neighbourhood", "report success on some failures"),
 ("C19", r"success-output-count:simfft", "simfft with nbsimu > 1 stores the first simulation only"),
 ("C04", r"krigingcalcul:sk-mean-not-added:.*|krigingcalcul:colcok:SK:estimation:calcul-wrong", "KrigingCalcul never adds the mean back"),
 ("C07", r"accessor-isUIDDefined", "isUIDDefined tests the wrong entry"),
 ("C07", r"accessor-useSel:getArrayByUID", "getArrayByUID(useSel) keeps the samples"),
 ("C07", r"setItem\[useSel\]:values", "setItem with useSel writes the values at the wrong samples"),
 ("C07", r"outofrange:upd.*", "updZVariable / updLocVariable write outside the table"),
 ("C03", r"route:range-converted-before-param:.*", "lose the requested range for shape-dependent structures"),
 ("C05", r"simtub:poisson-intensity.*", "masked samples change turning-bands simulations of intrinsic"),
 ("C05", r"evalCovMatrixSparse:request-for-variable-rank.*", "evalCovMatrixSparse writes out of bounds"),
 ("C07", r"accessor-getAllCoordinatesMat", "getAllCoordinatesMat writes out of bounds"),
 ("C10", r"optim:stale-cache-after-success:with-optim-switch", "optimisation is switched off keeps the target"),
 ("C10", r"incr:AnamHermite:.*", "setPsiHns / setPsiHn leave the cached mean"),
 ("C11", r"history:chol-.*:setMatrix-again:.*", "keep (part of) the previous factorisation when setMatrix"),
 ("C11", r"history:chol-.*:copy:.*", "copying a Cholesky helper shares or loses"),
 ("C13", r"history:simtub:POWER.*", "depend on the scale of a previous POWER simulation"),
 ("C14", r"fft:spherical-aniso:.*", "simfft ignores the anisotropy"),
 ("C14", r"fft:spherical-5x3:.*", "simfft addresses its spectrum with the wrong index order"),
 ("C14", r"spectral:(gaussian|matern1):.*", "draws the frequencies of the Gaussian and Matern"),
 ("C14", r"spectral:exponential-sill2:.*", "spectral simulation ignores the sill"),
 ("C14", r"tb:power1.5-incr:.*", "apply the scale of a POWER structure the wrong way round"),
 ("C19", r"crash:dbStatisticsOnGrid:baseline.*MEDIAN.*", "dbStatisticsOnGrid(MEDIAN) overflows"),
 ("C19", r"rollback:(rawToGaussian|rawToGaussianByLocator|normalScore|gaussianToRawByLocator|rawToFactor|ConditionalExpectation|DisjunctiveKriging|UniformConditioning):(after-preprocess|after-run)", "anamorphosis transforms leave their output variables behind"),
 ("C19", r"rollback:krigingFactors:.*", "failing krigingFactors leaves the Z locators"),
 ("C19", r".*tessellation_poisson.*", "tessellation_poisson takes a column index for the UID"),
 ("C19", r"success-output-names:dbg2gExpand", "dbg2gExpand ignores its naming convention"),
 ("C05", r"Vario::getMeans:.*", "Vario::_getStatistics computes the means over all active"),
 ("C13", r"(gibbs:bounds|pgs:facies-at-data):nburn=0", "AGibbs::_getBoundsDecay stops relaxing the bounds at iter == nburn"),
 ("C19", r".*MEDIAN.*", "dbStatisticsOnGrid(MEDIAN)"),
 ("C19", r"pair-final-differs:.*", "KrigingSystem gives the caller's neighborhood back"),
 ("C11", r"aliasing:matvec-inplace.*", "in-place matrix-vector products work on a copy"),
 ("C11", r"aliasing:prodMatMatInPlace.*", "prodMatMatInPlace evaluates the product in a temporary"),
 ("C20", r".*", ""),
]
log = subprocess.check_output(["git", "-C", "/repo", "log", "--format=%h %s"], text=True).splitlines()
def commit_for(sub):
    for l in log:
        if sub in l and not l.split(" ", 1)[1].startswith("Revert"):
            return l.split()[0]
    return None
trig = collections.defaultdict(set)
for f in os.listdir(R + "/build/runlogs"):
    m = re.match(r"(C\d+)_(quick|thorough)\.log", f)
    if not m: continue
    for line in open(R + "/build/runlogs/" + f, errors="replace"):
        k = re.match(r"(KNOWN-FINDING:|VIOLATION) property=(\S+) .*?key=(\S+)", line)
        if k: trig[k.group(2)].add(k.group(3))
only = set(sys.argv[1:])
out, left = [], []
for line in open(R + "/known_findings.txt"):
    k = re.match(r"known:\s+property=(\S+)\s+key=(\S+)\s*(.*)", line)
    if not k or k.group(2) in trig[k.group(1)] or (only and k.group(1) not in only):
        out.append(line); continue
    p, key, text = k.groups()
    c = None
    for rp, rx, sub in RULES:
        if rp == p and sub and re.fullmatch(rx, key):
            c = commit_for(sub); break
    if c is None:
        left.append((p, key)); out.append(line); continue
    out.append("fixed: property=%s %s key=%s %s\n" % (p, c, key, text))
open(R + "/known_findings.txt", "w").writelines(out)
print("converted:", sum(1 for l in out if l.startswith("fixed:")), "fixed lines in file; left as known although not triggered:")
for p, k in left: print("   ", p, k)
