#!/usr/bin/env python3
"""Group confirmation of the seeds that have no confirm.json yet (used for round 3, where 20 separate suite runs did not
fit in the time left):
  1. per seed, in the confirmation worktree /var/tmp/seedconf: demo exits 0 on the original library, patch applies and
     builds, demo exits non-zero with the patch (tools/confirm_seed.py --skip-suite);
  2. ALL those patches applied together (they touch disjoint functions), one build, the repository's suite run once in
     two passes: every stable test must pass.  A test broken by one patch cannot be repaired by an unrelated one, so a
     clean joint run clears each patch; a failing joint run would have to be bisected.
Writes seeded/<seed>/confirm.json with "suite": "joint run with <list>"."""
import json, os, re, subprocess, sys
R = os.path.dirname(os.path.dirname(os.path.abspath(__file__)))
W = "/var/tmp/seedconf"
seeds = [d for d in sorted(os.listdir(R + "/seeded")) if os.path.isdir(R + "/seeded/" + d) and os.path.exists(R + "/seeded/" + d + "/patch.diff")
         and not os.path.exists(R + "/seeded/" + d + "/confirm.json")]
if len(sys.argv) > 1:
    seeds = [s for s in seeds if s in sys.argv[1:]]
print("seeds:", seeds, flush=True)
part = {}
for s in seeds:
    d = R + "/seeded/" + s
    r = subprocess.run(["python3", R + "/tools/confirm_seed.py", d, "--skip-suite"], stdout=subprocess.PIPE, stderr=subprocess.STDOUT, text=True)
    try:
        part[s] = json.loads(r.stdout[r.stdout.index("{"):])
    except Exception:
        part[s] = {"error": r.stdout[-800:]}
    json.dump(part[s], open(d + "/confirm_demo.json", "w"), indent=1)
    print(s, {k: part[s].get(k) for k in ("demo_original_exit", "apply", "build_patched", "demo_patched_exit")}, flush=True)
ok = [s for s in seeds if part[s].get("demo_original_exit") == 0 and part[s].get("build_patched") == 0 and part[s].get("demo_patched_exit") not in (0, None)]
def sh(cmd):
    os.makedirs(W + "/_nfdir", exist_ok=True)
    r = subprocess.run(cmd, shell=True, cwd=W, stdout=subprocess.PIPE, stderr=subprocess.STDOUT, text=True, env=dict(os.environ, PYGSTLEARN_DIR=W + "/_nfdir/"))
    return r.returncode, r.stdout
sh("git checkout -q -- .")
applied = []
for s in ok:
    rc, out = sh("git apply %s/seeded/%s/patch.diff" % (R, s))
    if rc == 0:
        applied.append(s)
    else:
        print("joint apply failed for", s, out[-300:], flush=True)
rc, out = sh("cmake --build _build -j12")
print("joint build", rc, flush=True)
failing = None
if rc == 0:
    rc, out = sh("ctest --test-dir _build -j8 --timeout 1800 -E _cmp$ ; ctest --test-dir _build -j8 --timeout 900 -R _cmp$")
    passed = set(re.findall(r"Test\s+#\d+:\s+(\S+)\s+\.+\s+Passed", out))
    stable = [t.split("::")[0] for t in json.load(open("/root/.vp/BASELINE.json"))["stable_pass"]]
    failing = [t for t in stable if t not in passed]
    print("joint suite: stable failing =", failing, flush=True)
sh("git checkout -q -- .")
sh("cmake --build _build -j12")
for s in seeds:
    res = dict(part[s])
    res["suite"] = "joint run with " + ",".join(applied) if s in applied else "not part of the joint run"
    res["stable_failing_with_patch"] = failing if s in applied else None
    res["confirmed"] = bool(s in applied and failing == [])
    json.dump(res, open(R + "/seeded/" + s + "/confirm.json", "w"), indent=1)
    print(s, "confirmed" if res["confirmed"] else "NOT confirmed", flush=True)
