#!/usr/bin/env python3
"""Lists the `known:` lines of known_findings.txt whose key was NOT reported by the last quick+thorough runs
(build/runlogs/<ID>_<tier>.log) -> candidates for conversion to `fixed:` ; and the keys that still trigger."""
import re, os, sys, collections
R = os.path.dirname(os.path.dirname(os.path.abspath(__file__)))
trig = collections.defaultdict(set)
have = collections.defaultdict(set)
for f in os.listdir(R + "/build/runlogs"):
    m = re.match(r"(C\d+)_(quick|thorough)\.log", f)
    if not m: continue
    have[m.group(1)].add(m.group(2))
    for line in open(R + "/build/runlogs/" + f, errors="replace"):
        k = re.match(r"KNOWN-FINDING: property=(\S+) key=(\S+)", line)
        if k: trig[k.group(1)].add(k.group(2))
stale = collections.defaultdict(list)
for line in open(R + "/known_findings.txt"):
    k = re.match(r"known:\s+property=(\S+)\s+key=(\S+)", line)
    if not k: continue
    if k.group(2) not in trig[k.group(1)]:
        stale[k.group(1)].append(k.group(2))
for p in sorted(set(list(stale) + list(trig))):
    print(p, "tiers run:", sorted(have[p]), "still triggered:", len(trig[p]), "not triggered:", len(stale[p]))
    if "-v" in sys.argv:
        for k in stale[p]: print("    stale:", k)
