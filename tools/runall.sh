#!/bin/bash
# usage: tools/runall.sh quick|thorough [IDs...]   -> build/runlogs/<ID>_<tier>.log, one summary line per check
tier=$1; shift
ids="$@"; [ -z "$ids" ] && ids=$(ls /verif/checks.d | sed 's/.json//')
for id in $ids; do
  s=$(date +%s)
  python3-vt /verif/vf.py run $id $tier > /verif/build/runlogs/${id}_${tier}.log 2>&1; rc=$?
  e=$(date +%s)
  echo "$id $tier exit=$rc wall=$((e-s))s viol=$(grep -c '^VIOLATION' /verif/build/runlogs/${id}_${tier}.log) known=$(grep -c '^KNOWN-FINDING' /verif/build/runlogs/${id}_${tier}.log) $(grep -m1 '^\[vf\] C' /verif/build/runlogs/${id}_${tier}.log | cut -c1-160)"
done
