#!/usr/bin/env python3
"""Runs the repository's own suite (guard OFF: /repo/_build never defines GSTLEARN_VERIF) and compares with
BASELINE.json's stable tests.  usage: baseline.py [repo_dir]   exit 0 iff every stable test passed."""
import json, os, re, subprocess, sys
repo = sys.argv[1] if len(sys.argv) > 1 else "/repo"
bd = repo + "/_build"
r = subprocess.run(["cmake", "--build", bd, "-j16"], stdout=subprocess.PIPE, stderr=subprocess.STDOUT, text=True)
if r.returncode != 0:
    print(r.stdout[-3000:]); print("BUILD FAILED"); sys.exit(2)
# the *_cmp tests diff the .out file written by their producer test and declare no dependency on it: run the producers first
out = ""
for sel in (["-E", "_cmp$"], ["-R", "_cmp$"]):
    os.makedirs(bd + "/_nfdir", exist_ok=True)  # bench_NF writes into $HOME/gstlearn_dir unless told otherwise: keep concurrent suites apart
    r = subprocess.run(["ctest", "--test-dir", bd, "-j8", "--timeout", "1800"] + sel, stdout=subprocess.PIPE, stderr=subprocess.STDOUT, text=True,
                       env=dict(os.environ, PYGSTLEARN_DIR=bd + "/_nfdir/"))
    out += r.stdout
passed = set(re.findall(r"Test\s+#\d+:\s+(\S+)\s+\.+\s+Passed", out))
stable = [s.split("::")[0] for s in json.load(open("/root/.vp/BASELINE.json"))["stable_pass"]]
bad = [s for s in stable if s not in passed]
print("stable tests: %d, passed: %d, failing stable tests: %s" % (len(stable), len(stable) - len(bad), bad))
sys.exit(1 if bad else 0)
