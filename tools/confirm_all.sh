#!/bin/bash
# confirm every seed under /verif/seeded that has no confirm.json yet
for d in /verif/seeded/*/; do
  [ -f $d/confirm.json ] && continue
  python3 /verif/tools/confirm_seed.py $d > $d/confirm.json.tmp 2>&1 && mv $d/confirm.json.tmp $d/confirm.json || mv $d/confirm.json.tmp $d/confirm.json
  echo "$d $(grep -o '"confirmed": [a-z]*' $d/confirm.json)"
done
