#!/usr/bin/env python3
"""Run /verif checks against a MUTATED copy of /repo without touching /repo.

  tools/mutant.py <patch.diff> <ID>[,<ID>...] [quick|thorough]

The patch (git diff format, -p1) is applied to a private copy of /repo's working tree under /var/tmp.
* only .cpp files changed  -> the changed translation units are compiled with the library's flags and linked
  *before* libgstlearn.a (they override the archive members): ~10-20 s.
* a header changed         -> a complete private build of the copy (~75 s per flavour on 16 cores).
Evidence / replay files go to a temporary directory (never to /verif/evidence). Exit status: 1 if any check
reported a VIOLATION (= mutant detected), 0 if all were silent, 2 on tool failure.
"""
import json, os, re, shutil, subprocess, sys, tempfile
ROOT = os.path.dirname(os.path.dirname(os.path.abspath(__file__)))
patch = os.path.abspath(sys.argv[1])
ids = sys.argv[2].split(",")
tier = sys.argv[3] if len(sys.argv) > 3 else "quick"
work = tempfile.mkdtemp(prefix="vf_mut_", dir="/var/tmp")
rc_all = 0
try:
    rp = os.path.join(work, "repo")
    subprocess.check_call(["rsync", "-a", "--exclude", "_build", "--exclude", ".git", "/repo/", rp + "/"])
    r = subprocess.run(["patch", "-p1", "-d", rp, "-i", patch], stdout=subprocess.PIPE, stderr=subprocess.STDOUT, text=True)
    if r.returncode != 0:
        print(r.stdout); print("patch does not apply"); sys.exit(2)
    changed = re.findall(r"^\+\+\+ b/(\S+)", open(patch).read(), re.M)
    headers = [c for c in changed if not c.endswith(".cpp")]
    flav = {i: json.load(open(os.path.join(ROOT, "checks.d", i + ".json"))).get("flavour", "rel") for i in ids}
    env = dict(os.environ, VF_REPO=rp, VF_OUT=os.path.join(work, "out"), VF_TAG="_mut%d" % os.getpid())
    if headers:
        env["VF_BUILD"] = os.path.join(work, "build")
        print("[mutant] header(s) changed (%s): full private build" % headers, flush=True)
    else:
        FLAGS = {"rel": "-Wno-error -DGSTLEARN_VERIF -O3 -DNDEBUG",
                 "asan": "-Wno-error -DGSTLEARN_VERIF -O1 -g1 -fsanitize=address -fno-omit-frame-pointer -O3 -DNDEBUG"}
        env["VF_SKIP_LIB_BUILD"] = "1"
        objs = {}
        for fl in set(flav.values()):
            objs[fl] = []
            for c in changed:
                o = os.path.join(work, fl + "_" + c.replace("/", "_") + ".o")
                cmd = ["g++"] + FLAGS[fl].split() + ["-DNLOPT_DLL", "-DOPENMP", "-std=gnu++20", "-fPIC", "-DGSTLEARN_STATIC_DEFINE", "-fopenmp", "-w",
                       "-I" + rp + "/include", "-I" + os.path.join(ROOT, "build", fl), "-I" + rp + "/3rd-party/csparse", "-I" + rp + "/3rd-party/gmtsph",
                       "-isystem", "/usr/include/eigen3", "-c", os.path.join(rp, c), "-o", o]
                r = subprocess.run(cmd, stdout=subprocess.PIPE, stderr=subprocess.STDOUT, text=True)
                if r.returncode != 0:
                    print(r.stdout[-3000:]); print("mutant does not compile"); sys.exit(2)
                objs[fl].append(o)
    for i in ids:
        e = dict(env)
        if not headers:
            e["VF_EXTRA_OBJS"] = " ".join(objs[flav[i]])
        rc = subprocess.call(["python3-vt", os.path.join(ROOT, "vf.py"), "run", i, tier], env=e)
        print("[mutant] %s %s -> exit %d (%s)" % (i, tier, rc, "DETECTED" if rc == 1 else "silent" if rc == 0 else "BROKEN"), flush=True)
        if rc == 1: rc_all = max(rc_all, 1)
        if rc == 2: rc_all = 2
finally:
    shutil.rmtree(work, ignore_errors=True)
    for f in os.listdir(os.path.join(ROOT, "build", "bin")) if os.path.isdir(os.path.join(ROOT, "build", "bin")) else []:
        if f.endswith("_mut%d" % os.getpid()):
            os.remove(os.path.join(ROOT, "build", "bin", f))
sys.exit(rc_all)
