#!/usr/bin/env python3
"""Writes seeded/<seed>/meta.json from the table below + confirm.json (run after tools/confirm_all.sh)."""
import json, os
R = os.path.dirname(os.path.dirname(os.path.abspath(__file__)))
T = {
 # seed: (property, needs, caught_by, first_key, what_was_run)
 "C20a": ("C20", "query point level with the upper end of a slanted edge traversed upwards, x inside the edge's x-span", "C20 quick", "pip:closed"),
 "C20b": ("C20", "polygon left open + vertical limits + 3-D query with z outside the limits", "C20 quick", "polyset:union:zlimit-excludes-one"),
 "C01a": ("C01", "measurement-error variances (V) together with a model without drift (simple (co)kriging)", "C01 quick", "estim:known-mean:*"),
 "C01b": ("C01", ">= 2 variables, drift, flag_varz, variable 2 or later", "C01 quick", "varz:drift:multivar:*"),
 "C04a": ("C04", "one NeighMoving with ball search attached, samples of the same Db moved in place, attached/used again", "C04 quick (after adding part p4_ball_history; missed before)", "ball-reuse:kriging-after-edit"),
 "C04b": ("C04", "multivariate model with differing sill rows and explicit ivar0 >= 1 in the optimised covariance matrix", "C04 quick", "optim:rect:mode=null"),
 "C06a": ("C06", "nsect > 1, more candidates than nmaxi, one sector empty or poorer than the number of rounds", "C06 quick", "select:size:sectors"),
 "C06b": ("C06", "ball tree with a non-Euclidean metric (Manhattan / user) and more than one node", "C06 quick", "knn:not-the-k-closest"),
 "C07a": ("C07", "a versioned name at a lower column index than its base name, then a new request for the base name", "C07 quick", "addColumnsByConstant:names-unique"),
 "C07b": ("C07", "delete a non-last column, then setArrayBySample", "C07 quick (after adding the by-sample ops to the alphabet; missed before)", "setArrayBySample:values"),
 "C10a": ("C10", "a VectorNumT sharing its buffer with a copy, then add/subtract/multiply/divide(vector)", "C10 quick", "vec:add(b):changes-another-handle"),
 "C10b": ("C10", "model with a filtered structure, one optimised covariance-matrix request, then any later request on the same model", "C10 quick (after adding option-changing calls to the hist alphabet; missed before)", "optim:stale-cache-after-success:with-filtered-structure"),
 "C12a": ("C12", "cylinder radius together with a non-unit direction vector", "C12 quick", "vario:sw:variogram:regular+tolang+cyl"),
 "C12b": ("C12", "grid algorithm, >= 2 variables, Z1 undefined where another variable is defined", "C12 quick (after extending the grid parts to heterotopic multivariate grids; missed before)", "grid:sw:variogram:grid:heterotopic"),
 "C03a": ("C03", "STABLE structure with shape <= 0.35 at distances beyond 100 scale units", "C03 quick", "form:STABLE"),
 "C03b": ("C03", "3-D anisotropy with first or second rotation angle outside [0,180[ and a non-zero later angle", "C03 quick", "form:EXPONENTIAL:aniso"),
 "C09a": ("C09", "Db neutral file whose counts are valid ints but whose product wraps (>= 2^31)", "C09 quick", "Db:uncaught-exception"),
 "C02a": ("C02", "target on a datum + numerically demanding system (Gaussian/cubic without nugget, tens of samples): slightly negative variance becomes NaN", "C02 quick (after adding part stdev_always_finite on ill-conditioned systems; missed before)", "always:stdev-NaN:known-mean:unique"),
 "C02b": ("C02", "model with drift and an input Db whose first nech rows have an undefined variable", "C02 quick", "unbiased:wgt-shape:drift:monovar:moving"),
 "C05a": ("C05", "xvalid in unique neighbourhood with an active sample whose value is undefined and which is not the last one", "C05 quick", "xvalid:unique:undefined-value"),
 "C05b": ("C05", "conditional simtub onto a grid with a masked datum lying exactly on a grid node", "C05 quick (after adding part simtub_data_on_grid_nodes; missed before)", "simtub-on-nodes:masked-datum-on-node:differs-from-removed:*"),
 "C08a": ("C08", "Model with a Matern/Stable/Cauchy/Gamma structure whose third parameter is not 1", "C08 quick", "roundtrip:Model:cova"),
 "C08b": ("C08", "polygon set where an earlier element has vertical limits and a later one has them undefined", "C08 quick", "roundtrip:Polygons:rewrite-differs"),
 "C11a": ("C11", "sparse x sparse product with both transposition flags and two different non-commuting operands", "C11 quick", "prodMatMat:sparse-kernel:sparse-eigen:TT:nonsquare"),
 "C11b": ("C11", "inverse of the dense Cholesky factor for order >= 3", "C11 quick", "chol-dense:triangles"),
 "C13a": ("C13", "turning bands of a POWER model after an earlier POWER simulation with the same exponent and another scale (stale function-static constants; patch.diff rebased after the repair of that cache in /repo: it removes the repaired condition, same mechanism; the original is patch_as_seeded.diff)", "C13 quick (after adding part history with a pristine fork+exec reference; missed before)", "history:simtub:POWER"),
 "C13b": ("C13", "conditional plurigaussian with a rule using the second GRF and data exactly on target nodes", "C13 quick", "pgs:facies-at-data"),
 "C15a": ("C15", "matrix-free operator with an even number of Markov coefficients (param + ndim/2 odd)", "C15 quick", "opq:matrixfree-vs-assembled:turbo1d:matern"),
 "C15b": ("C15", "turbo mesh both rotated and with unequal cell sizes", "C15 quick", "proj:affine-not-reproduced:turbo3d"),
 "C18a": ("C18", "gaussianToRaw on >= 2 variables whose UIDs are not consecutive in locator order", "C18 quick (after adding part anam_db_layout; missed before)", "anam-db:gaussianToRawByLocator:interleaved:wrong-values"),
 "C18b": ("C18", "PCA/MAF on a Db with a selection or undefined values and non-centred variables", "C18 quick", "pca:factor-mean"),
 "C19a": ("C19", "calculator run without input Db failing after pre-processing (e.g. non-conditional simtub with a structure turning bands cannot simulate)", "C19 quick", "rollback:fluid_propagation:addvar#2"),
 "C19b": ("C19", "dbRegression with an explicit auxiliary Db different from the first one", "C19 quick (after adding two-Db scenarios and snapshots of every Db involved; missed before)", "success-changes-input:dbRegression-db2-larger"),
 "C16a": ("C16", "rotated grid and centered=true in coordinates -> indices", "C16 quick", "coord-roundtrip:centered:rotated"),
 "C16b": ("C16", "rotated grid with unequal mesh sizes through point_to_grid / index_point_to_grid", "C16 quick", "locate:point_to_grid:rotated"),
 "C17a": ("C17", ">= 2 variables, constant-total-sill constraint, unconstrained sill matrix not positive definite, larger rescale factor second", "C17 quick", "sill:not-psd:NUGGET:nvar=2"),
 "C17b": ("C17", "item constraint on a structure that is not the first, an earlier structure pruned, pass not converged within maxiter", "C17 quick", "constraint:violated-after-structure-reduction:sill"),
 "C14a": ("C14", "law_binomial in the BTPE branch with n*p*q > 42", "C14 quick", "moments:binomial:BTPE"),
 "C14b": ("C14", "turning bands on a grid support with a Matern structure of parameter < 0.5", "C14 quick (after adding part tb_grid_vs_points; missed before)", "tb:grid-vs-points:MATERN(0.3)"),
 "C01c": ("C01", "heterotopic multivariate data + moving neighbourhood: a heterotopic neighbourhood followed by an isotopic one of the same size in one kriging() call", "C01 quick", "estim:drift:multivar:block:isotopic"),
 "C02c": ("C02", "cokriging with >= 2 variables and >= 2 drift functions per variable (drift equations permuted in the LHS)", "C02 quick", "unbiased:monomial:drift:multivar:moving"),
 "C03c": ("C03", "rotated structure whose radius is changed through setRange(idim)/setScale(idim) after the rotation was set", "C03 quick (after adding the construction-route and setter-sequence parts; missed before)", "setters:eval:after=setRange(0,.)"),
 "C04c": ("C04", "migrate with flag_ball and dist_type=2 (tree built with the Manhattan metric)", "C04 quick", "migrate-ball:point-to-point:differs"),
 "C05c": ("C05", "covariance/drift matrix requested for ONE variable of rank >= 1 on heterotopic multivariate data", "C05 quick (after adding part one_variable_requests_on_heterotopic_data; missed before)", "evalCovMatrix:variable-restricted-request:rank>=1"),
 "C06c": ("C06", "sectors + a candidate with exactly the same first coordinate as the target on the dy<0 side", "C06 quick (after adding part aligned with exact boundary classification; missed before)", "select:size:sectors"),
 "C07c": ("C07", "selection defined, active status queried once, then a role-less column stored before the selection column deleted (stale cached column index)", "C07 quick (after adding the observeAll step and the 'observed since last mutation' state bit; missed before)", "deleteColumnByColIdx:active-isActive"),
 "C08c": ("C08", "Model with a mixed drift monomial of degree >= 3 (exponent > 1 followed by a factor without exponent)", "C08 quick (after adding part rt_ModelDrift with all monomials of degree <= 3; missed before)", "roundtrip:Model:drift"),
 "C10c": ("C10", "isotropic structure then setRange(0,r)/setScale(0,s) only: stale isotropy flag (incremental update differs from fresh build)", "C10 quick (after adding the incr_* parts: incrementally updated objects vs fresh ones; missed before)", "incr:CovAniso(spherical):isIsotropic"),
 "C11c": ("C11", "eigen-decomposition cached on one matrix object and not invalidated by addScalar/addScalarDiag/prodScalar/addMatInPlace (patch.diff rebased over a later fix commit touching the same function; the original is patch_as_seeded.diff)", "C11 quick (after adding part history_matrix on one live object; missed before)", "history:dense:computeEigen:after:addScalar"),
 "C12c": ("C12", "asymmetric estimator cross term with tolang >= 90 and codir not +x (pair orientation by sample order)", "C12 quick (after fixing one orientation convention per run + mirror-direction relation; missed before)", "vario:gg:covariance:regular:cross"),
 "C15c": ("C15", "SPDE kriging with a V column, a selection masking a non-trailing sample and non-constant V", "C15 quick (after crossing the layout axes and rebuilding data/variances/RHS independently; missed before)", "solve:data-variances-not-those-of-the-active-samples:cholesky"),
 "C16c": ("C16", "getCoordinate of a node, in-place geometry setter, getCoordinate of the same node (stale memo)", "C16 quick (after adding the history_grid/dbgrid parts; missed before)", "history:getCoordinate:after-in-place-edit"),
 "C17c": ("C17", "constraint declared through addItemFromParamId with iv1 >= 1 (Range V/W, 2nd/3rd angle) on an anisotropic fit", "C17 quick (after adding part constraint_routes: every declaration route x element x iv1; missed before)", "constraint-route:addItemFromParamId:angle:iv1=2:not-applied"),
 "C09c": ("C09", "CSV file of 0, 1 or 2 bytes (loader never returns)", "C09 quick", "PolygonsCSV:truncated:exception-or-exhaustion"),
 "C13c": ("C13", "conditional multivariate simtub, heterotopic datum (earlier variable undefined) on a target, model with nugget", "C13 quick (after adding part simtub_hetero; missed before)", "simtub:hetero:grid-target"),
 "C14c": ("C14", "turning bands (spectral method structures) on a grid whose selection masks a node followed by an active node in the same row", "C14 quick (after adding the selection axis to tb_grid_vs_points; missed before)", "tb:grid-masked-vs-unmasked:GAUSSIAN"),
 "C18c": ("C18", "the same PCA object computed twice (stale accumulators)", "C18 quick (after adding part reuse judging the C18 clauses on refitted objects; missed before)", "reuse:pca:pca>pca:factor-mean"),
 "C19c": ("C19", "xvalid with flag_est=0, flag_std!=0 on multivariate data (pre-existing columns overwritten)", "C19 quick (after adding part flags: all output-flag combinations x nvar; missed before)", "success-changes-old-values:xvalid"),
 "C20c": ("C20", "vertices replaced through setX/setY on an existing PolyElem/Polygons (stale cached bounding box)", "C20 quick (after adding the history_polyelem/history_polygons parts; missed before)", "history:PolyElem:inside-after:setX+setY"),
 "C09b": ("C09", "24/32-bit BMP whose colour-count header field exceeds 256", "C09 quick (after adding the binary grid readers with header-field faults; missed before)", "GridBmp:header-field:biClrUsed=small:memory-error"),
 # ---- round 3 (one seed per property, written after the seeders were told what rounds 1-2 had used) ----
 "C01d": ("C01", "anisotropic structure whose scales differ by < 1e-3 in coordinate units (all lengths in a small unit): absolute-tolerance isotropy shortcut in the kriging projection", "C01 quick and C02 quick (after adding the parts scale / rescale: every case re-run with lengths x 2^-20..2^20 and values x 2^-8..2^6; missed before: O(1) lengths only)", ""),
 "C02d": ("C02", "drift list not closed under translation ({1,x^2}, {1,xy}...) and a field whose lower corner is not at 0", "C02 quick", "unbiased:monomial:drift:multivar:unique"),
 "C03d": ("C03", "zonal anisotropy (range ratio >= 1e6) whose long axis is not aligned with a coordinate axis, plain evaluation path", "C03 quick (after adding part extreme: range ratios up to 1e9 x rotations; missed before: ratios <= 10)", ""),
 "C04d": ("C04", "ball tree with at least three levels ((n-1)/leaf_size >= 4: 41 samples with the default leaf size, 121 through migrate): wrong pruning bound in the node search", "C04 quick", "neigh-ball:differs"),
 "C05d": ("C05", "facies variable + selection where the largest label occurs only at masked samples (getFaciesNumber, dbStatisticsFacies, computeIndic)", "C05 quick (after adding part other_sample_readers_masked_vs_removed; missed before: facies statistics not in the operation list)", ""),
 "C06d": ("C06", "K-fold cross-validation with a target Db different from the input Db and different codes", "C06 quick (after adding part xvalid_separate; missed before: dbout = dbin only)", ""),
 "C07d": ("C07", "setLocators with a name list designating one column twice, the literal name coming second", "C07 quick (after adding 31 degenerate-vector calls and reader clauses on degenerate lists; missed before: vector arguments never repeated an element)", ""),
 "C08d": ("C08", "negative Db value needing 15 digits with a three-digit exponent (22-character text)", "C08 quick (after adding 35 formatting-extreme values - three-digit exponents, denormals, 15-17 significant digits - to every value slot; missed before: value menu lacked the longest texts)", ""),
 "C09d": ("C09", "word >= ~1000 characters taken from the malformed file and echoed by messerr (stack buffer overrun while reporting the failure), verbose loaders", "C09 quick (after adding the fault kind =long: words of 900..5000 characters at every token position, loaders run verbose; missed before)", ""),
 "C10d": ("C10", "mvndst with every variable unbounded or an invalid count leaves the generator on its internal seed", "C10 quick (after adding the generator rule + part rng_neutral; missed before: generator state after non-random calls not judged)", ""),
 "C11d": ("C11", "solve(b, x) called with the same VectorDouble object as right-hand side and solution on a dense storage", "C11 quick (after adding part aliasing: every operation with an input and an output argument called with the same object on both sides; missed before)", ""),
 "C12d": ("C12", "db_vmap FFT route with padded length (nx+nxx-1) multiple of 8", "C12 quick (after adding part vmap_grid: FFT route vs direct route vs brute-force pair sums over every grid size / half-size residue mod 8; missed before: db_vmap not exercised)", ""),
 "C13d": ("C13", "Gibbs schedule with exactly one sweep after burn-in (niter = nburn+1) and interval bounds / conditional simpgs (patch rebased on fix 06c40bc19, same final code)", "C13 quick (after adding the (nburn, niter) schedule axis incl. niter = nburn + 1; missed before: one schedule 5/15)", ""),
 "C14d": ("C14", "simfft on a rotated grid with non-square mesh and an anisotropic model (transposed mesh matrix)", "C14 quick (after adding part fft_kernel: covariance discretised by simfft, transformed back with the library's fftn, against Model::eval on rotated / non-square grids; missed before)", ""),
 "C15d": ("C15", "MeshEStandard 2-D with coordinates large relative to the mesh size (UTM-like origin, mesh 2-25 m): closed-form determinant cancels", "C15 quick (after running every mesh in 7 frames x' = s x + t incl. non-dyadic UTM-like shifts, reference solved in cell-local coordinates; missed before: coordinates of order 1)", ""),
 "C16d": ("C16", "grid mesh <= 1e-3 in coordinate units (tolerance added before the division by the mesh)", "C16 quick (after adding parts meshscale_1d/2d/3d: mesh sizes 2^-20..2^20; missed before: meshes of order 1)", ""),
 "C17d": ("C17", "lock_samerot with a range-less first structure (LINEAR, POWER...) followed by ranged structures, rotation inferred", "C17 quick (after adding part samerot_lists: structure lists starting with a range-less structure x lock_samerot; missed before)", ""),
 "C18d": ("C18", "Hermite anamorphosis with pymax < aymax (left-skewed / bimodal data): upper linear junction of Gaussian -> raw", "C18 quick", "hermite-anam:y-z-y"),
 "C19d": ("C19", "roll-back of permanent variables by column index instead of UID: failure on a Db that already has a hole in its UID table", "C19 quick", "rollback:xvalid:addvar#2"),
 "C20d": ("C20", "query ordinate one ulp away from a vertex ordinate (computed lattice k*0.1 against typed tenths), point far from the boundary", "C20 quick (after adding parts decimal_tri/decimal_quad with an exact 128-bit reference; missed before: dyadic coordinates only)", "pip:decimal-lattice"),
}
MX = {}
mp = os.path.join(R, "seeded", "detection_matrix.txt")
if os.path.exists(mp):
    import re
    for line in open(mp):
        m = re.match(r"(\S+) (\S+) quick -> exit (\d) \((\w+)\) ; violation keys: (\d+) ; first: key=(\S*)", line)
        if m:
            MX[m.group(1)] = (m.group(4), m.group(6))
for seed, (prop, needs, caught, key) in T.items():
    if seed in MX and MX[seed][0] == "DETECTED":
        key = key or MX[seed][1]
        caught = caught or "%s quick" % prop
    elif seed in MX and not caught.startswith("MISSED"):
        caught = "MISSED by %s quick in the last detection-matrix run" % prop
    d = os.path.join(R, "seeded", seed)
    if not os.path.isdir(d):
        continue
    conf = None
    cp = os.path.join(d, "confirm.json")
    if os.path.exists(cp):
        try:
            txt = open(cp).read()
            conf = json.loads(txt[txt.index("{"):])
        except Exception:
            conf = None
    meta = dict(property=prop, needs=needs, caught_by=caught, first_key=key,
                confirmed=(conf or {}).get("confirmed"),
                ran=[("tools/confirm_group.py  (per seed: demo.cpp built and run without and with the patch; then all round-3 patches applied together in the confirmation worktree and the repository suite run once in two passes: %s)" % (conf or {}).get("suite")) if (conf or {}).get("suite") else
                     "tools/confirm_seed.py seeded/%s  (apply patch to the confirmation worktree, build, run the repository suite in two passes, build and run demo.cpp without and with the patch)" % seed,
                     "tools/mutant.py seeded/%s/patch.diff %s quick" % (seed, prop)],
                confirm=conf)
    json.dump(meta, open(os.path.join(d, "meta.json"), "w"), indent=1)
print("meta written")
