#!/usr/bin/env python3
"""Regenerates MANIFEST.json from checks.json + manifest_extra.json (single source of truth for the check list)."""
import json, os
R = os.path.dirname(os.path.abspath(__file__))
checks = {f[:-5]: json.load(open(os.path.join(R, "checks.d", f))) for f in sorted(os.listdir(os.path.join(R, "checks.d"))) if f.endswith(".json")}
extra = json.load(open(os.path.join(R, "manifest_extra.json")))
props = [json.loads(l)["id"] for l in open(os.path.join(R, "properties.jsonl"))]
m = dict(version=1, setup_cmd="python3-vt vf.py setup",
         hooks=extra["hooks"], engines=extra["engines"], checks=[], notes=extra["notes"], not_applicable=[])
for pid in props:
    if pid in checks:
        c = checks[pid]
        m["checks"].append(dict(
            property_id=pid,
            quick_cmd="python3-vt vf.py run %s quick" % pid,
            thorough_cmd="python3-vt vf.py run %s thorough" % pid,
            evidence_file="/verif/evidence/%s.json" % pid,
            replay_cmd_template="python3-vt vf.py replay {path}",
            engine=c.get("engine", "E1"),
            level_claimed=dict(category=c["level"], text=c["level_text"], design_ref=c.get("design_ref", "DESIGN.md section 3 (%s)" % pid)),
            level_note=c.get("level_note", "; ".join(c.get("assumptions", []))),
            technique=c["technique"]))
    else:
        m["not_applicable"].append(dict(property_id=pid, reason=extra["not_claimed"].get(pid, "no check registered yet (work in progress); nothing is claimed for this property")))
json.dump(m, open(os.path.join(R, "MANIFEST.json"), "w"), indent=1)
print("checks:", len(m["checks"]), "not claimed:", len(m["not_applicable"]))
