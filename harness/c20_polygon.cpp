// C20 — point-in-polygon decisions and polygon selections are geometrically exact.
// Engine E1: complete enumeration of all simple polygons on small lattices x all query points of a
// quarter-lattice; oracle = winding number in exact integer arithmetic (coordinates are multiples of 1/4,
// scaled by 4). Boundary points are excluded exactly (integer cross products), as the property says.
#include "vf/gst.hpp"
#include <array>

#include "Polygon/PolyElem.hpp"
#include "Polygon/Polygons.hpp"

using namespace vf;
typedef long long ll;
struct P { ll x, y; };  // in quarter units

static ll cross(P a, P b, P c) { return (b.x - a.x) * (c.y - a.y) - (c.x - a.x) * (b.y - a.y); }
static bool onSeg(P a, P b, P p)
{
  if (cross(a, b, p) != 0) return false;
  return std::min(a.x, b.x) <= p.x && p.x <= std::max(a.x, b.x) && std::min(a.y, b.y) <= p.y && p.y <= std::max(a.y, b.y);
}
static int sgn(ll v) { return v > 0 ? 1 : v < 0 ? -1 : 0; }
// proper or improper intersection of closed segments
static bool segInter(P a, P b, P c, P d)
{
  int d1 = sgn(cross(a, b, c)), d2 = sgn(cross(a, b, d)), d3 = sgn(cross(c, d, a)), d4 = sgn(cross(c, d, b));
  if (d1 * d2 < 0 && d3 * d4 < 0) return true;
  return onSeg(a, b, c) || onSeg(a, b, d) || onSeg(c, d, a) || onSeg(c, d, b);
}
// ring = vertices without the closing duplicate. simple = non adjacent edges disjoint, adjacent edges share
// exactly their common vertex (no fold-back), non-zero area. Flat (collinear) vertices are allowed.
static bool isSimple(const std::vector<P>& r)
{
  int n = (int)r.size();
  if (n < 3) return false;
  ll area2 = 0;
  for (int i = 0; i < n; i++) { P a = r[i], b = r[(i + 1) % n]; area2 += a.x * b.y - b.x * a.y; if (a.x == b.x && a.y == b.y) return false; }
  if (area2 == 0) return false;
  for (int i = 0; i < n; i++)
    for (int j = i + 1; j < n; j++)
    {
      P a = r[i], b = r[(i + 1) % n], c = r[j], d = r[(j + 1) % n];
      bool adj = (j == i + 1) || (i == 0 && j == n - 1);
      if (!adj) { if (segInter(a, b, c, d)) return false; continue; }
      // adjacent: shared vertex is b==c (j==i+1) or a==d (wrap)
      if (j == i + 1) { if (onSeg(a, b, d) || onSeg(c, d, a)) return false; }
      else            { if (onSeg(a, b, c) || onSeg(c, d, b)) return false; }
    }
  return true;
}
// -1: on the boundary; else winding number != 0
static int refInside(const std::vector<P>& r, P p)
{
  int n = (int)r.size(), wn = 0;
  for (int i = 0; i < n; i++)
  {
    P a = r[i], b = r[(i + 1) % n];
    if (onSeg(a, b, p)) return -1;
    ll c = cross(a, b, p);
    if (a.y <= p.y) { if (b.y > p.y && c > 0) wn++; }
    else            { if (b.y <= p.y && c < 0) wn--; }
  }
  return wn != 0 ? 1 : 0;
}
static void toXY(const std::vector<P>& r, bool close, VectorDouble& x, VectorDouble& y)
{
  x.clear(); y.clear();
  for (auto& p : r) { x.push_back(p.x / 4.); y.push_back(p.y / 4.); }
  if (close) { x.push_back(r[0].x / 4.); y.push_back(r[0].y / 4.); }
}
static std::string ringStr(const std::vector<P>& r)
{
  std::string s = "[";
  for (size_t i = 0; i < r.size(); i++) s += (i ? "," : "") + std::string("[") + fmt(r[i].x / 4.) + "," + fmt(r[i].y / 4.) + "]";
  return s + "]";
}

// judge one ring on all quarter-lattice query points covering [-0.5, L+0.5]^2.
// variants: 0 closed ring through PolyElem::inside, 1 open ring through Polygons::inside (which closes it),
//           2 open ring through PolyElem::inside directly (separate finding key)
static void judgeRing(Ctx& C, const std::vector<P>& r, int L, const std::string& kase, const char* keyprefix)
{
  VectorDouble x, y;
  toXY(r, true, x, y);
  PolyElem closed(x, y);
  toXY(r, false, x, y);
  PolyElem open(x, y);
  Polygons pset;
  pset.addPolyElem(open);
  bool level = false;
  VectorDouble coor(2);
  int nin = 0, nout = 0;
  for (ll qx = -2; qx <= 4 * L + 2; qx++)
    for (ll qy = -2; qy <= 4 * L + 2; qy++)
    {
      P p {qx, qy};
      int ref = refInside(r, p);
      if (ref < 0) { C.outcome("boundary-point-excluded"); continue; }
      for (auto& v : r) if (v.y == qy) level = true;
      coor[0] = qx / 4.; coor[1] = qy / 4.;
      ref ? nin++ : nout++;
      bool g0 = closed.inside(coor);
      bool g1 = pset.inside(coor, false);
      bool g2 = open.inside(coor);
      C.eval(3);
      if (g0 != (bool)ref)
        C.violation(std::string(keyprefix) + ":closed", "PolyElem::inside=" + std::to_string(g0) + " exact=" + std::to_string(ref) + " ring=" + ringStr(r) + " point=(" + fmt(coor[0]) + "," + fmt(coor[1]) + ")", kase);
      if (g1 != (bool)ref)
        C.violation(std::string(keyprefix) + ":open-via-Polygons", "Polygons::inside=" + std::to_string(g1) + " exact=" + std::to_string(ref) + " open ring=" + ringStr(r) + " point=(" + fmt(coor[0]) + "," + fmt(coor[1]) + ")", kase);
      if (g2 != (bool)ref)
        C.violation(std::string("polyelem-inside:open-ring"), "PolyElem::inside on a ring left open=" + std::to_string(g2) + " exact=" + std::to_string(ref) + " ring=" + ringStr(r) + " point=(" + fmt(coor[0]) + "," + fmt(coor[1]) + ")", kase);
    }
  // non trivial: the polygon had query points level with a vertex, and both inside and outside points
  if (level && nin > 0 && nout > 0)
  {
    Hash h; for (auto& p : r) h.i(p.x).i(p.y);
    C.nontrivial(h.h);
  }
}

static void enumRings(Ctx& C, int L, int nv)
{
  int np = (L + 1) * (L + 1);
  Space sp;
  for (int k = 0; k < nv; k++) sp.axis("v" + std::to_string(k), np);
  for_each_case(C, sp, [&](uint64_t id, const std::vector<int>& idx) {
    std::vector<P> r;
    for (int k = 0; k < nv; k++)
    {
      for (int j = 0; j < k; j++) if (idx[j] == idx[k]) return;
      r.push_back({4 * (idx[k] % (L + 1)), 4 * (idx[k] / (L + 1))});
    }
    if (!isSimple(r)) { C.skip(); return; }
    C.outcome("simple-polygons-nv" + std::to_string(nv));
    std::string kase = std::to_string(id);
    if ((id % 100003) == 7) C.sample("{\"id\":" + kase + ",\"ring\":" + ringStr(r) + ",\"queries\":\"quarter lattice\"}");
    judgeRing(C, r, L, kase, "pip");
  });
}

VF_PART(tri_L3) { enumRings(C, 3, 3); }
VF_PART(quad_L3) { enumRings(C, 3, 4); }
VF_PART(penta_L3) { enumRings(C, 3, 5); }
VF_PART(hexa_L2) { enumRings(C, 2, 6); }
VF_PART(hexa_L3) { if (C.thorough()) enumRings(C, 3, 6); }
VF_PART(hepta_L2) { if (C.thorough()) enumRings(C, 2, 7); }
VF_PART(hepta_L3) { if (C.thorough()) enumRings(C, 3, 7); }
VF_PART(octa_L2) { if (C.thorough()) enumRings(C, 2, 8); }
VF_PART(tri_L5) { enumRings(C, 5, 3); }
VF_PART(quad_L4) { if (C.thorough()) enumRings(C, 4, 4); }

// ---- large shapes with many horizontal / vertical edges and hundreds of vertices -----------------
static std::vector<P> comb(int teeth, int h)
{
  std::vector<P> r;
  r.push_back({0, 0});
  r.push_back({4 * (2 * teeth), 0});
  for (int t = teeth - 1; t >= 0; t--)
  {
    r.push_back({4 * (2 * t + 2), 4 * h});
    r.push_back({4 * (2 * t + 1), 4 * h});
    r.push_back({4 * (2 * t + 1), 4});
    if (t > 0) r.push_back({4 * (2 * t), 4});
  }
  r.push_back({0, 4});
  // remove the duplicate (0,4)...(0,0) closure handled by ring semantics
  return r;
}
static std::vector<P> staircase(int n)
{
  std::vector<P> r;
  r.push_back({0, 0});
  r.push_back({4 * n, 0});
  for (int k = n; k > 0; k--) { r.push_back({4 * k, 4 * (n - k + 1)}); r.push_back({4 * (k - 1), 4 * (n - k + 1)}); }
  return r;
}
// ring of a union of unit cells (cells[y*W+x]); empty if the union is not a single simple loop (hole, pinch, disconnected).
// merge=false keeps the flat (collinear) vertices at every lattice point of the boundary.
static std::vector<P> cellsToRing(const std::vector<int>& cells, int W, int H, bool merge)
{
  std::map<std::pair<int,int>, std::vector<std::pair<int,int>>> out;  // vertex -> successors
  auto has = [&](int x, int y) { return x >= 0 && y >= 0 && x < W && y < H && cells[y * W + x]; };
  int nedge = 0;
  for (int y = 0; y < H; y++) for (int x = 0; x < W; x++)
  {
    if (!has(x, y)) continue;
    if (!has(x, y - 1)) { out[{x, y}].push_back({x + 1, y}); nedge++; }          // bottom, going right
    if (!has(x + 1, y)) { out[{x + 1, y}].push_back({x + 1, y + 1}); nedge++; }  // right, going up
    if (!has(x, y + 1)) { out[{x + 1, y + 1}].push_back({x, y + 1}); nedge++; }  // top, going left
    if (!has(x - 1, y)) { out[{x, y + 1}].push_back({x, y}); nedge++; }          // left, going down
  }
  if (nedge == 0) return {};
  for (auto& kv : out) if (kv.second.size() != 1) return {};  // pinch point
  std::vector<P> r;
  auto start = out.begin()->first; auto cur = start;
  int steps = 0;
  do { r.push_back({4LL * cur.first, 4LL * cur.second}); cur = out[cur][0]; steps++; } while (cur != start && steps <= nedge);
  if (steps != nedge) return {};  // several loops (hole or disconnected)
  if (merge)
  {
    std::vector<P> m;
    int n = (int)r.size();
    for (int i = 0; i < n; i++) if (cross(r[(i + n - 1) % n], r[i], r[(i + 1) % n]) != 0) m.push_back(r[i]);
    r = m;
  }
  return r;
}
static std::vector<P> spiral(int turns)
{
  int S = 4 * turns + 1;
  std::vector<int> c(S * S, 0);
  int x = 0, y = 0, dx = 1, dy = 0, len = S - 1;
  c[0] = 1;
  // walk a square spiral of corridor width 1 with walls of width 1
  int seg = 0;
  while (len > 0)
  {
    for (int k = 0; k < len; k++) { x += dx; y += dy; c[y * S + x] = 1; }
    int t = dx; dx = -dy; dy = t;
    seg++;
    if (seg == 1) continue;       // first two segments have the same length
    if (seg % 2 == 1 || seg == 2) len -= (seg == 2 ? 0 : 2);
    if (seg == 2) continue;
    if (seg % 2 == 0) {}
  }
  return cellsToRing(c, S, S, true);
}
static std::vector<P> snake(int rows, int W)
{
  int H = 2 * rows - 1;
  std::vector<int> c(W * H, 0);
  for (int k = 0; k < rows; k++)
  {
    for (int x = 0; x < W; x++) c[(2 * k) * W + x] = 1;
    if (k + 1 < rows) c[(2 * k + 1) * W + (k % 2 == 0 ? W - 1 : 0)] = 1;
  }
  return cellsToRing(c, W, H, true);
}
static std::vector<P> zigzag(int n)
{
  // saw-tooth top edge: many vertices level with each other
  std::vector<P> r;
  r.push_back({0, 0});
  r.push_back({8 * n, 0});
  for (int k = n; k > 0; k--) { r.push_back({8 * k, 8}); r.push_back({8 * k - 4, 4}); }
  r.push_back({0, 8});
  return r;
}

VF_PART(shapes)
{
  std::vector<std::pair<std::string, std::vector<P>>> menu;
  for (int t : {1, 2, 3, 5, 8}) for (int h : {2, 3}) menu.push_back({"comb" + std::to_string(t) + "x" + std::to_string(h), comb(t, h)});
  for (int n : {2, 3, 6, 12}) menu.push_back({"stair" + std::to_string(n), staircase(n)});
  for (int n : {1, 2, 5, 10}) menu.push_back({"zigzag" + std::to_string(n), zigzag(n)});
  for (int n : {1, 2, 3}) menu.push_back({"spiral" + std::to_string(n), spiral(n)});
  for (int n : {2, 3, 6}) menu.push_back({"snake" + std::to_string(n), snake(n, 4)});
  if (C.thorough()) { menu.push_back({"comb60", comb(60, 3)}); menu.push_back({"stair100", staircase(100)}); menu.push_back({"zigzag150", zigzag(150)}); }
  else { menu.push_back({"comb20", comb(20, 2)}); menu.push_back({"stair40", staircase(40)}); }
  Space sp; sp.axis("shape", (int)menu.size()).axis("reverse", 2).axis("rot", 3);
  for_each_case(C, sp, [&](uint64_t id, const std::vector<int>& idx) {
    std::vector<P> r = menu[idx[0]].second;
    if (!isSimple(r)) { C.note("shape " + menu[idx[0]].first + " is not simple - skipped (harness menu)"); C.skip(); return; }
    if (idx[1]) std::reverse(r.begin(), r.end());
    std::rotate(r.begin(), r.begin() + (idx[2] * (int)r.size()) / 3, r.end());
    ll mx = 0; for (auto& p : r) mx = std::max({mx, p.x, p.y});
    if (idx[1] == 0 && idx[2] == 0) C.sample("{\"shape\":" + jstr(menu[idx[0]].first) + ",\"nvertices\":" + std::to_string(r.size()) + "}");
    C.outcome("shapes-judged");
    // query lattice: quarter points of the bounding square (cap the size for the huge ones: half-lattice)
    judgeRing(C, r, (int)(mx / 4), std::to_string(id), "pip-shape");
  });
}

// ---- all rectilinear polygons that are unions of cells of a small grid (polyominoes without hole / pinch) --------
static void polyomino(Ctx& C, int W, int H)
{
  Space sp; sp.axis("cells", 1 << (W * H)).axis("merge", 2);
  for_each_case(C, sp, [&](uint64_t id, const std::vector<int>& idx) {
    std::vector<int> c(W * H);
    for (int k = 0; k < W * H; k++) c[k] = idx[0] >> k & 1;
    std::vector<P> r = cellsToRing(c, W, H, idx[1]);
    if (r.empty() || !isSimple(r)) { C.skip(); return; }
    C.outcome("polyomino-rings");
    if (id % 5003 == 11) C.sample("{\"id\":" + std::to_string(id) + ",\"ring\":" + ringStr(r) + "}");
    judgeRing(C, r, std::max(W, H), std::to_string(id), "pip-rectilinear");
  });
}
VF_PART(polyomino_3x3) { polyomino(C, 3, 3); }
VF_PART(polyomino_4x4) { polyomino(C, 4, 4); }
VF_PART(polyomino_5x4) { if (C.thorough()) polyomino(C, 5, 4); }

// ---- polygon sets: union / nested rule, vertical limits -------------------------------------------
struct Zl { double zmin, zmax; };
VF_PART(polysets)
{
  // menu of rings (closed by the library), coordinates in quarter units
  std::vector<std::vector<P>> rings = {
    {{0, 0}, {16, 0}, {16, 16}, {0, 16}},       // big square
    {{4, 4}, {12, 4}, {12, 12}, {4, 12}},       // nested in big
    {{8, 8}, {24, 8}, {24, 24}, {8, 24}},       // overlapping big
    {{20, 0}, {28, 0}, {24, 6}},                // disjoint triangle
    {{6, 6}, {10, 6}, {10, 10}, {6, 10}},       // nested twice
    {{0, 16}, {16, 16}, {8, 24}},               // shares an edge with big (touching)
  };
  std::vector<Zl> zls = {{TEST, TEST}, {0., 1.}, {5., 6.}, {TEST, 2.}, {0.5, TEST}};
  std::vector<double> zq = {TEST, -1., 0.75, 1.5, 5.5, 7.};
  int nr = (int)rings.size(), nz = (int)zls.size();
  Space sp;
  sp.axis("npoly", 2).axis("r0", nr).axis("r1", nr).axis("r2", nr).axis("z0", nz).axis("z1", nz).axis("z2", C.thorough() ? nz : 2).axis("nested", 2).axis("use3d", 2);
  for_each_case(C, sp, [&](uint64_t id, const std::vector<int>& idx) {
    int npoly = idx[0] + 2;
    if (npoly == 2 && (idx[3] != 0 || idx[6] != 0)) return;
    if (idx[1] >= idx[2] && !(idx[1] == idx[2])) {}  // order matters for the early return: keep all orders
    bool use3d = idx[8];
    if (!use3d && (idx[4] || idx[5] || idx[6])) return;
    Polygons ps;
    std::vector<int> ri = {idx[1], idx[2], idx[3]}, zi = {idx[4], idx[5], idx[6]};
    for (int k = 0; k < npoly; k++)
    {
      VectorDouble x, y; toXY(rings[ri[k]], false, x, y);
      ps.addPolyElem(PolyElem(x, y, zls[zi[k]].zmin, zls[zi[k]].zmax));
    }
    bool nested = idx[7];
    bool nt = false;
    for (ll qx = -2; qx <= 30; qx += 2)
      for (ll qy = -2; qy <= 26; qy += 2)
      {
        P p {qx + 1, qy + 1};  // odd quarter coordinates: never on a boundary of the menu (checked)
        int cnt = 0, cnt2d = 0; bool bnd = false, anyZex = false;
        for (size_t iz = 0; iz < (use3d ? zq.size() : 1); iz++)
        {
          double z = zq[iz];
          cnt = 0; cnt2d = 0; anyZex = false;
          for (int k = 0; k < npoly; k++)
          {
            int in = refInside(rings[ri[k]], p);
            if (in < 0) { bnd = true; break; }
            bool zin = true;
            if (use3d && !FFFF(z))
            {
              if (!FFFF(zls[zi[k]].zmin) && z < zls[zi[k]].zmin) zin = false;
              if (!FFFF(zls[zi[k]].zmax) && z > zls[zi[k]].zmax) zin = false;
            }
            if (!zin) anyZex = true;
            if (in) cnt2d++;
            if (in && zin) cnt++;
          }
          if (bnd) { C.outcome("boundary-point-excluded"); break; }
          bool ref = nested ? (cnt % 2 == 1) : (cnt > 0);
          VectorDouble coor = use3d ? VectorDouble({p.x / 4., p.y / 4., z}) : VectorDouble({p.x / 4., p.y / 4.});
          bool got = ps.inside(coor, nested);
          C.eval();
          if (cnt2d >= 2) nt = true;
          if (got != ref)
          {
            std::string key = std::string("polyset:") + (nested ? "nested" : "union") + (use3d ? (anyZex ? ":zlimit-excludes-one" : ":3d") : ":2d");
            C.violation(key, "Polygons::inside=" + std::to_string(got) + " expected=" + std::to_string(ref) + " (polygons containing the point in 3-D: " + std::to_string(cnt) + ", horizontally: " + std::to_string(cnt2d) +
                        ") point=" + vstr(coor) + " rings=" + std::to_string(ri[0]) + "," + std::to_string(ri[1]) + (npoly > 2 ? "," + std::to_string(ri[2]) : "") +
                        " zlimits idx=" + std::to_string(zi[0]) + "," + std::to_string(zi[1]) + "," + std::to_string(zi[2]), std::to_string(id));
          }
        }
      }
    if (nt) C.nontrivial(id);
    if (id % 977 == 5) C.sample("{\"id\":" + std::to_string(id) + ",\"case\":" + sp.describe(idx) + "}");
  });
}

// ---- db_polygon: selection of Db samples ----------------------------------------------------------
VF_PART(db_polygon)
{
  std::vector<std::vector<P>> rings = {
    {{0, 0}, {16, 0}, {16, 16}, {0, 16}}, {{4, 4}, {12, 4}, {12, 12}, {4, 12}}, {{8, 8}, {24, 8}, {24, 24}, {8, 24}},
    {{0, 0}, {16, 0}, {16, 8}, {8, 8}, {8, 16}, {0, 16}},  // L shape: horizontal edges level with samples
  };
  int nr = (int)rings.size();
  Space sp;
  sp.axis("r0", nr).axis("r1", nr + 1).axis("nested", 2).axis("flag_sel", 2).axis("presel", 3).axis("ndim", 2).axis("grid", 2);
  for_each_case(C, sp, [&](uint64_t id, const std::vector<int>& idx) {
    Polygons ps;
    std::vector<int> ri = {idx[0]};
    if (idx[1] < nr) ri.push_back(idx[1]);
    for (int k : ri) { VectorDouble x, y; toXY(rings[k], false, x, y); ps.addPolyElem(PolyElem(x, y, k == 1 ? 0. : TEST, k == 1 ? 1. : TEST)); }
    bool nested = idx[2], flag_sel = idx[3];
    int ndim = idx[5] + 2;
    Db* db = nullptr;
    std::vector<P> pts; std::vector<double> zs;
    if (idx[6])
    {
      // grid whose nodes sit at odd quarter coordinates (off every boundary): x0 = 0.25, dx = 0.5
      VectorInt nx = {14, 13}; VectorDouble dx = {0.5, 0.5}; VectorDouble x0 = {-0.75, -0.25};
      if (ndim == 3) { nx.push_back(2); dx.push_back(4.5); x0.push_back(0.5); }
      db = DbGrid::create(nx, dx, x0);
      for (int ie = 0; ie < db->getSampleNumber(); ie++)
      {
        VectorDouble c(3, TEST); db->getCoordinatesPerSampleInPlace(ie, c);
        pts.push_back({(ll)std::llround(c[0] * 4), (ll)std::llround(c[1] * 4)}); zs.push_back(ndim == 3 ? c[2] : TEST);
      }
    }
    else
    {
      std::vector<std::vector<double>> x(ndim);
      for (ll qx = -3; qx <= 27; qx += 2) for (ll qy = -1; qy <= 25; qy += 2)
      {
        pts.push_back({qx, qy}); x[0].push_back(qx / 4.); x[1].push_back(qy / 4.);
        double z = ((qx + qy) / 2) % 2 ? 0.5 : 5.; zs.push_back(ndim == 3 ? z : TEST);
        if (ndim == 3) x[2].push_back(z);
      }
      db = make_db_xz(x, {});
    }
    int n = db->getSampleNumber();
    std::vector<int> act(n, 1);
    if (idx[4])
    {
      VectorDouble sel(n);
      for (int i = 0; i < n; i++) { act[i] = idx[4] == 1 ? (i % 3 != 0) : 0; sel[i] = act[i]; }
      db->addColumns(sel, "presel", ELoc::SEL);
    }
    int ncol0 = db->getColumnNumber();
    db_polygon(db, &ps, flag_sel, false, nested);
    C.eval();
    if (db->getColumnNumber() != ncol0 + 1) C.violation("db_polygon:ncol", "db_polygon did not add exactly one column", std::to_string(id));
    else
    {
      int nin = 0;
      for (int i = 0; i < n; i++)
      {
        int cnt = 0; bool bnd = false;
        for (int k : ri)
        {
          int in = refInside(rings[k], pts[i]);
          if (in < 0) bnd = true;
          bool zin = true;
          if (k == 1 && !FFFF(zs[i]) && (zs[i] < 0. || zs[i] > 1.)) zin = false;
          if (in > 0 && zin) cnt++;
        }
        if (bnd) continue;
        bool ref = nested ? (cnt % 2 == 1) : (cnt > 0);
        if (flag_sel && !act[i]) ref = false;
        nin += ref;
        double got = db->getValueByColIdx(i, ncol0);
        if (got != (ref ? 1. : 0.))
        {
          std::string key = "db_polygon:" + std::string(nested ? "nested" : "union") + (ndim == 3 && ri.size() > 1 && (idx[1] == 1 || idx[0] == 1) ? ":zlimits" : "");
          C.violation(key, "sample " + std::to_string(i) + " at (" + fmt(pts[i].x / 4.) + "," + fmt(pts[i].y / 4.) + "," + fmt(zs[i]) + ") marked " + fmt(got) + " expected " + std::to_string(ref) + " case=" + sp.describe(idx), std::to_string(id));
          break;
        }
      }
      if (nin > 0 && nin < n) C.nontrivial(id);
    }
    if (id % 97 == 3) C.sample("{\"id\":" + std::to_string(id) + ",\"case\":" + sp.describe(idx) + "}");
    delete db;
  });
}

// ---- convex hull: Polygons::createFromDb, db_selhull ----------------------------------------------
VF_PART(hull)
{
  // all subsets of size >= 3 of the 3x3 lattice (+ one off-lattice point to break symmetry), masks applied through a selection
  int L = 3;
  Space sp; sp.axis("subset", 1 << (L * L)).axis("viasel", 2);
  for_each_case(C, sp, [&](uint64_t id, const std::vector<int>& idx) {
    std::vector<P> pts;
    for (int k = 0; k < L * L; k++) if (idx[0] >> k & 1) pts.push_back({8 * (k % L), 8 * (k / L)});
    if (pts.size() < 3) return;
    ll a2 = 0; for (size_t i = 1; i + 1 < pts.size(); i++) a2 |= cross(pts[0], pts[i], pts[i + 1]);
    bool collinear = true; for (size_t i = 1; i + 1 < pts.size(); i++) if (cross(pts[0], pts[i], pts[i + 1]) != 0) collinear = false;
    if (collinear) { C.skip(); return; }
    std::vector<std::vector<double>> x(2);
    Db* db;
    if (idx[1])
    {
      VectorDouble sel;
      for (int k = 0; k < L * L; k++) { x[0].push_back(2. * (k % L)); x[1].push_back(2. * (k / L)); sel.push_back((idx[0] >> k & 1) ? 1. : 0.); }
      db = make_db_xz(x, {});
      db->addColumns(sel, "sel", ELoc::SEL);
    }
    else
    {
      for (auto& p : pts) { x[0].push_back(p.x / 4.); x[1].push_back(p.y / 4.); }
      db = make_db_xz(x, {});
    }
    Polygons* h = Polygons::createFromDb(db);
    C.eval();
    if (h == nullptr || h->getPolyElemNumber() != 1) { C.violation("hull:null", "createFromDb failed on a non collinear point set", std::to_string(id)); delete db; delete h; return; }
    const PolyElem& pe = h->getPolyElem(0);
    std::vector<P> ring;
    int np = pe.getNPoints();
    for (int i = 0; i < np; i++) ring.push_back({(ll)std::llround(pe.getX(i) * 4), (ll)std::llround(pe.getY(i) * 4)});
    if (np > 1 && ring.front().x == ring.back().x && ring.front().y == ring.back().y) ring.pop_back();
    bool ok = isSimple(ring);
    // convex, and every generating point inside or on the hull
    if (ok)
    {
      int orient = 0;
      for (size_t i = 0; i < ring.size() && ok; i++)
      {
        int s = sgn(cross(ring[i], ring[(i + 1) % ring.size()], ring[(i + 2) % ring.size()]));
        if (s != 0) { if (orient == 0) orient = s; else if (s != orient) ok = false; }
      }
      for (auto& p : pts) if (refInside(ring, p) == 0) ok = false;
      // hull vertices are generating points
      for (auto& v : ring) { bool f = false; for (auto& p : pts) if (p.x == v.x && p.y == v.y) f = true; if (!f) ok = false; }
    }
    if (!ok) C.violation("hull:wrong", "hull " + ringStr(ring) + " is not the convex hull of the active points (subset mask " + std::to_string(idx[0]) + ")", std::to_string(id));
    else
    {
      // db_selhull on the half-lattice probe Db
      std::vector<std::vector<double>> q(2); std::vector<P> qp;
      for (ll qx = -2; qx <= 18; qx += 4) for (ll qy = -2; qy <= 18; qy += 4) { qp.push_back({qx, qy}); q[0].push_back(qx / 4.); q[1].push_back(qy / 4.); }
      Db* db2 = make_db_xz(q, {});
      int nc = db2->getColumnNumber();
      if (db_selhull(db, db2) != 0) C.violation("selhull:fail", "db_selhull failed", std::to_string(id));
      else
        for (size_t i = 0; i < qp.size(); i++)
        {
          int ref = refInside(ring, qp[i]);
          if (ref < 0) continue;
          C.eval();
          if (db2->getValueByColIdx((int)i, nc) != (double)ref) { C.violation("selhull:wrong", "db_selhull marks probe " + std::to_string(i) + " wrongly for subset " + std::to_string(idx[0]), std::to_string(id)); break; }
        }
      delete db2;
    }
    if (ring.size() < pts.size()) C.nontrivial(id);
    if (id % 211 == 9) C.sample("{\"id\":" + std::to_string(id) + ",\"points\":" + ringStr(pts) + ",\"hull\":" + ringStr(ring) + "}");
    delete h; delete db;
  });
}


// ---- query points extremely close to (but off) the boundary: a tolerance creeping into the test would misjudge them ----
// Polygons on L(2,3); query points = quarter-lattice points displaced by +-2^-20 in x and/or y. Everything scaled by 2^22
// so that the reference stays exact in 64-bit integers.
typedef __int128 lll;
struct Q { ll x, y; };  // in units of 2^-22
static lll crossQ(Q a, Q b, Q c) { return (lll)(b.x - a.x) * (c.y - a.y) - (lll)(c.x - a.x) * (b.y - a.y); }
static bool onSegQ(Q a, Q b, Q p)
{
  if (crossQ(a, b, p) != 0) return false;
  return std::min(a.x, b.x) <= p.x && p.x <= std::max(a.x, b.x) && std::min(a.y, b.y) <= p.y && p.y <= std::max(a.y, b.y);
}
static int refInsideQ(const std::vector<Q>& r, Q p)
{
  int n = (int)r.size(), wn = 0;
  for (int i = 0; i < n; i++)
  {
    Q a = r[i], b = r[(i + 1) % n];
    if (onSegQ(a, b, p)) return -1;
    lll c = crossQ(a, b, p);
    if (a.y <= p.y) { if (b.y > p.y && c > 0) wn++; }
    else            { if (b.y <= p.y && c < 0) wn--; }
  }
  return wn != 0 ? 1 : 0;
}
static void nearBoundary(Ctx& C, int L, int nv)
{
  const ll U = 1LL << 22, EPS = 4;  // EPS*2^-22 = 2^-20
  int np = (L + 1) * (L + 1);
  Space sp;
  for (int k = 0; k < nv; k++) sp.axis("v" + std::to_string(k), np);
  for_each_case(C, sp, [&](uint64_t id, const std::vector<int>& idx) {
    std::vector<P> r; std::vector<Q> rq;
    for (int k = 0; k < nv; k++)
    {
      for (int j = 0; j < k; j++) if (idx[j] == idx[k]) return;
      r.push_back({4 * (idx[k] % (L + 1)), 4 * (idx[k] / (L + 1))});
      rq.push_back({(idx[k] % (L + 1)) * U, (idx[k] / (L + 1)) * U});
    }
    if (!isSimple(r)) { C.skip(); return; }
    VectorDouble x, y; toXY(r, true, x, y);
    PolyElem closed(x, y);
    toXY(r, false, x, y);
    Polygons pset; pset.addPolyElem(PolyElem(x, y));
    VectorDouble coor(2);
    bool nt = false;
    for (ll qx = -1; qx <= 4 * L + 1; qx++)
      for (ll qy = -1; qy <= 4 * L + 1; qy++)
        for (int ex = -1; ex <= 1; ex++)
          for (int ey = -1; ey <= 1; ey++)
          {
            if (ex == 0 && ey == 0) continue;
            Q p {qx * (U / 4) + ex * EPS, qy * (U / 4) + ey * EPS};
            int ref = refInsideQ(rq, p);
            if (ref < 0) { C.outcome("boundary-point-excluded"); continue; }
            // is the undisplaced point on the boundary? then this query is a genuine near-boundary probe
            Q p0 {qx * (U / 4), qy * (U / 4)};
            bool near = refInsideQ(rq, p0) < 0;
            if (!near) continue;   // far points are already judged by the other parts
            nt = true;
            coor[0] = (double)p.x / (double)U; coor[1] = (double)p.y / (double)U;   // exact: |p| < 2^26
            bool g0 = closed.inside(coor), g1 = pset.inside(coor, false);
            C.eval(2);
            if (g0 != (bool)ref || g1 != (bool)ref)
              C.violation("pip:near-boundary", "point 2^-20 away from the boundary misjudged: PolyElem::inside=" + std::to_string(g0) + " Polygons::inside=" + std::to_string(g1) + " exact=" + std::to_string(ref) +
                          " ring=" + ringStr(r) + " point=(" + fmt(coor[0]) + "," + fmt(coor[1]) + ")", std::to_string(id));
          }
    if (nt) { Hash h; for (auto& q : r) h.i(q.x).i(q.y); C.nontrivial(h.u(77).h); }
    if (id % 20011 == 3) C.sample("{\"id\":" + std::to_string(id) + ",\"ring\":" + ringStr(r) + ",\"queries\":\"boundary lattice points displaced by 2^-20\"}");
  });
}
VF_PART(near_tri_L3) { nearBoundary(C, 3, 3); }
VF_PART(near_quad_L3) { nearBoundary(C, 3, 4); }
VF_PART(near_penta_L2) { nearBoundary(C, 2, 5); }
VF_PART(near_penta_L3) { if (C.thorough()) nearBoundary(C, 3, 5); }

// ---- decimal (non-dyadic) coordinates: digitised polygons (typed tenths, k/10.) against computed lattices (k*0.1, k*0.15) --
// The query ordinate is then often ONE ULP away from a vertex ordinate (3*0.1 != 0.3), far from the boundary in x: any
// rounding inside the crossing rule (instead of exact comparisons of ordinates) flips the parity of whole rows.
// Reference: every double in {0} u [1/16,4) is an integer multiple of 2^-56 below 2^58, so the orientation predicate is exact
// in __int128 (differences < 2^59, products < 2^118). Points nearer than 1e-6 to the boundary are not judged.
static ll toFix56(double v)
{
  if (v != 0. && !(v >= 0.0625 && v < 4.)) { fprintf(stderr, "toFix56: %g out of the exact range\n", v); abort(); }
  double s = std::ldexp(v, 56);
  if (s != std::floor(s)) { fprintf(stderr, "toFix56: %a not a multiple of 2^-56\n", v); abort(); }
  return (ll)s;
}
static double distSeg(double ax, double ay, double bx, double by, double px, double py)
{
  double dx = bx - ax, dy = by - ay, l2 = dx * dx + dy * dy;
  double t = l2 > 0 ? ((px - ax) * dx + (py - ay) * dy) / l2 : 0.;
  t = std::max(0., std::min(1., t));
  return std::hypot(px - (ax + t * dx), py - (ay + t * dy));
}
static std::string tenthStr(const std::vector<P>& r)
{
  std::string s = "[";
  for (size_t i = 0; i < r.size(); i++) s += (i ? "," : "") + std::string("[") + std::to_string(r[i].x) + "," + std::to_string(r[i].y) + "]";
  return s + "]";
}
static void decimalLattice(Ctx& C, int nv, const std::vector<int>& tenths)
{
  int nt = (int)tenths.size(), np = nt * nt;
  // query abscissae / ordinates: computed the way a grid computes them
  std::vector<double> q;
  for (int i = 0; i <= 25; i++) q.push_back(i * 0.1);
  for (int i = 1; i <= 17; i++) q.push_back(i * 0.15);
  for (int i = 1; i <= 12; i++) q.push_back(0.05 + i * 0.2);
  { double acc = 0.; for (int i = 1; i <= 25; i++) { acc += 0.1; q.push_back(acc); } }   // running sum
  std::sort(q.begin(), q.end()); q.erase(std::unique(q.begin(), q.end()), q.end());
  std::vector<double> qq; for (double v : q) if (v == 0. || (v >= 0.0625 && v < 4.)) qq.push_back(v);
  Space sp;
  for (int k = 0; k < nv; k++) sp.axis("v" + std::to_string(k), np);
  for_each_case(C, sp, [&](uint64_t id, const std::vector<int>& idx) {
    std::vector<P> r; std::vector<Q> rq; VectorDouble x, y;
    for (int k = 0; k < nv; k++)
    {
      for (int j = 0; j < k; j++) if (idx[j] == idx[k]) return;
      int tx = tenths[idx[k] % nt], ty = tenths[idx[k] / nt];
      r.push_back({tx, ty});                       // integer tenths: exact simplicity test
      double vx = tx / 10., vy = ty / 10.;         // what a typed decimal literal gives (correctly rounded)
      x.push_back(vx); y.push_back(vy);
      rq.push_back({toFix56(vx), toFix56(vy)});
    }
    if (idx[0] != *std::min_element(idx.begin(), idx.end())) return;   // each cyclic sequence once (both orientations kept)
    if (!isSimple(r)) { C.skip(); return; }
    Polygons pset; pset.addPolyElem(PolyElem(x, y));
    VectorDouble xc = x, yc = y; xc.push_back(x[0]); yc.push_back(y[0]);
    PolyElem closed(xc, yc);
    VectorDouble coor(2);
    bool ulpLevel = false; int nin = 0, nout = 0;
    for (double px : qq)
      for (double py : qq)
      {
        int ref = refInsideQ(rq, {toFix56(px), toFix56(py)});
        if (ref < 0) { C.outcome("boundary-point-excluded"); continue; }
        double d = 1e30;
        for (int k = 0; k < nv; k++) d = std::min(d, distSeg(x[k], y[k], x[(k + 1) % nv], y[(k + 1) % nv], px, py));
        if (d < 1e-6) { C.outcome("nearer-than-1e-6-to-boundary-excluded"); continue; }
        for (int k = 0; k < nv; k++) if (py != y[k] && std::fabs(py - y[k]) < 1e-12) ulpLevel = true;
        coor[0] = px; coor[1] = py;
        bool g0 = closed.inside(coor), g1 = pset.inside(coor, false);
        C.eval(2);
        ref ? nin++ : nout++;
        if (g0 != (bool)ref || g1 != (bool)ref)
          C.violation("pip:decimal-lattice", "typed-decimal polygon against a computed lattice point: PolyElem::inside=" + std::to_string(g0) + " Polygons::inside=" + std::to_string(g1) + " exact=" + std::to_string(ref) +
                      " ring(tenths)=" + tenthStr(r) + " point=(" + fmt(px) + "," + fmt(py) + ") distance to boundary=" + fmt(d), std::to_string(id));
      }
    if (ulpLevel && nin && nout) C.nontrivial(id);
    if (id % 4001 == 7) C.sample("{\"id\":" + std::to_string(id) + ",\"ring_tenths\":" + tenthStr(r) + ",\"queries\":\"k*0.1, k*0.15, 0.05+k*0.2, running sums of 0.1\"}");
  });
}
VF_PART(decimal_tri) { decimalLattice(C, 3, C.thorough() ? std::vector<int>{1, 2, 3, 6, 7, 9, 12, 20} : std::vector<int>{2, 3, 7, 9, 12, 20}); }
VF_PART(decimal_quad) { decimalLattice(C, 4, C.thorough() ? std::vector<int>{2, 3, 7, 9, 20} : std::vector<int>{2, 3, 9, 20}); }

// ---- translated / scaled copies: the answer must not depend on where the polygon sits (large coordinates) -----------
VF_PART(translated)
{
  // all simple quads on L(2,2) (quick) / L(2,3) (thorough), translated by large dyadic offsets and scaled by powers of two:
  // every coordinate stays exactly representable, the exact reference is translation / scale invariant
  int L = C.thorough() ? 3 : 2, nv = 4;
  int np = (L + 1) * (L + 1);
  std::vector<std::array<double, 3>> tr = {{1048576., -524288., 1.}, {-16777216.25, 33554432.5, 1.}, {0., 0., 1024.}, {4096.75, -8192.25, 1. / 64.}, {1e6, 3e6, 1.}};
  Space sp; sp.axis("tr", (int)tr.size());
  for (int k = 0; k < nv; k++) sp.axis("v" + std::to_string(k), np);
  for_each_case(C, sp, [&](uint64_t id, const std::vector<int>& idx) {
    std::vector<P> r;
    for (int k = 0; k < nv; k++)
    {
      for (int j = 0; j < k; j++) if (idx[1 + j] == idx[1 + k]) return;
      r.push_back({4 * (idx[1 + k] % (L + 1)), 4 * (idx[1 + k] / (L + 1))});
    }
    if (!isSimple(r)) { C.skip(); return; }
    double ox = tr[idx[0]][0], oy = tr[idx[0]][1], sc = tr[idx[0]][2];
    VectorDouble x, y;
    for (auto& p : r) { x.push_back(ox + sc * p.x / 4.); y.push_back(oy + sc * p.y / 4.); }
    Polygons pset; pset.addPolyElem(PolyElem(x, y));
    x.push_back(x[0]); y.push_back(y[0]);
    PolyElem closed(x, y);
    VectorDouble coor(2);
    int nin = 0, nout = 0;
    for (ll qx = -2; qx <= 4 * L + 2; qx++)
      for (ll qy = -2; qy <= 4 * L + 2; qy++)
      {
        int ref = refInside(r, {qx, qy});
        if (ref < 0) continue;
        coor[0] = ox + sc * qx / 4.; coor[1] = oy + sc * qy / 4.;
        bool g0 = closed.inside(coor), g1 = pset.inside(coor, false);
        C.eval(2);
        ref ? nin++ : nout++;
        if (g0 != (bool)ref || g1 != (bool)ref)
          C.violation("pip:translated", "translated/scaled polygon: PolyElem::inside=" + std::to_string(g0) + " Polygons::inside=" + std::to_string(g1) + " exact=" + std::to_string(ref) + " ring=" + ringStr(r) +
                      " offset=(" + fmt(ox) + "," + fmt(oy) + ") scale=" + fmt(sc) + " point=(" + fmt(coor[0]) + "," + fmt(coor[1]) + ")", std::to_string(id));
      }
    if (nin && nout) C.nontrivial(id);
    if (id % 9973 == 1) C.sample("{\"id\":" + std::to_string(id) + ",\"ring\":" + ringStr(r) + ",\"offset\":[" + fmt(ox) + "," + fmt(oy) + "],\"scale\":" + fmt(sc) + "}");
  });
}

// ---- db_polygon: periodic longitudes, rotated grids, undefined third coordinate ------------------------------------
VF_PART(db_polygon_more)
{
  std::vector<std::vector<P>> rings = {
    {{0, 0}, {16, 0}, {16, 16}, {0, 16}}, {{0, 0}, {16, 0}, {16, 8}, {8, 8}, {8, 16}, {0, 16}}, {{4, 4}, {12, 4}, {8, 12}}};
  Space sp; sp.axis("ring", (int)rings.size()).axis("mode", 5).axis("nested", 2).axis("flag_sel", 2);
  for_each_case(C, sp, [&](uint64_t id, const std::vector<int>& idx) {
    const std::vector<P>& r = rings[idx[0]];
    int mode = idx[1];
    bool nested = idx[2], flag_sel = idx[3];
    VectorDouble x, y; toXY(r, false, x, y);
    Db* db = nullptr;
    std::vector<int> expect; std::vector<std::string> desc;
    Polygons ps;
    auto refAt = [&](double px, double py) -> int {   // exact for multiples of 1/8
      ll X = (ll)std::llround(px * 8), Y = (ll)std::llround(py * 8);
      std::vector<P> r8; for (auto& v : r) r8.push_back({v.x * 2, v.y * 2});
      return refInside(r8, {X, Y});
    };
    if (mode <= 1)
    {
      // periodic longitudes: polygon shifted by +360 (mode 0) or -360 (mode 1); samples at their natural abscissa
      double sh = mode == 0 ? 360. : -360.;
      VectorDouble xs = x; for (auto& v : xs) v += sh;
      ps.addPolyElem(PolyElem(xs, y));
      std::vector<std::vector<double>> c(2);
      for (ll qx = -3; qx <= 19; qx += 2) for (ll qy = -3; qy <= 19; qy += 2) { c[0].push_back(qx / 4.); c[1].push_back(qy / 4.); expect.push_back(refAt(qx / 4., qy / 4.)); }
      db = make_db_xz(c, {});
      int nc = db->getColumnNumber();
      db_polygon(db, &ps, flag_sel, /*flag_period*/ true, nested);
      C.eval();
      bool nt = false;
      for (size_t i = 0; i < expect.size(); i++)
      {
        if (expect[i] < 0) continue;
        if (expect[i]) nt = true;
        if (db->getValueByColIdx((int)i, nc) != (double)expect[i])
        { C.violation("db_polygon:period", "flag_period: polygon shifted by " + fmt(sh) + " degrees, sample " + std::to_string(i) + " marked " + fmt(db->getValueByColIdx((int)i, nc)) + " expected " + std::to_string(expect[i]), std::to_string(id)); break; }
      }
      // without flag_period nothing may be selected
      db_polygon(db, &ps, flag_sel, false, nested);
      for (size_t i = 0; i < expect.size(); i++)
        if (db->getValueByColIdx((int)i, nc + 1) != 0.) { C.violation("db_polygon:period", "without flag_period a polygon 360 degrees away selects sample " + std::to_string(i), std::to_string(id)); break; }
      if (nt) C.nontrivial(id);
    }
    else if (mode == 2 || mode == 3)
    {
      // rotated grid (90 or 180 degrees: node coordinates are lattice points up to 1e-15): nodes at odd eighths, far from every edge
      ps.addPolyElem(PolyElem(x, y));
      VectorInt nx = {10, 9}; VectorDouble dx = {0.5, 0.5};
      double ang = mode == 2 ? 90. : 180.;
      VectorDouble x0 = mode == 2 ? VectorDouble({4.625, -0.375}) : VectorDouble({4.625, 4.125});
      DbGrid* g = DbGrid::create(nx, dx, x0, {ang, 0.});
      db = g;
      int n = g->getSampleNumber();
      int nc = g->getColumnNumber();
      db_polygon(g, &ps, flag_sel, false, nested);
      C.eval();
      int nin = 0;
      for (int i = 0; i < n; i++)
      {
        VectorDouble c(3, TEST); g->getCoordinatesPerSampleInPlace(i, c);
        double px = std::round(c[0] * 8) / 8, py = std::round(c[1] * 8) / 8;
        if (std::fabs(px - c[0]) > 1e-9 || std::fabs(py - c[1]) > 1e-9) { C.note("rotated grid node not on the 1/8 lattice: harness menu"); continue; }
        int ref = refAt(px, py);
        if (ref < 0) continue;
        nin += ref;
        if (g->getValueByColIdx(i, nc) != (double)ref)
        { C.violation("db_polygon:rotated-grid", "grid rotated by " + fmt(ang) + " degrees: node " + std::to_string(i) + " at (" + fmt(c[0]) + "," + fmt(c[1]) + ") marked " + fmt(g->getValueByColIdx(i, nc)) + " expected " + std::to_string(ref), std::to_string(id)); break; }
      }
      if (nin > 0 && nin < n) C.nontrivial(id);
    }
    else
    {
      // 3-D Db whose third coordinate is undefined for some samples: the vertical limits cannot exclude them (documented: FFFF(z) passes)
      ps.addPolyElem(PolyElem(x, y, 0., 1.));
      std::vector<std::vector<double>> c(3); std::vector<int> zkind;
      int k = 0;
      for (ll qx = -1; qx <= 17; qx += 2) for (ll qy = -1; qy <= 17; qy += 2, k++)
      {
        c[0].push_back(qx / 4.); c[1].push_back(qy / 4.);
        int zk = k % 3; zkind.push_back(zk);
        c[2].push_back(zk == 0 ? 0.5 : zk == 1 ? 5. : TEST);
        int in = refAt(qx / 4., qy / 4.);
        expect.push_back(in < 0 ? -1 : (in && zk != 1) ? 1 : 0);
      }
      db = make_db_xz(c, {});
      int nc = db->getColumnNumber();
      db_polygon(db, &ps, flag_sel, false, nested);
      C.eval();
      bool nt = false;
      for (size_t i = 0; i < expect.size(); i++)
      {
        if (expect[i] < 0) continue;
        if (zkind[i] == 2 && expect[i]) nt = true;
        if (db->getValueByColIdx((int)i, nc) != (double)expect[i])
        { C.violation("db_polygon:undefined-z", "3-D Db, sample " + std::to_string(i) + " (z kind " + std::to_string(zkind[i]) + ": 0 inside limits, 1 outside, 2 undefined) marked " + fmt(db->getValueByColIdx((int)i, nc)) + " expected " + std::to_string(expect[i]), std::to_string(id)); break; }
      }
      if (nt) C.nontrivial(id);
    }
    if (id % 7 == 0) C.sample("{\"id\":" + std::to_string(id) + ",\"case\":" + sp.describe(idx) + "}");
    delete db;
  });
}

// ---- dilated convex hull: every generating point strictly inside, hull within the dilation distance ------------------
VF_PART(hull_dilated)
{
  int L = 3;
  Space sp; sp.axis("subset", 1 << (L * L)).axis("dilate", 3);
  for_each_case(C, sp, [&](uint64_t id, const std::vector<int>& idx) {
    std::vector<std::vector<double>> x(2);
    int n = 0;
    for (int k = 0; k < L * L; k++) if (idx[0] >> k & 1) { x[0].push_back(2. * (k % L)); x[1].push_back(2. * (k / L)); n++; }
    if (n < 3) return;
    {
      // degenerate (collinear) point sets have no polygonal hull: not judged, as in part 'hull'
      bool collinear = true;
      for (int i = 1; i + 1 < n && collinear; i++)
        if ((x[0][i] - x[0][0]) * (x[1][i + 1] - x[1][0]) - (x[0][i + 1] - x[0][0]) * (x[1][i] - x[1][0]) != 0.) collinear = false;
      if (collinear) { C.skip(); return; }
    }
    double dil = idx[1] == 0 ? 0.5 : idx[1] == 1 ? 1. : 0.125;
    Db* db = make_db_xz(x, {});
    Polygons* h = Polygons::createFromDb(db, dil);
    C.eval();
    if (h == nullptr || h->getPolyElemNumber() != 1) { C.violation("hull-dilated:null", "createFromDb(dilate) failed for " + std::to_string(n) + " points", std::to_string(id)); delete db; delete h; return; }
    // every generating point must be inside (strictly: it is at distance >= dilate*cos(pi/16) from the hull boundary)
    for (int i = 0; i < n; i++)
    {
      VectorDouble c = {x[0][i], x[1][i]};
      if (!h->inside(c, false)) { C.violation("hull-dilated:point-outside", "generating point (" + fmt(c[0]) + "," + fmt(c[1]) + ") is outside the hull dilated by " + fmt(dil), std::to_string(id)); break; }
    }
    // points farther than 'dilate' from the bounding box of the generating points must be outside
    double xmin = 1e30, xmax = -1e30, ymin = 1e30, ymax = -1e30;
    for (int i = 0; i < n; i++) { xmin = std::min(xmin, x[0][i]); xmax = std::max(xmax, x[0][i]); ymin = std::min(ymin, x[1][i]); ymax = std::max(ymax, x[1][i]); }
    for (auto& c : std::vector<VectorDouble> {{xmin - dil - 0.01, (ymin + ymax) / 2}, {xmax + dil + 0.01, (ymin + ymax) / 2}, {(xmin + xmax) / 2, ymin - dil - 0.01}, {(xmin + xmax) / 2, ymax + dil + 0.01}})
      if (h->inside(c, false)) { C.violation("hull-dilated:too-large", "point (" + fmt(c[0]) + "," + fmt(c[1]) + ") farther than the dilation from every generating point is inside the hull", std::to_string(id)); break; }
    if (n >= 3) C.nontrivial(id);
    if (id % 101 == 0) C.sample("{\"id\":" + std::to_string(id) + ",\"npoints\":" + std::to_string(n) + ",\"dilate\":" + fmt(dil) + "}");
    delete h; delete db;
  });
}

// ---- E2: histories of edits on ONE PolyElem / Polygons object (hidden state: caches of derived geometry) ---------------
// After every history the inclusion test of the edited object must equal the exact reference on its CURRENT vertices.
#include "vf/bfs.hpp"
static const std::vector<std::vector<P>>& histRings()
{
  static std::vector<std::vector<P>> R = {
    {{4, 4}, {12, 4}, {12, 12}, {4, 12}},            // small square
    {{0, 0}, {32, 0}, {32, 24}, {0, 24}},            // big rectangle containing it
    {{40, 8}, {56, 8}, {48, 28}},                    // triangle elsewhere (disjoint bounding box)
    {{0, 0}, {16, 0}, {16, 8}, {8, 8}, {8, 16}, {0, 16}},  // L shape
    {{-16, -16}, {-4, -16}, {-4, -4}, {-16, -4}}};   // square in the negative quadrant
  return R;
}
static void historyPoly(Ctx& C, bool usePolygons, int depth)
{
  const auto& R = histRings();
  const int NR = (int)R.size();
  // ops: 0..NR-1 setX+setY(ring) ; NR..2NR-1 init(ring) ; 2NR..3NR-1 assign from a fresh element(ring) ;
  //      3NR addPoint(extra vertex) ; 3NR+1 close ; 3NR+2 copy-construct-and-replace ; 3NR+3 observe (query every point)
  const int nops = 3 * NR + 4;
  auto opname = [&](int op) -> std::string {
    if (op < NR) return "setX+setY(ring" + std::to_string(op) + ")";
    if (op < 2 * NR) return "init(ring" + std::to_string(op - NR) + ")";
    if (op < 3 * NR) return "assign(fresh ring" + std::to_string(op - 2 * NR) + ")";
    if (op == 3 * NR) return "addPoint";
    if (op == 3 * NR + 1) return "close";
    if (op == 3 * NR + 2) return "copy-construct-replace";
    return "observe";
  };
  auto exec = [&](const History& h) -> StepResult {
    StepResult res;
    std::vector<P> ring = R[0];
    VectorDouble x, y; toXY(ring, false, x, y);
    PolyElem* pe = new PolyElem(x, y);
    Polygons* ps = new Polygons(); ps->addPolyElem(*pe);
    bool closedDup = false, observed = false;
    auto observe = [&]() {
      VectorDouble c(2);
      for (ll qx = -18; qx <= 58; qx += 4) for (ll qy = -18; qy <= 30; qy += 4) { c[0] = (qx + 1) / 4.; c[1] = (qy + 1) / 4.; (void)(usePolygons ? ps->inside(c, false) : pe->inside(c)); }
    };
    for (size_t k = 0; k < h.size(); k++)
    {
      int op = h[k];
      observed = false;
      if (op < NR)
      {
        ring = R[op]; closedDup = false; toXY(ring, false, x, y);
        if (usePolygons) { ps->setX(0, x); ps->setY(0, y); } else { pe->setX(x); pe->setY(y); }
      }
      else if (op < 2 * NR)
      {
        ring = R[op - NR]; closedDup = false; toXY(ring, false, x, y);
        if (usePolygons) { Polygons* q = new Polygons(); q->addPolyElem(PolyElem(x, y)); delete ps; ps = q; } else pe->init(x, y);
      }
      else if (op < 3 * NR)
      {
        ring = R[op - 2 * NR]; closedDup = false; toXY(ring, false, x, y);
        if (usePolygons) { Polygons q; q.addPolyElem(PolyElem(x, y)); *ps = q; } else { PolyElem q(x, y); *pe = q; }
      }
      else if (op == 3 * NR)
      {
        // append a vertex far to the upper right: keeps the menu rings simple only for some of them (checked below)
        if (closedDup || usePolygons) { res.enabled = false; break; }
        ring.push_back({60, 30});
        pe->addPoint(15., 7.5);
      }
      else if (op == 3 * NR + 1)
      {
        if (usePolygons || closedDup) { res.enabled = false; break; }
        pe->closePolyElem(); closedDup = true;
      }
      else if (op == 3 * NR + 2)
      {
        if (usePolygons) { Polygons* q = new Polygons(*ps); delete ps; ps = q; } else { PolyElem* q = new PolyElem(*pe); delete pe; pe = q; }
      }
      else { observe(); observed = true; }
    }
    if (res.enabled)
    {
      Hash hk; for (auto& p : ring) hk.i(p.x).i(p.y);
      hk.i(closedDup).i(observed);
      res.key = hk.h;
      if (isSimple(ring))
      {
        VectorDouble c(2);
        bool bad = false; int nin = 0;
        for (ll qx = -18; qx <= 62 && !bad; qx += 4)
          for (ll qy = -18; qy <= 34 && !bad; qy += 4)
          {
            P q {qx + 1, qy + 1};
            int ref = refInside(ring, q);
            if (ref < 0) continue;
            nin += ref;
            c[0] = q.x / 4.; c[1] = q.y / 4.;
            bool got = usePolygons ? ps->inside(c, false) : pe->inside(c);
            if (got != (bool)ref)
            {
              std::string hs; for (size_t k = 0; k < h.size(); k++) hs += (k ? " ; " : "") + opname(h[k]);
              C.violation(std::string("history:") + (usePolygons ? "Polygons" : "PolyElem") + ":inside-after:" + opname(h.back()).substr(0, opname(h.back()).find('(')),
                          "after the history [" + hs + "] the inclusion test answers " + std::to_string(got) + " for (" + fmt(c[0]) + "," + fmt(c[1]) + "), the current ring " + ringStr(ring) + " gives " + std::to_string(ref), hist_str(h));
              bad = true;
            }
          }
        if (nin > 0 && h.size() >= 2) C.nontrivial(Hash().s(hist_str(h)).i(usePolygons).h);
        if (h.size() == 3 && h[0] == 3 * NR + 3 && h[1] == 2) C.sample("{\"history\":" + jstr(hist_str(h)) + ",\"object\":" + jstr(usePolygons ? "Polygons" : "PolyElem") + "}");
      }
      else C.outcome("ring-not-simple-after-addPoint-not-judged");
    }
    delete pe; delete ps;
    return res;
  };
  bfs(C, nops, depth, exec, /*prune=*/false);
}
VF_PART(history_polyelem) { historyPoly(C, false, C.thorough() ? 4 : 3); }
VF_PART(history_polygons) { historyPoly(C, true, C.thorough() ? 4 : 3); }

int main(int argc, char** argv) { return run_main(argc, argv, [](Ctx&) { silence(); }, [](Ctx& C) { write_states(C); }); }
