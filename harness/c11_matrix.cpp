// C11 — matrix and vector classes compute what linear algebra defines, in every storage.
//
// Engine E1 (bounded-exhaustive product enumeration) with a reference model: every matrix over {-1,0,2} with
// r*c <= 4 (then structured menus of larger shapes) is built in every storage that can hold it
// (MatrixRectangular, MatrixSquareGeneral, MatrixSquareSymmetric, MatrixSparse/Eigen, MatrixSparse/cs), every
// public operation named in the property is executed on the REAL objects and the result is compared, element by
// element and dimension by dimension, with a naive long-double reference.  As all storages are compared with the
// same reference the check is also the cross-storage / cross-back-end differential.  The library is the ASan
// build: an out-of-bounds access inside an operation is part of the oracle.
//
// Isolation: every part runs its cases in forked children (the parent never executes library code).  A child
// publishes "case / step / mechanism key" in shared memory before each step; when it dies (ASan abort, SIGSEGV,
// timeout) the parent records a violation under that key and restarts a child just after the fatal step, so a
// crashing operation never hides the following ones.
#include "vf/gst.hpp"

#include "Matrix/AMatrix.hpp"
#include "Matrix/AMatrixDense.hpp"
#include "Matrix/MatrixRectangular.hpp"
#include "Matrix/MatrixSquareGeneral.hpp"
#include "Matrix/MatrixSquareSymmetric.hpp"
#include "Matrix/MatrixSparse.hpp"
#include "Matrix/MatrixFactory.hpp"
#include "Matrix/NF_Triplet.hpp"
#include "Matrix/LinkMatrixSparse.hpp"
#include "csparse_d.h"
#include "LinearOp/CholeskyDense.hpp"
#include "LinearOp/CholeskySparse.hpp"
#include "Basic/VectorNumT.hpp"
#include "Basic/VectorHelper.hpp"
#include "Basic/AException.hpp"

#include <fcntl.h>
#include <omp.h>
#include <poll.h>
#include <sys/mman.h>
#include <sys/resource.h>
#include <sys/wait.h>

using namespace vf;
typedef long double LD;

// The cs back-end releases malloc'ed cs structures with operator delete (MatrixSparse::resetFromTriplet): with the
// default ASan setting every cs matrix construction aborts. It is demonstrated once, in a re-executed child with the
// default setting (part cs_delete_mismatch); everywhere else the mismatch check is off so that the cs back-end can be explored.
extern "C" const char* __asan_default_options() { return "alloc_dealloc_mismatch=0:detect_leaks=0"; }

// =====================================================================================================
// isolation layer
// =====================================================================================================
struct Shm
{
  volatile uint64_t caseId;
  volatile int stepNo;
  volatile int inStep;
  volatile int started;
  char key[240];
};

struct Sink
{
  int wfd = -1;
  Shm* shm = nullptr;
  std::string buf;
  uint64_t caseId = 0;
  int stepNo = 0, resumeStep = 0;
  std::string key;
  bool verbose = false;
  const std::map<std::string, int>* muted = nullptr;
  // pending counters (flushed at case end)
  uint64_t nev = 0, nskip = 0;
  std::map<std::string, uint64_t> outc;
  std::vector<uint64_t> sigs;
  int msgCount = 0;  // library messages seen (global hook)

  void line(char tag, const std::string& s) { buf += '\x01'; buf += tag; buf += s; buf += '\n'; }
  void flush()
  {
    if (nev) { line('E', std::to_string(nev)); nev = 0; }
    if (nskip) { line('K', std::to_string(nskip)); nskip = 0; }
    for (auto& kv : outc) line('O', std::to_string(kv.second) + " " + kv.first);
    outc.clear();
    for (auto s : sigs) line('N', std::to_string(s));
    sigs.clear();
    size_t off = 0;
    while (off < buf.size()) { ssize_t n = ::write(wfd, buf.data() + off, buf.size() - off); if (n <= 0) break; off += (size_t)n; }
    buf.clear();
  }
  void beginCase(uint64_t id, int resume)
  {
    caseId = id; stepNo = 0; resumeStep = resume;
    shm->caseId = id; shm->stepNo = 0; shm->inStep = 0; shm->started = 1;
  }
  void endCase() { line('D', std::to_string(caseId)); flush(); }
  bool step(const std::string& k)
  {
    stepNo++;
    if (stepNo <= resumeStep) return false;
    if (muted && muted->count(k) && muted->at(k) >= 2) { outc["skipped-after-repeated-crash:" + k]++; return false; }
    key = k;
    shm->stepNo = stepNo;
    size_t n = std::min(k.size(), sizeof(shm->key) - 1);
    memcpy(shm->key, k.data(), n); shm->key[n] = 0;
    shm->inStep = 1;
    return true;
  }
  void endStep() { shm->inStep = 0; }
  template<class F> void run(const std::string& k, F f)
  {
    if (!step(k)) return;
    try { f(); }
    catch (const std::exception& e) { bad(std::string("uncaught exception on a valid call: ") + e.what()); }
    catch (const char* e) { bad(std::string("uncaught (const char*) exception on a valid call: ") + e); }
    catch (...) { bad("uncaught exception on a valid call"); }
    endStep();
  }
  void eval(uint64_t n = 1) { nev += n; }
  void skip(uint64_t n = 1) { nskip += n; }
  void outcome(const std::string& k, uint64_t n = 1) { outc[k] += n; }
  void nontrivial(uint64_t s) { sigs.push_back(s); }
  void sample(const std::string& json) { line('S', json); }
  void bad(const std::string& what) { badKey(key, what); }
  void badKey(const std::string& k, const std::string& what)
  {
    std::string w = what.substr(0, 700);
    for (auto& ch : w) if (ch == '\n' || ch == '\t' || ch == '\x01') ch = ' ';
    line('V', k + "\t" + w);
    outc["VIOLATION:" + k]++;
    if (verbose) fprintf(stderr, "VIOLATION key=%s case=%llu : %s\n", k.c_str(), (unsigned long long)caseId, w.c_str());
    // violations are never lost: written immediately
    size_t off = 0;
    while (off < buf.size()) { ssize_t n = ::write(wfd, buf.data() + off, buf.size() - off); if (n <= 0) break; off += (size_t)n; }
    buf.clear();
  }
};

static Sink* g_sink = nullptr;
static void counting_write(const char*) { if (g_sink) g_sink->msgCount++; }

struct ChildEnd { int kind = 0; /*0 exit,1 signal,2 timeout*/ int code = 0; std::string data; };

template<class F> static ChildEnd forkRun(F body, double timeout_s)
{
  int pfd[2];
  ChildEnd r;
  if (pipe(pfd) != 0) { r.kind = 1; r.code = -1; return r; }
  fflush(stdout); fflush(stderr);
  pid_t pid = fork();
  if (pid == 0)
  {
    ::close(pfd[0]);
    signal(SIGSEGV, SIG_DFL); signal(SIGABRT, SIG_DFL); signal(SIGFPE, SIG_DFL); signal(SIGBUS, SIG_DFL);
    dup2(pfd[1], 2);  // the ASan report travels on the same pipe (lines without the \x01 prefix)
    int nul = open("/dev/null", O_WRONLY);
    if (nul >= 0) dup2(nul, 1);
    struct rlimit core {0, 0}; setrlimit(RLIMIT_CORE, &core);
    int rc = 97;
    try { rc = body(pfd[1]); } catch (...) { rc = 94; }
    ::close(pfd[1]);
    _exit(rc);
  }
  ::close(pfd[1]);
  auto t0 = std::chrono::steady_clock::now();
  char bufr[65536];
  bool timed_out = false;
  for (;;)
  {
    double left = timeout_s - std::chrono::duration<double>(std::chrono::steady_clock::now() - t0).count();
    if (left <= 0) { timed_out = true; break; }
    struct pollfd p {pfd[0], POLLIN, 0};
    int pr = poll(&p, 1, (int)std::min(left * 1000. + 1, 1e6));
    if (pr < 0) { if (errno == EINTR) continue; break; }
    if (pr == 0) { timed_out = true; break; }
    ssize_t n = ::read(pfd[0], bufr, sizeof bufr);
    if (n <= 0) break;
    if (r.data.size() < (256u << 20)) r.data.append(bufr, (size_t)n);
  }
  ::close(pfd[0]);
  int st = 0;
  if (timed_out) { kill(pid, SIGKILL); waitpid(pid, &st, 0); r.kind = 2; return r; }
  for (int k = 0; k < 5000; k++)
  {
    pid_t w = waitpid(pid, &st, WNOHANG);
    if (w == pid)
    {
      if (WIFSIGNALED(st)) { r.kind = 1; r.code = WTERMSIG(st); }
      else { r.kind = 0; r.code = WEXITSTATUS(st); }
      return r;
    }
    usleep(1000);
  }
  kill(pid, SIGKILL); waitpid(pid, &st, 0); r.kind = 2;
  return r;
}

// parse what a child wrote; returns true if the terminating 'Z' record was seen
static bool absorb(Ctx& C, const std::string& data, std::string& asanText)
{
  bool z = false;
  std::string curCase;
  size_t pos = 0;
  while (pos < data.size())
  {
    size_t e = data.find('\n', pos);
    if (e == std::string::npos) e = data.size();
    if (data[pos] == '\x01' && e > pos + 1)
    {
      char tag = data[pos + 1];
      std::string s = data.substr(pos + 2, e - pos - 2);
      switch (tag)
      {
        case 'B': curCase = s; break;
        case 'E': C.eval(strtoull(s.c_str(), nullptr, 10)); break;
        case 'K': C.skip(strtoull(s.c_str(), nullptr, 10)); break;
        case 'N': C.nontrivial(strtoull(s.c_str(), nullptr, 10)); break;
        case 'O': { size_t sp = s.find(' '); C.outcome(s.substr(sp + 1), strtoull(s.c_str(), nullptr, 10)); break; }
        case 'S': C.sample(s); break;
        case 'V': { size_t tb = s.find('\t'); C.violation(s.substr(0, tb), s.substr(tb + 1), curCase); break; }
        case 'D': break;
        case 'Z': z = true; break;
        default: break;
      }
    }
    else if (e > pos && asanText.size() < 4000) asanText.append(data, pos, e - pos + 1);
    pos = e + 1;
  }
  return z;
}

static std::string asanSummary(const std::string& t)
{
  std::string s;
  size_t p = t.find("ERROR: AddressSanitizer:");
  if (p != std::string::npos) { size_t e = t.find('\n', p); s = t.substr(p + 7, std::min<size_t>(e - p - 7, 160)); size_t q = s.find(" on address"); if (q != std::string::npos) s = s.substr(0, q); }
  p = t.find("READ of size");
  if (p == std::string::npos) p = t.find("WRITE of size");
  if (p != std::string::npos) { size_t e = t.find(" at 0x", p); s += "; " + t.substr(p, std::min<size_t>(e - p, 24)); }
  p = t.find("    #0 ");
  for (int k = 0; k < 3 && p != std::string::npos; k++)
  {
    size_t in = t.find(" in ", p), e = t.find('\n', p);
    if (in != std::string::npos && in < e) { std::string fr = t.substr(in + 4, e - in - 4); size_t sp = fr.find(" /"); std::string fn = fr.substr(0, std::min<size_t>(sp, 90)); size_t sl = fr.rfind('/'); s += (k ? " <- " : "; at ") + fn + (sl != std::string::npos ? " (" + fr.substr(sl + 1) + ")" : ""); }
    p = t.find("    #", e);
  }
  return s;
}

// Run cases [0,n) of a part (those owned by this shard) in children; fn(S, id) executes every step of case id.
template<class F> static void runCases(Ctx& C, uint64_t n, F fn)
{
  C.ps().space += n;
  static Shm* shm = (Shm*)mmap(nullptr, sizeof(Shm), PROT_READ | PROT_WRITE, MAP_SHARED | MAP_ANONYMOUS, -1, 0);
  std::vector<uint64_t> ids;
  if (!C.only_case.empty()) { uint64_t id = strtoull(C.only_case.c_str(), nullptr, 10); if (id < n) ids.push_back(id); }
  else for (uint64_t id = (uint64_t)C.shard; id < n; id += (uint64_t)C.nshards) ids.push_back(id);
  std::map<std::string, int> crashes;
  size_t pos = 0;
  int resume = 0, nfork = 0;
  while (pos < ids.size())
  {
    if (C.expired()) break;
    if (++nfork > 4000) { C.ps().exhaustive = false; C.note("more than 4000 child restarts: part abandoned"); break; }
    memset((void*)shm, 0, sizeof(Shm));
    double left = std::min(C.deadline - C.elapsed(), 3600.) + 20.;
    ChildEnd r = forkRun([&](int wfd) {
      Sink S; S.wfd = wfd; S.shm = shm; S.verbose = C.verbose; S.muted = &crashes;
      g_sink = &S;
      redefine_message(counting_write); redefine_error(counting_write);
      for (size_t k = pos; k < ids.size(); k++)
      {
        if ((k & 15) == 0 && C.elapsed() > C.deadline) { S.line('X', ""); S.flush(); return 0; }
        S.line('B', std::to_string(ids[k]));
        S.beginCase(ids[k], k == pos ? resume : 0);
        fn(S, ids[k]);
        S.endCase();
      }
      S.line('Z', ""); S.flush();
      return 0;
    }, left);
    std::string asan;
    bool z = absorb(C, r.data, asan);
    if (z) break;
    if (r.kind == 0 && r.code == 0) { C.ps().exhaustive = false; break; }  // deadline inside the child ('X')
    // the child died
    if (!shm->started) { C.violation("harness:child-died-before-first-case", "child ended (" + std::to_string(r.kind) + ":" + std::to_string(r.code) + ") " + asan.substr(0, 300), ""); C.ps().exhaustive = false; break; }
    uint64_t cid = shm->caseId;
    std::string key = shm->inStep ? std::string(shm->key) : std::string("harness:died-between-steps");
    std::string how = r.kind == 2 ? "timeout (hang)" : r.kind == 1 ? std::string("killed by signal ") + (r.code == SIGABRT ? "SIGABRT" : r.code == SIGSEGV ? "SIGSEGV" : r.code == SIGFPE ? "SIGFPE" : std::to_string(r.code)) : "exit code " + std::to_string(r.code);
    std::string sum = asanSummary(asan);
    C.violation(key, "the process executing this operation died: " + how + (sum.empty() ? "" : " [" + sum + "]"), std::to_string(cid));
    C.outcome("CRASH:" + key);
    crashes[key]++;
    // resume just after the fatal step of that case
    size_t k = pos;
    while (k < ids.size() && ids[k] != cid) k++;
    if (k >= ids.size()) { C.ps().exhaustive = false; break; }
    pos = k;
    resume = shm->stepNo;
    if (!shm->inStep) { pos = k + 1; resume = 0; }
  }
}

// =====================================================================================================
// reference linear algebra (long double, naive loops)
// =====================================================================================================
struct Ref
{
  int r = 0, c = 0;
  std::vector<LD> a;
  Ref() {}
  Ref(int r_, int c_) : r(r_), c(c_), a((size_t)r_ * c_, 0.L) {}
  LD& operator()(int i, int j) { return a[(size_t)i * c + j]; }
  LD operator()(int i, int j) const { return a[(size_t)i * c + j]; }
  bool square() const { return r == c; }
  bool symmetric() const { if (r != c) return false; for (int i = 0; i < r; i++) for (int j = 0; j < i; j++) if ((*this)(i, j) != (*this)(j, i)) return false; return true; }
  Ref T() const { Ref t(c, r); for (int i = 0; i < r; i++) for (int j = 0; j < c; j++) t(j, i) = (*this)(i, j); return t; }
  std::string str() const
  {
    std::string s = std::to_string(r) + "x" + std::to_string(c) + "[";
    for (int i = 0; i < r; i++) { s += i ? ";" : ""; for (int j = 0; j < c; j++) { char b[32]; snprintf(b, 32, "%s%.6Lg", j ? " " : "", (*this)(i, j)); s += b; } if (s.size() > 220) { s += "..."; break; } }
    return s + "]";
  }
  uint64_t hash() const { Hash h; h.i(r).i(c); for (auto v : a) h.d((double)v); return h.h; }
};
static Ref rmul(const Ref& x, const Ref& y)
{
  Ref z(x.r, y.c);
  for (int i = 0; i < x.r; i++) for (int j = 0; j < y.c; j++) { LD s = 0; for (int k = 0; k < x.c; k++) s += x(i, k) * y(k, j); z(i, j) = s; }
  return z;
}
static Ref rT(bool t, const Ref& x) { return t ? x.T() : x; }
static Ref rdiag(const std::vector<LD>& v) { Ref d((int)v.size(), (int)v.size()); for (int i = 0; i < d.r; i++) d(i, i) = v[i]; return d; }
static Ref rident(int n) { Ref d(n, n); for (int i = 0; i < n; i++) d(i, i) = 1; return d; }
static Ref rlin(LD ca, const Ref& a, LD cb, const Ref& b) { Ref z(a.r, a.c); for (size_t k = 0; k < z.a.size(); k++) z.a[k] = ca * a.a[k] + cb * b.a[k]; return z; }
static std::vector<LD> rmv(const Ref& m, const std::vector<LD>& x) { std::vector<LD> y(m.r, 0); for (int i = 0; i < m.r; i++) for (int j = 0; j < m.c; j++) y[i] += m(i, j) * x[j]; return y; }
static LD rnorm1(const Ref& m) { LD b = 0; for (int j = 0; j < m.c; j++) { LD s = 0; for (int i = 0; i < m.r; i++) s += fabsl(m(i, j)); b = std::max(b, s); } return b; }
// Gauss-Jordan inverse with full pivoting; false if singular (pivot below 1e-14 * scale)
static bool rinv(const Ref& m, Ref& inv)
{
  int n = m.r;
  Ref a = m; inv = rident(n);
  LD scale = std::max<LD>(1, rnorm1(m));
  for (int col = 0; col < n; col++)
  {
    int p = col; LD best = fabsl(a(col, col));
    for (int i = col + 1; i < n; i++) if (fabsl(a(i, col)) > best) { best = fabsl(a(i, col)); p = i; }
    if (best < 1e-13L * scale) return false;
    if (p != col) for (int j = 0; j < n; j++) { std::swap(a(p, j), a(col, j)); std::swap(inv(p, j), inv(col, j)); }
    LD d = a(col, col);
    for (int j = 0; j < n; j++) { a(col, j) /= d; inv(col, j) /= d; }
    for (int i = 0; i < n; i++) if (i != col) { LD f = a(i, col); if (f != 0) for (int j = 0; j < n; j++) { a(i, j) -= f * a(col, j); inv(i, j) -= f * inv(col, j); } }
  }
  return true;
}
// Cholesky in long double: true iff symmetric positive definite with a comfortable margin; logdet returned
static bool rchol(const Ref& m, Ref& L, LD& logdet)
{
  int n = m.r; L = Ref(n, n); logdet = 0;
  LD scale = std::max<LD>(1, rnorm1(m));
  for (int j = 0; j < n; j++)
  {
    LD d = m(j, j);
    for (int k = 0; k < j; k++) d -= L(j, k) * L(j, k);
    if (d < 1e-9L * scale) return false;
    L(j, j) = sqrtl(d); logdet += logl(d);
    for (int i = j + 1; i < n; i++) { LD s = m(i, j); for (int k = 0; k < j; k++) s -= L(i, k) * L(j, k); L(i, j) = s / L(j, j); }
  }
  return true;
}
// eigenvalues of a symmetric matrix by cyclic Jacobi (long double), descending
static std::vector<LD> reigvals(const Ref& m)
{
  int n = m.r; Ref a = m;
  for (int sweep = 0; sweep < 100; sweep++)
  {
    LD off = 0; for (int i = 0; i < n; i++) for (int j = 0; j < i; j++) off += a(i, j) * a(i, j);
    if (off < 1e-60L) break;
    for (int p = 0; p < n; p++) for (int q = p + 1; q < n; q++)
    {
      if (fabsl(a(p, q)) < 1e-40L) continue;
      LD th = (a(q, q) - a(p, p)) / (2 * a(p, q));
      LD t = (th >= 0 ? 1 : -1) / (fabsl(th) + sqrtl(th * th + 1));
      LD cs = 1 / sqrtl(t * t + 1), sn = t * cs;
      for (int k = 0; k < n; k++) { LD akp = a(k, p), akq = a(k, q); a(k, p) = cs * akp - sn * akq; a(k, q) = sn * akp + cs * akq; }
      for (int k = 0; k < n; k++) { LD apk = a(p, k), aqk = a(q, k); a(p, k) = cs * apk - sn * aqk; a(q, k) = sn * apk + cs * aqk; }
    }
  }
  std::vector<LD> v(n); for (int i = 0; i < n; i++) v[i] = a(i, i);
  std::sort(v.begin(), v.end(), [](LD x, LD y) { return x > y; });
  return v;
}

// =====================================================================================================
// storages
// =====================================================================================================
enum St { RECT = 0, SQG, SYM, SPE, SPC, NST };
static const char* stName[NST] = {"rect", "sqgen", "sym", "sparse-eigen", "sparse-cs"};
static const char* stClass(int s) { return s <= SYM ? "dense" : s == SPE ? "sparse-eigen" : "sparse-cs"; }
static bool isSparseSt(int s) { return s >= SPE; }
static bool canHold(int s, const Ref& a)
{
  if (a.r <= 0 || a.c <= 0) return false;
  if (s == SQG) return a.square();
  if (s == SYM) return a.symmetric();
  return true;
}
static std::string shp(const Ref& a) { return a.square() ? "square" : "nonsquare"; }
static std::string K(int s, const std::string& op, const std::string& shape) { return std::string(stClass(s)) + ":" + op + ":" + shape; }

static AMatrix* build(int s, const Ref& a)
{
  AMatrix* m = nullptr;
  if (s == RECT) m = new MatrixRectangular(a.r, a.c);
  else if (s == SQG) m = new MatrixSquareGeneral(a.r);
  else if (s == SYM) m = new MatrixSquareSymmetric(a.r);
  if (m != nullptr)
  {
    for (int i = 0; i < a.r; i++) for (int j = 0; j < a.c; j++) { if (s == SYM && j > i) continue; m->setValue(i, j, (double)a(i, j)); }
    return m;
  }
  NF_Triplet t;
  for (int i = 0; i < a.r; i++) for (int j = 0; j < a.c; j++) if (a(i, j) != 0) t.add(i, j, (double)a(i, j));
  // NF_Triplet::force() adds its fictitious (r-1,c-1,0.) entry even when that corner is already present, which leaves a
  // duplicate entry in the cs storage (judged separately in part triplet_force): only force when the corner is empty.
  if (a(a.r - 1, a.c - 1) == 0) t.force(a.r, a.c);
  return MatrixSparse::createFromTriplet(t, a.r, a.c, s == SPE ? 1 : 0);
}
static AMatrix* buildZero(int s, int r, int c) { return build(s, Ref(r, c)); }

struct Got { int r = 0, c = 0; std::vector<double> a; bool ok = true; std::string err; double operator()(int i, int j) const { return a[(size_t)i * c + j]; } };
static Got readMat(const AMatrix* m)
{
  Got g;
  if (m == nullptr) { g.ok = false; g.err = "null matrix returned"; return g; }
  g.r = m->getNRows(); g.c = m->getNCols();
  int ir = g.r, ic = g.c;
  const MatrixSparse* sp = dynamic_cast<const MatrixSparse*>(m);
  const AMatrixDense* de = dynamic_cast<const AMatrixDense*>(m);
  if (sp != nullptr)
  {
    if (sp->isFlagEigen()) { ir = (int)sp->_eigenMatrix.rows(); ic = (int)sp->_eigenMatrix.cols(); }
    else if (sp->_csMatrix == nullptr) { g.ok = false; g.err = "cs storage is a null pointer"; return g; }
    else
    {
      ir = cs_get_nrow(sp->_csMatrix); ic = cs_get_ncol(sp->_csMatrix);
      if (sp->_csMatrix->x == nullptr) { g.ok = false; g.err = "the cs storage has lost its array of values (x == NULL, pattern only)"; return g; }
    }
  }
  else if (de != nullptr) { ir = (int)de->_eigenMatrix.rows(); ic = (int)de->_eigenMatrix.cols(); }
  if (ir != g.r || ic != g.c)
  {
    g.ok = false;
    g.err = "getNRows/getNCols say " + std::to_string(g.r) + "x" + std::to_string(g.c) + " but the storage holds " + std::to_string(ir) + "x" + std::to_string(ic);
    return g;
  }
  g.a.resize((size_t)g.r * g.c);
  for (int i = 0; i < g.r; i++) for (int j = 0; j < g.c; j++) g.a[(size_t)i * g.c + j] = m->getValue(i, j, false);
  return g;
}
static bool nearLD(double got, LD exp, double tol, LD scale = 1)
{
  if (std::isnan(got)) return false;
  LD m = std::max<LD>({scale, fabsl(exp), (LD)fabs(got)});
  return fabsl((LD)got - exp) <= tol * m;
}
// compare a library matrix with the reference; reports under the current step key
static bool expectMat(Sink& S, const AMatrix* m, const Ref& e, const std::string& ctx, double tol = 1e-12, LD scale = 1)
{
  S.eval();
  Got g = readMat(m);
  if (!g.ok) { S.bad(ctx + ": " + g.err + " (expected " + e.str() + ")"); return false; }
  if (g.r != e.r || g.c != e.c) { S.bad(ctx + ": result is " + std::to_string(g.r) + "x" + std::to_string(g.c) + ", expected " + e.str()); return false; }
  for (int i = 0; i < e.r; i++) for (int j = 0; j < e.c; j++)
    if (!nearLD(g(i, j), e(i, j), tol, scale))
    {
      Ref gr(g.r, g.c); for (size_t k = 0; k < g.a.size(); k++) gr.a[k] = g.a[k];
      S.bad(ctx + ": element (" + std::to_string(i) + "," + std::to_string(j) + ") = " + fmt(g(i, j)) + ", expected " + fmt((double)e(i, j)) + "; got " + gr.str() + " expected " + e.str());
      return false;
    }
  return true;
}
static bool expectVec(Sink& S, const VectorDouble& v, const std::vector<LD>& e, const std::string& ctx, double tol = 1e-12, LD scale = 1)
{
  S.eval();
  if (v.size() != e.size()) { S.bad(ctx + ": result has " + std::to_string(v.size()) + " elements, expected " + std::to_string(e.size())); return false; }
  for (size_t i = 0; i < e.size(); i++)
    if (!nearLD(v[i], e[i], tol, scale))
    {
      std::vector<double> ed(e.begin(), e.end());
      S.bad(ctx + ": element " + std::to_string(i) + " = " + fmt(v[i]) + ", expected " + fmt((double)e[i]) + "; got " + vstr(v) + " expected " + vstr(ed));
      return false;
    }
  return true;
}
static VectorDouble toVD(const std::vector<LD>& v) { VectorDouble o(v.size()); for (size_t i = 0; i < v.size(); i++) o[i] = (double)v[i]; return o; }

// fixed menus of vectors (dyadic, non-zero) used for scalings / right-hand sides
static const LD menuV[8] = {2, -1, 0.5L, 4, -2, 3, 0.25L, -4};
static std::vector<LD> mvec(int n, int shift = 0) { std::vector<LD> v(n); for (int i = 0; i < n; i++) v[i] = menuV[(i + shift) % 8]; return v; }
static std::vector<LD> evec(int n, int k) { std::vector<LD> v(n, 0); v[k] = 1; return v; }


// =====================================================================================================
// content menus
// =====================================================================================================
static const int smallShapes[8][2] = {{1, 1}, {1, 2}, {2, 1}, {1, 3}, {3, 1}, {2, 2}, {1, 4}, {4, 1}};
static const LD alpha3[3] = {-1, 0, 2};
static std::vector<Ref> allSmall(int maxCells)
{
  std::vector<Ref> v;
  for (auto& sh : smallShapes)
  {
    int n = sh[0] * sh[1];
    if (n > maxCells) continue;
    int tot = 1; for (int k = 0; k < n; k++) tot *= 3;
    for (int id = 0; id < tot; id++)
    {
      Ref a(sh[0], sh[1]); int x = id;
      for (int k = 0; k < n; k++) { a.a[k] = alpha3[x % 3]; x /= 3; }
      v.push_back(a);
    }
  }
  return v;
}
static Ref fromList(int r, int c, std::initializer_list<double> l) { Ref a(r, c); int k = 0; for (double x : l) a.a[k++] = x; return a; }
// structured menu of larger matrices (identity, rank-1, SPD, indefinite, singular, empty row / column, patterns)
static std::vector<Ref> structured(bool thorough)
{
  std::vector<Ref> v;
  for (int n : {3, 4, 5}) v.push_back(rident(n));
  for (int n : {3, 4}) { Ref a(n, n); for (int i = 0; i < n; i++) for (int j = 0; j < n; j++) a(i, j) = menuV[i] * menuV[(j + 3) % 8]; v.push_back(a); }   // rank 1
  for (int n : {3, 4, 5, 7}) { Ref a(n, n); for (int i = 0; i < n; i++) { a(i, i) = 2; if (i) { a(i, i - 1) = -1; a(i - 1, i) = -1; } } v.push_back(a); }      // SPD tridiagonal
  v.push_back(fromList(3, 3, {4, 1, 2, 1, 3, 0, 2, 0, 5}));                    // SPD dense
  v.push_back(fromList(4, 4, {4, 1, 0, 2, 1, 3, 1, 0, 0, 1, 5, -1, 2, 0, -1, 6}));  // SPD
  v.push_back(fromList(3, 3, {1, 2, 0, 2, -1, 3, 0, 3, 2}));                   // symmetric indefinite
  v.push_back(fromList(3, 3, {0, 1, 0, 1, 0, 2, 0, 2, 0}));                    // symmetric, zero diagonal
  v.push_back(fromList(3, 3, {1, 2, 3, 2, 4, 6, 0, 1, 1}));                    // singular general
  v.push_back(fromList(3, 3, {2, -1, 4, 0, 3, 1, 5, 2, -2}));                  // general non singular
  v.push_back(fromList(4, 4, {0, 2, 0, 0, 1, 0, 0, 3, 0, 0, 0, 0, 4, 0, -1, 2}));  // empty row 2, empty column 2... (row 2 zero)
  v.push_back(fromList(3, 4, {1, 0, 0, 2, 0, 0, 0, 0, -1, 0, 0, 4}));          // empty row, two empty columns
  v.push_back(fromList(4, 3, {1, 0, -1, 0, 0, 0, 0, 0, 0, 2, 0, 4}));          // transposed pattern
  v.push_back(fromList(2, 3, {1, 2, 3, 4, 5, 6}));
  v.push_back(fromList(3, 2, {1, 2, 3, 4, 5, 6}));
  v.push_back(fromList(2, 5, {1, 0, 2, 0, 3, 0, -1, 0, 4, 0}));
  v.push_back(fromList(5, 2, {1, 0, 2, 0, 3, 0, -1, 0, 4, 0}));
  v.push_back(fromList(1, 5, {1, -2, 0, 4, 0.5}));
  v.push_back(fromList(5, 1, {1, -2, 0, 4, 0.5}));
  if (thorough)
  {
    for (int r : {3, 6, 7}) for (int c : {3, 5, 7})
    {
      Ref a(r, c);
      for (int i = 0; i < r; i++) for (int j = 0; j < c; j++) a(i, j) = ((i * 7 + j * 3) % 5 == 0) ? 0 : (LD)(((i * 5 + j * 11) % 9) - 4);
      v.push_back(a);
    }
    { Ref a(6, 6); for (int i = 0; i < 6; i++) { a(i, i) = 4; for (int j = 0; j < i; j++) if ((i + j) % 3 == 0) { a(i, j) = -1; a(j, i) = -1; } } v.push_back(a); }  // sparse SPD with fill-in
  }
  return v;
}

// =====================================================================================================
// unary operations on one content, in every storage
// =====================================================================================================
// With the cs back-end an entry that is not stored cannot be assigned (documented: message + nothing done): the stored
// pattern is asked to the real object.
static std::vector<char> g_csPattern;
static void csPatternOf(const Ref& a)
{
  MatrixSparse* m = dynamic_cast<MatrixSparse*>(build(SPC, a));
  g_csPattern.assign((size_t)a.r * a.c, 0);
  for (int i = 0; i < a.r; i++) for (int j = 0; j < a.c; j++) g_csPattern[(size_t)i * a.c + j] = m->_isElementPresent(i, j) ? 1 : 0;
  delete m;
}
static bool csPresent(const Ref& a, int i, int j) { return g_csPattern[(size_t)i * a.c + j] != 0; }

static void unaryOps(Sink& S, const Ref& A, bool wide)
{
  const std::string sh = shp(A), in = " input " + A.str();
  const int r = A.r, c = A.c;
  for (int s = 0; s < NST; s++)
  {
    if (!canHold(s, A)) continue;
    const std::string sn = std::string("[") + stName[s] + "]";
    S.outcome(std::string("storage:") + stName[s]);
    if (s == SPC) csPatternOf(A);
    // ---- element access --------------------------------------------------------------------------
    S.run(K(s, "build-read", sh), [&] { AMatrix* m = build(s, A); expectMat(S, m, A, sn + " setValue/getValue round trip" + in); delete m; });
    S.run(K(s, "getValues", sh), [&] {
      AMatrix* m = build(s, A);
      for (int byCol = 0; byCol < 2; byCol++)
      {
        VectorDouble v = m->getValues(byCol);
        std::vector<LD> e;
        if (byCol) { for (int j = 0; j < c; j++) for (int i = 0; i < r; i++) e.push_back(A(i, j)); }
        else { for (int i = 0; i < r; i++) for (int j = 0; j < c; j++) e.push_back(A(i, j)); }
        expectVec(S, v, e, sn + " getValues(byCol=" + std::to_string(byCol) + ")" + in);
      }
      delete m;
    });
    bool tzr = true, tzc = true;
    for (int j = 0; j < c; j++) if (A(r - 1, j) != 0) tzr = false;
    for (int i = 0; i < r; i++) if (A(i, c - 1) != 0) tzc = false;
    S.run((s == SPC && (tzr || tzc)) ? std::string("sparse-cs:setValues:trailing-zero-row-or-column") : K(s, "setValues", sh), [&] {
      for (int byCol = 0; byCol < 2; byCol++)
      {
        AMatrix* m = buildZero(s, r, c);
        std::vector<LD> e;
        if (byCol) { for (int j = 0; j < c; j++) for (int i = 0; i < r; i++) e.push_back(A(i, j)); }
        else { for (int i = 0; i < r; i++) for (int j = 0; j < c; j++) e.push_back(A(i, j)); }
        m->setValues(toVD(e), byCol);
        expectMat(S, m, A, sn + " setValues(byCol=" + std::to_string(byCol) + ") on a zero matrix" + in);
        delete m;
      }
    });
    S.run(K(s, "setValue-one", sh), [&] {
      for (int i = 0; i < r; i++) for (int j = 0; j < c; j++)
      {
        if (s == SPC && !csPresent(A, i, j)) { S.outcome("excluded:cs-absent-entry(documented)"); continue; }
        AMatrix* m = build(s, A);
        m->setValue(i, j, 5.);
        Ref e = A; e(i, j) = 5; if (s == SYM) e(j, i) = 5;
        expectMat(S, m, e, sn + " setValue(" + std::to_string(i) + "," + std::to_string(j) + ",5)" + in);
        delete m;
      }
    });
    S.run(K(s, "getRow-getColumn", sh), [&] {
      AMatrix* m = build(s, A);
      for (int i = 0; i < r; i++) { std::vector<LD> e; for (int j = 0; j < c; j++) e.push_back(A(i, j)); expectVec(S, m->getRow(i), e, sn + " getRow(" + std::to_string(i) + ")" + in); }
      for (int j = 0; j < c; j++) { std::vector<LD> e; for (int i = 0; i < r; i++) e.push_back(A(i, j)); expectVec(S, m->getColumn(j), e, sn + " getColumn(" + std::to_string(j) + ")" + in); }
      if (A.square()) { std::vector<LD> e; for (int i = 0; i < r; i++) e.push_back(A(i, i)); expectVec(S, m->getDiagonal(0), e, sn + " getDiagonal()" + in); }
      delete m;
    });
    // ---- row / column / diagonal assignment --------------------------------------------------------
    if (s != SYM)
    {
      S.run(K(s, "setRow", sh), [&] {
        for (int i = 0; i < r; i++)
        {
          bool ok = true; if (s == SPC) for (int j = 0; j < c; j++) ok = ok && csPresent(A, i, j);
          if (!ok) { S.outcome("excluded:cs-absent-entry(documented)"); continue; }
          AMatrix* m = build(s, A); std::vector<LD> t = mvec(c, i); m->setRow(i, toVD(t));
          Ref e = A; for (int j = 0; j < c; j++) e(i, j) = t[j];
          expectMat(S, m, e, sn + " setRow(" + std::to_string(i) + ")" + in); delete m;
        }
      });
      S.run(K(s, "setColumn", sh), [&] {
        for (int j = 0; j < c; j++)
        {
          bool ok = true; if (s == SPC) for (int i = 0; i < r; i++) ok = ok && csPresent(A, i, j);
          if (!ok) { S.outcome("excluded:cs-absent-entry(documented)"); continue; }
          AMatrix* m = build(s, A); std::vector<LD> t = mvec(r, j); m->setColumn(j, toVD(t));
          Ref e = A; for (int i = 0; i < r; i++) e(i, j) = t[i];
          expectMat(S, m, e, sn + " setColumn(" + std::to_string(j) + ")" + in); delete m;
        }
      });
    }
    else S.outcome("excluded:setRow/setColumn/row-col-scaling on symmetric storage (result not symmetric)");
    if (A.square())
    {
      bool ok = true; if (s == SPC) for (int i = 0; i < r; i++) ok = ok && csPresent(A, i, i);
      if (ok)
      {
        S.run(K(s, "setDiagonal", sh), [&] {
          AMatrix* m = build(s, A); std::vector<LD> t = mvec(r, 1); m->setDiagonal(toVD(t));
          expectMat(S, m, rdiag(t), sn + " setDiagonal(v): documented as 'all terms set to 0, diagonal = v'" + in); delete m;
        });
        S.run(K(s, "setDiagonal", sh), [&] {
          AMatrix* m = build(s, A); m->setDiagonalToConstant(3.);
          expectMat(S, m, rdiag(std::vector<LD>(r, 3)), sn + " setDiagonalToConstant(3)" + in); delete m;
        });
      }
      else S.outcome("excluded:cs-absent-entry(documented)");
    }
    // ---- transposition ----------------------------------------------------------------------------
    S.run(K(s, "transpose", sh), [&] { AMatrix* m = build(s, A); m->transposeInPlace(); expectMat(S, m, A.T(), sn + " transposeInPlace()" + in); delete m; });
    S.run(K(s, "transpose", sh), [&] { AMatrix* m = build(s, A); AMatrix* t = m->transpose(); expectMat(S, t, A.T(), sn + " transpose()" + in); expectMat(S, m, A, sn + " transpose() must leave the source unchanged" + in); delete t; delete m; });
    // ---- scaling ----------------------------------------------------------------------------------
    S.run(K(s, "prodScalar", sh), [&] {
      for (LD v : {0.L, 1.L, -1.L, 2.L, 0.5L}) { AMatrix* m = build(s, A); m->prodScalar((double)v); expectMat(S, m, rlin(v, A, 0, A), sn + " prodScalar(" + fmt((double)v) + ")" + in); delete m; }
    });
    if (!isSparseSt(s))
      S.run(K(s, "addScalar", sh), [&] {
        for (LD v : {0.L, 1.L, -2.L}) { AMatrix* m = build(s, A); m->addScalar((double)v); Ref e = A; for (auto& x : e.a) x += v; expectMat(S, m, e, sn + " addScalar(" + fmt((double)v) + ")" + in); delete m; }
      });
    else S.outcome("excluded:addScalar on sparse storage (acts on stored entries only; not in the property's list)");
    if (A.square())
      S.run(K(s, "addScalarDiag", sh), [&] {
        for (LD v : {0.L, 1.L, -2.L}) { AMatrix* m = build(s, A); m->addScalarDiag((double)v); expectMat(S, m, rlin(1, A, v, rident(r)), sn + " addScalarDiag(" + fmt((double)v) + ")" + in); delete m; }
      });
    if (s != SYM)
    {
      std::vector<LD> vr = mvec(r), vc = mvec(c, 2);
      std::vector<LD> ir(r), icv(c); for (int i = 0; i < r; i++) ir[i] = 1 / vr[i]; for (int j = 0; j < c; j++) icv[j] = 1 / vc[j];
      // the four dense scalings share one mechanism (rows/columns swapped in AMatrixDense): one key; sparse: one key per method
      auto kk = [&](const char* op) { return isSparseSt(s) ? K(s, op, sh) : K(s, "scale-row-col", sh); };
      S.run(kk("multiplyRow"), [&] { AMatrix* m = build(s, A); m->multiplyRow(toVD(vr)); expectMat(S, m, rmul(rdiag(vr), A), sn + " multiplyRow(" + vstr(toVD(vr)) + ")" + in); delete m; });
      S.run(kk("multiplyColumn"), [&] { AMatrix* m = build(s, A); m->multiplyColumn(toVD(vc)); expectMat(S, m, rmul(A, rdiag(vc)), sn + " multiplyColumn(" + vstr(toVD(vc)) + ")" + in); delete m; });
      S.run(kk("divideRow"), [&] { AMatrix* m = build(s, A); m->divideRow(toVD(vr)); expectMat(S, m, rmul(rdiag(ir), A), sn + " divideRow(" + vstr(toVD(vr)) + ")" + in); delete m; });
      S.run(kk("divideColumn"), [&] { AMatrix* m = build(s, A); m->divideColumn(toVD(vc)); expectMat(S, m, rmul(A, rdiag(icv)), sn + " divideColumn(" + vstr(toVD(vc)) + ")" + in); delete m; });
    }
    // ---- products with vectors ----------------------------------------------------------------------
    for (int tr = 0; tr < 2; tr++)
    {
      const std::string ts = tr ? ":transposed" : ":plain";
      Ref M = rT(tr, A);   // prodMatVec(x, tr) = op(A) x ; prodVecMat(x, tr) = x' op(A)
      std::vector<std::vector<LD>> xsR, xsL;   // right vectors (size M.c), left vectors (size M.r)
      for (int k = 0; k < M.c; k++) xsR.push_back(evec(M.c, k));
      xsR.push_back(mvec(M.c, 1));
      for (int k = 0; k < M.r; k++) xsL.push_back(evec(M.r, k));
      xsL.push_back(mvec(M.r, 2));
      S.run(K(s, "prodMatVec", sh) + ts, [&] {
        AMatrix* m = build(s, A);
        for (auto& x : xsR) expectVec(S, m->prodMatVec(toVD(x), tr), rmv(M, x), sn + " prodMatVec(x=" + vstr(toVD(x)) + ", transpose=" + std::to_string(tr) + ")" + in);
        delete m;
      });
      S.run(K(s, "prodVecMat", sh) + ts, [&] {
        AMatrix* m = build(s, A);
        for (auto& x : xsL) expectVec(S, m->prodVecMat(toVD(x), tr), rmv(M.T(), x), sn + " prodVecMat(x=" + vstr(toVD(x)) + ", transpose=" + std::to_string(tr) + ")" + in);
        delete m;
      });
      S.run(K(s, "prodMatVecInPlace", sh) + ts, [&] {
        AMatrix* m = build(s, A);
        for (auto& x : xsR) { VectorDouble y(M.r, 7.); m->prodMatVecInPlace(toVD(x), y, tr); expectVec(S, y, rmv(M, x), sn + " prodMatVecInPlace(x=" + vstr(toVD(x)) + ", y, transpose=" + std::to_string(tr) + ")" + in); }
        delete m;
      });
      S.run(K(s, "prodMatVecInPlace", sh) + ts, [&] {
        AMatrix* m = build(s, A);
        for (auto& x : xsR)
        {
          VectorDouble xd = toVD(x), y(M.r, 7.);
          constvect xs(xd.data(), xd.size()); vect ys(y.data(), y.size());
          int rc = m->prodMatVecInPlace(xs, ys, tr);
          if (rc != 0) S.bad(sn + " prodMatVecInPlace(span) returned " + std::to_string(rc) + " on consistent sizes" + in);
          expectVec(S, y, rmv(M, x), sn + " prodMatVecInPlace(constvect x=" + vstr(xd) + ", vect y, transpose=" + std::to_string(tr) + ")" + in);
          VectorDouble y2(M.r, 1.); vect y2s(y2.data(), y2.size());
          m->addProdMatVecInPlace(xs, y2s, tr);
          std::vector<LD> e = rmv(M, x); for (auto& q : e) q += 1;
          expectVec(S, y2, e, sn + " addProdMatVecInPlace(x=" + vstr(xd) + ", y=ones, transpose=" + std::to_string(tr) + ")" + in);
        }
        delete m;
      });
      S.run(K(s, "prodVecMatInPlace", sh) + ts, [&] {
        AMatrix* m = build(s, A);
        for (auto& x : xsL) { VectorDouble y(M.c, 7.); m->prodVecMatInPlace(toVD(x), y, tr); expectVec(S, y, rmv(M.T(), x), sn + " prodVecMatInPlace(x=" + vstr(toVD(x)) + ", y, transpose=" + std::to_string(tr) + ")" + in); }
        delete m;
      });
    }
    S.run(K(s, "quadraticMatrix", sh), [&] {
      AMatrix* m = build(s, A);
      std::vector<LD> x = mvec(r, 1), y = mvec(c, 3), ay = rmv(A, y); LD e = 0; for (int i = 0; i < r; i++) e += x[i] * ay[i];
      double g = m->quadraticMatrix(toVD(x), toVD(y)); S.eval();
      if (!nearLD(g, e, 1e-12)) S.bad(sn + " quadraticMatrix(x,y) = " + fmt(g) + ", expected x'Ay = " + fmt((double)e) + in);
      delete m;
    });
    // ---- sub-sampling -------------------------------------------------------------------------------
    S.run(K(s, "copyReduce", sh), [&] {
      AMatrix* m = build(s, A);
      for (int rm = 1; rm < (1 << r); rm++) for (int cm = 1; cm < (1 << c); cm++)
      {
        if (!wide && (r > 3 || c > 3) && ((rm * 7 + cm) % 5)) continue;
        VectorInt rows, cols; for (int i = 0; i < r; i++) if (rm >> i & 1) rows.push_back(i); for (int j = 0; j < c; j++) if (cm >> j & 1) cols.push_back(j);
        Ref e((int)rows.size(), (int)cols.size()); for (int i = 0; i < e.r; i++) for (int j = 0; j < e.c; j++) e(i, j) = A(rows[i], cols[j]);
        { MatrixRectangular out(e.r, e.c); out.copyReduce(m, rows, cols); expectMat(S, &out, e, sn + " MatrixRectangular::copyReduce(rows=" + vstr(rows) + ", cols=" + vstr(cols) + ")" + in); }
        { MatrixRectangular* out = MatrixRectangular::sample(m, rows, cols); expectMat(S, out, e, sn + " MatrixRectangular::sample(rows=" + vstr(rows) + ", cols=" + vstr(cols) + ")" + in); delete out; }
        if (!isSparseSt(s)) { AMatrix* out = MatrixFactory::createReduce(m, rows, cols); expectMat(S, out, e, sn + " MatrixFactory::createReduce(rows=" + vstr(rows) + ", cols=" + vstr(cols) + ")" + in); delete out; }
      }
      // a permuted selection with a repetition
      if (r >= 2)
      {
        VectorInt rows = {r - 1, 0, r - 1}, cols = {c - 1};
        Ref e(3, 1); for (int i = 0; i < 3; i++) e(i, 0) = A(rows[i], cols[0]);
        MatrixRectangular* out = MatrixRectangular::sample(m, rows, cols); expectMat(S, out, e, sn + " MatrixRectangular::sample(rows=" + vstr(rows) + ", cols=" + vstr(cols) + ")" + in); delete out;
      }
      delete m;
    });
    if (s == SYM)
      S.run(K(s, "sample-symmetric", sh), [&] {
        MatrixSquareSymmetric* m = dynamic_cast<MatrixSquareSymmetric*>(build(s, A));
        for (int rm = 1; rm < (1 << r); rm++)
        {
          VectorInt rows; for (int i = 0; i < r; i++) if (rm >> i & 1) rows.push_back(i);
          Ref e((int)rows.size(), (int)rows.size()); for (int i = 0; i < e.r; i++) for (int j = 0; j < e.c; j++) e(i, j) = A(rows[i], rows[j]);
          MatrixSquareSymmetric* out = MatrixSquareSymmetric::sample(m, rows); expectMat(S, out, e, sn + " MatrixSquareSymmetric::sample(rows=" + vstr(rows) + ")" + in); delete out;
        }
        delete m;
      });
    if (isSparseSt(s))
      S.run(K(s, "extractSubmatrixByRanks", sh), [&] {
        MatrixSparse* m = dynamic_cast<MatrixSparse*>(build(s, A));
        // keep the rows/columns whose last kept index carries a non-zero (the result has no explicit dimensions: exclude otherwise)
        for (int rm = 1; rm < (1 << r); rm++) for (int cm = 1; cm < (1 << c); cm++)
        {
          VectorInt rr(r, -1), rc(c, -1); int nr = 0, nc = 0;
          for (int i = 0; i < r; i++) if (rm >> i & 1) rr[i] = nr++;
          for (int j = 0; j < c; j++) if (cm >> j & 1) rc[j] = nc++;
          Ref e(nr, nc); for (int i = 0; i < r; i++) for (int j = 0; j < c; j++) if (rr[i] >= 0 && rc[j] >= 0) e(rr[i], rc[j]) = A(i, j);
          if (e(nr - 1, nc - 1) == 0) { S.outcome("excluded:extractSubmatrixByRanks-dimension-not-determined"); continue; }
          MatrixSparse* out = m->extractSubmatrixByRanks(rr, rc); expectMat(S, out, e, sn + " extractSubmatrixByRanks(rowranks=" + vstr(rr) + ", colranks=" + vstr(rc) + ")" + in); delete out;
        }
        delete m;
      });
    // ---- conversions between storages -------------------------------------------------------------
    bool trailingZero = true, tz2 = true;
    for (int j = 0; j < c; j++) if (A(r - 1, j) != 0) trailingZero = false;
    for (int i = 0; i < r; i++) if (A(i, c - 1) != 0) tz2 = false;
    trailingZero = trailingZero || tz2;
    S.run(trailingZero ? std::string("sparse:createFromAnyMatrix:trailing-zero-row-or-column") : K(s, "createFromAnyMatrix", sh), [&] {
      AMatrix* m = build(s, A);
      for (int be = 0; be < 2; be++)
      {
        MatrixSparse* q = createFromAnyMatrix(m, be);
        expectMat(S, q, A, sn + " createFromAnyMatrix(opt_eigen=" + std::to_string(be) + ")" + in);
        delete q;
      }
      { MatrixRectangular q(*m); expectMat(S, &q, A, sn + " MatrixRectangular(const AMatrix&)" + in); }
      delete m;
    });
    // ---- square only: trace, determinant, inverse, solve -----------------------------------------
    if (A.square())
    {
      AMatrixSquare* sq = nullptr;
      if (s == SQG || s == SYM)
        S.run(K(s, "trace-determinant", sh), [&] {
          AMatrixSquare* m = dynamic_cast<AMatrixSquare*>(build(s, A));
          LD tr = 0; for (int i = 0; i < r; i++) tr += A(i, i);
          S.eval(); if (!nearLD(m->trace(), tr, 1e-12)) S.bad(sn + " trace() = " + fmt(m->trace()) + " expected " + fmt((double)tr) + in);
          if (r <= 4)
          {
            // determinant by Leibniz expansion
            std::vector<int> p(r); for (int i = 0; i < r; i++) p[i] = i; LD det = 0;
            do { LD t = 1; int inv = 0; for (int i = 0; i < r; i++) { t *= A(i, p[i]); for (int j = 0; j < i; j++) if (p[j] > p[i]) inv++; } det += (inv & 1) ? -t : t; } while (std::next_permutation(p.begin(), p.end()));
            S.eval(); if (!nearLD(m->determinant(), det, 1e-11)) S.bad(sn + " determinant() = " + fmt(m->determinant()) + " expected " + fmt((double)det) + in);
          }
          delete m;
        });
      (void)sq;
      Ref inv; bool nonsing = rinv(A, inv);
      Ref L; LD logdet; bool spd = A.symmetric() && rchol(A, L, logdet);
      LD cond = nonsing ? rnorm1(A) * rnorm1(inv) : 0;
      if (!nonsing) S.outcome("excluded:singular-matrix(invert/solve)");
      else if (cond > 1e8) S.outcome("excluded:ill-conditioned(invert/solve)");
      else if (isSparseSt(s) && !spd) S.outcome("excluded:sparse invert/solve of a non-SPD matrix (Cholesky based)");
      else
      {
        double tol = 1e-11 * (double)cond;
        S.run(K(s, "invert", sh), [&] {
          AMatrix* m = build(s, A); int rc = m->invert();
          if (rc != 0) S.bad(sn + " invert() returned " + std::to_string(rc) + " on a non singular matrix (cond " + fmt((double)cond) + ")" + in);
          else expectMat(S, m, inv, sn + " invert()" + in, tol, rnorm1(inv));
          delete m;
        });
        S.run(K(s, "solve", sh), [&] {
          AMatrix* m = build(s, A);
          for (int k = 0; k <= r; k++)
          {
            std::vector<LD> b = k < r ? evec(r, k) : mvec(r, 1); VectorDouble x(r, 0.);
            int rc = m->solve(toVD(b), x);
            if (rc != 0) S.badKey(K(s, "solve", sh) + ":return-code", sn + " solve() returned " + std::to_string(rc) + " (error) on a non singular matrix" + in);
            expectVec(S, x, rmv(inv, b), sn + " solve(b=" + vstr(toVD(b)) + ")" + in, tol, rnorm1(inv) * 4);
          }
          delete m;
        });
        S.nontrivial(Hash().s("inv").i(s).u(A.hash()).h);
      }
    }
    S.nontrivial(Hash().s("unary").i(s).u(A.hash()).h);
  }
}

// =====================================================================================================
// binary operations
// =====================================================================================================
static bool mixedBackends(int sa, int sb) { return (sa == SPE && sb == SPC) || (sa == SPC && sb == SPE); }
static const LD coefMenu[3][2] = {{1, 1}, {2, -1}, {0, 0.5L}};

// sums and linear combinations: A and B have the same shape
static void sumOps(Sink& S, const Ref& A, const Ref& B)
{
  const std::string sh = shp(A), in = " A=" + A.str() + " B=" + B.str();
  for (int sa = 0; sa < NST; sa++) for (int sb = 0; sb < NST; sb++)
  {
    if (!canHold(sa, A) || !canHold(sb, B)) continue;
    if (mixedBackends(sa, sb)) { S.outcome("excluded:mixed-sparse-back-ends(documented as forbidden)"); continue; }
    const std::string sn = std::string("[") + stName[sa] + "+=" + stName[sb] + "]";
    for (auto& cf : coefMenu)
    {
      Ref E = rlin(cf[0], A, cf[1], B);
      const std::string cs = "(cx=" + fmt((double)cf[0]) + ",cy=" + fmt((double)cf[1]) + ")";
      if (sa != SPC && canHold(sa, E))
        S.run(K(sa, "addMatInPlace-generic", sh), [&] {
          AMatrix* x = build(sa, A); AMatrix* y = build(sb, B);
          x->AMatrix::addMatInPlace(*y, (double)cf[0], (double)cf[1]);
          expectMat(S, x, E, sn + " AMatrix::addMatInPlace" + cs + in); delete x; delete y;
        });
      if (!isSparseSt(sa) && !isSparseSt(sb))
        S.run(K(sa, "addMatInPlace-dense", sh), [&] {
          AMatrixDense* x = dynamic_cast<AMatrixDense*>(build(sa, A)); AMatrixDense* y = dynamic_cast<AMatrixDense*>(build(sb, B));
          x->addMatInPlace(*y, (double)cf[0], (double)cf[1]);
          expectMat(S, x, E, sn + " AMatrixDense::addMatInPlace" + cs + in); delete x; delete y;
        });
      if (isSparseSt(sa) && sa == sb)
      {
        S.run(K(sa, "addMatInPlace-sparse", sh), [&] {
          MatrixSparse* x = dynamic_cast<MatrixSparse*>(build(sa, A)); MatrixSparse* y = dynamic_cast<MatrixSparse*>(build(sb, B));
          x->addMatInPlace(*y, (double)cf[0], (double)cf[1]);
          expectMat(S, x, E, sn + " MatrixSparse::addMatInPlace" + cs + in); delete x; delete y;
        });
        S.run(K(sa, "addMatMat", sh), [&] {
          MatrixSparse* x = dynamic_cast<MatrixSparse*>(build(sa, A)); MatrixSparse* y = dynamic_cast<MatrixSparse*>(build(sb, B));
          MatrixSparse* z = MatrixSparse::addMatMat(x, y, (double)cf[0], (double)cf[1]);
          expectMat(S, z, E, sn + " MatrixSparse::addMatMat" + cs + in); delete x; delete y; delete z;
        });
      }
      // linearCombination into a target of storage st (RECT always; the storage of A when it can hold the result)
      for (int st : std::set<int>{(int)RECT, sa})
      {
        if (st == SPC) continue;
        Ref E3 = rlin(1, E, 3, A);
        if (!canHold(st, E) || !canHold(st, E3)) continue;
        S.run(K(st, "linearCombination", sh), [&] {
          AMatrix* x = build(sa, A); AMatrix* y = build(sb, B);
          AMatrix* t = buildZero(st, A.r, A.c);
          t->linearCombination((double)cf[0], x, (double)cf[1], y);
          expectMat(S, t, E, sn + " linearCombination" + cs + " into " + stName[st] + in);
          t->linearCombination((double)cf[0], x, (double)cf[1], y, 3., x);
          expectMat(S, t, E3, sn + " linearCombination" + cs + "+3*A into " + stName[st] + in);
          delete t; delete x; delete y;
        });
      }
    }
    S.nontrivial(Hash().s("sum").i(sa).i(sb).u(A.hash()).u(B.hash()).h);
  }
}

// products of matrices: every transposition flag combination whose dimensions are compatible
static void prodOps(Sink& S, const Ref& X, const Ref& Y)
{
  const std::string in = " X=" + X.str() + " Y=" + Y.str();
  const std::string sh = (X.square() && Y.square()) ? "square" : "nonsquare";
  for (int tX = 0; tX < 2; tX++) for (int tY = 0; tY < 2; tY++)
  {
    Ref oX = rT(tX, X), oY = rT(tY, Y);
    if (oX.c != oY.r) continue;
    Ref E = rmul(oX, oY);
    const std::string fl = std::string(tX ? "T" : "N") + (tY ? "T" : "N");
    for (int sx = 0; sx < NST; sx++) for (int sy = 0; sy < NST; sy++)
    {
      if (!canHold(sx, X) || !canHold(sy, Y)) continue;
      if (mixedBackends(sx, sy)) { S.outcome("excluded:mixed-sparse-back-ends(documented as forbidden)"); continue; }
      const std::string sn = std::string("[") + stName[sx] + "*" + stName[sy] + " " + fl + "]";
      const bool bothDense = !isSparseSt(sx) && !isSparseSt(sy), bothSparse = isSparseSt(sx) && sx == sy;
      const std::string tail = ":" + fl + ":" + sh;
      const bool symForced = (sx == SYM || sy == SYM) && E.r == E.c && !bothSparse;
      S.run(bothDense ? "prodMatMat:dense-kernel" + tail : "prodMatMat:generic-fallback:" + sh, [&] {
        AMatrix* x = build(sx, X); AMatrix* y = build(sy, Y);
        MatrixRectangular out(E.r, E.c); out.fill(9.);
        out.prodMatMatInPlace(x, y, tX, tY);
        expectMat(S, &out, E, sn + " MatrixRectangular::prodMatMatInPlace(x,y," + std::to_string(tX) + "," + std::to_string(tY) + ")" + in);
        delete x; delete y;
      });
      if (isSparseSt(sx) && sx == sy)
        S.run(std::string("prodMatMat:sparse-kernel:") + stClass(sx) + tail, [&] {
          AMatrix* x = build(sx, X); AMatrix* y = build(sy, Y);
          MatrixSparse out(E.r, E.c, sx == SPE ? 1 : 0);
          out.prodMatMatInPlace(x, y, tX, tY);
          expectMat(S, &out, E, sn + " MatrixSparse::prodMatMatInPlace(x,y," + std::to_string(tX) + "," + std::to_string(tY) + ")" + in);
          delete x; delete y;
        });
      S.run(symForced ? "prodMatMat:factory:symmetric-operand:" + sh : bothDense ? "prodMatMat:factory:dense" + tail : bothSparse ? std::string("prodMatMat:factory:") + stClass(sx) + ":" + sh : "prodMatMat:generic-fallback:" + sh, [&] {
        AMatrix* x = build(sx, X); AMatrix* y = build(sy, Y);
        AMatrix* out = MatrixFactory::prodMatMat(x, y, tX, tY);
        expectMat(S, out, E, sn + " MatrixFactory::prodMatMat(x,y," + std::to_string(tX) + "," + std::to_string(tY) + ")" + in);
        delete out; delete x; delete y;
      });
      // x <- x * op(Y)  (the result must fit the storage of x)
      if (!tX && E.r == X.r && E.c == X.c && canHold(sx, E) && !(sx == SPC && sy != SPC))
        S.run(std::string("prodMatInPlace:") + (bothDense ? "dense-kernel" : bothSparse ? std::string("sparse-kernel:") + stClass(sx) : "generic-fallback") + ":" + sh, [&] {
          AMatrix* x = build(sx, X); AMatrix* y = build(sy, Y);
          x->prodMatInPlace(y, tY);
          expectMat(S, x, E, sn + " x.prodMatInPlace(y," + std::to_string(tY) + ") (x <- x*op(y))" + in);
          delete x; delete y;
        });
      S.nontrivial(Hash().s("prod").i(sx).i(sy).i(tX * 2 + tY).u(X.hash()).u(Y.hash()).h);
    }
  }
}

// congruence products: A M A' / A' M A, A diag(v) A' / A' diag(v) A
static void normOps(Sink& S, const Ref& A, const Ref& M, bool withVec)
{
  const std::string sh = shp(A), in = " A=" + A.str() + " M=" + M.str();
  for (int tr = 0; tr < 2; tr++)
  {
    int nm = tr ? A.r : A.c;   // inner dimension
    const std::string ts = tr ? ":tAMA" : ":AMtA";
    if (M.r == nm && M.square())
    {
      Ref E = tr ? rmul(rmul(A.T(), M), A) : rmul(rmul(A, M), A.T());
      for (int sa = 0; sa < NST; sa++) for (int sm = 0; sm < NST; sm++)
      {
        if (!canHold(sa, A) || !canHold(sm, M)) continue;
        if (mixedBackends(sa, sm)) continue;
        const std::string sn = std::string("[a:") + stName[sa] + " m:" + stName[sm] + " transpose=" + std::to_string(tr) + "]";
        S.run("generic:prodNormMatMatInPlace:" + sh, [&] {
          AMatrix* a = build(sa, A); AMatrix* m = build(sm, M);
          MatrixRectangular out(E.r, E.c); out.fill(9.);
          out.AMatrix::prodNormMatMatInPlace(a, m, tr);
          expectMat(S, &out, E, sn + " AMatrix::prodNormMatMatInPlace(a,m,transpose) documented 'transpose=true: t(a) m a; false: a m t(a)'" + in);
          delete a; delete m;
        });
        if (!isSparseSt(sa) && !isSparseSt(sm))
          S.run("dense:prodNormMatMat:" + sh, [&] {
            AMatrixDense* a = dynamic_cast<AMatrixDense*>(build(sa, A)); AMatrixDense* m = dynamic_cast<AMatrixDense*>(build(sm, M));
            MatrixSquareGeneral* out = prodNormMatMat(a, m, tr);
            expectMat(S, out, E, sn + " prodNormMatMat(dense a, dense m, transpose)" + in);
            delete out; delete a; delete m;
          });
        if (isSparseSt(sa) && sa == sm)
        {
          S.run(std::string(stClass(sa)) + ":prodNormMatMat-free-function:" + sh, [&] {
            MatrixSparse* a = dynamic_cast<MatrixSparse*>(build(sa, A)); MatrixSparse* m = dynamic_cast<MatrixSparse*>(build(sm, M));
            MatrixSparse* out = prodNormMatMat(a, m, tr);
            expectMat(S, out, E, sn + " prodNormMatMat(sparse a, sparse m, transpose)" + in);
            delete out; delete a; delete m;
          });
          S.run(std::string(stClass(sa)) + ":prodNormMatMatInPlace:" + sh, [&] {
            MatrixSparse* a = dynamic_cast<MatrixSparse*>(build(sa, A)); MatrixSparse* m = dynamic_cast<MatrixSparse*>(build(sm, M));
            MatrixSparse out2(E.r, E.c, sa == SPE ? 1 : 0);
            out2.prodNormMatMatInPlace(a, m, tr);
            expectMat(S, &out2, E, sn + " MatrixSparse::prodNormMatMatInPlace" + in);
            delete a; delete m;
          });
        }
        if (M.symmetric() && (sm == SQG || sm == SYM))
          S.run("sym:normMatrix:" + sh, [&] {
            // MatrixSquareSymmetric::normMatrix(y, x, transpose): t(Y) X Y (transpose=false) or Y X t(Y) (transpose=true)
            AMatrix* a = build(sa, A); AMatrixSquare* m = dynamic_cast<AMatrixSquare*>(build(sm, M));
            MatrixSquareSymmetric out(E.r);
            out.normMatrix(*a, *m, !tr);
            expectMat(S, &out, E, sn + " MatrixSquareSymmetric::normMatrix(y=a, x=m, transpose=" + std::to_string(!tr) + ") documented 't(Y) X Y (false) or Y X t(Y) (true)'" + in);
            delete a; delete m;
          });
        S.nontrivial(Hash().s("norm").i(sa).i(sm).i(tr).u(A.hash()).u(M.hash()).h);
      }
    }
    if (withVec)
      for (int emptyVec = 0; emptyVec < 2; emptyVec++)
      {
        std::vector<LD> v = emptyVec ? std::vector<LD>(nm, 1) : mvec(nm, 1);
        Ref D = rdiag(v);
        Ref E = tr ? rmul(rmul(A.T(), D), A) : rmul(rmul(A, D), A.T());
        VectorDouble vd = emptyVec ? VectorDouble() : toVD(v);
        const std::string vs = emptyVec ? ":novec" : ":vec";
        for (int sa = 0; sa < NST; sa++)
        {
          if (!canHold(sa, A)) continue;
          const std::string sn = std::string("[a:") + stName[sa] + " transpose=" + std::to_string(tr) + " vec=" + vstr(vd) + "]";
          S.run("generic:prodNormMatVecInPlace:" + sh, [&] {
            AMatrix* a = build(sa, A);
            MatrixRectangular out(E.r, E.c); out.fill(9.);
            out.AMatrix::prodNormMatVecInPlace(*a, vd, tr);
            expectMat(S, &out, E, sn + " AMatrix::prodNormMatVecInPlace(a,vec,transpose) documented 't(A) [vec] A or A [vec] t(A)'" + in);
            delete a;
          });
          if (!isSparseSt(sa))
            S.run("dense:prodNormMat" + vs + ":" + sh, [&] {
              AMatrixDense* a = dynamic_cast<AMatrixDense*>(build(sa, A));
              MatrixSquareGeneral* out = prodNormMat(*a, vd, tr);
              expectMat(S, out, E, sn + " prodNormMat(dense a, vec, transpose)" + in);
              delete out; delete a;
            });
          else
            S.run(std::string(stClass(sa)) + ":prodNormMat" + vs + ":" + sh, [&] {
              MatrixSparse* a = dynamic_cast<MatrixSparse*>(build(sa, A));
              MatrixSparse* out = prodNormMat(a, vd, tr);
              expectMat(S, out, E, sn + " prodNormMat(sparse a, vec, transpose)" + in);
              delete out; delete a;
            });
          if (emptyVec)
            S.run("sym:normMatrix:" + sh, [&] {
              AMatrix* a = build(sa, A);
              MatrixSquareSymmetric out(E.r);
              out.normMatrix(*a, AMatrixSquare(), !tr);
              expectMat(S, &out, E, sn + " MatrixSquareSymmetric::normMatrix(y=a, transpose=" + std::to_string(!tr) + ")" + in);
              delete a;
            });
        }
      }
  }
  // diag(v) A diag(v) for sparse storage
  if (withVec && A.square())
    for (int sa : {(int)SPE, (int)SPC})
      S.run(K(sa, "prodNormDiagVec", sh), [&] {
        std::vector<LD> v = mvec(A.r, 2); Ref D = rdiag(v), E = rmul(rmul(D, A), D);
        MatrixSparse* a = dynamic_cast<MatrixSparse*>(build(sa, A));
        MatrixSparse* out = prodNormDiagVec(a, toVD(v), 1);
        expectMat(S, out, E, std::string("[") + stName[sa] + "] prodNormDiagVec(a, v, 1) = diag(v) a diag(v)" + in);
        delete out;
        a->prodNormDiagVecInPlace(toVD(v), 1);
        expectMat(S, a, E, std::string("[") + stName[sa] + "] prodNormDiagVecInPlace(v, 1)" + in);
        delete a;
      });
}

// =====================================================================================================
// Cholesky (dense, sparse/Eigen, sparse/cs) and eigen-decomposition of symmetric matrices
// =====================================================================================================
// apply a linear map given as a callable on unit vectors -> matrix
template<class F> static Ref linmap(int n, F f)
{
  Ref m(n, n);
  for (int k = 0; k < n; k++)
  {
    VectorDouble e(n, 0.), out(n, 5.); e[k] = 1.;
    constvect es(e.data(), e.size()); vect os(out.data(), out.size());
    f(es, os);
    for (int i = 0; i < n; i++) m(i, k) = out[i];
  }
  return m;
}
static bool matNear(const Ref& g, const Ref& e, double tol, LD scale, std::string& where)
{
  for (int i = 0; i < e.r; i++) for (int j = 0; j < e.c; j++)
  {
    LD m = std::max<LD>({scale, fabsl(e(i, j))});
    if (!(fabsl(g(i, j) - e(i, j)) <= tol * m)) { where = "(" + std::to_string(i) + "," + std::to_string(j) + ") " + fmt((double)g(i, j)) + " vs " + fmt((double)e(i, j)); return false; }
  }
  return true;
}

static void cholOps(Sink& S, const Ref& A)
{
  Ref L, inv; LD logdet;
  if (!A.symmetric()) return;
  if (!rchol(A, L, logdet)) { S.outcome("excluded:not-positive-definite(cholesky)"); S.skip(); return; }
  rinv(A, inv);
  LD cond = rnorm1(A) * rnorm1(inv);
  if (cond > 1e8) { S.outcome("excluded:ill-conditioned(cholesky)"); S.skip(); return; }
  const double tol = 1e-11 * (double)cond;
  const int n = A.r;
  const std::string in = " A=" + A.str();
  const LD sA = rnorm1(A), sI = rnorm1(inv);
  for (int s : {(int)SYM, (int)SPE, (int)SPC})
  {
    const std::string cl = s == SYM ? "chol-dense" : s == SPE ? "chol-sparse-eigen" : "chol-sparse-cs";
    const std::string sn = "[" + cl + "]";
    AMatrix* am = nullptr; ACholesky* ch = nullptr;
    auto mk = [&]() {
      am = build(s, A);
      if (s == SYM) ch = new CholeskyDense(dynamic_cast<MatrixSquareSymmetric*>(am));
      else ch = new CholeskySparse(dynamic_cast<MatrixSparse*>(am));
    };
    auto rm = [&]() { delete ch; delete am; ch = nullptr; am = nullptr; };
    S.run(cl + ":solve", [&] {
      mk();
      if (!ch->isReady()) S.bad(sn + " factorisation of an SPD matrix is not ready" + in);
      else
      {
        Ref X = linmap(n, [&](constvect b, vect x) { int rc = ch->solve(b, x); if (rc) S.bad(sn + " solve returned " + std::to_string(rc) + in); });
        std::string w; S.eval();
        if (!matNear(X, inv, tol, sI, w)) S.bad(sn + " solve(e_k) columns are not A^-1: " + w + in);
        // solveMatrix
        MatrixRectangular B(n, 2), Xm; for (int i = 0; i < n; i++) { B.setValue(i, 0, (double)menuV[i % 8]); B.setValue(i, 1, i == 0 ? 1. : 0.); }
        int rc = ch->solveMatrix(B, Xm);
        Ref Br(n, 2); for (int i = 0; i < n; i++) { Br(i, 0) = menuV[i % 8]; Br(i, 1) = i == 0 ? 1 : 0; }
        if (rc) S.bad(sn + " solveMatrix returned " + std::to_string(rc) + in); else expectMat(S, &Xm, rmul(inv, Br), sn + " solveMatrix(B)" + in, tol, sI * 4);
      }
      rm();
    });
    S.run(cl + ":logdet", [&] {
      mk(); double ld = ch->computeLogDeterminant(); S.eval();
      if (!nearLD(ld, logdet, 1e-11 * (double)cond, 1)) S.bad(sn + " computeLogDeterminant() = " + fmt(ld) + ", expected log det A = " + fmt((double)logdet) + in);
      rm();
    });
    S.run(cl + ":simulate(InvLtX)", [&] {
      // evalSimulate / InvLtX: x = L^-T w, so that Cov(x) = M M' = A^-1 whatever the ordering used by the factorisation
      mk();
      Ref M = linmap(n, [&](constvect w, vect x) { ch->InvLtX(w, x); });
      std::string w; S.eval();
      if (!matNear(rmul(M, M.T()), inv, tol, sI, w)) S.bad(sn + " InvLtX: M M' != A^-1 at " + w + in);
      VectorDouble wn = toVD(mvec(n, 1)), out;
      int rc = ch->evalSimulate(wn, out);
      std::vector<LD> e = rmv(M, mvec(n, 1));
      if (rc) S.bad(sn + " evalSimulate returned " + std::to_string(rc) + in); else expectVec(S, out, e, sn + " evalSimulate(w) vs InvLtX linear map" + in, tol, sI * 4);
      rm();
    });
    S.run(cl + ":LX-LtX-InvLX", [&] {
      mk();
      int before = S.msgCount;
      Ref ML = linmap(n, [&](constvect w, vect x) { ch->LX(w, x); });
      if (s == SPC && S.msgCount > before) { S.outcome("excluded:LX/LtX/InvLX not available with the cs back-end (message printed)"); rm(); return; }
      Ref MLt = linmap(n, [&](constvect w, vect x) { ch->LtX(w, x); });
      Ref MiL = linmap(n, [&](constvect w, vect x) { ch->InvLX(w, x); });
      Ref MiLt = linmap(n, [&](constvect w, vect x) { ch->InvLtX(w, x); });
      std::string w; S.eval(4);
      if (!matNear(rmul(ML, ML.T()), A, tol, sA, w)) S.bad(sn + " LX: M M' != A at " + w + in);
      if (!matNear(rmul(MLt.T(), MLt), A, tol, sA, w)) S.bad(sn + " LtX: M' M != A at " + w + in);
      if (!matNear(rmul(MiL.T(), MiL), inv, tol, sI, w)) S.bad(sn + " InvLX: M' M != A^-1 at " + w + in);
      if (!matNear(rmul(MLt, MiLt), rident(n), tol, 1, w)) S.bad(sn + " LtX(InvLtX(w)) != w at " + w + in);
      if (!matNear(rmul(ML, MiL), rident(n), tol, 1, w)) S.bad(sn + " LX(InvLX(w)) != w at " + w + in);
      if (!matNear(MLt, ML.T(), tol, sA, w)) S.bad(sn + " LtX is not the transpose of LX at " + w + in);
      rm();
    });
    if (s == SYM)
      S.run(cl + ":triangles", [&] {
        mk(); CholeskyDense* cd = dynamic_cast<CholeskyDense*>(ch);
        Ref Lg(n, n), Xg(n, n);
        for (int i = 0; i < n; i++) for (int j = 0; j < n; j++) { Lg(i, j) = cd->getLowerTriangle(i, j); Xg(i, j) = cd->getUpperTriangleInverse(i, j); }
        std::string w; S.eval(2);
        if (!matNear(rmul(Lg, Lg.T()), A, tol, sA, w)) S.bad(sn + " getLowerTriangle: L L' != A at " + w + in);
        if (!matNear(rmul(Lg, Xg), rident(n), tol, 1, w)) S.bad(sn + " getUpperTriangleInverse: L X != I at " + w + in);
        for (int i = 0; i < n; i++) for (int j = i + 1; j < n; j++) if (Lg(i, j) != 0) S.bad(sn + " getLowerTriangle has a non zero above the diagonal" + in);
        // matProductInPlace modes 0..3 (TU a, TL a, a TU, a TL) and normMatInPlace
        Ref Ar(n, 2); MatrixRectangular a(n, 2); for (int i = 0; i < n; i++) for (int j = 0; j < 2; j++) { Ar(i, j) = menuV[(i * 2 + j) % 8]; a.setValue(i, j, (double)Ar(i, j)); }
        MatrixRectangular x;
        cd->matProductInPlace(0, a, x); expectMat(S, &x, rmul(Lg.T(), Ar), sn + " matProductInPlace(0: TU*a)" + in, tol, sA);
        cd->matProductInPlace(1, a, x); expectMat(S, &x, rmul(Lg, Ar), sn + " matProductInPlace(1: TL*a)" + in, tol, sA);
        MatrixRectangular at(2, n); for (int i = 0; i < n; i++) for (int j = 0; j < 2; j++) at.setValue(j, i, (double)Ar(i, j));
        cd->matProductInPlace(2, at, x); expectMat(S, &x, rmul(Ar.T(), Lg.T()), sn + " matProductInPlace(2: a*TU)" + in, tol, sA);
        cd->matProductInPlace(3, at, x); expectMat(S, &x, rmul(Ar.T(), Lg), sn + " matProductInPlace(3: a*TL)" + in, tol, sA);
        rm();
      });
    S.nontrivial(Hash().s("chol").i(s).u(A.hash()).h);
  }
}

static void eigenOps(Sink& S, const Ref& A)
{
  if (!A.symmetric()) return;
  const int n = A.r;
  const std::string in = " A=" + A.str();
  std::vector<LD> ev = reigvals(A);
  LD sc = std::max<LD>(1, rnorm1(A));
  S.run("eigen:computeEigen", [&] {
    MatrixSquareSymmetric* m = dynamic_cast<MatrixSquareSymmetric*>(build(SYM, A));
    int rc = m->computeEigen();
    if (rc) { S.bad("computeEigen returned " + std::to_string(rc) + in); delete m; return; }
    VectorDouble val = m->getEigenValues(); const MatrixSquareGeneral* vec = m->getEigenVectors();
    S.eval();
    if ((int)val.size() != n || vec == nullptr || vec->getNRows() != n) { S.bad("computeEigen: wrong sizes" + in); delete m; return; }
    VectorDouble sorted = val; std::sort(sorted.begin(), sorted.end(), std::greater<double>());
    for (int i = 0; i < n; i++) if (!nearLD(sorted[i], ev[i], 1e-10, sc)) { S.bad("eigenvalues (sorted) " + vstr(sorted) + " differ from the spectrum; expected #" + std::to_string(i) + " = " + fmt((double)ev[i]) + in); break; }
    Ref V(n, n); for (int i = 0; i < n; i++) for (int j = 0; j < n; j++) V(i, j) = vec->getValue(i, j);
    Ref D(n, n); for (int i = 0; i < n; i++) D(i, i) = val[i];
    std::string w;
    if (!matNear(rmul(A, V), rmul(V, D), 1e-10, sc, w)) S.bad("A V != V diag(lambda) at " + w + "; lambda=" + vstr(val) + " V=" + V.str() + in);
    if (!matNear(rmul(V.T(), V), rident(n), 1e-10, 1, w)) S.bad("eigenvectors not orthonormal (V'V != I) at " + w + in);
    delete m;
  });
  // generalized problem A v = lambda B v with B SPD from a fixed menu
  Ref B(n, n); for (int i = 0; i < n; i++) { B(i, i) = 2 + (i % 2); if (i) { B(i, i - 1) = 0.5L; B(i - 1, i) = 0.5L; } }
  S.run("eigen:computeGeneralizedEigen", [&] {
    MatrixSquareSymmetric* m = dynamic_cast<MatrixSquareSymmetric*>(build(SYM, A));
    MatrixSquareSymmetric* b = dynamic_cast<MatrixSquareSymmetric*>(build(SYM, B));
    int rc = m->computeGeneralizedEigen(*b);
    if (rc) { S.bad("computeGeneralizedEigen returned " + std::to_string(rc) + in); delete m; delete b; return; }
    VectorDouble val = m->getEigenValues(); const MatrixSquareGeneral* vec = m->getEigenVectors();
    S.eval();
    Ref V(n, n); for (int i = 0; i < n; i++) for (int j = 0; j < n; j++) V(i, j) = vec->getValue(i, j);
    Ref D(n, n); for (int i = 0; i < n; i++) D(i, i) = val[i];
    std::string w;
    if (!matNear(rmul(A, V), rmul(rmul(B, V), D), 1e-9, sc * 4, w)) S.bad("generalized: A V != B V diag(lambda) at " + w + "; lambda=" + vstr(val) + " B=" + B.str() + in);
    if (!matNear(rmul(rmul(V.T(), B), V), rident(n), 1e-9, 1, w)) S.bad("generalized: V' B V != I at " + w + in);
    delete m; delete b;
  });
  // generalized inverse of a non singular symmetric matrix = inverse
  Ref inv;
  if (rinv(A, inv) && rnorm1(A) * rnorm1(inv) < 1e6)
    S.run("eigen:computeGeneralizedInverse", [&] {
      MatrixSquareSymmetric* m = dynamic_cast<MatrixSquareSymmetric*>(build(SYM, A));
      MatrixSquareSymmetric out(n);
      int rc = m->computeGeneralizedInverse(out);
      if (rc) S.bad("computeGeneralizedInverse returned " + std::to_string(rc) + " on a well conditioned matrix" + in);
      else expectMat(S, &out, inv, "computeGeneralizedInverse of a non singular matrix" + in, 1e-9, rnorm1(inv));
      delete m;
    });
  S.nontrivial(Hash().s("eig").u(A.hash()).h);
}

// =====================================================================================================
// E2: histories of operations on ONE object (hidden per-object state: caches, flags, lazily built factors)
// =====================================================================================================
// After every step (mode 0) or only at the end (mode 1) every 'derived result' request is made on the LIVE object and
// compared with what a fresh object holding the reference content must give (the long-double reference replays the mutators).
enum Mut { M_setValue = 0, M_addValue, M_setRow, M_setColumn, M_setDiagonal, M_fill, M_addScalar, M_addScalarDiag, M_prodScalar,
           M_addMatInPlace, M_linearCombination, M_multiplyRow, M_multiplyColumn, M_divideRow, M_divideColumn, M_transposeInPlace,
           M_invert, M_prodMatMatIntoThis, M_prodMatInPlace, M_setValues, M_resetFromVD, M_copyAssign, M_cloneReplace, M_copyCtorReplace,
           M_normMatrix, NMUT };
static const char* mutName[NMUT] = {"setValue", "addValue", "setRow", "setColumn", "setDiagonal", "fill", "addScalar", "addScalarDiag", "prodScalar",
                                    "addMatInPlace", "linearCombination", "multiplyRow", "multiplyColumn", "divideRow", "divideColumn", "transposeInPlace",
                                    "invert", "prodMatMatInPlace-into-this", "prodMatInPlace", "setValues", "resetFromVD", "copy-assign", "clone-replace", "copy-ctor-replace",
                                    "normMatrix"};
struct HObj { int s = 0; AMatrix* m = nullptr; Ref R; LD amp = 1; };

static Ref hMenu(int r, int c, int k, bool sym)
{
  Ref b(r, c);
  for (int i = 0; i < r; i++) for (int j = 0; j < c; j++)
  {
    int a = sym ? std::min(i, j) : i, d = sym ? std::max(i, j) : j;
    b(i, j) = (LD)((a * 3 + d * 5 + k * 7) % 5) - 1;
  }
  if (sym || r == c) for (int i = 0; i < std::min(r, c); i++) b(i, i) += 3;   // keeps the square menus non singular
  return b;
}
static AMatrix* typedCopy(int s, const AMatrix* m)
{
  if (s == RECT) return new MatrixRectangular(*dynamic_cast<const MatrixRectangular*>(m));
  if (s == SQG) return new MatrixSquareGeneral(*dynamic_cast<const MatrixSquareGeneral*>(m));
  if (s == SYM) return new MatrixSquareSymmetric(*dynamic_cast<const MatrixSquareSymmetric*>(m));
  return new MatrixSparse(*dynamic_cast<const MatrixSparse*>(m));
}
static bool allPresent(const HObj& o, int i0, int i1, int j0, int j1)
{
  if (o.s != SPC) return true;
  const MatrixSparse* sp = dynamic_cast<const MatrixSparse*>(o.m);
  for (int i = i0; i < i1; i++) for (int j = j0; j < j1; j++) if (!sp->_isElementPresent(i, j)) return false;
  return true;
}
// returns false when the operation is not defined for that storage / content (history not enabled)
static bool applyMut(int op, HObj& o)
{
  const int s = o.s, r = o.R.r, c = o.R.c;
  const bool sq = r == c, sym = s == SYM;
  AMatrix* m = o.m;
  switch (op)
  {
    case M_setValue: { if (!allPresent(o, 0, 1, c - 1, c)) return false; m->setValue(0, c - 1, 3.); o.R(0, c - 1) = 3; if (sym) o.R(c - 1, 0) = 3; return true; }
    case M_addValue: { if (!allPresent(o, r - 1, r, 0, 1)) return false; m->addValue(r - 1, 0, 1.); o.R(r - 1, 0) += 1; if (sym && r - 1 != 0) o.R(0, r - 1) += 1; return true; }
    case M_setRow: { if (sym || !allPresent(o, r - 1, r, 0, c)) return false; std::vector<LD> t = mvec(c, 1); m->setRow(r - 1, toVD(t)); for (int j = 0; j < c; j++) o.R(r - 1, j) = t[j]; return true; }
    case M_setColumn: { if (sym || !allPresent(o, 0, r, 0, 1)) return false; std::vector<LD> t = mvec(r, 2); m->setColumn(0, toVD(t)); for (int i = 0; i < r; i++) o.R(i, 0) = t[i]; return true; }
    case M_setDiagonal: { if (!sq) return false; std::vector<LD> t = mvec(r, 3); m->setDiagonal(toVD(t)); o.R = rdiag(t); return true; }
    case M_fill: { m->fill(2.); for (auto& x : o.R.a) x = 2; return true; }
    case M_addScalar: { if (isSparseSt(s)) return false; m->addScalar(1.); for (auto& x : o.R.a) x += 1; return true; }
    case M_addScalarDiag: { if (!sq) return false; m->addScalarDiag(1.); for (int i = 0; i < r; i++) o.R(i, i) += 1; return true; }
    case M_prodScalar: { m->prodScalar(2.); for (auto& x : o.R.a) x *= 2; return true; }
    case M_addMatInPlace:
    {
      Ref B = hMenu(r, c, 1, sym);
      AMatrix* y = build(s, B);
      if (isSparseSt(s)) dynamic_cast<MatrixSparse*>(m)->addMatInPlace(*dynamic_cast<MatrixSparse*>(y), 1., 1.);
      else dynamic_cast<AMatrixDense*>(m)->addMatInPlace(*dynamic_cast<AMatrixDense*>(y), 1., 1.);
      delete y; o.R = rlin(1, o.R, 1, B); return true;
    }
    case M_linearCombination:
    {
      if (s == SPC) return false;
      Ref B1 = hMenu(r, c, 2, sym), B2 = hMenu(r, c, 3, sym);
      AMatrix* y1 = build(RECT, B1); AMatrix* y2 = build(RECT, B2);
      m->linearCombination(2., y1, -1., y2);
      delete y1; delete y2; o.R = rlin(2, B1, -1, B2); return true;
    }
    case M_multiplyRow: { if (sym) return false; std::vector<LD> v = mvec(r); m->multiplyRow(toVD(v)); o.R = rmul(rdiag(v), o.R); return true; }
    case M_multiplyColumn: { if (sym) return false; std::vector<LD> v = mvec(c, 2); m->multiplyColumn(toVD(v)); o.R = rmul(o.R, rdiag(v)); return true; }
    case M_divideRow: { if (sym) return false; std::vector<LD> v = mvec(r), iv(r); for (int i = 0; i < r; i++) iv[i] = 1 / v[i]; m->divideRow(toVD(v)); o.R = rmul(rdiag(iv), o.R); return true; }
    case M_divideColumn: { if (sym) return false; std::vector<LD> v = mvec(c, 2), iv(c); for (int j = 0; j < c; j++) iv[j] = 1 / v[j]; m->divideColumn(toVD(v)); o.R = rmul(o.R, rdiag(iv)); return true; }
    case M_transposeInPlace: { if (s == SQG && !sq) return false; m->transposeInPlace(); o.R = o.R.T(); return true; }
    case M_invert:
    {
      if (!sq) return false;
      Ref inv; if (!rinv(o.R, inv)) return false;
      LD cond = rnorm1(o.R) * rnorm1(inv); if (cond > 1e4) return false;
      Ref L; LD ld; if (isSparseSt(s) && !(o.R.symmetric() && rchol(o.R, L, ld))) return false;
      if (m->invert() != 0) return false;
      o.R = inv; o.amp *= cond; return true;
    }
    case M_prodMatMatIntoThis:
    {
      // this <- X * Y with fixed operands of the storage class of 'this' (symmetric storage: G * G')
      Ref X = sym ? hMenu(r, 2, 4, false) : hMenu(r, r, 4, false), Y = sym ? X.T() : hMenu(r, c, 5, false);
      int so = isSparseSt(s) ? s : RECT;
      AMatrix* x = build(so, X); AMatrix* y = build(so, Y);
      m->prodMatMatInPlace(x, y, false, false);
      delete x; delete y; o.R = rmul(X, Y); return true;
    }
    case M_prodMatInPlace:
    {
      if (sym) return false;
      Ref Y = hMenu(c, c, 6, false); int so = isSparseSt(s) ? s : RECT;
      AMatrix* y = build(so, Y); m->prodMatInPlace(y, false); delete y; o.R = rmul(o.R, Y); return true;
    }
    case M_setValues: { Ref B = hMenu(r, c, 7, sym); m->setValues(toVD(B.T().a), true); o.R = B; return true; }
    case M_resetFromVD: { if (isSparseSt(s)) return false; Ref B = hMenu(r, c, 8, sym); m->resetFromVD(r, c, toVD(B.T().a), true); o.R = B; return true; }
    case M_copyAssign:
    {
      // the source has gone through derived-result requests of its own
      Ref B = hMenu(r, c, 9, sym);
      AMatrix* src = build(s, B);
      if (sym) { MatrixSquareSymmetric* ss = dynamic_cast<MatrixSquareSymmetric*>(src); ss->computeEigen(); MatrixSquareSymmetric gi(r); ss->computeGeneralizedInverse(gi); }
      if (s == RECT) *dynamic_cast<MatrixRectangular*>(m) = *dynamic_cast<MatrixRectangular*>(src);
      else if (s == SQG) *dynamic_cast<MatrixSquareGeneral*>(m) = *dynamic_cast<MatrixSquareGeneral*>(src);
      else if (s == SYM) *dynamic_cast<MatrixSquareSymmetric*>(m) = *dynamic_cast<MatrixSquareSymmetric*>(src);
      else *dynamic_cast<MatrixSparse*>(m) = *dynamic_cast<MatrixSparse*>(src);
      delete src; o.R = B; return true;
    }
    case M_cloneReplace: { AMatrix* q = dynamic_cast<AMatrix*>(m->clone()); delete m; o.m = q; return true; }
    case M_copyCtorReplace: { AMatrix* q = typedCopy(s, m); delete m; o.m = q; return true; }
    case M_normMatrix:
    {
      if (!sym) return false;
      Ref G = hMenu(2, r, 10, false);
      AMatrix* g = build(RECT, G);
      dynamic_cast<MatrixSquareSymmetric*>(m)->normMatrix(*g);   // this = t(G) G
      delete g; o.R = rmul(G.T(), G); return true;
    }
  }
  return false;
}

static bool cmpMatTo(const AMatrix* m, const Ref& e, double tol, LD scale, std::string& why)
{
  Got g = readMat(m);
  if (!g.ok) { why = g.err; return false; }
  if (g.r != e.r || g.c != e.c) { why = "is " + std::to_string(g.r) + "x" + std::to_string(g.c); return false; }
  for (int i = 0; i < e.r; i++) for (int j = 0; j < e.c; j++)
    if (!nearLD(g(i, j), e(i, j), tol, scale)) { Ref gr(g.r, g.c); for (size_t k = 0; k < g.a.size(); k++) gr.a[k] = g.a[k]; why = "element (" + std::to_string(i) + "," + std::to_string(j) + ") = " + fmt(g(i, j)) + " instead of " + fmt((double)e(i, j)) + "; got " + gr.str(); return false; }
  return true;
}
static bool cmpVecTo(const VectorDouble& v, const std::vector<LD>& e, double tol, LD scale, std::string& why)
{
  if (v.size() != e.size()) { why = "has " + std::to_string(v.size()) + " elements"; return false; }
  for (size_t i = 0; i < e.size(); i++) if (!nearLD(v[i], e[i], tol, scale)) { why = "element " + std::to_string(i) + " = " + fmt(v[i]) + " instead of " + fmt((double)e[i]) + "; got " + vstr(v); return false; }
  return true;
}

// every derived-result request on the live object
static void derivedRequests(Sink& S, HObj& o, const std::string& after, const std::string& hist)
{
  const int s = o.s, r = o.R.r, c = o.R.c;
  const Ref& R = o.R;
  LD scale = 1; for (auto x : R.a) scale = std::max<LD>(scale, fabsl(x));
  const double tol = 1e-10 * (double)o.amp;
  const std::string pre = std::string("history:") + stClass(s) + ":";
  const std::string ctx = std::string(" [") + stName[s] + "] history " + hist + " ; content must be " + R.str();
  std::string why;
  auto bad = [&](const std::string& req, const std::string& what) { S.badKey(pre + req + ":after:" + after, req + " " + what + ctx); };
  S.eval();
  if (!cmpMatTo(o.m, R, tol, scale, why)) { bad("content", why); return; }   // nothing else is meaningful
  {
    VectorDouble v = o.m->getValues(true); std::vector<LD> e = R.T().a; S.eval();
    if (!cmpVecTo(v, e, tol, scale, why)) bad("getValues", why);
  }
  { std::vector<LD> e; for (int j = 0; j < c; j++) e.push_back(R(r - 1, j)); S.eval(); if (!cmpVecTo(o.m->getRow(r - 1), e, tol, scale, why)) bad("getRow", why); }
  { std::vector<LD> e; for (int i = 0; i < r; i++) e.push_back(R(i, 0)); S.eval(); if (!cmpVecTo(o.m->getColumn(0), e, tol, scale, why)) bad("getColumn", why); }
  { std::vector<LD> x = mvec(c, 1); S.eval(); if (!cmpVecTo(o.m->prodMatVec(toVD(x)), rmv(R, x), tol, scale * 8, why)) bad("prodMatVec", why); }
  { std::vector<LD> x = mvec(r, 2); S.eval(); if (!cmpVecTo(o.m->prodVecMat(toVD(x)), rmv(R.T(), x), tol, scale * 8, why)) bad("prodVecMat", why); }
  { AMatrix* t = o.m->transpose(); S.eval(); if (!cmpMatTo(t, R.T(), tol, scale, why)) bad("transpose", why); delete t; }
  if (r != c) return;
  { std::vector<LD> e; for (int i = 0; i < r; i++) e.push_back(R(i, i)); S.eval(); if (!cmpVecTo(o.m->getDiagonal(), e, tol, scale, why)) bad("getDiagonal", why); }
  Ref inv; bool nonsing = rinv(R, inv);
  LD cond = nonsing ? rnorm1(R) * rnorm1(inv) : 0;
  Ref L; LD logdet = 0; bool spd = R.symmetric() && rchol(R, L, logdet) && cond < 1e6;
  if (s == SQG || s == SYM)
  {
    AMatrixSquare* q = dynamic_cast<AMatrixSquare*>(o.m);
    std::vector<int> p(r); for (int i = 0; i < r; i++) p[i] = i; LD det = 0;
    do { LD t = 1; int nv = 0; for (int i = 0; i < r; i++) { t *= R(i, p[i]); for (int j = 0; j < i; j++) if (p[j] > p[i]) nv++; } det += (nv & 1) ? -t : t; } while (std::next_permutation(p.begin(), p.end()));
    LD ds = 1; for (int i = 0; i < r; i++) ds *= scale;
    S.eval(); if (!nearLD(q->determinant(), det, tol * 10, ds)) bad("determinant", "= " + fmt(q->determinant()) + " instead of " + fmt((double)det));
  }
  if (nonsing && cond < 1e6 && (!isSparseSt(s) || spd))
  {
    const double tl = tol * (double)cond * 10;
    { std::vector<LD> b = mvec(r, 1); VectorDouble x(r, 0.); o.m->solve(toVD(b), x); S.eval(); if (!cmpVecTo(x, rmv(inv, b), tl, rnorm1(inv) * 4, why)) bad("solve", why); }
    { AMatrix* q = dynamic_cast<AMatrix*>(o.m->clone()); q->invert(); S.eval(); if (!cmpMatTo(q, inv, tl, rnorm1(inv), why)) bad("invert-on-a-clone", why); delete q; }
  }
  else S.outcome("history:excluded:singular-or-non-SPD(solve/invert)");
  if (s == SYM)
  {
    MatrixSquareSymmetric* q = dynamic_cast<MatrixSquareSymmetric*>(o.m);
    std::vector<LD> ev = reigvals(R);
    const double te = std::max(1e-9, (double)tol * 100);
    S.eval();
    if (q->computeEigen() != 0) bad("computeEigen", "failed");
    else
    {
      VectorDouble val = q->getEigenValues(); const MatrixSquareGeneral* vec = q->getEigenVectors();
      VectorDouble sorted = val; std::sort(sorted.begin(), sorted.end(), std::greater<double>());
      bool ok = (int)val.size() == r && vec != nullptr && vec->getNRows() == r;
      if (ok) for (int i = 0; i < r; i++) if (!nearLD(sorted[i], ev[i], te, scale)) ok = false;
      if (!ok) { std::vector<double> evd(ev.begin(), ev.end()); bad("computeEigen", "eigenvalues " + vstr(val) + " instead of the spectrum " + vstr(evd)); }
      else
      {
        Ref V(r, r), D(r, r); for (int i = 0; i < r; i++) { D(i, i) = val[i]; for (int j = 0; j < r; j++) V(i, j) = vec->getValue(i, j); }
        std::string w;
        if (!matNear(rmul(R, V), rmul(V, D), te, scale, w)) bad("computeEigen", "A V != V diag(lambda) at " + w);
      }
    }
    LD mine = ev.back();
    if (fabsl(mine) > 1e-6L * scale) { S.eval(); bool g = q->isDefinitePositive(); if (g != (mine > 0)) bad("isDefinitePositive", std::string("= ") + (g ? "true" : "false") + " with smallest eigenvalue " + fmt((double)mine)); }
    else S.outcome("history:excluded:eigenvalue-near-zero(isDefinitePositive)");
    if (nonsing && cond < 1e4)
    {
      MatrixSquareSymmetric gi(r); S.eval();
      if (q->computeGeneralizedInverse(gi) != 0) bad("computeGeneralizedInverse", "failed");
      else if (!cmpMatTo(&gi, inv, std::max(1e-8, (double)tol * 100) * (double)cond, rnorm1(inv), why)) bad("computeGeneralizedInverse", why);
    }
  }
  if (spd && (s == SYM || isSparseSt(s)))
  {
    // a Cholesky helper built now on the live object
    ACholesky* ch = s == SYM ? (ACholesky*)new CholeskyDense(dynamic_cast<MatrixSquareSymmetric*>(o.m)) : (ACholesky*)new CholeskySparse(dynamic_cast<MatrixSparse*>(o.m));
    VectorDouble b = toVD(mvec(r, 1)), x(r, 0.); constvect bs(b.data(), b.size()); vect xs(x.data(), x.size());
    ch->solve(bs, xs); S.eval(2);
    if (!cmpVecTo(x, rmv(inv, mvec(r, 1)), tol * (double)cond * 10, rnorm1(inv) * 4, why)) bad("cholesky-solve", why);
    if (!nearLD(ch->computeLogDeterminant(), logdet, tol * (double)cond * 10, 1)) bad("cholesky-logdet", "= " + fmt(ch->computeLogDeterminant()) + " instead of " + fmt((double)logdet));
    delete ch;
  }
}

static std::string histName(const std::vector<int>& h) { std::string s; for (size_t i = 0; i < h.size(); i++) s += (i ? " > " : "") + std::string(mutName[h[i]]); return s; }

static const int NHCONT = 4;
static Ref histContent(int k)
{
  if (k == 0) return fromList(2, 2, {2, 1, 1, 2});
  if (k == 1) return fromList(3, 3, {4, 1, 2, 1, 3, 0, 2, 0, 5});
  if (k == 2) return fromList(2, 3, {1, 2, 0, 0, -1, 4});
  return fromList(2, 2, {2, -1, 4, 1});
}
// one history; mode 0: derived requests after every step, mode 1: only at the end
static void runHistory(Sink& S, int s, int k, int mode, const std::vector<int>& h)
{
  Ref A = histContent(k);
  std::string key = std::string("history:") + stClass(s) + ":crash-or-exception:" + mutName[h.back()];
  S.run(key, [&] {
    HObj o; o.s = s; o.R = A; o.m = build(s, A);
    // the initial object has also answered every request once (its caches are primed with the initial content)
    if (mode == 0) derivedRequests(S, o, "construction", "(fresh)");
    for (size_t i = 0; i < h.size(); i++)
    {
      if (!applyMut(h[i], o)) { S.outcome("history:not-enabled"); S.skip(); delete o.m; return; }
      if (mode == 0 || i + 1 == h.size()) derivedRequests(S, o, mutName[h[i]], histName(std::vector<int>(h.begin(), h.begin() + i + 1)) + (mode ? " (requests at the end only)" : " (requests after every step)"));
    }
    S.outcome("history:depth=" + std::to_string(h.size()) + ":mode=" + std::to_string(mode));
    Hash hh; hh.s("hist").i(s).i(k).i(mode); for (int x : h) hh.i(x);
    S.nontrivial(hh.h);
    delete o.m;
  });
}

// ---- histories on the Cholesky helper classes ---------------------------------------------------------
enum CholOp { C_set0 = 0, C_set1, C_set2, C_mutateAndSet, C_copyCtor, C_copyAssign, C_requests, NCHOLOP };
static const char* cholOpName[NCHOLOP] = {"setMatrix(A0)", "setMatrix(A1)", "setMatrix(A2)", "mutate-matrix+setMatrix", "copy-construct", "copy-assign", "requests"};
static Ref cholMenu(int k)
{
  if (k == 0) return fromList(3, 3, {2, -1, 0, -1, 2, -1, 0, -1, 2});
  if (k == 1) return fromList(3, 3, {4, 1, 2, 1, 3, 0, 2, 0, 5});
  return fromList(2, 2, {2, 1, 1, 2});
}
static void cholRequests(Sink& S, int kind, ACholesky* ch, const Ref& A, const std::string& after, const std::string& hist)
{
  static const char* kn[3] = {"chol-dense", "chol-sparse-eigen", "chol-sparse-cs"};
  const std::string pre = std::string("history:") + kn[kind] + ":";
  const std::string ctx = " history " + hist + " ; current matrix " + A.str();
  // mechanism keys: <kind>:<copy | setMatrix-again | requests-only>:<factor | triangles>
  auto bad = [&](const std::string& req, const std::string& what) {
    bool tri = req == "getLowerTriangle" || req == "getUpperTriangleInverse" || req == "matProductInPlace";
    S.badKey(pre + after + ":" + (tri ? "triangles" : "factor"), req + " " + what + ctx);
  };
  const int n = A.r;
  Ref inv, L; LD logdet; rinv(A, inv); rchol(A, L, logdet);
  const LD sI = rnorm1(inv), sA = rnorm1(A);
  std::string w;
  S.eval(3);
  if (ch->getSize() != n) { bad("getSize", "= " + std::to_string(ch->getSize()) + " instead of " + std::to_string(n)); return; }
  Ref X = linmap(n, [&](constvect b, vect x) { ch->solve(b, x); });
  if (!matNear(X, inv, 1e-9, sI, w)) bad("solve", "columns are not A^-1 at " + w);
  double ld = ch->computeLogDeterminant();
  if (!nearLD(ld, logdet, 1e-9, 1)) bad("logdet", "= " + fmt(ld) + " instead of " + fmt((double)logdet));
  Ref M = linmap(n, [&](constvect b, vect x) { ch->InvLtX(b, x); });
  if (!matNear(rmul(M, M.T()), inv, 1e-9, sI, w)) bad("InvLtX", "M M' != A^-1 at " + w);
  if (kind == 0)
  {
    CholeskyDense* cd = dynamic_cast<CholeskyDense*>(ch);
    Ref Lg(n, n), Xg(n, n);
    for (int i = 0; i < n; i++) for (int j = 0; j < n; j++) { Lg(i, j) = cd->getLowerTriangle(i, j); Xg(i, j) = cd->getUpperTriangleInverse(i, j); }
    S.eval(3);
    if (!matNear(rmul(Lg, Lg.T()), A, 1e-9, sA, w)) bad("getLowerTriangle", "L L' != A at " + w + " L=" + Lg.str());
    if (!matNear(rmul(Lg, Xg), rident(n), 1e-9, 1, w)) bad("getUpperTriangleInverse", "L X != I at " + w);
    Ref Ar(n, 2); MatrixRectangular a(n, 2); for (int i = 0; i < n; i++) for (int j = 0; j < 2; j++) { Ar(i, j) = menuV[(i * 2 + j) % 8]; a.setValue(i, j, (double)Ar(i, j)); }
    MatrixRectangular x; cd->matProductInPlace(1, a, x);
    std::string why; if (!cmpMatTo(&x, rmul(L, Ar), 1e-9, sA * 8, why)) bad("matProductInPlace", why);
  }
}
static void runCholHistory(Sink& S, int kind, const std::vector<int>& h)
{
  static const char* kn[3] = {"chol-dense", "chol-sparse-eigen", "chol-sparse-cs"};
  bool hasCopyC = false, hasCopyA = false; for (int x : h) { hasCopyC = hasCopyC || x == C_copyCtor; hasCopyA = hasCopyA || x == C_copyAssign; }
  bool anySet = false; for (int x : h) anySet = anySet || x <= C_mutateAndSet;
  const std::string mech = (hasCopyC || hasCopyA) ? "copy" : anySet ? "setMatrix-again" : "requests-only";
  std::string key = std::string("history:") + kn[kind] + ":" + mech + ":crash";
  S.run(key, [&] {
    const int st = kind == 0 ? SYM : kind == 1 ? SPE : SPC;
    std::vector<Ref> refs; std::vector<AMatrix*> mats;
    for (int k = 0; k < 3; k++) { refs.push_back(cholMenu(k)); mats.push_back(build(st, refs[k])); }
    auto mk = [&](AMatrix* m) -> ACholesky* { return kind == 0 ? (ACholesky*)new CholeskyDense(dynamic_cast<MatrixSquareSymmetric*>(m)) : (ACholesky*)new CholeskySparse(dynamic_cast<MatrixSparse*>(m)); };
    auto setM = [&](ACholesky* c, AMatrix* m) { return kind == 0 ? dynamic_cast<CholeskyDense*>(c)->setMatrix(dynamic_cast<MatrixSquareSymmetric*>(m)) : dynamic_cast<CholeskySparse*>(c)->setMatrix(dynamic_cast<MatrixSparse*>(m)); };
    int cur = 0;
    ACholesky* ch = mk(mats[0]);
    ACholesky* other = nullptr;
    std::string hs;
    for (size_t i = 0; i < h.size(); i++)
    {
      int op = h[i];
      hs += (i ? " > " : "") + std::string(cholOpName[op]);
      if (op <= C_set2) { cur = op; if (setM(ch, mats[cur]) != 0) S.badKey(std::string("history:") + kn[kind] + ":setMatrix:fails", "setMatrix returns an error on an SPD matrix; history " + hs); }
      else if (op == C_mutateAndSet) { mats[cur]->addScalarDiag(1.); for (int d = 0; d < refs[cur].r; d++) refs[cur](d, d) += 1; setM(ch, mats[cur]); }
      else if (op == C_copyCtor)
      {
        ACholesky* q = kind == 0 ? (ACholesky*)new CholeskyDense(*dynamic_cast<CholeskyDense*>(ch)) : (ACholesky*)new CholeskySparse(*dynamic_cast<CholeskySparse*>(ch));
        delete ch; ch = q;   // the copy must be self-contained
      }
      else if (op == C_copyAssign)
      {
        delete other; other = mk(mats[1]);
        if (kind == 0) *dynamic_cast<CholeskyDense*>(ch) = *dynamic_cast<CholeskyDense*>(other); else *dynamic_cast<CholeskySparse*>(ch) = *dynamic_cast<CholeskySparse*>(other);
        delete other; other = nullptr; cur = 1;   // the source goes away: the target must stay usable
      }
      if (op == C_requests || i + 1 == h.size()) cholRequests(S, kind, ch, refs[cur], mech, hs);
    }
    Hash hh; hh.s("cholhist").i(kind); for (int x : h) hh.i(x);
    S.nontrivial(hh.h);
    S.outcome("history:chol:depth=" + std::to_string(h.size()));
    delete ch; for (auto m : mats) delete m;
  });
}

// =====================================================================================================
// numeric vectors: VectorNumT methods and VH:: helpers
// =====================================================================================================
static const double TESTV = 1.234e30;
static bool isT(double v) { return v > 1.0e30; }
static std::vector<double> decodeVec(uint64_t id, int n, const double* alpha, int na) { std::vector<double> v(n); for (int k = 0; k < n; k++) { v[k] = alpha[id % na]; id /= na; } return v; }
static std::string vs(const std::vector<double>& v) { return vstr(v); }
static VectorDouble VD(const std::vector<double>& v) { return VectorDouble(v); }
static void chk(Sink& S, double got, LD exp, const std::string& what, double tol = 1e-12) { S.eval(); if (!nearLD(got, exp, tol)) S.bad(what + " = " + fmt(got) + ", expected " + fmt((double)exp)); }

static void vecUnary(Sink& S, const std::vector<double>& v, bool hasTest)
{
  const int n = (int)v.size();
  const std::string in = " v=" + vs(v);
  std::vector<double> d; for (double x : v) if (!isT(x)) d.push_back(x);   // defined values
  const int nd = (int)d.size();
  LD sum = 0, sq = 0, l1 = 0, linf = 0, mx = -1e300, mn = 1e300, amx = -1, amn = 1e300;
  for (double x : d) { sum += x; sq += (LD)x * x; l1 += fabs(x); linf = std::max<LD>(linf, fabs(x)); mx = std::max<LD>(mx, x); mn = std::min<LD>(mn, x); amx = std::max<LD>(amx, fabs(x)); amn = std::min<LD>(amn, fabs(x)); }
  if (!hasTest)
  {
    // ---- VectorNumT<double> and VectorNumT<int> members --------------------------------------------
    S.run("vector:VectorNumT:sum-mean-norm", [&] {
      VectorDouble x = VD(v);
      chk(S, x.sum(), sum, "VectorDouble::sum()" + in);
      if (n > 0) chk(S, x.mean(), sum / n, "VectorDouble::mean()" + in);
      chk(S, x.norm(), sqrtl(sq), "VectorDouble::norm()" + in);
      chk(S, x.innerProduct(x), sq, "VectorDouble::innerProduct(v)" + in);
    });
    if (n > 0)
    {
      S.run("vector:VectorNumT<double>:minimum", [&] { chk(S, VD(v).minimum(), mn, "VectorDouble::minimum()" + in); });
      S.run("vector:VectorNumT<double>:maximum", [&] { chk(S, VD(v).maximum(), mx, "VectorDouble::maximum()" + in); });
      bool integral = true; for (double x : v) integral = integral && x == std::floor(x);
      if (integral)
        S.run("vector:VectorNumT<int>:min-max-sum", [&] {
          VectorInt xi; for (double x : v) xi.push_back((int)x);
          chk(S, xi.minimum(), mn, "VectorInt::minimum()" + in); chk(S, xi.maximum(), mx, "VectorInt::maximum()" + in); chk(S, xi.sum(), sum, "VectorInt::sum()" + in);
          chk(S, VH::maximum(xi), mx, "VH::maximum(VectorInt)" + in); chk(S, VH::minimum(xi), mn, "VH::minimum(VectorInt)" + in); chk(S, VH::cumul(xi), sum, "VH::cumul(VectorInt)" + in);
        });
    }
    S.run("vector:VectorNumT:scalar-arithmetic", [&] {
      for (double k : {2., -1., 0.5})
      {
        std::vector<LD> ea, es, em, ed; for (double x : v) { ea.push_back((LD)x + k); es.push_back((LD)x - k); em.push_back((LD)x * k); ed.push_back((LD)x / k); }
        { VectorDouble x = VD(v); x.add(k); expectVec(S, x, ea, "VectorDouble::add(" + fmt(k) + ")" + in); }
        { VectorDouble x = VD(v); x.subtract(k); expectVec(S, x, es, "VectorDouble::subtract(" + fmt(k) + ")" + in); }
        { VectorDouble x = VD(v); x.multiply(k); expectVec(S, x, em, "VectorDouble::multiply(" + fmt(k) + ")" + in); }
        { VectorDouble x = VD(v); VH::addConstant(x, k); expectVec(S, x, ea, "VH::addConstant(" + fmt(k) + ")" + in); }
        { VectorDouble x = VD(v); VH::multiplyConstant(x, k); expectVec(S, x, em, "VH::multiplyConstant(" + fmt(k) + ")" + in); }
        { VectorDouble x = VD(v); VH::divideConstant(x, k); expectVec(S, x, ed, "VH::divideConstant(" + fmt(k) + ")" + in); }
      }
    });
    S.run("vector:VectorNumT<double>:divide", [&] {
      for (double k : {2., -1., 0.5})
      {
        std::vector<LD> ed; for (double x : v) ed.push_back((LD)x / k);
        VectorDouble x = VD(v);
        try { x.divide(k); expectVec(S, x, ed, "VectorDouble::divide(" + fmt(k) + ")" + in); }
        catch (const char* e) { S.eval(); S.bad("VectorDouble::divide(" + fmt(k) + ") throws '" + e + "' for a non-zero divisor" + in); }
      }
    });
    S.run("vector:VH:norms-product-cumsum", [&] {
      VectorDouble x = VD(v);
      chk(S, VH::norm(x), sqrtl(sq), "VH::norm" + in); chk(S, VH::normL1(x), l1, "VH::normL1" + in); chk(S, VH::norminf(x), linf, "VH::norminf" + in);
      if (n > 0) { LD p = 1; for (double q : v) p *= q; chk(S, VH::product(x), p, "VH::product" + in); }
      for (int z = 0; z < 2; z++)
      {
        std::vector<LD> e; if (z) e.push_back(0); LD t = 0; for (double q : v) { t += q; e.push_back(t); }
        expectVec(S, VH::cumsum(x, z, false), e, "VH::cumsum(addZero=" + std::to_string(z) + ")" + in);
        if (!e.empty()) { std::vector<LD> er; for (LD q : e) er.push_back(e.back() - q); expectVec(S, VH::cumsum(x, z, true), er, "VH::cumsum(addZero=" + std::to_string(z) + ",revert)" + in); }
      }
      { VectorDouble y = x; VH::cumulateInPlace(y); std::vector<LD> e; LD t = 0; for (double q : v) { t += q; e.push_back(t); } expectVec(S, y, e, "VH::cumulateInPlace" + in); }
      { std::vector<LD> e; for (int i = n - 1; i >= 0; i--) e.push_back(v[i]); expectVec(S, VH::revert(x), e, "VH::revert" + in); }
    });
  }
  // ---- VH reductions (undefined values are skipped) ---------------------------------------------------
  if (nd > 0)
  {
    S.run("vector:VH:maximum-minimum", [&] {
      VectorDouble x = VD(v);
      chk(S, VH::maximum(x), mx, "VH::maximum" + in); chk(S, VH::minimum(x), mn, "VH::minimum" + in);
      chk(S, VH::maximum(x, true), amx, "VH::maximum(abs)" + in); chk(S, VH::minimum(x, true), amn, "VH::minimum(abs)" + in);
    });
    S.run("vector:VH:cumul-mean-variance", [&] {
      VectorDouble x = VD(v);
      chk(S, VH::cumul(x), sum, "VH::cumul" + in); chk(S, VH::mean(x), sum / nd, "VH::mean" + in);
      if (nd > 1)
      {
        LD m = sum / nd, ss = 0; for (double q : d) ss += ((LD)q - m) * ((LD)q - m);
        chk(S, VH::variance(x, true), ss / nd, "VH::variance(scaleByN)" + in, 1e-11); chk(S, VH::variance(x, false), ss / (nd - 1), "VH::variance" + in, 1e-11);
        chk(S, VH::stdv(x, true), sqrtl(ss / nd), "VH::stdv(scaleByN)" + in, 1e-11);
      }
      std::vector<double> sd = d; std::sort(sd.begin(), sd.end());
      LD med = (nd % 2) ? sd[nd / 2] : ((LD)sd[nd / 2] + sd[nd / 2 - 1]) / 2;
      chk(S, VH::median(x), med, "VH::median" + in);
      S.eval(2);
      if (VH::countUndefined(x) != n - nd || VH::countDefined(x) != nd) S.bad("VH::countUndefined/countDefined wrong" + in);
    });
    S.run("vector:VH:where-min-max", [&] {
      int cmin = 0, cmax = 0, imin = -1, imax = -1;
      for (int i = 0; i < n; i++) if (!isT(v[i])) { if (v[i] == (double)mn) { cmin++; imin = i; } if (v[i] == (double)mx) { cmax++; imax = i; } }
      VectorDouble x = VD(v);
      if (cmin == 1) { S.eval(); if (VH::whereMinimum(x) != imin) S.bad("VH::whereMinimum = " + std::to_string(VH::whereMinimum(x)) + " expected " + std::to_string(imin) + in); } else S.outcome("excluded:tie(whereMinimum)");
      if (cmax == 1) { S.eval(); if (VH::whereMaximum(x) != imax) S.bad("VH::whereMaximum = " + std::to_string(VH::whereMaximum(x)) + " expected " + std::to_string(imax) + in); } else S.outcome("excluded:tie(whereMaximum)");
    });
  }
  // ---- sorting and ranking -----------------------------------------------------------------------------
  if (n > 0)
    S.run("vector:VH:sort-rank", [&] {
      VectorDouble x = VD(v);
      for (int asc = 1; asc >= 0; asc--)
      {
        std::vector<double> sd = v; std::sort(sd.begin(), sd.end()); if (!asc) std::reverse(sd.begin(), sd.end());
        std::vector<LD> e(sd.begin(), sd.end());
        expectVec(S, VH::sort(x, asc), e, "VH::sort(ascending=" + std::to_string(asc) + ")" + in, 0);
        { VectorDouble y = x; VH::sortInPlace(y, asc); expectVec(S, y, e, "VH::sortInPlace(ascending=" + std::to_string(asc) + ")" + in, 0); }
        VectorInt ord = VH::orderRanks(x, asc);
        S.eval();
        bool perm = (int)ord.size() == n; std::vector<int> seen(n, 0);
        if (perm) for (int i = 0; i < n; i++) { if (ord[i] < 0 || ord[i] >= n || seen[ord[i]]++) { perm = false; break; } }
        if (!perm) { S.bad("VH::orderRanks is not a permutation: " + vstr(ord) + in); continue; }
        for (int i = 0; i < n; i++) if (v[ord[i]] != sd[i]) { S.bad("VH::orderRanks(ascending=" + std::to_string(asc) + ") = " + vstr(ord) + " does not sort the vector" + in); break; }
        VectorInt rk = VH::sortRanks(x, asc);
        S.eval();
        bool okr = (int)rk.size() == n; std::vector<int> seen2(n, 0);
        if (okr) for (int i = 0; i < n; i++) { if (rk[i] < 0 || rk[i] >= n || seen2[rk[i]]++) { okr = false; break; } }
        if (!okr) S.bad("VH::sortRanks is not a permutation: " + vstr(rk) + in);
        else for (int i = 0; i < n && okr; i++) for (int j = 0; j < n; j++)
          if ((asc ? v[i] < v[j] : v[i] > v[j]) && !(rk[i] < rk[j])) { S.bad("VH::sortRanks(ascending=" + std::to_string(asc) + ") = " + vstr(rk) + " is not order preserving" + in); okr = false; break; }
        expectVec(S, VH::reorder(x, ord), e, "VH::reorder(v, orderRanks(v))" + in, 0);
        for (int safe = 0; safe < 2; safe++)
        {
          VectorInt ranks(n); for (int i = 0; i < n; i++) ranks[i] = 10 + i;
          VectorDouble vals = x;
          VH::arrangeInPlace(safe, ranks, vals, asc);
          S.eval();
          if (safe) expectVec(S, vals, std::vector<LD>(v.begin(), v.end()), "VH::arrangeInPlace(safe=1) must keep the values" + in, 0);
          else expectVec(S, vals, e, "VH::arrangeInPlace(safe=0) must sort the values" + in, 0);
          bool okp = true; std::vector<int> seen3(n, 0);
          for (int i = 0; i < n; i++) { int k = ranks[i] - 10; if (k < 0 || k >= n || seen3[k]++ || v[k] != sd[i]) { okp = false; break; } }
          if (!okp) S.bad("VH::arrangeInPlace(safe=" + std::to_string(safe) + ",ascending=" + std::to_string(asc) + "): ranks " + vstr(ranks) + " do not follow the sorted values" + in);
        }
      }
      { std::vector<double> u = v; std::sort(u.begin(), u.end()); u.erase(std::unique(u.begin(), u.end()), u.end()); expectVec(S, VH::unique(x), std::vector<LD>(u.begin(), u.end()), "VH::unique" + in, 0); }
      bool strictUp = true, strictDown = true; for (int i = 1; i < n; i++) { if (!(v[i] > v[i - 1])) strictUp = false; if (!(v[i] < v[i - 1])) strictDown = false; }
      bool ties = false; for (int i = 1; i < n; i++) if (v[i] == v[i - 1]) ties = true;
      if (!ties) { S.eval(2); if (VH::isSorted(x, true) != strictUp) S.bad("VH::isSorted(ascending) wrong" + in); if (VH::isSorted(x, false) != strictDown) S.bad("VH::isSorted(descending) wrong" + in); }
      else S.outcome("excluded:tie(isSorted)");
    });
  // ---- normal score: rank preserving, symmetric, undefined stay undefined -----------------------------------
  if (nd > 0)
    S.run("vector:VH:normalScore", [&] {
      VectorDouble ns = VH::normalScore(VD(v));
      S.eval();
      if ((int)ns.size() != n) { S.bad("VH::normalScore returns " + std::to_string(ns.size()) + " values" + in); return; }
      bool ties = false;
      for (int i = 0; i < n; i++) for (int j = 0; j < i; j++) if (!isT(v[i]) && v[i] == v[j]) ties = true;
      for (int i = 0; i < n; i++)
      {
        if (isT(v[i]) != isT(ns[i])) { S.bad("VH::normalScore: undefined values must stay undefined and only them: " + vstr(ns) + in); return; }
        for (int j = 0; j < n; j++) if (!isT(v[i]) && !isT(v[j]) && v[i] < v[j] && !(ns[i] < ns[j])) { S.bad("VH::normalScore is not rank preserving: " + vstr(ns) + in); return; }
      }
      if (!ties)
      {
        std::vector<double> g; for (int i = 0; i < n; i++) if (!isT(ns[i])) g.push_back(ns[i]);
        std::sort(g.begin(), g.end());
        for (size_t k = 0; k < g.size(); k++) if (fabs(g[k] + g[g.size() - 1 - k]) > 1e-6) { S.bad("VH::normalScore scores are not symmetric around 0: " + vstr(ns) + in); break; }
      }
      else S.outcome("excluded:tie(normalScore symmetry)");
    });
  S.nontrivial(Hash().s("vec").vd(v).h);
}

static void vecBinary(Sink& S, const std::vector<double>& a, const std::vector<double>& b)
{
  const int n = (int)a.size();
  const std::string in = " a=" + vs(a) + " b=" + vs(b);
  std::vector<LD> ea, es, em, ed; LD ip = 0, dist = 0; bool zero = false;
  for (int i = 0; i < n; i++) { ea.push_back((LD)a[i] + b[i]); es.push_back((LD)a[i] - b[i]); em.push_back((LD)a[i] * b[i]); if (b[i] == 0) zero = true; else ed.push_back((LD)a[i] / b[i]); ip += (LD)a[i] * b[i]; dist += ((LD)a[i] - b[i]) * ((LD)a[i] - b[i]); }
  S.run("vector:VectorNumT:vector-arithmetic", [&] {
    { VectorDouble x = VD(a); x.add(VD(b)); expectVec(S, x, ea, "VectorDouble::add(b)" + in); }
    { VectorDouble x = VD(a); x.subtract(VD(b)); expectVec(S, x, es, "VectorDouble::subtract(b)" + in); }
    { VectorDouble x = VD(a); x.multiply(VD(b)); expectVec(S, x, em, "VectorDouble::multiply(b)" + in); }
    chk(S, VD(a).innerProduct(VD(b)), ip, "VectorDouble::innerProduct(b)" + in);
  });
  S.run("vector:VectorNumT<double>:divide", [&] {
    if (zero) { S.outcome("excluded:division-by-zero"); return; }
    VectorDouble x = VD(a);
    try { x.divide(VD(b)); expectVec(S, x, ed, "VectorDouble::divide(b)" + in); }
    catch (const char* e) { S.eval(); S.bad(std::string("VectorDouble::divide(b) throws '") + e + "' although no divisor is zero" + in); }
  });
  S.run("vector:VectorNumT<double>:isSame", [&] {
    S.eval(); bool g = VD(a).isSame(VD(b));
    if (g != (a == b)) S.bad(std::string("VectorDouble::isSame(b, eps=1e-10) = ") + (g ? "true" : "false") + in);
  });
  S.run("vector:VH:vector-arithmetic", [&] {
    expectVec(S, VH::add(VD(a), VD(b)), ea, "VH::add" + in);
    { std::vector<LD> eb; for (LD q : es) eb.push_back(-q); expectVec(S, VH::subtract(VD(a), VD(b)), eb, "VH::subtract(a,b) documented 'vecb - veca'" + in); }
    { VectorDouble x = VD(a); VH::addInPlace(x, VD(b)); expectVec(S, x, ea, "VH::addInPlace" + in); }
    { VectorDouble x = VD(a); VH::multiplyInPlace(x, VD(b)); expectVec(S, x, em, "VH::multiplyInPlace" + in); }
    if (!zero) { VectorDouble x = VD(a); VH::divideInPlace(x, VD(b)); expectVec(S, x, ed, "VH::divideInPlace" + in); }
    chk(S, VH::innerProduct(VD(a), VD(b)), ip, "VH::innerProduct" + in);
    chk(S, VH::normDistance(VD(a), VD(b)), sqrtl(dist), "VH::normDistance" + in);
    { VectorDouble out(n, 9.); VH::linearCombinationInPlace(2., VD(a), -0.5, VD(b), out); std::vector<LD> e; for (int i = 0; i < n; i++) e.push_back(2 * (LD)a[i] - 0.5L * b[i]); expectVec(S, out, e, "VH::linearCombinationInPlace(2,a,-0.5,b)" + in); }
    S.eval(); if (VH::isEqual(VD(a), VD(b)) != (a == b)) S.bad("VH::isEqual wrong" + in);
  });
  S.nontrivial(Hash().s("vec2").vd(a).vd(b).h);
}

// =====================================================================================================
// thread-count axis (configuration): t = 1..16 on shapes that cross Eigen's parallelisation threshold
// =====================================================================================================
static Ref bigMat(int r, int c, int seed, bool sparse)
{
  Ref a(r, c);
  for (int i = 0; i < r; i++) for (int j = 0; j < c; j++)
  {
    int h = (i * 31 + j * 17 + seed * 7 + (i * j) % 13) % 11;
    LD v = (LD)(h % 5) - 2;   // -2..2: every dot product below is exact in double
    if (sparse && (abs(i - j) > 2 && (i * 3 + j * 5 + seed) % 23 != 0)) v = 0;
    a(i, j) = v;
  }
  return a;
}
static int osThreads()
{
  FILE* f = fopen("/proc/self/status", "r"); if (!f) return -1;
  char line[256]; int n = -1;
  while (fgets(line, sizeof line, f)) if (!strncmp(line, "Threads:", 8)) n = atoi(line + 8);
  fclose(f); return n;
}
static std::string bitsOf(const AMatrix* m) { Got g = readMat(m); Hash h; h.i(g.r).i(g.c); for (double v : g.a) h.d(v); return std::to_string(h.h); }

static void threadOps(Sink& S, int shapeId, bool thorough)
{
  static const int shapes[6][3] = {{64, 64, 64}, {7, 64, 5}, {160, 160, 160}, {96, 33, 160}, {250, 120, 90}, {300, 300, 300}};
  const int r = shapes[shapeId][0], k = shapes[shapeId][1], c = shapes[shapeId][2];
  Ref X = bigMat(r, k, 1, false), Y = bigMat(k, c, 2, false), Yt = Y.T(), Xt = X.T();
  Ref XY = rmul(X, Y);
  Ref SX = bigMat(r, r, 3, true), SY = bigMat(r, r, 4, true), SXY = rmul(SX, SY);
  Ref Msym(r, r); for (int i = 0; i < r; i++) { Msym(i, i) = 4; if (i) { Msym(i, i - 1) = -1; Msym(i - 1, i) = -1; } if (i > 4) { Msym(i, i - 5) = 1; Msym(i - 5, i) = 1; } }
  Ref Minv; rinv(Msym, Minv);
  Ref Xk = bigMat(r, std::min(k, 40), 5, false), Mk = bigMat(Xk.c, Xk.c, 6, false), CG = rmul(rmul(Xk, Mk), Xk.T());
  std::vector<LD> xv(k); for (int i = 0; i < k; i++) xv[i] = (LD)((i * 7) % 5) - 2;
  std::vector<LD> xr(r); for (int i = 0; i < r; i++) xr[i] = (LD)((i * 3) % 5) - 2;
  const std::string sh = std::to_string(r) + "x" + std::to_string(k) + "x" + std::to_string(c);
  std::map<std::string, std::string> first;   // bitwise result with 1 thread
  for (int t = 1; t <= 16; t++)
  {
    setMultiThread(t);
    omp_set_num_threads(t);
    const std::string tn = " threads=" + std::to_string(t) + " shape " + sh;
    auto same = [&](const std::string& op, const AMatrix* m) {
      std::string b = bitsOf(m); S.eval();
      if (t == 1) first[op] = b;
      else if (first[op] != b) S.badKey("threads:" + op + ":differs-from-1-thread", op + tn + ": result is not bitwise identical to the 1-thread result (exact integer data)");
    };
    S.run("threads:dense-prodMatMat", [&] {
      MatrixRectangular x(r, k), y(k, c), xt(k, r), yt(c, k);   // created after setMultiThread: _allocate applies the setting
      for (int i = 0; i < r; i++) for (int j = 0; j < k; j++) { x.setValue(i, j, (double)X(i, j)); xt.setValue(j, i, (double)X(i, j)); }
      for (int i = 0; i < k; i++) for (int j = 0; j < c; j++) { y.setValue(i, j, (double)Y(i, j)); yt.setValue(j, i, (double)Y(i, j)); }
      S.outcome("omp_get_max_threads=" + std::to_string(omp_get_max_threads()));
      MatrixRectangular out(r, c);
      out.prodMatMatInPlace(&x, &y, false, false);  expectMat(S, &out, XY, "prodMatMatInPlace NN" + tn, 1e-13); same("NN", &out);
      out.fill(0.); out.prodMatMatInPlace(&xt, &y, true, false);  expectMat(S, &out, XY, "prodMatMatInPlace TN" + tn, 1e-13); same("TN", &out);
      out.fill(0.); out.prodMatMatInPlace(&x, &yt, false, true);  expectMat(S, &out, XY, "prodMatMatInPlace NT" + tn, 1e-13); same("NT", &out);
      out.fill(0.); out.prodMatMatInPlace(&xt, &yt, true, true);  expectMat(S, &out, XY, "prodMatMatInPlace TT" + tn, 1e-13); same("TT", &out);
      S.outcome("os-threads-after-gemm(t=" + std::to_string(t) + ")=" + std::to_string(osThreads()));
      expectVec(S, x.prodMatVec(toVD(xv)), rmv(X, xv), "prodMatVec" + tn, 1e-13);
      expectVec(S, x.prodMatVec(toVD(xr), true), rmv(Xt, xr), "prodMatVec transposed" + tn, 1e-13);
    });
    S.run("threads:dense-congruence-invert", [&] {
      MatrixRectangular a(Xk.r, Xk.c); MatrixSquareGeneral m(Xk.c);
      for (int i = 0; i < Xk.r; i++) for (int j = 0; j < Xk.c; j++) a.setValue(i, j, (double)Xk(i, j));
      for (int i = 0; i < Xk.c; i++) for (int j = 0; j < Xk.c; j++) m.setValue(i, j, (double)Mk(i, j));
      MatrixSquareGeneral* o = prodNormMatMat(&a, &m, false);
      expectMat(S, o, CG, "prodNormMatMat(a,m,false)" + tn, 1e-13); same("congruence", o); delete o;
      MatrixSquareSymmetric ms(r);
      for (int i = 0; i < r; i++) for (int j = 0; j <= i; j++) ms.setValue(i, j, (double)Msym(i, j));
      MatrixSquareSymmetric mi(ms);
      if (mi.invert() != 0) S.bad("invert failed" + tn); else expectMat(S, &mi, Minv, "invert (banded SPD)" + tn, 1e-10, rnorm1(Minv));
      CholeskyDense ch(&ms);
      VectorDouble b = toVD(xr), xo(r, 0.); constvect bs(b.data(), b.size()); vect xs(xo.data(), xo.size());
      ch.solve(bs, xs); expectVec(S, xo, rmv(Minv, xr), "CholeskyDense::solve" + tn, 1e-10, rnorm1(Minv) * 4);
    });
    for (int be : {(int)SPE, (int)SPC})
      S.run(std::string("threads:") + stClass(be) + "-products", [&] {
        MatrixSparse* sx = dynamic_cast<MatrixSparse*>(build(be, SX)); MatrixSparse* sy = dynamic_cast<MatrixSparse*>(build(be, SY));
        MatrixSparse out(r, r, be == SPE ? 1 : 0);
        out.prodMatMatInPlace(sx, sy, false, false); expectMat(S, &out, SXY, std::string(stName[be]) + " prodMatMatInPlace" + tn, 1e-13); same(std::string(stName[be]) + "-spgemm", &out);
        expectVec(S, sx->prodMatVec(toVD(xr)), rmv(SX, xr), std::string(stName[be]) + " prodMatVec" + tn, 1e-13);
        expectVec(S, sx->prodMatVec(toVD(xr), true), rmv(SX.T(), xr), std::string(stName[be]) + " prodMatVec transposed" + tn, 1e-13);
        MatrixSparse* sm = dynamic_cast<MatrixSparse*>(build(be, Msym));
        CholeskySparse ch(sm);
        VectorDouble b = toVD(xr), xo(r, 0.); constvect bs(b.data(), b.size()); vect xs(xo.data(), xo.size());
        ch.solve(bs, xs); expectVec(S, xo, rmv(Minv, xr), std::string(stName[be]) + " CholeskySparse::solve" + tn, 1e-10, rnorm1(Minv) * 4);
        delete sx; delete sy; delete sm;
      });
    S.nontrivial(Hash().s("thr").i(shapeId).i(t).h);
    (void)thorough;
  }
}

// =====================================================================================================
// the cs back-end frees malloc'ed memory with operator delete: shown with ASan's default setting in a re-executed child
// =====================================================================================================
static const char* g_argv0 = nullptr;
static int csDeleteProbe()
{
  silence();
  NF_Triplet t; t.add(0, 0, 1.); t.add(1, 1, 2.);
  MatrixSparse* m = MatrixSparse::createFromTriplet(t, 2, 2, 0);
  double v = m->getValue(1, 1);
  delete m;
  fprintf(stderr, "CS-PROBE-DONE %g\n", v);
  return 0;
}

// =====================================================================================================
// parts
// =====================================================================================================
VF_PART(unary_small)
{
  std::vector<Ref> all = allSmall(4);
  runCases(C, all.size(), [&](Sink& S, uint64_t id) {
    unaryOps(S, all[id], true);
    if (id % 37 == 5) S.sample("{\"id\":" + std::to_string(id) + ",\"matrix\":" + jstr(all[id].str()) + ",\"ops\":\"all unary operations in 5 storages\"}");
  });
}
// thorough only: every 2x3 and 3x2 matrix over {-1,0,2} and every 3x3 matrix over {0,1}
VF_PART(unary_medium)
{
  if (!C.thorough()) return;
  std::vector<Ref> all;
  for (int sh = 0; sh < 2; sh++)
    for (int id = 0; id < 729; id++) { Ref a(sh ? 3 : 2, sh ? 2 : 3); int x = id; for (int k = 0; k < 6; k++) { a.a[k] = alpha3[x % 3]; x /= 3; } all.push_back(a); }
  for (int id = 0; id < 512; id++) { Ref a(3, 3); for (int k = 0; k < 9; k++) a.a[k] = (id >> k) & 1; all.push_back(a); }
  runCases(C, all.size(), [&](Sink& S, uint64_t id) { unaryOps(S, all[id], true); if (all[id].symmetric()) { cholOps(S, all[id]); eigenOps(S, all[id]); } });
}
VF_PART(unary_structured)
{
  std::vector<Ref> all = structured(C.thorough());
  runCases(C, all.size(), [&](Sink& S, uint64_t id) { unaryOps(S, all[id], C.thorough()); cholOps(S, all[id]); eigenOps(S, all[id]); });
}
// all symmetric matrices over {-1,0,2} of order 1..3 (order 4 thorough, on a sub-alphabet): Cholesky where SPD, eigen always
VF_PART(chol_eigen_small)
{
  std::vector<Ref> all;
  for (int n = 1; n <= (C.thorough() ? 4 : 3); n++)
  {
    int nt = n * (n + 1) / 2, tot = 1; for (int k = 0; k < nt; k++) tot *= 3;
    for (int id = 0; id < tot; id++)
    {
      Ref a(n, n); int x = id;
      for (int i = 0; i < n; i++) for (int j = 0; j <= i; j++) { a(i, j) = alpha3[x % 3]; a(j, i) = a(i, j); x /= 3; }
      if (n == 4) { bool diagPos = true; for (int i = 0; i < n; i++) if (a(i, i) != 2) diagPos = false; if (!diagPos) continue; }
      all.push_back(a);
    }
  }
  runCases(C, all.size(), [&](Sink& S, uint64_t id) { cholOps(S, all[id]); eigenOps(S, all[id]); });
}
VF_PART(sums)
{
  std::vector<Ref> all = allSmall(4);
  // pairs of equal shape; quick: the second operand runs over every third content
  std::vector<std::pair<int, int>> pairs;
  for (size_t i = 0; i < all.size(); i++) for (size_t j = 0; j < all.size(); j++)
  {
    if (all[i].r != all[j].r || all[i].c != all[j].c) continue;
    if (!C.thorough() && (j % 4) != (i % 4)) continue;
    pairs.push_back({(int)i, (int)j});
  }
  runCases(C, pairs.size(), [&](Sink& S, uint64_t id) { sumOps(S, all[pairs[id].first], all[pairs[id].second]); });
}
VF_PART(products)
{
  std::vector<Ref> all = allSmall(4);
  std::vector<std::pair<int, int>> pairs;
  for (size_t i = 0; i < all.size(); i++) for (size_t j = 0; j < all.size(); j++)
  {
    const Ref &x = all[i], &y = all[j];
    bool compat = x.c == y.r || x.r == y.r || x.c == y.c || x.r == y.c;
    if (!compat) continue;
    if (!C.thorough() && ((i * 7 + j * 3) % 11) != 0) continue;
    pairs.push_back({(int)i, (int)j});
  }
  runCases(C, pairs.size(), [&](Sink& S, uint64_t id) {
    prodOps(S, all[pairs[id].first], all[pairs[id].second]);
    if (id % 5003 == 11) S.sample("{\"id\":" + std::to_string(id) + ",\"x\":" + jstr(all[pairs[id].first].str()) + ",\"y\":" + jstr(all[pairs[id].second].str()) + "}");
  });
}
VF_PART(congruence)
{
  std::vector<Ref> all = allSmall(4);
  std::vector<Ref> sq;   // middle matrices: all 1x1 and 2x2 over the alphabet, menus for order 3 and 4
  for (auto& a : all) if (a.square()) sq.push_back(a);
  sq.push_back(fromList(3, 3, {2, -1, 0, 4, 1, 3, 0, 2, -2})); sq.push_back(fromList(3, 3, {2, -1, 0, -1, 2, -1, 0, -1, 2})); sq.push_back(rident(3));
  sq.push_back(fromList(4, 4, {2, -1, 0, 1, 4, 1, 3, 0, 0, 2, -2, 1, 1, 0, 0, 3})); sq.push_back(fromList(4, 4, {2, -1, 0, 0, -1, 2, -1, 0, 0, -1, 2, -1, 0, 0, -1, 2})); sq.push_back(rident(4));
  std::vector<std::pair<int, int>> pairs;
  for (size_t i = 0; i < all.size(); i++) for (size_t j = 0; j < sq.size(); j++)
  {
    if (sq[j].r != all[i].r && sq[j].r != all[i].c) continue;
    if (!C.thorough() && sq[j].r == 2 && ((i + j * 5) % 9) != 0) continue;
    pairs.push_back({(int)i, (int)j});
  }
  runCases(C, pairs.size(), [&](Sink& S, uint64_t id) {
    int i = pairs[id].first, j = pairs[id].second;
    bool firstM = true; for (int q = 0; q < j; q++) if (sq[q].r == all[i].r || sq[q].r == all[i].c) { firstM = false; break; }
    normOps(S, all[i], sq[j], firstM);
  });
}
VF_PART(structured_binary)
{
  std::vector<Ref> all = structured(C.thorough());
  std::vector<std::pair<int, int>> pairs;
  for (size_t i = 0; i < all.size(); i++) for (size_t j = 0; j < all.size(); j++)
  {
    if (!C.thorough() && ((i + 2 * j) % 3) != 0) continue;
    pairs.push_back({(int)i, (int)j});
  }
  runCases(C, pairs.size(), [&](Sink& S, uint64_t id) {
    const Ref &a = all[pairs[id].first], &b = all[pairs[id].second];
    if (std::max({a.r, a.c, b.r, b.c}) > 5 && !(pairs[id].first % 2 == 0)) { }
    prodOps(S, a, b);
    if (a.r == b.r && a.c == b.c) sumOps(S, a, b);
    if (b.square() && (b.r == a.r || b.r == a.c)) normOps(S, a, b, pairs[id].second % 4 == 0);
  });
}
// thorough only: all pairs among every 2x3 and 3x2 matrix over {0,1} and 64 of the 3x3 matrices over {0,1}
VF_PART(binary_medium)
{
  if (!C.thorough()) return;
  std::vector<Ref> all;
  for (int sh = 0; sh < 2; sh++)
    for (int id = 0; id < 64; id++) { Ref a(sh ? 3 : 2, sh ? 2 : 3); for (int k = 0; k < 6; k++) a.a[k] = (id >> k) & 1; all.push_back(a); }
  for (int id = 5; id < 512; id += 8) { Ref a(3, 3); for (int k = 0; k < 9; k++) a.a[k] = (id >> k) & 1; all.push_back(a); }
  const uint64_t n = all.size();
  runCases(C, n * n, [&](Sink& S, uint64_t id) {
    const Ref &a = all[id / n], &b = all[id % n];
    prodOps(S, a, b);
    if (a.r == b.r && a.c == b.c && (id % 7) == 0) sumOps(S, a, b);
    if (b.square() && (b.r == a.r || b.r == a.c)) normOps(S, a, b, (id % n) == 128);
  });
}
// =====================================================================================================
// aliasing axis: output object == input object
// =====================================================================================================
// Every operation taking an input and an output vector / matrix is called with the SAME object on both sides. Oracle = the
// non-aliased (reference) result, identical across storages. An aliased call that NO storage answers correctly is counted as
// 'not supported by any storage' (not judged); as soon as one storage gives the defined result the others must give it too.
struct AliasRes { bool ran = false, right = false; std::string got; };
static void aliasOps(Sink& S, const Ref& A)
{
  if (!A.square()) return;
  const int n = A.r;
  const std::string in = " A=" + A.str();
  const std::vector<LD> v0 = mvec(n, 1);
  Ref inv; bool nonsing = rinv(A, inv) && rnorm1(A) * rnorm1(inv) < 1e6;
  Ref L; LD ld; bool spd = nonsing && A.symmetric() && rchol(A, L, ld);
  const double tol = 1e-9;
  LD scale = 1; for (auto x : A.a) scale = std::max<LD>(scale, fabsl(x)); if (nonsing) scale = std::max(scale, rnorm1(inv));
  scale *= 8;
  std::map<std::string, std::vector<AliasRes>> res;
  std::map<std::string, std::string> expd;
  auto recV = [&](const std::string& op, int s, const VectorDouble& got, const std::vector<LD>& e) {
    auto& r = res[op]; if (r.empty()) r.resize(NST + 3);
    std::string why; r[s].ran = true; r[s].right = cmpVecTo(got, e, tol, scale, why); r[s].got = vstr(got);
    std::vector<double> ed(e.begin(), e.end()); expd[op] = vstr(ed); S.eval();
  };
  auto recM = [&](const std::string& op, int s, const AMatrix* got, const Ref& e) {
    auto& r = res[op]; if (r.empty()) r.resize(NST + 3);
    std::string why; r[s].ran = true; r[s].right = cmpMatTo(got, e, tol, scale, why); r[s].got = why; expd[op] = e.str(); S.eval();
  };
  for (int s = 0; s < NST; s++)
  {
    if (!canHold(s, A)) continue;
    const std::string cl = stClass(s);
    auto step = [&](const std::string& op, std::function<void(AMatrix*)> f) { S.run("aliasing:" + op + ":" + cl, [&] { AMatrix* m = build(s, A); f(m); delete m; }); };
    if (nonsing && (!isSparseSt(s) || spd))
      step("solve(v,v)", [&](AMatrix* m) { VectorDouble v = toVD(v0); m->solve(v, v); recV("solve(v,v)", s, v, rmv(inv, v0)); });
    for (int t = 0; t < 2; t++)
    {
      const std::string ts = t ? ",T" : "";
      Ref M = rT(t, A);
      step("prodMatVecInPlace(v,v" + ts + ")", [&](AMatrix* m) { VectorDouble v = toVD(v0); m->prodMatVecInPlace(v, v, t); recV("prodMatVecInPlace(v,v" + ts + ")", s, v, rmv(M, v0)); });
      step("prodMatVecInPlace-span(v,v" + ts + ")", [&](AMatrix* m) { VectorDouble v = toVD(v0); constvect xs(v.data(), v.size()); vect ys(v.data(), v.size()); m->prodMatVecInPlace(xs, ys, t); recV("prodMatVecInPlace-span(v,v" + ts + ")", s, v, rmv(M, v0)); });
      step("prodMatVecInPlacePtr(p,p" + ts + ")", [&](AMatrix* m) { VectorDouble v = toVD(v0); m->prodMatVecInPlacePtr(v.data(), v.data(), t); recV("prodMatVecInPlacePtr(p,p" + ts + ")", s, v, rmv(M, v0)); });
      step("addProdMatVecInPlace(v,v" + ts + ")", [&](AMatrix* m) { VectorDouble v = toVD(v0); constvect xs(v.data(), v.size()); vect ys(v.data(), v.size()); m->addProdMatVecInPlace(xs, ys, t); std::vector<LD> e = rmv(M, v0); for (int i = 0; i < n; i++) e[i] += v0[i]; recV("addProdMatVecInPlace(v,v" + ts + ")", s, v, e); });
      step("prodVecMatInPlace(v,v" + ts + ")", [&](AMatrix* m) { VectorDouble v = toVD(v0); m->prodVecMatInPlace(v, v, t); recV("prodVecMatInPlace(v,v" + ts + ")", s, v, rmv(M.T(), v0)); });
    }
    step("addMatInPlace(self)", [&](AMatrix* m) {
      if (isSparseSt(s)) { MatrixSparse* q = dynamic_cast<MatrixSparse*>(m); q->addMatInPlace(*q, 2., -0.5); } else { AMatrixDense* q = dynamic_cast<AMatrixDense*>(m); q->addMatInPlace(*q, 2., -0.5); }
      recM("addMatInPlace(self)", s, m, rlin(1.5L, A, 0, A));
    });
    step("AMatrix::addMatInPlace(self)", [&](AMatrix* m) { m->AMatrix::addMatInPlace(*m, 2., -0.5); recM("AMatrix::addMatInPlace(self)", s, m, rlin(1.5L, A, 0, A)); });
    step("linearCombination(self,self)", [&](AMatrix* m) { m->linearCombination(2., m, -0.5, m); recM("linearCombination(self,self)", s, m, rlin(1.5L, A, 0, A)); });
    step("prodMatMatInPlace(this,this)", [&](AMatrix* m) { m->prodMatMatInPlace(m, m, false, false); recM("prodMatMatInPlace(this,this)", s, m, rmul(A, A)); });
    if (s != SYM)
    {
      Ref Y = hMenu(n, n, 6, false); const int so = isSparseSt(s) ? s : RECT;
      step("prodMatMatInPlace(this,y)", [&](AMatrix* m) { AMatrix* y = build(so, Y); m->prodMatMatInPlace(m, y, false, false); recM("prodMatMatInPlace(this,y)", s, m, rmul(A, Y)); delete y; });
      step("prodMatMatInPlace(x,this)", [&](AMatrix* m) { AMatrix* y = build(so, Y); m->prodMatMatInPlace(y, m, false, false); recM("prodMatMatInPlace(x,this)", s, m, rmul(Y, A)); delete y; });
      step("prodMatMatInPlace(this,this,T,N)", [&](AMatrix* m) { m->prodMatMatInPlace(m, m, true, false); recM("prodMatMatInPlace(this,this,T,N)", s, m, rmul(A.T(), A)); });
    }
  }
  if (spd)
    for (int kind = 0; kind < 3; kind++)
    {
      static const char* kn[3] = {"chol-dense", "chol-sparse-eigen", "chol-sparse-cs"};
      const int st = kind == 0 ? SYM : kind == 1 ? SPE : SPC;
      S.run(std::string("aliasing:cholesky-solve(v,v):") + kn[kind], [&] {
        AMatrix* m = build(st, A);
        ACholesky* ch = kind == 0 ? (ACholesky*)new CholeskyDense(dynamic_cast<MatrixSquareSymmetric*>(m)) : (ACholesky*)new CholeskySparse(dynamic_cast<MatrixSparse*>(m));
        VectorDouble v = toVD(v0); constvect xs(v.data(), v.size()); vect ys(v.data(), v.size());
        ch->solve(xs, ys);
        auto& r = res["cholesky-solve(v,v)"]; if (r.empty()) r.resize(NST + 3);
        std::string why; r[NST + kind].ran = true; r[NST + kind].right = cmpVecTo(v, rmv(inv, v0), tol, scale, why); r[NST + kind].got = vstr(v); S.eval();
        std::vector<LD> e = rmv(inv, v0); std::vector<double> ed(e.begin(), e.end()); expd["cholesky-solve(v,v)"] = vstr(ed);
        delete ch; delete m;
      });
    }
  // verdicts
  static const char* clName[NST + 3] = {"dense", "dense", "dense", "sparse-eigen", "sparse-cs", "chol-dense", "chol-sparse-eigen", "chol-sparse-cs"};
  static const char* stN[NST + 3] = {"rect", "sqgen", "sym", "sparse-eigen", "sparse-cs", "chol-dense", "chol-sparse-eigen", "chol-sparse-cs"};
  for (auto& kv : res)
  {
    bool any = false; std::string who;
    for (int s = 0; s < NST + 3; s++) if (kv.second[s].ran && kv.second[s].right) { any = true; who += std::string(who.empty() ? "" : ",") + stN[s]; }
    // calls that every storage of the reference tree answers with the non-aliased result are judged unconditionally
    const bool aliasSafe = kv.first == "solve(v,v)" || kv.first == "addMatInPlace(self)" || kv.first == "AMatrix::addMatInPlace(self)" || kv.first == "linearCombination(self,self)";
    if (!any && !aliasSafe) { S.outcome("aliasing:not-supported-by-any-storage(not judged):" + kv.first); continue; }
    if (who.empty()) who = "no storage";
    for (int s = 0; s < NST + 3; s++)
    {
      if (!kv.second[s].ran) continue;
      if (kv.second[s].right) { S.outcome("aliasing:ok:" + kv.first + ":" + clName[s]); continue; }
      std::string fam = kv.first;
      if (fam.rfind("prodMatVecInPlace", 0) == 0 || fam.rfind("prodVecMatInPlace", 0) == 0 || fam.rfind("addProdMatVecInPlace", 0) == 0) fam = "matvec-inplace(v,v)";
      else if (fam.rfind("prodMatMatInPlace", 0) == 0) fam = "prodMatMatInPlace(this-as-operand)";
      S.badKey("aliasing:" + fam + ":" + clName[s], std::string("[") + stN[s] + "] " + kv.first + " with the SAME object as input and output gives " + kv.second[s].got + " ; the non-aliased result " + expd[kv.first] + " is returned by " + who + in);
    }
  }
  S.nontrivial(Hash().s("alias").u(A.hash()).h);
}
// numeric vectors with themselves as second operand
static void aliasVec(Sink& S, const std::vector<double>& v)
{
  const std::string in = " v=" + vs(v);
  const int n = (int)v.size();
  std::vector<LD> twice, sq, zero(n, 0), lc; LD ip = 0;
  for (double x : v) { twice.push_back(2 * (LD)x); sq.push_back((LD)x * x); ip += (LD)x * x; lc.push_back(1.5L * x); }
  S.run("aliasing:vector:self-operand", [&] {
    { VectorDouble x = VD(v); x.add(x); expectVec(S, x, twice, "VectorDouble::add(self)" + in); }
    { VectorDouble x = VD(v); x.subtract(x); expectVec(S, x, zero, "VectorDouble::subtract(self)" + in); }
    { VectorDouble x = VD(v); x.multiply(x); expectVec(S, x, sq, "VectorDouble::multiply(self)" + in); }
    { VectorDouble x = VD(v); chk(S, x.innerProduct(x), ip, "VectorDouble::innerProduct(self)" + in); }
    { VectorDouble x = VD(v); VH::addInPlace(x, x); expectVec(S, x, twice, "VH::addInPlace(x,x)" + in); }
    { VectorDouble x = VD(v); VH::multiplyInPlace(x, x); expectVec(S, x, sq, "VH::multiplyInPlace(x,x)" + in); }
    { VectorDouble x = VD(v); VH::subtractInPlace(x, x); expectVec(S, x, zero, "VH::subtractInPlace(x,x)" + in); }
    if (n > 0) { VectorDouble x = VD(v); VH::linearCombinationInPlace(2., x, -0.5, x, x); expectVec(S, x, lc, "VH::linearCombinationInPlace(2,x,-0.5,x,x)" + in); }
    { VectorDouble x = VD(v); VH::addInPlace(x, x, x); expectVec(S, x, twice, "VH::addInPlace(x,x,x)" + in); }
  });
  S.nontrivial(Hash().s("aliasvec").vd(v).h);
}

VF_PART(aliasing)
{
  std::vector<Ref> all;
  for (auto& a : allSmall(4)) if (a.square()) all.push_back(a);
  for (auto& a : structured(C.thorough())) if (a.square()) all.push_back(a);
  if (C.thorough()) for (int id = 0; id < 512; id++) { Ref a(3, 3); for (int k = 0; k < 9; k++) a.a[k] = (id >> k) & 1; all.push_back(a); }
  static const double alphaA[4] = {-1, 0, 2, 0.5};
  std::vector<std::vector<double>> vecs;
  for (int n = 0; n <= 3; n++) { uint64_t tot = 1; for (int k = 0; k < n; k++) tot *= 4; for (uint64_t id = 0; id < tot; id++) vecs.push_back(decodeVec(id, n, alphaA, 4)); }
  runCases(C, all.size() + vecs.size(), [&](Sink& S, uint64_t id) { if (id < all.size()) aliasOps(S, all[id]); else aliasVec(S, vecs[id - all.size()]); });
}
// E2: histories of 2..3 (thorough 4 on the symmetric storage) mutators on ONE object, all derived requests replayed
VF_PART(history_matrix)
{
  const uint64_t per = (uint64_t)NMUT * NMUT;
  const uint64_t n = (uint64_t)NST * NHCONT * 2 * per;
  runCases(C, n, [&](Sink& S, uint64_t id) {
    int op2 = (int)(id % NMUT), op1 = (int)((id / NMUT) % NMUT); uint64_t q = id / per;
    int mode = (int)(q % 2); q /= 2; int k = (int)(q % NHCONT); int s = (int)(q / NHCONT);
    if (!canHold(s, histContent(k))) { S.skip(); return; }
    runHistory(S, s, k, mode, {op1, op2});
    // quick tier: depth 3 on the 2x2 SPD start in both modes, on the 2x3 and the non symmetric 2x2 starts with requests after
    // every step; the 3x3 start stays at depth 2. thorough: depth 3 everywhere.
    if (!C.thorough() && (k == 1 || (mode == 1 && k != 0))) { S.outcome("history:quick-tier-depth-2-only"); return; }
    for (int op3 = 0; op3 < NMUT; op3++)
    {
      runHistory(S, s, k, mode, {op1, op2, op3});
      if (C.thorough() && mode == 0 && k == 0 && s == SYM)
        for (int op4 = 0; op4 < NMUT; op4++) runHistory(S, s, k, mode, {op1, op2, op3, op4});
    }
    if (id % 4099 == 17) S.sample("{\"id\":" + std::to_string(id) + ",\"storage\":" + jstr(stName[s]) + ",\"start\":" + jstr(histContent(k).str()) + ",\"history\":" + jstr(histName({op1, op2}) + " > *") + "}");
  });
}
VF_PART(history_cholesky)
{
  const int depth = C.thorough() ? 5 : 3;
  uint64_t per = 1; for (int d = 0; d < depth; d++) per *= NCHOLOP;
  runCases(C, 3 * per, [&](Sink& S, uint64_t id) {
    int kind = (int)(id / per); uint64_t q = id % per;
    std::vector<int> h; for (int d = 0; d < depth; d++) { h.push_back((int)(q % NCHOLOP)); q /= NCHOLOP; }
    // every prefix is a history of its own (prefixes of length < depth are run when the remaining digits are 0)
    for (int len = 1; len <= depth; len++)
    {
      bool tailZero = true; for (int d = len; d < depth; d++) if (h[d] != 0) tailZero = false;
      if (len < depth && !tailZero) continue;
      runCholHistory(S, kind, std::vector<int>(h.begin(), h.begin() + len));
    }
  });
}
VF_PART(vectors)
{
  static const double alphaA[4] = {-1, 0, 2, 0.5};
  static const double alphaT[5] = {-1, 0, 0, 2, TESTV};
  // unary: all vectors of length 0..4 over {-1,0,2,0.5}, then length 1..4 over {-1,0,0,2,TEST}
  std::vector<std::pair<std::vector<double>, bool>> un;
  for (int n = 0; n <= (C.thorough() ? 5 : 4); n++) { uint64_t tot = 1; for (int k = 0; k < n; k++) tot *= 4; for (uint64_t id = 0; id < tot; id++) un.push_back({decodeVec(id, n, alphaA, 4), false}); }
  for (int n = 1; n <= (C.thorough() ? 5 : 4); n++) { uint64_t tot = 1; for (int k = 0; k < n; k++) tot *= 5; for (uint64_t id = 0; id < tot; id++) { auto v = decodeVec(id, n, alphaT, 5); bool ht = false; for (double x : v) ht = ht || isT(x); if (ht) un.push_back({v, true}); } }
  // distinct-valued vectors (no ties) for the symmetric / where clauses
  for (int n = 2; n <= 5; n++) { std::vector<double> base = {3, -1, 0.5, 100, 7}; base.resize(n); std::sort(base.begin(), base.end()); do un.push_back({base, false}); while (std::next_permutation(base.begin(), base.end())); }
  const uint64_t nun = un.size();
  const int nb = C.thorough() ? 4 : 3;
  uint64_t npairs = 0; std::vector<uint64_t> off;
  for (int n = 0; n <= nb; n++) { uint64_t tot = 1; for (int k = 0; k < 2 * n; k++) tot *= 4; off.push_back(npairs); npairs += tot; }
  runCases(C, nun + npairs, [&](Sink& S, uint64_t id) {
    if (id < nun) { vecUnary(S, un[id].first, un[id].second); if (id % 211 == 3) S.sample("{\"id\":" + std::to_string(id) + ",\"vector\":" + jstr(vs(un[id].first)) + "}"); return; }
    uint64_t q = id - nun; int n = nb; while (off[n] > q) n--;
    q -= off[n];
    uint64_t half = 1; for (int k = 0; k < n; k++) half *= 4;
    vecBinary(S, decodeVec(q % half, n, alphaA, 4), decodeVec(q / half, n, alphaA, 4));
  });
}
// NF_Triplet::force(nrow,ncol) on a triplet that already reaches (nrow-1,ncol-1): the matrix must be unchanged and usable
VF_PART(triplet_force)
{
  std::vector<Ref> all = allSmall(4);
  runCases(C, all.size(), [&](Sink& S, uint64_t id) {
    const Ref& A = all[id];
    if (A(A.r - 1, A.c - 1) == 0) { S.skip(); S.outcome("corner-empty(force is needed: covered by every other part)"); return; }
    for (int be : {(int)SPE, (int)SPC})
      S.run(std::string(stClass(be)) + ":NF_Triplet-force:corner-already-present", [&] {
        NF_Triplet t;
        int nnz = 0;
        for (int i = 0; i < A.r; i++) for (int j = 0; j < A.c; j++) if (A(i, j) != 0) { t.add(i, j, (double)A(i, j)); nnz++; }
        t.force(A.r, A.c);
        MatrixSparse* m = MatrixSparse::createFromTriplet(t, A.r, A.c, be == SPE ? 1 : 0);
        const std::string in = std::string(" [") + stName[be] + "] input " + A.str();
        expectMat(S, m, A, "matrix built from a forced triplet" + in);
        S.eval();
        if (m->getNonZeros() != nnz) S.bad("force() on a triplet that already holds the corner entry stores " + std::to_string(m->getNonZeros()) + " entries for " + std::to_string(nnz) + " non-zeros (duplicate corner entry)" + in);
        std::vector<LD> vr = mvec(A.r);
        m->multiplyRow(toVD(vr));
        expectMat(S, m, rmul(rdiag(vr), A), "multiplyRow on a matrix built from a forced triplet" + in);
        m->prodScalar(2.);
        expectMat(S, m, rlin(2, rmul(rdiag(vr), A), 0, A), "then prodScalar(2)" + in);
        delete m;
      });
    S.nontrivial(Hash().s("force").u(A.hash()).h);
  });
}
// ---- dimension / index errors with address checking switched on (setFlagCheckAddress(true)) ----------------------
// Oracle (deliberately minimal): the call must not be executed out of bounds (ASan abort / crash = violation under
// key dim-error:<storage class>:<operation>). Whether the error was reported (message, exception, error code, empty
// result) or silently executed on a prefix is recorded in the outcome histogram only.
static void dimErrorOps(Sink& S, const Ref& A, int s)
{
  const int r = A.r, c = A.c;
  {
    if (!canHold(s, A)) { S.skip(); return; }
    auto family = [](const std::string& op) -> std::string {
      if (op.rfind("prodMatVec", 0) == 0 || op.rfind("prodVecMat", 0) == 0) return "matvec";
      if (op.rfind("multiply", 0) == 0 || op.rfind("divide", 0) == 0) return "scale-row-col";
      if (op.rfind("getRow", 0) == 0 || op.rfind("getColumn", 0) == 0) return "getRow-getColumn";
      if (op.rfind("setRow", 0) == 0 || op.rfind("setColumn", 0) == 0 || op.rfind("setDiagonal", 0) == 0) return "setRow-setColumn-setDiagonal";
      return op.substr(0, op.find(':'));
    };
    auto doit = [&](const std::string& op, std::function<bool(AMatrix*)> f) {
      S.run(std::string("dim-error:") + stClass(s) + ":" + family(op), [&] {
        AMatrix* m = build(s, A); m->setFlagCheckAddress(true);
        int before = S.msgCount; bool reported = false;
        try { reported = f(m); } catch (const std::exception&) { reported = true; } catch (const char*) { reported = true; }
        if (S.msgCount > before) reported = true;
        S.eval();
        S.outcome(std::string(reported ? "dim-error-reported:" : "dim-error-silently-executed:") + stClass(s) + ":" + op);
        Got g = readMat(m);   // the object must still be readable
        if (!g.ok) S.bad(std::string("[") + stName[s] + "] after a refused " + op + ": " + g.err);
        delete m;
      });
    };
    for (int d : {-1, 1})
    {
      const std::string ds = d < 0 ? "short" : "long";
      for (int t = 0; t < 2; t++)
      {
        int nx = (t ? r : c) + d, nl = (t ? c : r) + d;
        const std::string ts = t ? ":T" : ":N";
        doit("prodMatVec:" + ds + ts, [&](AMatrix* m) { VectorDouble y = m->prodMatVec(VectorDouble(nx, 1.), t); return y.empty(); });
        doit("prodVecMat:" + ds + ts, [&](AMatrix* m) { VectorDouble y = m->prodVecMat(VectorDouble(nl, 1.), t); return y.empty(); });
        doit("prodMatVecInPlace-span:" + ds + ts, [&](AMatrix* m) { VectorDouble x(nx, 1.), y(t ? c : r, 0.); constvect xs(x.data(), x.size()); vect ys(y.data(), y.size()); return m->prodMatVecInPlace(xs, ys, t) != 0; });
        doit("prodVecMatInPlace:" + ds + ts, [&](AMatrix* m) { VectorDouble x(nl, 1.), y(t ? r : c, 5.); m->prodVecMatInPlace(x, y, t); return false; });
      }
      doit("multiplyRow:" + ds, [&](AMatrix* m) { m->multiplyRow(VectorDouble(r + d, 2.)); return false; });
      doit("multiplyColumn:" + ds, [&](AMatrix* m) { m->multiplyColumn(VectorDouble(c + d, 2.)); return false; });
      doit("divideRow:" + ds, [&](AMatrix* m) { m->divideRow(VectorDouble(r + d, 2.)); return false; });
      doit("divideColumn:" + ds, [&](AMatrix* m) { m->divideColumn(VectorDouble(c + d, 2.)); return false; });
      doit("setRow:" + ds, [&](AMatrix* m) { m->setRow(0, VectorDouble(c + d, 2.)); return false; });
      doit("setColumn:" + ds, [&](AMatrix* m) { m->setColumn(0, VectorDouble(r + d, 2.)); return false; });
      if (A.square())
      {
        doit("setDiagonal:" + ds, [&](AMatrix* m) { m->setDiagonal(VectorDouble(r + d, 2.)); return false; });
        doit("solve:" + ds, [&](AMatrix* m) { VectorDouble x(r, 0.); return m->solve(VectorDouble(r + d, 1.), x) != 0; });
      }
    }
    doit("getValue:out-of-range", [&](AMatrix* m) { return FFFF(m->getValue(r, 0)) && FFFF(m->getValue(0, c)) && FFFF(m->getValue(-1, 0)); });
    doit("setValue:out-of-range", [&](AMatrix* m) { m->setValue(r, 0, 1.); m->setValue(0, c, 1.); m->setValue(0, -1, 1.); return false; });
    doit("setRow:out-of-range", [&](AMatrix* m) { m->setRow(r, VectorDouble(c, 2.)); return false; });
    doit("setColumn:out-of-range", [&](AMatrix* m) { m->setColumn(c, VectorDouble(r, 2.)); return false; });
    doit("getRow:out-of-range", [&](AMatrix* m) { return m->getRow(r).empty(); });
    doit("getColumn:out-of-range", [&](AMatrix* m) { return m->getColumn(c).empty(); });
    doit("addMatInPlace-generic:other-shape", [&](AMatrix* m) { MatrixRectangular y(r + 1, c); m->AMatrix::addMatInPlace(y); return false; });
    doit("linearCombination:other-shape", [&](AMatrix* m) { MatrixRectangular y(r, c + 1); m->linearCombination(1., &y); return false; });
    doit("prodMatMatInPlace:incompatible", [&](AMatrix* m) {
      AMatrix* x = build(s, A); AMatrix* y = build(s, A); x->setFlagCheckAddress(true); y->setFlagCheckAddress(true);
      if (r == c) { delete x; x = build(RECT, Ref(r, c + 1)); }   // make the inner dimensions differ
      MatrixRectangular out(r, c); out.setFlagCheckAddress(true);
      out.prodMatMatInPlace(x, y, false, false);
      AMatrix* q = MatrixFactory::prodMatMat(x, y, false, false);
      bool rep = q == nullptr; delete q; delete x; delete y; (void)m; return rep;
    });
    S.nontrivial(Hash().s("dimerr").i(s).u(A.hash()).h);
  }
}
// NOT REGISTERED as a part any more (integrator decision): wrong-size arguments have no mathematically defined result, so
// "not executed out of bounds" is outside the statement of C11 (over-demand). Kept as a plain function for reference.
[[maybe_unused]] static void dimension_errors_unregistered(vf::Ctx& C)
{
  std::vector<Ref> all = {fromList(2, 3, {1, 2, 3, 4, 5, 6}), fromList(3, 2, {1, 2, 3, 4, 5, 6}), fromList(2, 2, {2, 1, 1, 3}), fromList(1, 3, {1, 2, 3}), fromList(3, 1, {1, 2, 3}), fromList(3, 3, {2, -1, 0, -1, 2, -1, 0, -1, 2})};
  runCases(C, all.size() * NST, [&](Sink& S, uint64_t id) { dimErrorOps(S, all[id / NST], (int)(id % NST)); });
}
VF_PART(threads)
{
  int nshapes = C.thorough() ? 6 : 3;
  runCases(C, nshapes, [&](Sink& S, uint64_t id) { threadOps(S, (int)id, C.thorough()); });
}
// run the harness itself again with ASan's default alloc_dealloc_mismatch=1: creating one cs matrix must not abort
VF_PART(cs_delete_mismatch)
{
  if (!owns_part(C)) return;
  C.ps().space += 1;
  ChildEnd r = forkRun([&](int wfd) {
    (void)wfd;
    setenv("ASAN_OPTIONS", "alloc_dealloc_mismatch=1:detect_leaks=0:abort_on_error=1:handle_abort=0", 1);
    execl("/proc/self/exe", g_argv0 ? g_argv0 : "c11", "--cs-delete-probe", (char*)nullptr);
    return 93;
  }, 60.);
  C.eval();
  C.nontrivial(1); C.nontrivial(2);
  bool done = r.data.find("CS-PROBE-DONE 2") != std::string::npos;
  bool mism = r.data.find("alloc-dealloc-mismatch") != std::string::npos;
  C.outcome(done ? "probe-completed" : mism ? "asan:alloc-dealloc-mismatch" : "probe-died-otherwise");
  if (!done)
    C.violation(mism ? "sparse-cs:resetFromTriplet:delete-of-malloc" : "sparse-cs:create:died",
                "creating a 2x2 cs-backed MatrixSparse from a triplet under ASan default options ends with: " + (mism ? asanSummary(r.data) : r.data.substr(0, 300)) +
                " (MatrixSparse::resetFromTriplet releases the malloc'ed cs structure with operator delete; every other part of this check runs with alloc_dealloc_mismatch=0)", "0");
}

int main(int argc, char** argv)
{
  if (argc >= 2 && std::string(argv[1]) == "--cs-delete-probe") return csDeleteProbe();
  g_argv0 = argv[0];
  return run_main(argc, argv, [](Ctx&) { silence(); });
}
