// C13 — simulations are reproducible from their seed and honour their conditioning.
//
//   bounded_draws  (E4) law_gaussian_between_bounds(a,b) from EVERY state of the default generator x a menu of bounds
//                  that selects every branch of the algorithm: value inside [a,b], finite, and the exact number of
//                  uniforms consumed (discrete log of the state) below a horizon (= the rejection loop terminates).
//                  The fixed point 0 is entered in a child process with a timeout.
//   simtub_cond    (E1) conditional turning bands: targets (grid / point Db) x data sets x models x neighbourhoods x
//                  nbsimu x seeds x nvar: at every target coinciding with a datum the simulated value of EVERY rank
//                  equals the datum; the run repeated in the same process is bit-identical; ranks differ; a different
//                  (non-congruent) seed gives a different result.
//   simtub_hetero  (E1) conditional multivariate turning bands, EVERY heterotopy pattern of the data (each (sample, variable) defined or
//                  not) x nvar 2-3 x model without / with nugget x grid / point targets x unique / moving x nbsimu: every defined value is
//                  reproduced at the coinciding target for every rank.
//   repro          (E1+E3) every simulator (simtub NC/cond, simbayes, simfft, gibbs_sampler, simpgs NC/cond, simulateSPDE NC/cond,
//                  simuSpectral, Cholesky draw z = L u) x seed menu
//                  (incl. the collision inputs around the modulus) x nbsimu: run twice + once in a fresh child:
//                  bit-identical; non-congruent seeds differ; ranks differ; the degenerate seed 20000159 is only
//                  required to be reproducible and not to crash / hang.
//   history        (E2, depth 3) for every turning-bands structure type (single / nested) and every other simulator as subject A and
//                  a menu of intervening simulations X: A alone in a fresh process == (X; A) in a fresh process == A; X; A here.
//   gibbs_bounds   (E1) gibbs_sampler on every assignment of a bounds menu to 4 samples x models x flags x nvar x
//                  nbsimu x seeds: every Gaussian value lies within its [lower, upper].
//   pgs_facies     (E1) conditional simpgs for every facies vector on 4 data x rules x nbsimu x seeds x target kind:
//                  simulated facies at targets coinciding with data = observed facies, for every rank.
#include "vf/gst.hpp"
#include "vf/lcg.hpp"

#include "geoslib_f.h"
#include "LithoRule/Rule.hpp"
#include "LithoRule/RuleProp.hpp"
#include "Model/Model.hpp"
#include "Neigh/NeighMoving.hpp"
#include "Neigh/NeighUnique.hpp"
#include "Simulation/CalcSimuFFT.hpp"
#include "Simulation/CalcSimuTurningBands.hpp"
#include "Simulation/SimuFFTParam.hpp"
#include "Simulation/SimuSpectral.hpp"
#include "API/SPDE.hpp"
#include "Mesh/MeshETurbo.hpp"
#include "LinearOp/MatrixSquareSymmetricSim.hpp"
#include "Matrix/MatrixSquareSymmetric.hpp"
#include "Space/ASpaceObject.hpp"

using namespace vf;
static const int M = LCG_M;
static std::string f6(double v) { char b[48]; snprintf(b, 48, "%.9g", v); return b; }
static std::string bstr(double v) { return FFFF(v) ? std::string("NA") : f6(v); }

// =========================================================================================================
// bounded_draws
struct Bnd { double a, b; bool quick; };
static std::vector<Bnd> bounds_menu()
{
  const double T = TEST;
  return {
    // quick: one entry per branch / combination of branches of the algorithm
    {T, T, true}, {T, -1., true}, {0.5, T, true}, {-0.5, 0.5, true}, {4., 5., true}, {-8., -7., true}, {1., 1.000001, true}, {-3., 3., true},
    {2., 2., true}, {T, -25., true}, {25., T, true},
    // thorough: boundaries of the four sub-intervals (-2, 0, 2), tiny and far intervals, one-sided tails
    {-2.5, -2., false}, {-2., 0., false}, {0., 2., false}, {2., 2.5, false}, {1.999999, 2.000001, false}, {-2.000001, -1.999999, false},
    {-1e-6, 1e-6, false}, {0., 0., false}, {-2., -2., false}, {7., 7.000001, false}, {-7.000001, -7., false}, {-6., T, false}, {T, 6., false},
    {19., T, false}, {T, -19., false}, {10., 11., false}, {-13., -12., false}, {35., 36., false}, {-41., -40., false}, {3., T, false}, {T, -3., false},
    {-0.1, T, false}, {T, 0.1, false}, {0.3, 0.300001, false}, {-1.5, 2.5, false}, {-2.5, 1.5, false}, {-20., 20., false}, {T, -20.5, false}, {20.5, T, false},
  };
}
static bool beyond_large(const Bnd& B) { return (FFFF(B.a) && !FFFF(B.b) && B.b < -20.) || (FFFF(B.b) && !FFFF(B.a) && B.a > 20.); }
static std::string bkey(const Bnd& B) { return beyond_large(B) ? "bounds:one-sided-beyond-20" : "bounds:gaussian-between-bounds"; }
static const uint32_t DRAW_HORIZON = 30000;  // 10^4 rejection rounds of 3 uniforms

VF_PART(bounded_draws)
{
  std::vector<Bnd> B = bounds_menu();
  (void)lcg_dlog();
  auto judge = [&](int ib, int s, bool verbose) {
    law_set_random_seed(s);
    double x = law_gaussian_between_bounds(B[ib].a, B[ib].b);
    int s1 = law_get_random_seed();
    bool in = std::isfinite(x) && (FFFF(B[ib].a) || x >= B[ib].a) && (FFFF(B[ib].b) || x <= B[ib].b);
    if (verbose) fprintf(stderr, "law_gaussian_between_bounds(%s,%s) from state %d -> %.17g (state after %d)\n", bstr(B[ib].a).c_str(), bstr(B[ib].b).c_str(), s, x, s1);
    if (!in)
      C.violation(bkey(B[ib]), "law_gaussian_between_bounds(" + bstr(B[ib].a) + ", " + bstr(B[ib].b) + ") from generator state " + std::to_string(s) + " returned " + fmt(x) + ", outside its bounds", std::to_string(ib) + ":" + std::to_string(s));
    uint32_t nd = (s1 > 0 && s1 < M) ? lcg_ndraws(s, s1) : 0xffffffffu;
    if (nd > DRAW_HORIZON)
      C.violation("bounds:livelock", "law_gaussian_between_bounds(" + bstr(B[ib].a) + ", " + bstr(B[ib].b) + ") from state " + std::to_string(s) + " consumed " + std::to_string(nd) + " uniforms (state after " + std::to_string(s1) + ")", std::to_string(ib) + ":" + std::to_string(s));
    return std::make_pair(in, nd);
  };
  if (!C.only_case.empty())
  {
    if (C.only_case.rfind("state0:", 0) == 0)
    {
      int ib = atoi(C.only_case.c_str() + 7);
      if (ib < 0 || ib >= (int)B.size()) return;
      Bnd b = B[ib];
      ChildResult r = run_child([&](int wfd) { law_set_random_seed(M); (void)law_uniform(); child_write(wfd, fmt(law_gaussian_between_bounds(b.a, b.b))); return 0; }, 5., 0);
      C.eval();
      fprintf(stderr, "law_gaussian_between_bounds(%s,%s) on the fixed point: %s -> %s\n", bstr(b.a).c_str(), bstr(b.b).c_str(), r.describe().c_str(), r.data.c_str());
      if (!r.clean() || r.code != 0) C.violation("bounds:fixed-point:" + r.describe(), "law_gaussian_between_bounds on the fixed point of the generator: " + r.describe(), C.only_case);
      return;
    }
    int ib = atoi(C.only_case.c_str());
    size_t p = C.only_case.find(':');
    if (ib < 0 || ib >= (int)B.size() || p == std::string::npos) return;
    judge(ib, atoi(C.only_case.c_str() + p + 1), true);
    C.eval();
    return;
  }
  int lo = 1 + (int)(((int64_t)(M - 1) * C.shard) / C.nshards), hi = (int)(((int64_t)(M - 1) * (C.shard + 1)) / C.nshards);
  for (int ib = 0; ib < (int)B.size(); ib++)
  {
    if (!C.thorough() && !B[ib].quick) continue;
    C.ps().space += (uint64_t)(M - 1);
    if (C.expired()) break;
    uint64_t nin = 0, nout = 0, ndraw = 0;
    uint32_t mx = 0;
    double xmin = 1e300, xmax = -1e300;
    for (int s = lo; s <= hi; s++)
    {
      C.cur_case = std::to_string(ib) + ":" + std::to_string(s);
      if ((s & 0xfffff) == 0 && C.expired()) break;
      auto r = judge(ib, s, false);
      if (r.first) nin++; else nout++;
      ndraw += r.second;
      mx = std::max(mx, r.second);
      if ((s & 1023) == 0 && r.second >= 3) C.nontrivial(Hash().u(ib).u(s).h);
    }
    C.eval(nin + nout);
    C.ps().transitions += ndraw;
    C.ps().traces += nin + nout;
    std::string nm = "(" + bstr(B[ib].a) + "," + bstr(B[ib].b) + ")";
    C.outcome(nm + ":inside", nin);
    C.outcome(nm + ":outside", nout);
    C.outcome(std::string("max-uniforms-per-call<=") + (mx <= 1 ? "1" : mx <= 3 ? "3" : mx <= 30 ? "30" : mx <= 300 ? "300" : mx <= 30000 ? "30000" : "more"));
    if (C.shard == 0) C.sample("{\"bounds\":[" + jstr(bstr(B[ib].a)) + "," + jstr(bstr(B[ib].b)) + "],\"states\":" + std::to_string(nin + nout) + ",\"inside\":" + std::to_string(nin) + ",\"max_uniforms\":" + std::to_string(mx) + "}");
  }
  if (C.shard == 0) C.ps().states += (uint64_t)M;
  // the fixed point 0 (reached through a seed = 0 mod M): must terminate inside the bounds as well
  if (C.shard == 0)
    for (int ib = 0; ib < (int)B.size(); ib++)
    {
      if (!C.thorough() && !B[ib].quick) continue;
      Bnd b = B[ib];
      ChildResult r = run_child([&](int wfd) {
        law_set_random_seed(M);
        (void)law_uniform();
        double x = law_gaussian_between_bounds(b.a, b.b);
        child_write(wfd, fmt(x));
        return 0;
      }, 5., 0);
      C.eval();
      std::string nm = "(" + bstr(b.a) + "," + bstr(b.b) + ")";
      if (!r.clean() || r.code != 0) { C.outcome("state0:" + r.describe()); C.violation("bounds:fixed-point:" + r.describe(), "law_gaussian_between_bounds" + nm + " on the fixed point of the generator: " + r.describe(), "state0:" + std::to_string(ib)); continue; }
      double x = atof(r.data.c_str());
      bool in = std::isfinite(x) && (FFFF(b.a) || x >= b.a) && (FFFF(b.b) || x <= b.b);
      // On the fixed point every uniform is exactly 0 (impossible on a live state); DESIGN C13 requires the degenerate
      // seeds only not to crash / hang, so a value outside the bounds is recorded, not judged (measured: (-0.1,NA) gives
      // log(exp(-0.1)) = -0.10000000000000006, one ulp below the bound).
      C.outcome(in ? "state0:terminates,inside" : std::isfinite(x) ? "state0:terminates,outside(not judged)" : "state0:terminates,non-finite");
      if (!std::isfinite(x)) C.violation("bounds:fixed-point:non-finite", "law_gaussian_between_bounds" + nm + " on the fixed point 0 returned " + r.data, "state0:" + std::to_string(ib));
    }
}

// =========================================================================================================
// common helpers for the E1 parts

// ---------------------------------------------------------------------------------------------------------
// A PRISTINE process.  fork() alone is not enough: the child inherits every function-local static / file static the
// parent's earlier cases left behind (measured: a stale `coeff` of _power1DInit made "fresh child" runs agree with a
// history-dependent parent).  run_pristine() forks and EXECs this very binary with "--pristine <what...> --fd <n>":
// the new image has executed no library code at all; it computes the requested result, writes it to the pipe and exits.
static std::string g_exe;
static ChildResult run_pristine(const std::vector<std::string>& what, double timeout_s = 30.)
{
  return run_child([&](int wfd) {
    std::vector<std::string> a{g_exe, "--pristine"};
    for (auto& w : what) a.push_back(w);
    a.push_back("--fd");
    a.push_back(std::to_string(wfd));
    std::vector<char*> av;
    for (auto& x : a) av.push_back((char*)x.c_str());
    av.push_back(nullptr);
    execv(g_exe.c_str(), av.data());
    return 93;  // exec failed
  }, timeout_s, 0);
}
static std::vector<std::vector<double>> result_cols(Db* db, int ncol0)
{
  std::vector<std::vector<double>> R;
  for (int ic = ncol0; ic < db->getColumnNumber(); ic++)
  {
    std::vector<double> v(db->getSampleNumber());
    for (int i = 0; i < db->getSampleNumber(); i++) v[i] = db->getValueByColIdx(i, ic);
    R.push_back(v);
  }
  return R;
}
static std::string bits(const std::vector<std::vector<double>>& R)
{
  std::string s;
  for (auto& c : R) { s.append((const char*)c.data(), c.size() * 8); s += '|'; }
  return s;
}
static bool same_bits(const std::vector<double>& a, const std::vector<double>& b) { return a.size() == b.size() && memcmp(a.data(), b.data(), a.size() * 8) == 0; }
// two seeds are equivalent for the 24-bit generator when the first draw leaves it in the same state
// (either as the original code computes it, 32-bit wrap of 105*seed, or after the seed has been reduced modulo M as the
// repaired law_set_random_seed does: both readings are accepted, the property never requires congruent seeds to differ)
static bool seeds_equivalent(int s1, int s2) { return lcg_next_seed32(s1) == lcg_next_seed32(s2) || (s1 % M) == (s2 % M); }
static bool seed_degenerate(int s) { return lcg_next_seed32(s) == 0 || (s % M) == 0; }

// fr / fs multiply every range / sill: "the same model but for its scale (resp. sill)" for the history part
static Model* model_menu(int im, int nvar, double fr = 1., double fs = 1.)
{
  Model* m = nullptr;
  auto S = [&](std::initializer_list<double> v) { VectorDouble r; for (double x : v) r.push_back(x * fs); return r; };
  if (nvar == 1)
  {
    switch (im)
    {
      case 0: m = Model::createFromParam(ECov::SPHERICAL, 3. * fr, 1. * fs); break;
      case 1: m = Model::createFromParam(ECov::EXPONENTIAL, 2. * fr, 2. * fs); m->addCovFromParam(ECov::NUGGET, 0., 0.25 * fs); break;
      case 2: m = Model::createFromParam(ECov::CUBIC, 4. * fr, 0.5 * fs); m->setMeans({2.}); break;
      case 3: m = Model::createFromParam(ECov::GAUSSIAN, 1.5 * fr, 1. * fs); m->addCovFromParam(ECov::SPHERICAL, 5. * fr, 0.5 * fs); break;
      case 4: m = Model::createFromParam(ECov::MATERN, 3. * fr, 1. * fs, 1.5); break;   // spectral 1-D process
      case 5: m = Model::createFromParam(ECov::MATERN, 3. * fr, 1.5 * fs, 0.3); break;  // migration 1-D process
      case 6: m = Model::createFromParam(ECov::STABLE, 3. * fr, 1. * fs, 1.5); break;
      default: m = Model::createFromParam(ECov::STABLE, 2. * fr, 0.75 * fs, 0.7); m->addCovFromParam(ECov::SINCARD, 4. * fr, 0.25 * fs); break;
    }
  }
  else
  {
    switch (im)
    {
      case 0: m = Model::createFromParam(ECov::SPHERICAL, 3. * fr, 1., 1., VectorDouble(), S({2., 1., 1., 1.5})); break;
      case 1: m = Model::createFromParam(ECov::EXPONENTIAL, 2. * fr, 1., 1., VectorDouble(), S({1., -0.5, -0.5, 2.})); m->addCovFromParam(ECov::NUGGET, 0., 1., 1., VectorDouble(), S({0.25, 0., 0., 0.5})); break;
      case 2: m = Model::createFromParam(ECov::CUBIC, 4. * fr, 1., 1., VectorDouble(), S({0.5, 0.25, 0.25, 1.})); m->setMeans({2., -1.}); break;
      case 3: m = Model::createFromParam(ECov::SPHERICAL, 5. * fr, 1., 1., VectorDouble(), S({1., 0.5, 0.5, 1.})); m->addCovFromParam(ECov::EXPONENTIAL, 1.5 * fr, 1., 1., VectorDouble(), S({0.5, -0.25, -0.25, 0.75})); break;
      case 4: m = Model::createFromParam(ECov::MATERN, 3. * fr, 1., 1.5, VectorDouble(), S({1., 0.5, 0.5, 1.})); break;
      case 5: m = Model::createFromParam(ECov::MATERN, 3. * fr, 1., 0.3, VectorDouble(), S({1.5, -0.5, -0.5, 1.})); break;
      case 6: m = Model::createFromParam(ECov::STABLE, 3. * fr, 1., 1.5, VectorDouble(), S({1., 0.25, 0.25, 0.5})); break;
      default: m = Model::createFromParam(ECov::STABLE, 2. * fr, 1., 0.7, VectorDouble(), S({0.75, 0.25, 0.25, 1.})); m->addCovFromParam(ECov::SINCARD, 4. * fr, 1., 1., VectorDouble(), S({0.25, 0., 0., 0.25})); break;
    }
  }
  return m;
}

// data sets on / off the nodes of the 4x4 unit grid (coordinates are small integers or halves)
struct DataSet { std::vector<double> x, y, z1, z2; };
static DataSet data_menu(int id)
{
  switch (id)
  {
    case 0: return {{1}, {1}, {1.5}, {-0.25}};
    case 1: return {{0, 2, 1, 0.5}, {0, 1, 2, 1.5}, {1.5, -0.5, 0.25, 2.}, {0.5, 0.75, -1.25, 3.}};
    default: return {{3, 0, 2, 1.5, 1, 3}, {3, 2, 0, 2.5, 1, 0}, {-1., 0.5, 2.25, 0.125, -0.75, 1.}, {2., -0.5, 0.25, 1.5, 0.75, -2.}};
  }
}
// point targets: every node position used by a data set appears, in an order that never puts datum k at target k,
// plus non coinciding points; more targets than data
static void point_targets(std::vector<double>& x, std::vector<double>& y)
{
  x = {0.25, 1, 0, 1.5, 2, 3, 1, 3, 0, 2, 2.75};
  y = {0.25, 2, 0, 0.5, 1, 3, 1, 0, 2, 0, 1.25};
}

// =========================================================================================================
VF_PART(simtub_cond)
{
  defineDefaultSpace(ESpaceType::RN, 2);
  Space sp;
  sp.axis("target", 2).axis("data", 3).axis("model", 8).axis("neigh", 2).axis("nbsimu", 3).axis("seed", 3).axis("nvar", 2).axis("nbtuba", 2);
  const int seeds[3] = {12345, 1, 20000158};
  for_each_case(C, sp, [&](uint64_t id, const std::vector<int>& ix) {
    bool pt = ix[0] == 1;
    if (!C.thorough() && (ix[5] >= 2 || ix[7] >= 1)) return;  // quick: 2 seeds, nbtuba 10
    int nvar = ix[6] + 1, nbsimu = ix[4] + 1, seed = seeds[ix[5]], nbtuba = ix[7] == 0 ? 10 : 1;
    DataSet D = data_menu(ix[1]);
    int nd = (int)D.x.size();
    Model* model = model_menu(ix[2], nvar);
    ANeigh* neigh = ix[3] == 0 ? (ANeigh*)NeighUnique::create() : (ANeigh*)NeighMoving::create(false, 3, 10.);
    auto mkin = [&]() { return nvar == 1 ? make_db_xz({D.x, D.y}, {D.z1}) : make_db_xz({D.x, D.y}, {D.z1, D.z2}); };
    std::vector<double> tx, ty;
    auto mkout = [&]() -> Db* {
      if (!pt) return DbGrid::create({4, 4});
      point_targets(tx, ty);
      return make_db({tx, ty}, {"x1", "x2"}, {"x1", "x2"});
    };
    auto run = [&](int sd, std::vector<std::vector<double>>& R, std::vector<double>& ox, std::vector<double>& oy) {
      Db* din = mkin();
      Db* dout = mkout();
      int nc0 = dout->getColumnNumber();
      int err = simtub(din, dout, model, neigh, nbsimu, sd, nbtuba);
      R = result_cols(dout, nc0);
      ox.clear(); oy.clear();
      for (int i = 0; i < dout->getSampleNumber(); i++) { ox.push_back(dout->getCoordinate(i, 0)); oy.push_back(dout->getCoordinate(i, 1)); }
      delete din; delete dout;
      return err;
    };
    std::vector<std::vector<double>> R1, R2, R3;
    std::vector<double> ox, oy;
    int e1 = run(seed, R1, ox, oy);
    C.eval();
    std::string kase = std::to_string(id);
    std::string desc = std::string(pt ? "point" : "grid") + " targets, data set " + std::to_string(ix[1]) + " (" + std::to_string(nd) + " data), model " + std::to_string(ix[2]) + ", " + (ix[3] ? "moving" : "unique") +
                       " neighbourhood, nvar=" + std::to_string(nvar) + ", nbsimu=" + std::to_string(nbsimu) + ", nbtuba=" + std::to_string(nbtuba) + ", seed=" + std::to_string(seed);
    if (e1 != 0 || (int)R1.size() != nvar * nbsimu)
    {
      C.outcome("simtub-error");
      C.violation("simtub:cond:error", "conditional simtub failed (err=" + std::to_string(e1) + ", " + std::to_string(R1.size()) + " result columns): " + desc, kase);
      delete model; delete neigh;
      return;
    }
    // (c) data honoured at coinciding targets, every rank, every variable.  Column order: variable-major, rank fastest? -> use names
    // simtub stores column (ivar, isimu) at index isimu + nbsimu*ivar (Db::getSimRank)
    int ncoin = 0, nbad = 0;
    double scale = 1.;
    for (double v : D.z1) scale = std::max(scale, std::fabs(v));
    for (double v : D.z2) scale = std::max(scale, std::fabs(v));
    std::string firstbad;
    for (size_t t = 0; t < ox.size(); t++)
      for (int k = 0; k < nd; k++)
      {
        if (ox[t] != D.x[k] || oy[t] != D.y[k]) continue;
        ncoin++;
        for (int iv = 0; iv < nvar; iv++)
          for (int is = 0; is < nbsimu; is++)
          {
            double z = iv == 0 ? D.z1[k] : D.z2[k];
            double v = R1[is + nbsimu * iv][t];
            if (!(std::fabs(v - z) <= 1e-8 * scale))
            {
              nbad++;
              if (firstbad.empty()) firstbad = "target " + std::to_string(t) + " at (" + f6(ox[t]) + "," + f6(oy[t]) + ") coincides with datum " + std::to_string(k) + " (z" + std::to_string(iv + 1) + "=" + f6(z) + ") but simulation rank " + std::to_string(is + 1) + " gives " + fmt(v);
            }
          }
      }
    if (ncoin > 0) C.nontrivial(id);
    C.outcome(std::string(pt ? "point" : "grid") + (nbad ? ":datum-not-honoured" : ":data-honoured"));
    if (nbad) C.violation(pt ? "simtub:cond:point-target" : "simtub:cond:grid-target", desc + ": " + firstbad + " (" + std::to_string(nbad) + " mismatches)", kase);
    // (a) same inputs + seed again: bit-identical
    int e2 = run(seed, R2, ox, oy);
    if (e2 != e1 || bits(R1) != bits(R2)) { C.outcome("not-reproducible"); C.violation("simtub:cond:not-reproducible", desc + ": second run with the same seed differs", kase); }
    else C.outcome("reproducible");
    // (b) ranks differ
    bool pointDefectMasks = pt;  // with the point-target defect every target k < ndata is overwritten identically for all ranks
    for (int iv = 0; iv < nvar; iv++)
      for (int i = 0; i < nbsimu; i++)
        for (int j = i + 1; j < nbsimu; j++)
          if (same_bits(R1[i + nbsimu * iv], R1[j + nbsimu * iv]))
          {
            C.outcome("ranks-identical");
            C.violation(pointDefectMasks ? "simtub:cond:point-target" : "simtub:cond:ranks-identical", desc + ": simulation ranks " + std::to_string(i + 1) + " and " + std::to_string(j + 1) + " of variable " + std::to_string(iv + 1) + " are identical", kase);
          }
    // (b) another, non-congruent seed differs
    int seed2 = seed == 12345 ? 54321 : seed + 7;
    if (!seeds_equivalent(seed, seed2) && !seed_degenerate(seed2))
    {
      int e3 = run(seed2, R3, ox, oy);
      bool alleq = e3 == 0 && R3.size() == R1.size();
      if (alleq) for (size_t c = 0; c < R1.size(); c++) if (!same_bits(R1[c], R3[c])) alleq = false;
      C.outcome(alleq ? "other-seed-identical" : "other-seed-differs");
      if (alleq) C.violation("simtub:cond:seeds-identical", desc + ": seed " + std::to_string(seed2) + " gives the same columns", kase);
    }
    if (id % 997 == 0) C.sample("{\"id\":" + kase + ",\"axes\":" + sp.describe(ix) + ",\"coinciding_targets\":" + std::to_string(ncoin) + ",\"mismatches\":" + std::to_string(nbad) + "}");
    delete model; delete neigh;
  });
}

// =========================================================================================================
// simtub_hetero (E1): conditional MULTIVARIATE turning bands with heterotopic data.  Every heterotopy pattern is enumerated:
// for n = 3 (quick: also n = 4 with 2 variables; thorough: n = 4 with 3 variables) samples and nvar in {2,3}, each
// (sample, variable) value is independently defined or undefined (2^(n*nvar) patterns), crossed with models without / with a
// nugget component on every variable (with a nugget the conditioning kriging alone does not return the datum: the nugget
// part of the non-conditional field exists on the target only, so the final copy of the data onto coinciding targets in
// _updateData2ToTarget is what honours them), data exactly on targets (grid nodes / point targets), unique / moving
// neighbourhood, nbsimu 1-2.  Oracle (property statement): every DEFINED (sample, variable) value is reproduced at the
// coinciding target for every rank; an undefined one imposes nothing.
VF_PART(simtub_hetero)
{
  defineDefaultSpace(ESpaceType::RN, 2);
  // sample positions: all on nodes of the 4x4 grid and in the point-target list
  const double sx[4] = {0., 2., 1., 3.}, sy[4] = {0., 1., 2., 3.};
  const double val[3][4] = {{1.5, -0.5, 0.25, 2.}, {0.5, 0.75, -1.25, 3.}, {-2., 1.25, 0.125, -0.75}};
  struct Blk { int n, nvar; bool quick; };
  const Blk blocks[4] = {{3, 2, true}, {3, 3, true}, {4, 2, true}, {4, 3, false}};
  for (int ib = 0; ib < 4; ib++)
  {
    const Blk B = blocks[ib];
    if (!C.thorough() && !B.quick) continue;
    Space sp;
    sp.axis("pattern", 1 << (B.n * B.nvar)).axis("nugget", 2).axis("target", 2).axis("neigh", 2).axis("nbsimu", 2);
    // case string = "<block>:<id>" ; for_each_case uses plain ids, so blocks are enumerated with an offset
    uint64_t off = (uint64_t)ib << 32;
    uint64_t nsp = sp.size();
    C.ps().space += nsp;
    auto one = [&](uint64_t id, const std::vector<int>& ix) {
      int n = B.n, nvar = B.nvar, pat = ix[0], nbsimu = ix[4] + 1;
      bool nug = ix[1] == 1, pt = ix[2] == 1;
      std::string kase = std::to_string(off + id);
      // model: LMC spherical (+ nugget on every variable)
      Model* m;
      if (nvar == 2)
      {
        m = Model::createFromParam(ECov::SPHERICAL, 3., 1., 1., VectorDouble(), {2., 1., 1., 1.5});
        if (nug) m->addCovFromParam(ECov::NUGGET, 0., 1., 1., VectorDouble(), {0.5, 0.125, 0.125, 0.25});
      }
      else
      {
        m = Model::createFromParam(ECov::SPHERICAL, 3., 1., 1., VectorDouble(), {2., 1., 0.5, 1., 1.5, -0.25, 0.5, -0.25, 1.});
        if (nug) m->addCovFromParam(ECov::NUGGET, 0., 1., 1., VectorDouble(), {0.5, 0.125, 0., 0.125, 0.25, 0.0625, 0., 0.0625, 0.375});
      }
      std::vector<double> x(sx, sx + n), y(sy, sy + n);
      std::vector<std::vector<double>> z(nvar, std::vector<double>(n));
      int ndef = 0, nundefEarlier = 0;
      for (int v = 0; v < nvar; v++)
        for (int k = 0; k < n; k++)
        {
          bool undef = (pat >> (v * n + k)) & 1;
          z[v][k] = undef ? TEST : val[v][k];
          if (!undef) ndef++;
        }
      // pattern exercising the mechanism: an earlier variable undefined where a later one is defined
      for (int k = 0; k < n; k++) for (int v = 1; v < nvar; v++) if (!FFFF(z[v][k])) for (int u = 0; u < v; u++) if (FFFF(z[u][k])) nundefEarlier++;
      Db* din = make_db_xz({x, y}, z);
      Db* dout;
      std::vector<double> tx, ty;
      if (!pt) dout = DbGrid::create({4, 4});
      else { point_targets(tx, ty); dout = make_db({tx, ty}, {"x1", "x2"}, {"x1", "x2"}); }
      ANeigh* neigh = ix[3] == 0 ? (ANeigh*)NeighUnique::create() : (ANeigh*)NeighMoving::create(false, 3, 10.);
      int nc0 = dout->getColumnNumber();
      int err = simtub(din, dout, m, neigh, nbsimu, 12345, 6);
      C.eval();
      std::vector<std::vector<double>> R = result_cols(dout, nc0);
      std::vector<double> ox, oy;
      for (int i = 0; i < dout->getSampleNumber(); i++) { ox.push_back(dout->getCoordinate(i, 0)); oy.push_back(dout->getCoordinate(i, 1)); }
      delete din; delete dout; delete m; delete neigh;
      std::string pats;
      for (int v = 0; v < nvar; v++) { pats += (v ? "|" : ""); for (int k = 0; k < n; k++) pats += FFFF(z[v][k]) ? "-" : "x"; }
      std::string desc = std::string(pt ? "point" : "grid") + " targets, nvar=" + std::to_string(nvar) + ", " + std::to_string(n) + " samples on targets, defined(x)/undefined(-) per variable " + pats + ", model " +
                         (nug ? "spherical LMC + nugget" : "spherical LMC") + ", " + (ix[3] ? "moving" : "unique") + " neighbourhood, nbsimu=" + std::to_string(nbsimu) + ", nbtuba=6, seed=12345";
      if (ndef == 0)
      {
        // no datum at all: the library may refuse or run unconditionally; nothing to honour
        C.skip(); C.outcome("no-defined-value");
        return;
      }
      if (err != 0 || (int)R.size() != nvar * nbsimu)
      {
        C.outcome(std::string("simtub-error:") + (nug ? "nugget" : "no-nugget"));
        C.violation("simtub:hetero:error", desc + ": conditional simtub failed (err=" + std::to_string(err) + ", " + std::to_string(R.size()) + " columns)", kase);
        return;
      }
      int nbad = 0;
      std::string first;
      for (size_t t = 0; t < ox.size(); t++)
        for (int k = 0; k < n; k++)
        {
          if (ox[t] != x[k] || oy[t] != y[k]) continue;
          for (int v = 0; v < nvar; v++)
          {
            if (FFFF(z[v][k])) continue;  // an undefined value imposes nothing
            for (int is = 0; is < nbsimu; is++)
            {
              double got = R[is + nbsimu * v][t];
              if (!(std::fabs(got - z[v][k]) <= 1e-8 * 3.))
              {
                nbad++;
                if (first.empty()) first = "sample " + std::to_string(k) + " at (" + f6(x[k]) + "," + f6(y[k]) + ") has z" + std::to_string(v + 1) + " = " + f6(z[v][k]) + " but the coinciding target " + std::to_string(t) + " holds " + fmt(got) + " in simulation " + std::to_string(is + 1);
              }
            }
          }
        }
      if (nundefEarlier > 0 && nug) C.nontrivial(off + id);
      C.outcome(std::string(nug ? "nugget" : "no-nugget") + (nundefEarlier ? ":earlier-variable-undefined" : ":other-pattern") + (nbad ? ":datum-NOT-honoured" : ":data-honoured"));
      if (nbad) C.violation(std::string("simtub:hetero:") + (pt ? "point-target" : "grid-target"), desc + ": " + first + " (" + std::to_string(nbad) + " mismatches)", kase);
      if (id % 4099 == 0) C.sample("{\"case\":" + kase + ",\"pattern\":" + jstr(pats) + ",\"nugget\":" + (nug ? "true" : "false") + ",\"target\":" + jstr(pt ? "points" : "grid") + ",\"mismatches\":" + std::to_string(nbad) + "}");
    };
    if (!C.only_case.empty())
    {
      uint64_t full = strtoull(C.only_case.c_str(), nullptr, 10);
      if ((full >> 32) != (uint64_t)ib) continue;
      uint64_t id = full & 0xffffffffULL;
      if (id < nsp) { C.cur_case = C.only_case; one(id, sp.decode(id)); }
      continue;
    }
    for (uint64_t id = (uint64_t)C.shard; id < nsp; id += (uint64_t)C.nshards)
    {
      if ((id & 63) < (uint64_t)C.nshards && C.expired()) break;
      C.cur_case = std::to_string(off + id);
      one(id, sp.decode(id));
    }
  }
}

// =========================================================================================================
// repro : every simulator, seed menu, run twice + fresh child
// (new simulators are appended so that the case ids of the first nine stay what they were)
enum SimKind { SIM_TUB_NC_GRID, SIM_TUB_NC_PTS, SIM_TUB_COND, SIM_FFT, SIM_GIBBS, SIM_GIBBS_MM, SIM_PGS_NC, SIM_PGS_COND, SIM_BAYES, SIM_SPDE_NC, SIM_SPDE_COND, SIM_SPECTRAL, SIM_CHOL, NSIM };
static const char* simname[NSIM] = {"simtub-nc-grid", "simtub-nc-points", "simtub-cond", "simfft", "gibbs", "gibbs-multimono", "simpgs-nc", "simpgs-cond", "simbayes", "spde-nc", "spde-cond", "spectral", "cholesky"};
// largest |simulated - datum| over the grid nodes coinciding with a datum, last conditional SPDE run (recorded, not judged:
// SPDE kriging gives every datum the variance max(nugget, epsNugget * sill) = 1 % of the sill, so it is not exact by construction)
static double g_spde_cond_dev = -1.;

// returns error code; R = all columns added to the output Db
// variant: 0 = reference inputs; 1 = every range x 1.75; 2 = every sill x 2.5; 3 = other auxiliary inputs (PGS: other
// proportions and rule; Gibbs: other bounds; Cholesky: other matrix); used by the history part as intervening activity
static int run_sim(int kind, int seed, int nbsimu, std::vector<std::vector<double>>& R, int variant = 0)
{
  const double fr = variant == 1 ? 1.75 : 1., fs = variant == 2 ? 2.5 : 1.;
  defineDefaultSpace(ESpaceType::RN, 2);
  int err = -99;
  R.clear();
  switch (kind)
  {
    case SIM_TUB_NC_GRID:
    {
      Model* m = model_menu(1, 1, fr, fs);
      DbGrid* g = DbGrid::create({4, 3});
      int n0 = g->getColumnNumber();
      err = simtub(nullptr, g, m, nullptr, nbsimu, seed, 10);
      R = result_cols(g, n0);
      delete g; delete m;
      break;
    }
    case SIM_TUB_NC_PTS:
    {
      Model* m = model_menu(3, 2, fr, fs);
      std::vector<double> tx, ty;
      point_targets(tx, ty);
      Db* d = make_db({tx, ty}, {"x1", "x2"}, {"x1", "x2"});
      int n0 = d->getColumnNumber();
      err = simtub(nullptr, d, m, nullptr, nbsimu, seed, 10);
      R = result_cols(d, n0);
      delete d; delete m;
      break;
    }
    case SIM_TUB_COND:
    case SIM_BAYES:
    {
      Model* m = model_menu(0, 1, fr, fs);
      if (kind == SIM_BAYES) m->setDriftIRF(0);
      DataSet D = data_menu(2);
      Db* din = make_db_xz({D.x, D.y}, {D.z1});
      DbGrid* g = DbGrid::create({4, 4});
      NeighUnique* nu = NeighUnique::create();
      int n0 = g->getColumnNumber();
      if (kind == SIM_TUB_COND) err = simtub(din, g, m, nu, nbsimu, seed, 10);
      else
      {
        MatrixSquareSymmetric dcov(1);
        dcov.setValue(0, 0, 0.5);
        err = simbayes(din, g, m, nu, nbsimu, seed, {1.}, dcov, 10);
      }
      R = result_cols(g, n0);
      delete din; delete g; delete m; delete nu;
      break;
    }
    case SIM_FFT:
    {
      Model* m = model_menu(0, 1, fr, fs);
      DbGrid* g = DbGrid::create({8, 8});
      SimuFFTParam param(true, 0.1);
      int n0 = g->getColumnNumber();
      err = simfft(g, m, param, nbsimu, seed, false);
      R = result_cols(g, n0);
      delete g; delete m;
      break;
    }
    case SIM_GIBBS:
    case SIM_GIBBS_MM:
    {
      Model* m = Model::createFromParam(ECov::EXPONENTIAL, 4. * fr, 1. * fs);
      double sh = variant == 3 ? 0.25 : 0.;
      Db* db = make_db({{0, 1, 2, 0, 1, 2}, {0, 0, 0, 1, 1, 1}, {-0.5 + sh, TEST, 1., 4., -8, TEST}, {0.5 + sh, 0.2, TEST, 5., -7 + sh, TEST}}, {"x1", "x2", "lo", "up"}, {"x1", "x2", "lower1", "upper1"});
      int n0 = db->getColumnNumber();
      err = gibbs_sampler(db, m, nbsimu, seed, 5, 20, false, false, kind == SIM_GIBBS_MM, false, true, 0, 5., false, false, false);
      R = result_cols(db, n0);
      delete db; delete m;
      break;
    }
    case SIM_SPDE_NC:
    case SIM_SPDE_COND:
    {
      // simulateSPDE has no seed argument: the realisation is a function of the generator state at the call, so
      // "same inputs and seed" = law_set_random_seed(seed) right before the call (as tests/cpp/test_SPDEAPI.cpp does)
      Model* m = Model::createFromParam(ECov::MATERN, 2. * fr, 1.5 * fs, 1.);
      DbGrid* g = DbGrid::create({3, 3});
      MeshETurbo* mesh = MeshETurbo::create({7, 7}, {1., 1.}, {-2., -2.});
      DataSet D = data_menu(1);  // data at (0,0), (2,1), (1,2) on nodes and (0.5,1.5) off node
      Db* din = kind == SIM_SPDE_COND ? make_db_xz({D.x, D.y}, {D.z1}) : nullptr;
      int n0 = g->getColumnNumber();
      law_set_random_seed(seed);
      int rc = simulateSPDE(din, g, m, nullptr, nbsimu, mesh, 1);
      R = result_cols(g, n0);
      // simulateSPDE is documented to return an error code but returns SPDE::compute()'s value = UID of the first
      // created column on success (3 here) and 1 on failure; success is therefore decided on the created columns
      (void)rc;
      err = ((int)R.size() == nbsimu) ? 0 : 1;
      if (din != nullptr && err == 0)
      {
        double dev = 0.;
        for (int i = 0; i < g->getSampleNumber(); i++)
          for (size_t k = 0; k < D.x.size(); k++)
            if (g->getCoordinate(i, 0) == D.x[k] && g->getCoordinate(i, 1) == D.y[k])
              for (auto& c : R) dev = std::max(dev, std::fabs(c[i] - D.z1[k]));
        g_spde_cond_dev = dev;
      }
      delete din; delete g; delete m; delete mesh;
      break;
    }
    case SIM_SPECTRAL:
    {
      Model* m = Model::createFromParam(ECov::EXPONENTIAL, 2. * fr, 1.5 * fs);
      std::vector<double> tx, ty;
      point_targets(tx, ty);
      Db* d = make_db({tx, ty}, {"x1", "x2"}, {"x1", "x2"});
      int n0 = d->getColumnNumber();
      err = simuSpectral(nullptr, d, m, nbsimu, seed, 20);
      R = result_cols(d, n0);
      delete d; delete m;
      break;
    }
    case SIM_CHOL:
    {
      // z = L u with u = VH::simulateGaussian after law_set_random_seed(seed); nbsimu successive draws = ranks
      const int n = 4;
      const double B[16] = {1., 0., 0., 0., 0.5, 1.25, 0., 0., 0.25, -0.5, 1., 0., -0.125, 0.75, 0.5, 0.75};
      MatrixSquareSymmetric M(n);
      for (int i = 0; i < n; i++) for (int j = 0; j < n; j++) { double v = 0; for (int k = 0; k < n; k++) v += B[i * n + k] * B[j * n + k]; M.setValue(i, j, v * fs + (variant == 3 && i == j ? 0.5 : 0.)); }
      MatrixSquareSymmetricSim S(&M, false);
      err = S.isEmpty() ? 1 : 0;
      law_set_random_seed(seed);
      for (int is = 0; is < nbsimu && err == 0; is++)
      {
        VectorDouble u = VH::simulateGaussian(n), z;
        err = S.evalSimulate(u, z);
        R.push_back(std::vector<double>(z.begin(), z.end()));
      }
      break;
    }
    case SIM_PGS_NC:
    case SIM_PGS_COND:
    {
      Model* m1 = Model::createFromParam(ECov::EXPONENTIAL, 4. * fr, 1. * fs);
      Model* m2 = Model::createFromParam(ECov::SPHERICAL, 3. * fr, 1. * fs);
      Rule* rule = variant == 3 ? Rule::createFromNames({"S", "F1", "T", "F2", "F3"}) : Rule::createFromNames({"S", "T", "F1", "F2", "F3"});
      RuleProp* rp = variant == 3 ? RuleProp::createFromRule(rule, {0.5, 0.2, 0.3}) : RuleProp::createFromRule(rule, {0.2, 0.5, 0.3});
      NeighUnique* nu = NeighUnique::create();
      Db* din = kind == SIM_PGS_COND ? make_db_xz({{0, 2, 1, 3}, {0, 1, 2, 3}}, {{1, 2, 3, 2}}) : nullptr;
      DbGrid* g = DbGrid::create({4, 4});
      int n0 = g->getColumnNumber();
      err = simpgs(din, g, rp, m1, m2, nu, nbsimu, seed, false, false, false, false, 10, 5, 20);
      R = result_cols(g, n0);
      delete din; delete g; delete m1; delete m2; delete nu; delete rp; delete rule;
      break;
    }
  }
  return err;
}
static std::string ser(int err, const std::vector<std::vector<double>>& R) { return std::to_string(err) + "#" + std::to_string(R.size()) + "#" + bits(R); }

VF_PART(repro)
{
  const int seeds[] = {1, 2, 12345, 20000158, 20000160, 2147483647, 20000159};
  const int NSEED = 7;
  Space sp;
  sp.axis("sim", NSIM).axis("seed", NSEED).axis("nbsimu", 3);
  for_each_case(C, sp, [&](uint64_t id, const std::vector<int>& ix) {
    int kind = ix[0], seed = seeds[ix[1]], nbsimu = ix[2] + 1;
    std::string kase = std::to_string(id);
    std::string desc = std::string(simname[kind]) + " seed=" + std::to_string(seed) + " nbsimu=" + std::to_string(nbsimu);
    bool degenerate = seed_degenerate(seed);
    // fresh child first (also protects this process against a hang / crash on the degenerate seed)
    std::vector<std::string> req{"repro", std::to_string(kind), std::to_string(seed), std::to_string(nbsimu)};
    ChildResult cr = run_pristine(req);
    C.eval();
    if (!cr.clean() || cr.code != 0)
    {
      C.outcome(std::string(degenerate ? "degenerate-seed:" : "") + cr.describe());
      // all turning-bands based simulators share one mechanism (CalcSimuTurningBands fed with infinite Gaussians)
      bool tb = kind == SIM_TUB_NC_GRID || kind == SIM_TUB_NC_PTS || kind == SIM_TUB_COND || kind == SIM_PGS_NC || kind == SIM_PGS_COND || kind == SIM_BAYES;
      std::string who = (degenerate && tb) ? "turning-bands" : simname[kind];
      C.violation(std::string(degenerate ? "fixed-point-seed:" : "repro:") + who + ":" + (cr.kind == ChildResult::TIMEOUT ? "hang" : "crash"), desc + " in a fresh process: " + cr.describe(), kase);
      return;
    }
    if (degenerate)
    {
      // only required to be reproducible and not to crash: second fresh child
      ChildResult c2 = run_pristine(req);
      bool same = c2.clean() && c2.data == cr.data;
      C.outcome(same ? "degenerate-seed:reproducible" : "degenerate-seed:not-reproducible");
      if (!same) C.violation(std::string("fixed-point-seed:") + simname[kind] + ":not-reproducible", desc + ": two fresh processes disagree", kase);
      return;
    }
    std::vector<std::vector<double>> R1, R2;
    // disturb the generator before each in-process run: the simulator must reseed by itself
    law_set_random_seed(777 + (int)id);
    (void)law_gaussian();
    int e1 = run_sim(kind, seed, nbsimu, R1);
    law_set_random_seed(4242);
    int e2 = run_sim(kind, seed, nbsimu, R2);
    std::string s1 = ser(e1, R1), s2 = ser(e2, R2);
    if (e1 != 0 || R1.empty())
    {
      C.outcome(std::string(simname[kind]) + ":error");
      C.violation(std::string("repro:") + simname[kind] + ":error", desc + " failed (err=" + std::to_string(e1) + ")", kase);
      return;
    }
    C.nontrivial(id);
    if (kind == SIM_SPDE_COND && g_spde_cond_dev >= 0.)
      C.outcome(std::string("spde-cond:max|sim-datum| at coinciding nodes ") + (g_spde_cond_dev <= 1e-8 ? "<=1e-8" : g_spde_cond_dev <= 1e-2 ? "<=1e-2" : g_spde_cond_dev <= 0.1 ? "<=0.1" : ">0.1") + " (not judged: epsNugget)");
    bool ok = true;
    if (s1 != s2) { ok = false; C.violation(std::string("repro:") + simname[kind] + ":same-process", desc + ": two runs in the same process (generator disturbed in between) differ", kase); }
    if (s1 != cr.data) { ok = false; C.violation(std::string("repro:") + simname[kind] + ":fresh-process", desc + ": the run in a fresh process differs from the run in this process", kase); }
    C.outcome(ok ? "bit-identical(2 runs + fresh child)" : "NOT-reproducible");
    // non-finite output for a live seed
    for (auto& c : R1) for (double v : c) if (!std::isfinite(v)) { C.violation(std::string("repro:") + simname[kind] + ":non-finite", desc + ": non-finite simulated value", kase); goto nf_done; }
  nf_done:
    // ranks differ (continuous simulators; facies columns of two ranks may coincide by chance only on tiny supports -> judged on the 16-node grid too)
    {
      int nvarcols = (int)R1.size() / nbsimu;
      for (int iv = 0; iv < nvarcols; iv++)
        for (int i = 0; i < nbsimu; i++)
          for (int j = i + 1; j < nbsimu; j++)
            if (same_bits(R1[i + nbsimu * iv], R1[j + nbsimu * iv]))
            {
              C.outcome("ranks-identical");
              C.violation(std::string("repro:") + simname[kind] + ":ranks-identical", desc + ": ranks " + std::to_string(i + 1) + " and " + std::to_string(j + 1) + " are identical", kase);
            }
    }
    // different seeds differ, congruent seeds may not
    for (int k = 0; k < ix[1]; k++)
    {
      int sd2 = seeds[k];
      if (seed_degenerate(sd2)) continue;
      std::vector<std::vector<double>> R3;
      int e3 = run_sim(kind, sd2, nbsimu, R3);
      bool same = ser(e3, R3) == s1;
      if (seeds_equivalent(seed, sd2)) { C.outcome(same ? "congruent-seeds:identical(expected, pigeonhole)" : "congruent-seeds:differ"); continue; }
      C.outcome(same ? "different-seeds:IDENTICAL" : "different-seeds:differ");
      if (same) C.violation(std::string("repro:") + simname[kind] + ":seeds-identical", desc + ": seed " + std::to_string(sd2) + " gives bit-identical results", kase);
    }
    if (id % 13 == 0) C.sample("{\"id\":" + kase + ",\"simulator\":" + jstr(simname[kind]) + ",\"seed\":" + std::to_string(seed) + ",\"nbsimu\":" + std::to_string(nbsimu) + ",\"columns\":" + std::to_string(R1.size()) + "}");
  });
}

// =========================================================================================================
// history : a simulation is a function of its inputs and seed, NOT of what the process simulated before.
// Hidden state left behind by an earlier call (function-local `static` caches in CalcSimuTurningBands::_power1DInit /
// _spline1DInit, file statics of src/Core/simtub.cpp such as ModCat / GIBBS_RHO, the generator) is flushed out by making the
// intervening activity an axis:  for every subject simulation A and every intervening simulation X of a menu
//       fresh process:  A           -> r0
//       fresh process:  X ; A       -> rX
//       this process :  A ; X ; A   -> r1, r2
// and r0 == rX == r1 == r2 bit for bit is required.  X differs from A by exactly one thing (only the range / scale, only the
// sill, only the third parameter, another structure type, another nbtuba, another support, a nested variant, nbsimu) or is
// another simulator.
//  Part A (tb_type x nested x intervener): turning bands with EVERY structure type CalcSimuTurningBands::_initializeSeedBands
//  accepts, single and nested behind a spherical structure (so that the first band of the structure is not band 0).
struct TbType { ECov type; double range, param, param2; const char* name; };
static std::vector<TbType> tb_types()
{
  return {
    {ECov::NUGGET, 0., 1., 1., "NUGGET"}, {ECov::EXPONENTIAL, 2., 1., 1., "EXPONENTIAL"}, {ECov::SPHERICAL, 2., 1., 1., "SPHERICAL"}, {ECov::CUBIC, 2., 1., 1., "CUBIC"},
    {ECov::GAUSSIAN, 2., 1., 1., "GAUSSIAN"}, {ECov::SINCARD, 2., 1., 1., "SINCARD"}, {ECov::BESSELJ, 2., 1., 2., "BESSELJ"},
    {ECov::MATERN, 2., 1.5, 2.5, "MATERN>0.5"}, {ECov::MATERN, 2., 0.3, 0.4, "MATERN<=0.5"}, {ECov::STABLE, 2., 1.5, 1.25, "STABLE>1"}, {ECov::STABLE, 2., 0.7, 0.5, "STABLE<=1"},
    {ECov::POWER, 2., 1.5, 0.75, "POWER"}, {ECov::SPLINE_GC, 2., 1., 1., "SPLINE_GC"}, {ECov::LINEAR, 2., 1., 1., "LINEAR"},
    {ECov::ORDER1_GC, 2., 1., 1., "ORDER1_GC"}, {ECov::ORDER3_GC, 2., 1., 1., "ORDER3_GC"}, {ECov::ORDER5_GC, 2., 1., 1., "ORDER5_GC"},
  };
}
static Model* tb_model(const TbType& T, bool nested, double fr, double fs, bool otherParam)
{
  double p = otherParam ? T.param2 : T.param;
  Model* m;
  if (!nested) m = Model::createFromParam(T.type, T.range * fr, 1. * fs, p);
  else
  {
    m = Model::createFromParam(ECov::SPHERICAL, 3., 0.5);
    if (m != nullptr) m->addCovFromParam(T.type, T.range * fr, 1. * fs, p);
  }
  return m;
}
// one turning-bands run described by (type, nested, fr, fs, otherParam, nbtuba, grid support, nbsimu)
struct TbRun { int it; bool nested; double fr, fs; bool op; int nbtuba; bool grid; int nbsimu; };
static std::string tb_exec(const TbRun& r)
{
  defineDefaultSpace(ESpaceType::RN, 2);
  std::vector<TbType> TT = tb_types();
  Model* m = tb_model(TT[r.it], r.nested, r.fr, r.fs, r.op);
  if (m == nullptr) return "no-model";
  Db* d;
  if (r.grid) d = DbGrid::create({3, 3});
  else { std::vector<double> tx, ty; point_targets(tx, ty); d = make_db({tx, ty}, {"x1", "x2"}, {"x1", "x2"}); }
  int n0 = d->getColumnNumber();
  int err = simtub(nullptr, d, m, nullptr, r.nbsimu, 12345, r.nbtuba);
  std::vector<std::vector<double>> R = result_cols(d, n0);
  delete d; delete m;
  return std::to_string(err) + "#" + std::to_string(R.size()) + "#" + bits(R);
}
static const char* tb_xname[] = {"same type, range x1.75", "same type, sill x2.5", "same type, other third parameter", "other structure type", "same model, nbtuba 7",
                                 "same model, other support (grid <-> points)", "nested<->single, range x1.75", "same type range x1.75, nbsimu 2", "simfft", "gibbs_sampler", "conditional simpgs (other rule)"};
static const int TB_NX = 11;

struct HistCase { bool valid = false, skip = false; std::function<std::string()> runA, runX; std::string descA, descX, key; };
static HistCase hist_case(const std::vector<int>& ix)
{
  HistCase H;
  std::vector<TbType> TT = tb_types();
  int NT = (int)TT.size();
  if (ix[0] == 0)
  {
    // ---- block 0: turning bands, every structure type
    int it = ix[1] % NT;
    bool nested = ix[1] >= NT;
    TbRun A{it, nested, 1., 1., false, 5, ix[3] == 1, 1};  // subject on 11 points or on a 3x3 grid (_simulatePoint / _simulateGrid)
    TbRun X = A;
    switch (ix[2])
    {
      case 0: X.fr = 1.75; break;
      case 1: X.fs = 2.5; break;
      case 2: X.op = true; if (TT[it].param2 == TT[it].param) H.skip = true; break;
      case 3: X.it = (TT[it].type == ECov::SPHERICAL) ? 1 : 2; break;
      case 4: X.nbtuba = 7; break;
      case 5: X.grid = !A.grid; break;
      case 6: X.nested = !nested; X.fr = 1.75; break;
      case 7: X.fr = 1.75; X.nbsimu = 2; break;
      default: break;
    }
    H.runA = [A] { return tb_exec(A); };
    if (ix[2] <= 7) H.runX = [X] { return tb_exec(X); };
    else
    {
      int k = ix[2] == 8 ? SIM_FFT : ix[2] == 9 ? SIM_GIBBS : SIM_PGS_COND;
      H.runX = [k] { std::vector<std::vector<double>> R; int e = run_sim(k, 777, 2, R, 3); return ser(e, R); };
    }
    H.descA = std::string("simtub NC, ") + (nested ? "SPHERICAL + " : "") + TT[it].name + " (range 2), " + (A.grid ? "3x3 grid" : "11 points") + ", nbtuba 5, seed 12345";
    H.descX = tb_xname[ix[2]];
    H.key = std::string("history:simtub:") + TT[it].name + (nested ? ":nested" : "");  // nested: the first band of the structure is not band 0
    H.valid = true;
  }
  else
  {
    // ---- block 1: every simulator of the repro part as subject; interveners = the same simulator with another
    // range / sill / auxiliary inputs, and three other simulators
    if (ix[1] >= NSIM || ix[2] >= 6 || ix[3] != 0) return H;
    int kind = ix[1];
    int xvar = ix[2] < 3 ? ix[2] + 1 : 0;
    int xkind = ix[2] < 3 ? kind : ix[2] == 3 ? SIM_TUB_NC_PTS : ix[2] == 4 ? SIM_PGS_COND : SIM_GIBBS_MM;
    if (ix[2] >= 3 && xkind == kind) xkind = SIM_FFT;
    H.runA = [kind] { std::vector<std::vector<double>> R; int e = run_sim(kind, 12345, 2, R, 0); return ser(e, R); };
    H.runX = [xkind, xvar] { std::vector<std::vector<double>> R; int e = run_sim(xkind, 4321, 2, R, xvar); return ser(e, R); };
    H.descA = std::string(simname[kind]) + " seed=12345 nbsimu=2";
    H.descX = std::string(simname[xkind]) + (xvar == 1 ? " with ranges x1.75" : xvar == 2 ? " with sills x2.5" : xvar == 3 ? " with other auxiliary inputs" : "");
    H.key = std::string("history:") + simname[kind];
    H.valid = true;
  }
  return H;
}
static Space hist_space()
{
  Space sp;
  sp.axis("block", 2).axis("subject", 2 * (int)tb_types().size()).axis("intervener", TB_NX).axis("subject-support", 2);
  return sp;
}

VF_PART(history)
{
  Space sp = hist_space();
  for_each_case(C, sp, [&](uint64_t id, const std::vector<int>& ix) {
    std::string kase = std::to_string(id);
    HistCase H = hist_case(ix);
    if (!H.valid) return;
    if (H.skip) { C.skip(); C.outcome("skip:type-has-no-third-parameter"); return; }
    const std::string &descA = H.descA, &descX = H.descX, &key = H.key;
    // pristine process: A alone
    ChildResult c0 = run_pristine({"history", kase, "0"});
    C.eval();
    if (!c0.clean() || c0.code != 0)
    {
      C.outcome("subject-crashes:" + c0.describe());
      C.violation(key + ":crash", descA + " in a pristine process: " + c0.describe(), kase);
      return;
    }
    std::string r0 = c0.data;
    // pristine process: X ; A
    ChildResult cX = run_pristine({"history", kase, "1"});
    if (r0 == "no-model" || r0.rfind("0#", 0) != 0 || r0.rfind("0#0#", 0) == 0)
    {
      // the library refuses this subject (model not constructible / simulator returns an error): nothing to compare,
      // but the refusal itself must not depend on the history either
      C.outcome("subject-refused-by-the-library");
      if (cX.clean() && cX.data != r0) C.violation(key, descA + ": refused when run alone but not after [" + descX + "] (or conversely)", kase);
      C.skip();
      return;
    }
    if (!cX.clean() || cX.code != 0)
    {
      C.outcome("sequence-crashes:" + cX.describe());
      C.violation(key + ":crash", "[" + descX + "] then [" + descA + "] in a pristine process: " + cX.describe(), kase);
      return;
    }
    std::string r1 = H.runA();
    (void)H.runX();
    std::string r2 = H.runA();
    C.nontrivial(id);
    bool ok = true;
    if (cX.data != r0) { ok = false; C.violation(key, descA + ": the result after [" + descX + "] (both in one pristine process) differs from the result of the same call alone in a pristine process", kase); }
    if (r2 != r1) { ok = false; C.violation(key, descA + ": the second run differs from the first one when [" + descX + "] is executed in between", kase); }
    if (r1 != r0) { ok = false; C.violation(key, descA + ": the result in this process (which has run other simulations before) differs from the result in a pristine process", kase); }
    C.outcome(ok ? "history-independent" : "HISTORY-DEPENDENT");
    if (id % 97 == 0) C.sample("{\"id\":" + kase + ",\"subject\":" + jstr(descA) + ",\"intervening\":" + jstr(descX) + ",\"identical\":" + (ok ? "true" : "false") + "}");
  });
}

// =========================================================================================================
// gibbs_bounds
// Gibbs iteration schedules (nburn, niter).  The sweeps are iter = 0..niter-1 and the bounds are relaxed ("decay") while
// iter < nburn, exact from iter == nburn on: the final values are drawn inside the true intervals iff niter >= nburn + 1.
// The menu has the schedule used so far, exactly ONE sweep after the burn-in (niter == nburn + 1) for several nburn, no
// burn-in at all, and the library defaults; niter == nburn (the run never leaves the burn-in, accepted silently by the
// library) is enumerated but not judged: the property cannot hold for a schedule that never applies the true bounds.
struct Sched { int nburn, niter; };
static const Sched gsched[8] = {{5, 15}, {4, 5}, {10, 11}, {1, 2}, {0, 1}, {0, 3}, {10, 100}, {3, 3}};
static const int NSCHED = 8;
static bool sched_never_exact(const Sched& s) { return s.niter <= s.nburn; }

struct GB { double lo, up; };
static const GB gbmenu[6] = {{TEST, TEST}, {TEST, -0.5}, {0.75, TEST}, {-0.25, 0.25}, {2.5, 3.5}, {1., 1.0001}};

VF_PART(gibbs_bounds)
{
  defineDefaultSpace(ESpaceType::RN, 2);
  Space sp;
  sp.axis("b0", 6).axis("b1", 6).axis("b2", 6).axis("b3", 6).axis("model", 2).axis("flags", 4).axis("nvar", 2).axis("nbsimu", 2).axis("seed", 2).axis("schedule", NSCHED);
  const int seeds[2] = {4321, 20000158};
  for_each_case(C, sp, [&](uint64_t id, const std::vector<int>& ix) {
    if (!C.thorough() && (ix[3] >= 3 || ix[8] >= 1)) return;
    // quick: the other schedules on half of the bounds menu of the third sample; the long default schedule on a quarter
    if (!C.thorough() && ix[9] > 0 && (ix[2] % 2 == 1 || (gsched[ix[9]].niter >= 100 && ix[1] % 2 == 1))) return;
    const Sched SC = gsched[ix[9]];
    int nvar = ix[6] + 1, nbsimu = ix[7] + 1, seed = seeds[ix[8]];
    bool moving = ix[5] & 1, mm = ix[5] & 2;
    if (mm && nvar > 1) { C.skip(); return; }  // multi-mono is a monovariate (multi-GRF) sampler
    Model* m = nvar == 1 ? (ix[4] == 0 ? Model::createFromParam(ECov::EXPONENTIAL, 4., 1.) : Model::createFromParam(ECov::SPHERICAL, 2., 1.))
                         : (ix[4] == 0 ? Model::createFromParam(ECov::EXPONENTIAL, 4., 1., 1., VectorDouble(), {1., 0.5, 0.5, 1.}) : Model::createFromParam(ECov::SPHERICAL, 2., 1., 1., VectorDouble(), {1., -0.4, -0.4, 1.}));
    std::vector<double> x{0, 1, 0, 1.5, 2.5}, y{0, 0, 1, 1.5, 0.5};
    std::vector<double> lo1(5), up1(5), lo2(5), up2(5);
    for (int i = 0; i < 5; i++)
    {
      int b = i < 4 ? ix[i] : 0;
      lo1[i] = gbmenu[b].lo; up1[i] = gbmenu[b].up;
      int b2 = i < 4 ? ix[3 - i] : 3;  // second variable: the same menu in reverse order
      lo2[i] = gbmenu[b2].lo; up2[i] = gbmenu[b2].up;
    }
    Db* db = nvar == 1 ? make_db({x, y, lo1, up1}, {"x1", "x2", "lo1", "up1"}, {"x1", "x2", "lower1", "upper1"})
                       : make_db({x, y, lo1, lo2, up1, up2}, {"x1", "x2", "lo1", "lo2", "up1", "up2"}, {"x1", "x2", "lower1", "lower2", "upper1", "upper2"});
    int n0 = db->getColumnNumber();
    int err = gibbs_sampler(db, m, nbsimu, seed, SC.nburn, SC.niter, moving, false, mm, false, true, 0, 5., false, false, false);
    C.eval();
    std::string kase = std::to_string(id);
    std::string desc = "gibbs_sampler nburn=" + std::to_string(SC.nburn) + " niter=" + std::to_string(SC.niter) + " nvar=" + std::to_string(nvar) + " nbsimu=" + std::to_string(nbsimu) + " moving=" + std::to_string(moving) + " multi_mono=" + std::to_string(mm) + " model " + std::to_string(ix[4]) + " seed=" + std::to_string(seed) +
                       " bounds menu indices [" + std::to_string(ix[0]) + "," + std::to_string(ix[1]) + "," + std::to_string(ix[2]) + "," + std::to_string(ix[3]) + "]";
    std::vector<std::vector<double>> R = result_cols(db, n0);
    std::vector<std::string> names;
    for (int ic = n0; ic < db->getColumnNumber(); ic++) names.push_back(db->getNameByColIdx(ic));
    delete db; delete m;
    if (err != 0 || (int)R.size() != nvar * nbsimu)
    {
      C.outcome("gibbs-error");
      C.violation("gibbs:error", desc + ": err=" + std::to_string(err) + " columns=" + std::to_string(R.size()), kase);
      return;
    }
    bool bounded = false;
    for (int i = 0; i < 4; i++) if (ix[i] != 0) bounded = true;
    if (bounded) C.nontrivial(id);
    // column (ivar, isimu) at isimu + nbsimu*ivar (naming convention of gibbs_sampler: variable-major)
    int nbad = 0;
    std::string first;
    for (int iv = 0; iv < nvar; iv++)
      for (int is = 0; is < nbsimu; is++)
        for (int i = 0; i < 5; i++)
        {
          double v = R[is + nbsimu * iv][i];
          double lo = iv == 0 ? lo1[i] : lo2[i], up = iv == 0 ? up1[i] : up2[i];
          bool in = std::isfinite(v) && !FFFF(v) && (FFFF(lo) || v >= lo) && (FFFF(up) || v <= up);
          if (!in)
          {
            nbad++;
            if (first.empty()) first = "column " + names[is + nbsimu * iv] + " (variable " + std::to_string(iv + 1) + ", simulation " + std::to_string(is + 1) + ") sample " + std::to_string(i) + " = " + fmt(v) + " outside [" + bstr(lo) + "," + bstr(up) + "]";
          }
        }
    std::string sname = "(" + std::to_string(SC.nburn) + "," + std::to_string(SC.niter) + ")";
    if (sched_never_exact(SC))
    {
      C.skip();
      C.outcome("schedule" + sname + ":never-leaves-burn-in(not judged):" + (nbad ? "outside-bounds" : "within-bounds"));
      return;
    }
    C.outcome("schedule" + sname + (nbad ? ":outside-bounds" : ":all-within-bounds"));
    // nburn == 0 is its own mechanism (the relaxation ratio iter/nburn is 0/0 in the only sweep that applies it)
    if (nbad) C.violation(SC.nburn == 0 ? "gibbs:bounds:nburn=0" : (nvar >= 2 && nbsimu >= 2) ? "gibbs:bounds:nvar>=2:nbsimu>=2" : "gibbs:bounds", desc + ": " + first + " (" + std::to_string(nbad) + " values)", kase);
    if (id % 2003 == 0) C.sample("{\"id\":" + kase + ",\"axes\":" + sp.describe(ix) + ",\"values_outside\":" + std::to_string(nbad) + "}");
  });
}

// =========================================================================================================
// pgs_facies
VF_PART(pgs_facies)
{
  defineDefaultSpace(ESpaceType::RN, 2);
  Space sp;
  sp.axis("f0", 3).axis("f1", 3).axis("f2", 3).axis("f3", 3).axis("rule", 3).axis("nbsimu", 3).axis("seed", 2).axis("target", 2).axis("schedule", NSCHED);
  const int seeds[2] = {777, 20000158};
  for_each_case(C, sp, [&](uint64_t id, const std::vector<int>& ix) {
    if (!C.thorough() && ix[6] >= 1) return;
    if (!C.thorough() && ix[8] > 0 && (ix[3] != 1 || (gsched[ix[8]].niter >= 100 && ix[2] != 0))) return;  // quick: other schedules on a third (a ninth) of the facies vectors
    const Sched SC = gsched[ix[8]];
    int nbsimu = ix[5] + 1, seed = seeds[ix[6]];
    bool pt = ix[7] == 1;
    Model* m1 = Model::createFromParam(ECov::EXPONENTIAL, 4., 1.);
    Model* m2 = Model::createFromParam(ECov::SPHERICAL, 3., 1.);
    Rule* rule = ix[4] == 0 ? Rule::createFromNames({"S", "S", "F1", "F2", "F3"}) : ix[4] == 1 ? Rule::createFromNames({"S", "T", "F1", "F2", "F3"}) : Rule::createFromNames({"S", "F1", "T", "F2", "F3"});
    int ngrf = rule->getGRFNumber();
    RuleProp* rp = RuleProp::createFromRule(rule, {0.2, 0.5, 0.3});
    NeighUnique* nu = NeighUnique::create();
    std::vector<double> dx{0, 2, 1, 3}, dy{0, 1, 2, 3}, fac(4);
    for (int k = 0; k < 4; k++) fac[k] = ix[k] + 1;
    Db* din = make_db_xz({dx, dy}, {fac});
    Db* out;
    std::vector<double> tx, ty;
    if (!pt) out = DbGrid::create({4, 4});
    else { point_targets(tx, ty); out = make_db({tx, ty}, {"x1", "x2"}, {"x1", "x2"}); }
    int n0 = out->getColumnNumber();
    int err = simpgs(din, out, rp, m1, m2, nu, nbsimu, seed, false, false, false, false, 10, ix[8] == 0 ? 5 : SC.nburn, ix[8] == 0 ? 20 : SC.niter);
    C.eval();
    std::vector<std::vector<double>> R = result_cols(out, n0);
    std::vector<double> ox, oy;
    for (int i = 0; i < out->getSampleNumber(); i++) { ox.push_back(out->getCoordinate(i, 0)); oy.push_back(out->getCoordinate(i, 1)); }
    delete din; delete out; delete m1; delete m2; delete nu; delete rp; delete rule;
    std::string kase = std::to_string(id);
    std::string desc = std::string("conditional simpgs, ") + (pt ? "point" : "grid") + " targets, rule " + std::to_string(ix[4]) + " (" + std::to_string(ngrf) + " GRF), nbsimu=" + std::to_string(nbsimu) + ", seed=" + std::to_string(seed) +
                       ", data facies [" + std::to_string((int)fac[0]) + "," + std::to_string((int)fac[1]) + "," + std::to_string((int)fac[2]) + "," + std::to_string((int)fac[3]) + "] at (0,0),(2,1),(1,2),(3,3)";
    if (err != 0 || (int)R.size() != nbsimu)
    {
      C.outcome("simpgs-error");
      C.violation("pgs:error", desc + ": err=" + std::to_string(err) + " columns=" + std::to_string(R.size()), kase);
      return;
    }
    C.nontrivial(id);
    int nbad = 0;
    std::string first;
    for (size_t t = 0; t < ox.size(); t++)
      for (int k = 0; k < 4; k++)
      {
        if (ox[t] != dx[k] || oy[t] != dy[k]) continue;
        for (int is = 0; is < nbsimu; is++)
          if (R[is][t] != fac[k])
          {
            nbad++;
            if (first.empty()) first = "target " + std::to_string(t) + " at (" + f6(ox[t]) + "," + f6(oy[t]) + "): simulation " + std::to_string(is + 1) + " has facies " + f6(R[is][t]) + ", the datum there has facies " + f6(fac[k]);
          }
      }
    // facies values must be valid everywhere
    for (auto& c : R) for (double v : c) if (!(v == 1 || v == 2 || v == 3)) { C.violation("pgs:invalid-facies", desc + ": simulated facies value " + fmt(v), kase); goto inv_done; }
  inv_done:
    int pnb = ix[8] == 0 ? 5 : SC.nburn, pni = ix[8] == 0 ? 20 : SC.niter;
    desc += ", gibbs_nburn=" + std::to_string(pnb) + ", gibbs_niter=" + std::to_string(pni);
    if (pni <= pnb)
    {
      C.skip();
      C.outcome(std::string("schedule(") + std::to_string(pnb) + "," + std::to_string(pni) + "):never-leaves-burn-in(not judged):" + (nbad ? "facies-not-honoured" : "facies-honoured"));
      return;
    }
    C.outcome(std::string(pt ? "point" : "grid") + ":ngrf=" + std::to_string(ngrf) + ":nbsimu=" + std::to_string(nbsimu) + (ix[8] ? ":other-schedule" : "") + (nbad ? ":facies-NOT-honoured" : ":facies-honoured"));
    if (nbad)
    {
      std::string key = pnb == 0 ? "pgs:facies-at-data:nburn=0" : pt ? "pgs:facies-at-data:point-target" : (ngrf >= 2 && nbsimu >= 2) ? "pgs:facies-at-data:ngrf>=2:nbsimu>=2" : "pgs:facies-at-data";
      C.violation(key, desc + ": " + first + " (" + std::to_string(nbad) + " mismatches)", kase);
    }
    if (id % 499 == 0) C.sample("{\"id\":" + kase + ",\"axes\":" + sp.describe(ix) + ",\"mismatches\":" + std::to_string(nbad) + "}");
  });
}

// "--pristine repro <kind> <seed> <nbsimu> --fd n" | "--pristine history <case id> <0: A | 1: X;A> --fd n"
static int pristine_main(int argc, char** argv)
{
  silence();
  std::vector<std::string> a(argv + 2, argv + argc);
  int fd = -1;
  if (a.size() >= 2 && a[a.size() - 2] == "--fd") { fd = atoi(a.back().c_str()); a.resize(a.size() - 2); }
  if (fd < 0 || a.empty()) return 92;
  std::string out;
  if (a[0] == "repro" && a.size() == 4)
  {
    std::vector<std::vector<double>> R;
    int err = run_sim(atoi(a[1].c_str()), atoi(a[2].c_str()), atoi(a[3].c_str()), R);
    out = ser(err, R);
  }
  else if (a[0] == "history" && a.size() == 3)
  {
    Space sp = hist_space();
    uint64_t id = strtoull(a[1].c_str(), nullptr, 10);
    if (id >= sp.size()) return 92;
    HistCase H = hist_case(sp.decode(id));
    if (!H.valid) return 92;
    if (a[2] == "1") (void)H.runX();
    out = H.runA();
  }
  else return 92;
  child_write(fd, out);
  return 0;
}

int main(int argc, char** argv)
{
  if (argc > 1 && std::string(argv[1]) == "--pristine") return pristine_main(argc, argv);
  char buf[4096];
  ssize_t n = readlink("/proc/self/exe", buf, sizeof buf - 1);
  g_exe = n > 0 ? std::string(buf, (size_t)n) : std::string(argv[0]);
  return run_main(argc, argv, [](Ctx&) { silence(); });
}
