// E3 helper — run one case in a forked child (fresh process = pristine library state; crash isolation).
// timeout_s is a limit on the child's CPU time (RLIMIT_CPU), so that a loaded machine cannot turn a slow child into a
// false "hang"; a generous wall-clock cap (20 x timeout + 60 s) still catches a child blocked without using CPU.
//   ChildResult r = run_child([&](int wfd){ ...; child_write(wfd, "text"); return 0; }, 5 /*s*/, 1024 /*MB*/);
// The child's stdout/stderr are sent to /dev/null unless keep_output; what it writes to wfd comes back in r.data.
#pragma once
#include "vf/common.hpp"
#include <fcntl.h>
#include <poll.h>
#include <sys/resource.h>
#include <sys/wait.h>

namespace vf
{
struct ChildResult
{
  enum Kind { EXITED, SIGNALED, TIMEOUT } kind = EXITED;
  int code = 0;  // exit status or signal number
  std::string data;
  std::string describe() const
  {
    if (kind == TIMEOUT) return "timeout";
    if (kind == SIGNALED) return std::string("signal:") + (code == SIGSEGV ? "SIGSEGV" : code == SIGABRT ? "SIGABRT" : code == SIGFPE ? "SIGFPE" : code == SIGBUS ? "SIGBUS" : code == SIGKILL ? "SIGKILL" : std::to_string(code));
    return "exit:" + std::to_string(code);
  }
  bool clean() const { return kind == EXITED; }
};

inline void child_write(int fd, const std::string& s)
{
  size_t off = 0;
  while (off < s.size()) { ssize_t n = ::write(fd, s.data() + off, s.size() - off); if (n <= 0) break; off += (size_t)n; }
}

template<class F> ChildResult run_child(F body, double timeout_s = 10., long mem_mb = 0, bool keep_output = false)
{
  int pfd[2];
  ChildResult r;
  if (pipe(pfd) != 0) { r.kind = ChildResult::SIGNALED; r.code = -1; return r; }
  fflush(stdout); fflush(stderr);
  pid_t pid = fork();
  if (pid == 0)
  {
    ::close(pfd[0]);
    signal(SIGSEGV, SIG_DFL); signal(SIGABRT, SIG_DFL); signal(SIGFPE, SIG_DFL); signal(SIGBUS, SIG_DFL);
    if (!keep_output) { int nul = ::open("/dev/null", O_WRONLY); if (nul >= 0) { dup2(nul, 1); dup2(nul, 2); } }
    if (mem_mb > 0) { struct rlimit rl; rl.rlim_cur = rl.rlim_max = (rlim_t)mem_mb << 20; setrlimit(RLIMIT_AS, &rl); }
    struct rlimit core {0, 0}; setrlimit(RLIMIT_CORE, &core);
    { struct rlimit cpu; cpu.rlim_cur = (rlim_t)std::ceil(timeout_s); if (cpu.rlim_cur < 1) cpu.rlim_cur = 1; cpu.rlim_max = cpu.rlim_cur + 1; setrlimit(RLIMIT_CPU, &cpu); }
    int rc = 97;
    try { rc = body(pfd[1]); }
    catch (const std::bad_alloc&) { rc = 96; }   // reported as exit:96 = uncaught bad_alloc (the harness decides what it means)
    catch (const std::exception&) { rc = 95; }   // uncaught C++ exception escaping the library
    catch (...) { rc = 94; }
    ::close(pfd[1]);
    _exit(rc);
  }
  ::close(pfd[1]);
  auto t0 = std::chrono::steady_clock::now();
  char buf[65536];
  bool timed_out = false;
  for (;;)
  {
    double left = (20. * timeout_s + 60.) - std::chrono::duration<double>(std::chrono::steady_clock::now() - t0).count();
    if (left <= 0) { timed_out = true; break; }
    struct pollfd p {pfd[0], POLLIN, 0};
    int pr = poll(&p, 1, (int)std::min(left * 1000. + 1, 1e6));
    if (pr < 0) { if (errno == EINTR) continue; break; }
    if (pr == 0) { timed_out = true; break; }
    ssize_t n = ::read(pfd[0], buf, sizeof buf);
    if (n <= 0) break;  // EOF: child closed the pipe (exited)
    if (r.data.size() < (64u << 20)) r.data.append(buf, (size_t)n);
  }
  ::close(pfd[0]);
  int st = 0;
  if (timed_out) { kill(pid, SIGKILL); waitpid(pid, &st, 0); r.kind = ChildResult::TIMEOUT; return r; }
  // EOF seen: the child is exiting; wait (bounded) for it
  for (int k = 0; k < 2000; k++)
  {
    pid_t w = waitpid(pid, &st, WNOHANG);
    if (w == pid) goto reaped;
    usleep(1000);
  }
  kill(pid, SIGKILL); waitpid(pid, &st, 0); r.kind = ChildResult::TIMEOUT; return r;
reaped:
  if (WIFSIGNALED(st) && (WTERMSIG(st) == SIGXCPU || (WTERMSIG(st) == SIGKILL && timeout_s > 0))) { r.kind = ChildResult::TIMEOUT; return r; }  // CPU limit reached
  if (WIFSIGNALED(st)) { r.kind = ChildResult::SIGNALED; r.code = WTERMSIG(st); }
  else { r.kind = ChildResult::EXITED; r.code = WEXITSTATUS(st); }
  return r;
}
}  // namespace vf
