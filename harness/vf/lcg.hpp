// E4 helpers (used by c13_simrepro.cpp and c14_simlaw.cpp): the default ("old style") generator of
// gstlearn as a finite machine, and a fork-based map/reduce over its complete seed space.
//
//   Law.cpp :  Random_value <- (unsigned)(105 * Random_value) % 20000159 ;  u = Random_value / 20000159.
// The functional graph on [0, M) is the fixed point 0 plus one cycle of length M-1 (re-verified on the real
// code by c14 part lcg_graph).  dlog[s] = position of state s on that cycle (walk started at 1), so the
// number of uniform draws consumed by any library call is dlog[after] - dlog[before] (mod M-1): this turns
// "the rejection loop terminates" into an exactly measured step count.
#pragma once
#include "vf/common.hpp"
#include "vf/fork.hpp"
#include "Basic/Law.hpp"

namespace vf
{
static const int LCG_M = 20000159;
static const int LCG_A = 105;
inline int lcg_next(int s) { return (int)(((uint64_t)LCG_A * (uint64_t)s) % (uint64_t)LCG_M); }  // reference model, s in [0,M)
// successor of an arbitrary positive seed as the C code computes it (32-bit wrap of 105*seed, then mod M)
inline int lcg_next_seed32(int seed) { return (int)((uint32_t)((uint32_t)LCG_A * (uint32_t)seed) % (uint32_t)LCG_M); }

inline std::vector<uint32_t>& lcg_dlog()
{
  static std::vector<uint32_t> d;
  if (d.empty())
  {
    d.assign(LCG_M, 0xffffffffu);
    uint64_t x = 1;
    for (uint32_t k = 0; k < (uint32_t)(LCG_M - 1); k++) { d[x] = k; x = x * LCG_A % LCG_M; }
  }
  return d;
}
// uniform draws consumed between two live states (0 <= n < M-1)
inline uint32_t lcg_ndraws(int before, int after)
{
  auto& d = lcg_dlog();
  int64_t n = (int64_t)d[after] - (int64_t)d[before];
  if (n < 0) n += LCG_M - 1;
  return (uint32_t)n;
}

// Run body(child, wfd) in n forked children concurrently; returns what each wrote (empty string + ok=false
// when a child died or timed out).  Used to spread one population sum over all seeds on all cores while
// keeping the reduction order (child 0..n-1) fixed => deterministic result.
struct ParResult { std::vector<std::string> data; std::vector<std::string> status; bool ok = true; };
template<class F> ParResult par_children(int n, F body, double timeout_s)
{
  ParResult R;
  R.data.assign(n, "");
  R.status.assign(n, "exit:0");
  std::vector<int> fds(n, -1);
  std::vector<pid_t> pids(n, -1);
  fflush(stdout); fflush(stderr);
  for (int c = 0; c < n; c++)
  {
    int pfd[2];
    if (pipe(pfd) != 0) { R.ok = false; R.status[c] = "pipe-failed"; continue; }
    pid_t pid = fork();
    if (pid == 0)
    {
      ::close(pfd[0]);
      for (int k = 0; k < c; k++) if (fds[k] >= 0) ::close(fds[k]);
      signal(SIGSEGV, SIG_DFL); signal(SIGABRT, SIG_DFL); signal(SIGFPE, SIG_DFL); signal(SIGBUS, SIG_DFL);
      int rc = 97;
      try { rc = body(c, pfd[1]); } catch (...) { rc = 94; }
      ::close(pfd[1]);
      _exit(rc);
    }
    ::close(pfd[1]);
    fds[c] = pfd[0];
    pids[c] = pid;
  }
  auto t0 = std::chrono::steady_clock::now();
  char buf[65536];
  for (int c = 0; c < n; c++)
  {
    if (fds[c] < 0) continue;
    bool timed_out = false;
    for (;;)
    {
      double left = timeout_s - std::chrono::duration<double>(std::chrono::steady_clock::now() - t0).count();
      if (left <= 0) { timed_out = true; break; }
      struct pollfd p {fds[c], POLLIN, 0};
      int pr = poll(&p, 1, (int)std::min(left * 1000. + 1, 1e6));
      if (pr < 0) { if (errno == EINTR) continue; break; }
      if (pr == 0) continue;  // poll slice elapsed (capped at 1000 s); the real deadline is tested at the top of the loop
      ssize_t k = read(fds[c], buf, sizeof buf);
      if (k <= 0) break;
      R.data[c].append(buf, (size_t)k);
    }
    ::close(fds[c]);
    int st = 0;
    if (timed_out) { kill(pids[c], SIGKILL); waitpid(pids[c], &st, 0); R.status[c] = "timeout"; R.ok = false; R.data[c].clear(); continue; }
    waitpid(pids[c], &st, 0);
    if (WIFSIGNALED(st)) { R.status[c] = "signal:" + std::to_string(WTERMSIG(st)); R.ok = false; R.data[c].clear(); }
    else if (WEXITSTATUS(st) != 0) { R.status[c] = "exit:" + std::to_string(WEXITSTATUS(st)); R.ok = false; }
  }
  return R;
}
}  // namespace vf
