// Small menus shared by the C04 / C05 harnesses: data layouts (dyadic coordinates, no ties), values,
// models (isotropic, rotated anisotropic, several structures with different frames, bivariate LMC).
#pragma once
#include "vf/gst.hpp"

#include "Covariances/CovCalcMode.hpp"
#include "Enum/ECov.hpp"
#include "Enum/ESpaceType.hpp"
#include "Model/Model.hpp"
#include "Space/ASpaceObject.hpp"

#include <memory>

namespace vfm
{
using namespace vf;
typedef std::vector<double> VD;
typedef std::vector<VD> VVD;

// ---- coordinates: NLAYOUT layouts per dimension, up to 6 points, all dyadic, all locations distinct
static const int NLAYOUT = 2;
inline VVD layout(int ndim, int ilay, int n)
{
  static const double L1[2][6][1] = {{{0}, {1}, {2.5}, {4}, {4.5}, {7}}, {{3}, {0.5}, {6}, {1.25}, {2}, {5.5}}};
  static const double L2[2][6][2] = {{{0, 0}, {2, 0.5}, {0.5, 2}, {3, 3}, {1.5, 1}, {4, 0.25}},
                                     {{0, 0}, {1, 0}, {2, 0}, {0, 1}, {1, 1}, {2, 1}}};  // regular lattice: many equal distances
  static const double L3[2][6][3] = {{{0, 0, 0}, {2, 0.5, 1}, {0.5, 2, 0.25}, {3, 3, 2}, {1.5, 1, 3}, {4, 0.25, 0.5}},
                                     {{0, 0, 0}, {1, 0, 0}, {0, 1, 0}, {0, 0, 1}, {1, 1, 1}, {2, 1, 0}}};
  VVD x(ndim, VD(n));
  for (int i = 0; i < n; i++)
    for (int d = 0; d < ndim; d++)
      x[d][i] = ndim == 1 ? L1[ilay][i][d] : ndim == 2 ? L2[ilay][i][d] : L3[ilay][i][d];
  return x;
}
// target points: off the data, one ON datum #1 (index 0), one far away
inline VVD targets(int ndim, int ilay, int nt)
{
  static const double T[5][3] = {{1.375, 0.8125, 0.4375}, {0, 0, 0}, {2.625, 1.9375, 1.3125}, {40, -24, 16}, {0.6875, 2.4375, 0.0625}};
  VVD x(ndim, VD(nt));
  VVD dat = layout(ndim, ilay, 1);
  for (int i = 0; i < nt; i++)
    for (int d = 0; d < ndim; d++) x[d][i] = (i == 1) ? dat[d][0] : T[i][d];
  return x;
}
inline VD values(int ivar, int n)
{
  static const double Z[3][6] = {{1, 3, -2, 0.5, 4, 2.25}, {0.5, -1, 2, 1.5, 0, 3}, {2, 2.5, -0.75, 1, 3.5, -1.5}};
  return VD(Z[ivar], Z[ivar] + n);
}
inline VD verr(int ivar, int n)
{
  static const double V[2][6] = {{0.25, 0.5, 0.125, 0, 1, 0.375}, {0.5, 0.25, 0, 0.75, 0.125, 1}};
  return VD(V[ivar], V[ivar] + n);
}

inline void set_ndim(int ndim) { defineDefaultSpace(ESpaceType::RN, ndim); }

// ---- models -------------------------------------------------------------------------------
inline VectorDouble rangesOf(int ndim, double r1, double r2, double r3)
{
  VectorDouble r = {r1, r2, r3};
  r.resize(ndim);
  return r;
}
inline VectorDouble anglesOf(int ndim, double a1, double a2, double a3)
{
  VectorDouble a = {a1, a2, a3};
  a.resize(ndim);
  if (ndim == 1) a[0] = 0;
  return a;
}
static const int NMODEL1 = 9;
static const char* MODEL1_NAME[NMODEL1] = {"nugget", "spherical", "exponential", "gauss+nugget", "cubic", "nug+sph-aniso-rot30", "sph-rot90+exp-rot30-aniso",
                                           "linear", "matern1.5-aniso-rot135+sph"};
// monovariate menu; model 7 is intrinsic (needs a drift for kriging)
inline Model* model1(int ndim, int im)
{
  set_ndim(ndim);
  Model* m = nullptr;
  switch (im)
  {
    case 0: m = Model::createFromParam(ECov::NUGGET, 1., 1.5); break;
    case 1: m = Model::createFromParam(ECov::SPHERICAL, 2.5, 1.); break;
    case 2: m = Model::createFromParam(ECov::EXPONENTIAL, 3., 2.); break;
    case 3: m = Model::createFromParam(ECov::GAUSSIAN, 2., 1.); m->addCovFromParam(ECov::NUGGET, 0., 0.25); break;
    case 4: m = Model::createFromParam(ECov::CUBIC, 4., 1.25); break;
    case 5:
      m = Model::createFromParam(ECov::NUGGET, 1., 0.5);
      m->addCovFromParam(ECov::SPHERICAL, 0., 1., 1., rangesOf(ndim, 4, 2, 1), VectorDouble(), anglesOf(ndim, 30, 0, 0));
      break;
    case 6:
      m = Model::createFromParam(ECov::SPHERICAL, 0., 1., 1., rangesOf(ndim, 5, 2.5, 1.25), VectorDouble(), anglesOf(ndim, 90, 0, 0));
      m->addCovFromParam(ECov::EXPONENTIAL, 0., 0.75, 1., rangesOf(ndim, 2, 6, 3), VectorDouble(), anglesOf(ndim, 30, 20, 10));
      break;
    case 7: m = Model::createFromParam(ECov::LINEAR, 1., 1.); break;
    case 8:
      m = Model::createFromParam(ECov::MATERN, 0., 1.5, 1.5, rangesOf(ndim, 3, 1.5, 6), VectorDouble(), anglesOf(ndim, 135, 0, 0));
      m->addCovFromParam(ECov::SPHERICAL, 2., 0.5);
      break;
  }
  return m;
}
static const int NMODEL2 = 4;
static const char* MODEL2_NAME[NMODEL2] = {"lmc-sph", "lmc-nug+sph-aniso-rot30", "lmc-exp-rot+gauss-aniso", "intrinsic-corr-cubic+nug"};
// bivariate LMC menu (PSD sill matrices)
inline Model* model2(int ndim, int im)
{
  set_ndim(ndim);
  Model* m = nullptr;
  switch (im)
  {
    case 0: m = Model::createFromParam(ECov::SPHERICAL, 3., 1., 1., VectorDouble(), {2, 1, 1, 1}); break;
    case 1:
      m = Model::createFromParam(ECov::NUGGET, 1., 1., 1., VectorDouble(), {0.5, 0, 0, 0.25});
      m->addCovFromParam(ECov::SPHERICAL, 0., 1., 1., rangesOf(ndim, 4, 2, 1), {2, -1, -1, 1.5}, anglesOf(ndim, 30, 0, 0));
      break;
    case 2:
      m = Model::createFromParam(ECov::EXPONENTIAL, 0., 1., 1., rangesOf(ndim, 2, 6, 3), {1, 0.5, 0.5, 2}, anglesOf(ndim, 30, 20, 10));
      m->addCovFromParam(ECov::GAUSSIAN, 0., 1., 1., rangesOf(ndim, 3, 1.5, 2), {1, 1, 1, 1}, anglesOf(ndim, 90, 0, 0));
      break;
    case 3:
      m = Model::createFromParam(ECov::CUBIC, 3.5, 1., 1., VectorDouble(), {1, 0.75, 0.75, 1});
      m->addCovFromParam(ECov::NUGGET, 0., 1., 1., VectorDouble(), {0.25, 0.125, 0.125, 0.25});
      break;
  }
  return m;
}
inline Model* make_model(int ndim, int nvar, int im) { return nvar == 1 ? model1(ndim, im) : model2(ndim, im); }
inline int nmodel(int nvar) { return nvar == 1 ? NMODEL1 : NMODEL2; }
inline const char* model_name(int nvar, int im) { return nvar == 1 ? MODEL1_NAME[im] : MODEL2_NAME[im]; }

// ---- a raw table from which both the masked Db and the physically reduced Db are built ---------------
struct Raw
{
  int ndim = 2, nvar = 1, n = 0;
  VVD x;      // [ndim][n]
  VVD z;      // [nvar][n]   (TEST = undefined)
  VVD v;      // [nvar][n]   variance of measurement error (empty = absent)
  VVD f;      // [nfex][n]   external drifts (empty = absent)
  VD w;       // weights (empty = absent)
  VD sel;     // selection (empty = absent) 1/0
};
inline Raw make_raw(int ndim, int nvar, int ilay, int n)
{
  Raw r;
  r.ndim = ndim; r.nvar = nvar; r.n = n;
  r.x = layout(ndim, ilay, n);
  for (int iv = 0; iv < nvar; iv++) r.z.push_back(values(iv, n));
  return r;
}
// keep[i] = sample i is physically kept
inline Raw reduce_raw(const Raw& r, const std::vector<int>& keep)
{
  Raw o;
  o.ndim = r.ndim; o.nvar = r.nvar; o.n = 0;
  auto red = [&](const VVD& a) { VVD b(a.size()); for (size_t k = 0; k < a.size(); k++) for (int i = 0; i < r.n; i++) if (keep[i]) b[k].push_back(a[k][i]); return b; };
  o.x = red(r.x); o.z = red(r.z); o.v = red(r.v); o.f = red(r.f);
  for (int i = 0; i < r.n; i++) if (keep[i]) { o.n++; if (!r.w.empty()) o.w.push_back(r.w[i]); }
  // no selection column in a reduced table
  return o;
}
inline Db* raw_to_db(const Raw& r)
{
  std::vector<VD> cols;
  std::vector<std::string> names, locs;
  auto add = [&](const VD& c, const std::string& nm, const std::string& lc) { cols.push_back(c); names.push_back(nm); locs.push_back(lc); };
  for (int d = 0; d < r.ndim; d++) add(r.x[d], "x" + std::to_string(d + 1), "x" + std::to_string(d + 1));
  for (size_t k = 0; k < r.z.size(); k++) add(r.z[k], "z" + std::to_string(k + 1), "z" + std::to_string(k + 1));
  for (size_t k = 0; k < r.v.size(); k++) add(r.v[k], "v" + std::to_string(k + 1), "v" + std::to_string(k + 1));
  for (size_t k = 0; k < r.f.size(); k++) add(r.f[k], "f" + std::to_string(k + 1), "f" + std::to_string(k + 1));
  if (!r.w.empty()) add(r.w, "w", "w1");
  if (!r.sel.empty()) add(r.sel, "sel", "sel");
  if (r.n == 0) return nullptr;
  return make_db(cols, names, locs);
}
inline std::string raw_str(const Raw& r)
{
  std::string s = "{\"x\":[";
  for (int d = 0; d < r.ndim; d++) s += (d ? "," : "") + vstr(r.x[d]);
  s += "],\"z\":[";
  for (size_t k = 0; k < r.z.size(); k++) s += (k ? "," : "") + vstr(r.z[k]);
  s += "]";
  if (!r.v.empty()) { s += ",\"v\":["; for (size_t k = 0; k < r.v.size(); k++) s += (k ? "," : "") + vstr(r.v[k]); s += "]"; }
  if (!r.f.empty()) { s += ",\"f\":["; for (size_t k = 0; k < r.f.size(); k++) s += (k ? "," : "") + vstr(r.f[k]); s += "]"; }
  if (!r.w.empty()) s += ",\"w\":" + vstr(r.w);
  if (!r.sel.empty()) s += ",\"sel\":" + vstr(r.sel);
  return s + "}";
}

// matrix comparison: returns "" when equal (dims + values within tol*scale), else a description
template<class M1, class M2> std::string mat_diff(const M1& a, const M2& b, double tol, double scale)
{
  if (a.getNRows() != b.getNRows() || a.getNCols() != b.getNCols())
    return "dims " + std::to_string(a.getNRows()) + "x" + std::to_string(a.getNCols()) + " vs " + std::to_string(b.getNRows()) + "x" + std::to_string(b.getNCols());
  for (int i = 0; i < a.getNRows(); i++)
    for (int j = 0; j < a.getNCols(); j++)
    {
      double va = a.getValue(i, j), vb = b.getValue(i, j);
      if (!close(va, vb, tol, scale)) return "(" + std::to_string(i) + "," + std::to_string(j) + "): " + fmt(va) + " vs " + fmt(vb);
    }
  return "";
}
typedef std::unique_ptr<Db> DbP;
typedef std::unique_ptr<Model> ModelP;
}  // namespace vfm
