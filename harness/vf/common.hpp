// Common infrastructure of the /verif harnesses (see DESIGN.md section 2).
//
// A harness is one C++ program per property.  It registers "parts" (sub-checks); every part
// enumerates a finite space completely (engine E1: product of menus, E2: histories, E3: fault
// points, E4: generator states), runs the real gstlearn code on every element and judges it with an
// oracle written in the harness.  The driver (vf.py) starts S shards of the harness, merges the
// JSON fragments they write, applies known_findings.txt and writes evidence/<id>.json.
//
// Command line (all optional):
//   --tier quick|thorough   --shard i --nshards S   --out fragment.json   --deadline seconds
//   --part name             run only this part
//   --case "<part>:<case>"  replay exactly one case, verbosely; exit 1 if it violates
#pragma once
#include <chrono>
#include <cmath>
#include <csignal>
#include <cstdint>
#include <cstdio>
#include <cstdlib>
#include <cstring>
#include <functional>
#include <map>
#include <set>
#include <sstream>
#include <string>
#include <unistd.h>
#include <unordered_set>
#include <vector>

namespace vf
{
inline std::string jesc(const std::string& s)
{
  std::string o;
  for (unsigned char c : s)
  {
    if (c == '"') o += "\\\"";
    else if (c == '\\') o += "\\\\";
    else if (c == '\n') o += "\\n";
    else if (c == '\t') o += "\\t";
    else if (c < 0x20 || c >= 0x7f) { char b[8]; snprintf(b, 8, "\\u%04x", c); o += b; }
    else o += (char)c;
  }
  return o;
}
inline std::string jstr(const std::string& s) { return "\"" + jesc(s) + "\""; }

// FNV-1a 64 bit, used for stimulus signatures and canonical state keys
struct Hash
{
  uint64_t h = 1469598103934665603ULL;
  void bytes(const void* p, size_t n)
  {
    const unsigned char* c = (const unsigned char*)p;
    for (size_t i = 0; i < n; i++) { h ^= c[i]; h *= 1099511628211ULL; }
  }
  Hash& u(uint64_t v) { bytes(&v, 8); return *this; }
  Hash& i(int64_t v) { bytes(&v, 8); return *this; }
  Hash& d(double v) { if (v == 0) v = 0; if (v != v) { u(0x7ff8dead); return *this; } bytes(&v, 8); return *this; }
  Hash& s(const std::string& v) { u(v.size()); bytes(v.data(), v.size()); return *this; }
  template<class V> Hash& vd(const V& v) { u(v.size()); for (auto x : v) d((double)x); return *this; }
  template<class V> Hash& vi(const V& v) { u(v.size()); for (auto x : v) i((int64_t)x); return *this; }
};

struct Violation
{
  std::string key;   // finding key (mechanism), matched against known_findings.txt
  std::string what;  // human readable
  std::string part;
  std::string kase;  // replayable case string
};

struct PartStat
{
  uint64_t evaluations = 0, nontrivial = 0, skipped = 0, space = 0;
  uint64_t states = 0, transitions = 0, traces = 0;
  bool exhaustive = true;
  double wall = 0;
};

struct Ctx
{
  std::string tier = "quick";
  int shard = 0, nshards = 1;
  std::string out, only_part, only_case;
  double deadline = 1e18;
  std::chrono::steady_clock::time_point t0 = std::chrono::steady_clock::now();
  bool verbose = false;

  std::string cur_part;
  std::string cur_case;  // for the crash handler
  std::map<std::string, PartStat> parts;
  std::unordered_set<uint64_t> nontriv;  // distinct non-trivial stimulus signatures
  std::map<std::string, uint64_t> histo;
  std::vector<std::string> samples;       // JSON objects
  std::vector<Violation> viol;            // at most 3 stored per key
  std::map<std::string, uint64_t> violCount;
  std::vector<std::string> notes;

  bool thorough() const { return tier == "thorough"; }
  double elapsed() const { return std::chrono::duration<double>(std::chrono::steady_clock::now() - t0).count(); }
  bool expired() { if (elapsed() > deadline) { parts[cur_part].exhaustive = false; return true; } return false; }
  PartStat& ps() { return parts[cur_part]; }

  void eval(uint64_t n = 1) { ps().evaluations += n; }
  void skip(uint64_t n = 1) { ps().skipped += n; }
  // a case is non trivial by the part's rule; sig = hash of the stimulus (distinctness)
  void nontrivial(uint64_t sig) { if (nontriv.insert(Hash().s(cur_part).u(sig).h).second) ps().nontrivial++; }
  void outcome(const std::string& k, uint64_t n = 1) { histo[cur_part + "/" + k] += n; }
  void sample(const std::string& json) { if (samples.size() < 4 * (parts.size() + 1) && psamples[cur_part]++ < 3) samples.push_back("{\"part\":" + jstr(cur_part) + ",\"case\":" + json + "}"); }
  std::map<std::string, int> psamples;
  void note(const std::string& s) { notes.push_back(cur_part + ": " + s); }

  void violation(const std::string& key, const std::string& what, const std::string& kase)
  {
    uint64_t& c = violCount[key];
    c++;
    if (c <= 3) viol.push_back({key, what, cur_part, kase});
    if (verbose) fprintf(stderr, "VIOLATION key=%s part=%s case=%s : %s\n", key.c_str(), cur_part.c_str(), kase.c_str(), what.c_str());
  }
  void write_fragment(const char* crash = nullptr);
};

inline Ctx& ctx() { static Ctx c; return c; }

inline void Ctx::write_fragment(const char* crash)
{
  if (out.empty()) return;
  FILE* f = fopen(out.c_str(), "w");
  if (!f) return;
  fprintf(f, "{\n \"shard\":%d,\"nshards\":%d,\"tier\":%s,\"wall_s\":%.3f,\n", shard, nshards, jstr(tier).c_str(), elapsed());
  if (crash) fprintf(f, " \"crash\":{\"signal\":%s,\"part\":%s,\"case\":%s},\n", jstr(crash).c_str(), jstr(cur_part).c_str(), jstr(cur_case).c_str());
  fprintf(f, " \"parts\":{");
  bool first = true;
  for (auto& [n, p] : parts)
  {
    fprintf(f, "%s\n  %s:{\"evaluations\":%llu,\"nontrivial\":%llu,\"skipped\":%llu,\"space\":%llu,\"states\":%llu,\"transitions\":%llu,\"traces\":%llu,\"exhaustive\":%s,\"wall_s\":%.3f}",
            first ? "" : ",", jstr(n).c_str(), (unsigned long long)p.evaluations, (unsigned long long)p.nontrivial, (unsigned long long)p.skipped,
            (unsigned long long)p.space, (unsigned long long)p.states, (unsigned long long)p.transitions, (unsigned long long)p.traces, p.exhaustive ? "true" : "false", p.wall);
    first = false;
  }
  fprintf(f, "\n },\n \"histogram\":{");
  first = true;
  for (auto& [k, v] : histo) { fprintf(f, "%s\n  %s:%llu", first ? "" : ",", jstr(k).c_str(), (unsigned long long)v); first = false; }
  fprintf(f, "\n },\n \"samples\":[");
  for (size_t i = 0; i < samples.size(); i++) fprintf(f, "%s\n  %s", i ? "," : "", samples[i].c_str());
  fprintf(f, "\n ],\n \"notes\":[");
  for (size_t i = 0; i < notes.size(); i++) fprintf(f, "%s%s", i ? "," : "", jstr(notes[i]).c_str());
  fprintf(f, "],\n \"violation_counts\":{");
  first = true;
  for (auto& [k, v] : violCount) { fprintf(f, "%s%s:%llu", first ? "" : ",", jstr(k).c_str(), (unsigned long long)v); first = false; }
  fprintf(f, "},\n \"violations\":[");
  for (size_t i = 0; i < viol.size(); i++)
    fprintf(f, "%s\n  {\"key\":%s,\"what\":%s,\"part\":%s,\"case\":%s}", i ? "," : "", jstr(viol[i].key).c_str(), jstr(viol[i].what).c_str(),
            jstr(viol[i].part).c_str(), jstr(viol[i].kase).c_str());
  fprintf(f, "\n ]\n}\n");
  fclose(f);
  // distinct non-trivial signatures, merged (set union) by the driver
  if (!crash)
  {
    std::string hf = out + ".sig";
    FILE* g = fopen(hf.c_str(), "wb");
    if (g)
    {
      std::vector<uint64_t> v(nontriv.begin(), nontriv.end());
      if (!v.empty()) fwrite(v.data(), 8, v.size(), g);
      fclose(g);
    }
  }
}

inline void crash_handler(int sig)
{
  static volatile sig_atomic_t inside = 0;
  if (inside) _exit(99);
  inside = 1;
  const char* name = sig == SIGSEGV ? "SIGSEGV" : sig == SIGABRT ? "SIGABRT" : sig == SIGFPE ? "SIGFPE" : sig == SIGBUS ? "SIGBUS" : sig == SIGALRM ? "SIGALRM(timeout)" : "signal";
  fprintf(stderr, "harness: %s in part=%s case=%s\n", name, ctx().cur_part.c_str(), ctx().cur_case.c_str());
  ctx().write_fragment(name);  // not async-signal-safe, best effort: we are dying anyway
  _exit(98);
}

// ---------------------------------------------------------------------------------------------
// E1: product space with mixed-radix case ids
struct Space
{
  std::vector<std::string> names;
  std::vector<int> radix;
  Space& axis(const std::string& n, int r) { names.push_back(n); radix.push_back(r); return *this; }
  uint64_t size() const { uint64_t s = 1; for (int r : radix) s *= (uint64_t)r; return s; }
  std::vector<int> decode(uint64_t id) const
  {
    std::vector<int> v(radix.size());
    for (size_t k = 0; k < radix.size(); k++) { v[k] = (int)(id % (uint64_t)radix[k]); id /= (uint64_t)radix[k]; }
    return v;
  }
  std::string describe(const std::vector<int>& v) const
  {
    std::string s = "{";
    for (size_t k = 0; k < v.size(); k++) s += (k ? "," : "") + jstr(names[k]) + ":" + std::to_string(v[k]);
    return s + "}";
  }
};

using PartFn = std::function<void(Ctx&)>;
struct Registry { std::vector<std::pair<std::string, PartFn>> parts; };
inline Registry& registry() { static Registry r; return r; }
struct Registrar { Registrar(const char* n, PartFn f) { registry().parts.push_back({n, f}); } };
#define VF_PART(name) \
  static void vf_part_##name(vf::Ctx& C); \
  static vf::Registrar vf_reg_##name(#name, vf_part_##name); \
  static void vf_part_##name([[maybe_unused]] vf::Ctx& C)

// Enumerate all cases of a space owned by this shard; f(id, idx) runs one case.
// In replay mode (--case part:id) only that id is run.
template<class F> void for_each_case(Ctx& C, const Space& sp, F f)
{
  uint64_t n = sp.size();
  C.ps().space += n;
  if (!C.only_case.empty())
  {
    uint64_t id = strtoull(C.only_case.c_str(), nullptr, 10);
    if (id < n) { C.cur_case = C.only_case; f(id, sp.decode(id)); }
    return;
  }
  for (uint64_t id = (uint64_t)C.shard; id < n; id += (uint64_t)C.nshards)
  {
    if ((id & 63) < (uint64_t)C.nshards && C.expired()) break;
    C.cur_case = std::to_string(id);
    f(id, sp.decode(id));
  }
}
// for parts that cannot be sharded: true in exactly one shard (chosen by part name), always true in replay
inline bool owns_part(Ctx& C)
{
  if (!C.only_case.empty()) return true;
  return (int)(Hash().s(C.cur_part).h % (uint64_t)C.nshards) == C.shard;
}

inline int run_main(int argc, char** argv, std::function<void(Ctx&)> init = nullptr, std::function<void(Ctx&)> fini = nullptr)
{
  Ctx& C = ctx();
  for (int i = 1; i < argc; i++)
  {
    std::string a = argv[i];
    auto nxt = [&]() -> std::string { return i + 1 < argc ? argv[++i] : ""; };
    if (a == "--tier") C.tier = nxt();
    else if (a == "--shard") C.shard = atoi(nxt().c_str());
    else if (a == "--nshards") C.nshards = atoi(nxt().c_str());
    else if (a == "--out") C.out = nxt();
    else if (a == "--deadline") C.deadline = atof(nxt().c_str());
    else if (a == "--part") C.only_part = nxt();
    else if (a == "--verbose") C.verbose = true;
    else if (a == "--case")
    {
      std::string s = nxt();
      size_t p = s.find(':');
      C.only_part = s.substr(0, p);
      C.only_case = p == std::string::npos ? "" : s.substr(p + 1);
      C.verbose = true;
      C.shard = 0; C.nshards = 1;
    }
    else { fprintf(stderr, "unknown argument %s\n", a.c_str()); return 2; }
  }
  if (getenv("VF_NO_CRASH_HANDLER") == nullptr)
  {
    signal(SIGSEGV, crash_handler); signal(SIGABRT, crash_handler); signal(SIGFPE, crash_handler); signal(SIGBUS, crash_handler);
  }
  if (init) init(C);
  bool found = false;
  for (auto& [name, fn] : registry().parts)
  {
    if (!C.only_part.empty() && C.only_part != name) continue;
    found = true;
    C.cur_part = name;
    C.cur_case = "";
    double t = C.elapsed();
    C.parts[name];
    if (C.elapsed() > C.deadline) { C.parts[name].exhaustive = false; continue; }
    fn(C);
    C.parts[name].wall = C.elapsed() - t;
  }
  if (!found) { fprintf(stderr, "no such part: %s\n", C.only_part.c_str()); return 2; }
  C.write_fragment();
  if (fini) fini(C);
  uint64_t nv = 0;
  for (auto& kv : C.violCount) nv += kv.second;
  if (!C.only_case.empty()) { fprintf(stderr, "replay: %llu violation(s)\n", (unsigned long long)nv); return nv ? 1 : 0; }
  return 0;
}

// ---------------------------------------------------------------------------------------------
// numeric helpers
inline bool close(double a, double b, double tol, double scale = 1.)
{
  if (std::isnan(a) || std::isnan(b)) return std::isnan(a) && std::isnan(b);
  if (std::isinf(a) || std::isinf(b)) return a == b;
  double m = std::max({scale, std::fabs(a), std::fabs(b)});
  return std::fabs(a - b) <= tol * m;
}
inline std::string fmt(double v) { char b[40]; snprintf(b, 40, "%.17g", v); return b; }
template<class V> std::string vstr(const V& v)
{
  std::string s = "[";
  bool f = true;
  for (auto x : v) { if (!f) s += ","; f = false; char b[40]; snprintf(b, 40, "%.12g", (double)x); s += b; }
  return s + "]";
}
}  // namespace vf
