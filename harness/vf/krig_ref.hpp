// Reference model of the kriging system of doc/references/Kriging.md, used by C01 (oracle) and C02 (drift functions,
// conditioning).  Everything is assembled from POINTWISE public evaluations of the model (Model::eval(p1,p2,ivar,jvar),
// plain path) and closed-form drift monomials, compressed to the defined (sample,variable) cells by the harness itself,
// and solved in long double with full pivoting.
//
//   [ Sigma  X ] [ lambda ]   [ Sigma0 ]        z*   = m0 + lambda^t (z - m)          (m = 0 with unknown mean / drift)
//   [ X^t    0 ] [ -mu    ] = [ X0^t   ]        s2   = s0^2 - lambda^t Sigma0 - (-mu)^t X0
//                                               varZ = lambda^t Sigma lambda
// Equation order: variable-major over the neighbourhood samples (documented layout of Krigtest_Res::wgt: [nvar][nech]),
// then the drift equations (variable-major, harness's own monomial order: only span-invariant quantities are compared).
#pragma once
#include "vf/krig_menu.hpp"

namespace vf
{
namespace krig
{
struct RefSystem
{
  std::vector<int> rs, rv;     // active equations: sample (index in the data base), variable
  int nr = 0, nfeq = 0, nbfl = 0;
  LDMat A, Ainv;
  bool singular = false;
  double kappa = 0;            // 1-norm condition number of A
  bool heterotopic = false;
};
struct RefTarget
{
  bool defined = false;        // false: the system has no (unique) solution for this target variable
  std::vector<LD> lambda;      // nr
  std::vector<LD> mu;          // nfeq  (= "-mu" of the document)
  std::vector<LD> rhs;         // nr + nfeq: [Sigma0; X0]
  LD estim = 0, var = 0, varz = 0, s0 = 0;
  LD scaleEst = 0, scaleVar = 0, scaleW = 1;
};

struct Reference
{
  const KData& d;
  Model* model;
  int kdrift;
  SpaceRN space;
  std::vector<SpacePoint> pts;
  std::vector<bool> coordOk;
  double meanScale = 1.;       // factor on the known means (value scale of the case)

  Reference(const KData& d_, Model* m, int kdrift_) : d(d_), model(m), kdrift(kdrift_), space(d_.ndim)
  {
    int n = d.n();
    coordOk.assign(n, true);
    for (int i = 0; i < n; i++)
    {
      VectorDouble c(d.ndim);
      for (int k = 0; k < d.ndim; k++) { c[k] = d.x[k][i]; if (FFFF(c[k])) { coordOk[i] = false; c[k] = 0; } }
      pts.push_back(SpacePoint(c, -1, &space));
    }
  }
  SpacePoint point(const VD& c) const { return SpacePoint(VectorDouble(c.begin(), c.end()), -1, &space); }
  // a (sample, variable) cell contributes an equation iff coordinates, value and external drift are all defined
  bool cellDefined(int i, int v) const
  {
    if (!coordOk[i] || FFFF(d.z[v][i])) return false;
    if (drift_fext(kdrift) && (d.f.empty() || FFFF(d.f[i]))) return false;
    return true;
  }
  double verr(int i, int v) const
  {
    if (d.v.empty()) return 0.;
    double e = d.v[v][i];
    return (FFFF(e) || e <= 0) ? 0. : e;
  }
  VD driftAtData(int i) const
  {
    VD c(d.ndim);
    for (int k = 0; k < d.ndim; k++) c[k] = d.x[k][i];
    return drift_functions(d.ndim, kdrift, c.data(), d.f.empty() ? 0. : d.f[i]);
  }
  VD driftAtTarget(int t) const
  {
    VD c(d.ndim);
    for (int k = 0; k < d.ndim; k++) c[k] = d.tx[k][t];
    return drift_functions(d.ndim, kdrift, c.data(), d.tf.empty() ? 0. : d.tf[t]);
  }

  // LHS over the samples 'nbgh' (indices in the data base)
  void buildSystem(const std::vector<int>& nbgh, RefSystem& S) const
  {
    S = RefSystem();
    for (int v = 0; v < d.nvar; v++)
      for (int i : nbgh)
        if (cellDefined(i, v)) { S.rs.push_back(i); S.rv.push_back(v); }
    S.nr = (int)S.rs.size();
    S.heterotopic = S.nr != (int)nbgh.size() * d.nvar;
    S.nbfl = drift_nbfl(d.ndim, kdrift);
    S.nfeq = S.nbfl * d.nvar;
    int N = S.nr + S.nfeq;
    S.A = LDMat(N);
    for (int a = 0; a < S.nr; a++)
    {
      for (int b = 0; b <= a; b++)
      {
        LD c = model->eval(pts[S.rs[a]], pts[S.rs[b]], S.rv[a], S.rv[b]);
        if (a == b) c += verr(S.rs[a], S.rv[a]);
        S.A(a, b) = c; S.A(b, a) = c;
      }
      if (S.nbfl > 0)
      {
        VD f = driftAtData(S.rs[a]);
        for (int l = 0; l < S.nbfl; l++) { int col = S.nr + S.rv[a] * S.nbfl + l; S.A(a, col) = f[l]; S.A(col, a) = f[l]; }
      }
    }
    if (S.nr == 0) { S.singular = true; return; }
    S.singular = !ld_invert(S.A, S.Ainv);
    if (!S.singular) S.kappa = (double)(S.A.norm1() * S.Ainv.norm1());
  }

  // block discretisation offsets (regular), harness's own formula: size * ((j+0.5)/nd - 0.5) per axis
  VVD discOffsets() const
  {
    VVD out;
    int ntot = 1;
    for (int k : d.ndiscs) ntot *= k;
    for (int i = 0; i < ntot; i++)
    {
      VD o(d.ndim);
      int r = i;
      for (int k = 0; k < d.ndim; k++) { int j = r % d.ndiscs[k]; r /= d.ndiscs[k]; o[k] = d.dx[k] * ((j + 0.5) / d.ndiscs[k] - 0.5); }
      out.push_back(o);
    }
    return out;
  }

  // solve for target t and target variable v0. disc2 = second (randomised) discretisation for C_vv (from the public
  // DbGrid::getDiscretizedBlock), only used for block kriging.
  void solveTarget(const RefSystem& S, int t, int v0, const VVD& disc2, RefTarget& R) const
  {
    R = RefTarget();
    if (S.singular) return;
    int N = S.nr + S.nfeq;
    std::vector<LD> b(N, 0.L);
    VD c0(d.ndim);
    for (int k = 0; k < d.ndim; k++) c0[k] = d.tx[k][t];
    bool block = d.grid && !d.ndiscs.empty();
    if (!block)
    {
      SpacePoint p0 = point(c0);
      for (int a = 0; a < S.nr; a++) b[a] = model->eval(pts[S.rs[a]], p0, S.rv[a], v0);
      R.s0 = model->eval(p0, p0, v0, v0);
    }
    else
    {
      VVD d1 = discOffsets();
      std::vector<SpacePoint> q;
      for (auto& o : d1) { VD c = c0; for (int k = 0; k < d.ndim; k++) c[k] += o[k]; q.push_back(point(c)); }
      for (int a = 0; a < S.nr; a++)
      {
        LD s = 0;
        for (auto& p : q) s += model->eval(pts[S.rs[a]], p, S.rv[a], v0);
        b[a] = s / (LD)q.size();
      }
      LD s = 0;
      for (auto& o1 : d1)
        for (auto& o2 : disc2) s += model->eval(point(o1), point(o2), v0, v0);
      R.s0 = s / (LD)(d1.size() * disc2.size());
    }
    if (S.nbfl > 0)
    {
      VD f0 = driftAtTarget(t);
      for (int l = 0; l < S.nbfl; l++) b[S.nr + v0 * S.nbfl + l] = f0[l];
    }
    std::vector<LD> x(N, 0.L);
    for (int i = 0; i < N; i++) { LD s = 0; for (int j = 0; j < N; j++) s += S.Ainv(i, j) * b[j]; x[i] = s; }
    R.lambda.assign(x.begin(), x.begin() + S.nr);
    R.mu.assign(x.begin() + S.nr, x.end());
    R.rhs = b;
    R.defined = true;
    // estimate
    LD m0 = drift_known_mean(kdrift) ? meanScale * known_mean(kdrift, v0) : 0.;
    R.estim = m0; R.scaleEst = fabsl(m0);
    for (int a = 0; a < S.nr; a++)
    {
      LD m = drift_known_mean(kdrift) ? meanScale * known_mean(kdrift, S.rv[a]) : 0.;
      LD zz = d.z[S.rv[a]][S.rs[a]];
      R.estim += R.lambda[a] * (zz - m);
      R.scaleEst += fabsl(R.lambda[a]) * (fabsl(zz) + fabsl(m));
      R.scaleW = std::max(R.scaleW, fabsl(R.lambda[a]));
    }
    // estimation variance and variance of the estimator
    R.var = R.s0; R.scaleVar = fabsl(R.s0);
    for (int i = 0; i < N; i++) { R.var -= x[i] * b[i]; R.scaleVar += fabsl(x[i] * b[i]); }
    R.varz = 0;
    for (int a = 0; a < S.nr; a++)
    {
      LD s = 0;
      for (int c = 0; c < S.nr; c++) s += S.A(a, c) * R.lambda[c];
      R.varz += R.lambda[a] * s;
    }
  }
};

// neighbourhood of a unique neighbourhood by brute force: every sample with at least one defined variable
inline std::vector<int> unique_nbgh(const KData& d)
{
  std::vector<int> r;
  for (int i = 0; i < d.n(); i++)
  {
    bool any = false;
    for (int v = 0; v < d.nvar; v++) if (!FFFF(d.z[v][i])) any = true;
    if (any) r.push_back(i);
  }
  return r;
}

// output columns of kriging(): names end with ".estim" / ".stdev" / ".varz", one per variable in variable order
inline std::vector<int> find_cols(const Db* db, const std::string& suffix)
{
  std::vector<int> r;
  for (int ic = 0; ic < db->getColumnNumber(); ic++)
  {
    std::string nm = db->getNameByColIdx(ic);
    if (nm.size() >= suffix.size() && nm.compare(nm.size() - suffix.size(), suffix.size(), suffix) == 0) r.push_back(ic);
  }
  return r;
}
}  // namespace krig
}  // namespace vf
