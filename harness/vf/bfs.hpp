// E2 — explicit-state search over histories of real calls (DESIGN.md 2.3).
//
// A state is the history (sequence of op ids) that reaches it; objects are never copied: the user's
// exec() builds fresh objects, replays the whole history on the real code, checks invariants / reference
// model after EVERY step of the replay it has not checked before (simplest: after the last step, because
// every prefix is itself a visited history) and returns a canonical key of the complete hidden state.
// Breadth first => the first violation has the shortest history.
//
// Sharding: shard s explores the sub-trees whose first op index == s (mod nshards), each with its own
// seen-set (less merging than a global set, never unsound). Distinct state keys are written to
// <fragment>.states and united by the driver, so "states" is the number of distinct keys overall.
#pragma once
#include "vf/common.hpp"
#include <deque>

namespace vf
{
typedef std::vector<int> History;

inline std::string hist_str(const History& h)
{
  std::string s;
  for (size_t i = 0; i < h.size(); i++) s += (i ? "," : "") + std::to_string(h[i]);
  return s;
}
inline History hist_parse(const std::string& s)
{
  History h;
  std::stringstream ss(s);
  std::string t;
  while (std::getline(ss, t, ',')) if (!t.empty()) h.push_back(atoi(t.c_str()));
  return h;
}

struct StepResult
{
  uint64_t key = 0;     // canonical key of the state reached (all mutable hidden state)
  bool expand = true;   // false: do not extend this history (e.g. op refused / not enabled)
  bool enabled = true;  // false: the last op was not applicable in that state; not counted as a transition
};

struct StateSet
{
  std::unordered_set<uint64_t> keys;
};
inline StateSet& all_states() { static StateSet s; return s; }

// exec(history) -> StepResult ; it reports violations itself through C.violation(key, what, hist_str(h)).
// prune=true: a history reaching an already seen key is not extended (sound iff the key covers all hidden state).
template<class Exec>
void bfs(Ctx& C, int nops, int maxdepth, Exec exec, bool prune = true)
{
  if (!C.only_case.empty())
  {
    History h = hist_parse(C.only_case);
    // replay every prefix so that the failing step is the one reported
    for (size_t n = 1; n <= h.size(); n++) { History p(h.begin(), h.begin() + n); C.cur_case = hist_str(p); exec(p); C.ps().traces++; }
    return;
  }
  std::unordered_set<uint64_t> seen;
  std::deque<History> frontier;
  {
    StepResult r0 = exec(History());
    seen.insert(r0.key);
    all_states().keys.insert(Hash().s(C.cur_part).u(r0.key).h);
    frontier.push_back(History());
  }
  int depth_done = 0;
  for (int depth = 1; depth <= maxdepth; depth++)
  {
    std::deque<History> next;
    for (auto& h : frontier)
    {
      if (C.expired()) { C.note("deadline reached at depth " + std::to_string(depth)); goto done; }
      for (int op = 0; op < nops; op++)
      {
        if (depth == 1 && (op % C.nshards) != C.shard) continue;
        History h2 = h;
        h2.push_back(op);
        C.cur_case = hist_str(h2);
        StepResult r = exec(h2);
        C.ps().traces++;
        if (!r.enabled) continue;
        C.ps().transitions++;
        C.eval();
        all_states().keys.insert(Hash().s(C.cur_part).u(r.key).h);
        bool fresh = seen.insert(r.key).second;
        if (r.expand && (fresh || !prune)) next.push_back(h2);
      }
    }
    depth_done = depth;
    frontier.swap(next);
    if (frontier.empty()) break;
  }
done:
  C.ps().states += seen.size();
  C.outcome("max_depth_completed=" + std::to_string(depth_done));
}

// must be called by harnesses using bfs() right before run_main returns (run_main does it through this hook)
inline void write_states(Ctx& C)
{
  if (C.out.empty()) return;
  FILE* g = fopen((C.out + ".states").c_str(), "wb");
  if (!g) return;
  std::vector<uint64_t> v(all_states().keys.begin(), all_states().keys.end());
  if (!v.empty()) fwrite(v.data(), 8, v.size(), g);
  fclose(g);
}
}  // namespace vf
