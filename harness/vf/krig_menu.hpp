// Kriging case enumerator shared by C01 / C02 (and usable by C04 / C05).  Self-contained: include it after nothing.
//
// A kriging problem is described by plain vectors (struct KData) so that a harness can transform it (permute
// samples, translate, replace data values, mask cells) BEFORE the gstlearn objects are built; the gstlearn
// objects (Db in, Db out, Model, ANeigh) are then produced by KBuilt.  All menus are ordered simplest-first and
// use only dyadic rationals / small integers (exact in binary floating point) — see DESIGN.md 2.9.
//
// USAGE
//   KData d = make_data(ndim, nvar, klayout, kupat, kverr, drift_fext(kdrift));   // point targets (set_targets)
//   set_grid(d, kdisc);                                                             // optional: grid target + block discretisation
//   d = scaled(d, ls, vs) with KBuilt(d, ..., ls, vs)  (common rescaling of all lengths / all values)
//   d = permuted(d, perm) / translated(d, t) / edit d.z, d.x, d.tx ... freely       // optional transformations
//   if (!combo_valid(ndim, kmodel, kdrift, kneigh)) skip;                           // documented-invalid combinations
//   KBuilt b(d, kmodel, kdrift, kneigh);                                            // owns dbin, dbout, model, neigh
//   kriging(b.dbin, b.dbout, b.model, b.neigh, b.calcul, true, true, false, b.ndiscs);
//   find_cols(b.dbout, ".estim")  (vf/krig_ref.hpp)  gives the output columns, one per variable.
//   vf/krig_ref.hpp holds the independent reference solve (Reference / RefSystem / RefTarget) used by C01 and C02.
//   NOTE krigtest(..., iech0=0) is unusable on a multi-target Db (known finding krigtest:iech0=0): target #0 of the menus is a
//   duplicate of target #1 for that reason.  set_space(ndim) switches the library's global default space: call it (or build a
//   KBuilt) before creating any gstlearn object of another dimension.
//
// ---------------------------------------------------------------------------------------------------------------
// MENUS  (index ranges are given by the *_count() functions)
//
//  ndim            1, 2, 3
//  nvar            1, 2, 3                       (variable v of the data: values(v, n))
//
//  layout(ndim,k)  k = 0..5, coordinates [ndim][n], all locations distinct
//     k   n   1-D                      2-D                                       3-D
//     0   3   0 1 3                    (0,0)(1,0)(0,2)                           (0,0,0)(1,0,0)(0,2,1)
//     1   4   0 1.5 2 4.25             (0,0)(2,0)(0,1)(2.5,3)                    (0,0,0)(2,0,0)(0,1,0)(0,0,1.5)
//     2   5   -1 0 .5 2 3.75           (0,0)(1,.5)(3,1)(.5,2.5)(2,3)             (0,0,0)(1,.5,0)(3,1,1)(.5,2.5,2)(2,3,.5)
//     3   6   0 1 2 3 4 5 (regular)    (0,0)(2,0)(4,.5)(0,2)(1.5,1.5)(3.5,3)     (0,0,0)(2,0,1)(4,.5,0)(0,2,2)(1.5,1.5,.5)(3.5,3,1.5)
//     4   6   0 .25 1 2.5 2.75 6       2x3 lattice (0..2)x(0..1)  [on a conic]   (0,0,0)(1,0,0)(0,1,0)(1,1,0)(0,0,1)(1,1,1)
//     5   5   10 12 13 17 18.5         (0,0)(.25,0)(0,.25)(4,4)(4,5) [clusters]  (0,0,0)(.25,0,0)(0,.25,.5)(4,4,1)(4,5,3)
//
//  values(v,n)     v=0: 1 2 4 8 -3 .5     v=1: 10 -1 .25 3 7 -6     v=2: 0 5 -2 1.5 9 4
//
//  upattern(n,nvar,k)  which (sample, variable) cells are undefined (TEST):
//     0                         none
//     1 .. n*nvar               one cell c-1 = i + v*n   (sample i, variable v)
//     then (only nvar>1) n      sample i undefined in ALL variables
//     then 1                    coordinate x1 of the LAST sample undefined (only meaningful with a unique neighbourhood)
//     then 1                    external drift undefined at sample 0 (only meaningful when the drift has an external drift)
//     then (with_pairs)         every pair of cells c1<c2
//
//  verr (measurement error variance, locator V, one column per variable)
//     0 absent   1 constant 0.25   2 per sample: VERR[(i+2v)%6], VERR = .5 0 .125 1 .25 2   (0 = exact datum)
//
//  model(ndim,nvar,k)   structures (type, range, sill s): the sill matrix of structure j is s * B_{j%2} truncated
//                       to nvar x nvar, B0=[[1,.5,-.25],[.5,1,.25],[-.25,.25,1]], B1=[[1,-.5,.25],[-.5,.75,0],[.25,0,.5]]
//     0  nugget 2                       1  spherical r4 s2                2  exponential r3 s1.5
//     3  gaussian r2 s1 + nugget .25    4  cubic r5 s1                    5  nugget .5 + spherical r4 s2
//     6  nugget .5 + spherical ranges (4,2,3) no rotation                 7  same, rotation 30 deg (3-D: 30,20,10)
//     8  same, rotation 90 deg (3-D: 90,0,0)                              9  linear (intrinsic, needs a drift) slope 1
//     10 exponential r2 s1 + spherical r6 s1.5                           11 gaussian r2 s1 (no nugget: ill-conditioned)
//     (in 1-D anisotropy degenerates to range 4: models 6..8 are then equal to model 5 but kept for a uniform radix)
//
//  drift(k)  0 known mean 0   1 known means (123,-7,.5)   2 ordinary (order 0)   3 order 1   4 order 2
//            5 order 0 + 1 external drift   6 order 1 + 1 external drift
//            external drift at the data: FEXT = 1 3 2 5 .5 4 ; at the targets see targets()
//
//  neigh(ndim,k) 0 unique   1 moving nmaxi=2   2 moving nmaxi=3   3 moving radius 3   4 moving 4 sectors nsmax=1 (ndim>=2)
//                5 moving nmini=3 radius 4     6 moving radius 4 nmaxi 3, anisotropic (1,.5,.75) rotated 30 deg (ndim>=2)
//
//  targets(ndim, x)  point targets, [ndim][5]:  #0 and #1 generic A = (.37,.21,.13) (same location twice: #0 exists
//                because krigtest(iech0=0) is unusable — known finding — and it exercises the same-target shortcut),
//                #2 ON datum 1, #3 far away (37.5,-41.25,29), #4 generic B (1.3125,1.0625,.4375)
//                external drift at targets: 2.5 2.5 FEXT[1] 1.5 3.5
//  grid target (block kriging): nx=(2,2,1) (1-D: 3), dx=(1,2,1.5), x0=0 ; ndiscs menu 0:(1,1,1) 1:(2,2,2) 2:(3,2,1)
// ---------------------------------------------------------------------------------------------------------------
#pragma once
#include "vf/gst.hpp"

#include "Covariances/CovAniso.hpp"
#include "Enum/ECov.hpp"
#include "Enum/EKrigOpt.hpp"
#include "Enum/ESpaceType.hpp"
#include "Estimation/CalcKriging.hpp"
#include "Model/Model.hpp"
#include "Neigh/NeighMoving.hpp"
#include "Neigh/NeighUnique.hpp"
#include "Space/ASpaceObject.hpp"
#include "Space/SpacePoint.hpp"
#include "Space/SpaceRN.hpp"

namespace vf
{
namespace krig
{
typedef std::vector<double> VD;
typedef std::vector<VD> VVD;

// ------------------------------------------------------------------------------------------------- layouts
inline int layout_count() { return 6; }
inline VVD layout(int ndim, int k)
{
  static const VVD L1[6] = {{{0, 1, 3}}, {{0, 1.5, 2, 4.25}}, {{-1, 0, .5, 2, 3.75}}, {{0, 1, 2, 3, 4, 5}}, {{0, .25, 1, 2.5, 2.75, 6}}, {{10, 12, 13, 17, 18.5}}};
  static const VVD L2[6] = {{{0, 1, 0}, {0, 0, 2}},
                            {{0, 2, 0, 2.5}, {0, 0, 1, 3}},
                            {{0, 1, 3, .5, 2}, {0, .5, 1, 2.5, 3}},
                            {{0, 2, 4, 0, 1.5, 3.5}, {0, 0, .5, 2, 1.5, 3}},
                            {{0, 1, 2, 0, 1, 2}, {0, 0, 0, 1, 1, 1}},
                            {{0, .25, 0, 4, 4}, {0, 0, .25, 4, 5}}};
  static const VVD L3[6] = {{{0, 1, 0}, {0, 0, 2}, {0, 0, 1}},
                            {{0, 2, 0, 0}, {0, 0, 1, 0}, {0, 0, 0, 1.5}},
                            {{0, 1, 3, .5, 2}, {0, .5, 1, 2.5, 3}, {0, 0, 1, 2, .5}},
                            {{0, 2, 4, 0, 1.5, 3.5}, {0, 0, .5, 2, 1.5, 3}, {0, 1, 0, 2, .5, 1.5}},
                            {{0, 1, 0, 1, 0, 1}, {0, 0, 1, 1, 0, 1}, {0, 0, 0, 0, 1, 1}},
                            {{0, .25, 0, 4, 4}, {0, 0, .25, 4, 5}, {0, 0, .5, 1, 3}}};
  return ndim == 1 ? L1[k] : ndim == 2 ? L2[k] : L3[k];
}
inline VD values(int ivar, int n)
{
  static const double Z[3][6] = {{1, 2, 4, 8, -3, .5}, {10, -1, .25, 3, 7, -6}, {0, 5, -2, 1.5, 9, 4}};
  return VD(Z[ivar], Z[ivar] + n);
}
inline double fext_data(int i) { static const double F[6] = {1, 3, 2, 5, .5, 4}; return F[i % 6]; }
inline double verr_value(int kind, int i, int ivar)
{
  static const double V[6] = {.5, 0, .125, 1, .25, 2};
  return kind == 1 ? 0.25 : V[(i + 2 * ivar) % 6];
}

// ------------------------------------------------------------------------------------------------- u-patterns
struct UPattern
{
  std::vector<int> cells;  // i + v*n
  int undefCoord = -1;     // sample whose first coordinate is undefined
  int undefFext = -1;      // sample whose external drift value is undefined
  std::string name = "none";
};
inline int upattern_count(int n, int nvar, bool with_pairs)
{
  int c = n * nvar;
  return 1 + c + (nvar > 1 ? n : 0) + 2 + (with_pairs ? c * (c - 1) / 2 : 0);
}
inline UPattern upattern(int n, int nvar, int k)
{
  UPattern u;
  int c = n * nvar;
  if (k == 0) return u;
  k--;
  if (k < c) { u.cells = {k}; u.name = "single"; return u; }
  k -= c;
  if (nvar > 1)
  {
    if (k < n) { for (int v = 0; v < nvar; v++) u.cells.push_back(k + v * n); u.name = "sample-all-vars"; return u; }
    k -= n;
  }
  if (k == 0) { u.undefCoord = n - 1; u.name = "undef-coordinate"; return u; }
  k--;
  if (k == 0) { u.undefFext = 0; u.name = "undef-fext"; return u; }
  k--;
  for (int a = 0; a < c; a++)
    for (int b = a + 1; b < c; b++, k--)
      if (k == 0) { u.cells = {a, b}; u.name = "pair"; return u; }
  u.name = "out-of-range";
  return u;
}

// ------------------------------------------------------------------------------------------------- the plain problem
struct KData
{
  int ndim = 2, nvar = 1;
  VVD x;            // [ndim][n] data coordinates (TEST allowed)
  VVD z;            // [nvar][n] data values (TEST = undefined)
  VVD v;            // [nvar][n] measurement error variances; empty = no V locator
  VD f;             // external drift at the data; empty = none
  // point targets
  VVD tx;           // [ndim][nt]
  VD tf;            // external drift at the targets (if f non empty)
  // grid target (block kriging) when grid==true (tx is then filled with the node coordinates by set_grid)
  bool grid = false;
  std::vector<int> nx; VD dx, x0;
  std::vector<int> ndiscs;  // empty = point kriging
  int n() const { return x.empty() ? 0 : (int)x[0].size(); }
  int nt() const { return tx.empty() ? 0 : (int)tx[0].size(); }
};

inline void set_targets(KData& d)
{
  static const double A[3] = {.37, .21, .13}, FAR[3] = {37.5, -41.25, 29}, B[3] = {1.3125, 1.0625, .4375};
  d.grid = false;
  d.tx.assign(d.ndim, VD(5));
  for (int k = 0; k < d.ndim; k++)
  {
    d.tx[k][0] = A[k]; d.tx[k][1] = A[k];
    d.tx[k][2] = d.x[k][1];
    d.tx[k][3] = FAR[k]; d.tx[k][4] = B[k];
  }
  if (!d.f.empty()) d.tf = {2.5, 2.5, d.f[1], 1.5, 3.5};
}
inline std::vector<int> ndiscs_menu(int ndim, int k)
{
  static const int N[3][3] = {{1, 1, 1}, {2, 2, 2}, {3, 2, 1}};
  return std::vector<int>(N[k], N[k] + ndim);
}
inline void set_grid(KData& d, int kdisc)
{
  static const double DX[3] = {1, 2, 1.5};
  d.grid = true;
  d.nx = d.ndim == 1 ? std::vector<int>{3} : d.ndim == 2 ? std::vector<int>{2, 2} : std::vector<int>{2, 2, 1};
  d.dx.assign(DX, DX + d.ndim);
  d.x0.assign(d.ndim, 0.);
  d.ndiscs = ndiscs_menu(d.ndim, kdisc);
  int nt = 1;
  for (int k : d.nx) nt *= k;
  d.tx.assign(d.ndim, VD(nt));
  for (int it = 0; it < nt; it++)
  {
    int r = it;
    for (int k = 0; k < d.ndim; k++) { d.tx[k][it] = d.x0[k] + (r % d.nx[k]) * d.dx[k]; r /= d.nx[k]; }
  }
  if (!d.f.empty()) { d.tf.resize(nt); for (int it = 0; it < nt; it++) d.tf[it] = 1.5 + 0.5 * it; }
}

// base problem of the menus (point targets)
inline KData make_data(int ndim, int nvar, int klayout, int kupat, int kverr, bool fext)
{
  KData d;
  d.ndim = ndim; d.nvar = nvar;
  d.x = layout(ndim, klayout);
  int n = d.n();
  for (int v = 0; v < nvar; v++) d.z.push_back(values(v, n));
  UPattern u = upattern(n, nvar, kupat);
  if (fext) { d.f.resize(n); for (int i = 0; i < n; i++) d.f[i] = fext_data(i); }
  set_targets(d);  // before the coordinate is blanked: target 2 sits on datum 1
  for (int c : u.cells) d.z[c / n][c % n] = TEST;
  if (u.undefCoord >= 0) d.x[0][u.undefCoord] = TEST;
  if (u.undefFext >= 0 && fext) d.f[u.undefFext] = TEST;
  if (kverr > 0)
    for (int v = 0; v < nvar; v++) { d.v.push_back(VD(n)); for (int i = 0; i < n; i++) d.v[v][i] = verr_value(kverr, i, v); }
  return d;
}

// ------------------------------------------------------------------------------------------------- transformations
inline KData permuted(const KData& d, const std::vector<int>& perm)  // new sample j = old sample perm[j]
{
  KData r = d;
  int n = d.n();
  auto P = [&](VD& a, const VD& b) { for (int j = 0; j < n; j++) a[j] = b[perm[j]]; };
  for (int k = 0; k < d.ndim; k++) P(r.x[k], d.x[k]);
  for (int v = 0; v < d.nvar; v++) P(r.z[v], d.z[v]);
  for (size_t v = 0; v < d.v.size(); v++) P(r.v[v], d.v[v]);
  if (!d.f.empty()) P(r.f, d.f);
  return r;
}
inline KData translated(const KData& d, const VD& t)
{
  KData r = d;
  for (int k = 0; k < d.ndim; k++)
  {
    for (double& a : r.x[k]) if (!FFFF(a)) a += t[k];
    for (double& a : r.tx[k]) a += t[k];
    if (d.grid) r.x0[k] += t[k];
  }
  return r;
}

// all lengths multiplied by ls (coordinates of data and targets, grid mesh/origin) and all values by vs (data; measurement
// error variances by vs^2).  Use powers of two: exact.  The model / neighbourhood must be built with the same factors
// (make_model(..., ls, vs), make_neigh(..., ls), KBuilt(d, ..., ls, vs)).
inline KData scaled(const KData& d, double ls, double vs)
{
  KData r = d;
  for (int k = 0; k < d.ndim; k++)
  {
    for (double& a : r.x[k]) if (!FFFF(a)) a *= ls;
    for (double& a : r.tx[k]) a *= ls;
    if (d.grid) { r.dx[k] *= ls; r.x0[k] *= ls; }
  }
  for (auto& zz : r.z) for (double& a : zz) if (!FFFF(a)) a *= vs;
  for (auto& vv : r.v) for (double& a : vv) if (!FFFF(a)) a *= vs * vs;
  return r;
}

// ------------------------------------------------------------------------------------------------- gstlearn objects
inline void set_space(int ndim)
{
  static int cur = -1;
  if (cur != ndim) { defineDefaultSpace(ESpaceType::RN, ndim); cur = ndim; }
}
inline Db* make_dbin(const KData& d)
{
  VVD cols;
  std::vector<std::string> names, locs;
  auto add = [&](const VD& c, const std::string& p, int k) { cols.push_back(c); names.push_back(p + std::to_string(k + 1)); locs.push_back(p + std::to_string(k + 1)); };
  for (int k = 0; k < d.ndim; k++) add(d.x[k], "x", k);
  for (int v = 0; v < d.nvar; v++) add(d.z[v], "z", v);
  for (size_t v = 0; v < d.v.size(); v++) add(d.v[v], "v", (int)v);
  if (!d.f.empty()) add(d.f, "f", 0);
  return make_db(cols, names, locs);
}
inline Db* make_dbout(const KData& d)
{
  if (d.grid)
  {
    VectorInt nx(d.nx.begin(), d.nx.end());
    VectorDouble dx(d.dx.begin(), d.dx.end()), x0(d.x0.begin(), d.x0.end());
    DbGrid* g = DbGrid::create(nx, dx, x0);
    if (!d.f.empty()) g->addColumns(VectorDouble(d.tf.begin(), d.tf.end()), "f1", ELoc::F, 0);
    return g;
  }
  VVD cols;
  std::vector<std::string> names, locs;
  for (int k = 0; k < d.ndim; k++) { cols.push_back(d.tx[k]); names.push_back("x" + std::to_string(k + 1)); locs.push_back(names.back()); }
  if (!d.f.empty()) { cols.push_back(d.tf); names.push_back("f1"); locs.push_back("f1"); }
  return make_db(cols, names, locs);
}

// ---- models
inline int model_count() { return 12; }
inline bool model_is_intrinsic(int k) { return k == 9; }
inline const char* model_name(int k)
{
  static const char* N[12] = {"nugget", "spherical", "exponential", "gaussian+nugget", "cubic", "nugget+spherical", "nugget+spherical-aniso", "nugget+spherical-aniso-rot30",
                              "nugget+spherical-aniso-rot90", "linear", "exponential+spherical", "gaussian"};
  return N[k];
}
inline VectorDouble sill_matrix(int nvar, double s, int which)
{
  static const double B[2][3][3] = {{{1, .5, -.25}, {.5, 1, .25}, {-.25, .25, 1}}, {{1, -.5, .25}, {-.5, .75, 0}, {.25, 0, .5}}};
  VectorDouble m(nvar * nvar);
  for (int i = 0; i < nvar; i++)
    for (int j = 0; j < nvar; j++) m[i * nvar + j] = s * B[which][i][j];
  return m;
}
struct Struct { ECov type; double range, sill; bool aniso; int rot; };
inline std::vector<Struct> model_structs(int k)
{
  switch (k)
  {
    case 0: return {{ECov::NUGGET, 0, 2, false, 0}};
    case 1: return {{ECov::SPHERICAL, 4, 2, false, 0}};
    case 2: return {{ECov::EXPONENTIAL, 3, 1.5, false, 0}};
    case 3: return {{ECov::GAUSSIAN, 2, 1, false, 0}, {ECov::NUGGET, 0, .25, false, 0}};
    case 4: return {{ECov::CUBIC, 5, 1, false, 0}};
    case 5: return {{ECov::NUGGET, 0, .5, false, 0}, {ECov::SPHERICAL, 4, 2, false, 0}};
    case 6: return {{ECov::NUGGET, 0, .5, false, 0}, {ECov::SPHERICAL, 4, 2, true, 0}};
    case 7: return {{ECov::NUGGET, 0, .5, false, 0}, {ECov::SPHERICAL, 4, 2, true, 1}};
    case 8: return {{ECov::NUGGET, 0, .5, false, 0}, {ECov::SPHERICAL, 4, 2, true, 2}};
    case 9: return {{ECov::LINEAR, 1, 1, false, 0}};
    case 10: return {{ECov::EXPONENTIAL, 2, 1, false, 0}, {ECov::SPHERICAL, 6, 1.5, false, 0}};
    default: return {{ECov::GAUSSIAN, 2, 1, false, 0}};
  }
}
inline int drift_count() { return 7; }
inline bool drift_known_mean(int k) { return k <= 1; }
inline int drift_order(int k) { return k == 2 || k == 5 ? 0 : (k == 3 || k == 6) ? 1 : k == 4 ? 2 : -1; }
inline bool drift_fext(int k) { return k >= 5; }
inline double known_mean(int kdrift, int ivar) { static const double M[3] = {123, -7, .5}; return kdrift == 1 ? M[ivar] : 0.; }
inline const char* drift_name(int k)
{
  static const char* N[7] = {"SK-mean0", "SK-mean123", "OK", "UK-order1", "UK-order2", "OK+fext", "UK-order1+fext"};
  return N[k];
}
// number of drift functions of a variable (monomials of degree <= order in ndim variables, + external)
inline int drift_nbfl(int ndim, int kdrift)
{
  int o = drift_order(kdrift);
  if (o < 0) return 0;
  int nb = o == 0 ? 1 : o == 1 ? 1 + ndim : 1 + ndim + ndim * (ndim + 1) / 2;
  return nb + (drift_fext(kdrift) ? 1 : 0);
}
// ls: factor on all ranges; vs: factor on the values (sills x vs^2, known means x vs)
inline Model* make_model(int ndim, int nvar, int kmodel, int kdrift, double ls = 1., double vs = 1.)
{
  set_space(ndim);
  static const double RATIO[3] = {1, .5, .75};
  std::vector<Struct> ss = model_structs(kmodel);
  Model* m = nullptr;
  for (size_t j = 0; j < ss.size(); j++)
  {
    const Struct& s = ss[j];
    VectorDouble ranges(ndim), angles;
    for (int k = 0; k < ndim; k++) ranges[k] = ls * s.range * (s.aniso ? RATIO[k] : 1.);
    if (s.rot && ndim >= 2)
    {
      angles = VectorDouble(ndim, 0.);
      if (s.rot == 1) { angles[0] = 30; if (ndim == 3) { angles[1] = 20; angles[2] = 10; } }
      else angles[0] = 90;
    }
    VectorDouble sills = sill_matrix(nvar, s.sill * vs * vs, (int)(j % 2));
    if (m == nullptr) m = Model::createFromParam(s.type, ls * s.range, s.sill * vs * vs, 1., ranges, sills, angles);
    else m->addCovFromParam(s.type, ls * s.range, s.sill * vs * vs, 1., ranges, sills, angles);
  }
  // drift AFTER the covariances (addCovFromParam rebuilds the context, hence resets the means)
  if (drift_known_mean(kdrift))
    for (int v = 0; v < nvar; v++) m->setMean(vs * known_mean(kdrift, v), v);
  else
    m->setDriftIRF(drift_order(kdrift), drift_fext(kdrift) ? 1 : 0);
  return m;
}

// ---- neighbourhoods
inline int neigh_count() { return 7; }
inline bool neigh_valid(int ndim, int k) { return !(ndim == 1 && (k == 4 || k == 6)); }
inline bool neigh_unique(int k) { return k == 0; }
inline const char* neigh_name(int k)
{
  static const char* N[7] = {"unique", "moving-nmaxi2", "moving-nmaxi3", "moving-radius3", "moving-4sectors", "moving-nmini3-radius4", "moving-aniso-rot"};
  return N[k];
}
inline ANeigh* make_neigh(int ndim, int k, double ls = 1.)
{
  set_space(ndim);
  switch (k)
  {
    case 0: return NeighUnique::create();
    case 1: return NeighMoving::create(false, 2);
    case 2: return NeighMoving::create(false, 3);
    case 3: return NeighMoving::create(false, 1000, 3. * ls);
    case 4: return NeighMoving::create(false, 1000, TEST, 1, 4, 1);
    case 5: return NeighMoving::create(false, 1000, 4. * ls, 3);
    default:
    {
      static const double CO[3] = {1, .5, .75};
      VectorDouble coeffs(ndim), angles(ndim, 0.);
      for (int a = 0; a < ndim; a++) coeffs[a] = CO[a];
      angles[0] = 30;
      return NeighMoving::create(false, 3, 4. * ls, 1, 1, ITEST, coeffs, angles);
    }
  }
}

// Everything needed for one call of kriging()/krigtest(); owns the objects.
struct KBuilt
{
  Db* dbin = nullptr; Db* dbout = nullptr; Model* model = nullptr; ANeigh* neigh = nullptr;
  EKrigOpt calcul = EKrigOpt::POINT;
  VectorInt ndiscs;
  KBuilt(const KData& d, int kmodel, int kdrift, int kneigh, double ls = 1., double vs = 1.)
  {
    set_space(d.ndim);
    dbin = make_dbin(d);
    dbout = make_dbout(d);
    model = make_model(d.ndim, d.nvar, kmodel, kdrift, ls, vs);
    neigh = make_neigh(d.ndim, kneigh, ls);
    if (d.grid && !d.ndiscs.empty()) { calcul = EKrigOpt::BLOCK; ndiscs = VectorInt(d.ndiscs.begin(), d.ndiscs.end()); }
  }
  KBuilt(const KBuilt&) = delete;
  ~KBuilt() { delete dbin; delete dbout; delete model; delete neigh; }
};

// Is the combination one the API documents as valid?  (intrinsic model needs a drift; order-2 drift is offered in 1-D/2-D
// only by the design; external drift flag must match the data)
inline bool combo_valid(int ndim, int kmodel, int kdrift, int kneigh)
{
  if (model_is_intrinsic(kmodel) && drift_known_mean(kdrift)) return false;
  if (drift_order(kdrift) == 2 && ndim == 3) return false;
  return neigh_valid(ndim, kneigh);
}

// ------------------------------------------------------------------------------------------------- drift monomials (closed form)
// f_l(x), l = 0..: 1 ; x_1..x_d ; then all products x_a*x_b (a<=b).  The ORDER is the harness's own: results that depend only
// on the span (weights, estimate, variances) may be compared with the library, Lagrange multipliers may not.
inline VD drift_functions(int ndim, int kdrift, const double* x, double fext)
{
  VD f;
  int o = drift_order(kdrift);
  if (o < 0) return f;
  f.push_back(1.);
  if (o >= 1) for (int a = 0; a < ndim; a++) f.push_back(x[a]);
  if (o >= 2) for (int a = 0; a < ndim; a++) for (int b = a; b < ndim; b++) f.push_back(x[a] * x[b]);
  if (drift_fext(kdrift)) f.push_back(fext);
  return f;
}

// ------------------------------------------------------------------------------------------------- dense long double solve
typedef long double LD;
struct LDMat
{
  int n = 0;
  std::vector<LD> a;
  LDMat() {}
  explicit LDMat(int n_) : n(n_), a((size_t)n_ * n_, 0.L) {}
  LD& operator()(int i, int j) { return a[(size_t)i * n + j]; }
  LD operator()(int i, int j) const { return a[(size_t)i * n + j]; }
  LD norm1() const
  {
    LD m = 0;
    for (int j = 0; j < n; j++) { LD s = 0; for (int i = 0; i < n; i++) s += fabsl((*this)(i, j)); m = std::max(m, s); }
    return m;
  }
};
// Gauss-Jordan with FULL pivoting.  Returns false when a pivot is below 1e-13 * (largest entry): singular for our dyadic menus.
inline bool ld_invert(const LDMat& A, LDMat& inv)
{
  int n = A.n;
  LDMat w = A;
  inv = LDMat(n);
  for (int i = 0; i < n; i++) inv(i, i) = 1;
  LD big = 0;
  for (LD v : A.a) big = std::max(big, fabsl(v));
  if (n == 0) return true;
  if (big == 0) return false;
  std::vector<int> colperm(n);
  for (int i = 0; i < n; i++) colperm[i] = i;
  for (int k = 0; k < n; k++)
  {
    int pi = k, pj = k; LD best = -1;
    for (int i = k; i < n; i++)
      for (int j = k; j < n; j++)
        if (fabsl(w(i, j)) > best) { best = fabsl(w(i, j)); pi = i; pj = j; }
    if (best <= 1e-13L * big) return false;
    if (pi != k) for (int j = 0; j < n; j++) { std::swap(w(pi, j), w(k, j)); std::swap(inv(pi, j), inv(k, j)); }
    if (pj != k) { for (int i = 0; i < n; i++) std::swap(w(i, pj), w(i, k)); std::swap(colperm[pj], colperm[k]); }
    LD p = w(k, k);
    for (int j = 0; j < n; j++) { w(k, j) /= p; inv(k, j) /= p; }
    for (int i = 0; i < n; i++)
    {
      if (i == k) continue;
      LD f = w(i, k);
      if (f == 0) continue;
      for (int j = 0; j < n; j++) { w(i, j) -= f * w(k, j); inv(i, j) -= f * inv(k, j); }
    }
  }
  // undo the column permutation: row k of inv currently is the solution component colperm[k]
  LDMat r(n);
  for (int k = 0; k < n; k++) for (int j = 0; j < n; j++) r(colperm[k], j) = inv(k, j);
  inv = r;
  return true;
}
}  // namespace krig
}  // namespace vf
