// gstlearn-side helpers shared by the harnesses: silencing, Db builders, raw table snapshot.
#pragma once
#include "vf/common.hpp"

#include "geoslib_io.h"
#include "Basic/AStringable.hpp"
#include "Basic/Law.hpp"
#include "Basic/OptDbg.hpp"
#include "Basic/VectorHelper.hpp"
#include "Db/Db.hpp"
#include "Db/DbGrid.hpp"
#include "Enum/ELoadBy.hpp"
#include "Enum/ELoc.hpp"

namespace vf
{
inline void quiet_write(const char*) {}
// All library messages are dropped (they are not part of any oracle).
inline void silence()
{
  redefine_message(quiet_write);
  redefine_error(quiet_write);
}

// Db from column-major coordinate/value arrays. cols[k] has one value per sample.
inline Db* make_db(const std::vector<std::vector<double>>& cols, const std::vector<std::string>& names,
                   const std::vector<std::string>& locs, bool rank = false)
{
  int nech = cols.empty() ? 0 : (int)cols[0].size();
  VectorDouble tab;
  for (auto& c : cols) for (double v : c) tab.push_back(v);
  VectorString nm(names.begin(), names.end());
  VectorString lc(locs.begin(), locs.end());
  return Db::createFromSamples(nech, ELoadBy::COLUMN, tab, nm, lc, rank);
}

// coordinates x1..xd + variables z1..zn
inline Db* make_db_xz(const std::vector<std::vector<double>>& x, const std::vector<std::vector<double>>& z)
{
  std::vector<std::vector<double>> cols;
  std::vector<std::string> names, locs;
  for (size_t d = 0; d < x.size(); d++) { cols.push_back(x[d]); names.push_back("x" + std::to_string(d + 1)); locs.push_back("x" + std::to_string(d + 1)); }
  for (size_t v = 0; v < z.size(); v++) { cols.push_back(z[v]); names.push_back("z" + std::to_string(v + 1)); locs.push_back("z" + std::to_string(v + 1)); }
  return make_db(cols, names, locs);
}

// Bit-exact snapshot of everything observable in a Db (names, roles, uid table, values)
inline std::string db_snapshot(const Db* db)
{
  std::ostringstream o;
  o.precision(17);
  o << "ncol=" << db->getColumnNumber() << " nech=" << db->getSampleNumber() << "\n";
  for (int ic = 0; ic < db->getColumnNumber(); ic++)
  {
    ELoc lt; int li;
    o << ic << ":" << db->getNameByColIdx(ic) << " uid=" << db->getUIDByColIdx(ic);
    if (db->getLocatorByColIdx(ic, &lt, &li)) o << " loc=" << lt.getKey() << li;
    o << " :";
    for (int ie = 0; ie < db->getSampleNumber(); ie++)
    {
      double v = db->getValueByColIdx(ie, ic);
      uint64_t b; memcpy(&b, &v, 8);
      o << " " << std::hex << b << std::dec;
    }
    o << "\n";
  }
  return o.str();
}
}  // namespace vf
