// Corpus of serialisable gstlearn classes shared by C08 (save/reload round trip) and C09 (hostile files).
// One ClassDef per class: a finite builder menu (vf::Space), a list of public getters ("fingerprint"),
// a behavioural probe, the file loader, and (for C09) structural invariants of a loaded object.
#pragma once
#include "vf/gst.hpp"

#include "Anamorphosis/AnamDiscreteDD.hpp"
#include "Anamorphosis/AnamDiscreteIR.hpp"
#include "Anamorphosis/AnamEmpirical.hpp"
#include "Anamorphosis/AnamHermite.hpp"
#include "Db/DbGraphO.hpp"
#include "Db/DbLine.hpp"
#include "Db/DbMeshStandard.hpp"
#include "Db/DbMeshTurbo.hpp"
#include "Faults/Faults.hpp"
#include "Fractures/FracEnviron.hpp"
#include "Fractures/FracFamily.hpp"
#include "Fractures/FracFault.hpp"
#include "LithoRule/Rule.hpp"
#include "LithoRule/RuleShadow.hpp"
#include "LithoRule/RuleShift.hpp"
#include "Matrix/NF_Triplet.hpp"
#include "Mesh/MeshEStandard.hpp"
#include "Mesh/MeshETurbo.hpp"
#include "Mesh/MeshSpherical.hpp"
#include "Neigh/NeighBench.hpp"
#include "Neigh/NeighCell.hpp"
#include "Neigh/NeighImage.hpp"
#include "Variogram/DirParam.hpp"
#include "Variogram/Vario.hpp"
#include "Variogram/VarioParam.hpp"
#include "Basic/ASerializable.hpp"
#include "Basic/PolyLine2D.hpp"
#include "Covariances/CovAniso.hpp"
#include "Covariances/CovContext.hpp"
#include "Db/Db.hpp"
#include "Db/DbGrid.hpp"
#include "Drifts/ADrift.hpp"
#include "Drifts/DriftF.hpp"
#include "Drifts/DriftM.hpp"
#include "Enum/ECov.hpp"
#include "Geometry/BiTargetCheckDistance.hpp"
#include "Geometry/GeometryHelper.hpp"
#include "Matrix/Table.hpp"
#include "Model/Model.hpp"
#include "Neigh/NeighMoving.hpp"
#include "Neigh/NeighUnique.hpp"
#include "Polygon/PolyElem.hpp"
#include "Polygon/Polygons.hpp"
#include "Space/SpacePoint.hpp"
#include "Space/SpaceRN.hpp"

#include <memory>
#include <map>
#include <set>
#include <fstream>

namespace vfc
{
using namespace vf;

// ---------------------------------------------------------------------------------------------
// Fingerprint: ordered list of labelled values. A label is "<group>:<detail>"; the finding key of a
// mismatch is built from the group only (mechanism), the detail goes to the human text.
struct Fp
{
  struct E { std::string k; int kind; double d; double scale; std::string s; double tol = 1e-14; };  // kind 0 double, 1 integer, 2 string
  std::vector<E> e;
  void D(const std::string& k, double v, double scale = 0., double tol = 1e-14) { e.push_back({k, 0, v, scale, "", tol}); }
  // behavioural answers computed from several stored parameters: 1e-12 of the natural scale
  void B(const std::string& k, double v, double scale = 1.) { D(k, v, scale, 1e-12); }
  void I(const std::string& k, long v) { e.push_back({k, 1, (double)v, 0., ""}); }
  void S(const std::string& k, const std::string& v) { e.push_back({k, 2, 0., 0., v}); }
  template<class V> void VD(const std::string& k, const V& v, double scale = 0.)
  {
    I(k + ".size", (long)v.size());
    for (size_t i = 0; i < v.size(); i++) D(k + "[" + std::to_string(i) + "]", v[i], scale);
  }
  template<class V> void VI(const std::string& k, const V& v)
  {
    I(k + ".size", (long)v.size());
    for (size_t i = 0; i < v.size(); i++) I(k + "[" + std::to_string(i) + "]", v[i]);
  }
  uint64_t hash() const
  {
    Hash h;
    for (auto& x : e) { h.s(x.k).i(x.kind); if (x.kind == 2) h.s(x.s); else h.d(x.d); }
    return h.h;
  }
};
inline bool isUndef(double v) { return v > 1.e29 && v < 1.e31 && FFFF(v); }
// 15-significant-digit rule of the format: relative 1e-14; undefined stays undefined; NaN == NaN
inline bool same_double(double a, double b, double scale, double tol = 1e-14)
{
  if (FFFF(a) || FFFF(b)) return FFFF(a) && FFFF(b);
  if (std::isnan(a) || std::isnan(b)) return std::isnan(a) && std::isnan(b);
  if (std::isinf(a) || std::isinf(b)) return a == b;
  double m = std::max({scale, std::fabs(a), std::fabs(b)});
  return std::fabs(a - b) <= tol * m;
}
inline std::string group_of(const std::string& label) { size_t p = label.find(':'); return p == std::string::npos ? label : label.substr(0, p); }
struct FpMismatch { std::string group, text; };
inline std::vector<FpMismatch> fp_diff_all(const Fp& a, const Fp& b);
// "" when equivalent; otherwise text of the first mismatch and *group = its group
inline std::string fp_diff(const Fp& a, const Fp& b, std::string* group)
{
  size_t n = std::min(a.e.size(), b.e.size());
  for (size_t i = 0; i < n; i++)
  {
    const auto &x = a.e[i], &y = b.e[i];
    if (x.k != y.k || x.kind != y.kind)
    {
      *group = group_of(x.k);
      return "entry #" + std::to_string(i) + " is '" + x.k + "' in the original and '" + y.k + "' after reload";
    }
    bool ok = x.kind == 2 ? x.s == y.s : x.kind == 1 ? x.d == y.d : same_double(x.d, y.d, std::max(x.scale, y.scale), std::max(x.tol, y.tol));
    if (!ok)
    {
      *group = group_of(x.k);
      return x.k + ": original=" + (x.kind == 2 ? x.s : fmt(x.d)) + " reloaded=" + (y.kind == 2 ? y.s : fmt(y.d));
    }
  }
  if (a.e.size() != b.e.size())
  {
    const auto& x = a.e.size() > n ? a.e[n] : b.e[n];
    *group = group_of(x.k);
    return "fingerprints have " + std::to_string(a.e.size()) + " vs " + std::to_string(b.e.size()) + " entries; first extra: " + x.k;
  }
  return "";
}

// first mismatch of EVERY group (a known defect in one group must not hide a new one in another group).
// Entries are matched by label (+ occurrence rank for repeated labels); an entry present on one side only is reported under
// "<group>-layout" (different number of items), a differing value under "<group>".
inline std::vector<FpMismatch> fp_diff_all(const Fp& a, const Fp& b)
{
  std::vector<FpMismatch> out;
  auto seen = [&](const std::string& g) { for (auto& m : out) if (m.group == g) return true; return false; };
  auto keyed = [](const Fp& f) {
    std::vector<std::string> k; std::map<std::string, int> occ;
    for (auto& x : f.e) { int n = occ[x.k]++; k.push_back(n ? x.k + "{" + std::to_string(n) + "}" : x.k); }
    return k; };
  std::vector<std::string> ka = keyed(a), kb = keyed(b);
  std::map<std::string, const Fp::E*> mb;
  for (size_t i = 0; i < b.e.size(); i++) mb[kb[i]] = &b.e[i];
  std::set<std::string> sa(ka.begin(), ka.end());
  for (size_t i = 0; i < a.e.size(); i++)
  {
    const Fp::E& x = a.e[i];
    std::string g = group_of(x.k);
    auto it = mb.find(ka[i]);
    if (it == mb.end()) { if (!seen(g + "-layout")) out.push_back({g + "-layout", "'" + ka[i] + "' exists in the original only"}); continue; }
    if (seen(g)) continue;
    const Fp::E& y = *it->second;
    bool ok = x.kind == y.kind && (x.kind == 2 ? x.s == y.s : x.kind == 1 ? x.d == y.d : same_double(x.d, y.d, std::max(x.scale, y.scale), std::max(x.tol, y.tol)));
    if (!ok) out.push_back({g, ka[i] + ": original=" + (x.kind == 2 ? x.s : fmt(x.d)) + " reloaded=" + (y.kind == 2 ? y.s : fmt(y.d))});
  }
  for (size_t i = 0; i < b.e.size(); i++)
    if (!sa.count(kb[i])) { std::string g = group_of(b.e[i].k) + "-layout"; if (!seen(g)) out.push_back({g, "'" + kb[i] + "' exists after reload only"}); }
  return out;
}

// ---------------------------------------------------------------------------------------------
struct ClassDef
{
  std::string name;                                                     // class name (registry key)
  std::string keyname;                                                  // name used in finding keys (defaults to name)
  bool aux = false;                                                     // additional menu of a class already registered (skipped by tag_refusal)
  std::function<Space(bool thorough)> space;                            // builder menu
  std::function<ASerializable*(const std::vector<int>& idx)> build;     // new object (caller deletes) or nullptr = combination not admissible
  std::function<ASerializable*()> fresh;                                // empty object to deserialize into
  std::function<ASerializable*(const std::string& path)> fromNF;        // X::createFromNF (nullptr result = refused); empty = class has none
  std::function<void(const ASerializable*, Fp&)> getters;               // public getters
  std::function<void(ASerializable*, Fp&)> probe;                       // behavioural probe (may be empty)
  std::function<std::string(ASerializable*)> invariants;                // C09: "" or name of the broken structural invariant
  std::function<bool(const std::vector<int>& idx)> nontrivial;          // the case exercises an optional branch of the format
  std::vector<std::vector<int>> corpus;                                 // C09: small instances (indices in the thorough space)
};
inline std::vector<ClassDef>& classes() { static std::vector<ClassDef> v; return v; }
inline const ClassDef* find_class(const std::string& n) { for (auto& c : classes()) if (c.name == n) return &c; return nullptr; }

// Case identifiers are enumeration ranks, and the enumerated space depends on the tier: the rank is therefore prefixed with
// the tier letter ("q123" / "t123"). In replay mode this strips the letter from C.only_case and selects that tier, whatever
// --tier says. Returns the letter to prepend to the case strings of the current run.
inline std::string case_tier(Ctx& C)
{
  if (!C.only_case.empty() && (C.only_case[0] == 'q' || C.only_case[0] == 't'))
  {
    C.tier = C.only_case[0] == 'q' ? "quick" : "thorough";
    C.only_case = C.only_case.substr(1);
  }
  return C.thorough() ? "t" : "q";
}

inline std::string nf_tag(const ASerializable* o) { return o->_getNFName(); }
inline bool to_text(const ASerializable* o, std::string& text)
{
  std::ostringstream os;
  bool ok = o->serialize(os, false);
  text = os.str();
  return ok;
}
inline bool from_text(ASerializable* o, const std::string& text)
{
  std::istringstream is(text);
  return o->deserialize(is, false);
}
inline std::string scratch_path(const std::string& tag)
{
  const char* s = getenv("VF_SCRATCH");
  std::string d = s ? s : "/tmp";
  return d + "/vfc_" + std::to_string((long)getpid()) + "_" + tag;
}
inline bool write_file(const std::string& path, const std::string& content)
{
  FILE* f = fopen(path.c_str(), "wb");
  if (!f) return false;
  size_t n = content.empty() ? 0 : fwrite(content.data(), 1, content.size(), f);
  fclose(f);
  return n == content.size();
}
inline bool read_file(const std::string& path, std::string& content)
{
  std::ifstream f(path, std::ios::binary);
  if (!f) return false;
  std::ostringstream o; o << f.rdbuf(); content = o.str();
  return true;
}

inline int& extreme_counter();   // slot counter of the value sets of formatting extremes (defined below)
inline bool& nf_verbose() { static bool v = false; return v; }   // verbose argument passed to createFromNF (C09 sets it for some faults)
template<class T> struct Reg
{
  ClassDef d;
  Reg(const std::string& name, const std::string& keyname = "")
  {
    d.name = name;
    d.keyname = keyname.empty() ? name : keyname;
    d.aux = !keyname.empty();
    if constexpr (std::is_default_constructible_v<T>) d.fresh = []() -> ASerializable* { return new T(); };
  }
  Reg& fresh(std::function<T*()> f) { d.fresh = [f]() -> ASerializable* { return f(); }; return *this; }
  Reg& space(std::function<Space(bool)> f) { d.space = f; return *this; }
  Reg& build(std::function<T*(const std::vector<int>&)> f) { d.build = [f](const std::vector<int>& i) -> ASerializable* { extreme_counter() = 0; T* t = f(i); return t; }; return *this; }
  Reg& fromNF(std::function<T*(const std::string&)> f) { d.fromNF = [f](const std::string& p) -> ASerializable* { return f(p); }; return *this; }
  Reg& getters(std::function<void(const T&, Fp&)> f) { d.getters = [f](const ASerializable* o, Fp& fp) { f(*dynamic_cast<const T*>(o), fp); }; return *this; }
  Reg& probe(std::function<void(T&, Fp&)> f) { d.probe = [f](ASerializable* o, Fp& fp) { f(*dynamic_cast<T*>(o), fp); }; return *this; }
  Reg& invariants(std::function<std::string(T&)> f) { d.invariants = [f](ASerializable* o) { return f(*dynamic_cast<T*>(o)); }; return *this; }
  Reg& nontrivial(std::function<bool(const std::vector<int>&)> f) { d.nontrivial = f; return *this; }
  Reg& corpus(std::vector<std::vector<int>> c) { d.corpus = c; return *this; }
  void done() { classes().push_back(d); }
};

// value menu of the design: exact zero, negative zero, unit, negative dyadic, non terminating, extreme magnitudes,
// more than 15 significant digits, undefined
inline const std::vector<double>& special_values()
{
  static const std::vector<double> v = {0., -0.0, 1., -1.5, 1. / 3., 1e-300, 1e300, 123456789.123456789, TEST, -2.5e-7, 1024.};
  return v;
}
// Formatting extremes (value sets 100, 101, ...): the longest texts "%.15g" can produce (sign + 15 digits + 3-digit exponent),
// the largest / smallest normal and denormal magnitudes, values needing exactly 15 / 16 / 17 significant digits, 15-16 digit integers.
// All the values written with 15 digits below are exactly the doubles nearest to these decimals: they must come back bit for bit.
inline const std::vector<double>& extreme_values()
{
  static const std::vector<double> v = {
    -1.23456789012345e-100, 1.23456789012345e+100, -1.23456789012345e+100, 1.23456789012345e-100,
    -9.99999999999999e+307, 9.99999999999999e-307, -9.99999999999999e-307, 9.99999999999999e+307,
    -1.23456789012345e-300, 4.94065645841247e-324, -4.94065645841247e-324, 1.79769313486231e308, -1.79769313486231e308,
    0.1 + 0.2, 1. / 3., -2. / 3., 1e15 + 0.3, -0.0, 123456789012345., -1234567890123456., 999999999999999., 0.1, -1e-5, 1e21, -1e22,
    2.2250738585072e-308, -2.2250738585072e-308, 1.5, -123456789.012345, 1e100, -1e-100, 5e-324, 1e16, 100000000000000., TEST};
  return v;
}
inline const int EXTREME_STRIDE = 7;
inline int n_extreme_sets() { return ((int)extreme_values().size() + EXTREME_STRIDE - 1) / EXTREME_STRIDE; }   // windows needed to see every value in an object with >= 7 slots
inline int& extreme_counter() { static int c = 0; return c; }   // slot counter of the object being built (reset by Reg::build)
// axis value -> value set: the first `nold` axis values keep their historical meaning (the C09 corpus texts depend on them),
// the following ones select the windows of formatting extremes
inline int vset_of(int axisvalue, int nold) { return axisvalue < nold ? axisvalue : 100 + (axisvalue - nold); }
inline double pick_value(int vset, int i, int j)
{
  if (vset >= 100)
  {
    const auto& e = extreme_values();
    return e[(size_t)((vset - 100) * EXTREME_STRIDE + extreme_counter()++) % e.size()];
  }
  if (vset == 0) return (double)((i * 3 + j * 5) % 7) - 2.;           // small integers
  const auto& s = special_values();
  return s[(size_t)(i * 4 + j * 3 + vset) % s.size()];
}
inline VectorDouble rotmat_values(int ndim, const VectorDouble& angles)
{
  VectorDouble r(ndim * ndim);
  VectorDouble a = angles; a.resize(ndim, 0.);
  GH::rotationMatrixInPlace(ndim, a, r);
  return r;
}

// ---------------------------------------------------------------------------------------------
// Db family helpers
inline void db_getters(const Db& db, Fp& fp)
{
  fp.I("dims:ncol", db.getColumnNumber());
  fp.I("dims:nech", db.getSampleNumber());
  fp.I("dims:ndim", db.getNDim());
  for (int ic = 0; ic < db.getColumnNumber(); ic++)
  {
    fp.S("name:col" + std::to_string(ic), db.getNameByColIdx(ic));
    ELoc lt; int li;
    if (db.getLocatorByColIdx(ic, &lt, &li)) fp.S("locator:col" + std::to_string(ic), std::string(lt.getKey()) + "#" + std::to_string(li));
    else fp.S("locator:col" + std::to_string(ic), "none");
    for (int ie = 0; ie < db.getSampleNumber(); ie++)
      fp.D("value:col" + std::to_string(ic) + ",sample" + std::to_string(ie), db.getValueByColIdx(ie, ic));
  }
}
inline void db_probe(Db& db, Fp& fp)
{
  fp.I("query:nactive", db.getSampleNumber(true));
  fp.I("query:nvar", db.getLocNumber(ELoc::Z));
  fp.VD("query:coor-extrema-min", db.getCoorMinimum(true));
  auto names = db.getAllNames();
  fp.I("query:nnames", (long)names.size());
  for (auto& n : names) fp.VD("query:column(" + n + ")", db.getColumn(n, true));
}
inline std::string db_invariants(Db& db)
{
  int ncol = db.getColumnNumber(), nech = db.getSampleNumber();
  if (ncol < 0 || nech < 0) return "negative-dimension";
  if ((long)db._array.size() != (long)ncol * (long)nech) return "array-size";
  if ((int)db._colNames.size() != ncol) return "names-size";
  for (int ic = 0; ic < ncol; ic++)
  {
    int uid = db.getUIDByColIdx(ic);
    if (uid < 0 || db.getColIdxByUID(uid) != ic) return "uid-map";
  }
  auto it = ELoc::getIterator();
  while (it.hasNext())
  {
    if (*it != ELoc::UNKNOWN)
    {
      int n = db.getLocNumber(*it);
      for (int k = 0; k < n; k++)
      {
        int uid = db.getUIDByLocator(*it, k);
        if (uid < 0 || !db.isUIDValid(uid) || db.getColIdxByUID(uid) < 0 || db.getColIdxByUID(uid) >= ncol) return "locator-to-missing-column";
      }
    }
    it.toNext();
  }
  return "";
}
// names with and without digits / dots
inline std::string col_name(int nset, const std::string& base, int k)
{
  if (nset == 0) return base + std::to_string(k + 1);
  if (nset == 1) return base + "." + std::to_string(k + 1) + ".b";
  return std::to_string(k + 1) + base + "_v2";
}

inline void register_db()
{
  Reg<Db>("Db")
    .space([](bool th) {
      Space s;
      s.axis("ndim", 3).axis("nvar", 3).axis("nech", 4).axis("vset", 4 + n_extreme_sets()).axis("lset", 3 + 29).axis("nset", th ? 3 : 2);
      return s; })
    .build([](const std::vector<int>& x) -> Db* {
      int ndim = x[0] + 1, nvar = x[1], nech = std::vector<int>{1, 3, 2, 0}[x[2]], vset = vset_of(x[3], 4), lset = x[4], nset = x[5];
      if (x[2] == 3)
      {
        // the empty Db (0 columns, 0 samples: the "ncol > 0" branch of the reader not taken), once
        if (x[0] || x[1] || x[3] || x[4] || x[5]) return nullptr;
        return new Db();
      }
      std::vector<std::vector<double>> cols;
      std::vector<std::string> names, locs;
      int extra = lset >= 2 ? 1 : 0;
      for (int c = 0; c < ndim + nvar + extra; c++)
      {
        std::vector<double> v(nech);
        for (int i = 0; i < nech; i++) v[i] = c < ndim ? (vset == 0 ? (double)(i + c) : pick_value(vset, i, c)) : pick_value(vset, i, c);
        if (c >= ndim + nvar && lset == 2) for (int i = 0; i < nech; i++) v[i] = (double)(i % 2);
        cols.push_back(v);
        names.push_back(c < ndim ? col_name(nset, "x", c) : c < ndim + nvar ? col_name(nset, "z", c - ndim) : col_name(nset, "e", 0));
        locs.push_back(c < ndim ? "x" + std::to_string(c + 1) : c < ndim + nvar ? "z" + std::to_string(c - ndim + 1) : "");
      }
      if (lset == 1) locs.clear();  // no role at all
      Db* db = make_db(cols, names, locs);
      if (db == nullptr) return nullptr;
      if (lset == 2) db->setLocator(names.back(), ELoc::SEL, 0);
      if (lset >= 3)
      {
        ELoc t = ELoc::fromValue(lset - 3);
        if (t == ELoc::UNKNOWN) { delete db; return nullptr; }
        db->setLocator(names.back(), t, 0);
      }
      return db; })
    .fromNF([](const std::string& p) { return Db::createFromNF(p, nf_verbose()); })
    .getters([](const Db& db, Fp& fp) { db_getters(db, fp); })
    .probe([](Db& db, Fp& fp) { db_probe(db, fp); })
    .invariants([](Db& db) { return db_invariants(db); })
    .nontrivial([](const std::vector<int>& x) { return x[3] >= 1 || x[4] >= 1; })
    .corpus({{1, 1, 1, 0, 0, 0}, {0, 1, 0, 1, 2, 1}})
    .done();
}

inline void register_dbgrid()
{
  Reg<DbGrid>("DbGrid")
    .space([](bool th) {
      Space s;
      s.axis("ndim", 3).axis("nxset", th ? 3 : 2).axis("geom", 5).axis("rot", 3).axis("nvar", 2).axis("vset", 4 + n_extreme_sets()).axis("flags", 3);
      return s; })
    .build([](const std::vector<int>& x) -> DbGrid* {
      int ndim = x[0] + 1, nxset = x[1], geom = x[2], rot = x[3], nvar = x[4], vset = vset_of(x[5], 4), flags = x[6];
      static const int NX[3][3] = {{2, 2, 2}, {3, 2, 1}, {1, 4, 3}};
      static const double DX[5][3] = {{1, 1, 1}, {0.5, 2, 0.25}, {0.1, 0.3, 1e-3}, {1e6, 123456789.123456789, 1. / 3.}, {1.23456789012345e+100, 9.99999999999999e-101, 1.23456789012345e-100}};
      static const double X0[5][3] = {{0, 0, 0}, {-1.5, 10, 0.25}, {0.2, 0.4, -1e-7}, {1e9, -1. / 3., 1e-300}, {-1.23456789012345e-100, -1.23456789012345e+100, -9.99999999999999e-307}};
      VectorInt nx(ndim); VectorDouble dx(ndim), x0(ndim), ang(ndim, 0.);
      for (int d = 0; d < ndim; d++) { nx[d] = NX[nxset][d]; dx[d] = DX[geom][d]; x0[d] = X0[geom][d]; }
      if (rot > 0 && ndim == 1) return nullptr;           // no rotation in 1-D
      if (geom == 4 && rot > 0) return nullptr;           // extreme mesh sizes: unrotated (rotated coordinates mix 1e100 and 1e-100)
      if (rot == 1) ang[0] = 30.;
      if (rot == 2) { ang[0] = -45.; if (ndim == 3) { ang[1] = 20.; ang[2] = 10.; } else return nullptr; }
      int ntot = 1; for (int d = 0; d < ndim; d++) ntot *= nx[d];
      VectorDouble tab; VectorString names, locs;
      for (int v = 0; v < nvar; v++)
      {
        names.push_back("z" + std::to_string(v + 1)); locs.push_back("z" + std::to_string(v + 1));
      }
      for (int i = 0; i < ntot; i++) for (int v = 0; v < nvar; v++) tab.push_back(pick_value(vset, i, v));
      return DbGrid::create(nx, dx, x0, ang, ELoadBy::SAMPLE, tab, names, locs, flags != 1, flags != 2); })
    .fromNF([](const std::string& p) { return DbGrid::createFromNF(p, nf_verbose()); })
    .getters([](const DbGrid& g, Fp& fp) {
      fp.I("grid:ndim", g.getNDim());
      for (int d = 0; d < g.getNDim(); d++)
      {
        fp.I("grid:nx" + std::to_string(d), g.getNX(d));
        fp.D("grid:dx" + std::to_string(d), g.getDX(d));
        fp.D("grid:x0" + std::to_string(d), g.getX0(d));
        fp.D("grid:angle" + std::to_string(d), g.getAngle(d));
      }
      db_getters(g, fp); })
    .probe([](DbGrid& g, Fp& fp) {
      db_probe(g, fp);
      // node -> coordinates through the grid geometry
      VectorDouble c(g.getNDim());
      for (int i = 0; i < g.getSampleNumber(); i++) { g.rankToCoordinatesInPlace(i, c); fp.VD("query:node" + std::to_string(i), c, 1.); } })
    .invariants([](DbGrid& g) { std::string s = db_invariants(g); if (!s.empty()) return s; if (!g.isConsistent()) return std::string("grid-size-vs-samples"); return std::string(""); })
    .nontrivial([](const std::vector<int>& x) { return x[3] > 0 || x[5] > 0 || x[2] > 0; })
    .corpus({{1, 0, 1, 0, 1, 0, 0}, {1, 1, 1, 1, 1, 1, 1}})
    .done();
}

// ---------------------------------------------------------------------------------------------
inline void model_getters(const Model& m, Fp& fp)
{
  int ndim = m.getDimensionNumber(), nvar = m.getVariableNumber();
  fp.I("dims:ndim", ndim);
  fp.I("dims:nvar", nvar);
  fp.D("field:field", m.getField());
  fp.I("cova:ncova", m.getCovaNumber());
  for (int ic = 0; ic < m.getCovaNumber(); ic++)
  {
    const CovAniso* c = m.getCova(ic);
    std::string p = "#" + std::to_string(ic);
    fp.S("cova:type" + p, std::string(c->getType().getKey()));
    fp.D("cova:param" + p, c->getParam());
    fp.D("cova:range" + p, c->getRange());
    fp.I("aniso:flagAniso" + p, c->getFlagAniso());
    fp.I("aniso:flagRotation" + p, c->getFlagRotation());
    fp.VD("aniso:ranges" + p, c->getRanges());
    for (int i = 0; i < ndim; i++) for (int j = 0; j < ndim; j++) fp.D("aniso:rotmat" + p + "(" + std::to_string(i) + "," + std::to_string(j) + ")", c->getAnisoRotMat(i, j), 1.);
    for (int i = 0; i < nvar; i++) for (int j = 0; j < nvar; j++) fp.D("sill:sill" + p + "(" + std::to_string(i) + "," + std::to_string(j) + ")", m.getSill(ic, i, j));
  }
  fp.I("drift:ndrift", m.getDriftNumber());
  for (int il = 0; il < m.getDriftNumber(); il++)
  {
    fp.S("drift:name#" + std::to_string(il), m.getDrift(il)->getDriftName());
    // exponents without the trailing zeros (x1 in 2-D is stored as {1,0} by the API and as {1} by the reader: same monomial)
    VectorInt pw = m.getDrift(il)->getPowers();
    while (!pw.empty() && pw[pw.size() - 1] == 0) pw.resize(pw.size() - 1);
    fp.VI("drift:powers#" + std::to_string(il), pw);
    fp.I("drift:rankfex#" + std::to_string(il), m.getDrift(il)->getRankFex());
  }
  for (int i = 0; i < nvar; i++) fp.D("mean:mean" + std::to_string(i), m.getMean(i));
  for (int i = 0; i < nvar; i++) for (int j = 0; j < nvar; j++) fp.D("covar0:c0(" + std::to_string(i) + "," + std::to_string(j) + ")", m.getCovar0(i, j));
}
inline void model_probe(Model& m, Fp& fp)
{
  int ndim = m.getDimensionNumber(), nvar = m.getVariableNumber();
  if (ndim < 1 || ndim > 3 || nvar < 1) return;
  static const double P[5][3] = {{0, 0, 0}, {0.5, 0, 0}, {0.25, 0.75, 0}, {1, -0.5, 0.5}, {-2, 1.25, 3}};
  SpaceRN sp(ndim);
  // the finding group names the type of the first basic structure, so that a defect of one basic structure does not hide another one
  std::string grp = "behaviour(";
  if (m.getCovaNumber() > 0) grp += std::string(m.getCova(0)->getType().getKey());
  grp += ")";
  for (int a = 0; a < 5; a++)
    for (int b = a; b < 5; b++)
    {
      VectorDouble c1(ndim), c2(ndim);
      for (int d = 0; d < ndim; d++) { c1[d] = P[a][d]; c2[d] = P[b][d]; }
      SpacePoint p1(c1, -1, &sp), p2(c2, -1, &sp);
      for (int i = 0; i < nvar; i++) for (int j = 0; j < nvar; j++)
        fp.B(grp + ":cov(p" + std::to_string(a) + ",p" + std::to_string(b) + ")[" + std::to_string(i) + "," + std::to_string(j) + "]", m.eval(p1, p2, i, j), 1.);
    }
  // drift functions on a probe Db (coordinates P, three external drift columns)
  if (m.getDriftNumber() > 0)
  {
    std::vector<std::vector<double>> cols; std::vector<std::string> names, locs;
    for (int d = 0; d < ndim; d++) { std::vector<double> c; for (int a = 0; a < 5; a++) c.push_back(P[a][d] + 0.5); cols.push_back(c); names.push_back("x" + std::to_string(d + 1)); locs.push_back("x" + std::to_string(d + 1)); }
    for (int k = 0; k < 3; k++) { std::vector<double> c; for (int a = 0; a < 5; a++) c.push_back(1. + k + 0.25 * a * (k + 1)); cols.push_back(c); names.push_back("f" + std::to_string(k + 1)); locs.push_back("f" + std::to_string(k + 1)); }
    std::unique_ptr<Db> db(make_db(cols, names, locs));
    for (int il = 0; il < m.getDriftNumber(); il++)
      for (int a = 0; a < 5; a++)
        fp.B("behaviour-drift:drift" + std::to_string(il) + "(p" + std::to_string(a) + ")", m.evalDrift(db.get(), a, il), 1.);
  }
}
struct CovMenu { ECov type; double param; };
inline const std::vector<CovMenu>& cov_menu()
{
  static const std::vector<CovMenu> v = {{ECov::SPHERICAL, 1.}, {ECov::NUGGET, 1.}, {ECov::EXPONENTIAL, 1.}, {ECov::MATERN, 0.5}, {ECov::GAUSSIAN, 1.},
                                          {ECov::CUBIC, 1.}, {ECov::MATERN, 1.75}, {ECov::COSEXP, 2.}, {ECov::LINEAR, 1.}, {ECov::POWER, 1.5}, {ECov::STABLE, 0.75},
                                          // thorough: every other key of the enum that can live in RN (the reader decodes the type by value)
                                          {ECov::SINCARD, 1.}, {ECov::BESSELJ, 1.}, {ECov::GAMMA, 1.5}, {ECov::CAUCHY, 1.5}, {ECov::ORDER1_GC, 1.}, {ECov::SPLINE_GC, 1.},
                                          {ECov::ORDER3_GC, 1.}, {ECov::ORDER5_GC, 1.}, {ECov::COSINUS, 1.}, {ECov::TRIANGLE, 1.}, {ECov::REG1D, 1.}, {ECov::PENTA, 1.},
                                          {ECov::SPLINE2_GC, 1.}, {ECov::STORKEY, 1.}, {ECov::WENDLAND0, 1.}, {ECov::WENDLAND1, 1.}, {ECov::WENDLAND2, 1.}};
  return v;
}
inline void register_model()
{
  Reg<Model>("Model")
    .space([](bool th) {
      Space s;
      s.axis("ndim", 3).axis("nvar", th ? 3 : 2).axis("cov1", th ? (int)cov_menu().size() : 6).axis("cov2", 6).axis("aniso", 4).axis("drift", 6).axis("extra", 4);
      return s; })
    .build([](const std::vector<int>& x) -> Model* {
      int ndim = x[0] + 1, nvar = x[1] + 1, c1 = x[2], c2 = x[3], an = x[4], dr = x[5], ex = x[6];
      if (an >= 2 && ndim == 1) return nullptr;       // rotation needs at least 2-D
      Model* m = new Model(CovContext(nvar, ndim));
      auto sills = [&](int k) {
        VectorDouble s(nvar * nvar, 0.);
        for (int i = 0; i < nvar; i++) for (int j = 0; j < nvar; j++) s[i * nvar + j] = i == j ? 1. + 0.5 * i + k : 0.25;
        return s; };
      auto add = [&](int ic, int k, int aniso) {
        const CovMenu& cm = cov_menu()[ic];
        VectorDouble ranges, angles;
        if (aniso >= 1 && cm.type != ECov::NUGGET) { static const double R[3] = {2., 0.5, 4.}; for (int d = 0; d < ndim; d++) ranges.push_back(R[d]); }
        if (aniso == 2 && cm.type != ECov::NUGGET) { angles = {30.}; angles.resize(ndim, 0.); }
        if (aniso == 3 && cm.type != ECov::NUGGET) { angles = {-45., 20., 10.}; angles.resize(ndim, 0.); }
        m->addCovFromParam(cm.type, 1.5, 1., cm.param, ranges, sills(k), angles, true); };
      add(c1, 0, an);
      if (c2 == 1) add(1, 1, 0);            // + nugget
      if (c2 == 2) add(2, 1, an ? 1 : 0);   // + exponential (anisotropic without rotation when the first one is anisotropic)
      if (c2 == 3) add(6, 2, an);
      if (c2 == 4) { if (c1 || an) { delete m; return nullptr; } m->delAllCovas(); }          // no basic structure at all (count 0), once
      if (c2 == 5) { add(1, 1, 0); add(2, 2, an ? 1 : 0); }                                   // three basic structures
      if (m->getCovaNumber() < 1 && c2 != 4) { delete m; return nullptr; }
      if (dr == 1) m->setDriftIRF(0);
      if (dr == 2) m->setDriftIRF(1);
      if (dr == 3) m->setDriftIRF(1, 1);
      if (dr == 4) m->setDriftIRF(2);
      if (dr == 5) m->setDriftIRF(0, 3);     // three external drifts (ranks 0..2)
      if (dr == 0) for (int i = 0; i < nvar; i++) m->setMean(i == 0 ? -1.5 : 1. / 3., i);
      if (ex >= 1) m->setField(ex == 1 ? 12.5 : 1e6);
      if (ex == 2) for (int i = 0; i < nvar; i++) for (int j = 0; j < nvar; j++) m->setCovar0(i, j, i == j ? 3. : 0.5);
      if (ex == 3)
      {
        // formatting extremes in every stored double (isotropic structures only: anisotropy coefficients are derived quantities)
        if (an != 0 || m->getCovaNumber() < 1) { delete m; return nullptr; }
        m->setField(1.23456789012345e+100);
        if (dr == 0) for (int i = 0; i < nvar; i++) m->setMean(i == 0 ? -1.23456789012345e-100 : -9.99999999999999e+307, i);
        for (int i = 0; i < nvar; i++) for (int j = 0; j < nvar; j++) m->setCovar0(i, j, i == j ? 1.79769313486231e308 : -1.23456789012345e-300);
        for (int ic = 0; ic < m->getCovaNumber(); ic++)
        {
          for (int i = 0; i < nvar; i++) for (int j = 0; j < nvar; j++) m->setSill(ic, i, j, i == j ? 1.23456789012345e+100 * (i + 1) : -1.23456789012345e-100);
          CovAniso* c = m->getCova(ic);
          if (c->hasRange()) c->setRangeIsotropic(ic == 0 ? 1.23456789012345e-100 : 9.99999999999999e+307);
          if (c->hasParam()) c->setParam(c->getType() == ECov::MATERN ? 1.23456789012345 : c->getParam());
        }
      }
      return m; })
    .fromNF([](const std::string& p) { return Model::createFromNF(p, nf_verbose()); })
    .getters([](const Model& m, Fp& fp) { model_getters(m, fp); })
    .probe([](Model& m, Fp& fp) { model_probe(m, fp); })
    .invariants([](Model& m) {
      int nvar = m.getVariableNumber(), ndim = m.getDimensionNumber();
      if (nvar < 0 || ndim < 0) return std::string("negative-dimension");
      for (int ic = 0; ic < m.getCovaNumber(); ic++)
      {
        const CovAniso* c = m.getCova(ic);
        if (c->getSill().getNRows() != nvar || c->getSill().getNCols() != nvar) return std::string("sill-matrix-size");
        if ((int)c->getRanges().size() != ndim) return std::string("ranges-size");
      }
      if ((int)m.getMeans().size() != nvar) return std::string("means-size");
      return std::string(""); })
    .nontrivial([](const std::vector<int>& x) { return x[4] >= 1 || x[5] >= 1 || x[3] >= 1; })
    .corpus({{1, 1, 2, 1, 2, 2, 0}, {1, 0, 0, 0, 0, 0, 0}})
    .done();
}

// all exponent vectors of total degree 1..3 in ndim dimensions, lexicographic
inline std::vector<VectorInt> monomials(int ndim, int maxdeg)
{
  std::vector<VectorInt> v;
  int n = maxdeg + 1, tot = 1; for (int d = 0; d < ndim; d++) tot *= n;
  for (int i = 1; i < tot; i++)
  {
    VectorInt p(ndim); int r = i, deg = 0;
    for (int d = 0; d < ndim; d++) { p[d] = r % n; r /= n; deg += p[d]; }
    if (deg >= 1 && deg <= maxdeg) v.push_back(p);
  }
  return v;
}
// drift-list menu of ModelDrift: one entry = list of (powers | external rank)
struct DriftSpec { VectorInt powers; int fex = -1; };
inline std::vector<std::vector<DriftSpec>> drift_sets(int ndim)
{
  std::vector<std::vector<DriftSpec>> S;
  auto mono = monomials(ndim, 3);
  for (auto& p : mono) S.push_back({DriftSpec{p, -1}});                                   // every single monomial of degree <= 3
  for (int k = 1; k <= 3; k++) { std::vector<DriftSpec> l; for (auto& p : monomials(ndim, k)) l.push_back({p, -1}); S.push_back(l); }   // complete polynomial of degree k
  { std::vector<DriftSpec> l; for (auto& p : mono) { int nz = 0; for (int e : p) nz += e > 0; if (nz >= 2) l.push_back({p, -1}); } if (!l.empty()) S.push_back(l); }   // all mixed monomials
  for (int r = 0; r < 3; r++) S.push_back({DriftSpec{VectorInt(), r}});                   // one external drift of rank r
  S.push_back({DriftSpec{VectorInt(), 0}, DriftSpec{VectorInt(), 1}, DriftSpec{VectorInt(), 2}});
  { std::vector<DriftSpec> l; for (auto& p : mono) l.push_back({p, -1}); l.push_back({VectorInt(), 1}); l.push_back({VectorInt(), 0}); S.push_back(l); }   // everything
  return S;
}
inline void register_model_drift()
{
  Reg<Model>("ModelDrift", "Model")
    .space([](bool) { Space s; s.axis("ndim", 3).axis("nvar", 2).axis("driftset", (int)drift_sets(3).size()).axis("uc", 2).axis("cov", 2); return s; })
    .build([](const std::vector<int>& x) -> Model* {
      int ndim = x[0] + 1, nvar = x[1] + 1;
      auto S = drift_sets(ndim);
      if (x[2] >= (int)S.size()) return nullptr;
      if (x[4] == 1 && ndim == 1) return nullptr;
      Model* m = new Model(CovContext(nvar, ndim));
      VectorDouble sills(nvar * nvar, 0.25); for (int i = 0; i < nvar; i++) sills[i * nvar + i] = 1. + i;
      if (x[4] == 0) m->addCovFromParam(ECov::SPHERICAL, 1.5, 1., 1., VectorDouble(), sills, VectorDouble(), true);
      else { VectorDouble r = {2., 0.5, 4.}; r.resize(ndim); VectorDouble a = {30., 0., 0.}; a.resize(ndim); m->addCovFromParam(ECov::EXPONENTIAL, 1.5, 1., 1., r, sills, a, true); }
      if (x[3]) { DriftM uc; m->addDrift(&uc); }
      for (auto& d : S[x[2]])
      {
        if (d.fex >= 0) { DriftF f(d.fex); m->addDrift(&f); }
        else { DriftM dm(d.powers); m->addDrift(&dm); }
      }
      return m; })
    .fromNF([](const std::string& p) { return Model::createFromNF(p, nf_verbose()); })
    .getters([](const Model& m, Fp& fp) { model_getters(m, fp); })
    .probe([](Model& m, Fp& fp) { model_probe(m, fp); })
    .nontrivial([](const std::vector<int>&) { return true; })
    .done();
}

// ---------------------------------------------------------------------------------------------
// probe data for neighbourhoods: 3x3(x3) lattice of data with one target off-centre
inline Db* neigh_probe_db(int ndim, bool target)
{
  std::vector<std::vector<double>> x(ndim);
  std::vector<double> z;
  if (target)
  {
    static const double T[3][3] = {{0.25, 0.125, -0.25}, {1.5, 0.5, 0.75}, {-1.75, 1.25, 0.5}};
    for (int t = 0; t < 3; t++) { for (int d = 0; d < ndim; d++) x[d].push_back(T[t][d]); }
    return make_db_xz(x, {});
  }
  int n = 1; for (int d = 0; d < ndim; d++) n *= 5;
  for (int i = 0; i < n; i++)
  {
    int r = i;
    for (int d = 0; d < ndim; d++) { x[d].push_back((double)(r % 5) - 2.); r /= 5; }
    z.push_back((double)(i % 4));
  }
  return make_db_xz(x, {z});
}
inline void neigh_probe(ANeigh& ng, Fp& fp)
{
  int ndim = (int)ng.getNDim();
  if (ndim < 1 || ndim > 3) return;
  std::unique_ptr<Db> din(neigh_probe_db(ndim, false)), dout(neigh_probe_db(ndim, true));
  if (ng.attach(din.get(), dout.get()) != 0) { fp.S("behaviour:attach", "refused"); return; }
  for (int t = 0; t < dout->getSampleNumber(); t++)
  {
    VectorInt ranks;
    ng.select(t, ranks);
    std::sort(ranks.begin(), ranks.end());
    fp.VI("behaviour:selected(target" + std::to_string(t) + ")", ranks);
  }
}
inline void register_neigh()
{
  Reg<NeighUnique>("NeighUnique")
    .space([](bool) { Space s; s.axis("ndim", 3).axis("xvalid", 2); return s; })
    .build([](const std::vector<int>& x) -> NeighUnique* { SpaceRN sp(x[0] + 1); return NeighUnique::create(x[1] != 0, &sp); })
    .fromNF([](const std::string& p) { return NeighUnique::createFromNF(p, nf_verbose()); })
    .getters([](const NeighUnique& n, Fp& fp) { fp.I("dims:ndim", n.getNDim()); fp.S("type:type", std::string(n.getType().getKey())); })
    .probe([](NeighUnique& n, Fp& fp) { neigh_probe(n, fp); })
    .nontrivial([](const std::vector<int>& x) { return x[0] != 1; })
    .corpus({{1, 0}})
    .done();

  Reg<NeighMoving>("NeighMoving")
    .space([](bool th) {
      Space s;
      s.axis("ndim", 3).axis("nmaxi", th ? 3 : 2).axis("nmini", 2).axis("sect", 3).axis("radius", th ? 4 : 3).axis("aniso", 4);
      return s; })
    .build([](const std::vector<int>& x) -> NeighMoving* {
      int ndim = x[0] + 1, an = x[5];
      int nmaxi = std::vector<int>{1000, 4, 7}[x[1]], nmini = x[2] ? 3 : 1;
      int nsect = std::vector<int>{1, 4, 8}[x[3]], nsmax = x[3] == 2 ? 2 : ITEST;
      double radius = std::vector<double>{TEST, 2., 1.5, 0.75}[x[4]];
      if (an >= 2 && ndim == 1) return nullptr;
      if (x[3] >= 1 && ndim == 1) return nullptr;   // angular sectors do not exist in 1-D (the count is ignored there)
      VectorDouble coeffs, angles;
      if (an >= 1) { static const double K[3] = {1., 0.5, 2.}; for (int d = 0; d < ndim; d++) coeffs.push_back(K[d]); }
      if (an == 2) { angles = {30.}; angles.resize(ndim, 0.); }
      if (an == 3) { angles = {-45., 20., 10.}; angles.resize(ndim, 0.); }
      SpaceRN sp(ndim);
      return NeighMoving::create(false, nmaxi, radius, nmini, nsect, nsmax, coeffs, angles, &sp); })
    .fromNF([](const std::string& p) { return NeighMoving::createFromNF(p, nf_verbose()); })
    .getters([](const NeighMoving& n, Fp& fp) {
      fp.I("dims:ndim", n.getNDim());
      fp.I("counts:nmini", n.getNMini()); fp.I("counts:nmaxi", n.getNMaxi()); fp.I("counts:nsect", n.getNSect()); fp.I("counts:nsmax", n.getNSMax());
      fp.I("counts:flagSector", n.getFlagSector());
      fp.D("radius:radius", n.getRadius());
      fp.I("aniso:flagAniso", n.getFlagAniso());
      fp.I("aniso:flagRotation", n.getFlagRotation());
      if (n.getFlagAniso())
      {
        fp.VD("aniso:coeffs", n.getAnisoCoeffs());
        fp.VD("aniso:rotmat", n.getAnisoRotMats(), 1.);
      } })
    // in 1-D without anisotropy the distance checker of the ORIGINAL object works on 2 coordinates (reads a coordinate that
    // does not exist): its answers are not defined, so they cannot be an oracle -> no behavioural probe there
    .probe([](NeighMoving& n, Fp& fp) { if (n.getNDim() == 1 && !n.getFlagAniso()) return; neigh_probe(n, fp); })
    .invariants([](NeighMoving& n) {
      if (n._biPtDist == nullptr) return std::string("null-distance-checker");
      if (n.getFlagAniso() && (int)n.getAnisoCoeffs().size() != (int)n.getNDim()) return std::string("aniso-coeffs-size");
      return std::string(""); })
    .nontrivial([](const std::vector<int>& x) { return x[5] >= 1 || x[3] >= 1; })
    .corpus({{1, 1, 0, 0, 1, 0}, {1, 1, 1, 1, 1, 2}})
    .done();
}

// ---------------------------------------------------------------------------------------------
inline void register_table()
{
  Reg<Table>("Table")
    .space([](bool th) { Space s; s.axis("nrows", 4).axis("ncols", 4).axis("vset", 5 + n_extreme_sets()).axis("names", 2); return s; })
    .build([](const std::vector<int>& x) -> Table* {
      int nr = x[0], nc = x[1], vset = vset_of(x[2], 5);
      Table* t = Table::create(nr, nc);
      for (int i = 0; i < nr; i++) for (int j = 0; j < nc; j++) t->setValue(i, j, pick_value(vset, i, j));
      if (x[3])
      {
        VectorString rn, cn;
        for (int i = 0; i < nr; i++) rn.push_back("row" + std::to_string(i));
        for (int j = 0; j < nc; j++) cn.push_back("col." + std::to_string(j));
        t->setRowNames(rn); t->setColumnNames(cn); t->setTitle("title");
      }
      return t; })
    .fromNF([](const std::string& p) { return Table::createFromNF(p, nf_verbose()); })
    .getters([](const Table& t, Fp& fp) {
      fp.I("dims:nrows", t.getNRows()); fp.I("dims:ncols", t.getNCols());
      for (int i = 0; i < t.getNRows(); i++) for (int j = 0; j < t.getNCols(); j++) fp.D("value:(" + std::to_string(i) + "," + std::to_string(j) + ")", t.getValue(i, j, false));
      fp.I("names:nrownames", (long)t.getRowNames().size()); fp.I("names:ncolnames", (long)t.getColumnNames().size());
      for (auto& s : t.getRowNames()) fp.S("names:row", s);
      for (auto& s : t.getColumnNames()) fp.S("names:col", s);
      fp.S("names:title", t.getTitle()); })
    .invariants([](Table& t) {
      if (t.getNRows() < 0 || t.getNCols() < 0) return std::string("negative-dimension");
      if ((long)t.getValues().size() != (long)t.getNRows() * t.getNCols()) return std::string("values-size");
      return std::string(""); })
    .nontrivial([](const std::vector<int>& x) { return x[0] > 0 && x[1] > 0 && x[2] > 0; })
    .corpus({{2, 2, 0, 0}, {1, 3, 1, 0}})
    .done();
}

// ---------------------------------------------------------------------------------------------
inline void polyline_getters(const PolyLine2D& p, Fp& fp, const std::string& pre)
{
  fp.I("points:" + pre + "n", p.getNPoints());
  for (int i = 0; i < p.getNPoints(); i++) { fp.D("points:" + pre + "x" + std::to_string(i), p.getX(i)); fp.D("points:" + pre + "y" + std::to_string(i), p.getY(i)); }
}
inline void ring(int shape, int vset, VectorDouble& x, VectorDouble& y)
{
  static const std::vector<std::vector<std::pair<double, double>>> S = {
    {{0, 0}, {1, 0}, {0, 1}},
    {{0, 0}, {2, 0}, {2, 2}, {0, 2}, {0, 0}},
    {{-1.5, 0.25}, {3, 0.5}, {1, 1}, {3, 2.75}, {-1, 2}},
    {{1. / 3., 1e-300}, {1e300, 123456789.123456789}, {-0.0, 1e6}},
    {{-1.23456789012345e-100, 1.23456789012345e+100}, {-9.99999999999999e+307, 4.94065645841247e-324}, {-1.79769313486231e308, 0.1 + 0.2}, {-1.23456789012345e-300, -1.23456789012345e+100}},
    {{9.99999999999999e-307, -9.99999999999999e-307}, {1e15 + 0.3, -2. / 3.}, {-1234567890123456., 1.79769313486231e308}, {-4.94065645841247e-324, 123456789012345.}}};
  x.clear(); y.clear();
  for (auto& p : S[shape]) { x.push_back(p.first); y.push_back(p.second); }
  if (vset == 1) for (auto& v : x) v += 100.;
}
inline void register_polygons()
{
  Reg<Polygons>("Polygons")
    .space([](bool th) { Space s; s.axis("npol", 4).axis("shape1", 6).axis("shape2", th ? 4 : 2).axis("zlim", 5).axis("shift", 2); return s; })
    .build([](const std::vector<int>& x) -> Polygons* {
      int npol = x[0];
      if (npol == 0 && (x[1] || x[2] || x[3] || x[4])) return nullptr;
      if (npol == 1 && x[2]) return nullptr;
      Polygons* P = new Polygons();
      for (int k = 0; k < npol; k++)
      {
        VectorDouble px, py;
        ring(k == 0 ? x[1] : k == 1 ? x[2] : (x[1] + x[2] + 1) % 4, x[1] >= 4 ? 0 : x[4], px, py);
        double zmin = TEST, zmax = TEST;
        if (x[3] == 1) { zmin = -1.5; zmax = 2.; }
        if (x[3] == 2) { zmin = 0.; }
        if (x[3] == 3 && k == 1) { zmin = 1. / 3.; zmax = 1e300; }
        if (x[3] == 4) { zmin = -1.23456789012345e+100; zmax = -1.23456789012345e-100; }
        PolyElem e(px, py, zmin, zmax);
        P->addPolyElem(e);
      }
      return P; })
    .fromNF([](const std::string& p) { return Polygons::createFromNF(p, nf_verbose()); })
    .getters([](const Polygons& P, Fp& fp) {
      fp.I("count:npol", P.getPolyElemNumber());
      for (int k = 0; k < P.getPolyElemNumber(); k++)
      {
        const PolyElem& e = P.getPolyElem(k);
        fp.D("zlimits:zmin" + std::to_string(k), e.getZmin()); fp.D("zlimits:zmax" + std::to_string(k), e.getZmax());
        polyline_getters(e, fp, "pol" + std::to_string(k) + ".");
      } })
    .probe([](Polygons& P, Fp& fp) {
      for (int i = -1; i <= 6; i++) for (int j = -1; j <= 6; j++) for (int k = 0; k < 2; k++)
      {
        VectorDouble c = {0.3 + 0.5 * i, 0.2 + 0.5 * j, k ? 1.75 : -3.};
        fp.I("behaviour:inside(" + std::to_string(i) + "," + std::to_string(j) + "," + std::to_string(k) + ")", P.inside(c, false));
      } })
    .invariants([](Polygons& P) {
      for (int k = 0; k < P.getPolyElemNumber(); k++) if (P.getPolyElem(k).getX().size() != P.getPolyElem(k).getY().size()) return std::string("x-y-size");
      return std::string(""); })
    .nontrivial([](const std::vector<int>& x) { return x[0] >= 1; })
    .corpus({{1, 0, 0, 0, 0}, {2, 1, 1, 1, 0}})
    .done();
}

inline void register_batch1()
{
  register_db();
  register_dbgrid();
  register_model();
  register_model_drift();
  register_neigh();
  register_table();
  register_polygons();
}

// =============================================================================================
// batch 2
// ---------------------------------------------------------------------------------------------
inline Db* vario_db(int ndim, int nvar, bool undefined, int mag = 0)
{
  // 7 points with dyadic coordinates, values small dyadics
  static const double X[7][3] = {{0, 0, 0}, {1, 0, 0.5}, {2, 1, 0}, {0.5, 2, 1}, {3, 0.5, 1.5}, {1.5, 1.5, 2}, {2.5, 3, 0.25}};
  static const double Z[7][2] = {{1, 0.5}, {2.5, -1}, {0.25, 2}, {3, 0.75}, {-1.5, 1.25}, {0.5, -0.5}, {2, 3}};
  std::vector<std::vector<double>> x(ndim), z(nvar);
  for (int i = 0; i < 7; i++)
  {
    // magnitude 1: data x 1.23456789012345e-52 (variogram values ~1e-104, negative cross terms); 2: data x 1e+52 and coordinates x 1e+100
    double kz = mag == 1 ? 1.23456789012345e-52 : mag == 2 ? 1.23456789012345e+52 : 1., kx = mag == 2 ? 1e+100 : 1.;
    for (int d = 0; d < ndim; d++) x[d].push_back(X[i][d] * kx);
    for (int v = 0; v < nvar; v++) z[v].push_back(undefined && i == 3 && v == 0 ? TEST : Z[i][v] * kz);
  }
  return make_db_xz(x, z);
}
inline void vario_getters(const Vario& v, Fp& fp)
{
  int nvar = v.getVariableNumber(), ndir = v.getDirectionNumber();
  fp.I("dims:ndim", v._varioparam.getDimensionNumber());
  fp.I("dims:nvar", nvar);
  fp.I("dims:ndir", ndir);
  fp.D("scale:scale", v.getScale());
  fp.S("calcul:mode", std::string(v.getCalcul().getKey()));
  fp.I("calcul:flagAsym", v.getFlagAsym());
  for (auto& n : v.getVariableNames()) fp.S("names:variable", n);
  fp.VD("vars:vars", v.getVars());
  // getMeans() is not compared: the means are by-products of compute(), not parameters (they are not stored)
  fp.VD("dates:dates", v._varioparam.getDates());
  for (int id = 0; id < ndir; id++)
  {
    const DirParam& dp = v._varioparam.getDirParam(id);
    std::string p = "#" + std::to_string(id);
    fp.I("dirparam:npas" + p, dp.getLagNumber());
    fp.D("dirparam:dpas" + p, dp.getDPas());
    fp.D("dirparam:toldis" + p, dp.getTolDist());
    fp.I("dirparam:optcode" + p, dp.getOptionCode());
    fp.D("dirparam:tolcode" + p, dp.getTolCode());
    fp.I("dirparam:forgrid" + p, dp.isDefinedForGrid());
    if (!dp.isDefinedForGrid()) fp.D("dirparam:tolang" + p, dp.getTolAngle());
    fp.VD("dirparam:codir" + p, dp.getCodirs(), 1.);
    fp.VI("dirparam:grincr" + p, dp.getGrincrs());
    fp.D("bench:bench" + p, dp.getBench());
    fp.D("cylrad:cylrad" + p, dp.getCylRad());
    fp.VD("breaks:breaks" + p, dp.getBreaks());
    fp.I("idate:idate" + p, dp.getIdate());
    fp.I("results:dirsize" + p, v.getDirSize(id));
    for (int i = 0; i < v.getDirSize(id); i++)
    {
      std::string q = p + "[" + std::to_string(i) + "]";
      // lags without pairs (undefined, reloaded as 0: known defect) are kept apart from the defined values, which must round-trip
      auto put = [&](const char* what, double val) { fp.D(std::string(FFFF(val) || val == 0. ? "results:" : "values:") + what + q, val); };
      put("sw", v.getSwByIndex(id, i));
      put("hh", v.getHhByIndex(id, i));
      put("gg", v.getGgByIndex(id, i));
    }
  }
}
inline void register_vario()
{
  Reg<Vario>("Vario")
    .fresh([]() { VarioParam vp; return new Vario(vp); })
    .space([](bool th) {
      Space s;
      s.axis("ndim", 3).axis("nvar", 2).axis("ndir", 3).axis("calc", th ? 4 : 3).axis("dirkind", 3).axis("option", 6).axis("undef", 2).axis("magnitude", 3);
      return s; })
    .build([](const std::vector<int>& x) -> Vario* {
      int ndim = x[0] + 1, nvar = x[1] + 1, ndir = x[2] + 1, calc = x[3], kind = x[4], opt = x[5], und = x[6];
      int mag = x.size() > 7 ? x[7] : 0;   // (the C09 corpus entries have 7 indices)
      if (mag && (kind == 2 || opt != 0)) return nullptr;
      if (kind == 2 && (ndim == 1 || opt != 0 || calc >= 2)) return nullptr;      // grid directions: 2-D/3-D grids, no extra option (covariogram/madogram on a grid crash in compute())
      if (ndir >= 2 && ndim == 1) return nullptr;
      if (ndir == 3 && (ndim != 3 || kind != 1)) return nullptr;   // three directions: along the axes of a 3-D space
      SpaceRN sp(ndim);
      VarioParam vp(opt == 4 ? 2. : 0.);
      std::unique_ptr<Db> db;
      std::unique_ptr<DbGrid> grid;
      if (kind == 2)
      {
        VectorInt nx(ndim, 3); VectorDouble dx(ndim, 1.), x0(ndim, 0.);
        VectorDouble tab; VectorString names, locs;
        int ntot = 1; for (int d = 0; d < ndim; d++) ntot *= 3;
        for (int v = 0; v < nvar; v++) { names.push_back("z" + std::to_string(v + 1)); locs.push_back("z" + std::to_string(v + 1)); }
        for (int i = 0; i < ntot; i++) for (int v = 0; v < nvar; v++) tab.push_back(und && i == 4 && v == 0 ? TEST : (double)((i * (v + 2)) % 5) * 0.5);
        grid.reset(DbGrid::create(nx, dx, x0, VectorDouble(), ELoadBy::SAMPLE, tab, names, locs, true, true));
        for (int id = 0; id < ndir; id++)
        {
          VectorInt gi(ndim, 0); gi[id] = 1; if (id == 1) gi[0] = 1;
          DirParam dp(grid.get(), 2, gi, &sp);
          vp.addDir(dp);
        }
      }
      else
      {
        db.reset(vario_db(ndim, nvar, und != 0, mag));
        if (opt == 5) { VectorDouble codes = {1, 1, 2, 1, 2, 2, 1}; db->addColumns(codes, "code", ELoc::C, 0); }   // selection by code (option 1, tolerance 0.5)
        for (int id = 0; id < ndir; id++)
        {
          VectorDouble codir;
          double tolang = 90.;
          if (kind == 1) { codir.resize(ndim, 0.); codir[id % ndim] = 1.; if (id == 1 && ndir < 3) codir[0] = 1.; tolang = id == 0 ? 45. : 22.5; }
          double bench = opt == 1 && ndim >= 2 ? 0.75 : TEST, cyl = opt == 2 && ndim >= 2 ? 1.25 : TEST;
          VectorDouble breaks;
          if (opt == 3) breaks = {0., 0.75, 2., 4.5};
          DirParam dp(id == 0 ? 3 : 2, (id == 0 ? 1. : 1.5) * (mag == 2 ? 1e+100 : 1.), id == 0 ? 0.5 : 0.25, tolang, opt == 5 ? 1 : 0, 0, bench, cyl, opt == 5 ? 0.5 : 0., breaks, codir, TEST, &sp);
          vp.addDir(dp);
        }
        if ((opt == 1 || opt == 2) && ndim < 2) return nullptr;
      }
      Vario* v = new Vario(vp);
      static const char* CALC[4] = {"VARIOGRAM", "COVARIANCE", "COVARIOGRAM", "MADOGRAM"};
      int err = v->compute(kind == 2 ? (Db*)grid.get() : db.get(), ECalcVario::fromKey(CALC[calc]));
      if (err) { delete v; return nullptr; }
      return v; })
    .fromNF([](const std::string& p) { return Vario::createFromNF(p, nf_verbose()); })
    .getters([](const Vario& v, Fp& fp) { vario_getters(v, fp); })
    .probe([](Vario& v, Fp& fp) {
      for (int id = 0; id < v.getDirectionNumber(); id++)
        for (int i = 0; i < v.getVariableNumber(); i++) for (int j = 0; j <= i; j++)
        {
          std::string q = "(dir" + std::to_string(id) + ",var" + std::to_string(i) + "," + std::to_string(j) + ")";
          fp.VD("behaviour:ggvec" + q, v.getGgVec(id, i, j, false, false, false));
          fp.VD("behaviour:hhvec" + q, v.getHhVec(id, i, j, false));
          fp.VD("behaviour:swvec" + q, v.getSwVec(id, i, j, false));
        } })
    .invariants([](Vario& v) {
      int nvar = v.getVariableNumber();
      if (nvar < 0) return std::string("negative-dimension");
      if ((long)v.getVars().size() != (long)nvar * nvar) return std::string("vars-size");
      if ((int)v._sw.size() != v.getDirectionNumber() || (int)v._gg.size() != v.getDirectionNumber() || (int)v._hh.size() != v.getDirectionNumber()) return std::string("direction-arrays");
      for (int id = 0; id < v.getDirectionNumber(); id++)
        if ((int)v._sw[id].size() != v.getDirSize(id) || (int)v._gg[id].size() != v.getDirSize(id) || (int)v._hh[id].size() != v.getDirSize(id)) return std::string("lag-arrays");
      return std::string(""); })
    .nontrivial([](const std::vector<int>& x) { return x[3] > 0 || x[4] > 0 || x[5] > 0 || x[1] > 0; })
    .corpus({{1, 0, 0, 0, 0, 0, 0}, {1, 1, 1, 0, 1, 0, 0}, {1, 0, 0, 0, 2, 0, 0}})
    .done();
}

// ---------------------------------------------------------------------------------------------
inline void anamcont_getters(const AnamContinuous& a, Fp& fp)
{
  fp.D("bounds:azmin", a.getAzmin()); fp.D("bounds:azmax", a.getAzmax()); fp.D("bounds:aymin", a.getAymin()); fp.D("bounds:aymax", a.getAymax());
  fp.D("bounds:pzmin", a.getPzmin()); fp.D("bounds:pzmax", a.getPzmax()); fp.D("bounds:pymin", a.getPymin()); fp.D("bounds:pymax", a.getPymax());
  fp.D("moments:mean", a.getMean()); fp.D("moments:variance", a.getVariance());
}
inline VectorDouble anam_data(int set)
{
  if (set == 0) return {0.5, 1.25, 2., 0.75, 3.5, 1., 2.75, 0.25, 4., 1.5, 2.25, 3.};
  return {10., 0.125, 3., 7.5, 1., 2., 0.5, 25., 4., 1.75, 0.25, 6., 12., 0.75, 2.5, 1.25};
}
inline void anam_probe(AAnam& a, Fp& fp, bool cont)
{
  if (cont)
  {
    AnamContinuous& c = dynamic_cast<AnamContinuous&>(a);
    for (double y : {-3., -1.5, -0.25, 0., 0.5, 1.75, 3.5}) fp.B("behaviour:y->z(" + fmt(y) + ")", c.transformToRawValue(y), 1.);
    for (double z : {0., 0.5, 1., 2.5, 5., 30.}) fp.B("behaviour:z->y(" + fmt(z) + ")", c.rawToTransformValue(z), 1.);
  }
}
inline void register_anam()
{
  Reg<AnamHermite>("AnamHermite")
    .space([](bool th) { Space s; s.axis("mode", 3).axis("nbpoly", 4).axis("data", 2).axis("flagBound", 2).axis("rcoef", 2); return s; })
    .build([](const std::vector<int>& x) -> AnamHermite* {
      int nb = std::vector<int>{3, 8, 1, 20}[x[1]];   // (0 polynomials: the API object itself crashes in reset(), not usable)
      AnamHermite* a = AnamHermite::create(nb, x[3] == 0, 1.);
      if (x[0] == 0)
      {
        static const double PE[6] = {-1.23456789012345e-100, 9.99999999999999e-101, -4.94065645841247e-324, 1.23456789012345e-300, -2. / 3., 0.1 + 0.2};
        VectorDouble psi; for (int i = 0; i < nb; i++) psi.push_back(i == 0 ? 2.5 : x[2] ? PE[(i - 1) % 6] : 1. / (1 << i));
        a->reset(-2.5, 0.25, 3., 7.5, -4., 0., 5., 12., 1., psi);   // everything set by hand
      }
      else
      {
        if (a->fitFromArray(anam_data(x[2])) != 0) { delete a; return nullptr; }
        if (x[0] == 2) { a->setABounds(0., 50., -6., 6.); }
      }
      if (x[4]) a->setRCoef(0.75);
      return a; })
    .fromNF([](const std::string& p) { return AnamHermite::createFromNF(p, nf_verbose()); })
    .getters([](const AnamHermite& a, Fp& fp) {
      fp.D("rcoef:rcoef", a.getRCoef());
      fp.VD("psi:psiHn", a.getPsiHns());
      anamcont_getters(a, fp);
      fp.I("flagBound:flagBound", a.getFlagBound()); })
    .probe([](AnamHermite& a, Fp& fp) { anam_probe(a, fp, true); })
    .invariants([](AnamHermite& a) { return std::string(""); })
    .nontrivial([](const std::vector<int>& x) { return x[0] > 0; })
    .corpus({{0, 0, 0, 0, 0}, {1, 0, 0, 0, 0}})
    .done();

  Reg<AnamEmpirical>("AnamEmpirical")
    .space([](bool) { Space s; s.axis("ndisc", 3).axis("data", 2).axis("sigma2e", 3).axis("mode", 2); return s; })
    .build([](const std::vector<int>& x) -> AnamEmpirical* {
      int nd = std::vector<int>{5, 12, 2}[x[0]];   // (0 classes: the API object crashes when evaluated, not usable)
      double s2 = std::vector<double>{TEST, 0.25, 0.}[x[2]];
      AnamEmpirical* a = AnamEmpirical::create(nd, s2);
      if (x[3] == 0)
      {
        if (a->fitFromArray(anam_data(x[1])) != 0) { delete a; return nullptr; }
      }
      else
      {
        if (x[1]) { delete a; return nullptr; }
        VectorDouble z, y; for (int i = 0; i < nd; i++) { z.push_back(0.5 * i * i); y.push_back(-2. + 0.75 * i); }
        a->setDisc(z, y);
      }
      return a; })
    .fromNF([](const std::string& p) { return AnamEmpirical::createFromNF(p, nf_verbose()); })
    .getters([](const AnamEmpirical& a, Fp& fp) {
      anamcont_getters(a, fp);
      fp.I("disc:ndisc", a.getNDisc()); fp.D("sigma2e:sigma2e", a.getSigma2e());
      fp.VD("disc:zdisc", a.getZDisc()); fp.VD("disc:ydisc", a.getYDisc()); })
    .probe([](AnamEmpirical& a, Fp& fp) { anam_probe(a, fp, true); })
    .nontrivial([](const std::vector<int>& x) { return x[2] > 0 || x[0] > 0; })
    .corpus({{0, 0, 0, 1}})
    .done();

  Reg<AnamDiscreteDD>("AnamDiscreteDD")
    .space([](bool) { Space s; s.axis("ncut", 3).axis("data", 2).axis("mu", 2).axis("scoef", 2); return s; })
    .build([](const std::vector<int>& x) -> AnamDiscreteDD* {
      // built through the setters (the fitting routine of this class crashes on its own, which is not a serialisation matter)
      AnamDiscreteDD* a = AnamDiscreteDD::create(x[2] ? 1.5 : 1., x[3] ? 0.25 : 0.);
      VectorDouble zc = std::vector<VectorDouble>{{1.}, {0.75, 2.}, {0.5, 1.25, 3.}}[x[0]];
      int nc = (int)zc.size(), ncl = nc + 1, ne = x[1] ? 3 : 4;
      a->setNCut(nc); a->setNElem(ne); a->setZCut(zc);
      VectorDouble st; for (int i = 0; i < ncl * ne; i++) st.push_back(x[1] ? 1. / (3. + i) : 0.25 * i);
      a->setStats(st);
      MatrixSquareGeneral f2z(nc), z2f(nc);
      for (int i = 0; i < nc; i++) for (int j = 0; j < nc; j++) { f2z.setValue(i, j, i == j ? 2. : 0.5 * (i + 1)); z2f.setValue(i, j, i == j ? 0.5 : -0.125 * (j + 1)); }
      a->setPcaF2Z(f2z); a->setPcaZ2F(z2f);
      return a; })
    .fromNF([](const std::string& p) { return AnamDiscreteDD::createFromNF(p, nf_verbose()); })
    .getters([](const AnamDiscreteDD& a, Fp& fp) {
      fp.I("dims:ncut", a.getNCut()); fp.I("dims:nclass", a.getNClass()); fp.I("dims:nelem", a.getNElem());
      fp.VD("cuts:zcut", a.getZCut()); fp.VD("stats:stats", a.getStats().getValues());
      fp.D("coef:mu", a.getMu()); fp.D("coef:scoef", a.getSCoef());
      fp.VD("pca:z2f", a.getPcaZ2Fs().getValues(), 1.); fp.VD("pca:f2z", a.getPcaF2Zs().getValues(), 1.); })
    .nontrivial([](const std::vector<int>& x) { return x[0] > 0; })
    .corpus({{0, 0, 0, 0}})
    .done();

  Reg<AnamDiscreteIR>("AnamDiscreteIR")
    .space([](bool) { Space s; s.axis("ncut", 3).axis("data", 2).axis("rcoef", 2); return s; })
    .build([](const std::vector<int>& x) -> AnamDiscreteIR* {
      AnamDiscreteIR* a = AnamDiscreteIR::create(x[2] ? 0.75 : 0.);
      VectorDouble zc = std::vector<VectorDouble>{{1.}, {0.75, 2.}, {0.5, 1.25, 3.}}[x[0]];
      a->setZCut(zc);
      if (a->fitFromArray(anam_data(x[1])) != 0) { delete a; return nullptr; }
      return a; })
    .fromNF([](const std::string& p) { return AnamDiscreteIR::createFromNF(p, nf_verbose()); })
    .getters([](const AnamDiscreteIR& a, Fp& fp) {
      fp.I("dims:ncut", a.getNCut()); fp.I("dims:nclass", a.getNClass()); fp.I("dims:nelem", a.getNElem());
      fp.VD("cuts:zcut", a.getZCut()); fp.VD("stats:stats", a.getStats().getValues());
      fp.D("coef:rcoef", a.getRCoef()); })
    .nontrivial([](const std::vector<int>& x) { return x[0] > 0; })
    .corpus({{0, 0, 0}})
    .done();
}

// ---------------------------------------------------------------------------------------------
inline void mesh_getters(const AMesh& m, Fp& fp)
{
  fp.I("dims:ndim", m.getNDim()); fp.I("dims:napices", m.getNApices()); fp.I("dims:nmeshes", m.getNMeshes()); fp.I("dims:napexpermesh", m.getNApexPerMesh());
  for (int d = 0; d < m.getNDim(); d++) { fp.D("extend:min" + std::to_string(d), m._extendMin.size() > (size_t)d ? m._extendMin[d] : TEST, 1.); fp.D("extend:max" + std::to_string(d), m._extendMax.size() > (size_t)d ? m._extendMax[d] : TEST, 1.); }
}
inline void mesh_probe(AMesh& m, Fp& fp)
{
  for (int im = 0; im < m.getNMeshes(); im++)
    for (int r = 0; r < m.getNApexPerMesh(); r++) fp.I("behaviour:apex(" + std::to_string(im) + "," + std::to_string(r) + ")", m.getApex(im, r));
  for (int ia = 0; ia < m.getNApices(); ia++)
    for (int d = 0; d < m.getNDim(); d++) fp.B("behaviour:coor(" + std::to_string(ia) + "," + std::to_string(d) + ")", m.getApexCoor(ia, d), 1.);
}
inline void register_mesh()
{
  Reg<MeshETurbo>("MeshETurbo")
    .space([](bool th) { Space s; s.axis("ndim", 3).axis("nxset", 2).axis("geom", 4).axis("rot", 2).axis("polar", 2).axis("mask", 3); return s; })
    .build([](const std::vector<int>& x) -> MeshETurbo* {
      int ndim = x[0] + 1;
      static const int NX[2][3] = {{3, 2, 2}, {2, 4, 3}};
      static const double DX[4][3] = {{1, 1, 1}, {0.5, 2, 0.25}, {0.1, 1. / 3., 1e3}, {1.23456789012345e+100, 9.99999999999999e-101, 1.23456789012345e-100}};
      static const double X0[4][3] = {{0, 0, 0}, {-1.5, 10, 0.25}, {1e6, -1. / 3., 0.2}, {-1.23456789012345e-100, -1.23456789012345e+100, -9.99999999999999e-307}};
      VectorInt nx(ndim); VectorDouble dx(ndim), x0(ndim), ang(ndim, 0.);
      for (int d = 0; d < ndim; d++) { nx[d] = NX[x[1]][d]; dx[d] = DX[x[2]][d]; x0[d] = X0[x[2]][d]; }
      if (x[3] && ndim == 1) return nullptr;
      if (x[3] && x[2] == 3) return nullptr;   // extreme mesh sizes: unrotated (a rotated coordinate mixes 1e+100 and 1e-100 terms: derived quantity)
      if (x[3]) ang[0] = 30.;
      if (!x[5]) return MeshETurbo::create(nx, dx, x0, ang, x[4] != 0, false);
      // masked: mesh built from a grid with a selection
      std::unique_ptr<DbGrid> g(DbGrid::create(nx, dx, x0, ang));
      int n = g->getSampleNumber();
      VectorDouble sel(n, 1.); sel[0] = 0.; if (n > 3) sel[n - 1] = 0.;
      g->addColumns(sel, "sel", ELoc::SEL, 0);
      MeshETurbo* m = MeshETurbo::createFromGrid(g.get(), x[4] != 0, false, x[5] == 2 ? 0 : 1);   // mask 1: map storage, mask 2: array storage
      if (m != nullptr && (m->getNApices() <= 0 || m->getNMeshes() <= 0)) { delete m; return nullptr; }
      return m; })
    .fromNF([](const std::string& p) { return MeshETurbo::createFromNF(p, nf_verbose()); })
    .getters([](const MeshETurbo& m, Fp& fp) {
      mesh_getters(m, fp);
      const Grid& g = m.getGrid();
      for (int d = 0; d < m.getNDim(); d++) { fp.I("grid:nx" + std::to_string(d), g.getNX(d)); fp.D("grid:dx" + std::to_string(d), g.getDX(d)); fp.D("grid:x0" + std::to_string(d), g.getX0(d)); }
      fp.VD("grid:rotmat", g.getRotMat(), 1.);
      fp.I("polar:polarized", m._isPolarized);
      fp.I("mask:mode", m._meshIndirect.getMode());
      fp.VI("mask:meshranks", m._meshIndirect.getRelRanks()); fp.VI("mask:gridranks", m._gridIndirect.getRelRanks()); })
    .probe([](MeshETurbo& m, Fp& fp) { mesh_probe(m, fp); })
    .nontrivial([](const std::vector<int>& x) { return x[3] || x[4] || x[5]; })
    .corpus({{1, 0, 0, 0, 0, 0}, {1, 0, 1, 1, 0, 1}})
    .done();

  Reg<MeshEStandard>("MeshEStandard")
    .space([](bool) { Space s; s.axis("ndim", 3).axis("shape", 2).axis("vset", 2 + n_extreme_sets()); return s; })
    .build([](const std::vector<int>& x) -> MeshEStandard* {
      int ndim = x[0] + 1, nap = x[1] ? ndim + 2 : ndim + 1, nm = x[1] ? 2 : 1;
      MatrixRectangular ap(nap, ndim);
      for (int i = 0; i < nap; i++) for (int d = 0; d < ndim; d++) ap.setValue(i, d, x[2] >= 2 ? pick_value(vset_of(x[2], 2), i, d) : (i == d + 1 ? 1. : i == ndim + 1 ? 1. : 0.) * (x[2] ? 1. / 3. : 1.) + (x[2] ? 100. : 0.));
      MatrixInt ms(nm, ndim + 1);
      for (int m = 0; m < nm; m++) for (int r = 0; r < ndim + 1; r++) ms.setValue(m, r, m == 0 ? r : r + 1);
      return MeshEStandard::createFromExternal(ap, ms, false); })
    .fromNF([](const std::string& p) { return MeshEStandard::createFromNF(p, nf_verbose()); })
    .getters([](const MeshEStandard& m, Fp& fp) { mesh_getters(m, fp); fp.VI("meshes:list", m.getMeshList()); fp.VD("apices:list", m.getPointList(true)); })
    .probe([](MeshEStandard& m, Fp& fp) { mesh_probe(m, fp); })
    .nontrivial([](const std::vector<int>& x) { return x[1] || x[2]; })
    .corpus({{1, 0, 0}})
    .done();
}

// ---------------------------------------------------------------------------------------------
inline void rule_getters(const Rule& r, Fp& fp)
{
  fp.S("mode:mode", std::string(r.getModeRule().getKey()));
  fp.D("rho:rho", r.getRho());
  fp.I("nodes:nfacies", r.getFaciesNumber());
  fp.I("nodes:ny1", r.getY1Number());
  fp.I("nodes:ny2", r.getY2Number());
  for (int f = 1; f <= r.getFaciesNumber(); f++) fp.VD("nodes:thresh(facies" + std::to_string(f) + ")", r.getThresh(f));
}
inline void rule_probe(Rule& r, Fp& fp)
{
  VectorDouble props(r.getFaciesNumber(), 1. / std::max(1, r.getFaciesNumber()));
  if (r.setProportions(props) != 0) { fp.S("behaviour:setProportions", "refused"); return; }
  for (double y1 : {-1.5, -0.25, 0.5, 2.}) for (double y2 : {-1., 0.25, 1.5})
    fp.I("behaviour:facies(" + fmt(y1) + "," + fmt(y2) + ")", r.getFaciesFromGaussian(y1, y2));
}
inline const std::vector<VectorString>& rule_menu()
{
  static const std::vector<VectorString> v = {{"S", "F1", "F2"}, {"T", "F1", "F2"}, {"S", "F1", "T", "F2", "F3"}, {"S", "T", "F1", "F2", "S", "F3", "F4"}, {"S", "S", "F1", "F2", "F3"}};
  return v;
}
inline void register_rule()
{
  Reg<Rule>("Rule")
    .space([](bool) { Space s; s.axis("tree", (int)rule_menu().size()).axis("rho", 3); return s; })
    .build([](const std::vector<int>& x) -> Rule* { return Rule::createFromNames(rule_menu()[x[0]], std::vector<double>{0., 0.5, -0.75}[x[1]]); })
    .fromNF([](const std::string& p) { return Rule::createFromNF(p, nf_verbose()); })
    .getters([](const Rule& r, Fp& fp) { rule_getters(r, fp); })
    .probe([](Rule& r, Fp& fp) { rule_probe(r, fp); })
    .nontrivial([](const std::vector<int>& x) { return x[0] > 0; })
    .corpus({{0, 0}, {3, 1}})
    .done();

  Reg<RuleShift>("RuleShift")
    .space([](bool) { Space s; s.axis("tree", 3).axis("shift", 3); return s; })
    .build([](const std::vector<int>& x) -> RuleShift* {
      static const std::vector<VectorString> T = {{"S", "F1", "F2"}, {"S", "F1", "S", "F2", "F3"}, {"S", "S", "F1", "F2", "F3"}};
      VectorDouble sh = std::vector<VectorDouble>{{1., 0., 0.}, {0.5, -1.5, 0.}, {0.25, 1., 2.}}[x[1]];   // always 3 components (the format stores 3)
      return RuleShift::createFromNames(T[x[0]], sh); })
    .getters([](const RuleShift& r, Fp& fp) {
      rule_getters(r, fp);
      fp.VD("shift:shift", r.getShift()); })   // slope/shDown/shDsup are not parameters of a shift rule
    .nontrivial([](const std::vector<int>& x) { return true; })
    .corpus({{0, 0}})
    .done();

  Reg<RuleShadow>("RuleShadow")
    .space([](bool) { Space s; s.axis("slope", 2).axis("shift", 3); return s; })
    .build([](const std::vector<int>& x) -> RuleShadow* {
      VectorDouble sh = std::vector<VectorDouble>{{1., 0., 0.}, {0.5, -1.5, 0.}, {0.25, 1., 2.}}[x[1]];   // always 3 components (the format stores 3)
      return new RuleShadow(x[0] ? 30. : 12.5, x[0] ? 2. : 1.5, x[0] ? 0.75 : 0.5, sh); })
    .getters([](const RuleShadow& r, Fp& fp) {
      rule_getters(r, fp);
      fp.VD("shadow:shift", r.getShift()); fp.D("shadow:slope", r.getSlope()); fp.D("shadow:shdown", r.getShDown()); fp.D("shadow:shdsup", r.getShDsup());
      fp.D("shadow:tgte", r.getTgte(), 1.); fp.D("shadow:incr", r.getIncr(), 1.); })
    .nontrivial([](const std::vector<int>& x) { return true; })
    .corpus({{0, 0}})
    .done();
}

// ---------------------------------------------------------------------------------------------
inline void register_neigh2()
{
  Reg<NeighBench>("NeighBench")
    .space([](bool) { Space s; s.axis("ndim", 2).axis("width", 3).axis("xvalid", 2); return s; })
    .build([](const std::vector<int>& x) -> NeighBench* { SpaceRN sp(x[0] + 2); return NeighBench::create(x[2] != 0, std::vector<double>{1., 0.75, 2.5}[x[1]], &sp); })
    .fromNF([](const std::string& p) { return NeighBench::createFromNF(p, nf_verbose()); })
    .getters([](const NeighBench& n, Fp& fp) { fp.I("dims:ndim", n.getNDim()); fp.D("width:width", n.getWidth()); })
    .probe([](NeighBench& n, Fp& fp) { neigh_probe(n, fp); })
    .nontrivial([](const std::vector<int>& x) { return x[1] > 0; })
    .corpus({{0, 0, 0}})
    .done();

  Reg<NeighCell>("NeighCell")
    .space([](bool) { Space s; s.axis("ndim", 3).axis("nmini", 3); return s; })
    .build([](const std::vector<int>& x) -> NeighCell* { SpaceRN sp(x[0] + 1); return NeighCell::create(false, std::vector<int>{1, 3, 7}[x[1]], &sp); })
    .fromNF([](const std::string& p) { return NeighCell::createFromNF(p, nf_verbose()); })
    .getters([](const NeighCell& n, Fp& fp) { fp.I("dims:ndim", n.getNDim()); fp.I("nmini:nmini", n.getNMini()); })
    .nontrivial([](const std::vector<int>& x) { return x[1] > 0; })
    .corpus({{1, 0}})
    .done();

  Reg<NeighImage>("NeighImage")
    .space([](bool) { Space s; s.axis("ndim", 3).axis("radius", 3).axis("skip", 3); return s; })
    .build([](const std::vector<int>& x) -> NeighImage* {
      int ndim = x[0] + 1; SpaceRN sp(ndim);
      VectorInt r(ndim); for (int d = 0; d < ndim; d++) r[d] = std::vector<int>{1, 2, 3}[(x[1] + d) % 3];
      return NeighImage::create(r, x[2], &sp); })
    .fromNF([](const std::string& p) { return NeighImage::createFromNF(p, nf_verbose()); })
    .getters([](const NeighImage& n, Fp& fp) { fp.I("dims:ndim", n.getNDim()); fp.I("skip:skip", n.getSkip()); fp.VI("radius:radius", n.getImageRadius()); })
    .nontrivial([](const std::vector<int>& x) { return x[2] > 0 || x[0] != 1; })
    .corpus({{1, 0, 0}})
    .done();
}

// ---------------------------------------------------------------------------------------------
inline void register_lines()
{
  Reg<PolyLine2D>("PolyLine2D")
    .space([](bool) { Space s; s.axis("shape", 6).axis("shift", 2); return s; })
    .build([](const std::vector<int>& x) -> PolyLine2D* { VectorDouble px, py; ring(x[0], x[0] >= 4 ? 0 : x[1], px, py); return new PolyLine2D(px, py); })
    .fromNF([](const std::string& p) { return PolyLine2D::createFromNF(p, nf_verbose()); })
    .getters([](const PolyLine2D& p, Fp& fp) { polyline_getters(p, fp, ""); })
    .nontrivial([](const std::vector<int>& x) { return x[0] > 0; })
    .corpus({{0, 0}})
    .done();

  Reg<PolyElem>("PolyElem")
    .space([](bool) { Space s; s.axis("shape", 6).axis("zlim", 4); return s; })
    .build([](const std::vector<int>& x) -> PolyElem* { VectorDouble px, py; ring(x[0], 0, px, py); return new PolyElem(px, py, x[1] == 0 ? TEST : x[1] == 3 ? -1.23456789012345e+100 : -1.5, x[1] == 2 ? 1. / 3. : x[1] == 3 ? -1.23456789012345e-100 : TEST); })
    .fromNF([](const std::string& p) { return PolyElem::createFromNF(p, nf_verbose()); })
    .getters([](const PolyElem& p, Fp& fp) { fp.D("zlimits:zmin", p.getZmin()); fp.D("zlimits:zmax", p.getZmax()); polyline_getters(p, fp, ""); })
    .nontrivial([](const std::vector<int>& x) { return x[1] > 0; })
    .corpus({{0, 1}})
    .done();

  Reg<Faults>("Faults")
    .space([](bool) { Space s; s.axis("nfaults", 3).axis("shape", 6); return s; })
    .build([](const std::vector<int>& x) -> Faults* {
      Faults* f = new Faults();
      for (int k = 0; k < x[0]; k++) { VectorDouble px, py; ring(x[1] >= 4 ? x[1] : (x[1] + k) % 4, x[1] >= 4 ? 0 : k, px, py); f->addFault(PolyLine2D(px, py)); }
      return f; })
    .fromNF([](const std::string& p) { return Faults::createFromNF(p, nf_verbose()); })
    .getters([](const Faults& f, Fp& fp) { fp.I("count:nfaults", f.getNFaults()); for (int k = 0; k < f.getNFaults(); k++) polyline_getters(f.getFault(k), fp, "fault" + std::to_string(k) + "."); })
    .probe([](Faults& f, Fp& fp) {
      for (int i = 0; i < 4; i++) for (int j = 0; j < 4; j++)
        fp.I("behaviour:split(" + std::to_string(i) + "," + std::to_string(j) + ")", f.isSplitByFault(-0.6 + i, 0.3, 0.4 + j, 2.2 - 0.5 * i)); })
    .nontrivial([](const std::vector<int>& x) { return x[0] > 0; })
    .corpus({{1, 0}, {2, 1}})
    .done();

  Reg<FracEnviron>("FracEnviron")
    .space([](bool) { Space s; s.axis("nfam", 3).axis("nfault", 3).axis("vset", 2); return s; })
    .build([](const std::vector<int>& x) -> FracEnviron* {
      double k = x[2] ? 1. / 3. : 0.5;
      FracEnviron* e = FracEnviron::create(10. * k, 8., 0.25, 0.125 * k, 2., 0.75);
      for (int f = 0; f < x[0]; f++) e->addFamily(FracFamily(30. * (f + 1), 5., 0.5 * k, 1., 0.25, 0.125, 0.5, 1.5 * k, 2., 3. + f));
      for (int t = 0; t < x[1]; t++)
      {
        FracFault ft(2.5 * (t + 1) * k, 45.);
        for (int f = 0; f < x[0]; f++) ft.addFaultPerFamily(0.5 + f, 0.25 * k, 3. + t, 1.5);
        e->addFault(ft);
      }
      return e; })
    .fromNF([](const std::string& p) { return FracEnviron::createFromNF(p, nf_verbose()); })
    .getters([](const FracEnviron& e, Fp& fp) {
      fp.I("count:nfamilies", e.getNFamilies()); fp.I("count:nfaults", e.getNFaults());
      fp.D("env:xmax", e.getXmax()); fp.D("env:ymax", e.getYmax()); fp.D("env:deltax", e.getDeltax()); fp.D("env:deltay", e.getDeltay()); fp.D("env:mean", e.getMean()); fp.D("env:stdev", e.getStdev());
      for (int f = 0; f < e.getNFamilies(); f++)
      {
        const FracFamily& m = e.getFamily(f);
        fp.VD("family:params" + std::to_string(f), VectorDouble{m._orient, m._dorient, m._theta0, m._alpha, m._ratcst, m._prop1, m._prop2, m._aterm, m._bterm, m._range});
      }
      for (int t = 0; t < e.getNFaults(); t++)
      {
        const FracFault& ft = e.getFault(t);
        fp.D("fault:coord" + std::to_string(t), ft.getCoord()); fp.D("fault:orient" + std::to_string(t), ft.getOrient());
        fp.VD("fault:thetal" + std::to_string(t), ft.getThetal()); fp.VD("fault:thetar" + std::to_string(t), ft.getThetar());
        fp.VD("fault:rangel" + std::to_string(t), ft.getRangel()); fp.VD("fault:ranger" + std::to_string(t), ft.getRanger());
      } })
    .nontrivial([](const std::vector<int>& x) { return x[0] > 0 || x[1] > 0; })
    .corpus({{1, 1, 0}})
    .done();
}

// ---------------------------------------------------------------------------------------------
inline void register_db2()
{
  Reg<DbLine>("DbLine")
    .space([](bool) { Space s; s.axis("layout", 3).axis("nvar", 2).axis("vset", 3 + n_extreme_sets()); return s; })
    .build([](const std::vector<int>& x) -> DbLine* {
      VectorInt counts = std::vector<VectorInt>{{3}, {2, 3}, {1, 2, 2}}[x[0]];
      int n = 0; for (int c : counts) n += c;
      int nvar = x[1] + 1;
      VectorDouble tab; VectorString names = {"x1", "x2"}, locs = {"x1", "x2"};
      for (int i = 0; i < n; i++) tab.push_back((double)(i % 3));
      for (int i = 0; i < n; i++) tab.push_back((double)(i / 3) + 0.5);
      for (int v = 0; v < nvar; v++) { names.push_back("z" + std::to_string(v + 1)); locs.push_back("z" + std::to_string(v + 1)); for (int i = 0; i < n; i++) tab.push_back(pick_value(vset_of(x[2], 3), i, v)); }
      return DbLine::createFromSamples(n, ELoadBy::COLUMN, tab, counts, names, locs, true); })
    .fromNF([](const std::string& p) { return DbLine::createFromNF(p, nf_verbose()); })
    .getters([](const DbLine& d, Fp& fp) {
      fp.I("lines:nlines", d.getLineNumber());
      for (int l = 0; l < d.getLineNumber(); l++) { fp.I("lines:count" + std::to_string(l), d.getLineSampleCount(l)); fp.VI("lines:adds" + std::to_string(l), d._lineAdds[l]); }
      db_getters(d, fp); })
    .probe([](DbLine& d, Fp& fp) { db_probe(d, fp); })
    .invariants([](DbLine& d) {
      std::string s = db_invariants(d); if (!s.empty()) return s;
      // checked here with bounds (DbLine::isConsistent indexes a table with the addresses read from the file)
      long nech = d.getSampleNumber(), tot = 0;
      std::vector<char> seen((size_t)std::max(0L, nech), 0);
      for (auto& line : d._lineAdds)
        for (int a : line) { tot++; if (a < 0 || a >= nech || seen[(size_t)a]) return std::string("lines-vs-samples"); seen[(size_t)a] = 1; }
      if (tot != nech) return std::string("lines-vs-samples");
      if (!d.isConsistent()) return std::string("lines-vs-samples");
      return std::string(""); })
    .nontrivial([](const std::vector<int>& x) { return x[0] > 0; })
    .corpus({{1, 0, 0}})
    .done();

  Reg<DbGraphO>("DbGraphO")
    .space([](bool) { Space s; s.axis("graph", 3).axis("vset", 3 + n_extreme_sets()); return s; })
    .build([](const std::vector<int>& x) -> DbGraphO* {
      int n = 4;
      VectorDouble tab; for (int i = 0; i < n; i++) tab.push_back((double)i); for (int i = 0; i < n; i++) tab.push_back((double)(i % 2)); for (int i = 0; i < n; i++) tab.push_back(pick_value(vset_of(x[1], 3), i, 0));
      NF_Triplet arcs;
      if (x[0] == 0) { arcs.add(0, 1, 1.); arcs.add(1, 2, 1.); arcs.add(2, 3, 1.); }
      if (x[0] == 1) { arcs.add(0, 1, 0.5); arcs.add(0, 2, 0.75); arcs.add(2, 3, 1. / 3.); }
      if (x[0] == 2) { arcs.add(0, 3, 2.5); }
      return DbGraphO::createFromSamples(n, ELoadBy::COLUMN, tab, arcs, {"x1", "x2", "z1"}, {"x1", "x2", "z1"}, true); })
    .fromNF([](const std::string& p) { return DbGraphO::createFromNF(p, nf_verbose()); })
    .getters([](const DbGraphO& d, Fp& fp) {
      fp.I("arcs:narcs", d.getArcNumber());
      NF_Triplet t = d.getMatArcs().getMatrixToTriplet();
      fp.I("arcs:nrows", d.getMatArcs().getNRows()); fp.I("arcs:ncols", d.getMatArcs().getNCols());
      for (int i = 0; i < t.getNumber(); i++) { fp.I("arcs:row" + std::to_string(i), t.getRow(i)); fp.I("arcs:col" + std::to_string(i), t.getCol(i)); fp.D("arcs:value" + std::to_string(i), t.getValue(i)); }
      db_getters(d, fp); })
    .probe([](DbGraphO& d, Fp& fp) { db_probe(d, fp); })
    .invariants([](DbGraphO& d) { std::string s = db_invariants(d); if (!s.empty()) return s; if (!d.isConsistent()) return std::string("graph-vs-samples"); return std::string(""); })
    .nontrivial([](const std::vector<int>& x) { return x[0] > 0; })
    .corpus({{0, 0}})
    .done();

  Reg<DbMeshTurbo>("DbMeshTurbo")
    .space([](bool) { Space s; s.axis("ndim", 2).axis("rot", 2).axis("polar", 2).axis("vset", 2 + n_extreme_sets()); return s; })
    .build([](const std::vector<int>& x) -> DbMeshTurbo* {
      int ndim = x[0] + 1;
      VectorInt nx(ndim, 2); nx[0] = 3; VectorDouble dx(ndim, 0.5), x0(ndim, -1.5), ang(ndim, 0.);
      if (x[1]) { if (ndim == 1) return nullptr; ang[0] = 30.; }
      int n = 1; for (int d = 0; d < ndim; d++) n *= nx[d];
      VectorDouble tab; for (int i = 0; i < n; i++) tab.push_back(pick_value(vset_of(x[3], 2), i, 0));
      return DbMeshTurbo::create(nx, dx, x0, ang, ELoadBy::SAMPLE, tab, {"z1"}, {"z1"}, x[2] != 0, false); })
    .fromNF([](const std::string& p) { return DbMeshTurbo::createFromNF(p, nf_verbose()); })
    .getters([](const DbMeshTurbo& d, Fp& fp) {
      fp.I("mesh:napices", d.getNApices()); fp.I("mesh:nmeshes", d.getNMeshes());
      for (int im = 0; im < d.getNMeshes(); im++) for (int r = 0; r < d._mesh.getNApexPerMesh(); r++) fp.I("mesh:apex(" + std::to_string(im) + "," + std::to_string(r) + ")", d.getApex(im, r));
      for (int k = 0; k < d.getNDim(); k++) { fp.I("grid:nx" + std::to_string(k), d.getNX(k)); fp.D("grid:dx" + std::to_string(k), d.getDX(k)); fp.D("grid:x0" + std::to_string(k), d.getX0(k)); fp.D("grid:angle" + std::to_string(k), d.getAngle(k)); }
      db_getters(d, fp); })
    .invariants([](DbMeshTurbo& d) { std::string s = db_invariants(d); if (!s.empty()) return s; if (!d.isConsistent()) return std::string("mesh-vs-samples"); return std::string(""); })
    .nontrivial([](const std::vector<int>& x) { return x[1] || x[2] || x[3]; })
    .corpus({{1, 0, 0, 0}})
    .done();

  Reg<DbMeshStandard>("DbMeshStandard")
    .space([](bool) { Space s; s.axis("ndim", 2).axis("shape", 2).axis("vset", 2 + n_extreme_sets()); return s; })
    .build([](const std::vector<int>& x) -> DbMeshStandard* {
      int ndim = x[0] + 1, nap = x[1] ? ndim + 2 : ndim + 1, nm = x[1] ? 2 : 1;
      VectorDouble ap; for (int i = 0; i < nap; i++) for (int d = 0; d < ndim; d++) ap.push_back(i == d + 1 ? 1. : i == ndim + 1 ? 1.5 : 0.);
      VectorInt ms; for (int m = 0; m < nm; m++) for (int r = 0; r < ndim + 1; r++) ms.push_back(m == 0 ? r : r + 1);
      VectorDouble tab; for (int i = 0; i < nap; i++) tab.push_back(pick_value(vset_of(x[2], 2), i, 0));
      return DbMeshStandard::create(ndim, ndim + 1, ap, ms, ELoadBy::SAMPLE, tab, {"z1"}, {"z1"}, false); })
    .fromNF([](const std::string& p) { return DbMeshStandard::createFromNF(p, nf_verbose()); })
    .getters([](const DbMeshStandard& d, Fp& fp) {
      fp.I("mesh:napices", d._mesh.getNApices()); fp.I("mesh:nmeshes", d._mesh.getNMeshes());
      fp.VI("mesh:list", d._mesh.getMeshList()); fp.VD("mesh:apices", d._mesh.getPointList(true));
      db_getters(d, fp); })
    .invariants([](DbMeshStandard& d) { std::string s = db_invariants(d); if (!s.empty()) return s; if (!d.isConsistent()) return std::string("mesh-vs-samples"); return std::string(""); })
    .nontrivial([](const std::vector<int>& x) { return x[1] || x[2]; })
    .corpus({{1, 0, 0}})
    .done();
}

inline void register_batch2()
{
  register_vario();
  register_anam();
  register_mesh();
  register_rule();
  register_neigh2();
  register_lines();
  register_db2();
}
}  // namespace vfc
