// C19 — a calculation either completes or leaves its data bases untouched.
// Engine E3: for every calculator scenario x prior content of the data bases x fault plan, the REAL public entry
// point is called in a forked child (pristine library state, crash isolation).  Fault plans:
//   part inject  : the guarded hook gstlearn_verif_fault fails its k-th call, k = 0 (no fault), 1..KMAX (plans whose
//                  k exceeds the number of fault points reached are counted "unreached");
//   part natural : no injection, the inputs are sabotaged in one documented way (wrong space dimension, no variable,
//                  variable count != model, neighbourhood impossible, no coordinates on the target, ...).
// Oracle (bit-exact snapshot vf::db_snapshot = names, UIDs, roles, values of every column):
//   reported failure  -> dbin and dbout snapshots identical to the ones taken before the call; then the same call is
//                        repeated WITHOUT fault on the same objects: it must succeed and give the same dbout as a
//                        fresh, never-failed world ("objects remain usable");
//   reported success  -> dbin identical (when it is not also the output), every pre-existing column of dbout still
//                        there with identical name and cells, number of added columns = the documented number; a success
//                        reported although a fault was injected is a violation.
// Finding keys: rollback:<calculator>:<fault point> (the point is the stage name, addvar#i for the i-th variable creation).
#include "vf/gst.hpp"
#include "vf/fork.hpp"

#include "Basic/VerifHook.hpp"
#include "Basic/NamingConvention.hpp"
#include "Calculators/CalcGridToGrid.hpp"
#include "Calculators/CalcMigrate.hpp"
#include "Calculators/CalcStatistics.hpp"
#include "Covariances/CovAniso.hpp"
#include "Enum/ECov.hpp"
#include "Enum/EKrigOpt.hpp"
#include "Enum/EStatOption.hpp"
#include "Estimation/CalcImage.hpp"
#include "Estimation/CalcKriging.hpp"
#include "Estimation/CalcSimpleInterpolation.hpp"
#include "Model/Model.hpp"
#include "Neigh/NeighImage.hpp"
#include "Enum/ENeigh.hpp"
#include "Neigh/NeighMoving.hpp"
#include "Neigh/NeighUnique.hpp"
#include "Simulation/CalcSimuFFT.hpp"
#include "Simulation/CalcSimuTurningBands.hpp"
#include "Simulation/SimuFFTParam.hpp"
#include "Space/SpaceRN.hpp"

using namespace vf;

// ------------------------------------------------------------------------------------------------------------
// fault plan
static int g_calls = 0, g_failAt = 0;
static std::vector<std::string> g_points;
static int verif_hook(const char* point)
{
  g_calls++;
  g_points.push_back(point);
  return g_calls == g_failAt ? 1 : 0;
}
static std::string point_label(int k)  // k = 1-based index in g_points
{
  if (k < 1 || k > (int)g_points.size()) return "none";
  std::string p = g_points[k - 1];
  if (p != "addvar") return p;
  int n = 0;
  for (int i = 0; i < k; i++) if (g_points[i] == "addvar") n++;
  return "addvar#" + std::to_string(n);
}

// ------------------------------------------------------------------------------------------------------------
struct World
{
  Db* dbin = nullptr;
  Db* dbout = nullptr;   // may be == dbin
  Model* model = nullptr;
  ANeigh* neigh = nullptr;
};
static const int NOSTATUS = 99;  // entry point without error code (krigtest)
struct Scenario
{
  std::string calc;
  std::function<void(World&)> build;
  std::function<int(World&)> call;
  int expectedNew;          // documented number of variables added to dbout on success
  std::string clashName;    // name of (one of) the documented output variable(s), used by the "name clash" prior
};
static std::vector<Scenario> SC;

static Db* data2d(int nvar = 1)
{
  std::vector<std::vector<double>> z;
  z.push_back({1.5, 2.25, 0.75, 3.5, 2., 1.25});
  if (nvar > 1) z.push_back({0.5, 1.25, 2.75, 1.5, 3., 2.25});
  return make_db_xz({{0.25, 1.75, 0.5, 1.5, 1.25, 0.75}, {0.5, 0.25, 1.5, 1.75, 1., 2.25}}, z);
}
static DbGrid* grid2d(bool withZ = false)
{
  if (!withZ) return DbGrid::create({3, 3}, {1., 1.}, {0., 0.});
  return DbGrid::create({3, 3}, {1., 1.}, {0., 0.}, VectorDouble(), ELoadBy::COLUMN, {1., 2., 3., 4., 5., 6., 7., 8., 9.}, {"z1"}, {"z1"});
}
static Db* targets2d() { return make_db_xz({{0.4, 1.1, 1.9}, {0.6, 1.3, 0.2}}, {}); }
static Model* model2d(int ndim = 2)
{
  const ASpace* sp = ndim == 2 ? nullptr : new SpaceRN(ndim);
  return Model::createFromParam(ECov::SPHERICAL, 4., 1., 1., VectorDouble(), VectorDouble(), VectorDouble(), sp);
}

static void build_scenarios()
{
  auto add = [](const std::string& c, std::function<void(World&)> b, std::function<int(World&)> f, int n, const std::string& clash) { SC.push_back({c, b, f, n, clash}); };
  auto std_in_grid = [](World& w) { w.dbin = data2d(); w.dbout = grid2d(); w.model = model2d(); w.neigh = NeighUnique::create(); };
  auto std_in_pts = [](World& w) { w.dbin = data2d(); w.dbout = targets2d(); w.model = model2d(); w.neigh = NeighMoving::create(false, 4, 10.); };

  add("kriging", std_in_grid, [](World& w) { return kriging(w.dbin, w.dbout, w.model, w.neigh); }, 2, "Kriging.z1.estim");
  add("kriging-moving-points", std_in_pts, [](World& w) { return kriging(w.dbin, w.dbout, w.model, w.neigh, EKrigOpt::POINT, true, true, true); }, 3, "Kriging.z1.stdev");
  add("kriging-extdrift", [](World& w) {
        w.dbin = data2d();
        w.dbout = DbGrid::create({3, 3}, {1., 1.}, {0., 0.}, VectorDouble(), ELoadBy::COLUMN, {1., 2., 3., 2., 3., 4., 3., 4., 5.}, {"drift"}, {"f1"});
        w.model = model2d(); w.model->setDriftIRF(0, 1);
        w.neigh = NeighUnique::create(); },
      [](World& w) { return kriging(w.dbin, w.dbout, w.model, w.neigh); }, 2, "Kriging.z1.estim");
  add("krigtest", std_in_grid, [](World& w) { Krigtest_Res r = krigtest(w.dbin, w.dbout, w.model, w.neigh, 1, EKrigOpt::POINT, VectorInt(), false, false); return NOSTATUS; }, 0, "Kriging.z1.estim");
  add("xvalid", [](World& w) { w.dbin = data2d(); w.dbout = w.dbin; w.model = model2d(); w.neigh = NeighUnique::create(); },
      [](World& w) { return xvalid(w.dbin, w.model, w.neigh); }, 2, "Xvalid.z1.esterr");
  add("test_neigh", std_in_pts, [](World& w) { return test_neigh(w.dbin, w.dbout, w.model, w.neigh); }, 5, "Neigh.z1.Number");
  add("krigcell", std_in_grid, [](World& w) { return krigcell(w.dbin, w.dbout, w.model, w.neigh, true, true, {2, 2}); }, 2, "KrigCell.z1.estim");
  add("simtub-nc", [](World& w) { w.dbout = grid2d(); w.model = model2d(); },
      [](World& w) { return simtub(nullptr, w.dbout, w.model, nullptr, 2, 4321, 20); }, 2, "Simu.1");
  add("simtub-cond", std_in_grid, [](World& w) { return simtub(w.dbin, w.dbout, w.model, w.neigh, 2, 4321, 20); }, 2, "Simu.z1.1");
  add("migrate", [](World& w) { w.dbin = grid2d(true); w.dbout = targets2d(); }, [](World& w) { return migrate(w.dbin, w.dbout, "z1"); }, 1, "Migrate.z1");
  add("migrateByLocator", [](World& w) { w.dbin = data2d(2); w.dbout = grid2d(); }, [](World& w) { return migrateByLocator(w.dbin, w.dbout, ELoc::Z); }, 2, "Migrate.z1");
  add("dbStatisticsOnGrid", [](World& w) { w.dbin = data2d(); w.dbout = grid2d(); },
      [](World& w) { return dbStatisticsOnGrid(w.dbin, dynamic_cast<DbGrid*>(w.dbout), EStatOption::MEAN); }, 1, "Stats.z1");
  add("inverseDistance", [](World& w) { w.dbin = data2d(); w.dbout = grid2d(); }, [](World& w) { return inverseDistance(w.dbin, w.dbout); }, 1, "InvDist.z1.estim");
  add("nearestNeighbor", [](World& w) { w.dbin = data2d(); w.dbout = targets2d(); }, [](World& w) { return nearestNeighbor(w.dbin, w.dbout); }, 1, "Nearest.z1.estim");
  add("movingAverage", [](World& w) { w.dbin = data2d(); w.dbout = grid2d(); w.neigh = NeighMoving::create(false, 4, 10.); },
      [](World& w) { return movingAverage(w.dbin, w.dbout, w.neigh); }, 1, "MovAve.z1.estim");
  add("movingMedian", [](World& w) { w.dbin = data2d(); w.dbout = grid2d(); w.neigh = NeighMoving::create(false, 4, 10.); },
      [](World& w) { return movingMedian(w.dbin, w.dbout, w.neigh); }, 1, "MovMed.z1.estim");
  add("leastSquares", [](World& w) { w.dbin = data2d(); w.dbout = grid2d(); w.neigh = NeighMoving::create(false, 6, 10.); },
      [](World& w) { return leastSquares(w.dbin, w.dbout, w.neigh, 1); }, 1, "LstSqr.z1.estim");
  add("dbg2gCopy", [](World& w) { w.dbin = grid2d(true); w.dbout = grid2d(); },
      [](World& w) { return dbg2gCopy(dynamic_cast<DbGrid*>(w.dbin), dynamic_cast<DbGrid*>(w.dbout)); }, 1, "Copy.z1");
  add("simfft", [](World& w) { w.dbout = DbGrid::create({8, 8}, {1., 1.}, {0., 0.}); w.model = model2d(); },
      [](World& w) { SimuFFTParam p; return simfft(dynamic_cast<DbGrid*>(w.dbout), w.model, p, 2, 1234); }, 2, "FFT.1");
  add("krimage", [](World& w) { w.dbin = nullptr; w.dbout = DbGrid::create({5, 5}, {1., 1.}, {0., 0.}, VectorDouble(), ELoadBy::COLUMN,
                                                                            {1, 2, 3, 4, 5, 2, 3, 4, 5, 6, 3, 4, 5, 6, 7, 4, 5, 6, 7, 8, 5, 6, 7, 8, 9}, {"z1"}, {"z1"});
                               w.model = model2d(); w.neigh = NeighImage::create({1, 1}); },
      [](World& w) { return krimage(dynamic_cast<DbGrid*>(w.dbout), w.model, w.neigh); }, 1, "Filtering.z1");
}

// ------------------------------------------------------------------------------------------------------------
// prior contents of the data bases
static const char* PRIOR_NAME[] = {"plain", "output-name-already-used", "selections", "roles-used-temporarily-already-present", "extra-columns-in-the-middle"};
static const int NPRIOR = 5;
static void apply_prior(int p, World& w, const Scenario& s)
{
  if (p == 0 || w.dbout == nullptr) return;
  int no = w.dbout->getSampleNumber();
  if (p == 1)
  {
    w.dbout->addColumnsByConstant(1, 42., s.clashName, ELoc::UNKNOWN);
  }
  else if (p == 2)
  {
    VectorDouble so(no, 1.); so[no - 1] = 0.;
    w.dbout->addSelection(so, "selout");
    if (w.dbin != nullptr && w.dbin != w.dbout) { VectorDouble si(w.dbin->getSampleNumber(), 1.); si[0] = 0.; w.dbin->addSelection(si, "selin"); }
  }
  else if (p == 3)
  {
    w.dbout->addColumnsByConstant(1, 5., "oldsimu", ELoc::SIMU);
    w.dbout->addColumnsByConstant(1, 6., "olddrift", ELoc::F);
    if (w.dbout != w.dbin && w.dbout->getLocatorNumber(ELoc::Z) == 0) w.dbout->addColumnsByConstant(1, 7., "oldz", ELoc::Z);
  }
  else if (p == 4)
  {
    // a deleted column in the middle: UIDs and column indices differ from now on
    w.dbout->addColumnsByConstant(2, 8., "extra", ELoc::UNKNOWN);
    w.dbout->deleteColumn("extra-1");
    if (w.dbin != nullptr && w.dbin != w.dbout) { w.dbin->addColumnsByConstant(2, 9., "extra", ELoc::UNKNOWN); w.dbin->deleteColumn("extra-1"); }
  }
}

// sabotages (natural failures); return false when not applicable to the scenario
static const char* SAB_NAME[] = {"model-of-another-space-dimension", "no-variable-in-dbin", "two-variables-but-monovariate-model", "model-without-covariance",
                                 "moving-neighbourhood-nmini-too-large", "no-coordinates-in-dbout", "image-neighbourhood", "target-without-samples", "dbin-without-samples", "all-values-undefined"};
// sabotages after which the library itself states that the calculation cannot be done: a success status is a violation
// (CalcKriging::_check and _krigsim print "This tool cannot function with an IMAGE neighborhood")
static bool must_fail(int q, const std::string& calc)
{
  if (q != 6) return false;
  for (const char* c : {"kriging", "kriging-moving-points", "kriging-extdrift", "krigcell", "xvalid", "test_neigh", "simtub-cond"}) if (calc == c) return true;
  return false;
}
static const int NSAB = 10;
static bool apply_sabotage(int q, World& w)
{
  switch (q)
  {
    case 0: if (!w.model) return false; delete w.model; w.model = model2d(3); return true;
    case 1: if (!w.dbin) return false; w.dbin->clearLocators(ELoc::Z); return true;
    case 2: if (!w.dbin || !w.model) return false; w.dbin->addColumnsByConstant(1, 3., "z2", ELoc::Z, 1); return true;
    case 3: if (!w.model) return false; delete w.model; w.model = Model::create(); return true;
    case 4: if (!w.neigh || !w.dbin) return false; delete w.neigh; w.neigh = NeighMoving::create(false, 50, 10., 40); return true;
    case 5: if (!w.dbout || w.dbout->isGrid()) return false; w.dbout->clearLocators(ELoc::X); return true;
    case 6: if (!w.neigh || !w.dbin || w.neigh->getType() == ENeigh::IMAGE) return false; delete w.neigh; w.neigh = NeighImage::create({1, 1}); return true;
    case 7: if (!w.dbout || w.dbout->isGrid() || w.dbout == w.dbin) return false; w.dbout->deleteSamples({0, 1, 2}); return true;
    case 8: if (!w.dbin || w.dbin->isGrid() || w.dbout == w.dbin) return false; w.dbin->deleteSamples({0, 1, 2, 3, 4, 5}); return true;
    case 9: if (!w.dbin) return false; for (int e = 0; e < w.dbin->getSampleNumber(); e++) w.dbin->setLocVariable(ELoc::Z, e, 0, TEST); return true;
  }
  return false;
}

// ------------------------------------------------------------------------------------------------------------
struct ColInfo { int uid; std::string name; std::vector<uint64_t> bits; };
static std::vector<ColInfo> columns(const Db* db)
{
  std::vector<ColInfo> v;
  if (!db) return v;
  for (int ic = 0; ic < db->getColumnNumber(); ic++)
  {
    ColInfo c; c.uid = db->getUIDByColIdx(ic); c.name = db->getNameByColIdx(ic);
    for (int e = 0; e < db->getSampleNumber(); e++) { double x = db->getValueByColIdx(e, ic); uint64_t b; memcpy(&b, &x, 8); c.bits.push_back(b); }
    v.push_back(c);
  }
  return v;
}
static std::string snap(const Db* db) { return db ? db_snapshot(db) : std::string("null"); }
// snapshot without the UIDs (a rolled-back call legitimately consumes UIDs: they are never reused)
static std::string snap_nouid(const Db* db)
{
  std::string s = snap(db), o;
  for (size_t i = 0; i < s.size();)
  {
    if (s.compare(i, 5, " uid=") == 0) { i += 5; while (i < s.size() && (isdigit((unsigned char)s[i]) || s[i] == '-')) i++; continue; }
    o += s[i++];
  }
  return o;
}
// short human description of the difference between two snapshots (first differing / extra lines)
static std::string snapdiff(const std::string& a, const std::string& b)
{
  std::vector<std::string> la, lb;
  std::stringstream sa(a), sb(b);
  std::string l;
  while (std::getline(sa, l)) la.push_back(l);
  while (std::getline(sb, l)) lb.push_back(l);
  auto head = [](const std::string& s) { size_t p = s.find(" :"); return p == std::string::npos ? s : s.substr(0, p); };
  std::string out;
  int n = 0;
  for (auto& x : lb) { bool f = false; for (auto& y : la) if (x == y) f = true; if (!f && n++ < 4) out += " after-only{" + head(x) + "}"; }
  n = 0;
  for (auto& x : la) { bool f = false; for (auto& y : lb) if (x == y) f = true; if (!f && n++ < 4) out += " before-only{" + head(x) + "}"; }
  return out;
}

struct Report { std::vector<std::pair<std::string, std::string>> viol; std::vector<std::string> outcomes; bool exercised = false; };

static void destroy(World& w) { if (w.dbout != w.dbin) delete w.dbout; delete w.dbin; delete w.model; delete w.neigh; w = World(); }

// one complete case, run inside the child. fail = index of the hook call to fail (0 none), sab = sabotage (-1 none)
static void run_case(const Scenario& s, int prior, int fail, int sab, Report& R)
{
  gstlearn_verif_fault = verif_hook;
  World w;
  s.build(w);
  apply_prior(prior, w, s);
  if (sab >= 0 && !apply_sabotage(sab, w)) { R.outcomes.push_back("sabotage-not-applicable"); return; }
  bool same = w.dbin == w.dbout;
  std::string bin = snap(w.dbin), bout = snap(w.dbout);
  std::vector<ColInfo> cout0 = columns(w.dbout);

  g_calls = 0; g_points.clear(); g_failAt = fail;
  int ret = s.call(w);
  g_failAt = 0;
  bool injected = fail > 0 && g_calls >= fail;
  if (fail > 0 && !injected) { R.outcomes.push_back("fault-point-unreached"); return; }
  std::string label = injected ? point_label(fail) : (sab >= 0 ? std::string("natural:") + SAB_NAME[sab] : std::string("none"));
  bool failed = ret != 0 && ret != NOSTATUS;
  if (ret == NOSTATUS) failed = injected;  // no status available: an injected fault always aborts ACalculator::run
  std::string ain = snap(w.dbin), aout = snap(w.dbout);
  std::string ctx = "calculator=" + s.calc + " prior=" + PRIOR_NAME[prior] + " fault=" + label + " return=" + std::to_string(ret);

  if (injected && ret == 0)
    R.viol.push_back({"success-despite-fault:" + s.calc + ":" + label, ctx + " : the call reports success although a stage failed"});

  if (failed)
  {
    R.exercised = true;
    bool clean = true;
    if (ain != bin) { clean = false; R.viol.push_back({"rollback:" + s.calc + ":" + label, ctx + " : dbin differs after the reported failure:" + snapdiff(bin, ain)}); }
    if (!same && aout != bout) { clean = false; R.viol.push_back({"rollback:" + s.calc + ":" + label, ctx + " : dbout differs after the reported failure:" + snapdiff(bout, aout)}); }
    R.outcomes.push_back(clean ? "failed-clean" : "failed-dirty");
    if (clean && injected)
    {
      // objects must remain usable: same call, no fault, same objects == fresh world
      g_calls = 0; g_points.clear();
      int r2 = s.call(w);
      World f; s.build(f); apply_prior(prior, f, s);
      g_calls = 0; g_points.clear();
      int r3 = s.call(f);
      if (r2 != r3 || snap_nouid(w.dbout) != snap_nouid(f.dbout) || snap_nouid(w.dbin) != snap_nouid(f.dbin))
        R.viol.push_back({"reuse-after-failure:" + s.calc + ":" + label, ctx + " : repeating the call on the same objects returns " + std::to_string(r2) + " (fresh objects: " + std::to_string(r3) + ") or gives different data bases:" + snapdiff(snap_nouid(f.dbout), snap_nouid(w.dbout))});
      else R.outcomes.push_back("reuse-after-failure-identical");
      destroy(f);
    }
  }
  else
  {
    // success
    if (sab >= 0) R.exercised = true;
    if (!same && ain != bin) R.viol.push_back({"success-changes-dbin:" + s.calc, ctx + " : the input data base differs after a successful call:" + snapdiff(bin, ain)});
    std::vector<ColInfo> c1 = columns(w.dbout);
    int kept = 0;
    for (auto& o : cout0)
    {
      bool found = false;
      for (auto& n : c1)
        if (n.uid == o.uid)
        {
          found = true; kept++;
          if (n.name != o.name) R.viol.push_back({"success-renames-old-column:" + s.calc, ctx + " : pre-existing column '" + o.name + "' of dbout is now called '" + n.name + "'"});
          if (n.bits != o.bits) R.viol.push_back({"success-changes-old-values:" + s.calc, ctx + " : cells of the pre-existing column '" + o.name + "' of dbout changed"});
        }
      if (!found) R.viol.push_back({"success-deletes-old-column:" + s.calc, ctx + " : pre-existing column '" + o.name + "' of dbout disappeared"});
    }
    int added = (int)c1.size() - kept;
    if (sab < 0 && ret != NOSTATUS && added != s.expectedNew)
      R.viol.push_back({"success-output-count:" + s.calc, ctx + " : " + std::to_string(added) + " variables were added to dbout, the documented number is " + std::to_string(s.expectedNew)});
    if (ret == NOSTATUS && added != 0)
      R.viol.push_back({"rollback:" + s.calc + ":temporaries-after-success", ctx + " : " + std::to_string(added) + " variables were left in dbout by a call that documents no output variable"});
    if (sab >= 0 && ret == 0 && must_fail(sab, s.calc))
      R.viol.push_back({"reports-success:" + s.calc + ":" + label, ctx + " : the library states that it cannot perform this calculation, yet the call returns the success status"});
    R.outcomes.push_back(sab >= 0 ? "sabotaged-but-succeeded" : "succeeded");
  }
  if (fail == 0 && sab < 0) R.outcomes.push_back("fault-points-reached=" + std::to_string(g_calls));
  destroy(w);
}

static void run_forked(Ctx& C, uint64_t id, const Scenario& s, int prior, int fail, int sab)
{
  ChildResult cr = run_child([&](int wfd) {
    Report R;
    run_case(s, prior, fail, sab, R);
    std::string o;
    for (auto& v : R.viol) o += "V\t" + v.first + "\t" + v.second + "\n";
    for (auto& x : R.outcomes) o += "O\t" + x + "\n";
    if (R.exercised) o += "X\n";
    o += "END\n";
    child_write(wfd, o);
    return 0;
  }, 15., 0);
  C.eval();
  std::string kase = std::to_string(id);
  std::string ctx = "calculator=" + s.calc + " prior=" + PRIOR_NAME[prior] + (fail > 0 ? " fault=hook call #" + std::to_string(fail) : "") + (sab >= 0 ? std::string(" sabotage=") + SAB_NAME[sab] : "");
  bool complete = cr.data.size() >= 4 && cr.data.substr(cr.data.size() - 4) == "END\n";
  if (!cr.clean() || cr.code != 0 || !complete)
  {
    std::string where = fail > 0 ? "fault#" + std::to_string(fail) : sab >= 0 ? std::string("natural:") + SAB_NAME[sab] : "none";
    C.violation("crash:" + s.calc + ":" + where, ctx + " : the child process ended with " + cr.describe() + " instead of returning", kase);
    C.outcome("crash-or-timeout");
    C.nontrivial(id);
    return;
  }
  std::stringstream ss(cr.data);
  std::string line;
  while (std::getline(ss, line))
  {
    if (line == "X") C.nontrivial(id);
    else if (line.rfind("O\t", 0) == 0) C.outcome(line.substr(2));
    else if (line.rfind("V\t", 0) == 0)
    {
      size_t p = line.find('\t', 2);
      C.violation(line.substr(2, p - 2), line.substr(p + 1), kase);
    }
  }
  if (id % 97 == 3) C.sample("{\"id\":" + kase + ",\"case\":" + jstr(ctx) + ",\"child_output\":" + jstr(cr.data.substr(0, 300)) + "}");
}

static const int KMAX = 10;

VF_PART(inject)
{
  Space sp;
  sp.axis("scenario", (int)SC.size()).axis("prior", C.thorough() ? NPRIOR : 3).axis("fail", KMAX + 1);
  for_each_case(C, sp, [&](uint64_t id, const std::vector<int>& idx) { run_forked(C, id, SC[idx[0]], idx[1], idx[2], -1); });
}

VF_PART(natural)
{
  Space sp;
  sp.axis("scenario", (int)SC.size()).axis("prior", C.thorough() ? NPRIOR : 2).axis("sabotage", NSAB);
  for_each_case(C, sp, [&](uint64_t id, const std::vector<int>& idx) { run_forked(C, id, SC[idx[0]], idx[1], 0, idx[2]); });
}

int main(int argc, char** argv)
{
  return run_main(argc, argv, [](Ctx&) { silence(); build_scenarios(); });
}
