// C19 — a calculation either completes or leaves its data bases untouched.
// Engine E3: for every calculator scenario x prior content of the data bases x fault plan, the REAL public entry
// point is called in a forked child (pristine library state, crash isolation).  Fault plans:
//   part inject  : the guarded hook gstlearn_verif_fault fails its k-th call, k = 0 (no fault), 1..KMAX (plans whose
//                  k exceeds the number of fault points reached are counted "unreached");
//   part natural : no injection, the inputs are sabotaged in one documented way (wrong space dimension, no variable,
//                  variable count != model, neighbourhood impossible, no coordinates on the target, ...).
// Oracle (bit-exact snapshot vf::db_snapshot = names, UIDs, roles, values of every column):
//   reported failure  -> dbin and dbout snapshots identical to the ones taken before the call; then the same call is
//                        repeated WITHOUT fault on the same objects: it must succeed and give the same dbout as a
//                        fresh, never-failed world ("objects remain usable");
//   reported success  -> dbin identical (when it is not also the output), every pre-existing column of dbout still
//                        there with identical name and cells, number of added columns = the documented number; a success
//                        reported although a fault was injected is a violation.
// Finding keys: rollback:<calculator>:<fault point> (the point is the stage name, addvar#i for the i-th variable creation).
#include "vf/gst.hpp"
#include "vf/fork.hpp"

#include "Basic/VerifHook.hpp"
#include "Basic/NamingConvention.hpp"
#include "Calculators/CalcGridToGrid.hpp"
#include "Calculators/CalcMigrate.hpp"
#include "Calculators/CalcStatistics.hpp"
#include "Covariances/CovAniso.hpp"
#include "Enum/ECov.hpp"
#include "Enum/EKrigOpt.hpp"
#include "Enum/EStatOption.hpp"
#include "Estimation/CalcImage.hpp"
#include "Estimation/CalcKriging.hpp"
#include "Estimation/CalcSimpleInterpolation.hpp"
#include "Model/Model.hpp"
#include "Neigh/NeighImage.hpp"
#include "Enum/ENeigh.hpp"
#include "Neigh/NeighMoving.hpp"
#include "Neigh/NeighUnique.hpp"
#include "Simulation/CalcSimuFFT.hpp"
#include "Simulation/CalcSimuTurningBands.hpp"
#include "Simulation/SimuFFTParam.hpp"
#include "Space/SpaceRN.hpp"
#include "Anamorphosis/AnamHermite.hpp"
#include "Anamorphosis/CalcAnamTransform.hpp"
#include "Stats/Selectivity.hpp"
#include "Enum/ESelectivity.hpp"
#include "Enum/EMorpho.hpp"
#include "Enum/EPostUpscale.hpp"
#include "Enum/EPostStat.hpp"
#include "Estimation/CalcKrigingFactors.hpp"
#include "Estimation/CalcGlobal.hpp"
#include "Calculators/CalcSimuPost.hpp"
#include "Simulation/CalcSimuPartition.hpp"
#include "Simulation/SimuPartitionParam.hpp"
#include "Simulation/CalcSimuSubstitution.hpp"
#include "Simulation/SimuSubstitutionParam.hpp"
#include "Simulation/SimuSpherical.hpp"
#include "Simulation/SimuSphericalParam.hpp"
#include "Simulation/CalcSimuRefine.hpp"
#include "Simulation/SimuRefineParam.hpp"
#include "Simulation/CalcSimuEden.hpp"
#include "Matrix/MatrixSquareSymmetric.hpp"
#include <set>

using namespace vf;

// ------------------------------------------------------------------------------------------------------------
// fault plan
static int g_calls = 0, g_failAt = 0;
static std::vector<std::string> g_points;
static int verif_hook(const char* point)
{
  g_calls++;
  g_points.push_back(point);
  return g_calls == g_failAt ? 1 : 0;
}
static std::string point_label(int k)  // k = 1-based index in g_points
{
  if (k < 1 || k > (int)g_points.size()) return "none";
  std::string p = g_points[k - 1];
  if (p != "addvar") return p;
  int n = 0;
  for (int i = 0; i < k; i++) if (g_points[i] == "addvar") n++;
  return "addvar#" + std::to_string(n);
}

// ------------------------------------------------------------------------------------------------------------
struct World
{
  Db* dbin = nullptr;
  Db* dbout = nullptr;   // may be == dbin
  Model* model = nullptr;
  ANeigh* neigh = nullptr;
  AnamHermite* anam = nullptr;
  Selectivity* sel = nullptr;
  Db* produced = nullptr;  // data base returned by the call itself (simulation_refine)
  std::vector<Db*> aux;    // further data bases which are pure inputs of the call (auxiliary / reference Dbs)
};
static const int NOSTATUS = 99;  // entry point without error code (krigtest)
struct Scenario
{
  std::string calc;
  std::function<void(World&)> build;
  std::function<int(World&)> call;
  int expectedNew;          // documented number of variables added to dbout on success
  std::string clashName;    // name of (one of) the documented output variable(s), used by the "name clash" prior
  std::string base;         // flag variants: name of the base scenario, used in the finding keys (empty = calc)
  bool ownNames = false;    // flag variants: the documented outputs are derived from the flags (names below)
  std::vector<std::string> names;
  std::string key() const { return base.empty() ? calc : base; }
  const std::vector<std::string>* expected() const;
};
static std::vector<Scenario> SC;

static Db* data2d(int nvar = 1)
{
  std::vector<std::vector<double>> z;
  z.push_back({1.5, 2.25, 0.75, 3.5, 2., 1.25});
  if (nvar > 1) z.push_back({0.5, 1.25, 2.75, 1.5, 3., 2.25});
  if (nvar > 2) z.push_back({2.5, 0.25, 1.75, 2., 0.5, 3.25});
  return make_db_xz({{0.25, 1.75, 0.5, 1.5, 1.25, 0.75}, {0.5, 0.25, 1.5, 1.75, 1., 2.25}}, z);
}
static Model* model_nvar(int nvar)
{
  if (nvar == 1) return Model::createFromParam(ECov::SPHERICAL, 4., 1.);
  VectorDouble sills;
  for (int i = 0; i < nvar; i++) for (int j = 0; j < nvar; j++) sills.push_back(std::pow(0.5, std::abs(i - j)));
  return Model::createFromParam(ECov::SPHERICAL, 4., 1., 1., VectorDouble(), sills);
}
static DbGrid* grid2d(bool withZ = false)
{
  if (!withZ) return DbGrid::create({3, 3}, {1., 1.}, {0., 0.});
  return DbGrid::create({3, 3}, {1., 1.}, {0., 0.}, VectorDouble(), ELoadBy::COLUMN, {1., 2., 3., 4., 5., 6., 7., 8., 9.}, {"z1"}, {"z1"});
}
static Db* targets2d() { return make_db_xz({{0.4, 1.1, 1.9}, {0.6, 1.3, 0.2}}, {}); }
static Model* model2d(int ndim = 2)
{
  const ASpace* sp = ndim == 2 ? nullptr : new SpaceRN(ndim);
  return Model::createFromParam(ECov::SPHERICAL, 4., 1., 1., VectorDouble(), VectorDouble(), VectorDouble(), sp);
}

static void build_scenarios()
{
  auto add = [](const std::string& c, std::function<void(World&)> b, std::function<int(World&)> f, int n, const std::string& clash) { SC.push_back({c, b, f, n, clash}); };
  auto std_in_grid = [](World& w) { w.dbin = data2d(); w.dbout = grid2d(); w.model = model2d(); w.neigh = NeighUnique::create(); };
  auto std_in_pts = [](World& w) { w.dbin = data2d(); w.dbout = targets2d(); w.model = model2d(); w.neigh = NeighMoving::create(false, 4, 10.); };

  add("kriging", std_in_grid, [](World& w) { return kriging(w.dbin, w.dbout, w.model, w.neigh); }, 2, "Kriging.z1.estim");
  add("kriging-moving-points", std_in_pts, [](World& w) { return kriging(w.dbin, w.dbout, w.model, w.neigh, EKrigOpt::POINT, true, true, true); }, 3, "Kriging.z1.stdev");
  add("kriging-extdrift", [](World& w) {
        w.dbin = data2d();
        w.dbout = DbGrid::create({3, 3}, {1., 1.}, {0., 0.}, VectorDouble(), ELoadBy::COLUMN, {1., 2., 3., 2., 3., 4., 3., 4., 5.}, {"drift"}, {"f1"});
        w.model = model2d(); w.model->setDriftIRF(0, 1);
        w.neigh = NeighUnique::create(); },
      [](World& w) { return kriging(w.dbin, w.dbout, w.model, w.neigh); }, 2, "Kriging.z1.estim");
  add("krigtest", std_in_grid, [](World& w) { Krigtest_Res r = krigtest(w.dbin, w.dbout, w.model, w.neigh, 1, EKrigOpt::POINT, VectorInt(), false, false); return NOSTATUS; }, 0, "Kriging.z1.estim");
  add("xvalid", [](World& w) { w.dbin = data2d(); w.dbout = w.dbin; w.model = model2d(); w.neigh = NeighUnique::create(); },
      [](World& w) { return xvalid(w.dbin, w.model, w.neigh); }, 2, "Xvalid.z1.esterr");
  add("test_neigh", std_in_pts, [](World& w) { return test_neigh(w.dbin, w.dbout, w.model, w.neigh); }, 5, "Neigh.z1.Number");
  add("krigcell", std_in_grid, [](World& w) { return krigcell(w.dbin, w.dbout, w.model, w.neigh, true, true, {2, 2}); }, 2, "KrigCell.z1.estim");
  add("simtub-nc", [](World& w) { w.dbout = grid2d(); w.model = model2d(); },
      [](World& w) { return simtub(nullptr, w.dbout, w.model, nullptr, 2, 4321, 20); }, 2, "Simu.1");
  add("simtub-cond", std_in_grid, [](World& w) { return simtub(w.dbin, w.dbout, w.model, w.neigh, 2, 4321, 20); }, 2, "Simu.z1.1");
  add("migrate", [](World& w) { w.dbin = grid2d(true); w.dbout = targets2d(); }, [](World& w) { return migrate(w.dbin, w.dbout, "z1"); }, 1, "Migrate.z1");
  add("migrateByLocator", [](World& w) { w.dbin = data2d(2); w.dbout = grid2d(); }, [](World& w) { return migrateByLocator(w.dbin, w.dbout, ELoc::Z); }, 2, "Migrate.z1");
  add("dbStatisticsOnGrid", [](World& w) { w.dbin = data2d(); w.dbout = grid2d(); },
      [](World& w) { return dbStatisticsOnGrid(w.dbin, dynamic_cast<DbGrid*>(w.dbout), EStatOption::MEAN); }, 1, "Stats.z1");
  add("inverseDistance", [](World& w) { w.dbin = data2d(); w.dbout = grid2d(); }, [](World& w) { return inverseDistance(w.dbin, w.dbout); }, 1, "InvDist.z1.estim");
  add("nearestNeighbor", [](World& w) { w.dbin = data2d(); w.dbout = targets2d(); }, [](World& w) { return nearestNeighbor(w.dbin, w.dbout); }, 1, "Nearest.z1.estim");
  add("movingAverage", [](World& w) { w.dbin = data2d(); w.dbout = grid2d(); w.neigh = NeighMoving::create(false, 4, 10.); },
      [](World& w) { return movingAverage(w.dbin, w.dbout, w.neigh); }, 1, "MovAve.z1.estim");
  add("movingMedian", [](World& w) { w.dbin = data2d(); w.dbout = grid2d(); w.neigh = NeighMoving::create(false, 4, 10.); },
      [](World& w) { return movingMedian(w.dbin, w.dbout, w.neigh); }, 1, "MovMed.z1.estim");
  add("leastSquares", [](World& w) { w.dbin = data2d(); w.dbout = grid2d(); w.neigh = NeighMoving::create(false, 6, 10.); },
      [](World& w) { return leastSquares(w.dbin, w.dbout, w.neigh, 1); }, 1, "LstSqr.z1.estim");
  add("dbg2gCopy", [](World& w) { w.dbin = grid2d(true); w.dbout = grid2d(); },
      [](World& w) { return dbg2gCopy(dynamic_cast<DbGrid*>(w.dbin), dynamic_cast<DbGrid*>(w.dbout)); }, 1, "Copy.z1");
  add("simfft", [](World& w) { w.dbout = DbGrid::create({8, 8}, {1., 1.}, {0., 0.}); w.model = model2d(); },
      [](World& w) { SimuFFTParam p; return simfft(dynamic_cast<DbGrid*>(w.dbout), w.model, p, 2, 1234); }, 2, "FFT.1");
  add("krimage", [](World& w) { w.dbin = nullptr; w.dbout = DbGrid::create({5, 5}, {1., 1.}, {0., 0.}, VectorDouble(), ELoadBy::COLUMN,
                                                                            {1, 2, 3, 4, 5, 2, 3, 4, 5, 6, 3, 4, 5, 6, 7, 4, 5, 6, 7, 8, 5, 6, 7, 8, 9}, {"z1"}, {"z1"});
                               w.model = model2d(); w.neigh = NeighImage::create({1, 1}); },
      [](World& w) { return krimage(dynamic_cast<DbGrid*>(w.dbout), w.model, w.neigh); }, 1, "Filtering.z1");
}


// ------------------------------------------------------------------------------------------------------------
// round 2: the remaining ACalculator-based entry points
static Db* anamdata()
{
  std::vector<double> x, y, z;
  for (int i = 0; i < 20; i++)
  {
    int k = (7 * i) % 20;
    x.push_back(0.25 + 0.5 * (i % 5) + 0.125 * ((i / 5) % 2));
    y.push_back(0.25 + 0.5 * (i / 5));
    z.push_back(1.5 * std::exp(0.5 * (-1.805 + 0.19 * k)));
  }
  return make_db_xz({x, y}, {z});
}
static AnamHermite* fitted_anam()
{
  Db* d = anamdata();
  AnamHermite* a = AnamHermite::create(8);
  a->fitFromLocator(d);
  delete d;
  return a;
}
static Selectivity* selec() { return Selectivity::createByCodes({ESelectivity::Q, ESelectivity::T}, {0., 1.5}, true, true); }
static DbGrid* grid_with(const std::vector<std::string>& names, const std::vector<std::vector<double>>& cols, const std::vector<std::string>& locs)
{
  VectorDouble tab;
  for (auto& c : cols) for (double v : c) tab.push_back(v);
  VectorString nm(names.begin(), names.end()), lc(locs.begin(), locs.end());
  return DbGrid::create({3, 3}, {1., 1.}, {0., 0.}, VectorDouble(), ELoadBy::COLUMN, tab, nm, lc);
}
static Model* model_drift() { Model* m = model2d(); m->setDriftIRF(0); return m; }

static void build_scenarios2()
{
  auto add = [](const std::string& c, std::function<void(World&)> b, std::function<int(World&)> f) { SC.push_back({c, b, f, -1, ""}); };
  std::vector<double> g9 = {-1., -0.5, 0., 0.5, 1., 0.25, -0.25, 0.75, -0.75}, s9 = {0.5, 0.6, 0.7, 0.4, 0.5, 0.6, 0.7, 0.4, 0.5};
  std::vector<double> z9 = {1., 1.5, 2., 1.25, 1.75, 2.25, 0.75, 1.5, 2.5}, v9 = {0.2, 0.3, 0.25, 0.2, 0.3, 0.25, 0.2, 0.3, 0.25};

  // ---- CalcAnamTransform family (one data base: the variables are added to the data base given)
  add("rawToGaussianByLocator", [](World& w) { w.dbout = anamdata(); w.anam = fitted_anam(); }, [](World& w) { return w.anam->rawToGaussianByLocator(w.dbout); });
  add("rawToGaussian", [](World& w) { w.dbout = anamdata(); w.anam = fitted_anam(); }, [](World& w) { return w.anam->rawToGaussian(w.dbout, "z1"); });
  add("normalScore", [](World& w) { w.dbout = anamdata(); w.anam = fitted_anam(); }, [](World& w) { return w.anam->normalScore(w.dbout, "z1"); });
  add("gaussianToRawByLocator", [](World& w) {
        w.dbout = anamdata(); w.anam = fitted_anam();
        w.anam->rawToGaussianByLocator(w.dbout);           // Y.z1 now holds the Z role
        w.dbout->setName("Y.z1", "gauss"); },
      [](World& w) { return w.anam->gaussianToRawByLocator(w.dbout); });
  add("rawToFactor", [](World& w) { w.dbout = anamdata(); w.anam = fitted_anam(); }, [](World& w) { return w.anam->rawToFactor(w.dbout, 2); });
  add("ConditionalExpectation", [g9, s9](World& w) { w.dbout = grid_with({"G.estim", "G.stdev"}, {g9, s9}, {"z1", ""}); w.anam = fitted_anam(); w.sel = selec(); },
      [](World& w) { return ConditionalExpectation(w.dbout, w.anam, w.sel, "G.estim", "G.stdev"); });
  add("DisjunctiveKriging", [g9, s9](World& w) { w.dbout = grid_with({"F.1.estim", "F.2.estim", "F.1.stdev", "F.2.stdev"}, {g9, g9, s9, s9}, {"z1", "z2", "", ""}); w.anam = fitted_anam(); w.sel = selec(); },
      [](World& w) { return DisjunctiveKriging(w.dbout, w.anam, w.sel, {"F.1.estim", "F.2.estim"}, {"F.1.stdev", "F.2.stdev"}); });
  add("UniformConditioning", [z9, v9](World& w) { w.dbout = grid_with({"Z.estim", "Z.varz"}, {z9, v9}, {"z1", ""}); w.anam = fitted_anam(); w.sel = selec(); },
      [](World& w) { return UniformConditioning(w.dbout, w.anam, w.sel, "Z.estim", "Z.varz"); });
  // ---- CalcKrigingFactors
  add("krigingFactors", [](World& w) {
        w.dbin = anamdata(); w.anam = fitted_anam();
        w.anam->rawToFactor(w.dbin, 2);
        w.dbout = DbGrid::create({3, 3}, {0.75, 0.5}, {0.5, 0.5});
        w.model = model2d(); w.model->setAnam(w.anam);
        w.neigh = NeighUnique::create(); },
      [](World& w) { return krigingFactors(w.dbin, w.dbout, w.model, w.neigh); });
  // ---- CalcKriging: the remaining entry points
  add("kribayes", [](World& w) { w.dbin = data2d(); w.dbout = grid2d(); w.model = model_drift(); w.neigh = NeighUnique::create(); },
      [](World& w) { MatrixSquareSymmetric c(1); c.setValue(0, 0, 1.); return kribayes(w.dbin, w.dbout, w.model, w.neigh, {1.}, c); });
  add("krigprof", [](World& w) { w.dbin = data2d(); w.dbin->addColumns({1., 1., 1., 2., 2., 2.}, "code", ELoc::C); w.dbin->addColumns({0.1, 0.1, 0.1, 0.1, 0.1, 0.1}, "verr", ELoc::V); w.dbout = grid2d(); w.model = model2d(); w.neigh = NeighUnique::create(); },
      [](World& w) { return krigprof(w.dbin, w.dbout, w.model, w.neigh); });
  add("kriggam", [](World& w) { w.dbin = anamdata(); w.dbout = DbGrid::create({3, 3}, {0.75, 0.5}, {0.5, 0.5}); w.model = model2d(); w.neigh = NeighUnique::create(); w.anam = fitted_anam(); },
      [](World& w) { return kriggam(w.dbin, w.dbout, w.model, w.neigh, w.anam); });
  add("simbayes", [](World& w) { w.dbin = data2d(); w.dbout = grid2d(); w.model = model_drift(); w.neigh = NeighUnique::create(); },
      [](World& w) { MatrixSquareSymmetric c(1); c.setValue(0, 0, 1.); return simbayes(w.dbin, w.dbout, w.model, w.neigh, 2, 4321, {1.}, c, 20); });
  // ---- CalcGlobal (results returned, nothing documented in the data bases)
  add("global_kriging", [](World& w) { w.dbin = data2d(); w.dbout = grid2d(); w.model = model2d(); },
      [](World& w) { Global_Result r = global_kriging(w.dbin, w.dbout, w.model, 0, false); return NOSTATUS; });
  add("global_arithmetic", [](World& w) { w.dbin = data2d(); w.dbout = grid2d(); w.model = model2d(); },
      [](World& w) { Global_Result r = global_arithmetic(w.dbin, dynamic_cast<DbGrid*>(w.dbout), w.model, 0, false); return NOSTATUS; });
  // ---- CalcStatistics
  add("dbRegression", [](World& w) { w.dbout = data2d(); },
      [](World& w) { return dbRegression(w.dbout, "z1", {"x1", "x2"}); });
  add("dbStatisticsOnGrid-num-radius", [](World& w) { w.dbin = data2d(); w.dbout = grid2d(); },
      [](World& w) { return dbStatisticsOnGrid(w.dbin, dynamic_cast<DbGrid*>(w.dbout), EStatOption::NUM, 1); });

  // ---- entry points taking a further data base which is a pure input: it is a distinct object here
  auto auxdb = [](bool large) {
    std::vector<std::vector<double>> cols = {{0.25, 1.75, 0.5, 1.5, 1.25, 0.75}, {0.5, 0.25, 1.5, 1.75, 1., 2.25}, {0.5, 1.5, 2.5, 1., 2., 3.}, {2., 1., 3., 1.5, 2.5, 0.5}};
    std::vector<std::string> names = {"x1", "x2", "a1", "a2"}, locs = {"x1", "x2", "z1", "z2"};
    if (large) for (int k = 0; k < 4; k++) { cols.push_back({1., 2., 3., 4., 5., 6.}); names.push_back("b" + std::to_string(k + 1)); locs.push_back(k == 0 ? "z3" : ""); }
    return make_db(cols, names, locs);
  };
  add("dbRegression-db2-smaller", [auxdb](World& w) { w.dbout = data2d(); w.aux.push_back(auxdb(false)); },
      [](World& w) { return dbRegression(w.dbout, "z1", {"a1", "a2"}, 0, true, w.aux[0]); });
  add("dbRegression-db2-larger", [auxdb](World& w) { w.dbout = data2d(); w.aux.push_back(auxdb(true)); },
      [](World& w) { return dbRegression(w.dbout, "z1", {"a1", "a2"}, 0, true, w.aux[0]); });
  add("migrateByLocator1", [](World& w) { w.dbin = data2d(); w.dbout = grid2d(); }, [](World& w) { return migrateByLocator(w.dbin, w.dbout, ELoc::Z); });
  add("migrateByAttribute", [](World& w) { w.dbin = data2d(2); w.dbout = grid2d(); },
      [](World& w) { return migrateByAttribute(w.dbin, w.dbout, {w.dbin->getUID("z1")}); });
  add("kriging-larger-input", [](World& w) { w.dbin = data2d(); w.dbin->addColumnsByConstant(6, 2.5, "pad", ELoc::UNKNOWN); w.dbout = targets2d(); w.model = model2d(); w.neigh = NeighUnique::create(); },
      [](World& w) { return kriging(w.dbin, w.dbout, w.model, w.neigh); });
  // ---- CalcSimuPost
  add("simuPost", [](World& w) {
        VectorDouble t; for (int k = 0; k < 32; k++) t.push_back(0.5 * ((5 * k) % 16));
        w.dbin = DbGrid::create({4, 4}, {1., 1.}, {0., 0.}, VectorDouble(), ELoadBy::COLUMN, t, {"s1", "s2"}, {"", ""});
        w.dbout = DbGrid::create({2, 2}, {2., 2.}, {0.5, 0.5}); },
      [](World& w) { return simuPost(w.dbin, dynamic_cast<DbGrid*>(w.dbout), {"s1", "s2"}); });
  // ---- CalcGridToGrid
  add("dbg2gExpand", [](World& w) { w.dbin = grid2d(true); w.dbout = DbGrid::create({3, 3, 2}, {1., 1., 1.}, {0., 0., 0.}); },
      [](World& w) { return dbg2gExpand(dynamic_cast<DbGrid*>(w.dbin), dynamic_cast<DbGrid*>(w.dbout)); });
  add("dbg2gShrink", [](World& w) {
        VectorDouble t; for (int k = 0; k < 18; k++) t.push_back(1. + 0.5 * k);
        w.dbin = DbGrid::create({3, 3, 2}, {1., 1., 1.}, {0., 0., 0.}, VectorDouble(), ELoadBy::COLUMN, t, {"z1"}, {"z1"});
        w.dbout = grid2d(); },
      [](World& w) { return dbg2gShrink(dynamic_cast<DbGrid*>(w.dbin), dynamic_cast<DbGrid*>(w.dbout)); });
  add("dbg2gInterpolate", [](World& w) {
        std::vector<double> top(9, 1.5), bot(9, -0.5), zz = {1., 2., 3., 4., 5., 6., 7., 8., 9.}, z2 = {2., 3., 4., 5., 6., 7., 8., 9., 10.};
        VectorDouble t; for (auto* c : {&zz, &z2, &top, &bot}) for (double v : *c) t.push_back(v);
        w.dbin = DbGrid::create({3, 3}, {1., 1.}, {0., 0.}, VectorDouble(), ELoadBy::COLUMN, t, {"z1", "z2", "top", "bot"}, {"z1", "z2", "", ""});
        w.dbout = DbGrid::create({3, 3, 2}, {1., 1., 1.}, {0., 0., 0.}); },
      [](World& w) { return dbg2gInterpolate(dynamic_cast<DbGrid*>(w.dbin), dynamic_cast<DbGrid*>(w.dbout), {"top"}, {"bot"}); });
  // ---- CalcMigrate
  add("migrateMulti", [](World& w) { w.dbin = data2d(2); w.dbout = grid2d(); }, [](World& w) { return migrateMulti(w.dbin, w.dbout, {"z1", "z2"}); });
  // ---- CalcImage
  auto img = [](World& w) { w.dbout = DbGrid::create({5, 5}, {1., 1.}, {0., 0.}, VectorDouble(), ELoadBy::COLUMN,
                                                    {1, 2, 3, 4, 5, 2, 3, 4, 5, 6, 3, 4, 5, 6, 7, 4, 5, 6, 7, 8, 5, 6, 7, 8, 9}, {"z1"}, {"z1"}); };
  add("dbMorpho", img, [](World& w) { return dbMorpho(dynamic_cast<DbGrid*>(w.dbout), EMorpho::THRESH, 2.5, 6.5); });
  add("dbSmoother", [img](World& w) { img(w); w.neigh = NeighImage::create({1, 1}); }, [](World& w) { return dbSmoother(dynamic_cast<DbGrid*>(w.dbout), w.neigh, 1, 1.); });
  // ---- grid simulations
  auto g8 = [](World& w) { w.dbout = DbGrid::create({8, 8}, {1., 1.}, {0., 0.}); w.model = model2d(); };
  add("tessellation_voronoi", g8, [](World& w) { SimuPartitionParam p(20, 0.2); return tessellation_voronoi(dynamic_cast<DbGrid*>(w.dbout), w.model, p, 4321); });
  add("tessellation_poisson", g8, [](World& w) { SimuPartitionParam p(20, 0.2); return tessellation_poisson(dynamic_cast<DbGrid*>(w.dbout), w.model, p, 4321); });
  add("substitution", [](World& w) { w.dbout = DbGrid::create({8, 8}, {1., 1.}, {0., 0.}); },
      [](World& w) { SimuSubstitutionParam p(2, 1.); return substitution(dynamic_cast<DbGrid*>(w.dbout), p, 4321); });
  add("simulation_refine", [](World& w) { w.dbout = grid2d(true); w.model = model2d(); },
      [](World& w) { SimuRefineParam p(1, true); w.produced = simulation_refine(dynamic_cast<DbGrid*>(w.dbout), w.model, p, 4321); return w.produced != nullptr ? 0 : 1; });
  add("fluid_propagation", [](World& w) {
        VectorDouble t;
        for (int k = 0; k < 25; k++) t.push_back(1.);                       // facies
        for (int k = 0; k < 25; k++) t.push_back(k == 12 ? 1. : 0.);        // fluid seed in the centre
        for (int k = 0; k < 25; k++) t.push_back(1.);                       // perm
        for (int k = 0; k < 25; k++) t.push_back(1.);                       // poro
        w.dbout = DbGrid::create({5, 5}, {1., 1.}, {0., 0.}, VectorDouble(), ELoadBy::COLUMN, t, {"facies", "fluid", "perm", "poro"}, {"", "", "", ""}); },
      [](World& w) { return fluid_propagation(dynamic_cast<DbGrid*>(w.dbout), "facies", "fluid", "perm", "poro", 1, 1, 1, VectorInt(), false, TEST, TEST, 4321); });
}


// ------------------------------------------------------------------------------------------------------------
// documented output variables (NamingConvention prefix + input variable name + qualifier [+ rank]) of every scenario.
// "name|Z0": the variable must hold that role; "name": it must hold no role; "name|?": role not judged (it is an
// incidental by-product of successive renamings in the library)
static const std::map<std::string, std::vector<std::string>>& expected_names()
{
  static std::map<std::string, std::vector<std::string>> E = {
    {"kriging", {"Kriging.z1.estim|Z0", "Kriging.z1.stdev"}},
    {"kriging-moving-points", {"Kriging.z1.estim|Z0", "Kriging.z1.stdev", "Kriging.z1.varz"}},
    {"kriging-extdrift", {"Kriging.z1.estim|Z0", "Kriging.z1.stdev"}},
    {"krigtest", {}},
    {"xvalid", {"Xvalid.z1.esterr|Z0", "Xvalid.z1.stderr"}},
    {"test_neigh", {"Neigh.z1.Number|?", "Neigh.z1.MaxDist|?", "Neigh.z1.MinDist|?", "Neigh.z1.NbNESect|?", "Neigh.z1.NbCESect|?"}},
    {"krigcell", {"KrigCell.z1.estim|Z0", "KrigCell.z1.stdev"}},
    {"simtub-nc", {"Simu.1|Z0", "Simu.2|Z1"}},
    {"simtub-cond", {"Simu.z1.1|Z0", "Simu.z1.2|Z1"}},
    {"migrate", {"Migrate|Z0"}},  // default naming convention of migrate() has flag_varname = false
    {"migrateByLocator", {"Migrate.z1|Z0", "Migrate.z2|Z1"}},
    {"migrateMulti", {"Migrate.z1|Z0", "Migrate.z2|Z1"}},
    {"dbStatisticsOnGrid", {"Stats.z1|Z0"}},
    {"dbStatisticsOnGrid-num-radius", {"Stats.z1|Z0"}},
    {"inverseDistance", {"InvDist.z1.estim|Z0"}},
    {"nearestNeighbor", {"Nearest.z1.estim|Z0"}},
    {"movingAverage", {"MovAve.z1.estim|Z0"}},
    {"movingMedian", {"MovMed.z1.estim|Z0"}},
    {"leastSquares", {"LstSqr.z1.estim|Z0"}},
    {"dbg2gCopy", {"Copy.z1|Z0"}},
    {"dbg2gExpand", {"Expand.z1|Z0"}},
    {"dbg2gShrink", {"Shrink.z1|Z0"}},
    {"dbg2gInterpolate", {"Interpolation|Z0"}},  // default naming convention has flag_varname = false
    {"simfft", {"FFT.1|Z0", "FFT.2|Z1"}},
    {"krimage", {"Filtering.z1|Z0"}},
    {"dbMorpho", {"Morpho.z1.THRESH|Z0"}},
    {"dbSmoother", {"Smooth.z1|Z0"}},
    {"rawToGaussianByLocator", {"Y.z1|Z0"}},
    {"rawToGaussian", {"Y.z1|Z0"}},
    {"normalScore", {"Gaussian.z1|Z0"}},
    {"gaussianToRawByLocator", {"Z.gauss|Z0"}},
    {"rawToFactor", {"Factor.z1.1|Z0", "Factor.z1.2|Z1"}},
    {"ConditionalExpectation", {"CE.G.estim.T-estim-0|?", "CE.G.estim.T-estim-1.5|?", "CE.G.estim.T-stdev-0|?", "CE.G.estim.T-stdev-1.5|?", "CE.G.estim.Q-estim-0|?", "CE.G.estim.Q-estim-1.5|?", "CE.G.estim.Q-stdev-0|?", "CE.G.estim.Q-stdev-1.5|?"}},
    {"UniformConditioning", {"UC.Z.estim.T-estim-0|?", "UC.Z.estim.T-estim-1.5|?", "UC.Z.estim.T-stdev-0|?", "UC.Z.estim.T-stdev-1.5|?", "UC.Z.estim.Q-estim-0|?", "UC.Z.estim.Q-estim-1.5|?", "UC.Z.estim.Q-stdev-0|?", "UC.Z.estim.Q-stdev-1.5|?"}},
    {"DisjunctiveKriging", {"DK.T-estim-0|?", "DK.T-estim-1.5|?", "DK.T-stdev-0|?", "DK.T-stdev-1.5|?", "DK.Q-estim-0|?", "DK.Q-estim-1.5|?", "DK.Q-stdev-0|?", "DK.Q-stdev-1.5|?"}},
    {"krigingFactors", {"KD.Factor.z1.1.estim|Z0", "KD.Factor.z1.2.estim|Z1", "KD.Factor.z1.1.stdev", "KD.Factor.z1.2.stdev"}},
    {"kribayes", {"Bayes.z1.estim|Z0", "Bayes.z1.stdev"}},
    {"krigprof", {"KrigProf.z1.estim|Z0", "KrigProf.z1.stdev"}},
    {"kriggam", {"KrigGam.z1.estim|Z0", "KrigGam.z1.stdev"}},
    {"simbayes", {"SimBayes.z1.1|Z0", "SimBayes.z1.2|Z1"}},
    {"global_kriging", {}},
    {"global_arithmetic", {}},
    {"dbRegression", {"Regr.z1|Z0"}},
    {"dbRegression-db2-smaller", {"Regr.z1|Z0"}},
    {"dbRegression-db2-larger", {"Regr.z1|Z0"}},
    {"migrateByAttribute", {"Migrate.z1|Z0"}},
    {"migrateByLocator1", {"Migrate.z1|Z0"}},
    {"kriging-larger-input", {"Kriging.z1.estim|Z0", "Kriging.z1.stdev"}},
    {"simuPost", {"Post.Var1.Mean", "Post.Var2.Mean"}},
    {"tessellation_voronoi", {"Voronoi|Z0"}},
    {"tessellation_poisson", {"Poisson|Z0"}},
    {"substitution", {"SimSub|Z0"}},
    {"simulation_refine", {}},  // the result is a new data base; the input grid must stay as it is
    {"fluid_propagation", {"Eden.Fluid|?", "Eden.Date|?"}},
  };
  return E;
}
const std::vector<std::string>* Scenario::expected() const
{
  if (ownNames) return &names;
  auto it = expected_names().find(calc);
  return it == expected_names().end() ? nullptr : &it->second;
}
static std::string exp_name(const std::string& e) { size_t p = e.find('|'); return p == std::string::npos ? e : e.substr(0, p); }
static std::string exp_role(const std::string& e) { size_t p = e.find('|'); return p == std::string::npos ? std::string("") : e.substr(p + 1); }
// calculators which accept the same data base as input and output
static bool same_ok(const std::string& c)
{
  for (const char* k : {"kriging-moving-points", "test_neigh", "nearestNeighbor", "dbg2gCopy"}) if (c == k) return true;
  return false;
}
// name produced when 'e' is already used: e followed by one or more ".<number>" (the de-duplication suffix is an implementation choice)
static bool is_dedup_of(const std::string& got, const std::string& e)
{
  if (got.size() <= e.size() || got.compare(0, e.size(), e) != 0) return false;
  size_t i = e.size();
  while (i < got.size())
  {
    if (got[i] != '.') return false;
    i++;
    size_t j = i;
    while (j < got.size() && isdigit((unsigned char)got[j])) j++;
    if (j == i) return false;
    i = j;
  }
  return true;
}


// ------------------------------------------------------------------------------------------------------------
// flag variants: the full cross of the output-selection flags / option switches of the calculators which have some,
// x nvar in {1,2,3} x neighbourhood kind; the documented outputs are DERIVED from the flags
static std::vector<Scenario> SCF;
static void build_flag_variants()
{
  auto addv = [](const std::string& base, const std::string& variant, std::function<void(World&)> b, std::function<int(World&)> f, const std::vector<std::string>& names) {
    Scenario s{base + "[" + variant + "]", b, f, (int)names.size(), ""};
    s.base = base; s.ownNames = true; s.names = names;
    SCF.push_back(s);
  };
  auto vname = [](int i) { return "z" + std::to_string(i + 1); };
  auto mkneigh = [](int kind) -> ANeigh* { return kind == 0 ? (ANeigh*)NeighUnique::create() : (ANeigh*)NeighMoving::create(false, 4, 10.); };
  const char* NK[] = {"unique", "moving"};

  // ---- xvalid: flag_xvalid_est x flag_xvalid_std in {-1,0,1}^2
  for (int nvar = 1; nvar <= 3; nvar++)
    for (int nk = 0; nk < 2; nk++)
      for (int fe = -1; fe <= 1; fe++)
        for (int fs = -1; fs <= 1; fs++)
        {
          if (fe == 0 && fs == 0) continue;  // nothing requested
          std::vector<std::string> names;
          for (int v = 0; v < nvar && fe != 0; v++) names.push_back("Xvalid." + vname(v) + (fe > 0 ? ".esterr" : ".estim") + "|Z" + std::to_string(v));
          for (int v = 0; v < nvar && fs != 0; v++) names.push_back("Xvalid." + vname(v) + (fs > 0 ? ".stderr" : ".stdev"));
          addv("xvalid", "nvar=" + std::to_string(nvar) + "," + NK[nk] + ",est=" + std::to_string(fe) + ",std=" + std::to_string(fs),
               [nvar, nk, mkneigh](World& w) { w.dbin = data2d(nvar); w.dbout = w.dbin; w.model = model_nvar(nvar); w.neigh = mkneigh(nk); },
               [fe, fs](World& w) { return xvalid(w.dbin, w.model, w.neigh, false, fe, fs); }, names);
        }
  // ---- kriging: flag_est x flag_std x flag_varz (at least one)
  for (int nvar = 1; nvar <= 3; nvar++)
    for (int nk = 0; nk < 2; nk++)
      for (int fl = 1; fl < 8; fl++)
      {
        bool fe = fl & 1, fs = fl & 2, fv = fl & 4;
        std::vector<std::string> names;
        // the outputs renamed last take the Z roles: estim, else stdev, else varz
        for (int v = 0; v < nvar && fe; v++) names.push_back("Kriging." + vname(v) + ".estim|Z" + std::to_string(v));
        for (int v = 0; v < nvar && fs; v++) names.push_back("Kriging." + vname(v) + ".stdev" + (fe ? "" : "|Z" + std::to_string(v)));
        for (int v = 0; v < nvar && fv; v++) names.push_back("Kriging." + vname(v) + ".varz" + (fe || fs ? "" : "|Z" + std::to_string(v)));
        addv("kriging", "nvar=" + std::to_string(nvar) + "," + NK[nk] + ",est=" + std::to_string(fe) + ",std=" + std::to_string(fs) + ",varz=" + std::to_string(fv),
             [nvar, nk, mkneigh](World& w) { w.dbin = data2d(nvar); w.dbout = targets2d(); w.model = model_nvar(nvar); w.neigh = mkneigh(nk); },
             [fe, fs, fv](World& w) { return kriging(w.dbin, w.dbout, w.model, w.neigh, EKrigOpt::POINT, fe, fs, fv); }, names);
      }
  // ---- krigcell / kribayes: flag_est x flag_std
  for (int nvar = 1; nvar <= 2; nvar++)
    for (int fl = 1; fl < 4; fl++)
    {
      bool fe = fl & 1, fs = fl & 2;
      for (int which = 0; which < 2; which++)
      {
        std::string pre = which == 0 ? "KrigCell." : "Bayes.";
        std::vector<std::string> names;
        for (int v = 0; v < nvar && fe; v++) names.push_back(pre + vname(v) + ".estim|Z" + std::to_string(v));
        for (int v = 0; v < nvar && fs; v++) names.push_back(pre + vname(v) + ".stdev" + (fe ? "" : "|Z" + std::to_string(v)));
        std::string var = "nvar=" + std::to_string(nvar) + ",est=" + std::to_string(fe) + ",std=" + std::to_string(fs);
        if (which == 0)
          addv("krigcell", var, [nvar](World& w) { w.dbin = data2d(nvar); w.dbout = grid2d(); w.model = model_nvar(nvar); w.neigh = NeighUnique::create(); },
               [fe, fs](World& w) { return krigcell(w.dbin, w.dbout, w.model, w.neigh, fe, fs, {2, 2}); }, names);
        else if (nvar == 1)
          addv("kribayes", var, [](World& w) { w.dbin = data2d(); w.dbout = grid2d(); w.model = model_drift(); w.neigh = NeighUnique::create(); },
               [fe, fs](World& w) { MatrixSquareSymmetric c(1); c.setValue(0, 0, 1.); return kribayes(w.dbin, w.dbout, w.model, w.neigh, {1.}, c, fe, fs); }, names);
      }
    }
  // ---- krigtest: target rank
  for (int nvar = 1; nvar <= 2; nvar++)
    for (int iech0 : {0, 1, 8})
      addv("krigtest", "nvar=" + std::to_string(nvar) + ",iech0=" + std::to_string(iech0),
           [nvar](World& w) { w.dbin = data2d(nvar); w.dbout = grid2d(); w.model = model_nvar(nvar); w.neigh = NeighUnique::create(); },
           [iech0](World& w) { Krigtest_Res r = krigtest(w.dbin, w.dbout, w.model, w.neigh, iech0, EKrigOpt::POINT, VectorInt(), false, false); return NOSTATUS; }, {});
  // ---- simtub: nbsimu x nvar, conditional or not
  for (int nvar = 1; nvar <= 2; nvar++)
    for (int nbsimu = 1; nbsimu <= 3; nbsimu++)
      for (int cond = 0; cond < 2; cond++)
      {
        std::vector<std::string> names;
        int k = 0;
        // documented order: simulations of variable 1, then of variable 2 ; without data base the variable has no name
        for (int v = 0; v < nvar; v++)
          for (int is = 0; is < nbsimu; is++, k++)
          {
            std::string n = "Simu.";
            if (cond) n += vname(v) + ".";
            else if (nvar > 1) n += std::to_string(v + 1) + ".";
            // NamingConvention: the rank is appended only when there are several items
            if (nbsimu > 1) n += std::to_string(is + 1); else n.pop_back();
            names.push_back(n + "|Z" + std::to_string(k));
          }
        addv(cond ? "simtub-cond" : "simtub-nc", "nvar=" + std::to_string(nvar) + ",nbsimu=" + std::to_string(nbsimu),
             [nvar, cond](World& w) { if (cond) { w.dbin = data2d(nvar); w.neigh = NeighUnique::create(); } w.dbout = grid2d(); w.model = model_nvar(nvar); },
             [nbsimu](World& w) { return simtub(w.dbin, w.dbout, w.model, w.neigh, nbsimu, 4321, 20); }, names);
      }
  // ---- dbStatisticsOnGrid: operators x nvar x radius
  {
    std::vector<std::pair<std::string, EStatOption>> opers = {{"NUM", EStatOption::NUM}, {"MEAN", EStatOption::MEAN}, {"VAR", EStatOption::VAR}, {"STDV", EStatOption::STDV},
                                                               {"MINI", EStatOption::MINI}, {"MAXI", EStatOption::MAXI}, {"SUM", EStatOption::SUM}, {"MEDIAN", EStatOption::MEDIAN}};
    for (int nvar = 1; nvar <= 2; nvar++)
      for (auto& op : opers)
        for (int radius : {0, 1})
        {
          std::vector<std::string> names;
          for (int v = 0; v < nvar; v++) names.push_back("Stats." + vname(v) + "|Z" + std::to_string(v));
          EStatOption oper = op.second;
          addv("dbStatisticsOnGrid", "nvar=" + std::to_string(nvar) + "," + op.first + ",radius=" + std::to_string(radius),
               [nvar](World& w) { w.dbin = data2d(nvar); w.dbout = grid2d(); },
               [oper, radius](World& w) { return dbStatisticsOnGrid(w.dbin, dynamic_cast<DbGrid*>(w.dbout), oper, radius); }, names);
        }
  }
  // ---- migrate: dist_type x flag_fill x flag_inter x flag_ball, both directions
  for (int dir = 0; dir < 2; dir++)
    for (int dt : {1, 2})
      for (int fl = 0; fl < 8; fl++)
      {
        bool ff = fl & 1, fi = fl & 2, fb = fl & 4;
        addv("migrate", std::string(dir ? "points->grid" : "grid->points") + ",dist_type=" + std::to_string(dt) + ",fill=" + std::to_string(ff) + ",inter=" + std::to_string(fi) + ",ball=" + std::to_string(fb),
             [dir](World& w) { if (dir) { w.dbin = data2d(); w.dbout = grid2d(); } else { w.dbin = grid2d(true); w.dbout = targets2d(); } },
             [dt, ff, fi, fb](World& w) { return migrate(w.dbin, w.dbout, "z1", dt, VectorDouble(), ff, fi, fb); }, {"Migrate|Z0"});
      }
  // ---- DisjunctiveKriging: selectivity flags
  for (int fl = 1; fl < 4; fl++)
  {
    bool fe = fl & 1, fs = fl & 2;
    std::vector<std::string> names;
    for (const char* q : {"T", "Q"})
    {
      for (const char* c : {"0", "1.5"}) if (fe) names.push_back(std::string("DK.") + q + "-estim-" + c + "|?");
      for (const char* c : {"0", "1.5"}) if (fs) names.push_back(std::string("DK.") + q + "-stdev-" + c + "|?");
    }
    std::vector<double> g9 = {-1., -0.5, 0., 0.5, 1., 0.25, -0.25, 0.75, -0.75}, s9 = {0.5, 0.6, 0.7, 0.4, 0.5, 0.6, 0.7, 0.4, 0.5};
    addv("DisjunctiveKriging", "sel_est=" + std::to_string(fe) + ",sel_std=" + std::to_string(fs),
         [g9, s9, fe, fs](World& w) { w.dbout = grid_with({"F.1.estim", "F.2.estim", "F.1.stdev", "F.2.stdev"}, {g9, g9, s9, s9}, {"z1", "z2", "", ""}); w.anam = fitted_anam();
                                      w.sel = Selectivity::createByCodes({ESelectivity::Q, ESelectivity::T}, {0., 1.5}, fe, fs); },
         [](World& w) { return DisjunctiveKriging(w.dbout, w.anam, w.sel, {"F.1.estim", "F.2.estim"}, {"F.1.stdev", "F.2.stdev"}); }, names);
  }
}

// ------------------------------------------------------------------------------------------------------------
// prior contents of the data bases
static const char* PRIOR_NAME[] = {"plain", "every-output-name-already-used", "selections", "roles-used-temporarily-already-present", "extra-columns-in-the-middle", "dbin-is-dbout",
                                   "pure-inputs-have-5-more-columns", "output-db-has-5-more-columns"};
static const int NPRIOR = 8;
static bool apply_prior(int p, World& w, const Scenario& s)
{
  if (p == 5)
  {
    if (!w.dbin || !w.dbout || w.dbin == w.dbout || !same_ok(s.calc)) return false;
    delete w.dbout; w.dbout = w.dbin;
    return true;
  }
  if (p == 6 || p == 7)
  {
    // the UIDs of the variables created in one data base now also exist in the other one(s)
    std::vector<Db*> t;
    if (p == 7) { if (w.dbout) t.push_back(w.dbout); }
    else { if (w.dbin && w.dbin != w.dbout) t.push_back(w.dbin); for (Db* a : w.aux) t.push_back(a); }
    if (t.empty()) return false;
    for (Db* d : t) d->addColumnsByConstant(5, 3.5, "more", ELoc::UNKNOWN);
    return true;
  }
  if (p == 0 || w.dbout == nullptr) return true;
  int no = w.dbout->getSampleNumber();
  if (p == 1)
  {
    const std::vector<std::string>* en = s.expected();
    if (en == nullptr || en->empty()) return false;
    for (auto& n : *en) w.dbout->addColumnsByConstant(1, 42., exp_name(n), ELoc::UNKNOWN);
  }
  else if (p == 2)
  {
    VectorDouble so(no, 1.); so[no - 1] = 0.;
    w.dbout->addSelection(so, "selout");
    if (w.dbin != nullptr && w.dbin != w.dbout) { VectorDouble si(w.dbin->getSampleNumber(), 1.); si[0] = 0.; w.dbin->addSelection(si, "selin"); }
  }
  else if (p == 3)
  {
    w.dbout->addColumnsByConstant(1, 5., "oldsimu", ELoc::SIMU);
    w.dbout->addColumnsByConstant(1, 6., "olddrift", ELoc::F);
    if (w.dbout != w.dbin && w.dbout->getLocatorNumber(ELoc::Z) == 0) w.dbout->addColumnsByConstant(1, 7., "oldz", ELoc::Z);
  }
  else if (p == 4)
  {
    // a deleted column in the middle: UIDs and column indices differ from now on
    w.dbout->addColumnsByConstant(2, 8., "extra", ELoc::UNKNOWN);
    w.dbout->deleteColumn("extra-1");
    if (w.dbin != nullptr && w.dbin != w.dbout) { w.dbin->addColumnsByConstant(2, 9., "extra", ELoc::UNKNOWN); w.dbin->deleteColumn("extra-1"); }
  }
  return true;
}

// sabotages (natural failures); return false when not applicable to the scenario
static const char* SAB_NAME[] = {"model-of-another-space-dimension", "no-variable-in-dbin", "two-variables-but-monovariate-model", "model-without-covariance",
                                 "moving-neighbourhood-nmini-too-large", "no-coordinates-in-dbout", "image-neighbourhood", "target-without-samples", "dbin-without-samples", "all-values-undefined"};
// sabotages after which the library itself states that the calculation cannot be done: a success status is a violation
// (CalcKriging::_check and _krigsim print "This tool cannot function with an IMAGE neighborhood")
static bool must_fail(int q, const std::string& calc)
{
  if (q != 6) return false;
  for (const char* c : {"kriging", "kriging-moving-points", "kriging-extdrift", "krigcell", "xvalid", "test_neigh", "simtub-cond"}) if (calc == c) return true;
  return false;
}
static const int NSAB = 10;
static bool apply_sabotage(int q, World& w)
{
  switch (q)
  {
    case 0: if (!w.model) return false; delete w.model; w.model = model2d(3); return true;
    case 1: { Db* d = w.dbin ? w.dbin : w.dbout; if (!d || d->getLocatorNumber(ELoc::Z) == 0) return false; d->clearLocators(ELoc::Z); return true; }
    case 2: if (!w.dbin || !w.model) return false; w.dbin->addColumnsByConstant(1, 3., "z2", ELoc::Z, 1); return true;
    case 3: if (!w.model) return false; delete w.model; w.model = Model::create(); return true;
    case 4: if (!w.neigh || !w.dbin) return false; delete w.neigh; w.neigh = NeighMoving::create(false, 50, 10., 40); return true;
    case 5: if (!w.dbout || w.dbout->isGrid()) return false; w.dbout->clearLocators(ELoc::X); return true;
    case 6: if (!w.neigh || !w.dbin || w.neigh->getType() == ENeigh::IMAGE) return false; delete w.neigh; w.neigh = NeighImage::create({1, 1}); return true;
    case 7: if (!w.dbout || w.dbout->isGrid() || w.dbout == w.dbin) return false; w.dbout->deleteSamples({0, 1, 2}); return true;
    case 8: if (!w.dbin || w.dbin->isGrid() || w.dbout == w.dbin) return false; w.dbin->deleteSamples({0, 1, 2, 3, 4, 5}); return true;
    case 9: { Db* d = w.dbin ? w.dbin : w.dbout; if (!d || d->getLocatorNumber(ELoc::Z) == 0) return false; for (int e = 0; e < d->getSampleNumber(); e++) d->setLocVariable(ELoc::Z, e, 0, TEST); return true; }
  }
  return false;
}

// ------------------------------------------------------------------------------------------------------------
struct ColInfo { int uid; std::string name; std::vector<uint64_t> bits; };
static std::vector<ColInfo> columns(const Db* db)
{
  std::vector<ColInfo> v;
  if (!db) return v;
  for (int ic = 0; ic < db->getColumnNumber(); ic++)
  {
    ColInfo c; c.uid = db->getUIDByColIdx(ic); c.name = db->getNameByColIdx(ic);
    for (int e = 0; e < db->getSampleNumber(); e++) { double x = db->getValueByColIdx(e, ic); uint64_t b; memcpy(&b, &x, 8); c.bits.push_back(b); }
    v.push_back(c);
  }
  return v;
}
static std::string snap(const Db* db) { return db ? db_snapshot(db) : std::string("null"); }
// snapshot without the UIDs (a rolled-back call legitimately consumes UIDs: they are never reused)
static std::string snap_nouid(const Db* db)
{
  std::string s = snap(db), o;
  for (size_t i = 0; i < s.size();)
  {
    if (s.compare(i, 5, " uid=") == 0) { i += 5; while (i < s.size() && (isdigit((unsigned char)s[i]) || s[i] == '-')) i++; continue; }
    o += s[i++];
  }
  return o;
}
// short human description of the difference between two snapshots (first differing / extra lines)
static std::string snapdiff(const std::string& a, const std::string& b)
{
  std::vector<std::string> la, lb;
  std::stringstream sa(a), sb(b);
  std::string l;
  while (std::getline(sa, l)) la.push_back(l);
  while (std::getline(sb, l)) lb.push_back(l);
  auto head = [](const std::string& s) { size_t p = s.find(" :"); return p == std::string::npos ? s : s.substr(0, p); };
  std::string out;
  int n = 0;
  for (auto& x : lb) { bool f = false; for (auto& y : la) if (x == y) f = true; if (!f && n++ < 4) out += " after-only{" + head(x) + "}"; }
  n = 0;
  for (auto& x : la) { bool f = false; for (auto& y : lb) if (x == y) f = true; if (!f && n++ < 4) out += " before-only{" + head(x) + "}"; }
  return out;
}

struct Report { std::vector<std::pair<std::string, std::string>> viol; std::vector<std::string> outcomes; bool exercised = false; };

static void destroy(World& w) { delete w.produced; for (Db* a : w.aux) delete a; if (w.dbout != w.dbin) delete w.dbout; delete w.dbin; delete w.model; delete w.neigh; w = World(); }

// one complete case, run inside the child. fail = index of the hook call to fail (0 none), sab = sabotage (-1 none)
static void run_case(const Scenario& s, int prior, int fail, int sab, Report& R)
{
  gstlearn_verif_fault = verif_hook;
  World w;
  s.build(w);
  if (!apply_prior(prior, w, s)) { R.outcomes.push_back("prior-not-applicable"); return; }
  if (sab >= 0 && !apply_sabotage(sab, w)) { R.outcomes.push_back("sabotage-not-applicable"); return; }
  bool same = w.dbin == w.dbout;
  std::string bin = snap(w.dbin), bout = snap(w.dbout);
  std::vector<std::string> baux; for (Db* a : w.aux) baux.push_back(snap(a));
  std::vector<ColInfo> cout0 = columns(w.dbout);

  g_calls = 0; g_points.clear(); g_failAt = fail;
  int ret = s.call(w);
  g_failAt = 0;
  bool injected = fail > 0 && g_calls >= fail;
  if (fail > 0 && !injected) { R.outcomes.push_back("fault-point-unreached"); return; }
  std::string label = injected ? point_label(fail) : (sab >= 0 ? std::string("natural:") + SAB_NAME[sab] : std::string("none"));
  bool failed = ret != 0 && ret != NOSTATUS;
  if (ret == NOSTATUS) failed = injected;  // no status available: an injected fault always aborts ACalculator::run
  std::string ain = snap(w.dbin), aout = snap(w.dbout);
  std::string ctx = "calculator=" + s.calc + " prior=" + PRIOR_NAME[prior] + " fault=" + label + " return=" + std::to_string(ret);

  if (injected && ret == 0)
    R.viol.push_back({"success-despite-fault:" + s.key() + ":" + label, ctx + " : the call reports success although a stage failed"});

  if (failed)
  {
    R.exercised = true;
    bool clean = true;
    if (ain != bin) { clean = false; R.viol.push_back({"rollback:" + s.key() + ":" + label, ctx + " : dbin differs after the reported failure:" + snapdiff(bin, ain)}); }
    if (!same && aout != bout) { clean = false; R.viol.push_back({"rollback:" + s.key() + ":" + label, ctx + " : dbout differs after the reported failure:" + snapdiff(bout, aout)}); }
    for (size_t k = 0; k < w.aux.size(); k++)
      if (snap(w.aux[k]) != baux[k]) { clean = false; R.viol.push_back({"rollback:" + s.key() + ":" + label, ctx + " : the auxiliary input data base #" + std::to_string(k + 1) + " differs after the reported failure:" + snapdiff(baux[k], snap(w.aux[k]))}); }
    R.outcomes.push_back(clean ? "failed-clean" : "failed-dirty");
    if (clean && injected)
    {
      // objects must remain usable: same call, no fault, same objects == fresh world
      g_calls = 0; g_points.clear();
      int r2 = s.call(w);
      World f; s.build(f); apply_prior(prior, f, s);
      if (w.produced) { delete w.produced; w.produced = nullptr; }
      g_calls = 0; g_points.clear();
      int r3 = s.call(f);
      bool auxsame = true;
      for (size_t k = 0; k < w.aux.size() && k < f.aux.size(); k++) if (snap_nouid(w.aux[k]) != snap_nouid(f.aux[k])) auxsame = false;
      if (r2 != r3 || !auxsame || snap_nouid(w.dbout) != snap_nouid(f.dbout) || snap_nouid(w.dbin) != snap_nouid(f.dbin))
        R.viol.push_back({"reuse-after-failure:" + s.key() + ":" + label, ctx + " : repeating the call on the same objects returns " + std::to_string(r2) + " (fresh objects: " + std::to_string(r3) + ") or gives different data bases:" + snapdiff(snap_nouid(f.dbout), snap_nouid(w.dbout))});
      else R.outcomes.push_back("reuse-after-failure-identical");
      destroy(f);
    }
  }
  else
  {
    // success
    if (sab >= 0) R.exercised = true;
    if (!same && ain != bin) R.viol.push_back({"success-changes-dbin:" + s.key(), ctx + " : the input data base differs after a successful call:" + snapdiff(bin, ain)});
    for (size_t k = 0; k < w.aux.size(); k++)
      if (snap(w.aux[k]) != baux[k]) R.viol.push_back({"success-changes-input:" + s.key(), ctx + " : the auxiliary (pure input) data base #" + std::to_string(k + 1) + " differs after a successful call:" + snapdiff(baux[k], snap(w.aux[k]))});
    std::vector<ColInfo> c1 = columns(w.dbout);
    int kept = 0;
    for (auto& o : cout0)
    {
      bool found = false;
      for (auto& n : c1)
        if (n.uid == o.uid)
        {
          found = true; kept++;
          if (n.name != o.name) R.viol.push_back({"success-renames-old-column:" + s.key(), ctx + " : pre-existing column '" + o.name + "' of dbout is now called '" + n.name + "'"});
          if (n.bits != o.bits) R.viol.push_back({"success-changes-old-values:" + s.key(), ctx + " : cells of the pre-existing column '" + o.name + "' of dbout changed"});
        }
      if (!found) R.viol.push_back({"success-deletes-old-column:" + s.key(), ctx + " : pre-existing column '" + o.name + "' of dbout disappeared"});
    }
    int added = (int)c1.size() - kept;
    const std::vector<std::string>* en = s.expected();
    if (sab < 0 && en != nullptr)
    {
      // exactly the documented output variables, with the documented names, and nothing else
      std::vector<std::string> got, gotrole;
      for (size_t ic = 0; ic < c1.size(); ic++)
      {
        bool old = false;
        for (auto& o : cout0) if (o.uid == c1[ic].uid) old = true;
        if (old) continue;
        got.push_back(c1[ic].name);
        ELoc lt; int li;
        gotrole.push_back(w.dbout->getLocatorByColIdx((int)ic, &lt, &li) ? std::string(lt.getKey()) + std::to_string(li) : std::string(""));
      }
      std::vector<std::string> want = *en;
      std::vector<char> used(got.size(), 0);
      bool ok = got.size() == want.size();
      std::string rolebad;
      for (auto& spec : want)
      {
        std::string e = exp_name(spec), er = exp_role(spec);
        bool f = false;
        for (size_t k = 0; k < got.size() && !f; k++)
          if (!used[k] && (got[k] == e || (prior == 1 && is_dedup_of(got[k], e))))
          {
            used[k] = 1; f = true;
            if (er != "?" && gotrole[k] != er && prior != 5) rolebad += " '" + got[k] + "' holds role '" + gotrole[k] + "' (documented: '" + er + "')";
          }
        if (!f) ok = false;
      }
      if (ok && !rolebad.empty())
        R.viol.push_back({"success-output-roles:" + s.key(), ctx + " : roles of the output variables:" + rolebad});
      if (!ok)
      {
        std::string g, x;
        for (auto& n : got) g += " '" + n + "'";
        for (auto& n : want) x += " '" + exp_name(n) + "'";
        std::string key = ret == NOSTATUS ? "rollback:" + s.key() + ":temporaries-after-success" : "success-output-names:" + s.key();
        R.viol.push_back({key, ctx + " : variables added to dbout:" + (g.empty() ? " (none)" : g) + " ; documented:" + (x.empty() ? " (none)" : x)});
      }
    }
    else if (sab < 0 && ret != NOSTATUS && added != s.expectedNew && s.expectedNew >= 0)
      R.viol.push_back({"success-output-count:" + s.key(), ctx + " : " + std::to_string(added) + " variables were added to dbout, the documented number is " + std::to_string(s.expectedNew)});
    if (sab >= 0 && ret == 0 && must_fail(sab, s.calc))
      R.viol.push_back({"reports-success:" + s.key() + ":" + label, ctx + " : the library states that it cannot perform this calculation, yet the call returns the success status"});
    R.outcomes.push_back(sab >= 0 ? "sabotaged-but-succeeded" : "succeeded");
  }
  if (fail == 0 && sab < 0) R.outcomes.push_back("fault-points-reached=" + std::to_string(g_calls));
  destroy(w);
}

static void run_forked(Ctx& C, uint64_t id, const Scenario& s, int prior, int fail, int sab)
{
  ChildResult cr = run_child([&](int wfd) {
    Report R;
    run_case(s, prior, fail, sab, R);
    std::string o;
    for (auto& v : R.viol) o += "V\t" + v.first + "\t" + v.second + "\n";
    for (auto& x : R.outcomes) o += "O\t" + x + "\n";
    if (R.exercised) o += "X\n";
    o += "END\n";
    child_write(wfd, o);
    return 0;
  }, 15., 0);
  C.eval();
  std::string kase = std::to_string(id);
  std::string ctx = "calculator=" + s.calc + " prior=" + PRIOR_NAME[prior] + (fail > 0 ? " fault=hook call #" + std::to_string(fail) : "") + (sab >= 0 ? std::string(" sabotage=") + SAB_NAME[sab] : "");
  bool complete = cr.data.size() >= 4 && cr.data.substr(cr.data.size() - 4) == "END\n";
  if (!cr.clean() || cr.code != 0 || !complete)
  {
    std::string where = fail > 0 ? "fault#" + std::to_string(fail) : sab >= 0 ? std::string("natural:") + SAB_NAME[sab] : "none";
    if (fail == 0 && sab < 0 && !s.base.empty()) where = "baseline" + s.calc.substr(s.base.size());  // flag variant: the flag combination is the mechanism
    C.violation("crash:" + s.key() + ":" + where, ctx + " : the child process ended with " + cr.describe() + " instead of returning", kase);
    C.outcome("crash-or-timeout");
    C.nontrivial(id);
    return;
  }
  std::stringstream ss(cr.data);
  std::string line;
  while (std::getline(ss, line))
  {
    if (line == "X") C.nontrivial(id);
    else if (line.rfind("O\t", 0) == 0) C.outcome(line.substr(2));
    else if (line.rfind("V\t", 0) == 0)
    {
      size_t p = line.find('\t', 2);
      C.violation(line.substr(2, p - 2), line.substr(p + 1), kase);
    }
  }
  if (id % 97 == 3) C.sample("{\"id\":" + kase + ",\"case\":" + jstr(ctx) + ",\"child_output\":" + jstr(cr.data.substr(0, 300)) + "}");
}

static const int KMAX = 12;

VF_PART(inject)
{
  Space sp;
  sp.axis("scenario", (int)SC.size()).axis("prior", C.thorough() ? NPRIOR : 3).axis("fail", KMAX + 1);
  for_each_case(C, sp, [&](uint64_t id, const std::vector<int>& idx) { run_forked(C, id, SC[idx[0]], idx[1], idx[2], -1); });
}


// ------------------------------------------------------------------------------------------------------------
// PAIRS of faults on the same data bases: fail(calculator A at point p) ; fail(calculator B at point q) ;
// succeed(calculator C). After each failed step every data base must be bit-identical to its state before the step;
// after the final success: input identical, exactly the documented outputs (names and roles), old cells unchanged,
// and the result equal (UIDs aside) to C run alone on a fresh world.
struct Family { std::string name; std::function<void(World&)> build; std::vector<std::string> members; };
static std::vector<Family> FAM;
static const Scenario* find_scenario(const std::string& n) { for (auto& s : SC) if (s.calc == n) return &s; return nullptr; }
static void build_families()
{
  FAM.push_back({"interpolators(data 6 pts -> grid 3x3, moving neighbourhood)",
                 [](World& w) { w.dbin = data2d(); w.dbout = grid2d(); w.model = model2d(); w.neigh = NeighMoving::create(false, 4, 10.); },
                 {"kriging", "simtub-cond", "inverseDistance", "movingAverage", "dbStatisticsOnGrid", "krigcell", "migrateByLocator1", "leastSquares"}});
  FAM.push_back({"anamorphosis transforms on one data base (20 data)",
                 [](World& w) { w.dbout = anamdata(); w.anam = fitted_anam(); },
                 {"rawToGaussianByLocator", "rawToFactor", "normalScore", "rawToGaussian"}});
}
static const char* PAIR_POINTS[] = {"after-run", "after-preprocess", "after-postprocess"};
// index (1-based) of the first hook call labelled 'label' when 's' runs on a fresh world of the family; 0 if absent
static int find_point(const Family& f, const Scenario& s, const std::string& label)
{
  World w; f.build(w);
  g_calls = 0; g_points.clear(); g_failAt = 0;
  (void)s.call(w);
  int k = 0;
  for (int i = 1; i <= (int)g_points.size() && k == 0; i++) if (point_label(i) == label) k = i;
  destroy(w);
  return k;
}
static std::vector<std::string> world_snaps(const World& w)
{
  std::vector<std::string> v = {snap(w.dbin), snap(w.dbout)};
  for (Db* a : w.aux) v.push_back(snap(a));
  return v;
}
static void run_pair_case(const Family& f, const Scenario& A, const std::string& p, const Scenario& B, const std::string& q, const Scenario& Cc, Report& R)
{
  gstlearn_verif_fault = verif_hook;
  int ka = find_point(f, A, p), kb = find_point(f, B, q);
  if (ka == 0 || kb == 0) { R.outcomes.push_back("pair-point-unreached"); return; }
  World w; f.build(w);
  std::string seq = "family=" + f.name + " sequence=[fail " + A.calc + "@" + p + " ; fail " + B.calc + "@" + q + " ; run " + Cc.calc + "]";
  const Scenario* steps[2] = {&A, &B};
  int ks[2] = {ka, kb};
  std::string pts[2] = {p, q};
  for (int st = 0; st < 2; st++)
  {
    std::vector<std::string> before = world_snaps(w);
    g_calls = 0; g_points.clear(); g_failAt = ks[st];
    int ret = steps[st]->call(w);
    g_failAt = 0;
    if (ret == 0)
    { R.viol.push_back({"success-despite-fault:" + steps[st]->key() + ":" + pts[st], seq + " : step " + std::to_string(st + 1) + " reports success although a stage failed"}); R.outcomes.push_back("pair-stopped"); destroy(w); return; }
    std::vector<std::string> after = world_snaps(w);
    if (after != before)
    {
      std::string d;
      for (size_t k = 0; k < before.size(); k++) if (before[k] != after[k]) d += " db#" + std::to_string(k) + ":" + snapdiff(before[k], after[k]);
      R.viol.push_back({"rollback:" + steps[st]->key() + ":" + pts[st], seq + " : step " + std::to_string(st + 1) + " (failure #" + std::to_string(st + 1) + " on the same data bases) leaves them changed:" + d});
      R.outcomes.push_back("pair-stopped-after-dirty-failure");
      destroy(w);
      return;
    }
  }
  R.exercised = true;
  // final step: success
  std::string bin = snap(w.dbin);
  std::vector<ColInfo> c0 = columns(w.dbout);
  g_calls = 0; g_points.clear();
  int ret = Cc.call(w);
  World fr; f.build(fr);
  g_calls = 0; g_points.clear();
  int rf = Cc.call(fr);
  if (ret != rf || (ret != 0 && ret != NOSTATUS))
    R.viol.push_back({"pair-final-status:" + Cc.key(), seq + " : the final call returns " + std::to_string(ret) + " (alone on fresh data bases: " + std::to_string(rf) + ")"});
  else
  {
    if (w.dbin && w.dbin != w.dbout && snap(w.dbin) != bin) R.viol.push_back({"success-changes-dbin:" + Cc.key(), seq + " : the input data base differs after the final successful call:" + snapdiff(bin, snap(w.dbin))});
    if (snap_nouid(w.dbout) != snap_nouid(fr.dbout) || snap_nouid(w.dbin) != snap_nouid(fr.dbin))
      R.viol.push_back({"pair-final-differs:" + Cc.key(), seq + " : after two rolled-back failures the final result differs from the same call alone on fresh data bases:" + snapdiff(snap_nouid(fr.dbout), snap_nouid(w.dbout))});
    // exactly the documented outputs
    const std::vector<std::string>* en = Cc.expected();
    std::vector<ColInfo> c1 = columns(w.dbout);
    std::vector<std::string> got;
    for (size_t ic = 0; ic < c1.size(); ic++)
    {
      bool old = false;
      for (auto& o : c0) if (o.uid == c1[ic].uid) { old = true; if (o.name != c1[ic].name || o.bits != c1[ic].bits) R.viol.push_back({"success-changes-old-values:" + Cc.key(), seq + " : the pre-existing column '" + o.name + "' changed"}); }
      if (old) continue;
      ELoc lt; int li;
      std::string role = w.dbout->getLocatorByColIdx((int)ic, &lt, &li) ? std::string(lt.getKey()) + std::to_string(li) : std::string("");
      got.push_back(c1[ic].name + "|" + role);
    }
    if (en != nullptr)
    {
      std::vector<char> used(got.size(), 0);
      bool ok = got.size() == en->size();
      for (auto& spec : *en)
      {
        bool fnd = false;
        for (size_t k = 0; k < got.size() && !fnd; k++)
          if (!used[k] && exp_name(got[k]) == exp_name(spec) && (exp_role(spec) == "?" || exp_role(got[k]) == exp_role(spec))) { used[k] = 1; fnd = true; }
        if (!fnd) ok = false;
      }
      if (!ok)
      {
        std::string g, x;
        for (auto& n : got) g += " '" + n + "'";
        for (auto& n : *en) x += " '" + n + "'";
        R.viol.push_back({"success-output-names:" + Cc.key(), seq + " : variables (name|role) added by the final call:" + g + " ; documented:" + x});
      }
    }
    R.outcomes.push_back("pair-completed");
  }
  destroy(fr); destroy(w);
}

VF_PART(pairs)
{
  for (size_t fi = 0; fi < FAM.size(); fi++)
  {
    const Family& f = FAM[fi];
    std::vector<const Scenario*> mem;
    for (auto& n : f.members) { const Scenario* s = find_scenario(n); if (s) mem.push_back(s); }
    int nm = C.thorough() ? (int)mem.size() : std::min(4, (int)mem.size());
    int np = C.thorough() ? 3 : 2;
    Space sp;
    sp.axis("A", nm).axis("p", np).axis("B", nm).axis("q", np).axis("C", nm);
    for_each_case(C, sp, [&](uint64_t id, const std::vector<int>& idx) {
      const Scenario &A = *mem[idx[0]], &B = *mem[idx[2]], &Cc = *mem[idx[4]];
      std::string p = PAIR_POINTS[idx[1]], q = PAIR_POINTS[idx[3]];
      ChildResult cr = run_child([&](int wfd) {
        Report R;
        run_pair_case(f, A, p, B, q, Cc, R);
        std::string o;
        for (auto& v : R.viol) o += "V\t" + v.first + "\t" + v.second + "\n";
        for (auto& x : R.outcomes) o += "O\t" + x + "\n";
        if (R.exercised) o += "X\n";
        o += "END\n";
        child_write(wfd, o);
        return 0;
      }, 30., 0);
      C.eval();
      std::string kase = std::to_string(fi) + "/" + std::to_string(id);
      uint64_t sig = Hash().u(fi).u(id).h;
      bool complete = cr.data.size() >= 4 && cr.data.substr(cr.data.size() - 4) == "END\n";
      if (!cr.clean() || cr.code != 0 || !complete)
      {
        C.violation("crash:pair:" + A.key() + "@" + p + ";" + B.key() + "@" + q + ";" + Cc.key(), "family=" + f.name + " : the child process ended with " + cr.describe(), std::to_string(id));
        C.outcome("crash-or-timeout"); C.nontrivial(sig);
        return;
      }
      std::stringstream ss(cr.data);
      std::string line;
      while (std::getline(ss, line))
      {
        if (line == "X") C.nontrivial(sig);
        else if (line.rfind("O\t", 0) == 0) C.outcome(line.substr(2));
        else if (line.rfind("V\t", 0) == 0) { size_t t = line.find('\t', 2); C.violation(line.substr(2, t - 2), line.substr(t + 1), std::to_string(id)); }
      }
    });
  }
}

// flag variants: the no-fault baseline for every variant x 3 priors; the fault plans only for every 5th variant
VF_PART(flags)
{
  static const int PR[] = {0, 4, 6};
  Space sp;
  sp.axis("variant", (int)SCF.size()).axis("prior", 3).axis("fail", KMAX + 1);
  for_each_case(C, sp, [&](uint64_t id, const std::vector<int>& idx) {
    if (idx[2] > 0 && idx[0] % 5 != 0) { C.skip(); return; }
    run_forked(C, id, SCF[idx[0]], PR[idx[1]], idx[2], -1);
  });
}

VF_PART(natural)
{
  Space sp;
  sp.axis("scenario", (int)SC.size()).axis("prior", C.thorough() ? NPRIOR : 2).axis("sabotage", NSAB);
  for_each_case(C, sp, [&](uint64_t id, const std::vector<int>& idx) { run_forked(C, id, SC[idx[0]], idx[1], 0, idx[2]); });
}

int main(int argc, char** argv)
{
  if (getenv("C19_PROBE"))
  {
    // development aid: baseline of every scenario, library messages visible, prints status and the names added to dbout
    build_scenarios(); build_scenarios2(); build_flag_variants();
    for (auto& v : SCF) SC.push_back(v);
    for (auto& s : SC)
    {
      if (argc > 1 && s.calc.find(argv[1]) == std::string::npos) continue;
      ChildResult cr = run_child([&](int wfd) {
        gstlearn_verif_fault = verif_hook;
        World w; s.build(w);
        std::set<int> old; if (w.dbout) for (int i = 0; i < w.dbout->getColumnNumber(); i++) old.insert(w.dbout->getUIDByColIdx(i));
        std::string bin = w.dbin && w.dbin != w.dbout ? db_snapshot(w.dbin) : "";
        g_calls = 0; g_points.clear();
        int r = s.call(w);
        std::string o = s.calc + " ret=" + std::to_string(r) + " hookcalls=" + std::to_string(g_calls) + " new={";
        if (w.dbout) for (int i = 0; i < w.dbout->getColumnNumber(); i++) if (!old.count(w.dbout->getUIDByColIdx(i))) { ELoc lt; int li; o += "\"" + w.dbout->getNameByColIdx(i) + "\""; if (w.dbout->getLocatorByColIdx(i, &lt, &li)) o += "[" + std::string(lt.getKey()) + std::to_string(li) + "]"; o += ","; }
        o += "} dbin " + std::string(bin == (w.dbin && w.dbin != w.dbout ? db_snapshot(w.dbin) : "") ? "same" : "CHANGED") + "\n";
        child_write(wfd, o);
        return 0;
      }, 30., 0, true);
      printf("%s%s", cr.data.c_str(), cr.clean() && cr.code == 0 ? "" : (s.calc + " CHILD " + cr.describe() + "\n").c_str());
    }
    return 0;
  }
  return run_main(argc, argv, [](Ctx&) { silence(); build_scenarios(); build_scenarios2(); build_flag_variants(); build_families(); });
}
