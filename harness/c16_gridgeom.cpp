// C16 — grid geometry conversions are mutually inverse; derived grids are located correctly.
//
// Engine E1.  Complete enumeration of regular grids (ndim x nx tuple x dx tuple x origin x rotation) and, per grid, of ALL
// nodes, ALL query points (node + strictly-inside cell offsets, including a ring of cells outside the grid) and ALL derived
// grids (coarse / refine / multiple / divider for every multiplicity tuple, every sub-grid, every dilation).
// Reference model (harness): node (i1..id) sits at  x0 + R . (i*dx)  with R the harness's own rotation matrix (angles in
// degrees, trigonometric sense; 3-D yaw Oz / pitch Oy' / roll Ox''), rank = i1 + n1*(i2 + n2*i3).  Query points are BUILT from
// fractional indices, so the expected cell is known by construction, never by calling the library.
// Cell-boundary points are excluded by the property: offsets are +-0.25 / +-0.49 of a mesh (strictly inside).
#include "vf/gst.hpp"

#include "Basic/Grid.hpp"
#include "Calculators/CalcMigrate.hpp"
#include "Db/DbGrid.hpp"
#include "geoslib_old_f.h"

#include <array>
#include <memory>

using namespace vf;
static const double PI = 3.14159265358979323846;

struct RefGrid
{
  int nd;
  std::array<int, 3> nx {1, 1, 1};
  std::array<double, 3> dx {1, 1, 1}, x0 {0, 0, 0};
  std::vector<double> angles;  // size nd (2-D: second is 0), empty in 1-D
  double R[3][3];
  bool rotated = false;
  int ntotal() const { return nx[0] * nx[1] * nx[2]; }
  void setRot()
  {
    for (int i = 0; i < 3; i++) for (int j = 0; j < 3; j++) R[i][j] = i == j;
    auto sc = [](double a, double& c, double& s) {
      double r = std::fmod(a, 360.); if (r < 0) r += 360.;
      if (r == 0.) { c = 1; s = 0; } else if (r == 90.) { c = 0; s = 1; } else if (r == 180.) { c = -1; s = 0; } else if (r == 270.) { c = 0; s = -1; }
      else { c = std::cos(a * PI / 180.); s = std::sin(a * PI / 180.); }
    };
    rotated = false;
    for (double a : angles) if (std::fmod(a, 360.) != 0.) rotated = true;
    if (nd == 2 && !angles.empty())
    {
      double c, s; sc(angles[0], c, s);
      R[0][0] = c; R[0][1] = -s; R[1][0] = s; R[1][1] = c;
      rotated = std::fmod(angles[0], 360.) != 0.;
    }
    if (nd == 3 && !angles.empty())
    {
      double ca, sa, cb, sb, cg, sg;
      sc(angles[0], ca, sa); sc(angles[1], cb, sb); sc(angles[2], cg, sg);
      // Rz(a) * Ry(b) * Rx(g), right-handed elementary rotations
      double Rz[3][3] = {{ca, -sa, 0}, {sa, ca, 0}, {0, 0, 1}}, Ry[3][3] = {{cb, 0, sb}, {0, 1, 0}, {-sb, 0, cb}}, Rx[3][3] = {{1, 0, 0}, {0, cg, -sg}, {0, sg, cg}};
      double T[3][3];
      for (int i = 0; i < 3; i++) for (int j = 0; j < 3; j++) { T[i][j] = 0; for (int k = 0; k < 3; k++) T[i][j] += Ry[i][k] * Rx[k][j]; }
      for (int i = 0; i < 3; i++) for (int j = 0; j < 3; j++) { R[i][j] = 0; for (int k = 0; k < 3; k++) R[i][j] += Rz[i][k] * T[k][j]; }
    }
  }
  // world coordinates of a (fractional) index
  std::vector<double> pos(const double* fi) const
  {
    double u[3] = {0, 0, 0};
    for (int i = 0; i < nd; i++) u[i] = fi[i] * dx[i];
    std::vector<double> p(nd);
    for (int i = 0; i < nd; i++) { double s = 0; for (int k = 0; k < nd; k++) s += R[i][k] * u[k]; p[i] = x0[i] + s; }
    return p;
  }
  std::vector<double> posI(const int* ii) const { double f[3] = {(double)ii[0], (double)ii[1], (double)ii[2]}; return pos(f); }
  int rank(const int* ii) const
  {
    for (int i = 0; i < nd; i++) if (ii[i] < 0 || ii[i] >= nx[i]) return -1;
    int r = 0;
    for (int i = nd - 1; i >= 0; i--) r = r * nx[i] + ii[i];
    return r;
  }
  void indices(int r, int* ii) const { for (int i = 0; i < 3; i++) { ii[i] = i < nd ? r % nx[i] : 0; if (i < nd) r /= nx[i]; } }
  double scale() const
  {
    double s = 1;
    for (int i = 0; i < nd; i++) s = std::max(s, std::fabs(x0[i]) + (nx[i] + 3) * dx[i]);
    return s;
  }
  std::string text() const
  {
    std::string s = "grid ndim=" + std::to_string(nd) + " nx=[";
    for (int i = 0; i < nd; i++) s += (i ? "," : "") + std::to_string(nx[i]);
    s += "] dx=["; for (int i = 0; i < nd; i++) s += (i ? "," : "") + fmt(dx[i]);
    s += "] x0=["; for (int i = 0; i < nd; i++) s += (i ? "," : "") + fmt(x0[i]);
    s += "] angles=" + vstr(angles);
    return s;
  }
};

// menus ------------------------------------------------------------------------------------------------------------------
// (the entries after the quick ones are used by the thorough tier only)
static bool TH = false;   // set by every part from C.thorough()
static const int NXM[5] = {1, 2, 3, 5, 8};
static const double DXM[8][3] = {{1, 1, 1}, {0.5, 0.5, 0.5}, {1, 2.5, 0.5}, {2.5, 1, 1}, {0.5, 1, 2.5}, {2.5, 0.5, 1}, {0.3, 0.7, 1.1}, {3, 0.1, 7}};
static const double X0M[2][3] = {{0, 0, 0}, {-3.75, 100.25, 7.}};
static const double ROT2[12] = {0., 30., 90., -45., 180., 270., 60., 120., 200., -10., 45., 359.};
static const double ROT3[8][3] = {{0, 0, 0}, {30, 0, 0}, {40, 20, 10}, {135, -60, 75}, {0, 90, 0}, {-70, 15, 200}, {90, 90, 90}, {10, 0, 350}};
// full (thorough) menu sizes = the radices of the case ids, identical in both tiers so that a case id denotes the same grid
// in quick, thorough and replay; quick enumerates only the first entries (inQuick below)
static int nRot(int nd) { return nd == 1 ? 1 : nd == 2 ? 12 : 8; }
static int nDx(int nd) { return nd == 1 ? 5 : 8; }
static int nNx(int nd) { return nd == 3 ? 4 : 5; }
static int nRotQ(int nd) { return nd == 1 ? 1 : nd == 2 ? 6 : 4; }
static int nDxQ(int nd) { return nd == 1 ? 3 : 6; }
static const double DX1[5] = {1, 0.5, 2.5, 0.3, 7};

// is the grid of these indices part of the tier being run?  nxq = size of the nx menu in the quick tier
static bool inTier(Ctx& C, int nd, const std::vector<int>& idx, int nxq)
{
  if (TH || !C.only_case.empty()) return true;
  if (idx[0] >= nDxQ(nd) || idx[2] >= nRotQ(nd)) return false;
  for (int i = 0; i < nd; i++) if (idx[3 + i] >= nxq) return false;
  return true;
}
static Space gridSpace(int nd, int nxmenu)
{
  // the cheap axes first: consecutive ids (= the 16 shards) then share the same nx, which balances the shards
  Space sp;
  sp.axis("dx", nDx(nd)).axis("x0", 2).axis("rot", nRot(nd));
  for (int i = 0; i < nd; i++) sp.axis("nx" + std::to_string(i), nxmenu);
  return sp;
}
static RefGrid decodeGrid(int nd, const std::vector<int>& idx)
{
  RefGrid g; g.nd = nd;
  for (int i = 0; i < nd; i++) g.nx[i] = NXM[idx[3 + i]];
  for (int i = 0; i < nd; i++) g.dx[i] = nd == 1 ? DX1[idx[0]] : DXM[idx[0]][i];
  for (int i = 0; i < nd; i++) g.x0[i] = X0M[idx[1]][i];
  if (nd == 2) g.angles = {ROT2[idx[2]], 0.};
  if (nd == 3) g.angles = {ROT3[idx[2]][0], ROT3[idx[2]][1], ROT3[idx[2]][2]};
  g.setRot();
  return g;
}
static DbGrid* makeLib(const RefGrid& g, bool addCoord = true)
{
  VectorInt nx; VectorDouble dx, x0, ang;
  for (int i = 0; i < g.nd; i++) { nx.push_back(g.nx[i]); dx.push_back(g.dx[i]); x0.push_back(g.x0[i]); }
  for (double a : g.angles) ang.push_back(a);
  return DbGrid::create(nx, dx, x0, ang, ELoadBy::SAMPLE, VectorDouble(), VectorString(), VectorString(), true, addCoord);
}
static bool nearv(const std::vector<double>& a, const VectorDouble& b, double tol)
{
  if (a.size() != b.size()) return false;
  for (size_t i = 0; i < a.size(); i++) if (!(std::fabs(a[i] - b[i]) <= tol)) return false;
  return true;
}
static std::string vi(const int* ii, int nd) { std::string s = "("; for (int i = 0; i < nd; i++) s += (i ? "," : "") + std::to_string(ii[i]); return s + ")"; }
static std::string rotTag(const RefGrid& g) { return g.rotated ? "rotated" : "unrotated"; }

// =================================================================================================================
// Part roundtrip: all nodes of all grids
static void roundtrip(Ctx& C, int nd, int nxq)
{
  Space sp = gridSpace(nd, nNx(nd));
  for_each_case(C, sp, [&](uint64_t id, const std::vector<int>& idx) {
    if (!inTier(C, nd, idx, nxq)) return;
    RefGrid g = decodeGrid(nd, idx);
    std::unique_ptr<DbGrid> db(makeLib(g));
    const std::string kase = std::to_string(id);
    if (!db || db->getSampleNumber() != g.ntotal()) { C.violation("create:size", "DbGrid::create gives " + std::to_string(db ? db->getSampleNumber() : -1) + " nodes; " + g.text(), kase); return; }
    const Grid& G = db->getGrid();
    double tol = 1e-11 * g.scale();
    int ncolx = -1;
    for (int i = 0; i < nd; i++) if (db->getColIdxByLocator(ELoc::X, i) < 0) ncolx = i;
    if (ncolx >= 0) C.violation("dbgrid:no-coordinate-column", "DbGrid::create(flagAddCoordinates) has no x" + std::to_string(ncolx + 1) + " column; " + g.text(), kase);
    bool bad = false;
    for (int r = 0; r < g.ntotal() && !bad; r++)
    {
      int ii[3]; g.indices(r, ii);
      std::vector<double> p = g.posI(ii);
      VectorInt li(nd);
      G.rankToIndice(r, li);
      C.eval(8);
      bool okI = true; for (int i = 0; i < nd; i++) if (li[i] != ii[i]) okI = false;
      if (!okI) { C.violation("rank-to-indices", "rankToIndice(" + std::to_string(r) + ") = " + vi(li.data(), nd) + " expected " + vi(ii, nd) + "; " + g.text(), kase); bad = true; }
      VectorInt in(ii, ii + nd);
      int rr = G.indiceToRank(in);
      if (rr != r) { C.violation("indices-to-rank", "indiceToRank" + vi(ii, nd) + " = " + std::to_string(rr) + " expected " + std::to_string(r) + "; " + g.text(), kase); bad = true; }
      // indices -> coordinates : all the public routes
      VectorDouble c1 = G.indicesToCoordinate(in);
      VectorDouble c2 = G.getCoordinatesByRank(r);
      VectorDouble c3 = G.rankToCoordinates(r);
      VectorDouble c4 = G.getCoordinatesByIndice(in);
      VectorDouble c5(nd), c6(nd), c7(nd), c8(nd);
      for (int i = 0; i < nd; i++) { c5[i] = G.getCoordinate(r, i); c6[i] = db->getCoordinate(r, i); c8[i] = G.indiceToCoordinate(i, in, VectorDouble()); }
      db->getCoordinatesPerSampleInPlace(r, c7);
      const VectorDouble* cs[8] = {&c1, &c2, &c3, &c4, &c5, &c6, &c7, &c8};
      static const char* nm[8] = {"indicesToCoordinate", "getCoordinatesByRank", "rankToCoordinates", "getCoordinatesByIndice", "Grid::getCoordinate", "DbGrid::getCoordinate", "getCoordinatesPerSampleInPlace", "indiceToCoordinate"};
      for (int k = 0; k < 8; k++)
        if (!nearv(p, *cs[k], tol))
        { C.violation(std::string("node-position:") + rotTag(g), std::string(nm[k]) + " of node " + vi(ii, nd) + " = " + vstr(*cs[k]) + " but x0 + R.(i*dx) = " + vstr(p) + "; " + g.text(), kase); bad = true; break; }
      // stored coordinate columns
      if (ncolx < 0)
        for (int i = 0; i < nd; i++)
        {
          double v = db->getValueByColIdx(r, db->getColIdxByLocator(ELoc::X, i));
          if (!(std::fabs(v - p[i]) <= tol)) { C.violation(std::string("dbgrid:stored-coordinate:") + rotTag(g), "stored x" + std::to_string(i + 1) + " of node " + vi(ii, nd) + " = " + fmt(v) + " but the geometry gives " + fmt(p[i]) + "; " + g.text(), kase); bad = true; break; }
          if (v != c6[i]) { C.violation("dbgrid:stored-vs-reported", "stored x" + std::to_string(i + 1) + "=" + fmt(v) + " differs from getCoordinate=" + fmt(c6[i]) + "; " + g.text(), kase); bad = true; break; }
        }
      // coordinates -> indices / rank, both cell conventions, default eps
      for (int centered = 0; centered < 2; centered++)
      {
        VectorInt back(nd, -7);
        int err = G.coordinateToIndicesInPlace(c1, back, centered);
        int rb = G.coordinateToRank(c1, centered);
        int rb2 = db->coordinateToRank(c1, centered);
        bool ok = err == 0 && rb == r && rb2 == r;
        for (int i = 0; i < nd; i++) if (back[i] != ii[i]) ok = false;
        if (!ok)
        { C.violation(std::string("coord-roundtrip:") + (centered ? "centered" : "corner") + ":" + rotTag(g), "node " + vi(ii, nd) + " -> " + vstr(c1) + " -> indices " + vi(back.data(), nd) + " (err " + std::to_string(err) + ", rank " + std::to_string(rb) + "); " + g.text(), kase); bad = true; }
      }
      // half-cell shifts and percent
      {
        VectorInt shift(nd); VectorDouble perc(nd); double f[3] = {0, 0, 0};
        for (int i = 0; i < nd; i++) { shift[i] = (i + r) % 3 - 1; perc[i] = 0.25 * ((i + 2 * r) % 4) - 0.5; }
        for (int i = 0; i < nd; i++) f[i] = ii[i] + 0.5 * shift[i];
        VectorDouble cs1 = G.getCoordinatesByIndice(in, true, shift);
        if (!nearv(g.pos(f), cs1, tol)) { C.violation(std::string("node-position:shift:") + rotTag(g), "getCoordinatesByIndice" + vi(ii, nd) + " shift " + vi(shift.data(), nd) + " = " + vstr(cs1) + " expected " + vstr(g.pos(f)) + "; " + g.text(), kase); bad = true; }
        for (int i = 0; i < nd; i++) f[i] = ii[i] + perc[i];
        VectorDouble cp = G.indicesToCoordinate(in, perc);
        VectorDouble cq = G.rankToCoordinates(r, perc);
        if (!nearv(g.pos(f), cp, tol) || !nearv(g.pos(f), cq, tol)) { C.violation(std::string("node-position:percent:") + rotTag(g), "indicesToCoordinate" + vi(ii, nd) + " percent " + vstr(perc) + " = " + vstr(cp) + " expected " + vstr(g.pos(f)) + "; " + g.text(), kase); bad = true; }
      }
    }
    // corners
    for (int c = 0; c < (1 << nd); c++)
    {
      VectorInt ic(nd); int ii[3] = {0, 0, 0};
      for (int i = 0; i < nd; i++) { ic[i] = c >> i & 1; ii[i] = ic[i] ? g.nx[i] - 1 : 0; }
      VectorDouble cc = G.getCoordinatesByCorner(ic);
      C.eval();
      if (!nearv(g.posI(ii), cc, tol)) C.violation(std::string("node-position:corner:") + rotTag(g), "getCoordinatesByCorner" + vi(ic.data(), nd) + " = " + vstr(cc) + " expected " + vstr(g.posI(ii)) + "; " + g.text(), kase);
    }
    C.outcome(std::string(g.rotated ? "rotated" : "unrotated") + (g.x0[0] != 0 ? "/shifted-origin" : "/origin-0"));
    if (g.rotated && g.ntotal() > 1) C.nontrivial(Hash().i(nd).u(id).h);
    if (id % 499 == 3) C.sample("{\"id\":" + kase + ",\"grid\":" + jstr(g.text()) + "}");
  });
}
VF_PART(roundtrip_1d) { TH = C.thorough(); roundtrip(C, 1, 4); }
VF_PART(roundtrip_2d) { TH = C.thorough(); roundtrip(C, 2, 4); }
VF_PART(roundtrip_3d) { TH = C.thorough(); roundtrip(C, 3, 4); }

// =================================================================================================================
// Part locate: every query point (node of the grid extended by one ring + strictly-inside offsets) is assigned to the cell
// that contains it, for both cell conventions the library documents:
//   centred : cell of node i = [i-1/2, i+1/2) dx   (punctual grid; sampleBelongsToCell, point_to_grid, centered=true)
//   corner  : cell i = [i, i+1) dx                 (node at the lower-left corner of its mesh; explicit option centered=false of
//                                                   coordinateToIndices/Rank and locateDataInGrid)
// Functions that take the convention as an argument are judged for both values of the argument.  migrate(grid -> points) has
// no such argument: it is judged against the geometric cell of the library (getCellEdges / sampleBelongsToCell: centred).
static const double OFFS[6] = {-0.49, -0.25, 0.25, 0.49, -0.05, 0.05};   // 4 quick, 6 thorough (all strictly inside a cell for both conventions)
static int nOff() { return TH ? 6 : 4; }
// all the point-location routes of one grid; OFFV/NO = menu of offsets (fractions of a mesh, relative to a node) per axis
static void judgeLocate(Ctx& C, const RefGrid& g, uint64_t id, const double* OFFV, const int NO)
{
    const int nd = g.nd;
    std::unique_ptr<DbGrid> db(makeLib(g));
    const std::string kase = std::to_string(id);
    const Grid& G = db->getGrid();
    // variable = rank, to observe migrate
    {
      VectorDouble v(g.ntotal());
      for (int r = 0; r < g.ntotal(); r++) v[r] = r;
      db->addColumns(v, "noderank", ELoc::Z);
    }
    int ext[3] = {1, 1, 1}, tot = 1, noff = 1;
    for (int i = 0; i < nd; i++) { ext[i] = g.nx[i] + 2; tot *= ext[i]; noff *= NO; }
    std::vector<std::vector<double>> X(nd);
    std::vector<int> expCorner, expCentre;
    uint64_t nin = 0, nout = 0;
    bool bad = false;
    for (int q = 0; q < tot; q++)
    {
      int ii[3] = {0, 0, 0}; int w = q;
      for (int i = 0; i < nd; i++) { ii[i] = w % ext[i] - 1; w /= ext[i]; }
      int rCentre = g.rank(ii);
      for (int o = 0; o < noff; o++)
      {
        double f[3] = {0, 0, 0}; int ic[3] = {0, 0, 0}; int wo = o;
        for (int i = 0; i < nd; i++) { double off = OFFV[wo % NO]; wo /= NO; f[i] = ii[i] + off; ic[i] = off < 0 ? ii[i] - 1 : ii[i]; }
        int rCorner = g.rank(ic);
        std::vector<double> p = g.pos(f);
        VectorDouble coor(p.begin(), p.end());
        for (int i = 0; i < nd; i++) X[i].push_back(p[i]);
        expCorner.push_back(rCorner); expCentre.push_back(rCentre);
        (rCentre >= 0 ? nin : nout)++;
        C.eval(6);
        if (bad) continue;
        // Grid / DbGrid conversions
        for (int centered = 0; centered < 2; centered++)
        {
          const int* e = centered ? ii : ic; int er = centered ? rCentre : rCorner;
          VectorInt got(nd, -7);
          int err = G.coordinateToIndicesInPlace(coor, got, centered);
          int rk = db->coordinateToRank(coor, centered);
          VectorInt got2 = G.coordinateToIndices(coor, centered);
          bool ok = (err == (er < 0 ? 1 : 0)) && rk == er;
          for (int i = 0; i < nd; i++) if (got[i] != e[i]) ok = false;
          // coordinateToIndices returns an empty vector for a point outside
          if (er >= 0) { if ((int)got2.size() != nd) ok = false; else for (int i = 0; i < nd; i++) if (got2[i] != e[i]) ok = false; }
          else if (!got2.empty()) ok = false;
          if (!ok)
          {
            C.violation(std::string("locate:") + (centered ? "centered" : "corner") + ":" + rotTag(g), "point " + vstr(coor) + " (fractional index " + vstr(std::vector<double>(f, f + nd)) + ") assigned to " + vi(got.data(), nd) +
                        " err=" + std::to_string(err) + " rank=" + std::to_string(rk) + ", expected cell " + vi(e, nd) + " rank " + std::to_string(er) + "; " + g.text(), kase);
            bad = true;
          }
        }
        // sampleBelongsToCell: own (centred) cell yes, the cells of the neighbours no
        if (rCentre >= 0)
        {
          if (!db->sampleBelongsToCell(coor, rCentre))
          { C.violation(std::string("belongs:own-cell:") + rotTag(g), "sampleBelongsToCell says point " + vstr(coor) + " is not in the cell centred on node " + vi(ii, nd) + "; " + g.text(), kase); bad = true; }
          for (int i = 0; i < nd; i++)
            for (int s = -1; s <= 1; s += 2)
            {
              int jj[3] = {ii[0], ii[1], ii[2]}; jj[i] += s;
              int rn = g.rank(jj);
              if (rn < 0) continue;
              if (db->sampleBelongsToCell(coor, rn))
              { C.violation(std::string("belongs:other-cell:") + rotTag(g), "sampleBelongsToCell says point " + vstr(coor) + " (cell " + vi(ii, nd) + ") is in the cell of node " + vi(jj, nd) + "; " + g.text(), kase); bad = true; }
            }
        }
        // point_to_grid (centred, three policies for outside points)
        {
          VectorInt ig(nd, -7);
          int e0 = point_to_grid(db.get(), coor.data(), 0, ig.data());
          bool ok = e0 == (rCentre < 0 ? 1 : 0);
          for (int i = 0; i < nd; i++) { bool out = ii[i] < 0 || ii[i] >= g.nx[i]; if (ig[i] != (out ? -1 : ii[i])) ok = false; }
          VectorInt ig1(nd, -7);
          int e1 = point_to_grid(db.get(), coor.data(), 1, ig1.data());
          if (e1 != e0) ok = false;
          for (int i = 0; i < nd; i++) if (ig1[i] != std::min(std::max(ii[i], 0), g.nx[i] - 1)) ok = false;
          VectorInt ig2(nd, -7);
          point_to_grid(db.get(), coor.data(), -1, ig2.data());
          for (int i = 0; i < nd; i++) if (ig2[i] != ii[i]) ok = false;
          if (!ok)
          { C.violation(std::string("locate:point_to_grid:") + rotTag(g), "point_to_grid of " + vstr(coor) + " gives " + vi(ig.data(), nd) + "/" + vi(ig1.data(), nd) + "/" + vi(ig2.data(), nd) + " (err " + std::to_string(e0) + "), expected cell " + vi(ii, nd) + "; " + g.text(), kase); bad = true; }
        }
        // centerCoordinateInPlace (centred): moves the point to its node
        if (rCentre >= 0)
        {
          VectorDouble cc = coor;
          int e = db->centerCoordinateInPlace(cc, true, true);
          if (e != 0 || !nearv(g.posI(ii), cc, 1e-11 * g.scale()))
          { C.violation(std::string("locate:center-coordinate:") + rotTag(g), "centerCoordinateInPlace moves " + vstr(coor) + " to " + vstr(cc) + ", expected node " + vi(ii, nd) + " at " + vstr(g.posI(ii)) + "; " + g.text(), kase); bad = true; }
        }
      }
    }
    if (!bad)
    {
      // Db of all the query points: locateDataInGrid (both conventions) and migrate(grid -> points)
      std::unique_ptr<Db> pts(make_db_xz(X, {}));
      int np = (int)expCorner.size();
      for (int centered = 0; centered < 2; centered++)
      {
        VectorInt loc = db->locateDataInGrid(pts.get(), VectorInt(), centered);
        C.eval(np);
        if ((int)loc.size() != np) { C.violation("locate:locateDataInGrid:size", "locateDataInGrid returns " + std::to_string(loc.size()) + " ranks for " + std::to_string(np) + " points; " + g.text(), kase); continue; }
        for (int k = 0; k < np; k++)
          if (loc[k] != (centered ? expCentre[k] : expCorner[k]))
          {
            C.violation(std::string("locate:locateDataInGrid:") + (centered ? "centered" : "corner") + ":" + rotTag(g), "point " + std::to_string(k) + " located in " + std::to_string(loc[k]) + " expected " +
                        std::to_string(centered ? expCentre[k] : expCorner[k]) + "; " + g.text(), kase);
            break;
          }
      }
      int nc0 = pts->getColumnNumber();
      int err = migrate(db.get(), pts.get(), "noderank");
      C.eval(np);
      if (err != 0 || pts->getColumnNumber() != nc0 + 1) C.violation("locate:migrate:failed", "migrate(grid -> points) failed (err " + std::to_string(err) + "); " + g.text(), kase);
      else
      {
        // The cell that geometrically contains a point is the one the library itself draws (getCellEdges) and tests
        // (sampleBelongsToCell): centred on the node. migrate must give the point the value of that node, or nothing outside.
        int nCentreAlso = 0; bool allCorner = true; int firstBad = -1;
        for (int k = 0; k < np; k++)
        {
          double v = pts->getValueByColIdx(k, nc0);
          double eCentre = expCentre[k] < 0 ? TEST : (double)expCentre[k];
          double eCorner = expCorner[k] < 0 ? TEST : (double)expCorner[k];
          if (expCorner[k] == expCentre[k]) nCentreAlso++;
          if (v != eCorner) allCorner = false;
          if (v != eCentre && (firstBad < 0 || (FFFF(pts->getValueByColIdx(firstBad, nc0)) && !FFFF(v)))) firstBad = k;   // prefer an example with a wrong node
        }
        if (firstBad >= 0)
        {
          int k = firstBad;
          double v = pts->getValueByColIdx(k, nc0);
          VectorDouble pk(nd); for (int i = 0; i < nd; i++) pk[i] = X[i][k];
          std::string contra;
          if (!FFFF(v) && !db->sampleBelongsToCell(pk, (int)v)) contra = " - and Grid::sampleBelongsToCell(point, " + fmt(v) + ") is false";
          std::string txt = "migrate(grid -> points) gives the point " + vstr(pk) + " the value of node " + (FFFF(v) ? std::string("<none>") : fmt(v)) + " but the cell that contains it is the one of node " +
                            (expCentre[k] < 0 ? std::string("<none: outside>") : std::to_string(expCentre[k])) + contra + "; " + g.text();
          // mechanism: every point was given the node at the lower-left corner of the mesh it falls in (coordinateToRank with centered=false)
          C.violation(allCorner ? std::string("locate:migrate-grid-to-point:uncentered-cell") : std::string("locate:migrate-grid-to-point:") + rotTag(g), txt, kase);
        }
        C.outcome("migrate:points-whose-corner-cell-is-also-their-centred-cell", nCentreAlso);
        C.outcome("migrate:points", np);
      }
    }
    C.outcome("queries-inside", nin); C.outcome("queries-outside", nout);
    if (g.rotated) C.nontrivial(Hash().i(nd).u(id).h);
    if (id % 499 == 5) C.sample("{\"id\":" + kase + ",\"grid\":" + jstr(g.text()) + ",\"queries\":" + std::to_string(nin + nout) + "}");
}
static void locate(Ctx& C, int nd, int nxq)
{
  Space sp = gridSpace(nd, nNx(nd));
  for_each_case(C, sp, [&](uint64_t id, const std::vector<int>& idx) {
    if (!inTier(C, nd, idx, nxq)) return;
    RefGrid g = decodeGrid(nd, idx);
    judgeLocate(C, g, id, OFFS, nOff());
  });
}

// ---- mesh scale: the same geometry expressed in other units (mesh 2^-20 .. 2^20, dyadic: the reference is exactly scale
// invariant) must give the same cells: probes at 0.001 .. 0.499 of a mesh from the nodes (>= 1e-3 mesh away from every cell
// boundary of both conventions), including just outside the grid; round trips rank -> coordinates -> rank.
static const double MSCALE[6] = {1. / 1048576., 1. / 16384., 1. / 128., 1., 1024., 1048576.};
static const char* MSCALEN[6] = {"2^-20", "2^-14", "2^-7", "1", "2^10", "2^20"};
static const double MSOFF[8] = {-0.499, -0.4, -0.1, -0.001, 0.001, 0.1, 0.4, 0.499};
static void meshscale(Ctx& C, int nd)
{
  Space sp; sp.axis("scale", 6).axis("x0", 2).axis("rot", nd == 1 ? 1 : 3);
  for_each_case(C, sp, [&](uint64_t id, const std::vector<int>& idx) {
    const double sc = MSCALE[idx[0]];
    static const int NX[3] = {3, 4, 2}; static const double DX[3] = {1, 2, 0.5}, X0[3] = {-3.75, 100.25, 7.};
    static const double R2[3] = {0., 45., 30.}, R3[3][3] = {{0, 0, 0}, {45, 0, 0}, {30, 20, 10}};
    RefGrid g; g.nd = nd;
    for (int i = 0; i < nd; i++) { g.nx[i] = NX[i]; g.dx[i] = sc * DX[i]; g.x0[i] = idx[1] ? sc * X0[i] : 0.; }
    if (nd == 2) g.angles = {R2[idx[2]], 0.};
    if (nd == 3) g.angles = {R3[idx[2]][0], R3[idx[2]][1], R3[idx[2]][2]};
    g.setRot();
    // round trips of every node, both conventions (default eps)
    {
      std::unique_ptr<DbGrid> db(makeLib(g));
      const Grid& G = db->getGrid();
      for (int r = 0; r < g.ntotal(); r++)
      {
        VectorDouble c = G.rankToCoordinates(r);
        int ii[3]; g.indices(r, ii);
        C.eval(2);
        for (int centered = 0; centered < 2; centered++)
        {
          int rb = G.coordinateToRank(c, centered);
          if (rb != r)
          { C.violation(std::string("coord-roundtrip:") + (centered ? "centered" : "corner") + ":" + rotTag(g), "mesh scale " + std::string(MSCALEN[idx[0]]) + ": node " + vi(ii, nd) + " (rank " + std::to_string(r) + ") -> " + vstr(c) + " -> rank " + std::to_string(rb) + "; " + g.text(), std::to_string(id)); break; }
        }
      }
    }
    judgeLocate(C, g, id, MSOFF, 8);
    C.outcome(std::string("mesh=") + MSCALEN[idx[0]]);
    if (idx[0] != 3) C.nontrivial(Hash().i(nd).u(id).u(77).h);
  });
}
VF_PART(meshscale_1d) { TH = C.thorough(); meshscale(C, 1); }
VF_PART(meshscale_2d) { TH = C.thorough(); meshscale(C, 2); }
VF_PART(meshscale_3d) { TH = C.thorough(); meshscale(C, 3); }
VF_PART(locate_1d) { TH = C.thorough(); locate(C, 1, 4); }
VF_PART(locate_2d) { TH = C.thorough(); locate(C, 2, 4); }
VF_PART(locate_3d) { TH = C.thorough(); locate(C, 3, 3); }

// =================================================================================================================
// Part derived: coarse / refine / multiple / divider / sub-grid / dilate: every node of the derived grid lies where the
// corresponding parent node (point matching) or mean of parent cell centres (cell matching) is.
static bool unequal(const int* m, int nd) { for (int i = 1; i < nd; i++) if (m[i] != m[0]) return true; return false; }
// compares all nodes of a derived DbGrid / (nx,dx,x0) with the positions given by fractional parent indices a + b*J
static bool judgeDerived(Ctx& C, const RefGrid& g, const std::string& key, const std::string& what, const std::string& kase, const int* nxe, const double* a, const double* b,
                         const VectorInt& nx, const VectorDouble& dx, const VectorDouble& x0, const VectorDouble& angles, bool report = true)
{
  int nd = g.nd;
  for (int i = 0; i < nd; i++)
    if (nx[i] != nxe[i]) { if (report) C.violation(key + ":nx", what + ": nx=" + vi(nx.data(), nd) + " expected " + vi(nxe, nd) + "; " + g.text(), kase); return false; }
  RefGrid d = g;   // reference model of the derived grid built from what the library returned
  for (int i = 0; i < nd; i++) { d.nx[i] = nx[i]; d.dx[i] = dx[i]; d.x0[i] = x0[i]; }
  d.angles.assign(angles.begin(), angles.end()); d.setRot();
  double tol = 1e-10 * g.scale();
  int tot = d.ntotal();
  for (int r = 0; r < tot; r++)
  {
    int J[3]; d.indices(r, J);
    double f[3] = {0, 0, 0};
    for (int i = 0; i < nd; i++) f[i] = a[i] + b[i] * J[i];
    std::vector<double> want = g.pos(f), got = d.posI(J);
    for (int i = 0; i < nd; i++)
      if (!(std::fabs(want[i] - got[i]) <= tol))
      {
        if (report) C.violation(key, what + ": derived node " + vi(J, nd) + " is at " + vstr(got) + " but the corresponding parent location (fractional index " + vstr(std::vector<double>(f, f + nd)) + ") is " + vstr(want) +
                    " [derived nx=" + vi(nx.data(), nd) + " dx=" + vstr(dx) + " x0=" + vstr(x0) + "]; " + g.text(), kase);
        return false;
      }
  }
  return true;
}
static bool judgeDerivedDb(Ctx& C, const RefGrid& g, const std::string& key, const std::string& what, const std::string& kase, const int* nxe, const double* a, const double* b, DbGrid* out)
{
  if (out == nullptr) { C.violation(key + ":null", what + " returned no grid; " + g.text(), kase); return false; }
  bool ok = judgeDerived(C, g, key, what, kase, nxe, a, b, out->getNXs(), out->getDXs(), out->getX0s(), out->getAngles());
  if (ok)
  {
    // the Db itself reports the same coordinates as its geometry
    int tot = out->getSampleNumber();
    RefGrid d = g;
    for (int i = 0; i < g.nd; i++) { d.nx[i] = out->getNX(i); }
    for (int r = 0; r < tot; r += std::max(1, tot / 7))
    {
      int J[3]; d.indices(r, J); double f[3] = {0, 0, 0};
      for (int i = 0; i < g.nd; i++) f[i] = a[i] + b[i] * J[i];
      VectorDouble c = out->getCoordinatesPerSample(r);
      if (!nearv(g.pos(f), c, 1e-10 * g.scale())) { C.violation(key, what + ": getCoordinatesPerSample(" + std::to_string(r) + ")=" + vstr(c) + " expected " + vstr(g.pos(f)) + "; " + g.text(), kase); ok = false; break; }
    }
  }
  return ok;
}

static void derived(Ctx& C, int nd, int nxq, int mmax)
{
  Space sp = gridSpace(nd, nNx(nd));
  for_each_case(C, sp, [&](uint64_t id, const std::vector<int>& idx) {
    if (!inTier(C, nd, idx, nxq)) return;
    RefGrid g = decodeGrid(nd, idx);
    std::unique_ptr<DbGrid> db(makeLib(g));
    const std::string kase = std::to_string(id);
    const Grid& G = db->getGrid();
    {
      VectorDouble v(g.ntotal());
      for (int r = 0; r < g.ntotal(); r++) v[r] = 1000. + r;
      db->addColumns(v, "tag", ELoc::Z);
    }
    int nm = 1; for (int i = 0; i < nd; i++) nm *= mmax;
    bool nt = false;
    for (int q = 0; q < nm; q++)
    {
      int m[3] = {1, 1, 1}; int w = q;
      for (int i = 0; i < nd; i++) { m[i] = 1 + w % mmax; w /= mmax; }
      VectorInt nmult(m, m + nd);
      std::string mt = " nmult=" + vi(m, nd);
      std::string cls = std::string(g.rotated ? "rotation" : "unrotated") + (unequal(m, nd) ? "+unequal-nmult" : "+equal-nmult");
      if (g.rotated && unequal(m, nd)) nt = true;
      for (int cell = 0; cell < 2; cell++)
      {
        // ---- coarse
        {
          int nxe[3]; double a[3], b[3];
          bool possible = true;
          for (int i = 0; i < nd; i++)
          {
            nxe[i] = cell ? g.nx[i] / m[i] : 1 + (g.nx[i] - 1) / m[i];
            a[i] = cell ? (m[i] - 1) / 2. : 0.; b[i] = m[i];
            if (nxe[i] <= 0) possible = false;
          }
          if (possible)
          {
            VectorInt nx(nd); VectorDouble dx(nd), x0(nd);
            G.multiple(nmult, cell, nx, dx, x0);
            C.eval();
            std::string key = "derived:multiple:" + cls;
            bool ok = judgeDerived(C, g, key, std::string("Grid::multiple ") + (cell ? "cell" : "point") + "-matching" + mt, kase, nxe, a, b, nx, dx, x0, VectorDouble(g.angles.begin(), g.angles.end()));
            C.outcome(std::string("multiple/") + cls + (ok ? "/ok" : "/MISPLACED"));
            std::unique_ptr<DbGrid> co(DbGrid::createCoarse(db.get(), nmult, cell));
            C.eval();
            ok = judgeDerivedDb(C, g, key, std::string("DbGrid::createCoarse ") + (cell ? "cell" : "point") + "-matching" + mt, kase, nxe, a, b, co.get());
            C.outcome(std::string("createCoarse/") + cls + (ok ? "/ok" : "/MISPLACED"));
            if (cell)
            {
              std::unique_ptr<DbGrid> mu(DbGrid::createMultiple(db.get(), nmult, true));
              C.eval();
              judgeDerivedDb(C, g, key, "DbGrid::createMultiple" + mt, kase, nxe, a, b, mu.get());
            }
          }
          else C.outcome("multiple/impossible(nx<nmult)");
        }
        // ---- refine
        {
          int nxe[3]; double a[3], b[3];
          for (int i = 0; i < nd; i++)
          {
            nxe[i] = cell ? g.nx[i] * m[i] : 1 + (g.nx[i] - 1) * m[i];
            a[i] = cell ? 0.5 / m[i] - 0.5 : 0.; b[i] = 1. / m[i];
          }
          VectorInt nx(nd); VectorDouble dx(nd), x0(nd);
          G.divider(nmult, cell, nx, dx, x0);
          C.eval();
          std::string key = "derived:divider:" + cls;
          bool ok = judgeDerived(C, g, key, std::string("Grid::divider ") + (cell ? "cell" : "point") + "-matching" + mt, kase, nxe, a, b, nx, dx, x0, VectorDouble(g.angles.begin(), g.angles.end()));
          C.outcome(std::string("divider/") + cls + (ok ? "/ok" : "/MISPLACED"));
          std::unique_ptr<DbGrid> re(DbGrid::createRefine(db.get(), nmult, cell));
          C.eval();
          ok = judgeDerivedDb(C, g, key, std::string("DbGrid::createRefine ") + (cell ? "cell" : "point") + "-matching" + mt, kase, nxe, a, b, re.get());
          C.outcome(std::string("createRefine/") + cls + (ok ? "/ok" : "/MISPLACED"));
          if (cell)
          {
            std::unique_ptr<DbGrid> di(DbGrid::createDivider(db.get(), nmult, true));
            C.eval();
            judgeDerivedDb(C, g, key, "DbGrid::createDivider" + mt, kase, nxe, a, b, di.get());
          }
        }
      }
    }
    // ---- sub-grids: every box [lo,hi) per axis (at most 3 choices per axis to bound the product: full, first half, last part)
    {
      int nbox = 1; for (int i = 0; i < nd; i++) nbox *= 3;
      for (int q = 0; q < nbox; q++)
      {
        int lo[3] = {0, 0, 0}, hi[3] = {1, 1, 1}; int w = q; bool proper = false;
        for (int i = 0; i < nd; i++)
        {
          int c = w % 3; w /= 3;
          if (c == 0) { lo[i] = 0; hi[i] = g.nx[i]; }
          else if (c == 1) { lo[i] = 0; hi[i] = std::max(1, g.nx[i] / 2); }
          else { lo[i] = g.nx[i] / 2; hi[i] = g.nx[i]; }
          if (lo[i] > 0) proper = true;
        }
        VectorVectorInt limits(nd);
        int nxe[3] = {1, 1, 1}; double a[3] = {0, 0, 0}, b[3] = {1, 1, 1};
        for (int i = 0; i < nd; i++) { limits[i] = {lo[i], hi[i]}; nxe[i] = hi[i] - lo[i]; a[i] = lo[i]; }
        std::unique_ptr<DbGrid> sg(DbGrid::createSubGrid(db.get(), limits, true));
        C.eval();
        std::string key = std::string("derived:subgrid:") + (g.rotated ? "rotation" : "unrotated");
        std::string what = "DbGrid::createSubGrid limits lo=" + vi(lo, nd) + " hi=" + vi(hi, nd);
        bool ok = judgeDerivedDb(C, g, key, what, kase, nxe, a, b, sg.get());
        C.outcome(std::string("subgrid/") + (g.rotated ? "rotation" : "unrotated") + (proper ? "/shifted" : "/from-origin") + (ok ? "/ok" : "/MISPLACED"));
        if (sg && ok)
        {
          // the copied variable belongs to the corresponding parent node
          int ic = sg->getColIdx("tag");
          RefGrid d = g; for (int i = 0; i < nd; i++) d.nx[i] = nxe[i];
          for (int r = 0; r < d.ntotal() && ic >= 0; r++)
          {
            int J[3]; d.indices(r, J); int P[3] = {J[0] + lo[0], J[1] + lo[1], J[2] + lo[2]};
            if (sg->getValueByColIdx(r, ic) != 1000. + g.rank(P)) { C.violation("derived:subgrid:values", what + ": node " + vi(J, nd) + " carries " + fmt(sg->getValueByColIdx(r, ic)) + " expected the value of parent node " + vi(P, nd) + "; " + g.text(), kase); break; }
          }
          if (ic < 0) C.violation("derived:subgrid:values", what + ": variable not copied; " + g.text(), kase);
        }
        if (g.rotated && proper) nt = true;
      }
    }
    // ---- dilate
    for (int mode = -1; mode <= 1; mode += 2)
      for (int sh = 1; sh <= 2; sh++)
        for (int var = 0; var < (nd > 1 ? 2 : 1); var++)
        {
          int s[3] = {sh, sh, sh}; if (var) s[0] = 3 - sh;   // unequal shifts
          bool possible = true; int nxe[3]; double a[3], b[3] = {1, 1, 1};
          for (int i = 0; i < nd; i++) { nxe[i] = g.nx[i] + 2 * mode * s[i]; a[i] = -mode * s[i]; if (nxe[i] <= 0) possible = false; }
          if (!possible) { C.outcome("dilate/impossible"); continue; }
          VectorInt nx(nd, -1), ns(s, s + nd); VectorDouble dx(nd, -1.), x0(nd, -1e300);
          G.dilate(mode, ns, nx, dx, x0);
          C.eval();
          VectorDouble ang(g.angles.begin(), g.angles.end());
          std::string what = "Grid::dilate mode=" + std::to_string(mode) + " nshift=" + vi(s, nd);
          bool ok = judgeDerived(C, g, "", what, kase, nxe, a, b, nx, dx, x0, ang, false);
          if (!ok)
          {
            // mechanism: is the origin moved by exactly twice the requested number of meshes?
            double a2[3] = {2 * a[0], 2 * a[1], 2 * a[2]};
            if (judgeDerived(C, g, "", what, kase, nxe, a2, b, nx, dx, x0, ang, false))
              C.violation("derived:dilate:origin-shifted-twice", what + ": the origin of the dilated grid x0=" + vstr(x0) + " is the parent node of index " + vstr(std::vector<double>(a2, a2 + nd)) + ", i.e. twice the requested shift " +
                          vstr(std::vector<double>(a, a + nd)) + " (expected " + vstr(g.pos(a)) + "); " + g.text(), kase);
            else
              judgeDerived(C, g, std::string("derived:dilate:") + (g.rotated ? "rotation" : "unrotated"), what, kase, nxe, a, b, nx, dx, x0, ang, true);
          }
          C.outcome(std::string("dilate/") + (g.rotated ? "rotation" : "unrotated") + (ok ? "/ok" : "/MISPLACED"));
        }
    if (nt) C.nontrivial(Hash().i(nd).u(id).h);
    if (id % 499 == 7) C.sample("{\"id\":" + kase + ",\"grid\":" + jstr(g.text()) + "}");
  });
}
VF_PART(derived_1d) { TH = C.thorough(); derived(C, 1, 4, TH ? 4 : 3); }
VF_PART(derived_2d) { TH = C.thorough(); derived(C, 2, 4, TH ? 4 : 3); }
VF_PART(derived_3d) { TH = C.thorough(); derived(C, 3, 3, TH ? 3 : 2); }


// =================================================================================================================
// Part history (engine E2): histories of public calls on ONE Grid object and ONE DbGrid object.
// Alphabet = in-place geometry edits (setX0/setDX/setNX per axis, the four rotation setters, copyParams 1..4 from another grid,
// a full reset) U queries (getCoordinate of node 0 / middle / last as separate calls - so that the same node is asked twice in
// a row around an edit -, getCoordinate without rotation, getCoordinatesByRank / getSampleCoordinates, indices->coordinates->
// rank round trip, rank<->indices, cell corners, stored coordinate columns).  After every history the LAST call is judged:
//   edit  : the reported parameters (getNX/getDX/getX0/angles/rotation matrix) are those of the abstract model of the setters;
//   query : the answer is the reference geometry computed from the parameters the object REPORTS at that moment.
// No invariant sweep is run between the calls (it would itself touch the hidden work buffers / any cache): only the queries
// that are part of the history observe the object.  The state key hashes the reported parameters, all `mutable` members of
// Grid (_iwork0, _work1, _work2) and (last node asked through the getCoordinate family, its flag, edited-since); the search
// is run without pruning so that a primed-but-equal-looking state can never be hidden.
#include "vf/bfs.hpp"
#include "Geometry/Rotation.hpp"
struct HSeed { int nd; int nx[3]; double dx[3], x0[3], ang[3]; };
static const HSeed HSEEDS[2] = {{2, {2, 3, 1}, {1, 2, 1}, {10, 20, 0}, {30, 0, 0}}, {3, {2, 2, 3}, {1, 0.5, 2}, {0, 0, 0}, {40, 20, 10}}};
static const HSeed HAUX[2] = {{2, {3, 2, 1}, {0.25, 4, 1}, {1, 2, 0}, {15, 0, 0}}, {3, {3, 2, 2}, {0.25, 4, 1}, {1, 2, 3}, {15, 5, -5}}};
static const HSeed HRESET[2] = {{2, {3, 3, 1}, {2, 0.5, 1}, {-1, 4, 0}, {120, 0, 0}}, {3, {2, 3, 2}, {2, 0.5, 1}, {-1, 4, 2}, {-70, 15, 200}}};
enum { HE_X0_0, HE_X0_L, HE_DX_0, HE_DX_L, HE_NX_0, HE_NX_L, HE_CP1, HE_CP2, HE_CP3, HE_CP4, HE_RESET, HE_ROT_ANGLE, HE_ROT_ANGLES, HE_ROT_MATRIX, HE_ROT_VECTOR,
       HQ_C0, HQ_CM, HQ_CL, HQ_CM_NOROT, HQ_S0, HQ_SM, HQ_SL, HQ_ROUNDTRIP, HQ_INDICES, HQ_CELL, HQ_STORED, HNOPS };
static const char* HOPN[HNOPS] = {"setX0(0,7.5)", "setX0(last,-2.25)", "setDX(0,0.5)", "setDX(last,2.5)", "setNX(0,3)", "setNX(last,2)", "copyParams(1:nx)", "copyParams(2:x0)", "copyParams(3:dx)",
                                  "copyParams(4:rotation)", "full-reset", "setRotationByAngle(90)", "setRotationByAngles", "setRotationByMatrix", "setRotationByVector",
                                  "getCoordinate(first)", "getCoordinate(middle)", "getCoordinate(last)", "getCoordinate(middle,no-rotation)", "coordinates(first)", "coordinates(middle)", "coordinates(last)",
                                  "indices->coordinates->rank(last)", "rank<->indices(middle)", "cell-corners(middle)", "stored-x-columns(middle)"};
static VectorInt hvi(const int* a, int nd) { return VectorInt(a, a + nd); }
static VectorDouble hvd(const double* a, int nd) { return VectorDouble(a, a + nd); }
static Grid makeGridOf(const HSeed& s) { Grid g(s.nd); g.resetFromVector(hvi(s.nx, s.nd), hvd(s.dx, s.nd), hvd(s.x0, s.nd), hvd(s.ang, s.nd)); return g; }

// dbhost=false: a Grid object; true: a DbGrid object (public DbGrid API only)
static StepResult historyExec(Ctx& C, int iseed, bool dbhost, const History& h)
{
  const HSeed& S = HSEEDS[iseed];
  const int nd = S.nd;
  StepResult res;
  std::unique_ptr<Grid> gown; std::unique_ptr<DbGrid> db;
  if (dbhost) db.reset(DbGrid::create(hvi(S.nx, nd), hvd(S.dx, nd), hvd(S.x0, nd), hvd(S.ang, nd)));
  else gown.reset(new Grid(makeGridOf(S)));
  Grid aux = makeGridOf(HAUX[iseed]);
  const Grid* G = dbhost ? &db->getGrid() : gown.get();
  // abstract model of the parameters
  RefGrid M; M.nd = nd;
  for (int i = 0; i < nd; i++) { M.nx[i] = S.nx[i]; M.dx[i] = S.dx[i]; M.x0[i] = S.x0[i]; }
  M.angles = std::vector<double>(S.ang, S.ang + nd); M.setRot();
  int lastRank = -1, lastFlag = -1; bool editedSince = false, inPlaceEditSinceReset = false;
  const std::string kase = hist_str(h);
  auto angOf = [&](const double* a) { std::vector<double> v(a, a + nd); if (nd == 2) v[1] = 0; return v; };
  for (size_t k = 0; k < h.size(); k++)
  {
    int op = h[k];
    bool last = k + 1 == h.size();
    bool isEdit = op < HQ_C0;
    // applicability
    if (dbhost && (op == HE_ROT_ANGLE || op == HE_ROT_ANGLES || op == HE_ROT_MATRIX || op == HE_ROT_VECTOR)) { res.enabled = false; res.expand = false; return res; }   // no public DbGrid route
    if (!dbhost && op == HQ_STORED) { res.enabled = false; res.expand = false; return res; }
    if (nd != 2 && op == HQ_CELL && dbhost) { res.enabled = false; res.expand = false; return res; }   // getCellEdges is a 2-D notion
    if (isEdit)
    {
      static const double A1[3] = {-45, 0, 0}, A1b[3] = {135, -60, 75}, A2[3] = {60, 0, 0}, A2b[3] = {10, 0, 350}, A3[3] = {200, 0, 0}, A3b[3] = {0, 90, 0};
      int L = nd - 1;
      switch (op)
      {
        case HE_X0_0: if (dbhost) db->setX0(0, 7.5); else gown->setX0(0, 7.5); M.x0[0] = 7.5; break;
        case HE_X0_L: if (dbhost) db->setX0(L, -2.25); else gown->setX0(L, -2.25); M.x0[L] = -2.25; break;
        case HE_DX_0: if (dbhost) db->setDX(0, 0.5); else gown->setDX(0, 0.5); M.dx[0] = 0.5; break;
        case HE_DX_L: if (dbhost) db->setDX(L, 2.5); else gown->setDX(L, 2.5); M.dx[L] = 2.5; break;
        case HE_NX_0: if (dbhost) db->setNX(0, 3); else gown->setNX(0, 3); M.nx[0] = 3; break;
        case HE_NX_L: if (dbhost) db->setNX(L, 2); else gown->setNX(L, 2); M.nx[L] = 2; break;
        case HE_CP1: if (dbhost) db->gridCopyParams(1, aux); else gown->copyParams(1, aux); for (int i = 0; i < nd; i++) M.nx[i] = HAUX[iseed].nx[i]; break;
        case HE_CP2: if (dbhost) db->gridCopyParams(2, aux); else gown->copyParams(2, aux); for (int i = 0; i < nd; i++) M.x0[i] = HAUX[iseed].x0[i]; break;
        case HE_CP3: if (dbhost) db->gridCopyParams(3, aux); else gown->copyParams(3, aux); for (int i = 0; i < nd; i++) M.dx[i] = HAUX[iseed].dx[i]; break;
        case HE_CP4: if (dbhost) db->gridCopyParams(4, aux); else gown->copyParams(4, aux); M.angles = angOf(HAUX[iseed].ang); M.setRot(); break;
        case HE_RESET:
        {
          const HSeed& R = HRESET[iseed];
          if (dbhost) db->reset(hvi(R.nx, nd), hvd(R.dx, nd), hvd(R.x0, nd), hvd(R.ang, nd));
          else gown->resetFromVector(hvi(R.nx, nd), hvd(R.dx, nd), hvd(R.x0, nd), hvd(R.ang, nd));
          for (int i = 0; i < nd; i++) { M.nx[i] = R.nx[i]; M.dx[i] = R.dx[i]; M.x0[i] = R.x0[i]; }
          M.angles = angOf(R.ang); M.setRot();
          G = dbhost ? &db->getGrid() : gown.get();
          break;
        }
        case HE_ROT_ANGLE: gown->setRotationByAngle(90.); M.angles.assign(nd, 0.); M.angles[0] = 90.; M.setRot(); break;
        case HE_ROT_ANGLES: { const double* a = nd == 2 ? A1 : A1b; gown->setRotationByAngles(hvd(a, nd)); M.angles = angOf(a); M.setRot(); break; }
        case HE_ROT_MATRIX: { const double* a = nd == 2 ? A2 : A2b; Rotation r(nd); r.setAngles(hvd(a, nd)); gown->setRotationByMatrix(r.getMatrixDirect()); M.angles = angOf(a); M.setRot(); break; }
        case HE_ROT_VECTOR: { const double* a = nd == 2 ? A3 : A3b; Rotation r(nd); r.setAngles(hvd(a, nd)); gown->setRotationByVector(r.getMatrixDirectVec()); M.angles = angOf(a); M.setRot(); break; }
      }
      editedSince = true;
      inPlaceEditSinceReset = op != HE_RESET;
      if (last)
      {
        bool ok = true; std::string w;
        for (int i = 0; i < nd; i++) if (G->getNX(i) != M.nx[i] || G->getDX(i) != M.dx[i] || G->getX0(i) != M.x0[i]) ok = false;
        VectorDouble ra = G->getRotAngles();
        RefGrid T = M; T.angles.assign(ra.begin(), ra.end()); T.setRot();
        for (int i = 0; i < nd; i++) for (int j = 0; j < nd; j++)
        {
          if (std::fabs(T.R[i][j] - M.R[i][j]) > 1e-9) { ok = false; w = " reported angles " + vstr(ra) + " do not rebuild the rotation that was set (angles " + vstr(M.angles) + ")"; }
          if (std::fabs(G->getRotation().getMatrixDirect().getValue(i, j) - M.R[i][j]) > 1e-12) { ok = false; w = " rotation matrix differs from the one that was set"; }
        }
        if (!ok) C.violation(std::string("history:params-after:") + HOPN[op], std::string(dbhost ? "DbGrid" : "Grid") + " after {" + kase + "}: reported nx=" + vstr(G->getNXs()) + " dx=" + vstr(G->getDXs()) + " x0=" + vstr(G->getX0s()) +
                             " angles=" + vstr(ra) + " but the setters ask for " + M.text() + w, kase);
      }
      continue;
    }
    // ---- queries: reference from the parameters the object reports NOW
    RefGrid Rf; Rf.nd = nd;
    for (int i = 0; i < nd; i++) { Rf.nx[i] = G->getNX(i); Rf.dx[i] = G->getDX(i); Rf.x0[i] = G->getX0(i); }
    { VectorDouble ra = G->getRotAngles(); Rf.angles.assign(ra.begin(), ra.end()); Rf.setRot(); }
    int ntot = Rf.ntotal();
    if (dbhost) ntot = std::min(ntot, db->getSampleNumber());
    int rr[3] = {0, ntot / 2, ntot - 1};
    double tol = 1e-11 * Rf.scale();
    std::string bad;
    auto expect = [&](int r, bool rot) {
      int ii[3]; Rf.indices(r, ii);
      if (rot) return Rf.posI(ii);
      std::vector<double> p(nd); for (int i = 0; i < nd; i++) p[i] = Rf.x0[i] + ii[i] * Rf.dx[i]; return p;
    };
    switch (op)
    {
      case HQ_C0: case HQ_CM: case HQ_CL: case HQ_CM_NOROT:
      {
        int r = op == HQ_C0 ? rr[0] : op == HQ_CL ? rr[2] : rr[1];
        bool rot = op != HQ_CM_NOROT;
        std::vector<double> e = expect(r, rot); VectorDouble got(nd);
        for (int i = 0; i < nd; i++) got[i] = dbhost ? db->getCoordinate(r, i, rot) : G->getCoordinate(r, i, rot);
        if (!nearv(e, got, tol)) bad = std::string(dbhost ? "DbGrid" : "Grid") + "::getCoordinate(rank " + std::to_string(r) + (rot ? "" : ", flag_rotate=false") + ") = " + vstr(got) + " but the node is at " + vstr(e);
        lastRank = r; lastFlag = rot; editedSince = false;
        break;
      }
      case HQ_S0: case HQ_SM: case HQ_SL:
      {
        int r = rr[op - HQ_S0];
        std::vector<double> e = expect(r, true);
        VectorDouble got = dbhost ? db->getSampleCoordinates(r) : G->getCoordinatesByRank(r);
        VectorDouble got2 = dbhost ? db->getCoordinatesPerSample(r) : G->rankToCoordinates(r);
        if (!nearv(e, got, tol)) bad = std::string(dbhost ? "DbGrid::getSampleCoordinates(" : "Grid::getCoordinatesByRank(") + std::to_string(r) + ") = " + vstr(got) + " but the node is at " + vstr(e);
        else if (!nearv(e, got2, tol)) bad = std::string(dbhost ? "DbGrid::getCoordinatesPerSample(" : "Grid::rankToCoordinates(") + std::to_string(r) + ") = " + vstr(got2) + " but the node is at " + vstr(e);
        if (dbhost) { lastRank = r; lastFlag = 1; editedSince = false; }   // Db::getSampleCoordinates goes through getCoordinate
        break;
      }
      case HQ_ROUNDTRIP:
      {
        int r = rr[2]; int ii[3]; Rf.indices(r, ii);
        VectorDouble c = G->indicesToCoordinate(hvi(ii, nd));
        int back = dbhost ? db->coordinateToRank(c, true) : G->coordinateToRank(c, true);
        int back2 = G->coordinateToRank(c, false);
        if (!nearv(Rf.posI(ii), c, tol)) bad = "indicesToCoordinate" + vi(ii, nd) + " = " + vstr(c) + " but the node is at " + vstr(Rf.posI(ii));
        else if (back != r || back2 != r) bad = "node " + std::to_string(r) + " -> " + vstr(c) + " -> coordinateToRank = " + std::to_string(back) + " (centred) / " + std::to_string(back2) + " (corner)";
        break;
      }
      case HQ_INDICES:
      {
        int r = rr[1]; int ii[3]; Rf.indices(r, ii);
        VectorInt li(nd); G->rankToIndice(r, li);
        int rb = G->indiceToRank(li);
        bool ok = rb == r; for (int i = 0; i < nd; i++) if (li[i] != ii[i]) ok = false;
        if (!ok) bad = "rankToIndice(" + std::to_string(r) + ") = " + vi(li.data(), nd) + " -> indiceToRank = " + std::to_string(rb) + ", expected " + vi(ii, nd);
        break;
      }
      case HQ_CELL:
      {
        int r = rr[1]; int ii[3]; Rf.indices(r, ii);
        if (dbhost)
        {
          VectorVectorDouble ed = db->getCellEdges(r, true);
          static const int SG[4][2] = {{-1, -1}, {-1, 1}, {1, 1}, {1, -1}};
          for (int c = 0; c < 4 && bad.empty(); c++)
          {
            double f[3] = {ii[0] + 0.5 * SG[c][0], ii[1] + 0.5 * SG[c][1], 0};
            std::vector<double> e = Rf.pos(f);
            if (!(std::fabs(ed[0][c] - e[0]) <= tol && std::fabs(ed[1][c] - e[1]) <= tol)) bad = "getCellEdges(" + std::to_string(r) + ") corner " + std::to_string(c) + " = (" + fmt(ed[0][c]) + "," + fmt(ed[1][c]) + ") expected " + vstr(e);
          }
        }
        else
        {
          VectorInt sh(nd, -1); double f[3] = {ii[0] - 0.5, ii[1] - 0.5, ii[2] - 0.5};
          VectorDouble c = G->getCellCoordinatesByCorner(r, sh);
          if (!nearv(Rf.pos(f), c, tol)) bad = "getCellCoordinatesByCorner(" + std::to_string(r) + ", -1..) = " + vstr(c) + " expected " + vstr(Rf.pos(f));
        }
        break;
      }
      case HQ_STORED:
      {
        // the x1.. columns are written by create()/reset(); nothing in DbGrid.hpp promises that they follow setX0/setDX/setNX/
        // gridCopyParams: judged only while no in-place edit happened since the last (re)construction, counted otherwise
        int r = std::min(rr[1], db->getSampleNumber() - 1);
        std::vector<double> e = expect(r, true);
        bool same = true;
        for (int i = 0; i < nd; i++) { int ic = db->getColIdxByLocator(ELoc::X, i); if (ic < 0 || !(std::fabs(db->getValueByColIdx(r, ic) - e[i]) <= tol)) same = false; }
        if (last) C.outcome(std::string("stored-columns/") + (inPlaceEditSinceReset ? "after-in-place-edit(not-judged)/" : "after-construction(judged)/") + (same ? "equal-geometry" : "STALE"));
        if (!same && !inPlaceEditSinceReset) bad = "stored coordinate columns of node " + std::to_string(r) + " differ from the geometry " + vstr(e) + " right after construction/reset";
        break;
      }
    }
    if (last && !bad.empty())
    {
      // mechanism: does the answer correspond to the geometry BEFORE the last edits (stale cache)?
      C.violation(std::string("history:") + (op <= HQ_CM_NOROT || (dbhost && op <= HQ_SL) ? "getCoordinate" : HOPN[op]) + ":after-in-place-edit", std::string(dbhost ? "DbGrid" : "Grid") + " (parameters asked by the setters: " + M.text() + ") history {" + [&]() {
        std::string t; for (size_t q = 0; q < h.size(); q++) t += (q ? "; " : "") + std::string(HOPN[h[q]]); return t; }() + "}: " + bad + " [current parameters: " + Rf.text() + "]", kase);
    }
  }
  // canonical key
  Hash H;
  H.i(iseed).i(dbhost);
  for (int i = 0; i < nd; i++) H.i(G->getNX(i)).d(G->getDX(i)).d(G->getX0(i));
  H.vd(G->getRotAngles());
  H.vi(G->_iwork0).vd(G->_work1).vd(G->_work2);
  H.i(lastRank).i(lastFlag).i(editedSince).i(inPlaceEditSinceReset);
  if (dbhost) H.i(db->getSampleNumber()).i(db->getColumnNumber());
  res.key = H.h;
  if (!h.empty())
  {
    bool primed = false;   // a node asked, then an in-place edit, then the same node asked again with nothing in between
    for (size_t k = 0; k + 2 < h.size() + 0 && !primed; k++) {}
    int q = -1; bool ed = false;
    for (int op : h)
    {
      bool isq = (op >= HQ_C0 && op <= HQ_CM_NOROT) || (dbhost && op >= HQ_S0 && op <= HQ_SL);
      if (isq) { int node = op == HQ_CM_NOROT ? 100 + HQ_CM : (op >= HQ_S0 ? op - HQ_S0 + HQ_C0 : op); if (q == node && ed) primed = true; q = node; ed = false; }
      else if (op < HQ_C0 && op != HE_RESET) ed = true;
      else if (op == HE_RESET) { q = -1; ed = false; }
    }
    if (primed) C.nontrivial(Hash().i(iseed).i(dbhost).s(hist_str(h)).h);
    C.outcome(primed ? "history/same-node-asked-around-an-in-place-edit" : "history/other");
  }
  return res;
}
static void historyPart(Ctx& C, int iseed, bool dbhost)
{
  int depth = C.thorough() ? 5 : 4;
  bfs(C, HNOPS, depth, [&](const History& h) -> StepResult { return historyExec(C, iseed, dbhost, h); }, false);
}
VF_PART(history_grid_2d) { historyPart(C, 0, false); }
VF_PART(history_dbgrid_2d) { historyPart(C, 0, true); }
VF_PART(history_grid_3d) { historyPart(C, 1, false); }
VF_PART(history_dbgrid_3d) { historyPart(C, 1, true); }

int main(int argc, char** argv) { return run_main(argc, argv, [](Ctx&) { silence(); }, [](Ctx& C) { write_states(C); }); }
