// C17 — automatic model fitting returns a usable, constraint-abiding model or reports failure.
// Engine E1 (product of menus), one forked child per fit (crash isolation + CPU-time limit: a fit that does not terminate is a violation,
// not a stuck check).
//
// inputs : (a) genuine experimental variograms computed BY THE LIBRARY from small 4x4 lattice data sets (1-3 variables, omni / 2 directions,
//              half lags = lags with no pair, constant and rank deficient variables);
//          (b) synthetic variograms written through the Vario setters: every 4-lag value combination over {0,0.5,1,2} (256), optionally
//              with one empty lag (sw=0); bivariate ones with all cross-variograms over {-1,0,1}^4.
// x structure sets (10) x constraint sets x fitting options x Option_AutoFit (wmode, maxiter).
// oracle (inside the child, after Model::fit): return code != 0  OR  the model has: finite numbers only, every sill matrix positive
//          semi-definite (Eigen), every range > 0, third parameters within [0, parmax], every user constraint satisfied, isotropy /
//          no rotation / shared rotation as the options demand; it survives serialize -> deserialize and one kriging of 3 targets.
#include "vf/gst.hpp"
#include "vf/fork.hpp"

#include "Basic/ASerializable.hpp"
#include "Covariances/CovAniso.hpp"
#include "Enum/EConsElem.hpp"
#include "Enum/EConsType.hpp"
#include "Enum/ECov.hpp"
#include "Enum/ESpaceType.hpp"
#include "Estimation/CalcKriging.hpp"
#include "Model/ConsItem.hpp"
#include "Model/Constraints.hpp"
#include "Model/Model.hpp"
#include "Model/Option_AutoFit.hpp"
#include "Model/Option_VarioFit.hpp"
#include "Neigh/NeighUnique.hpp"
#include "Space/ASpaceObject.hpp"
#include "Variogram/DirParam.hpp"
#include "Space/SpacePoint.hpp"
#include "Variogram/Vario.hpp"
#include "Variogram/VarioParam.hpp"

#include <Eigen/Dense>
#include <memory>
#include <sys/resource.h>

using namespace vf;

// ------------------------------------------------------------------------------------------------
// variogram menu
struct VarioSpec
{
  int kind = 0;      // 0 genuine, 1 synthetic mono, 2 synthetic bivariate
  int nvar = 1;
  int pat[3] = {0, 0, 0};  // genuine: value pattern per variable
  int vp = 0;              // genuine: 0 omni 4 lags of 1; 1 omni 8 lags of 0.5 (empty lags); 2 two directions 0/90; 3 four directions
  int code = 0;            // synthetic: 4 digits base 4 (mono) or base 3 (cross)
  int empty = -1;          // synthetic: lag with sw = 0
  std::string desc;
};
static double pattern(int p, int i, int j)
{
  switch (p)
  {
    case 0: return (double)i;
    case 1: return (double)(i + j);
    case 2: return (double)((i * j) % 3);
    case 3: return (double)((i + j) % 2);
    case 4: return (double)(i * i) / 4.;
    case 5: return 1.;  // constant: an all-zero variogram
    case 6: return (double)((i * 7 + j * 3) % 5) / 2.;
    case 7: return (i == 1 && j == 2) ? 4. : 0.;
    case 8: return -(double)((i * 7 + j * 3) % 5) / 2.;  // = -pattern 6
    case 9: return (double)((i * 7 + j * 3) % 5) / 2. + (double)(i + j);  // = pattern 6 + pattern 1
  }
  return 0.;
}
static std::vector<VarioSpec> vario_menu(bool thorough, int want_nvar)
{
  std::vector<VarioSpec> out;
  if (want_nvar == 1)
  {
    for (int p = 0; p < 8; p++)
      for (int vp = 0; vp < 4; vp++)
      {
        VarioSpec v; v.kind = 0; v.nvar = 1; v.pat[0] = p; v.vp = vp;
        v.desc = "genuine pattern=" + std::to_string(p) + " varioparam=" + std::to_string(vp);
        out.push_back(v);
      }
    const double vals[4] = {0, 0.5, 1, 2};
    for (int code = 0; code < 256; code++)
      for (int e = -1; e < (thorough ? 4 : 0); e++)
      {
        if (e >= 0 && code % 5 != 0) continue;  // empty-lag variants on a sub menu
        VarioSpec v; v.kind = 1; v.nvar = 1; v.code = code; v.empty = e;
        int c = code;
        std::string s = "[";
        for (int k = 0; k < 4; k++) { s += (k ? "," : "") + fmt(vals[c % 4]); c /= 4; }
        v.desc = "synthetic gg=" + s + "] empty_lag=" + std::to_string(e);
        out.push_back(v);
      }
  }
  else if (want_nvar == 2)
  {
    int pairs[][2] = {{0, 1}, {6, 8}, {6, 6}, {2, 3}, {1, 5}, {4, 7}, {6, 1}};
    for (auto& pr : pairs)
      for (int vp = 0; vp < 3; vp++)
      {
        VarioSpec v; v.kind = 0; v.nvar = 2; v.pat[0] = pr[0]; v.pat[1] = pr[1]; v.vp = vp;
        v.desc = "genuine patterns=" + std::to_string(pr[0]) + "," + std::to_string(pr[1]) + " varioparam=" + std::to_string(vp);
        out.push_back(v);
      }
    for (int code = 0; code < 81; code++)
    {
      VarioSpec v; v.kind = 2; v.nvar = 2; v.code = code;
      int c = code; std::string s = "[";
      for (int k = 0; k < 4; k++) { s += (k ? "," : "") + std::to_string(c % 3 - 1); c /= 3; }
      v.desc = "synthetic bivariate direct=[0.5,1,1,1]/[1,1,2,2] cross=" + s + "]";
      out.push_back(v);
    }
  }
  else
  {
    int trip[][3] = {{6, 1, 9}, {0, 2, 3}, {6, 8, 5}, {1, 1, 1}};
    for (auto& t : trip)
      for (int vp = 0; vp < 3; vp += 2)
      {
        VarioSpec v; v.kind = 0; v.nvar = 3; v.pat[0] = t[0]; v.pat[1] = t[1]; v.pat[2] = t[2]; v.vp = vp;
        v.desc = "genuine patterns=" + std::to_string(t[0]) + "," + std::to_string(t[1]) + "," + std::to_string(t[2]) + " varioparam=" + std::to_string(vp);
        out.push_back(v);
      }
  }
  return out;
}

static Db* lattice_db(int nvar, const int* pat)
{
  std::vector<std::vector<double>> X(2), Z(nvar);
  for (int j = 0; j < 4; j++)
    for (int i = 0; i < 4; i++)
    {
      X[0].push_back(i); X[1].push_back(j);
      for (int v = 0; v < nvar; v++) Z[v].push_back(pattern(pat[v], i, j));
    }
  return make_db_xz(X, Z);
}
static Vario* build_vario(const VarioSpec& v)
{
  int pat1[3] = {6, 1, 0};
  std::unique_ptr<Db> db(lattice_db(v.nvar, v.kind == 0 ? v.pat : pat1));
  std::unique_ptr<VarioParam> vp;
  int vpk = v.kind == 0 ? v.vp : 0;
  if (vpk == 0) vp.reset(VarioParam::createOmniDirection(4, 1.));
  else if (vpk == 1) vp.reset(VarioParam::createOmniDirection(8, 0.5, 0.25));
  else if (vpk == 2) vp.reset(VarioParam::createSeveral2D({0., 90.}, 3, 1.));
  else vp.reset(VarioParam::createSeveral2D({0., 45., 90., 135.}, 3, 1.));  // more directions than dimensions: the rotation is inferred
  Vario* vario = Vario::computeFromDb(*vp, db.get());
  if (vario == nullptr) return nullptr;
  if (v.kind == 1)
  {
    const double vals[4] = {0, 0.5, 1, 2};
    int c = v.code;
    for (int k = 0; k < 4; k++)
    {
      vario->setGg(0, 0, 0, k, vals[c % 4]); c /= 4;
      vario->setHh(0, 0, 0, k, (double)(k + 1));
      vario->setSw(0, 0, 0, k, k == v.empty ? 0. : (double)(12 - 2 * k));
    }
    vario->setVar(1., 0, 0);
  }
  if (v.kind == 2)
  {
    const double d1[4] = {0.5, 1, 1, 1}, d2[4] = {1, 1, 2, 2};
    int c = v.code;
    for (int k = 0; k < 4; k++)
    {
      double cr = (double)(c % 3 - 1); c /= 3;
      vario->setGg(0, 0, 0, k, d1[k]); vario->setGg(0, 1, 1, k, d2[k]); vario->setGg(0, 0, 1, k, cr); vario->setGg(0, 1, 0, k, cr);
      for (int a = 0; a < 2; a++) for (int b = 0; b < 2; b++) { vario->setHh(0, a, b, k, (double)(k + 1)); vario->setSw(0, a, b, k, (double)(12 - 2 * k)); }
    }
    vario->setVar(1., 0, 0); vario->setVar(2., 1, 1); vario->setVar(0.5, 0, 1); vario->setVar(0.5, 1, 0);
  }
  return vario;
}

// ------------------------------------------------------------------------------------------------
static const char* STRUCT_NAMES[10] = {"SPH", "EXP", "NUG+SPH", "NUG+EXP+SPH", "GAUS", "CUBIC+NUG", "LINEAR", "SPH+SPH", "MATERN", "POWER"};
static VectorECov struct_set(int k)
{
  switch (k)
  {
    case 0: return {ECov::SPHERICAL};
    case 1: return {ECov::EXPONENTIAL};
    case 2: return {ECov::NUGGET, ECov::SPHERICAL};
    case 3: return {ECov::NUGGET, ECov::EXPONENTIAL, ECov::SPHERICAL};
    case 4: return {ECov::GAUSSIAN};
    case 5: return {ECov::CUBIC, ECov::NUGGET};
    case 6: return {ECov::LINEAR};
    case 7: return {ECov::SPHERICAL, ECov::SPHERICAL};
    case 8: return {ECov::MATERN};
    default: return {ECov::POWER};
  }
}
// constraint sets. Items: (elem, icov, iv1, iv2, type, value). icov counts the structures of the requested set.
struct CItem { int elem; int icov, iv1, iv2; int type; double value; };  // elem: 1 range 2 angle 3 param 4 sill ; type -1 lower 1 upper 2 equal
static const char* CONS_NAMES[10] = {"none", "sill>=0.5", "sill<=0.25", "range<=1.5", "range>=3", "param<=1", "sill==0.75", "constantSill=1", "contradictory range", "10<=angle<=20"};
static std::vector<CItem> cons_set(int k, int ncov)
{
  int last = ncov - 1;
  switch (k)
  {
    case 1: return {{4, last, 0, 0, -1, 0.5}};
    case 2: return {{4, last, 0, 0, 1, 0.25}};
    case 3: return {{1, last, 0, 0, 1, 1.5}};
    case 4: return {{1, last, 0, 0, -1, 3.}};
    case 5: return {{3, last, 0, 0, 1, 1.}};
    case 6: return {{4, last, 0, 0, 2, 0.75}};
    case 8: return {{1, last, 0, 0, -1, 2.}, {1, last, 0, 0, 1, 1.}};
    case 9: return {{2, last, 0, 0, -1, 10.}, {2, last, 0, 0, 1, 20.}};
  }
  return {};
}
static const char* OPT_NAMES[8] = {"default", "auth_aniso=0", "auth_rotation=0", "lock_samerot", "lock_iso2d", "flag_noreduce", "goulard=0", "lock_rot2d"};
static Option_VarioFit opt_set(int k)
{
  Option_VarioFit o;
  if (k == 1) o.setAuthAniso(false);
  if (k == 2) o.setAuthRotation(false);
  if (k == 3) o.setLockSamerot(true);
  if (k == 4) o.setLockIso2d(true);
  if (k == 5) o.setFlagNoreduce(true);
  if (k == 6) o.setFlagGoulardUsed(false);
  if (k == 7) o.setLockRot2d(true);
  return o;
}

struct FitCase { VarioSpec vs; int istruct, icons, iopt, wmode, maxiter; };

// everything below runs in the forked child; lines "V\tkey\twhat" and "O\toutcome" go to the parent
static int child_fit(int wfd, const FitCase& fc)
{
  struct rlimit rl; rl.rlim_cur = 600; rl.rlim_max = 610; setrlimit(RLIMIT_CPU, &rl);  // CPU seconds: independent of the machine load
  std::string outbuf;
  auto V = [&](const std::string& key, const std::string& what) { outbuf += "V\t" + key + "\t" + what + "\n"; };
  auto O = [&](const std::string& o) { outbuf += "O\t" + o + "\n"; };
  defineDefaultSpace(ESpaceType::RN, 2);
  std::unique_ptr<Vario> vario(build_vario(fc.vs));
  if (!vario) { O("vario-not-built"); child_write(wfd, outbuf); return 0; }
  int nvar = fc.vs.nvar;
  VectorECov types = struct_set(fc.istruct);
  int ncov0 = (int)types.size();
  std::vector<CItem> items = cons_set(fc.icons, ncov0);
  Constraints cons = (fc.icons == 7) ? Constraints(1.0) : Constraints();
  for (auto& it : items)
  {
    EConsElem el = it.elem == 1 ? EConsElem::RANGE : it.elem == 2 ? EConsElem::ANGLE : it.elem == 3 ? EConsElem::PARAM : EConsElem::SILL;
    EConsType ty = it.type == -1 ? EConsType::LOWER : it.type == 1 ? EConsType::UPPER : EConsType::EQUAL;
    cons.addItemFromParamId(el, it.icov, it.iv1, it.iv2, ty, it.value);
  }
  Option_VarioFit optvar = opt_set(fc.iopt);
  Option_AutoFit mauto;
  mauto.setWmode(fc.wmode);
  mauto.setMaxiter(getenv("C17_MAXITER") ? atoi(getenv("C17_MAXITER")) : fc.maxiter);  // (env: debugging aid for replays only)
  std::unique_ptr<Model> model(Model::createFromEnvironment(nvar, 2));
  child_write(wfd, "S\tfit\n");  // progress marker: a crash after this line happened inside fit
  int rc = model->fit(vario.get(), types, cons, optvar, mauto, false);
  child_write(wfd, "S\tchecks\n");
  if (getenv("C17_SHOW")) { std::string t = model->toString(); fprintf(stderr, "rc=%d\n%s\n", rc, t.c_str()); }
  if (rc != 0) { O("fit-reports-failure"); child_write(wfd, outbuf); return 0; }
  std::string sk = STRUCT_NAMES[fc.istruct];
  int ncov = model->getCovaNumber();
  O("fit-ok:ncov=" + std::to_string(ncov) + "/" + std::to_string(ncov0));
  if (ncov == 0) { V("model:no-structure-left", "fit returns 0 with an empty model"); child_write(wfd, outbuf); return 0; }
  if (model->getVariableNumber() != nvar) V("model:nvar", "fitted model has " + std::to_string(model->getVariableNumber()) + " variables for " + std::to_string(nvar));
  // map requested structure index -> structure of the result (types are unique in each set except SPH+SPH where order is kept)
  std::vector<int> where(ncov0, -1);
  {
    std::vector<bool> used(ncov, false);
    for (int i0 = 0; i0 < ncov0; i0++)
      for (int i = 0; i < ncov; i++)
        if (!used[i] && model->getCova(i)->getType() == types[i0]) { where[i0] = i; used[i] = true; break; }
    for (int i = 0; i < ncov; i++) if (!used[i]) V("model:unrequested-structure", "structure " + std::string(model->getCova(i)->getType().getKey()) + " was not requested");
  }
  double gmax = 0;
  for (int idir = 0; idir < vario->getDirectionNumber(); idir++)
    for (int ip = 0; ip < vario->getLagNumber(idir); ip++)
      for (int a = 0; a < nvar; a++) { double g = vario->getGg(idir, a, a, ip, false, false); if (!FFFF(g)) gmax = std::max(gmax, std::fabs(g)); }
  double total_trace = 0;
  bool numbers_ok = true;
  std::vector<VectorDouble> angles_of;
  for (int ic = 0; ic < ncov; ic++)
  {
    const CovAniso* cova = model->getCova(ic);
    std::string cname = std::string(cova->getType().getKey());
    // sills
    Eigen::MatrixXd S(nvar, nvar);
    bool fin = true;
    for (int a = 0; a < nvar; a++) for (int b = 0; b < nvar; b++) { S(a, b) = cova->getSill(a, b); if (!std::isfinite(S(a, b)) || FFFF(S(a, b))) fin = false; }
    if (!fin)
    {
      std::string m = "[";
      for (int a = 0; a < nvar; a++) for (int b = 0; b < nvar; b++) m += (a + b ? "," : "") + (FFFF(S(a, b)) ? std::string("NA") : fmt(S(a, b)));
      V(std::string("sill:undefined:") + (fc.icons == 7 ? "constant-sill-constraint" : "other") + ":nvar=" + std::to_string(nvar), "sill matrix " + m + "] of structure " + std::to_string(ic) + " (" + cname + ") has a non finite / undefined entry");
      numbers_ok = false; continue;
    }
    double asym = (S - S.transpose()).cwiseAbs().maxCoeff();
    Eigen::SelfAdjointEigenSolver<Eigen::MatrixXd> es(0.5 * (S + S.transpose()));
    double emin = es.eigenvalues().minCoeff(), tr = S.trace();
    double sscale = std::max({std::fabs(tr), S.cwiseAbs().maxCoeff(), 1e-300});
    if (asym > 1e-10 * sscale) V("sill:not-symmetric:" + cname, "sill matrix asymmetric by " + fmt(asym));
    if (!(emin >= -1e-8 * sscale))
    {
      std::string m = "[";
      for (int a = 0; a < nvar; a++) for (int b = 0; b < nvar; b++) m += (a + b ? "," : "") + fmt(S(a, b));
      V("sill:not-psd:" + cname + ":nvar=" + std::to_string(nvar), "sill matrix " + m + "] of structure " + std::to_string(ic) + " (" + cname + ") has eigenvalue " + fmt(emin));
    }
    total_trace += std::max(tr, 0.);
    // ranges
    if (cova->hasRange() > 0)
    {
      VectorDouble r = cova->getRanges();
      for (size_t d = 0; d < r.size(); d++)
        if (!(r[d] > 0) || !std::isfinite(r[d]) || FFFF(r[d])) { V("range:not-positive:" + cname, "range[" + std::to_string(d) + "] = " + fmt(r[d]) + " in structure " + std::to_string(ic)); numbers_ok = false; }
    }
    VectorDouble an = cova->getAnisoAngles();
    for (double a : an) if (!std::isfinite(a) || FFFF(a)) { V("angle:not-finite:" + cname, "rotation angle " + fmt(a)); numbers_ok = false; }
    angles_of.push_back(an);
    if (cova->hasParam())
    {
      double p = cova->getParam(), pm = cova->getParMax();
      if (!std::isfinite(p) || FFFF(p) || p < 0 || (pm > 0 && p > pm * (1 + 1e-9))) V("param:out-of-bounds:" + cname, "third parameter " + fmt(p) + " outside [0," + fmt(pm) + "]");
      if (p == 0 && (cova->getType() == ECov::MATERN)) V("param:out-of-bounds:" + cname, "third parameter is 0");
    }
    // options (2-D): isotropy / rotation
    if (cova->hasRange() > 0 && cova->getRanges().size() >= 2)
    {
      VectorDouble r = cova->getRanges();
      bool iso = std::fabs(r[0] - r[1]) <= 1e-9 * std::max(r[0], r[1]);
      if (fc.iopt == 1 || fc.iopt == 2 || fc.iopt == 4) O(std::string("option-judged:") + OPT_NAMES[fc.iopt]);
      if ((fc.iopt == 1 || fc.iopt == 4) && !iso) V(std::string("option:") + OPT_NAMES[fc.iopt] + ":anisotropic-result", "ranges " + vstr(r) + " in structure " + cname);
      bool rot0 = true;
      for (double a : an) if (std::fabs(a) > 1e-9) rot0 = false;
      // the variograms of the menus have their first direction along x: a locked rotation is the zero rotation
      if (fc.iopt == 2 && !rot0) V("option:auth_rotation=0:rotated-result", "angles " + vstr(an) + " in structure " + cname);
      if (!iso) O("anisotropic-structure");
      if (!rot0) O("rotated-structure");
    }
  }
  if (fc.iopt == 3)
  {  // shared rotation among the structures which have one
    VectorDouble ref; bool have = false;
    for (int ic = 0; ic < ncov; ic++)
    {
      const CovAniso* cova = model->getCova(ic);
      if (cova->hasRange() == 0 || cova->isIsotropic()) continue;  // (range-less structures, hasRange() == -1, own a rotation too)
      if (!have) { ref = angles_of[ic]; have = true; continue; }
      O("option-judged:lock_samerot");
      for (size_t d = 0; d < ref.size(); d++)
        if (std::fabs(ref[d] - angles_of[ic][d]) > 1e-6) { V("option:lock_samerot:different-rotations", "angles " + vstr(ref) + " vs " + vstr(angles_of[ic])); break; }
    }
  }
  // user constraints
  for (auto& it : items)
  {
    int ic = where[it.icov];
    if (ic < 0) { O("constraint-on-pruned-structure-excluded"); continue; }
    const CovAniso* cova = model->getCova(ic);
    double val = NAN; bool applicable = true;
    if (it.elem == 1) { if (cova->hasRange() > 0) val = cova->getRange(it.iv1); else applicable = false; }
    if (it.elem == 2)
    {  // a rotation angle only means something for a structure that is anisotropic (ranges different beyond round-off)
      bool aniso = false;
      if (cova->hasRange() > 0) { VectorDouble r = cova->getRanges(); for (size_t d = 1; d < r.size(); d++) if (std::fabs(r[d] - r[0]) > 1e-6 * std::max(r[d], r[0])) aniso = true; }
      if (aniso) val = cova->getAnisoAngles(it.iv1); else applicable = false;
    }
    if (it.elem == 3) { if (cova->hasParam()) val = cova->getParam(); else applicable = false; }
    if (it.elem == 4) val = cova->getSill(it.iv1, it.iv2);
    if (!applicable) { O("constraint-not-applicable-excluded"); continue; }
    double tol = 1e-6 * std::max(1., std::fabs(it.value));
    bool ok = it.type == -1 ? val >= it.value - tol : it.type == 1 ? val <= it.value + tol : std::fabs(val - it.value) <= tol;
    O(std::string("constraint-judged:") + CONS_NAMES[fc.icons]);
    if (!ok)
    {
      std::string txt = std::string(it.elem == 1 ? "range" : it.elem == 2 ? "angle" : it.elem == 3 ? "param" : "sill") + " of structure " + std::string(cova->getType().getKey()) + " = " + fmt(val) +
                        " violates " + (it.type == -1 ? ">= " : it.type == 1 ? "<= " : "== ") + fmt(it.value) + " (structures kept " + std::to_string(ncov) + "/" + std::to_string(ncov0) + ")";
      std::string key;
      int ndirs = vario->getDirectionNumber();
      // no ANGLE parameter exists when auth_rotation is off: switched off internally (ndir <= ndim) or by the user's own option
      if (it.elem == 2 && (ndirs <= 2 || fc.iopt == 2)) key = "constraint:angle-ignored-when-rotation-is-not-inferred";
      else if (it.elem == 2 && fc.iopt == 3 && ncov0 > 1) key = "constraint:angle-ignored-with-lock_samerot";  // the shared rotation is a parameter of the first rotated structure only
      else if (it.elem == 4 && fc.iopt == 6) key = "constraint:sill-bound-applied-to-its-square-root-when-goulard-off";  // value used as a bound on the AIC coefficient
      else if (ncov < ncov0) key = std::string("constraint:violated-after-structure-reduction:") + (it.elem == 1 ? "range" : it.elem == 2 ? "angle" : it.elem == 3 ? "param" : "sill");
      else if (fc.maxiter == 1) key = std::string("constraint:violated-when-not-converged:") + (it.elem == 1 ? "range" : it.elem == 2 ? "angle" : it.elem == 3 ? "param" : "sill");
      else key = std::string("constraint:violated:") + CONS_NAMES[fc.icons] + ":" + (fc.iopt == 6 ? "foxleg" : "goulard");
      V(key, txt);
    }
  }
  if (fc.icons == 7 && numbers_ok)
  {  // constant total sill
    for (int a = 0; a < nvar; a++)
    {
      double tot = 0; for (int ic = 0; ic < ncov; ic++) tot += model->getCova(ic)->getSill(a, a);
      O("constraint-judged:constantSill");
      // The total sill is enforced by an iterative algorithm (Goulard under constraint, stopped on a relative score decrease of tolred=1e-6):
      // deviations up to 1e-4 (observed: 2e-6, 1e-5) are its convergence tolerance, counted below; beyond that the equality is not met.
      if (std::fabs(tot - 1.) > 1e-4)
        V(ncov < ncov0 ? "constraint:constant-sill-lost-by-structure-reduction" : "constraint:violated:constantSill=1",
          "total sill of variable " + std::to_string(a) + " = " + fmt(tot) + " (structures kept " + std::to_string(ncov) + "/" + std::to_string(ncov0) + ")");
      O(std::fabs(tot - 1.) <= 1e-12 ? "constant-sill-exact" : std::fabs(tot - 1.) <= 1e-6 ? "constant-sill-within-1e-6" : std::fabs(tot - 1.) <= 1e-4 ? "constant-sill-within-1e-4" : "constant-sill-off");
    }
  }
  // save / reload / krige
  if (numbers_ok)
  {
    std::stringstream ss;
    bool okw = model->_serialize(ss, false);
    std::unique_ptr<Model> m2(new Model());
    bool okr = okw && m2->_deserialize(ss, false);
    if (!okw || !okr) V("reload:failed:" + sk, std::string("serialize ") + (okw ? "ok" : "failed") + ", deserialize " + (okr ? "ok" : "failed"));
    else
    {
      bool same = m2->getCovaNumber() == ncov && m2->getVariableNumber() == nvar;
      for (int ic = 0; same && ic < ncov; ic++)
      {
        const CovAniso *c1 = model->getCova(ic), *c2 = m2->getCova(ic);
        if (c1->getType() != c2->getType()) same = false;
        for (int a = 0; same && a < nvar; a++) for (int b = 0; b < nvar; b++) if (!close(c1->getSill(a, b), c2->getSill(a, b), 1e-9, 1e-12)) same = false;
        if (same && c1->hasRange() > 0) { VectorDouble r1 = c1->getRanges(), r2 = c2->getRanges(); for (size_t d = 0; d < r1.size(); d++) if (!close(r1[d], r2[d], 1e-9, 1e-12)) same = false; }
      }
      if (!same) V("reload:differs:" + sk, "the reloaded model differs from the fitted one");
      // kriging with the reloaded model
      std::vector<std::vector<double>> X = {{0, 1, 0, 2.5}, {0, 0.5, 2, 1}}, Z(nvar);
      for (int a = 0; a < nvar; a++) Z[a] = {1. + a, 2., 0.5, -1. + a};
      std::unique_ptr<Db> din(make_db_xz(X, Z));
      std::unique_ptr<Db> dout(make_db_xz({{0.5, 1.5, 0.}, {0.5, 1.25, 0.}}, {}));
      std::unique_ptr<NeighUnique> neigh(NeighUnique::create());
      if (total_trace <= 1e-12 * std::max(gmax, 1e-300) || total_trace == 0) O("kriging-skipped-zero-variance-model");
      else
      {
        int kr = kriging(din.get(), dout.get(), m2.get(), neigh.get(), EKrigOpt::POINT, true, true, false);
        if (kr != 0) V("kriging:fails:" + sk, "kriging with the fitted model returns " + std::to_string(kr));
        else
        {
          int nundef = 0;
          for (int ic = 0; ic < dout->getColumnNumber(); ic++)
          {
            std::string nm = dout->getNameByColIdx(ic);
            if (nm.find("Kriging") == std::string::npos) continue;
            for (int ie = 0; ie < dout->getSampleNumber(); ie++)
            {
              double v = dout->getValueByColIdx(ie, ic);
              if (FFFF(v)) { nundef++; continue; }
              if (!std::isfinite(v)) V("kriging:not-finite:" + sk, "kriging output " + nm + " = " + fmt(v));
              if (nm.find("stdev") != std::string::npos && v < 0) V("kriging:negative-stdev:" + sk, "kriging stdev " + fmt(v));
            }
          }
          O(nundef ? "kriging-system-declared-singular" : "kriging-ok");
        }
      }
    }
  }
  child_write(wfd, outbuf);
  return 0;
}

// estimated load (CPU seconds) already dealt to each shard by the parts enumerated so far (same values in every shard: pure function of the menus)
static std::vector<double>& shard_load(int nshards)
{
  static std::vector<double> load;
  if ((int)load.size() != nshards) load.assign(nshards, 0.);
  return load;
}

// one fit in a forked child; its observations come back as lines (see child_fit)
static void run_one_fit(Ctx& C, const FitCase& fc, uint64_t id)
{
    std::string kase = std::to_string(id);
    std::string what0 = fc.vs.desc + " | structures=" + STRUCT_NAMES[fc.istruct] + " constraints=" + CONS_NAMES[fc.icons] + " option=" + OPT_NAMES[fc.iopt] +
                        " wmode=" + std::to_string(fc.wmode) + " maxiter=" + std::to_string(fc.maxiter);
    if (C.verbose) fprintf(stderr, "case %s: %s\n", kase.c_str(), what0.c_str());
    auto cpu_children = []() { struct rusage ru; getrusage(RUSAGE_CHILDREN, &ru); return ru.ru_utime.tv_sec + ru.ru_stime.tv_sec + 1e-6 * (ru.ru_utime.tv_usec + ru.ru_stime.tv_usec); };
    double tp0 = cpu_children();
    ChildResult r = run_child([&](int wfd) { return child_fit(wfd, fc); }, 2400., 0, getenv("C17_SHOW") != nullptr);
    C.eval();
    if (const char* pf = getenv("C17_PROFILE"))
    {  // measurement aid (menu balancing): one line per fit with its CPU time
      double ms = (cpu_children() - tp0) * 1000.;  // CPU time of the child: independent of the machine load
      if (FILE* f = fopen(pf, "a")) { fprintf(f, "%d %d %d %d %d %d %d %d %.1f %llu\n", fc.vs.nvar, fc.vs.kind, fc.vs.vp, fc.istruct, fc.icons, fc.iopt, fc.wmode, fc.maxiter, ms, (unsigned long long)id); fclose(f); }
    }
    std::string stage = "setup";
    bool anyfit = false, failed = false;
    std::stringstream ss(r.data);
    std::string line;
    std::string sk = STRUCT_NAMES[fc.istruct];
    while (std::getline(ss, line))
    {
      if (line.size() < 2) continue;
      if (line[0] == 'S') stage = line.substr(2);
      else if (line[0] == 'O') { std::string o = line.substr(2); C.outcome(o); if (o.rfind("fit-ok", 0) == 0) anyfit = true; if (o == "fit-reports-failure") failed = true; }
      else if (line[0] == 'V')
      {
        size_t t = line.find('\t', 2);
        C.violation(line.substr(2, t - 2), line.substr(t + 1) + " :: " + what0, kase);
      }
    }
    if (!r.clean() || r.code != 0)
    {
      bool cpu = r.kind == ChildResult::SIGNALED && (r.code == SIGXCPU || r.code == SIGKILL);
      if (cpu || r.kind == ChildResult::TIMEOUT)
        C.violation("hang:" + stage + ":" + sk + ":" + (fc.iopt == 6 ? "foxleg" : "goulard"), "no termination within 600 s of CPU time (stage " + stage + "): " + what0, kase);
      else if (r.kind == ChildResult::EXITED && (r.code == 95 || r.code == 94 || r.code == 96) && stage == "fit")
      {
        bool sillcons = fc.icons == 1 || fc.icons == 2 || fc.icons == 6;
        C.violation(std::string("fit:uncaught-exception:") + (fc.vs.nvar > 1 ? std::string("multivariate:") + (sillcons ? "sill-constraint" : fc.iopt == 6 ? "goulard-off" : "other") : "monovariate:" + sk),
                    "a C++ exception escapes Model::fit instead of an error code (child exit " + std::to_string(r.code) + "): " + what0, kase);
      }
      else if (r.kind == ChildResult::SIGNALED && stage == "fit" && fc.iopt == 3)
        C.violation("crash:fit:" + r.describe() + ":lock_samerot", "Model::fit crashes (" + r.describe() + ") with the shared-rotation option: " + what0, kase);
      else
        C.violation("crash:" + stage + ":" + r.describe() + ":" + sk, "the child died (" + r.describe() + ") during " + stage + ": " + what0, kase);
      C.outcome("child:" + r.describe());
      return;
    }
    if (anyfit) C.nontrivial(id);
    (void)failed;
    if (id % 4001 == 0) C.sample("{\"id\":" + std::to_string(id) + ",\"case\":" + jstr(what0) + ",\"result\":" + jstr(r.data.substr(0, 200)) + "}");
}

static void run_fit_part(Ctx& C, int nvar)
{
  auto vm = vario_menu(C.thorough(), nvar);
  // configuration menu: (constraint set, option set) pairs and Option_AutoFit pairs
  std::vector<std::pair<int, int>> co;
  if (C.thorough() && nvar == 1) { for (int c = 0; c < 10; c++) for (int o = 0; o < 8; o++) co.push_back({c, o}); }
  else if (C.thorough())
  {
    for (int o = 0; o < 8; o++) co.push_back({0, o});
    for (int c = 1; c < 10; c++) { co.push_back({c, 0}); if (c != 7) co.push_back({c, 6}); co.push_back({c, 5}); }
  }
  else if (nvar == 1)
  {
    for (int o = 0; o < 8; o++) co.push_back({0, o});
    for (int c = 1; c < 10; c++) co.push_back({c, 0});
    co.push_back({1, 6}); co.push_back({6, 6}); co.push_back({3, 5}); co.push_back({9, 5}); co.push_back({9, 3}); co.push_back({9, 7});
  }
  else { for (int o : {0, 5, 6}) co.push_back({0, o}); for (int c : {1, 2, 6, 7, 3}) co.push_back({c, 0}); }
  std::vector<std::pair<int, int>> am = {{2, 1000}, {0, 1}};
  if (C.thorough()) am = {{2, 1000}, {0, 1}, {1, 1000}, {0, 1000}, {3, 50}};
  if (nvar > 1) am.resize(C.thorough() ? 3 : 1);
  Space sp;
  sp.axis("vario", (int)vm.size()).axis("structures", 10).axis("config", (int)co.size()).axis("autofit", (int)am.size());
  const bool th = C.thorough();

  // ---- cost classes (measured on an idle machine, see mutants/C17/COSTS.txt): everything costs 3-30 ms per fit except
  //   heavyM: a MATERN structure iterated to convergence (Bessel functions in every Gauss-Newton step): 0.3-5 s mono-variate, 8-24 s multivariate
  //   heavyC: constant-total-sill constraint on NUG+EXP+SPH with 2-3 genuine variables: 1-50 s (2 variables), 110-135 s (3 variables)
  // The heavy classes are kept on explicit small sub-menus; every case gets a cost estimate so that the shards can be balanced.
  auto heavyM = [&](const FitCase& fc) {
    if (fc.istruct != 8 || fc.maxiter < 1000) return false;
    if (fc.vs.nvar == 1) return true;
    return fc.icons == 0 || fc.icons == 3 || fc.icons == 7 || fc.icons == 9;  // the sill / param / contradictory sets end quickly with 2+ variables
  };
  auto heavyC = [&](const FitCase& fc) { return fc.vs.nvar > 1 && fc.icons == 7 && fc.istruct == 3 && fc.vs.kind == 0; };
  auto estimate = [&](const FitCase& fc) -> double {
    if (heavyC(fc)) return fc.vs.nvar == 3 ? 130. : fc.vs.vp == 2 ? 25. : fc.vs.vp == 0 ? 20. : 3.;  // (pessimistic: these classes have a large spread)
    if (heavyM(fc))
    {
      if (fc.vs.nvar == 3) return fc.vs.vp == 0 ? 11. : 20.;
      if (fc.vs.nvar == 2) return 8.;
      if (fc.vs.kind == 1) return 2.2;
      return fc.vs.vp == 0 ? 0.35 : fc.vs.vp == 1 ? 1.3 : fc.vs.vp == 2 ? 2.2 : 4.6;
    }
    if (fc.istruct == 3 && fc.maxiter >= 1000)
    {  // NUG+EXP+SPH: a few variograms need seconds (up to 9 s for some bivariate synthetic ones)
      if (fc.vs.nvar > 1) return fc.vs.kind == 2 ? 0.6 : 0.15;
      return fc.vs.kind == 0 && fc.vs.vp == 3 ? 0.7 : 0.05;
    }
    return 0.008;
  };
  auto is_pair = [](const VarioSpec& v, int p0, int p1) { return v.pat[0] == p0 && v.pat[1] == p1; };
  // ---- the menu of the tier: true when the case belongs to it (regular sub-menus, nothing is drawn at random)
  auto accept = [&](const FitCase& fc, const std::vector<int>& idx) -> bool {
    const VarioSpec& v = fc.vs;
    bool dflt = idx[2] == 0;
    int a = idx[3], cfg = idx[2];
    if (heavyC(fc))
    {
      if (!th || a != 0) return false;
      if (v.nvar == 3) return v.pat[0] == 6 && fc.iopt == 0;                                               // 2 fits (one / two directions)
      if (v.vp != 2) return true;                                                                           // 28 fits (0.7-6 s, up to 41 s)
      return (is_pair(v, 0, 1) || is_pair(v, 6, 8) || is_pair(v, 2, 3)) && (fc.iopt == 0 || fc.iopt == 5);  // 6 fits
    }
    if (heavyM(fc))
    {
      if (v.nvar == 1)
      {
        if (!th)
        {
          if (v.kind == 1) return dflt && a == 0 && (v.code % 16) == 5;                                                       // 16 fits
          return v.vp == 0 && a == 0 && (dflt || ((fc.icons == 5 || fc.icons == 3) && fc.iopt == 0 && (v.pat[0] % 2) == 0));  // 8 + 8 fits
        }
        if (v.kind == 1)
          return (dflt && a == 0 && v.empty < 0) || (dflt && (a == 2 || a == 3) && v.empty < 0 && (v.code % 8) == 0) ||
                 (!dflt && a == 0 && v.empty < 0 && (v.code % 64) == (cfg % 64)) ||
                 (fc.icons == 7 && fc.iopt == 0 && a == 0 && v.empty < 0 && (v.code % 16) == 0);  // constant total sill: 16 more codes
        return a == 0 && (dflt || (v.pat[0] == 0 && v.vp != 3) || (v.pat[0] == 6 && v.vp == 2 && fc.iopt == 0));
      }
      if (v.nvar == 2)
      {
        if (!th) return v.kind == 2 && dflt && (v.code == 40 || v.code == 0);  // 2 fits
        if (v.kind == 2) return a == 0 && (v.code % 9) == 0 && (fc.icons == 0 || fc.iopt == 0);
        return a == 0 && fc.icons == 0 && (fc.iopt == 0 || fc.iopt == 5) && v.vp != 1 && (is_pair(v, 0, 1) || is_pair(v, 6, 8));
      }
      // three variables (11 s with one direction, 20 s with two)
      if (!th) return false;
      return a == 0 && (v.pat[0] == 6 || v.pat[0] == 0) && ((fc.icons == 0 && (fc.iopt == 0 || fc.iopt == 5)) || ((fc.icons == 3 || fc.icons == 9) && fc.iopt == 0));
    }
    // ---- the cheap bulk: every variogram meets every structure set with the default configuration and the first Option_AutoFit pair;
    // the other configurations are taken on regular sub-menus of the synthetic variograms and on the genuine ones
    if (v.kind == 1)
    {
      if (!th && fc.icons == 5 && fc.istruct == 9 && fc.iopt == 0 && a == 0) return true;  // param<=1 is only judged on structures with a third parameter
      int stride = th ? 4 : (fc.iopt == 0 ? (fc.icons == 4 ? 4 : 8) : 32);  // (range>=3 is rarely applicable: denser sub-menu)
      if (!dflt && (v.code % stride) != (cfg % stride)) return false;
      if (!dflt && a != 0) return false;
      if (!th && a != 0 && (v.code % 4) != 0) return false;
      if (v.empty >= 0 && a >= 2) return false;
      return true;
    }
    if (v.kind == 2)
    {
      int stride = th ? 4 : 9;
      if (!dflt && (v.code % stride) != (cfg % stride)) return false;
      return a == 0;
    }
    if (!th && !dflt)
    {
      if (a != 0) return false;
      bool anglecase = fc.icons == 9 && v.vp == 3;  // a rotation constraint is only judged when the rotation is inferred (4 directions)
      bool samerot = fc.icons == 0 && fc.iopt == 3 && v.vp >= 2 && (fc.istruct == 3 || fc.istruct == 7);  // shared rotation needs two rotated structures
      if (!anglecase && !samerot && (v.pat[0] % 4) != 0) return false;
    }
    if (!th && nvar == 2 && v.vp == 1) return false;
    if (th && a >= 2 && !dflt) return false;
    return true;
  };

  // ---- enumeration: the accepted cases are dealt to the shards by decreasing estimated cost (longest first, each to the least loaded
  // shard): the assignment is a pure function of the menu, identical in every shard, and every shard starts with its expensive cases
  struct Acc { uint64_t id; double est; };
  std::vector<Acc> mine;
  auto make_case = [&](const std::vector<int>& idx) { return FitCase{vm[idx[0]], idx[1], co[idx[2]].first, co[idx[2]].second, am[idx[3]].first, am[idx[3]].second}; };
  if (!C.only_case.empty())
  {
    uint64_t id = strtoull(C.only_case.c_str(), nullptr, 10);
    if (id < sp.size()) mine.push_back({id, 0.});
    C.ps().space += 1;
  }
  else
  {
    std::vector<Acc> all;
    uint64_t nheavy = 0;
    for (uint64_t id = 0; id < sp.size(); id++)
    {
      std::vector<int> idx = sp.decode(id);
      FitCase fc = make_case(idx);
      if (!accept(fc, idx)) continue;
      all.push_back({id, estimate(fc)});
      if (heavyM(fc) || heavyC(fc)) nheavy++;
    }
    std::stable_sort(all.begin(), all.end(), [](const Acc& x, const Acc& y) { return x.est > y.est; });
    std::vector<double>& load = shard_load(C.nshards);  // carried over from the previous parts: a shard that got the long fits of one part gets less of the next
    double tot0 = 0; for (double l : load) tot0 += l;
    for (auto& c : all)
    {
      int best = 0;
      for (int k = 1; k < C.nshards; k++) if (load[k] < load[best] - 1e-12) best = k;
      load[best] += c.est;
      if (best == C.shard) mine.push_back(c);
    }
    C.ps().space += all.size();
    if (C.shard == 0)
    {
      double tot = -tot0; for (double l : load) tot += l;
      C.note("menu: " + std::to_string(all.size()) + " fits (" + std::to_string(nheavy) + " of the heavy classes) out of a product of " + std::to_string(sp.size()) +
             "; estimated " + std::to_string((int)tot) + " CPU-s = " + std::to_string((int)(tot / C.nshards)) + " s per shard");
    }
  }
  if (getenv("C17_MENU_ONLY")) { for (auto& n : C.notes) fprintf(stderr, "%s\n", n.c_str()); return; }  // (sizing aid)
  for (auto& mc : mine)
  {
    if (C.only_case.empty() && C.expired()) break;
    std::vector<int> idx = sp.decode(mc.id);
    FitCase fc = make_case(idx);
    C.cur_case = std::to_string(mc.id);
    run_one_fit(C, fc, mc.id);
  }
}

// ================================================================================================
// part constraint_routes: every way of DECLARING a constraint x every constrained element x component index x kind of bound, on exact
// variograms of a known anisotropic model whose unconstrained optimum violates the bound (the constraint is active).
//   routes: 0 Constraints::addItemFromParamId ; 1 ConsItem::define + addItem ; 2 ConsItem::createFromParamId + addItem
//   oracle: fit reports failure OR the constraint holds on the returned model; the three routes return the same model (bitwise).
struct RouteCase { int dimcase, istruct, elem, iv1, type; };  // elem 1 range 2 angle 3 param 4 sill ; type -1 lower 1 upper 2 equal
static const char* DIMCASE_NAMES[4] = {"2D-2dirs", "2D-4dirs-rotated", "3D-3dirs", "3D-9dirs-rotated"};
static const char* RSTRUCT_NAMES[3] = {"SPH", "NUG+SPH", "STABLE"};

static Vario* exact_vario(int dimcase, int istruct, VectorDouble& true_ranges, VectorDouble& true_angles)
{
  int ndim = dimcase < 2 ? 2 : 3;
  true_ranges = ndim == 2 ? VectorDouble{4., 2.} : VectorDouble{4., 2., 1.};
  true_angles = ndim == 2 ? VectorDouble{dimcase == 1 ? 30. : 0., 0.} : (dimcase == 3 ? VectorDouble{30., 20., 10.} : VectorDouble{0., 0., 0.});
  // the true model
  double sill_main = istruct == 1 ? 0.8 : 1.;
  std::unique_ptr<Model> truth(Model::createFromParam(istruct == 2 ? ECov::STABLE : ECov::SPHERICAL, 4., sill_main, 1.5, true_ranges, VectorDouble(), true_angles, nullptr, true));
  if (!truth) return nullptr;
  if (istruct == 1) truth->addCovFromParam(ECov::NUGGET, 0., 0.2);
  // directions
  VarioParam vp;
  const int npas = 10; const double dpas = 0.5;
  std::vector<VectorDouble> codirs;
  if (ndim == 2)
  {
    std::vector<double> angs = dimcase == 0 ? std::vector<double>{0., 90.} : std::vector<double>{0., 45., 90., 135.};
    for (double a : angs) codirs.push_back({std::cos(a * M_PI / 180.), std::sin(a * M_PI / 180.)});
  }
  else
  {
    codirs = {{1, 0, 0}, {0, 1, 0}, {0, 0, 1}};
    if (dimcase == 3) for (auto c : std::vector<VectorDouble>{{1, 1, 0}, {1, 0, 1}, {0, 1, 1}, {1, -1, 0}, {1, 0, -1}, {0, 1, -1}}) codirs.push_back(c);
  }
  for (auto& c : codirs)
  {
    double n = 0; for (double v : c) n += v * v; n = std::sqrt(n);
    for (double& v : c) v /= n;
    vp.addDir(DirParam(npas, dpas, 0.5, 10., 0, 0, TEST, TEST, 0., VectorDouble(), c));
  }
  // a small lattice Db only gives the Vario its internal dimensions; every lag is then overwritten with the exact value of the true model
  std::vector<std::vector<double>> X(ndim), Z(1);
  for (int k = 0; k < (ndim == 3 ? 3 : 1); k++) for (int j = 0; j < 3; j++) for (int i = 0; i < 3; i++)
  { X[0].push_back(i); X[1].push_back(j); if (ndim == 3) X[2].push_back(k); Z[0].push_back((double)((i * 7 + j * 3 + k * 5) % 5)); }
  std::unique_ptr<Db> db(make_db_xz(X, Z));
  Vario* vario = Vario::computeFromDb(vp, db.get());
  if (vario == nullptr) return nullptr;
  SpacePoint p0(VectorDouble(ndim, 0.));
  double c0 = truth->eval(p0, p0, 0, 0);
  for (int idir = 0; idir < vario->getDirectionNumber(); idir++)
  {
    VectorDouble cd = vario->getCodirs(idir);
    for (int ip = 0; ip < vario->getLagNumber(idir); ip++)
    {
      double h = (ip + 1) * dpas;
      VectorDouble x(ndim); for (int d = 0; d < ndim; d++) x[d] = h * cd[d];
      SpacePoint p1(x);
      vario->setHh(idir, 0, 0, ip, h);
      vario->setSw(idir, 0, 0, ip, 10.);
      vario->setGg(idir, 0, 0, ip, c0 - truth->eval(p0, p1, 0, 0));
    }
  }
  vario->setVar(c0, 0, 0);
  return vario;
}

static int child_routes(int wfd, const RouteCase& rc)
{
  struct rlimit rl; rl.rlim_cur = 600; rl.rlim_max = 610; setrlimit(RLIMIT_CPU, &rl);
  std::string outbuf;
  auto V = [&](const std::string& key, const std::string& what) { outbuf += "V\t" + key + "\t" + what + "\n"; };
  auto O = [&](const std::string& o) { outbuf += "O\t" + o + "\n"; };
  int ndim = rc.dimcase < 2 ? 2 : 3;
  defineDefaultSpace(ESpaceType::RN, ndim);
  VectorDouble tr, ta;
  std::unique_ptr<Vario> vario(exact_vario(rc.dimcase, rc.istruct, tr, ta));
  if (!vario) { O("vario-not-built"); child_write(wfd, outbuf); return 0; }
  VectorECov types = rc.istruct == 0 ? VectorECov{ECov::SPHERICAL} : rc.istruct == 1 ? VectorECov{ECov::NUGGET, ECov::SPHERICAL} : VectorECov{ECov::STABLE};
  int icov = (int)types.size() - 1;
  ECov target_type = types[icov];
  // the bound: violated by the true (= unconstrained optimal) value
  double truev = rc.elem == 1 ? tr[rc.iv1] : rc.elem == 2 ? ta[rc.iv1] : rc.elem == 3 ? 1.5 : (rc.istruct == 1 ? 0.8 : 1.);
  double bound;
  if (rc.elem == 1) bound = rc.type == -1 ? 1.25 * truev : 0.75 * truev;
  else if (rc.elem == 2) bound = rc.type == 1 ? truev - 10. : truev + 10.;
  else if (rc.elem == 3) bound = rc.type == -1 ? 1.8 : 1.0;
  else bound = rc.type == -1 ? 1.5 * truev : 0.5 * truev;
  EConsElem el = rc.elem == 1 ? EConsElem::RANGE : rc.elem == 2 ? EConsElem::ANGLE : rc.elem == 3 ? EConsElem::PARAM : EConsElem::SILL;
  EConsType ty = rc.type == -1 ? EConsType::LOWER : rc.type == 1 ? EConsType::UPPER : EConsType::EQUAL;
  auto value_of = [&](const Model* m, bool& present) -> double {
    present = false;
    for (int i = 0; i < m->getCovaNumber(); i++)
    {
      const CovAniso* c = m->getCova(i);
      if (c->getType() != target_type) continue;
      present = true;
      if (rc.elem == 1) return c->getRange(rc.iv1);
      if (rc.elem == 2) return c->getAnisoAngles(rc.iv1);
      if (rc.elem == 3) return c->getParam();
      return c->getSill(0, 0);
    }
    return NAN;
  };
  auto holds = [&](double val) -> bool {
    double tol = 1e-6 * std::max(1., std::fabs(bound));
    auto ok1 = [&](double v) { return rc.type == -1 ? v >= bound - tol : rc.type == 1 ? v <= bound + tol : std::fabs(v - bound) <= tol; };
    if (rc.elem != 2) return ok1(val);
    for (int k = -2; k <= 2; k++) if (ok1(val + 180. * k)) return true;  // a rotation angle is defined modulo 180 degrees
    return false;
  };
  auto snapshot = [&](const Model* m) {
    std::string t;
    for (int i = 0; i < m->getCovaNumber(); i++)
    {
      const CovAniso* c = m->getCova(i);
      t += std::string(c->getType().getKey()) + " sill=" + fmt(c->getSill(0, 0));
      if (c->hasRange() > 0) t += " ranges=" + vstr(c->getRanges()) + " angles=" + vstr(c->getAnisoAngles());
      if (c->hasParam()) t += " param=" + fmt(c->getParam());
      t += "; ";
    }
    return t;
  };
  std::string cname = std::string(rc.elem == 1 ? "range" : rc.elem == 2 ? "angle" : rc.elem == 3 ? "param" : "sill") + "[" + std::to_string(rc.iv1) + "]" + (rc.type == -1 ? ">=" : rc.type == 1 ? "<=" : "==") + fmt(bound);
  // unconstrained fit: is the constraint active ?
  bool active = false;
  {
    std::unique_ptr<Model> m0(Model::createFromEnvironment(1, ndim));
    child_write(wfd, "S\tfit\n");
    int r0 = m0->fit(vario.get(), types, Constraints(), Option_VarioFit(), Option_AutoFit(), false);
    bool present = false;
    double v0 = r0 == 0 ? value_of(m0.get(), present) : NAN;
    if (r0 == 0 && present && !holds(v0)) active = true;
    O(active ? "unconstrained-optimum-violates-the-bound" : "constraint-not-active");
    if (getenv("C17_SHOW")) fprintf(stderr, "unconstrained rc=%d : %s\n", r0, snapshot(m0.get()).c_str());
  }
  static const char* RN[3] = {"addItemFromParamId", "define+addItem", "createFromParamId+addItem"};
  std::string snap[3]; int rcs[3];
  for (int route = 0; route < 3; route++)
  {
    Constraints cons;
    if (route == 0) cons.addItemFromParamId(el, icov, rc.iv1, 0, ty, bound);
    else if (route == 1) { ConsItem item = ConsItem::define(el, icov, rc.iv1, 0, ty, bound); cons.addItem(&item); }
    else { std::unique_ptr<ConsItem> item(ConsItem::createFromParamId(icov, el, ty, bound, 0, rc.iv1, 0)); cons.addItem(item.get()); }
    std::unique_ptr<Model> m(Model::createFromEnvironment(1, ndim));
    child_write(wfd, "S\tfit\n");
    rcs[route] = m->fit(vario.get(), types, cons, Option_VarioFit(), Option_AutoFit(), false);
    child_write(wfd, "S\tchecks\n");
    snap[route] = "rc=" + std::to_string(rcs[route]) + " " + (rcs[route] == 0 ? snapshot(m.get()) : std::string());
    if (getenv("C17_SHOW")) fprintf(stderr, "route %s %s: %s\n", RN[route], cname.c_str(), snap[route].c_str());
    if (rcs[route] != 0) { O(std::string("route-") + RN[route] + ":fit-reports-failure"); continue; }
    bool present = false;
    double val = value_of(m.get(), present);
    if (!present) { O(std::string("route-") + RN[route] + ":structure-pruned-excluded"); continue; }
    if (rc.elem == 2)
    {  // an angle only means something for an anisotropic structure
      bool aniso = false;
      for (int i = 0; i < m->getCovaNumber(); i++) if (m->getCova(i)->getType() == target_type) { VectorDouble r = m->getCova(i)->getRanges(); for (size_t d = 1; d < r.size(); d++) if (std::fabs(r[d] - r[0]) > 1e-6 * std::max(r[d], r[0])) aniso = true; }
      if (!aniso) { O(std::string("route-") + RN[route] + ":isotropic-angle-excluded"); continue; }
    }
    O(std::string("route-") + RN[route] + ":judged");
    if (!holds(val))
      V(std::string("constraint-route:") + RN[route] + ":" + (rc.elem == 1 ? "range" : rc.elem == 2 ? "angle" : rc.elem == 3 ? "param" : "sill") + ":iv1=" + std::to_string(rc.iv1) + ":not-applied",
        "constraint " + cname + " declared through " + RN[route] + " is not satisfied: value " + fmt(val) + " ; model " + snap[route]);
  }
  for (int route : {0, 2})
    if (snap[route] != snap[1])
      V(std::string("constraint-route:") + RN[route] + ":differs-from-define+addItem", "the same constraint " + cname + " gives another model: " + snap[route] + " vs " + snap[1]);
  child_write(wfd, outbuf);
  return 0;
}

VF_PART(constraint_routes)
{
  std::vector<RouteCase> menu;
  for (int dc = 0; dc < 4; dc++)
  {
    int ndim = dc < 2 ? 2 : 3;
    std::vector<std::pair<int, int>> elems;  // (elem, iv1)
    for (int k = 0; k < ndim; k++) elems.push_back({1, k});
    if (dc == 1) elems.push_back({2, 0});
    if (dc == 3) for (int k = 0; k < 3; k++) elems.push_back({2, k});
    elems.push_back({4, 0});
    // (3-D, 9 directions, two structures: 3-17 s per case; thorough tier only)
    for (auto& e : elems) for (int ty : {-1, 1, 2}) for (int st = 0; st < 2; st++) { if (dc == 3 && st == 1 && !C.thorough()) continue; menu.push_back({dc, st, e.first, e.second, ty}); }
    for (int ty : {-1, 1, 2}) menu.push_back({dc, 2, 3, 0, ty});
  }
  // dealt to the shards longest-estimated-first (3-D fits with 9 directions, two structures and an angle constraint take up to 17 s for the 4 fits of a case)
  auto est = [](const RouteCase& r) { return r.dimcase == 3 ? (r.istruct == 1 ? (r.elem == 2 ? 15. : 4.) : 1.) : 0.05; };
  std::vector<uint64_t> mine;
  C.ps().space += menu.size();
  if (!C.only_case.empty()) { uint64_t id = strtoull(C.only_case.c_str(), nullptr, 10); if (id < menu.size()) mine.push_back(id); }
  else
  {
    std::vector<uint64_t> ids(menu.size());
    for (size_t i = 0; i < ids.size(); i++) ids[i] = i;
    std::stable_sort(ids.begin(), ids.end(), [&](uint64_t a, uint64_t b) { return est(menu[a]) > est(menu[b]); });
    std::vector<double> load(C.nshards, 0.);
    for (uint64_t id : ids)
    {
      int best = 0;
      for (int k = 1; k < C.nshards; k++) if (load[k] < load[best] - 1e-12) best = k;
      load[best] += est(menu[id]);
      if (best == C.shard) mine.push_back(id);
    }
  }
  auto one = [&](uint64_t id) {
    const RouteCase& rc = menu[id];
    std::string kase = std::to_string(id);
    std::string what0 = std::string(DIMCASE_NAMES[rc.dimcase]) + " structures=" + RSTRUCT_NAMES[rc.istruct] + " elem=" + std::to_string(rc.elem) + " iv1=" + std::to_string(rc.iv1) + " type=" + std::to_string(rc.type);
    if (C.verbose) fprintf(stderr, "case %s: %s\n", kase.c_str(), what0.c_str());
    ChildResult r = run_child([&](int wfd) { return child_routes(wfd, rc); }, 2400., 0, getenv("C17_SHOW") != nullptr);
    C.eval();
    std::string stage = "setup"; bool active = false; int judged = 0;
    std::stringstream ss(r.data); std::string line;
    while (std::getline(ss, line))
    {
      if (line.size() < 2) continue;
      if (line[0] == 'S') stage = line.substr(2);
      else if (line[0] == 'O') { std::string o = line.substr(2); C.outcome(o); if (o == "unconstrained-optimum-violates-the-bound") active = true; if (o.find(":judged") != std::string::npos) judged++; }
      else if (line[0] == 'V') { size_t t = line.find('\t', 2); C.violation(line.substr(2, t - 2), line.substr(t + 1) + " :: " + what0, kase); }
    }
    if (!r.clean() || r.code != 0) { C.violation("constraint-route:crash:" + stage + ":" + r.describe(), "the child died (" + r.describe() + ") during " + stage + ": " + what0, kase); return; }
    if (active && judged > 0) C.nontrivial(id + 1000000007ULL);
    C.outcome(std::string("elem=") + (rc.elem == 1 ? "range" : rc.elem == 2 ? "angle" : rc.elem == 3 ? "param" : "sill") + ",iv1=" + std::to_string(rc.iv1));
    if (id % 17 == 0) C.sample("{\"id\":" + std::to_string(id) + ",\"case\":" + jstr(what0) + ",\"result\":" + jstr(r.data.substr(0, 300)) + "}");
  };
  for (uint64_t id : mine)
  {
    if (C.only_case.empty() && C.expired()) break;
    C.cur_case = std::to_string(id);
    one(id);
  }
}

// ================================================================================================
// part samerot_lists: the shared-rotation lock (Option_VarioFit::setLockSamerot) on structure lists whose FIRST structure has no range of its own
// (LINEAR, POWER, ORDER1_GC: hasRange() == -1, but they own anisotropy ratios and a rotation), on exact multi-direction variograms of a rotated
// anisotropic model (rotation inferred, anisotropy axes different from the first variogram direction).
//   oracle: fit reports failure OR every structure that owns a rotation (hasRange() != 0, anisotropic) has the same angle modulo 180 degrees.
struct SamerotCase { int ilist, itheta, idirs, iopt; };
static const char* SR_LIST_NAMES[9] = {"LINEAR+SPH", "POWER+EXP", "LINEAR+NUG+CUBIC", "NUG+LINEAR+SPH", "ORDER1_GC+SPH", "LINEAR+EXP+SPH", "POWER+SPH+SPH", "SPH+LINEAR(control)", "SPH+EXP(control)"};
static VectorECov sr_list(int k)
{
  switch (k)
  {
    case 0: return {ECov::LINEAR, ECov::SPHERICAL};
    case 1: return {ECov::POWER, ECov::EXPONENTIAL};
    case 2: return {ECov::LINEAR, ECov::NUGGET, ECov::CUBIC};
    case 3: return {ECov::NUGGET, ECov::LINEAR, ECov::SPHERICAL};
    case 4: return {ECov::ORDER1_GC, ECov::SPHERICAL};
    case 5: return {ECov::LINEAR, ECov::EXPONENTIAL, ECov::SPHERICAL};
    case 6: return {ECov::POWER, ECov::SPHERICAL, ECov::SPHERICAL};
    case 7: return {ECov::SPHERICAL, ECov::LINEAR};
    default: return {ECov::SPHERICAL, ECov::EXPONENTIAL};
  }
}
static int child_samerot(int wfd, const SamerotCase& sc)
{
  struct rlimit rl; rl.rlim_cur = 600; rl.rlim_max = 610; setrlimit(RLIMIT_CPU, &rl);
  std::string outbuf;
  auto V = [&](const std::string& key, const std::string& what) { outbuf += "V\t" + key + "\t" + what + "\n"; };
  auto O = [&](const std::string& o) { outbuf += "O\t" + o + "\n"; };
  defineDefaultSpace(ESpaceType::RN, 2);
  const double thetas[3] = {35., 60., 110.};
  double theta = thetas[sc.itheta];
  // truth: anisotropic SPHERICAL + anisotropic LINEAR, both rotated by theta
  std::unique_ptr<Model> truth(Model::createFromParam(ECov::SPHERICAL, 6., 1.5, 1., {6., 2.}, VectorDouble(), {theta, 0.}, nullptr, true));
  if (!truth) { O("truth-not-built"); child_write(wfd, outbuf); return 0; }
  truth->addCovFromParam(ECov::LINEAR, 10., 0.75, 1., {10., 3.}, VectorDouble(), {theta, 0.}, true);
  std::vector<double> angs = sc.idirs == 0 ? std::vector<double>{0., 45., 90., 135.} : std::vector<double>{0., 60., 120.};
  const int npas = 12; const double dpas = 0.5;
  VarioParam vp;
  for (double a : angs) vp.addDir(DirParam(npas, dpas, 0.5, 10., 0, 0, TEST, TEST, 0., VectorDouble(), {std::cos(a * M_PI / 180.), std::sin(a * M_PI / 180.)}));
  std::vector<std::vector<double>> X(2), Z(1);
  for (int j = 0; j < 3; j++) for (int i = 0; i < 3; i++) { X[0].push_back(i); X[1].push_back(j); Z[0].push_back((double)((i * 7 + j * 3) % 5)); }
  std::unique_ptr<Db> db(make_db_xz(X, Z));
  std::unique_ptr<Vario> vario(Vario::computeFromDb(vp, db.get()));
  if (!vario) { O("vario-not-built"); child_write(wfd, outbuf); return 0; }
  SpacePoint p0(VectorDouble(2, 0.));
  double c0 = truth->eval(p0, p0, 0, 0);
  for (int idir = 0; idir < vario->getDirectionNumber(); idir++)
  {
    VectorDouble cd = vario->getCodirs(idir);
    for (int ip = 0; ip < vario->getLagNumber(idir); ip++)
    {
      double h = (ip + 1) * dpas;
      SpacePoint p1(VectorDouble{h * cd[0], h * cd[1]});
      vario->setHh(idir, 0, 0, ip, h); vario->setSw(idir, 0, 0, ip, 10.);
      vario->setGg(idir, 0, 0, ip, c0 - truth->eval(p0, p1, 0, 0));
    }
  }
  vario->setVar(2., 0, 0);
  Option_VarioFit optvar;
  optvar.setLockSamerot(sc.iopt != 2);
  if (sc.iopt == 1) optvar.setFlagNoreduce(true);
  VectorECov types = sr_list(sc.ilist);
  std::unique_ptr<Model> model(Model::createFromEnvironment(1, 2));
  child_write(wfd, "S\tfit\n");
  int rc = model->fit(vario.get(), types, Constraints(), optvar, Option_AutoFit(), false);
  child_write(wfd, "S\tchecks\n");
  if (rc != 0) { O("fit-reports-failure"); child_write(wfd, outbuf); return 0; }
  std::string snap; int nrot = 0; double aref = 0; bool differ = false; int nrangeless_first = 0;
  for (int ic = 0; ic < model->getCovaNumber(); ic++)
  {
    const CovAniso* c = model->getCova(ic);
    snap += std::string(c->getType().getKey()) + " sill=" + fmt(c->getSill(0, 0));
    if (c->hasRange() == 0) { snap += "; "; continue; }
    VectorDouble r = c->getRanges(); VectorDouble an = c->getAnisoAngles();
    snap += " ranges=" + vstr(r) + " angle=" + fmt(an[0]) + "; ";
    for (double v : r) if (!(v > 0) || !std::isfinite(v)) V("samerot-list:range-not-positive", "range " + fmt(v) + " in " + snap);
    bool aniso = std::fabs(r[0] - r[1]) > 1e-6 * std::max(r[0], r[1]);
    if (!aniso) continue;
    if (nrot == 0 && c->hasRange() < 0) nrangeless_first = 1;
    double a = an[0];
    if (nrot == 0) aref = a;
    else { double d = std::fmod(std::fabs(a - aref), 180.); d = std::min(d, 180. - d); if (d > 1e-3) differ = true; }
    nrot++;
  }
  if (getenv("C17_SHOW")) fprintf(stderr, "%s\n", snap.c_str());
  O("structures-owning-a-rotation=" + std::to_string(nrot));
  if (sc.iopt != 2)
  {
    if (nrot >= 2) O(nrangeless_first ? "samerot-judged:first-rotated-structure-is-range-less" : "samerot-judged:first-rotated-structure-has-a-range");
    if (differ) V(std::string("option:lock_samerot:different-rotations:") + (nrangeless_first ? "range-less-structure-first" : "ranged-structure-first"),
                  "lock_samerot requested but the returned structures carry different rotations: " + snap);
  }
  else O(differ ? "free-rotations-differ" : "free-rotations-equal");
  child_write(wfd, outbuf);
  return 0;
}

VF_PART(samerot_lists)
{
  std::vector<SamerotCase> menu;
  for (int l = 0; l < 9; l++) for (int t = 0; t < 3; t++) for (int d = 0; d < 2; d++) for (int o = 0; o < 3; o++)
  {
    if (!C.thorough() && (o == 2 || (d == 1 && t != 0))) continue;  // quick: the lock (with / without reduction), 4 directions x 3 angles + 3 directions x 1 angle
    menu.push_back({l, t, d, o});
  }
  Space sp; sp.axis("case", (int)menu.size());
  for_each_case(C, sp, [&](uint64_t id, const std::vector<int>& idx) {
    const SamerotCase& sc = menu[idx[0]];
    std::string kase = std::to_string(id);
    std::string what0 = std::string("structures=") + SR_LIST_NAMES[sc.ilist] + " theta=" + std::to_string(sc.itheta == 0 ? 35 : sc.itheta == 1 ? 60 : 110) + " directions=" + (sc.idirs == 0 ? "0/45/90/135" : "0/60/120") +
                        " option=" + (sc.iopt == 0 ? "lock_samerot" : sc.iopt == 1 ? "lock_samerot+noreduce" : "free");
    if (C.verbose) fprintf(stderr, "case %s: %s\n", kase.c_str(), what0.c_str());
    ChildResult r = run_child([&](int wfd) { return child_samerot(wfd, sc); }, 2400., 0, getenv("C17_SHOW") != nullptr);
    C.eval();
    std::string stage = "setup"; bool judged = false;
    std::stringstream ss(r.data); std::string line;
    while (std::getline(ss, line))
    {
      if (line.size() < 2) continue;
      if (line[0] == 'S') stage = line.substr(2);
      else if (line[0] == 'O') { std::string o = line.substr(2); C.outcome(o); if (o.rfind("samerot-judged", 0) == 0) judged = true; }
      else if (line[0] == 'V') { size_t t = line.find('\t', 2); C.violation(line.substr(2, t - 2), line.substr(t + 1) + " :: " + what0, kase); }
    }
    if (!r.clean() || r.code != 0) { C.violation("samerot-list:crash:" + stage + ":" + r.describe(), "the child died (" + r.describe() + ") during " + stage + ": " + what0, kase); return; }
    if (judged) C.nontrivial(id + 2000000011ULL);
    if (id % 13 == 0) C.sample("{\"id\":" + std::to_string(id) + ",\"case\":" + jstr(what0) + ",\"result\":" + jstr(r.data.substr(0, 300)) + "}");
  });
}

// the small parts first: under a deadline the truncation falls on the largest menu
VF_PART(fit_trivar) { run_fit_part(C, 3); }
VF_PART(fit_bivar) { run_fit_part(C, 2); }
VF_PART(fit_mono) { run_fit_part(C, 1); }

int main(int argc, char** argv)
{
  return run_main(argc, argv, [](Ctx&) { silence(); });
}
