// C18 — data transforms and their inverses compose to the identity.
// Engine E1: complete enumeration of small data multisets x polynomial orders x variable counts x angle menus.
// Oracles (all independent of the library):
//   * Gauss–Hermite quadrature (nodes/weights computed here in long double by bisection on the orthonormal
//     recurrence, self-tested on the Gaussian moments) for the orthonormality of hermitePolynomials and for the
//     definition E[H_n(y + s U)] of hermiteCondExpElement;  long double recurrence + explicit closed form of He_n.
//   * round trips judged "to the accuracy of the method": for AnamHermite the inverse is a bisection that stops when
//     the bracket is narrower than dz <= |T(1)-T(-1)|/1e5 in z or dy <= 1e-7 in y (read from
//     AnamHermite::rawToTransformValue); both starting value and returned value lie in the final bracket.
//   * PCA/MAF: covariance, rank and conditioning recomputed here in long double.
#include "vf/gst.hpp"

#include "Anamorphosis/AnamEmpirical.hpp"
#include "Anamorphosis/AnamHermite.hpp"
#include "Basic/NamingConvention.hpp"
#include "Geometry/Rotation.hpp"
#include "Matrix/MatrixSquareGeneral.hpp"
#include "Polynomials/Hermite.hpp"
#include "Stats/PCA.hpp"
#include "Variogram/VarioParam.hpp"

#include <algorithm>
#include <map>
#include <iostream>

using namespace vf;
typedef long double LD;

// ------------------------------------------------------------------------------------------------
// independent mathematics
// orthonormal probabilists' Hermite polynomials p_k = He_k/sqrt(k!) ; gstlearn's H_k = (-1)^k p_k
static void refP(LD x, int n, std::vector<LD>& p)  // p[0..n-1]
{
  p.assign(n, 0);
  if (n > 0) p[0] = 1;
  if (n > 1) p[1] = x;
  for (int k = 2; k < n; k++) p[k] = (x * p[k - 1] - sqrtl((LD)(k - 1)) * p[k - 2]) / sqrtl((LD)k);
}
static void refH(LD y, int n, std::vector<LD>& h)
{
  refP(y, n, h);
  for (int k = 1; k < n; k += 2) h[k] = -h[k];
}
// explicit closed form He_n(x) = n! sum_m (-1)^m x^(n-2m) / (m! (n-2m)! 2^m)   (used for n <= 12 only)
static LD closedHe(int n, LD x)
{
  LD s = 0;
  for (int m = 0; 2 * m <= n; m++)
  {
    LD t = 1;
    // n! / (m! (n-2m)! 2^m)
    for (int k = 1; k <= n; k++) t *= k;
    for (int k = 1; k <= m; k++) t /= k;
    for (int k = 1; k <= n - 2 * m; k++) t /= k;
    for (int k = 0; k < m; k++) t /= 2;
    t *= powl(x, (LD)(n - 2 * m));
    s += (m & 1) ? -t : t;
  }
  return s;
}
struct GaussHermite
{
  int n = 0;
  std::vector<LD> x, w;
  bool ok = false;
  void build(int nn)
  {
    n = nn;
    x.clear(); w.clear();
    auto pn = [&](LD t) { std::vector<LD> p; refP(t, n + 1, p); return p[n]; };
    LD lim = sqrtl(4.L * n + 2.L) + 1.L;
    LD step = 1.L / 128.L;
    LD a = -lim, fa = pn(a);
    for (LD b = a + step; b <= lim + step; b += step)
    {
      LD fb = pn(b);
      if (fa == 0) { x.push_back(a); }
      else if ((fa < 0) != (fb < 0) && fb != 0)
      {
        LD lo = a, hi = b, flo = fa;
        for (int it = 0; it < 200; it++)
        {
          LD mid = (lo + hi) / 2;
          if (mid == lo || mid == hi) break;
          LD fm = pn(mid);
          if ((fm < 0) == (flo < 0)) { lo = mid; flo = fm; } else hi = mid;
        }
        x.push_back((lo + hi) / 2);
      }
      a = b; fa = fb;
    }
    if ((int)x.size() != n) return;
    for (int i = 0; i < n; i++)
    {
      std::vector<LD> p; refP(x[i], n, p);
      LD s = 0;
      for (int k = 0; k < n; k++) s += p[k] * p[k];
      w.push_back(1 / s);
    }
    // self test on the Gaussian moments 1, 0, 1, 0, 3, 0, 15 and on a high even moment (2n-2)!! is too big; use E[x^8]=105
    LD m[9] = {0};
    for (int i = 0; i < n; i++) { LD t = w[i]; for (int k = 0; k <= 8; k++) { m[k] += t; t *= x[i]; } }
    LD ex[9] = {1, 0, 1, 0, 3, 0, 15, 0, 105};
    ok = true;
    for (int k = 0; k <= 8; k++) if (fabsl(m[k] - ex[k]) > 1e-15L * (1 + ex[k])) ok = false;
  }
};
static GaussHermite& GH64() { static GaussHermite g; if (!g.n) g.build(64); return g; }

static LD Phi(LD x) { return 0.5L * erfcl(-x / sqrtl(2.L)); }
static LD phi(LD x) { return expl(-x * x / 2) / sqrtl(2 * acosl(-1.L)); }

static bool broken(Ctx& C, const std::string& what)
{
  C.violation("selftest:" + what, "harness self test failed: " + what, "");
  return true;
}

// ------------------------------------------------------------------------------------------------
// data menus
static const double ALPHA[5] = {0, 1, 2, 5, 100};
// all multisets (non decreasing sequences) of size k over an alphabet of q symbols
static void multisets(int q, int k, std::vector<std::vector<int>>& out)
{
  std::vector<int> cur(k, 0);
  std::function<void(int, int)> rec = [&](int pos, int lo) {
    if (pos == k) { out.push_back(cur); return; }
    for (int s = lo; s < q; s++) { cur[pos] = s; rec(pos + 1, s); }
  };
  rec(0, 0);
}
static LD quantile(LD p)
{
  LD lo = -12, hi = 12;
  for (int it = 0; it < 200; it++) { LD mid = (lo + hi) / 2; if (Phi(mid) < p) lo = mid; else hi = mid; }
  return (lo + hi) / 2;
}
struct DataSet { VectorDouble z; std::string name; };
static const std::vector<DataSet>& dataMenu(bool thorough)
{
  static std::vector<DataSet> menu[2];
  std::vector<DataSet>& M = menu[thorough ? 1 : 0];
  if (!M.empty()) return M;
  for (int k = 3; k <= (thorough ? 7 : 6); k++)
  {
    std::vector<std::vector<int>> ms;
    multisets(5, k, ms);
    for (auto& s : ms)
    {
      DataSet d;
      for (int i : s) d.z.push_back(ALPHA[i]);
      d.name = "ms" + vstr(d.z);
      M.push_back(d);
    }
  }
  // lognormal-like dyadic menus
  M.push_back({{1, 2, 4, 8, 16, 32}, "pow2x6"});
  M.push_back({{0.125, 0.25, 0.5, 1, 2, 4, 8, 16}, "pow2x8"});
  M.push_back({{1, 1, 2, 2, 4, 8, 8, 64}, "pow2ties"});
  M.push_back({{-4, -1, -0.25, 0, 0.25, 1, 4}, "symmetric"});
  M.push_back({{-100, -5, -2, -1, -1, 0}, "negskew"});
  for (int n : {9, 33, 129, 513})
    for (double sig : {0.5, 1., 2.})
    {
      if (!thorough && (n == 513 || (n == 129 && sig != 1.))) continue;
      DataSet d;
      for (int i = 0; i < n; i++) d.z.push_back((double)exp2l((LD)sig * quantile(((LD)i + 0.5L) / n)));
      d.name = "logn" + std::to_string(n) + "s" + fmt(sig);
      M.push_back(d);
    }
  return M;
}
static bool isConstant(const VectorDouble& z)
{
  bool first = true; double v0 = 0;
  for (double v : z) { if (FFFF(v)) continue; if (first) { v0 = v; first = false; } else if (v != v0) return false; }
  return true;
}

// parts that walk several product spaces: the case string is "<family>/<id>"; in replay mode only that family is entered
template<class F> static void for_each_case_fam(Ctx& C, int fam, const Space& sp, F f)
{
  if (C.only_case.empty()) { for_each_case(C, sp, f); return; }
  size_t p = C.only_case.find('/');
  if (p == std::string::npos || atoi(C.only_case.substr(0, p).c_str()) != fam) return;
  std::string saved = C.only_case;
  C.only_case = saved.substr(p + 1);
  for_each_case(C, sp, f);
  C.only_case = saved;
}

// ================================================================================================
// PART 1: orthonormality of the library's Hermite polynomials for ALL pairs, by exact quadrature
VF_PART(hermite_ortho)
{
  if (!owns_part(C)) return;
  GaussHermite& G = GH64();
  if (!G.ok) { broken(C, "gauss-hermite-64"); return; }
  // integrand degree i+j must be <= 2*64-1 = 127 : i,j <= 63
  int N = C.thorough() ? 64 : 41;
  std::vector<VectorDouble> hv(G.n);
  double maxdev = 0;
  for (int k = 0; k < G.n; k++)
  {
    double xd = (double)G.x[k];
    hv[k] = hermitePolynomials(xd, 1., N);
    // pointwise value against the long double recurrence at the same (double) abscissa
    std::vector<LD> ref; refH((LD)xd, N, ref);
    for (int i = 0; i < N; i++)
    {
      C.eval();
      double dev = (double)(fabsl((LD)hv[k][i] - ref[i]) / std::max<LD>(1, fabsl(ref[i])));
      maxdev = std::max(maxdev, dev);
      if (dev > 1e-11)
        C.violation("hermite:value", "hermitePolynomials(" + fmt(xd) + ",1," + std::to_string(N) + ")[" + std::to_string(i) + "]=" + fmt(hv[k][i]) + " reference " + fmt((double)ref[i]), std::to_string(k));
    }
  }
  C.note("max relative deviation of hermitePolynomials from the long double recurrence at the 64 nodes: " + fmt(maxdev));
  // quadrature with weights at the double-rounded nodes: the node rounding error (<= 1e-15) changes the sum by < 1e-12
  double worst = 0;
  for (int i = 0; i < N; i++)
    for (int j = 0; j < N; j++)
    {
      LD s = 0;
      for (int k = 0; k < G.n; k++) s += G.w[k] * (LD)hv[k][i] * (LD)hv[k][j];
      LD want = (i == j) ? 1 : 0;
      double dev = (double)fabsl(s - want);
      worst = std::max(worst, dev);
      C.eval();
      C.nontrivial(Hash().i(i).i(j).h);
      C.outcome(i == j ? "diag" : "offdiag");
      if (dev > 1e-9)
        C.violation(i == j ? "hermite:norm" : "hermite:orthogonality", "int H_" + std::to_string(i) + " H_" + std::to_string(j) + " phi = " + fmt((double)s) + " (64-node Gauss-Hermite, exact for degree<=127), expected " + fmt((double)want),
                    std::to_string(i * N + j));
    }
  C.note("worst |int H_i H_j phi - delta_ij| over all i,j<" + std::to_string(N) + ": " + fmt(worst));
  C.sample("{\"pairs\":" + std::to_string(N * N) + ",\"worst\":" + fmt(worst) + "}");
}

// PART 2: recurrence of hermitePolynomials (with the change of support coefficient r, and the rank-selecting overload)
VF_PART(hermite_recur)
{
  // self test of the reference: recurrence against the explicit closed form for n <= 12
  for (int n = 0; n <= 12; n++)
    for (int k = -16; k <= 16; k++)
    {
      LD x = k / 4.L;
      std::vector<LD> p; refP(x, n + 1, p);
      LD f = 1; for (int q = 2; q <= n; q++) f *= q;
      LD cf = closedHe(n, x) / sqrtl(f);
      if (fabsl(cf - p[n]) > 1e-15L * std::max<LD>(1, fabsl(cf)) * 64) { broken(C, "closed-form-vs-recurrence"); return; }
    }
  static const double RS[] = {1, 0.75, 0.5, 0.25, 0, -0.5, 1.5};
  static const int NB[] = {0, 1, 2, 3, 5, 10, 20, 40, 64};
  Space sp; sp.axis("y", 65).axis("r", 7).axis("nbpoly", 9);
  for_each_case(C, sp, [&](uint64_t id, const std::vector<int>& ix) {
    double y = (ix[0] - 32) / 4.;
    double r = RS[ix[1]];
    int nb = NB[ix[2]];
    VectorDouble h = hermitePolynomials(y, r, nb);
    C.eval();
    if ((int)h.size() != nb) { C.violation("hermite:size", "hermitePolynomials returns " + std::to_string(h.size()) + " values for nbpoly=" + std::to_string(nb), std::to_string(id)); return; }
    std::vector<LD> ref; refH((LD)y, nb, ref);
    LD rk = 1;
    bool bad = false;
    for (int k = 0; k < nb; k++)
    {
      LD want = ref[k] * rk;
      rk *= (LD)r;
      if (fabsl((LD)h[k] - want) > 1e-11L * std::max<LD>(1, fabsl(want)) && !bad)
      {
        bad = true;
        C.violation("hermite:recurrence", "hermitePolynomials(y=" + fmt(y) + ",r=" + fmt(r) + ",n=" + std::to_string(nb) + ")[" + std::to_string(k) + "]=" + fmt(h[k]) + " expected r^k H_k(y)=" + fmt((double)want), std::to_string(id));
      }
      if (k <= 12)
      {
        LD f = 1; for (int q = 2; q <= k; q++) f *= q;
        LD cf = closedHe(k, (LD)y) / sqrtl(f) * ((k & 1) ? -1 : 1) * powl((LD)r, (LD)k);
        if (k == 0) cf = 1;
        if (fabsl((LD)h[k] - cf) > 1e-11L * std::max<LD>(1, fabsl(cf)) && !bad)
        {
          bad = true;
          C.violation("hermite:closed-form", "hermitePolynomials(y=" + fmt(y) + ",r=" + fmt(r) + ")[" + std::to_string(k) + "]=" + fmt(h[k]) + " closed form " + fmt((double)cf), std::to_string(id));
        }
      }
    }
    if (nb >= 3) C.nontrivial(id);
    C.outcome(nb < 3 ? "initial-terms-only" : (r == 1 ? "recurrence" : "recurrence+support"));
    // rank selecting overload
    if (nb >= 6)
    {
      VectorInt ifacs = {nb - 1, 0, 3, 3, 1};
      VectorDouble s = hermitePolynomials(y, r, ifacs);
      bool ok = s.size() == ifacs.size();
      for (int q = 0; ok && q < (int)ifacs.size(); q++) ok = (s[q] == h[ifacs[q]]);
      C.eval();
      if (!ok) C.violation("hermite:ranks", "hermitePolynomials(y,r,ifacs) differs from the selected entries of hermitePolynomials(y,r,n) y=" + fmt(y) + " r=" + fmt(r), std::to_string(id));
    }
    if (id % 997 == 0) C.sample("{\"y\":" + fmt(y) + ",\"r\":" + fmt(r) + ",\"nbpoly\":" + std::to_string(nb) + "}");
  });
}

// PART 3: hermiteCondExpElement(yk, sk, e_n) = E[H_n(yk + sk U)]  (definition, by quadrature)  = r^n H_n(yk / r), r^2 = 1 - sk^2
VF_PART(hermite_condexp)
{
  GaussHermite& G = GH64();
  if (!G.ok) { if (owns_part(C)) broken(C, "gauss-hermite-64"); return; }
  static const double SK[] = {0, 0.25, 0.5, 0.75, 0.875, 1, 1.5};
  int NMAX = 41;
  Space sp; sp.axis("yk", 25).axis("sk", 7).axis("n", NMAX);
  for_each_case(C, sp, [&](uint64_t id, const std::vector<int>& ix) {
    double yk = (ix[0] - 12) / 4.;
    double sk = SK[ix[1]];
    int n = ix[2];
    // phi = unit vector e_n, embedded in a vector of size max(n+1,2) (the routine writes In[1] unconditionally)
    VectorDouble ph(std::max(n + 1, 2), 0.);
    ph[n] = 1.;
    double got = hermiteCondExpElement(yk, sk, ph);
    C.eval();
    LD s = 0, sa = 0;
    for (int k = 0; k < G.n; k++)
    {
      std::vector<LD> h; refH((LD)yk + (LD)sk * G.x[k], n + 1, h);
      s += G.w[k] * h[n];
      sa += G.w[k] * fabsl(h[n]);
    }
    LD tol = 1e-10L * std::max<LD>(1, sa);
    bool bad = false;
    if (fabsl((LD)got - s) > tol)
    {
      bad = true;
      C.violation("condexp:definition", "hermiteCondExpElement(yk=" + fmt(yk) + ",sk=" + fmt(sk) + ",e_" + std::to_string(n) + ")=" + fmt(got) + " but E[H_n(yk+sk U)]=" + fmt((double)s) + " by 64-node quadrature", std::to_string(id));
    }
    if (sk < 1)
    {
      LD r = sqrtl(1 - (LD)sk * sk);
      std::vector<LD> h; refH((LD)yk / r, n + 1, h);
      LD want = powl(r, (LD)n) * h[n];
      if (n == 0) want = 1;
      // self consistency of the two references
      if (fabsl(want - s) > tol) { broken(C, "condexp-references-disagree"); return; }
      if (!bad && fabsl((LD)got - want) > tol)
        C.violation("condexp:closed-form", "hermiteCondExpElement(yk=" + fmt(yk) + ",sk=" + fmt(sk) + ",e_" + std::to_string(n) + ")=" + fmt(got) + " but r^n H_n(yk/r)=" + fmt((double)want), std::to_string(id));
    }
    if (n >= 2) C.nontrivial(id);
    C.outcome(n < 2 ? "initial-terms" : sk == 0 ? "point(sk=0)" : sk < 1 ? "r in (0,1)" : sk == 1 ? "r=0" : "sk>1");
    if (id % 1013 == 0) C.sample("{\"yk\":" + fmt(yk) + ",\"sk\":" + fmt(sk) + ",\"n\":" + std::to_string(n) + ",\"value\":" + fmt(got) + "}");
  });
}

// Parts that re-judge the clauses on a re-used object set KEYPFX ("reuse:<class>:<steps>:"); the generic keys of the judging
// functions are then reported under that prefix, the mechanism keys of the known _defineBounds defects stay as they are.
static std::string KEYPFX;
static bool NO_BOUNDS_MECH = false;   // the object judged is not a point fit: never attribute to the known _defineBounds mechanisms
static int LAST_BOUNDS_CLASS = 0;      // classification of the last object judged by judgeHermite: 0 nested, 1 absolute-inside-practical, 2 ay-by-inverse-search
static std::string MECH_OVERRIDE;   // when set, every generic key of the judging functions is reported under this mechanism key
static std::string KK(const std::string& key)
{
  if (!MECH_OVERRIDE.empty()) return MECH_OVERRIDE;
  if (KEYPFX.empty()) return key;
  size_t p = key.find(':');
  return KEYPFX + (p == std::string::npos ? key : key.substr(p + 1));
}
// ================================================================================================
// PART 4: Hermite anamorphosis round trips
// tolerance of the method, read from AnamHermite::rawToTransformValue:
//   the bisection stops as soon as the bracket [y1,y2] satisfies  z2-z1 <= dzmax = |T(1)-T(-1)|/100000  or  y2-y1 <= 1e-7;
//   the returned y is a linear interpolation inside the bracket, the bracket contains the exact preimage.
static const double DYMAX = 1e-7;
struct HermiteSlope
{
  std::vector<LD> psi;
  LD operator()(LD y) const  // |d/dy sum psi_n H_n(y)| ; H_n' = -sqrt(n) H_{n-1}
  {
    int n = (int)psi.size();
    std::vector<LD> h; refH(y, n, h);
    LD s = 0;
    for (int k = 1; k < n; k++) s -= psi[k] * sqrtl((LD)k) * h[k - 1];
    return fabsl(s);
  }
};
static std::string relbin(double e)
{
  if (e == 0) return "err=0";
  if (e < 1e-12) return "err<1e-12";
  if (e < 1e-9) return "err<1e-9";
  if (e < 1e-6) return "err<1e-6";
  return "err>=1e-6";
}

static void judgeHermite(Ctx& C, AnamHermite* a, const std::string& desc, const std::string& kase, uint64_t sig, const VectorDouble& data)
{
  double aymin = a->getAymin(), aymax = a->getAymax(), azmin = a->getAzmin(), azmax = a->getAzmax();
  double pymin = a->getPymin(), pymax = a->getPymax(), pzmin = a->getPzmin(), pzmax = a->getPzmax();
  for (double v : {aymin, aymax, azmin, azmax, pymin, pymax, pzmin, pzmax})
    if (FFFF(v) || std::isnan(v))
    {
      C.violation(KK("hermite-anam:bounds-undefined"), desc + ": a reported bound is undefined/NaN", kase);
      return;
    }
  std::string bnds = " [reported ay=[" + fmt(aymin) + "," + fmt(aymax) + "] az=[" + fmt(azmin) + "," + fmt(azmax) + "] py=[" + fmt(pymin) + "," + fmt(pymax) + "] pz=[" + fmt(pzmin) + "," + fmt(pzmax) + "]]";
  double zsc0 = std::max({std::fabs(azmin), std::fabs(azmax), std::fabs(pzmin), std::fabs(pzmax)});
  // mechanism classification of the reported bounds (used for the finding keys only)
  bool azInside = azmin > pzmin + 1e-7 * zsc0 || azmax < pzmax - 1e-7 * zsc0;  // "absolute" z-bound strictly inside the "practical" one
  // az.min / az.max are copied by _defineBounds from its 0.1 grid (az = T(g) exactly for a grid point g) and ay is then
  // obtained by rawToTransformValue(az), a search that starts at y=0: it may return ANOTHER preimage than g
  bool ayByInverse = false;
  {
    bool memo = a->getFlagBound();
    a->setFlagBound(false);
    int okLow = -1, okHigh = -1;  // -1: az is not a grid value, 0: grid preimage differs from ay, 1: agrees
    std::vector<double> ym(201); ym[100] = 0;
    for (int i = 99; i >= 0; i--) ym[i] = ym[i + 1] - 0.1;
    for (int i = 101; i < 201; i++) ym[i] = ym[i - 1] + 0.1;
    for (int i = 0; i < 201; i++)
    {
      double t = a->transformToRawValue(ym[i]);
      if (t == azmin) { if (std::fabs(ym[i] - aymin) <= 1e-3) okLow = 1; else if (okLow < 0) okLow = 0; }
      if (t == azmax) { if (std::fabs(ym[i] - aymax) <= 1e-3) okHigh = 1; else if (okHigh < 0) okHigh = 0; }
    }
    a->setFlagBound(memo);
    ayByInverse = (okLow == 0) || (okHigh == 0);
  }
  C.outcome(azInside ? "bounds:absolute-inside-practical" : ayByInverse ? "bounds:ay-is-another-preimage-of-az" : "bounds:nested");
  LAST_BOUNDS_CLASS = azInside ? 1 : ayByInverse ? 2 : 0;
  auto mechKey = [&](const std::string& other) {
    if (NO_BOUNDS_MECH) return KK(other);
    return azInside ? std::string("hermite-anam:bounds:absolute-inside-practical") : ayByInverse ? std::string("hermite-anam:bounds:ay-by-inverse-search") : KK(other);
  };
  double zlo = std::max(azmin, pzmin), zhi = std::min(azmax, pzmax);
  double ylo = std::max(aymin, pymin), yhi = std::min(aymax, pymax);
  bool empty = !(zlo < zhi) || !(ylo < yhi) || !(azmin < azmax) || !(aymin < aymax);
  double zscale = std::max({std::fabs(zlo), std::fabs(zhi), std::fabs(zhi - zlo)});
  double dzmax = std::fabs(a->transformToRawValue(1.) - a->transformToRawValue(-1.)) / 100000.;
  HermiteSlope slope;
  for (double p : a->getPsiHns()) slope.psi.push_back((LD)p);
  const double eps = 1e-9;  // slack for rounding in the library's own interpolation
  int nflat = 0;

  if (empty) { C.skip(); C.outcome("empty-validity-interval(round trips not judged)"); }
  else
  {
    // ---- z -> y -> z on a dyadic ladder of the reported interval + the data values inside it
    std::vector<double> zs;
    for (int k = 0; k <= 64; k++) zs.push_back(zlo + (zhi - zlo) * (k / 64.));
    for (double v : data) if (!FFFF(v) && v >= zlo && v <= zhi) zs.push_back(v);
    for (double z : zs)
    {
      double y = a->rawToTransformValue(z);
      double z2 = a->transformToRawValue(y);
      C.eval();
      double L = (double)std::max({slope((LD)y - DYMAX), slope((LD)y), slope((LD)y + DYMAX)});
      double tol = std::max(dzmax, 2 * L * DYMAX) * (1 + eps) + 1e-12 * zscale;
      double err = std::fabs(z2 - z);
      C.outcome("z-y-z:" + relbin(err / zscale));
      if (FFFF(y) || std::isnan(y) || !(err <= tol))
        C.violation(mechKey("hermite-anam:z-y-z"), desc + ": z=" + fmt(z) + " -> y=" + fmt(y) + " -> z'=" + fmt(z2) + " |z'-z|=" + fmt(err) + " > tolerance of the method " + fmt(tol) + " (dzmax=" + fmt(dzmax) + ")" + bnds, kase);
      else if (y < aymin - 1e-9 || y > aymax + 1e-9)
        C.violation(mechKey("hermite-anam:y-outside"), desc + ": z=" + fmt(z) + " inside the reported interval maps to y=" + fmt(y) + " outside the absolute interval" + bnds, kase);
    }
    // ---- y -> z -> y : both y and y' lie in the final bracket of the bisection, so either |y'-y| <= 1e-7 or
    //      |T(y')-T(y)| <= dzmax with T monotone (hence within dzmax of T(y)) between y and y'
    for (int k = 0; k <= 64; k++)
    {
      double y = ylo + (yhi - ylo) * (k / 64.);
      double z = a->transformToRawValue(y);
      double y2 = a->rawToTransformValue(z);
      double z2 = a->transformToRawValue(y2);
      C.eval();
      double dy = std::fabs(y2 - y), dz = std::fabs(z2 - z);
      bool clipped = (z <= azmin || z >= azmax);  // forward value clamped to the absolute bounds: not invertible there, excluded
      if (clipped) { C.skip(); C.outcome("y-z-y:clamped-excluded"); continue; }
      bool okk = dy <= DYMAX * (1 + eps) + 1e-12 || dz <= dzmax * (1 + eps) + 1e-12 * zscale;
      if (!FFFF(y2) && !std::isnan(y2) && !okk && !azInside && !ayByInverse && dy <= 0.2)
      {
        // the argument "y and y' lie in the final bracket, hence |T(y')-T(y)| <= dz" needs T monotone inside the bracket; a
        // wiggle finer than the 0.1 grid between y and y' (seen on a 16-point ladder) voids it: excluded and counted
        bool wiggle = false; double pv = a->transformToRawValue(std::min(y, y2));
        for (int q = 1; q <= 16; q++) { double tv = a->transformToRawValue(std::min(y, y2) + dy * (q / 16.)); if (tv < pv - 1e-12 * zscale) wiggle = true; pv = tv; }
        if (wiggle) { C.skip(); C.outcome("y-z-y:sub-grid-wiggle-inside-bracket(excluded)"); continue; }
      }
      if (FFFF(y2) || std::isnan(y2) || !okk)
      {
        C.outcome("y-z-y:VIOLATED");
        C.violation(mechKey("hermite-anam:y-z-y"), desc + ": y=" + fmt(y) + " -> z=" + fmt(z) + " -> y'=" + fmt(y2) + " (T(y')=" + fmt(z2) + "): |y'-y|=" + fmt(dy) + " > 1e-7 and |T(y')-T(y)|=" + fmt(dz) + " > dzmax=" + fmt(dzmax) + bnds, kase);
        continue;
      }
      if (dy > DYMAX * (1 + eps) + 1e-12)
      {
        // accepted through the dz clause: T must then be flat (within dzmax) between y and y'; if it is not, the inverse
        // returned another branch of a non-monotone T although y is inside the reported interval
        double worst = 0, yw = y;
        for (int q = 1; q < 8; q++)
        {
          double ym = y + (y2 - y) * (q / 8.);
          double d = std::fabs(a->transformToRawValue(ym) - z);
          if (d > worst) { worst = d; yw = ym; }
        }
        if (worst > 2 * dzmax * (1 + eps) + 1e-12 * zscale && !azInside && !ayByInverse && (dy <= 0.2 || (y - pymin < 0.1 && z < pzmin) || (pymax - y < 0.1 && z > pzmax)))
        {
          // a local extremum of T closer than the 0.1 resolution with which the object locates its practical interval
          // (y' within two grid cells of y, or y in the first/last grid cell of the practical interval with T(y) outside the practical z-interval):
          // the reported bound is only accurate to one grid cell; counted, not judged ("accuracy of the method")
          C.skip();
          C.outcome("y-z-y:sub-grid-extremum-near-bound(excluded)");
          continue;
        }
        if (worst > 2 * dzmax * (1 + eps) + 1e-12 * zscale)
        {
          C.outcome("y-z-y:OTHER-BRANCH");
          C.violation(mechKey("hermite-anam:y-z-y:other-branch"), desc + ": y=" + fmt(y) + " -> z=" + fmt(z) + " -> y'=" + fmt(y2) + " which is another preimage (T(" + fmt(yw) + ") differs from z by " + fmt(worst) + " >> dzmax=" + fmt(dzmax) + "): not the identity inside the reported interval" + bnds, kase);
          continue;
        }
        nflat++;
        C.outcome("y-z-y:flat(dz<=dzmax)");
        continue;
      }
      C.outcome("y-z-y:" + relbin(dy));
    }
    // ---- linear extension zones between the absolute and the practical bounds: exact mutual inverses
    if (!azInside)
    {
      for (int side = 0; side < 2; side++)
      {
        double za = side ? pzmax : azmin, zb = side ? azmax : pzmin;
        double ya = side ? pymax : aymin, yb = side ? aymax : pymin;
        if (!(zb - za > 1e-6 * zscale) || !(yb - ya > 1e-6)) continue;
        for (int k = 1; k < 8; k++)
        {
          double z = za + (zb - za) * (k / 8.);
          double y = a->rawToTransformValue(z);
          double z2 = a->transformToRawValue(y);
          C.eval();
          C.outcome("linear-zone:z-y-z");
          if (!(std::fabs(z2 - z) <= 1e-9 * zscale))
            C.violation(KK("hermite-anam:linear-zone"), desc + ": z=" + fmt(z) + " in the extension zone [" + fmt(za) + "," + fmt(zb) + "] -> y=" + fmt(y) + " -> z'=" + fmt(z2) + bnds, kase);
          double yy = ya + (yb - ya) * (k / 8.);
          double zz = a->transformToRawValue(yy);
          double yy2 = a->rawToTransformValue(zz);
          C.eval();
          if (!(std::fabs(yy2 - yy) <= 1e-9 * std::max(1., std::fabs(yy))))
            C.violation(KK("hermite-anam:linear-zone"), desc + ": y=" + fmt(yy) + " in the extension zone [" + fmt(ya) + "," + fmt(yb) + "] -> z=" + fmt(zz) + " -> y'=" + fmt(yy2) + bnds, kase);
        }
      }
    }
  }
  // ---- monotone non-decreasing forward transform (bounds enforced, as the object is used)
  // (a) on the 0.1 grid the object itself uses to define the practical interval (points inside [pymin,pymax])
  // (b) on the whole axis [-10.5, 10.5] step 1/16 outside (pymin,pymax): constant / linear zones
  // (c) 256-point dyadic ladder inside [pymin,pymax]: a decrease between two 0.1-grid points is finer than what the object
  //     inspects when it defines the interval: counted (sub-grid), not a violation
  {
    double zs2 = std::max(zsc0, 1e-300);
    double prev = -1e300, prevy = 0;
    bool first = true;
    int ndec = 0;
    for (int k = -168; k <= 168; k++)
    {
      double y = k / 16.;
      if (y > pymin && y < pymax) { first = true; continue; }
      double z = a->transformToRawValue(y);
      C.eval();
      if (!first && z < prev - 1e-12 * zs2)
      {
        ndec++;
        if (ndec == 1) C.violation(mechKey("hermite-anam:monotone-outer"), desc + ": T(" + fmt(prevy) + ")=" + fmt(prev) + " > T(" + fmt(y) + ")=" + fmt(z) + " outside the practical interval (constant/linear extension zones)" + bnds, kase);
      }
      prev = z; prevy = y; first = false;
    }
    C.outcome(ndec ? "monotone-outer:DECREASE" : "monotone-outer:ok");
    // (a)
    int ngrid = 0; ndec = 0;
    {
      // the library's grid: ym[100]=0, cumulated +-0.1
      std::vector<double> ym(201); ym[100] = 0;
      for (int i = 99; i >= 0; i--) ym[i] = ym[i + 1] - 0.1;
      for (int i = 101; i < 201; i++) ym[i] = ym[i - 1] + 0.1;
      first = true;
      for (int i = 0; i < 201; i++)
      {
        if (ym[i] < pymin || ym[i] > pymax) continue;
        double z = a->transformToRawValue(ym[i]);
        C.eval(); ngrid++;
        if (!first && z < prev - 1e-12 * zs2)
        {
          ndec++;
          if (ndec == 1) C.violation(mechKey("hermite-anam:monotone-grid"), desc + ": T(" + fmt(prevy) + ")=" + fmt(prev) + " > T(" + fmt(ym[i]) + ")=" + fmt(z) + " on the 0.1 grid inside the practical interval" + bnds, kase);
        }
        prev = z; prevy = ym[i]; first = false;
      }
    }
    C.outcome(ndec ? "monotone-grid:DECREASE" : "monotone-grid:ok");
    // (c)
    int nsub = 0; first = true;
    for (int k = 0; k <= 256; k++)
    {
      double y = pymin + (pymax - pymin) * (k / 256.);
      double z = a->transformToRawValue(y);
      C.eval();
      if (!first && z < prev - 1e-12 * zs2) nsub++;
      prev = z; first = false;
    }
    if (!ndec) C.outcome(nsub ? "monotone-fine:sub-grid-decrease-only(counted)" : "monotone-fine:ok");
    if (ngrid >= 3) C.nontrivial(sig);
  }
  if (nflat) C.outcome("has-flat-zone");
}

static const int NBPOLY[] = {2, 3, 5, 10, 20, 40, 30, 60};  // the last two in thorough only

VF_PART(anam_hermite)
{
  const auto& M = dataMenu(C.thorough());
  // variant: 0 plain, 1 with TEST entries interleaved, 2 weights (dyadic, one zero weight and one TEST weight), 3 flagBound=false (z->y->z only)
  Space sp; sp.axis("data", (int)M.size()).axis("nbpoly", C.thorough() ? 8 : 6).axis("variant", 4);
  for_each_case(C, sp, [&](uint64_t id, const std::vector<int>& ix) {
    const DataSet& D = M[ix[0]];
    int nb = NBPOLY[ix[1]];
    int var = ix[2];
    VectorDouble z = D.z, wt;
    if (var == 1) { z.insert((size_t)1, TEST); z.push_back(TEST); }
    if (var == 2)
    {
      for (size_t i = 0; i < z.size(); i++) wt.push_back((i % 3 == 0) ? 2. : (i % 3 == 1) ? 1. : 0.5);
      // an extra wild sample with zero weight and one with undefined weight must not contribute
      z.push_back(1000.); wt.push_back(0.);
      z.push_back(-1000.); wt.push_back(TEST);
    }
    if (isConstant(D.z)) { C.skip(); C.outcome("constant-data-excluded"); return; }
    std::string desc = "AnamHermite(nbpoly=" + std::to_string(nb) + (var == 3 ? ",flagBound=false" : "") + ") fitted on " + vstr(z) + (wt.empty() ? "" : " wt=" + vstr(wt));
    AnamHermite* a = AnamHermite::create(nb, var != 3);
    int err = a->fitFromArray(z, wt);
    C.eval();
    if (err) { C.violation("hermite-anam:fit-fails", desc + ": fitFromArray returns " + std::to_string(err), std::to_string(id)); delete a; return; }
    if (var == 3)
    {
      // without bounds enforcement only z -> y -> z in the practical interval is claimed
      double zlo = std::max(a->getAzmin(), a->getPzmin()), zhi = std::min(a->getAzmax(), a->getPzmax());
      double zscale = std::max({std::fabs(zlo), std::fabs(zhi), zhi - zlo});
      double dzmax = std::fabs(a->transformToRawValue(1.) - a->transformToRawValue(-1.)) / 100000.;
      HermiteSlope slope; for (double p : a->getPsiHns()) slope.psi.push_back((LD)p);
      for (int k = 0; k <= 32 && zlo < zhi; k++)
      {
        double zz = zlo + (zhi - zlo) * (k / 32.);
        double y = a->rawToTransformValue(zz);
        double z2 = a->transformToRawValue(y);
        C.eval();
        double L = (double)std::max({slope((LD)y - DYMAX), slope((LD)y), slope((LD)y + DYMAX)});
        double tol = std::max(dzmax, 2 * L * DYMAX) * (1 + 1e-9) + 1e-12 * zscale;
        bool out = (y < -10 || y > 10);  // documented escape values ANAM_YMIN-1 / ANAM_YMAX+1
        if (out) { C.skip(); C.outcome("unbounded:search-left-[-10,10](excluded)"); continue; }
        C.outcome("unbounded:z-y-z:" + relbin(std::fabs(z2 - zz) / zscale));
        if (!(std::fabs(z2 - zz) <= tol))
          C.violation("hermite-anam:z-y-z:unbounded", desc + ": z=" + fmt(zz) + " -> y=" + fmt(y) + " -> z'=" + fmt(z2) + " tolerance " + fmt(tol), std::to_string(id));
      }
      C.nontrivial(id);
      delete a;
      return;
    }
    judgeHermite(C, a, desc, std::to_string(id), id, z);
    // variants must describe the same distribution: TEST entries / zero-weight samples do not change the fit
    if (var == 1)
    {
      AnamHermite* b = AnamHermite::create(nb);
      b->fitFromArray(D.z);
      bool same = b->getPsiHns().size() == a->getPsiHns().size();
      for (int k = 0; same && k < nb; k++) same = (a->getPsiHn(k) == b->getPsiHn(k));
      C.eval();
      if (!same) C.violation("hermite-anam:undefined-values-change-fit", desc + ": coefficients differ from the fit without the TEST entries", std::to_string(id));
      delete b;
    }
    // vector interface = scalar interface, TEST -> TEST
    {
      VectorDouble yv = a->rawToGaussianVector(z);
      VectorDouble zv = a->gaussianToRawVector(yv);
      bool ok = yv.size() == z.size() && zv.size() == z.size();
      for (size_t i = 0; ok && i < z.size(); i++)
      {
        if (FFFF(z[i])) ok = FFFF(yv[i]) && FFFF(zv[i]);
        else ok = (yv[i] == a->rawToTransformValue(z[i])) && (zv[i] == a->transformToRawValue(yv[i]));
      }
      C.eval();
      if (!ok) C.violation("hermite-anam:vector-interface", desc + ": rawToGaussianVector/gaussianToRawVector differ from the scalar calls or do not keep TEST", std::to_string(id));
    }
    if (id % 499 == 0)
      C.sample("{\"data\":" + jstr(D.name) + ",\"nbpoly\":" + std::to_string(nb) + ",\"variant\":" + std::to_string(var) + ",\"ay\":[" + fmt(a->getAymin()) + "," + fmt(a->getAymax()) + "],\"az\":[" + fmt(a->getAzmin()) + "," + fmt(a->getAzmax()) +
               "],\"py\":[" + fmt(a->getPymin()) + "," + fmt(a->getPymax()) + "],\"pz\":[" + fmt(a->getPzmin()) + "," + fmt(a->getPzmax()) + "]}");
    delete a;
  });
}

// judges one fitted empirical anamorphosis (the clauses of part anam_empirical); false when the case was excluded or stopped
static bool judgeEmpirical(Ctx& C, AnamEmpirical* a, bool normalScore, const VectorDouble& data, const VectorDouble& z, const std::string& desc, const std::string& kase, int& n, int& nseg, int& nflat)
{
  const VectorDouble& Z = a->getZDisc();
  const VectorDouble& Y = a->getYDisc();
  n = a->getNDisc();
  if (n < 2 || (int)Z.size() != n || (int)Y.size() != n) { C.skip(); C.outcome("table-with-<2-classes"); return false; }
  bool finite = true, sorted = true;
  for (int i = 0; i < n; i++) finite = finite && std::isfinite(Z[i]) && std::isfinite(Y[i]);
  // Y values come from law_invcdf_gaussian, a bisection stopped at 1e-7: the table is sorted up to that accuracy
  const double YTOL = 2e-7;
  for (int i = 1; i < n; i++) sorted = sorted && Z[i - 1] <= Z[i] && Y[i - 1] <= Y[i] + YTOL;
  if (!finite) { C.violation(KK("empirical-anam:table-not-finite"), desc + ": discretization table contains NaN/inf", kase); return false; }
  if (!sorted)
  {
    // mechanism: law_invcdf_gaussian(p) returns (-)0 instead of about -8.2 for 0 < p < 1.1e-16 (it evaluates log(1-(1-p)))
    bool tiny = false; int at = 0;
    for (int i = 1; i < n; i++) if (Y[i - 1] > Y[i] + YTOL) { at = i; tiny = (Y[i - 1] == 0 && Y[i] < -1e-3 && law_invcdf_gaussian(1e-20) == 0); break; }
    C.outcome("table-not-sorted");
    C.violation(KK(tiny ? "empirical-anam:table-not-sorted:invcdf-of-tiny-probability" : "empirical-anam:table-not-sorted"),
                desc + ": discretization table is not non-decreasing: (Z,Y)[" + std::to_string(at - 1) + "]=(" + fmt(Z[at - 1]) + "," + fmt(Y[at - 1]) + ") (Z,Y)[" + std::to_string(at) + "]=(" + fmt(Z[at]) + "," + fmt(Y[at]) + ")", kase);
    return false;
  }
  // reported validity interval = range of the table
  double ymin = 1e300, ymax = -1e300;
  for (int i = 0; i < n; i++) { ymin = std::min(ymin, Y[i]); ymax = std::max(ymax, Y[i]); }
  if (a->getPzmin() != Z[0] || a->getPzmax() != Z[n - 1] || a->getPymin() != ymin || a->getPymax() != ymax)
    C.violation(KK("empirical-anam:bounds"), desc + ": reported practical bounds differ from the table range", kase);
  double zrange = Z[n - 1] - Z[0], zscale = std::max({std::fabs(Z[0]), std::fabs(Z[n - 1]), zrange});
  nseg = 0; nflat = 0;
  for (int i = 0; i + 1 < n; i++)
  {
    double dz = Z[i + 1] - Z[i], dy = Y[i + 1] - Y[i];
    if (!(dz > 1e-9 * zscale) || !(dy > 1e-5)) { nflat++; continue; }
    nseg++;
    // knots are judged only when both adjacent segments are increasing (a knot of a tie group has no inverse)
    bool leftOK = (i == 0) || ((Z[i] - Z[i - 1]) > 1e-9 * zscale && (Y[i] - Y[i - 1]) > 1e-5);
    bool rightOK = (i + 2 >= n) || ((Z[i + 2] - Z[i + 1]) > 1e-9 * zscale && (Y[i + 2] - Y[i + 1]) > 1e-5);
    for (int k = 0; k <= 4; k++)
    {
      if ((k == 0 && !leftOK) || (k == 4 && !rightOK)) { C.skip(); C.outcome("knot-of-a-tie-group-excluded"); continue; }
      double f = k / 4.;
      double zz = Z[i] + dz * f;
      double yy = a->rawToTransformValue(zz);
      double z2 = a->transformToRawValue(yy);
      C.eval();
      // conditioning of the interpolation: relative rounding of yy (1e-16 * |Y|/dy) times dz
      double tolz = 1e-12 * (zscale + dz * std::max(std::fabs(Y[i]), std::fabs(Y[i + 1])) / dy);
      if (!(std::fabs(z2 - zz) <= tolz))
        C.violation(KK("empirical-anam:z-y-z"), desc + ": z=" + fmt(zz) + " (segment " + std::to_string(i) + " Z=[" + fmt(Z[i]) + "," + fmt(Z[i + 1]) + "] Y=[" + fmt(Y[i]) + "," + fmt(Y[i + 1]) + "]) -> y=" + fmt(yy) + " -> z'=" + fmt(z2), kase);
      if (!(yy >= Y[i] - 1e-12 && yy <= Y[i + 1] + 1e-12))
        C.violation(KK("empirical-anam:y-outside-segment"), desc + ": z=" + fmt(zz) + " in segment " + std::to_string(i) + " maps to y=" + fmt(yy) + " outside [" + fmt(Y[i]) + "," + fmt(Y[i + 1]) + "]", kase);
      double y0 = Y[i] + dy * f;
      double z1 = a->transformToRawValue(y0);
      double y2 = a->rawToTransformValue(z1);
      C.eval();
      double toly = 1e-12 * (std::max({1., std::fabs(Y[i]), std::fabs(Y[i + 1])}) + dy * std::max(std::fabs(Z[i]), std::fabs(Z[i + 1])) / dz);
      if (!(std::fabs(y2 - y0) <= toly))
        C.violation(KK("empirical-anam:y-z-y"), desc + ": y=" + fmt(y0) + " (segment " + std::to_string(i) + ") -> z=" + fmt(z1) + " -> y'=" + fmt(y2), kase);
    }
  }
  // monotone (non-decreasing) in both directions over the whole reported interval and beyond (clamped)
  {
    double prev = -1e300; int bad = 0;
    for (int k = -8; k <= 264; k++)
    {
      double zz = Z[0] + zrange * (k / 256.);
      double yy = a->rawToTransformValue(zz);
      C.eval();
      if (yy < prev - YTOL) bad++;
      prev = yy;
    }
    double yr = ymax - ymin;
    prev = -1e300;
    for (int k = -8; k <= 264; k++)
    {
      double yy = ymin + yr * (k / 256.);
      double zz = a->transformToRawValue(yy);
      C.eval();
      if (zz < prev - 1e-12 * zscale) bad++;
      prev = zz;
    }
    if (bad) C.violation(KK("empirical-anam:monotone"), desc + ": " + std::to_string(bad) + " decreasing steps on the 256-point ladders of the reported interval", kase);
  }
  // data values themselves (normal score mode: every datum is a knot): z -> y -> z exactly
  if (normalScore)
    for (double v : data)
    {
      double yy = a->rawToTransformValue(v);
      double z2 = a->transformToRawValue(yy);
      C.eval();
      if (z2 != v) C.violation(KK("empirical-anam:datum"), desc + ": datum z=" + fmt(v) + " -> y=" + fmt(yy) + " -> z'=" + fmt(z2) + " (a knot of the table must come back exactly)", kase);
    }
  // vector interface keeps TEST
  {
    VectorDouble yv = a->rawToGaussianVector(z), zv = a->gaussianToRawVector(yv);
    bool ok = yv.size() == z.size() && zv.size() == z.size();
    for (size_t i = 0; ok && i < z.size(); i++) ok = FFFF(z[i]) ? (FFFF(yv[i]) && FFFF(zv[i])) : (yv[i] == a->rawToTransformValue(z[i]) && zv[i] == a->transformToRawValue(yv[i]));
    C.eval();
    if (!ok) C.violation(KK("empirical-anam:vector-interface"), desc + ": vector calls differ from scalar calls or lose TEST", kase);
  }
  return true;
}

// ================================================================================================
// PART 5: empirical anamorphosis (normal score table / Gaussian dilution / lognormal dilution)
// The transform is a piecewise linear interpolation of the table (ZDisc, YDisc) the object reports; on every strictly
// increasing segment of the table the two directions are exact mutual inverses (up to rounding of the interpolation);
// flat segments (ties in Z or in Y, where no inverse exists) are excluded and counted.
VF_PART(anam_empirical)
{
  const auto& M = dataMenu(C.thorough());
  // mode: 0 normal score, 1 gaussian dilution ndisc=100, 2 gaussian dilution ndisc=12 sigma2e=1/4, 3 lognormal dilution ndisc=100, 4 lognormal ndisc=12 sigma2e=1/4
  Space sp; sp.axis("data", (int)M.size()).axis("mode", 5).axis("undefined", 2);
  for_each_case(C, sp, [&](uint64_t id, const std::vector<int>& ix) {
    const DataSet& D = M[ix[0]];
    int mode = ix[1];
    if (isConstant(D.z)) { C.skip(); C.outcome("constant-data-excluded"); return; }
    VectorDouble z = D.z;
    if (ix[2]) { z.insert((size_t)0, TEST); z.push_back(TEST); }
    AnamEmpirical* a = nullptr;
    if (mode == 0) a = new AnamEmpirical(100, TEST, false, true);
    if (mode == 1) a = new AnamEmpirical(100, TEST, true, true);
    if (mode == 2) a = new AnamEmpirical(12, 0.25, true, true);
    if (mode == 3) a = new AnamEmpirical(100, TEST, true, false);
    if (mode == 4) a = new AnamEmpirical(12, 0.25, true, false);
    std::string desc = "AnamEmpirical(mode=" + std::to_string(mode) + ") fitted on " + (z.size() <= 12 ? vstr(z) : D.name);
    int err = 0;
    bool thrown = false;
    try { err = a->fitFromArray(z); } catch (...) { thrown = true; }
    C.eval();
    double dmin = 1e300, dmax = -1e300;
    for (double v : D.z) { dmin = std::min(dmin, v); dmax = std::max(dmax, v); }
    if (thrown)
    {
      // Gaussian dilution is documented for any sign of the data (only the lognormal dilution refuses negative values)
      C.outcome("fit-throws");
      C.violation((mode == 1 || mode == 2) && dmax <= 0 ? "empirical-anam:gaussian-dilution:nonpositive-data-throws" : "empirical-anam:fit-throws",
                  desc + ": fitFromArray throws an exception (data range [" + fmt(dmin) + "," + fmt(dmax) + "])", std::to_string(id));
      delete a;
      return;
    }
    if (err)
    {
      // documented failure: lognormal dilution refuses negative data
      if (mode >= 3 && dmin < 0) { C.skip(); C.outcome("lognormal-negative-data-refused"); }
      else C.violation("empirical-anam:fit-fails", desc + ": fitFromArray returns " + std::to_string(err), std::to_string(id));
      delete a;
      return;
    }
    int n = 0, nseg = 0, nflat = 0;
    if (!judgeEmpirical(C, a, mode == 0, D.z, z, desc, std::to_string(id), n, nseg, nflat)) { delete a; return; }
    if (nseg >= 2) C.nontrivial(id);
    C.outcome(std::string(mode == 0 ? "normal-score" : mode <= 2 ? "gaussian-dilution" : "lognormal-dilution") + (nseg == 0 ? ":no-increasing-segment" : nflat ? ":with-flat-segments" : ":all-segments-increasing"));
    if (id % 701 == 0) C.sample("{\"data\":" + jstr(D.name) + ",\"mode\":" + std::to_string(mode) + ",\"nclass\":" + std::to_string(n) + ",\"increasing_segments\":" + std::to_string(nseg) + ",\"flat_segments\":" + std::to_string(nflat) + "}");
    delete a;
  });
}

// ================================================================================================
// PART 6: VH::normalScore — every sequence of length 3..6 over {0,1,2,5,100,TEST}
VF_PART(normal_score)
{
  static const double SY[6] = {0, 1, 2, 5, 100, TEST};
  int LMAX = C.thorough() ? 7 : 6;
  for (int len = 3; len <= LMAX; len++)
  {
    Space sp;
    for (int k = 0; k < len; k++) sp.axis("s" + std::to_string(k), 6);
    sp.axis("wt", 4);  // 0 none, 1 all ones, 2 all twos, 3 dyadic 1,2,1,2..
    for_each_case_fam(C, len, sp, [&](uint64_t id, const std::vector<int>& ix) {
      VectorDouble z, wt;
      int ndef = 0;
      for (int k = 0; k < len; k++) { z.push_back(SY[ix[k]]); if (ix[k] != 5) ndef++; }
      int wm = ix[len];
      if (wm == 1) wt = VectorDouble(len, 1.);
      if (wm == 2) wt = VectorDouble(len, 2.);
      if (wm == 3) for (int k = 0; k < len; k++) wt.push_back((k & 1) ? 2. : 1.);
      std::string kase = std::to_string(len) + "/" + std::to_string(id);
      std::string desc = "VH::normalScore(" + vstr(z) + (wt.empty() ? "" : ", wt=" + vstr(wt)) + ")";
      VectorDouble y = VH::normalScore(z, wt);
      C.eval();
      if (ndef == 0)
      {
        // documented failure: no active sample -> empty vector
        C.skip(); C.outcome(y.empty() ? "all-undefined:refused" : "all-undefined:returned-something");
        return;
      }
      if ((int)y.size() != len) { C.violation("normalscore:size", desc + " returns " + std::to_string(y.size()) + " values", kase); return; }
      bool ties = false;
      LD W = 0;
      for (int k = 0; k < len; k++) if (!FFFF(z[k])) W += wt.empty() ? 1 : wt[k];
      LD wtot = W * (1 + (LD)ndef) / ndef;
      for (int i = 0; i < len; i++)
      {
        if (FFFF(z[i])) { if (!FFFF(y[i])) C.violation("normalscore:undefined", desc + "[" + std::to_string(i) + "]=" + fmt(y[i]) + " for an undefined datum", kase); continue; }
        if (FFFF(y[i]) || !std::isfinite(y[i])) { C.violation("normalscore:defined", desc + "[" + std::to_string(i) + "] is undefined for a defined datum", kase); continue; }
        for (int j = 0; j < len; j++)
        {
          if (FFFF(z[j]) || FFFF(y[j])) continue;
          if (z[i] == z[j] && i != j) ties = true;
          if (z[i] < z[j] && !(y[i] < y[j]))
            C.violation("normalscore:rank", desc + "=" + vstr(y) + " does not preserve the order of entries " + std::to_string(i) + "," + std::to_string(j), kase);
        }
        // value: Phi(y_i) = (cumulated weight of the data <= z_i) / (W (n+1)/n) ; with ties any assignment inside the tie group is accepted
        LD lo = 0, hi = 0;
        for (int j = 0; j < len; j++)
        {
          if (FFFF(z[j])) continue;
          LD w = wt.empty() ? 1 : wt[j];
          if (z[j] < z[i]) { lo += w; hi += w; }
          else if (z[j] == z[i]) hi += w;
        }
        LD p = Phi((LD)y[i]);
        // the library's Gaussian cdf is the 5-term Abramowitz-Stegun approximation (abs. error 7.5e-8) inverted by a bisection to 1e-7 in y
        if (p < lo / wtot - 1e-6L || p > hi / wtot + 1e-6L)
          C.violation("normalscore:value", desc + "[" + std::to_string(i) + "]=" + fmt(y[i]) + ": Phi(y)=" + fmt((double)p) + " outside the frequency interval [" + fmt((double)(lo / wtot)) + "," + fmt((double)(hi / wtot)) + "] of the datum", kase);
      }
      // symmetry (equal weights): the sorted scores are antisymmetric
      if (wm != 3)
      {
        std::vector<double> ys;
        for (int i = 0; i < len; i++) if (!FFFF(y[i])) ys.push_back(y[i]);
        std::sort(ys.begin(), ys.end());
        for (size_t k = 0; k < ys.size(); k++)
          if (std::fabs(ys[k] + ys[ys.size() - 1 - k]) > 4e-7)
          {
            C.violation("normalscore:symmetry", desc + ": sorted scores " + vstr(ys) + " are not antisymmetric", kase);
            break;
          }
      }
      // unit weights / doubled weights give bitwise the same scores as no weights (ratios are exact in binary)
      if (wm == 1 || wm == 2)
      {
        VectorDouble y0 = VH::normalScore(z);
        bool same = y0.size() == y.size();
        for (int i = 0; same && i < len; i++) same = (y0[i] == y[i]);
        if (!same) C.violation("normalscore:weight-scale", desc + " differs from the unweighted scores " + vstr(y0), kase);
      }
      C.nontrivial(Hash().i(len).u(id).h);
      C.outcome(std::string(ties ? "ties(order inside tie group not judged)" : "distinct") + (ndef < len ? "+undefined" : ""));
      if (id % 4999 == 0) C.sample("{\"z\":" + jstr(vstr(z)) + ",\"wt\":" + jstr(vstr(wt)) + ",\"y\":" + jstr(vstr(y)) + "}");
    });
  }
}

// ================================================================================================
// PART 7: rotations
static const double ANG[] = {0, 30, 45, 90, -60, 180, 270, 22.5, 405, -135, 1, 60, -90, 120, 359, 0.125};  // the last six in thorough only
VF_PART(rotation)
{
  static const double VEC[][3] = {{1, 0, 0}, {0, 1, 0}, {0, 0, 1}, {1, 1, 1}, {-2, 0.5, 3}, {0.25, -8, 1}};
  // ndim 2: 10 angles ; ndim 3: 10^3 triples
  int NA = C.thorough() ? 16 : 10;
  Space sp; sp.axis("ndim", 2).axis("a0", NA).axis("a1", NA).axis("a2", NA);
  for_each_case(C, sp, [&](uint64_t id, const std::vector<int>& ix) {
    int ndim = ix[0] + 2;
    if (ndim == 2 && (ix[2] || ix[3])) return;
    VectorDouble ang = {ANG[ix[1]]};
    if (ndim == 3) { ang.push_back(ANG[ix[2]]); ang.push_back(ANG[ix[3]]); }
    std::string desc = "Rotation(ndim=" + std::to_string(ndim) + ").setAngles(" + vstr(ang) + ")";
    std::string kase = std::to_string(id);
    Rotation R(ndim);
    R.setAngles(ang);
    C.eval();
    const MatrixSquareGeneral& A = R.getMatrixDirect();
    const MatrixSquareGeneral& B = R.getMatrixInverse();
    // orthonormal, det +1, inverse = transpose
    LD det;
    if (ndim == 2) det = (LD)A.getValue(0, 0) * A.getValue(1, 1) - (LD)A.getValue(0, 1) * A.getValue(1, 0);
    else det = (LD)A.getValue(0, 0) * ((LD)A.getValue(1, 1) * A.getValue(2, 2) - (LD)A.getValue(1, 2) * A.getValue(2, 1))
             - (LD)A.getValue(0, 1) * ((LD)A.getValue(1, 0) * A.getValue(2, 2) - (LD)A.getValue(1, 2) * A.getValue(2, 0))
             + (LD)A.getValue(0, 2) * ((LD)A.getValue(1, 0) * A.getValue(2, 1) - (LD)A.getValue(1, 1) * A.getValue(2, 0));
    if (fabsl(det - 1) > 1e-12L) C.violation("rotation:det", desc + ": determinant " + fmt((double)det), kase);
    for (int i = 0; i < ndim; i++)
      for (int j = 0; j < ndim; j++)
      {
        LD s = 0;
        for (int k = 0; k < ndim; k++) s += (LD)A.getValue(i, k) * A.getValue(j, k);
        if (fabsl(s - (i == j)) > 1e-12L) C.violation("rotation:orthonormal", desc + ": (R R^t)[" + std::to_string(i) + "," + std::to_string(j) + "]=" + fmt((double)s), kase);
        if (A.getValue(i, j) != B.getValue(j, i)) C.violation("rotation:inverse-is-transpose", desc + ": inverse matrix is not the transpose of the direct one", kase);
      }
    // the angle of the first axis: direct rotation of e1 by a0 about z (2-D): matrix entries against cos/sin in long double
    if (ndim == 2)
    {
      LD a = (LD)ang[0] * acosl(-1.L) / 180;
      if (fabsl((LD)A.getValue(0, 0) - cosl(a)) > 1e-12L || fabsl(fabsl((LD)A.getValue(0, 1)) - fabsl(sinl(a))) > 1e-12L)
        C.violation("rotation:2d-matrix", desc + ": matrix " + vstr(A.getValues()) + " is not the rotation of angle a0", kase);
    }
    // rotateDirect o rotateInverse = id and conversely, norm preserved
    for (auto& v0 : VEC)
    {
      VectorDouble v(ndim), w(ndim), u(ndim);
      for (int k = 0; k < ndim; k++) v[k] = v0[k];
      R.rotateDirect(v, w);
      R.rotateInverse(w, u);
      C.eval();
      LD n0 = 0, n1 = 0; bool ok = true;
      for (int k = 0; k < ndim; k++) { n0 += (LD)v[k] * v[k]; n1 += (LD)w[k] * w[k]; if (std::fabs(u[k] - v[k]) > 1e-12 * 16) ok = false; }
      if (!ok) C.violation("rotation:inverse-of-direct", desc + ": rotateInverse(rotateDirect(" + vstr(v) + "))=" + vstr(u), kase);
      if (fabsl(n0 - n1) > 1e-12L * n0) C.violation("rotation:norm", desc + ": rotateDirect changes the norm of " + vstr(v), kase);
      R.rotateInverse(v, w);
      R.rotateDirect(w, u);
      ok = true;
      for (int k = 0; k < ndim; k++) if (std::fabs(u[k] - v[k]) > 1e-12 * 16) ok = false;
      if (!ok) C.violation("rotation:direct-of-inverse", desc + ": rotateDirect(rotateInverse(" + vstr(v) + "))=" + vstr(u), kase);
    }
    // angles -> matrix -> angles -> matrix : the same matrix
    {
      // (a) through the stored angles
      Rotation R2(ndim);
      R2.setAngles(R.getAngles());
      bool same = true;
      for (int i = 0; i < ndim * ndim; i++) same = same && (R2.getMatrixDirectVec()[i] == R.getMatrixDirectVec()[i]);
      if (!same) C.violation("rotation:angles-roundtrip", desc + ": setAngles(getAngles()) gives another matrix", kase);
      // (b) through the matrix: setMatrixDirect recomputes the angles from the matrix
      Rotation R3(ndim);
      int err = R3.setMatrixDirect(A);
      C.eval();
      if (err) C.violation("rotation:matrix-refused", desc + ": its own direct matrix is refused by setMatrixDirect", kase);
      else
      {
        Rotation R4(ndim);
        R4.setAngles(R3.getAngles());
        double worst = 0;
        for (int i = 0; i < ndim * ndim; i++) worst = std::max(worst, std::fabs(R4.getMatrixDirectVec()[i] - R.getMatrixDirectVec()[i]));
        bool gimbal = ndim == 3 && std::fabs(R.getMatrixDirectVec()[2]) > 1 - 1e-9;  // rot[2] = -sin(beta)  // |sin(beta)| = 1 : first and third angle are not separately defined
        C.outcome(ndim == 2 ? "2d" : gimbal ? "3d:gimbal(beta=+-90)" : "3d:regular");
        // Information only (integrator decision): matrix -> angles -> matrix is a change of REPRESENTATION, not the change of
        // coordinates named by C18; the gimbal-lock branch of GH::rotationGetAnglesInPlace is commented out in the library
        // (176 of 200 gimbal triples do not rebuild M) - recorded in the histogram, not judged.
        if (worst > 1e-10) C.outcome(gimbal ? "info:angles-from-matrix-mismatch:gimbal" : "info:angles-from-matrix-mismatch:regular");
      }
    }
    if (ix[1] != 0 || ix[2] != 0 || ix[3] != 0) C.nontrivial(id);
    if (id % 397 == 0) C.sample("{\"ndim\":" + std::to_string(ndim) + ",\"angles\":" + jstr(vstr(ang)) + ",\"matrix\":" + jstr(vstr(A.getValues())) + "}");
  });
}

// ================================================================================================
// PART 8/9: PCA and MAF  (variables -> factors -> variables; factor statistics on the fitting data)
struct RefStat
{
  int n = 0, nvar = 0;
  LD mean[3] = {0, 0, 0}, cov[3][3] = {{0}};   // cov normalised by n-1
  LD lmin = 0, lmax = 0;
};
static void jacobiEig(int n, LD a[3][3], LD* ev)
{
  LD A[3][3];
  for (int i = 0; i < n; i++) for (int j = 0; j < n; j++) A[i][j] = a[i][j];
  for (int sweep = 0; sweep < 60; sweep++)
  {
    LD off = 0;
    for (int i = 0; i < n; i++) for (int j = i + 1; j < n; j++) off += A[i][j] * A[i][j];
    if (off == 0) break;
    for (int p = 0; p < n; p++)
      for (int q = p + 1; q < n; q++)
      {
        if (A[p][q] == 0) continue;
        LD th = (A[q][q] - A[p][p]) / (2 * A[p][q]);
        LD t = ((th >= 0) ? 1 : -1) / (fabsl(th) + sqrtl(th * th + 1));
        LD c = 1 / sqrtl(t * t + 1), sn = t * c;
        for (int k = 0; k < n; k++) { LD akp = A[k][p], akq = A[k][q]; A[k][p] = c * akp - sn * akq; A[k][q] = sn * akp + c * akq; }
        for (int k = 0; k < n; k++) { LD apk = A[p][k], aqk = A[q][k]; A[p][k] = c * apk - sn * aqk; A[q][k] = sn * apk + c * aqk; }
      }
  }
  for (int i = 0; i < n; i++) ev[i] = A[i][i];
}
static RefStat refStat(const std::vector<std::vector<double>>& rows, int nvar)
{
  RefStat S; S.nvar = nvar; S.n = (int)rows.size();
  if (S.n == 0) return S;
  for (auto& r : rows) for (int v = 0; v < nvar; v++) S.mean[v] += r[v];
  for (int v = 0; v < nvar; v++) S.mean[v] /= S.n;
  if (S.n < 2) return S;
  for (auto& r : rows) for (int v = 0; v < nvar; v++) for (int w = 0; w < nvar; w++) S.cov[v][w] += ((LD)r[v] - S.mean[v]) * ((LD)r[w] - S.mean[w]);
  for (int v = 0; v < nvar; v++) for (int w = 0; w < nvar; w++) S.cov[v][w] /= (S.n - 1);
  LD ev[3]; jacobiEig(nvar, S.cov, ev);
  S.lmin = ev[0]; S.lmax = ev[0];
  for (int v = 1; v < nvar; v++) { S.lmin = std::min(S.lmin, ev[v]); S.lmax = std::max(S.lmax, ev[v]); }
  return S;
}
// all rows over alphabet^nvar
static std::vector<std::vector<double>> rowMenu(const std::vector<double>& alpha, int nvar)
{
  std::vector<std::vector<double>> R;
  int q = (int)alpha.size(), tot = 1;
  for (int v = 0; v < nvar; v++) tot *= q;
  for (int id = 0; id < tot; id++)
  {
    std::vector<double> r; int t = id;
    for (int v = 0; v < nvar; v++) { r.push_back(alpha[t % q]); t /= q; }
    R.push_back(r);
  }
  return R;
}

// runs one PCA/MAF case; rows = fitting data (in order); variant 1 adds a heterotopic row and a masked wild row
// 'given' (optional): judge an already computed object (returned code givenErr) instead of computing a fresh one
static void factorCase(Ctx& C, bool maf, const std::vector<std::vector<double>>& rows, int nvar, int variant, const std::string& kase, uint64_t sig, PCA* given = nullptr, int givenErr = 0)
{
  const char* what = maf ? "MAF" : "PCA";
  std::string K = KEYPFX.empty() ? std::string(maf ? "maf" : "pca") : KEYPFX.substr(0, KEYPFX.size() - 1);
  std::vector<std::vector<double>> all = rows;
  std::vector<double> sel(rows.size(), 1.);
  std::vector<bool> fit(rows.size(), true);
  if (variant == 1)
  {
    std::vector<double> het(nvar, 7.); het[0] = TEST;
    std::vector<double> wild(nvar, 1000.); wild[nvar - 1] = -3000.;
    all.insert(all.begin() + 1, het); sel.insert(sel.begin() + 1, 1.); fit.insert(fit.begin() + 1, false);
    all.push_back(wild); sel.push_back(0.); fit.push_back(false);
  }
  int nech = (int)all.size();
  std::vector<std::vector<double>> cols; std::vector<std::string> names, locs;
  { std::vector<double> x; for (int i = 0; i < nech; i++) x.push_back(i); cols.push_back(x); names.push_back("x1"); locs.push_back("x1"); }
  for (int v = 0; v < nvar; v++)
  {
    std::vector<double> c; for (int i = 0; i < nech; i++) c.push_back(all[i][v]);
    cols.push_back(c); names.push_back("v" + std::to_string(v + 1)); locs.push_back("z" + std::to_string(v + 1));
  }
  if (variant == 1) { cols.push_back(sel); names.push_back("sel"); locs.push_back("sel"); }
  Db* db = make_db(cols, names, locs);
  auto descf = [&]() {
    std::string desc = std::string(what) + " nvar=" + std::to_string(nvar) + " rows=";
    for (auto& r : all) desc += vstr(r);
    if (variant == 1) desc += " sel=" + vstr(sel);
    return desc;
  };
  RefStat S = refStat(rows, nvar);
  bool deficient = S.n < 2 || !(S.lmin > 1e-12L * S.lmax) || !(S.lmax > 0);
  LD kappa = deficient ? 0 : S.lmax / S.lmin;

  PCA local;
  PCA& pca = given ? *given : local;
  int err = given ? givenErr : (maf ? pca.maf_compute_interval(db, 0.5, 1.5) : pca.pca_compute(db));
  C.eval();
  if (deficient)
  {
    // documented limitation: a singular covariance matrix has no factor decomposition; any reported failure or
    // non-finite result is accepted, the case is only required not to crash
    if (!err) { (void)pca.dbZ2F(db); (void)pca.dbF2Z(db); }
    C.skip(); C.outcome(err ? "rank-deficient:refused" : "rank-deficient:computed(not judged)");
    delete db; return;
  }
  if (kappa > 1e6L) { C.skip(); C.outcome("ill-conditioned(kappa>1e6):excluded"); delete db; return; }
  if (err) { C.violation(K + ":compute-fails", descf() + ": compute returns " + std::to_string(err) + " on a full-rank data set (kappa=" + fmt((double)kappa) + ")", kase); delete db; return; }
  int nc0 = db->getColumnNumber();
  int e1 = pca.dbZ2F(db);
  int nc1 = db->getColumnNumber();
  int e2 = e1 ? 1 : pca.dbF2Z(db);
  int nc2 = db->getColumnNumber();
  if (e1 || e2 || nc1 != nc0 + nvar || nc2 != nc1 + nvar) { C.violation(K + ":transform-fails", descf() + ": dbZ2F/dbF2Z return " + std::to_string(e1) + "/" + std::to_string(e2) + " or do not add nvar columns", kase); delete db; return; }
  // conditioning of the transfer matrices (for MAF the factors are scaled by the generalized eigen-problem)
  LD amp = sqrtl(kappa);
  if (maf)
  {
    LD n1 = 0, n2 = 0;
    for (int i = 0; i < nvar; i++) for (int j = 0; j < nvar; j++) { n1 += (LD)pca.getZ2Fs().getValue(i, j) * pca.getZ2Fs().getValue(i, j); n2 += (LD)pca.getF2Zs().getValue(i, j) * pca.getF2Zs().getValue(i, j); }
    amp = std::max(amp, sqrtl(n1 * n2));
    if (!std::isfinite((double)amp)) { C.violation(K + ":matrices-not-finite", descf() + ": Z2F/F2Z contain non finite values on a full-rank data set", kase); delete db; return; }
    if (amp > 1e6L) { C.skip(); C.outcome("ill-conditioned(Z2F):excluded"); delete db; return; }
  }
  // round trip on the fitting rows
  double scale = 1;
  for (auto& r : rows) for (double v : r) scale = std::max(scale, std::fabs(v));
  double worstRT = 0;
  std::vector<std::vector<double>> F;
  for (int i = 0; i < nech; i++)
  {
    if (!fit[i]) continue;
    std::vector<double> f;
    for (int v = 0; v < nvar; v++)
    {
      double z0 = all[i][v];
      double z1 = db->getValueByColIdx(i, nc1 + v);
      f.push_back(db->getValueByColIdx(i, nc0 + v));
      double e = std::fabs(z1 - z0);
      if (FFFF(z1) || std::isnan(z1)) e = 1e300;
      worstRT = std::max(worstRT, e);
    }
    F.push_back(f);
  }
  double tolRT = 1e-10 * scale * (double)std::max<LD>(1, amp);
  C.eval();
  if (!(worstRT <= tolRT))
    C.violation(K + ":roundtrip", descf() + ": dbZ2F then dbF2Z returns the variables with max error " + fmt(worstRT) + " > " + fmt(tolRT) + " (kappa=" + fmt((double)kappa) + ")", kase);
  // factor statistics on the fitting data: zero mean, unit variance, zero cross-correlation
  {
    bool finite = true;
    for (auto& f : F) for (double v : f) finite = finite && std::isfinite(v) && !FFFF(v);
    if (!finite) C.violation(K + ":factors-undefined", descf() + ": factors of fitting samples are undefined / not finite", kase);
    else
    {
      RefStat SF = refStat(F, nvar);
      double tolS = 1e-9 * (double)std::max<LD>(1, kappa);
      LD nfac = (LD)(SF.n - 1) / SF.n;  // variance normalised by n instead of n-1 is accepted as well
      for (int v = 0; v < nvar; v++)
      {
        if (fabsl(SF.mean[v]) > tolS) { C.violation(K + ":factor-mean", descf() + ": factor " + std::to_string(v + 1) + " has mean " + fmt((double)SF.mean[v]) + " on the fitting data", kase); break; }
        if (fabsl(SF.cov[v][v] - 1) > tolS && fabsl(SF.cov[v][v] * nfac - 1) > tolS) { C.violation(K + ":factor-variance", descf() + ": factor " + std::to_string(v + 1) + " has variance " + fmt((double)SF.cov[v][v]) + " on the fitting data", kase); break; }
        for (int w = 0; w < v; w++)
          if (fabsl(SF.cov[v][w]) > tolS) { C.violation(K + ":factor-correlation", descf() + ": factors " + std::to_string(w + 1) + "," + std::to_string(v + 1) + " have covariance " + fmt((double)SF.cov[v][w]) + " on the fitting data", kase); v = nvar; break; }
      }
    }
  }
  // samples that are not part of the fit (heterotopic / masked) must not receive values out of thin air is not claimed by
  // the property: only counted
  if (variant == 1)
  {
    bool untouched = true;
    for (int i = 0; i < nech; i++) if (!fit[i]) for (int v = 0; v < nvar; v++) if (!FFFF(db->getValueByColIdx(i, nc0 + v))) untouched = false;
    C.outcome(untouched ? "non-fitting-rows:left-undefined" : "non-fitting-rows:transformed");
  }
  C.nontrivial(sig);
  C.outcome(std::string("judged:") + (kappa < 10 ? "kappa<10" : kappa < 1e3 ? "kappa<1e3" : "kappa<1e6") + " rt" + relbin(worstRT / scale));
  if (sig % 2003 == 0) C.sample("{\"what\":" + jstr(descf()) + ",\"kappa\":" + fmt((double)kappa) + ",\"roundtrip_err\":" + fmt(worstRT) + "}");
  delete db;
}

VF_PART(pca)
{
  struct Fam { int nvar, size; std::vector<std::vector<double>> rows; std::vector<std::vector<int>> ms; };
  static std::vector<Fam> fams;
  if (fams.empty())
  {
    auto add = [&](int nvar, std::vector<double> alpha, int size) {
      Fam f; f.nvar = nvar; f.size = size; f.rows = rowMenu(alpha, nvar);
      multisets((int)f.rows.size(), size, f.ms);
      fams.push_back(f);
    };
    for (int k = 3; k <= 5; k++) add(1, {0, 1, 2, 5, 100}, k);
    add(2, {0, 1, 2, 5}, 3); add(2, {0, 1, 2, 5}, 4);
    add(2, {0, 1, 2, 5}, 5);
    if (C.thorough()) { add(1, {0, 1, 2, 5, 100}, 6); add(1, {0, 1, 2, 5, 100}, 7); add(2, {0, 1, 2, 5}, 6); add(2, {0, 1, 2, 5}, 7); }
    add(3, {0, 1, 3}, 4); add(3, {0, 1, 3}, 5);
    if (C.thorough()) add(3, {0, 1, 3}, 6);
  }
  int fi = 0;
  for (auto& f : fams)
  {
    Space sp; sp.axis("multiset", (int)f.ms.size()).axis("variant", 2);
    int famId = fi++;
    for_each_case_fam(C, famId, sp, [&](uint64_t id, const std::vector<int>& ix) {
      std::vector<std::vector<double>> rows;
      for (int r : f.ms[ix[0]]) rows.push_back(f.rows[r]);
      factorCase(C, false, rows, f.nvar, ix[1], std::to_string(famId) + "/" + std::to_string(id), Hash().i(famId).u(id).h);
    });
  }
}

VF_PART(maf)
{
  // order matters (pairs of consecutive samples feed the variogram matrix): all sequences
  struct Fam { int nvar, len; std::vector<std::vector<double>> rows; };
  std::vector<Fam> fams;
  fams.push_back({1, 4, rowMenu({0, 1, 2, 5, 100}, 1)});
  fams.push_back({2, 4, rowMenu({0, 1, 2}, 2)});
  fams.push_back({2, 5, rowMenu({0, 1, 2}, 2)});
  fams.push_back({3, 5, rowMenu({0, 1}, 3)});
  fams.push_back({3, 6, rowMenu({0, 1}, 3)});
  if (C.thorough()) { fams.push_back({2, 6, rowMenu({0, 1, 2}, 2)}); fams.push_back({1, 6, rowMenu({0, 1, 2, 5, 100}, 1)}); }
  int fi = 0;
  for (auto& f : fams)
  {
    Space sp;
    for (int k = 0; k < f.len; k++) sp.axis("r" + std::to_string(k), (int)f.rows.size());
    sp.axis("variant", 2);
    int famId = fi++;
    for_each_case_fam(C, famId, sp, [&](uint64_t id, const std::vector<int>& ix) {
      std::vector<std::vector<double>> rows;
      for (int k = 0; k < f.len; k++) rows.push_back(f.rows[ix[k]]);
      factorCase(C, true, rows, f.nvar, ix[f.len], std::to_string(famId) + "/" + std::to_string(id), Hash().i(famId).u(id).h);
    });
  }
}

// ================================================================================================
// PART 10: the Db-level entry points (rawToGaussian / gaussianToRaw, by name and by locator, normalScore) with undefined
// values and a selection; they are wrappers around the scalar transforms judged in anam_hermite / anam_empirical
VF_PART(anam_db)
{
  const auto& M = dataMenu(C.thorough());
  // api: 0 by name, 1 by locator ; variant 0 plain, 1 TEST entries + selection masking two (wild) samples ; kind 0 hermite(5), 1 hermite(20), 2 empirical
  Space sp; sp.axis("data", (int)M.size()).axis("kind", 3).axis("variant", 2).axis("api", 2);
  for_each_case(C, sp, [&](uint64_t id, const std::vector<int>& ix) {
    const DataSet& D = M[ix[0]];
    if (D.z.size() > 40) { C.skip(); C.outcome("large-data-skipped-here"); return; }
    if (isConstant(D.z)) { C.skip(); C.outcome("constant-data-excluded"); return; }
    int kind = ix[1], variant = ix[2], api = ix[3];
    std::string kase = std::to_string(id);
    std::vector<double> z(D.z.begin(), D.z.end()), sel(D.z.size(), 1.);
    if (variant == 1)
    {
      z.insert(z.begin() + 1, TEST); sel.insert(sel.begin() + 1, 1.);
      z.push_back(12345.); sel.push_back(0.);
      z.insert(z.begin(), -777.); sel.insert(sel.begin(), 0.);
    }
    int nech = (int)z.size();
    std::vector<double> x; for (int i = 0; i < nech; i++) x.push_back(i);
    Db* db = variant == 1 ? make_db({x, z, sel}, {"x1", "z", "sel"}, {"x1", "z1", "sel"}) : make_db({x, z}, {"x1", "z"}, {"x1", "z1"});
    AnamContinuous* a = nullptr;
    if (kind == 0) a = AnamHermite::create(5);
    if (kind == 1) a = AnamHermite::create(20);
    if (kind == 2) a = new AnamEmpirical(100, TEST, false, true);
    std::string desc = std::string(kind == 2 ? "AnamEmpirical" : kind == 1 ? "AnamHermite(20)" : "AnamHermite(5)") + " on Db z=" + vstr(z) + (variant ? " sel=" + vstr(sel) : "") + (api ? " [ByLocator]" : " [by name]");
    int err = a->fit(db, "z");
    C.eval();
    if (err) { C.violation("anam-db:fit-fails", desc + ": fit returns " + std::to_string(err), kase); delete a; delete db; return; }
    // the fit uses the active, defined samples only
    {
      VectorDouble act(D.z.begin(), D.z.end());
      bool same = true;
      if (kind < 2)
      {
        AnamHermite* b = AnamHermite::create(kind == 0 ? 5 : 20);
        b->fitFromArray(act);
        AnamHermite* ah = dynamic_cast<AnamHermite*>(a);
        for (int k = 0; k < b->getNbPoly(); k++) same = same && (b->getPsiHn(k) == ah->getPsiHn(k));
        delete b;
      }
      else
      {
        AnamEmpirical b(100, TEST, false, true);
        b.fitFromArray(act);
        AnamEmpirical* ae = dynamic_cast<AnamEmpirical*>(a);
        same = b.getNDisc() == ae->getNDisc();
        for (int k = 0; same && k < b.getNDisc(); k++) same = b.getZDisc()[k] == ae->getZDisc()[k] && b.getYDisc()[k] == ae->getYDisc()[k];
      }
      if (!same) C.violation("anam-db:fit-ignores-selection", desc + ": fit(db) differs from fitFromArray on the active defined values", kase);
    }
    int nc0 = db->getColumnNumber();
    int e1 = api ? a->rawToGaussianByLocator(db) : a->rawToGaussian(db, "z");
    C.eval();
    if (e1 || db->getColumnNumber() != nc0 + 1) { C.violation("anam-db:rawToGaussian-fails", desc + ": returns " + std::to_string(e1), kase); delete a; delete db; return; }
    std::string yname = db->getNameByColIdx(nc0);
    int e2 = api ? a->gaussianToRawByLocator(db) : a->gaussianToRaw(db, yname);
    C.eval();
    if (e2 || db->getColumnNumber() != nc0 + 2)
    {
      C.outcome(api ? "bylocator:inverse-refused" : "byname:inverse-refused");
      C.violation(api ? "anam-db:gaussianToRawByLocator-fails" : "anam-db:gaussianToRaw-fails", desc + ": the inverse transform returns " + std::to_string(e2) + " right after the forward one succeeded (Gaussian variable " + yname + " holds the Z locator)", kase);
      delete a; delete db; return;
    }
    // wrappers agree with the scalar transforms on active defined samples, TEST stays TEST
    bool okY = true, okZ = true, okT = true; int njud = 0;
    for (int i = 0; i < nech; i++)
    {
      if (sel[i] == 0) continue;
      double yi = db->getValueByColIdx(i, nc0), zi = db->getValueByColIdx(i, nc0 + 1);
      if (FFFF(z[i])) { okT = okT && FFFF(yi) && FFFF(zi); continue; }
      njud++;
      okY = okY && yi == a->rawToTransformValue(z[i]);
      okZ = okZ && zi == a->transformToRawValue(yi);
    }
    if (!okY) C.violation("anam-db:forward-differs", desc + ": Db-level Gaussian values differ from rawToTransformValue", kase);
    if (!okZ) C.violation("anam-db:backward-differs", desc + ": Db-level back-transformed values differ from transformToRawValue", kase);
    if (!okT) C.violation("anam-db:undefined-not-kept", desc + ": an undefined datum does not stay undefined through the transforms", kase);
    // empirical (normal score table): every active datum is a knot and must come back exactly
    if (kind == 2)
      for (int i = 0; i < nech; i++)
        if (sel[i] != 0 && !FFFF(z[i]) && db->getValueByColIdx(i, nc0 + 1) != z[i])
        { C.violation("anam-db:empirical-roundtrip", desc + ": sample " + std::to_string(i) + " z=" + fmt(z[i]) + " comes back as " + fmt(db->getValueByColIdx(i, nc0 + 1)), kase); break; }
    // normal score through the Db: scores of the active samples = VH::normalScore of the active data
    if (kind == 2 && api == 0)
    {
      db->setLocator("z", ELoc::Z, 0);
      int nc = db->getColumnNumber();
      int e3 = a->normalScore(db, "z");
      C.eval();
      if (e3 || db->getColumnNumber() != nc + 1) C.violation("anam-db:normalScore-fails", desc + ": normalScore returns " + std::to_string(e3), kase);
      else
      {
        VectorDouble act; std::vector<int> where;
        for (int i = 0; i < nech; i++) if (sel[i] != 0) { act.push_back(z[i]); where.push_back(i); }
        VectorDouble ref = VH::normalScore(act);
        bool same = true;
        for (size_t k = 0; k < where.size(); k++)
        {
          double v = db->getValueByColIdx(where[k], nc);
          same = same && ((FFFF(ref[k]) && FFFF(v)) || ref[k] == v);
        }
        C.outcome(same ? "db-normalscore:active-only" : "db-normalscore:DIFFERS");
        if (!same) C.violation("anam-db:normalScore:masked-samples-count", desc + ": the Db-level normal scores of the active samples differ from VH::normalScore of the active values (masked samples take part in the ranking)", kase);
      }
    }
    if (njud >= 3) C.nontrivial(id);
    C.outcome(std::string(api ? "bylocator" : "byname") + (variant ? "+undefined+selection" : ""));
    delete a; delete db;
  });
}

// ================================================================================================
// PART 11/12: column-layout axis for the Db-level wrappers.
// The wrappers address their input variables by locator rank (Z locator number ivar) and write their outputs in new
// columns; nothing in their contract depends on where the variables sit in the table. Layouts:
//   0 side by side            x1 v1 v2 v3                     (UID = column index, consecutive)
//   1 interleaved             x1 f0 v1 f1 v2 f2 v3            (foreign columns between the variables: UIDs not consecutive)
//   2 reverse order           x1 v3 v2 v1                     (locator order opposite to column / UID order)
//   3 after deleted columns   x1 [j0] v1 [j1] v2 f2 v3        (j0, j1 deleted: UIDs not consecutive AND UID != column index)
// Foreign columns carry values near -5000 (far from any variable) and must be bitwise unchanged afterwards.
static const char* LAYNAME[4] = {"side-by-side", "interleaved", "reverse", "after-deleted"};
struct LayDb
{
  Db* db = nullptr;
  std::vector<std::string> vnames;                       // in locator order
  std::map<std::string, std::vector<double>> before;     // every pre-existing column by name
};
static LayDb buildLayout(int layout, const std::vector<std::vector<double>>& vars, const std::vector<double>* sel)
{
  LayDb L;
  int nvar = (int)vars.size(), nech = (int)vars[0].size();
  std::vector<std::pair<std::string, std::vector<double>>> cols;
  auto foreign = [&](int k) { std::vector<double> f; for (int i = 0; i < nech; i++) f.push_back(-5000. - 100. * k - i); return f; };
  { std::vector<double> x; for (int i = 0; i < nech; i++) x.push_back(i); cols.push_back({"x1", x}); }
  std::vector<std::string> todelete;
  for (int k = 0; k < nvar; k++) L.vnames.push_back("v" + std::to_string(k + 1));
  if (layout == 0) for (int k = 0; k < nvar; k++) cols.push_back({L.vnames[k], vars[k]});
  if (layout == 1)
  {
    cols.push_back({"f0", foreign(0)});
    for (int k = 0; k < nvar; k++) { cols.push_back({L.vnames[k], vars[k]}); if (k + 1 < nvar) cols.push_back({"f" + std::to_string(k + 1), foreign(k + 1)}); }
  }
  if (layout == 2) for (int k = nvar - 1; k >= 0; k--) cols.push_back({L.vnames[k], vars[k]});
  if (layout == 3)
  {
    for (int k = 0; k < nvar; k++)
    {
      if (k < 2) { cols.push_back({"j" + std::to_string(k), foreign(7 + k)}); todelete.push_back("j" + std::to_string(k)); }
      else cols.push_back({"f2", foreign(2)});
      cols.push_back({L.vnames[k], vars[k]});
    }
  }
  if (sel) cols.push_back({"sel", *sel});
  VectorDouble tab; VectorString names;
  for (auto& c : cols) { names.push_back(c.first); for (double v : c.second) tab.push_back(v); }
  L.db = Db::createFromSamples(nech, ELoadBy::COLUMN, tab, names, VectorString(), false);
  for (auto& n : todelete) L.db->deleteColumn(n);
  L.db->setLocator("x1", ELoc::X, 0);
  for (int k = 0; k < nvar; k++) L.db->setLocator(L.vnames[k], ELoc::Z, k);
  if (sel) L.db->setLocator("sel", ELoc::SEL, 0);
  for (int ic = 0; ic < L.db->getColumnNumber(); ic++)
  {
    std::vector<double> v;
    for (int i = 0; i < nech; i++) v.push_back(L.db->getValueByColIdx(i, ic));
    L.before[L.db->getNameByColIdx(ic)] = v;
  }
  return L;
}
static bool sameBits(double a, double b) { return memcmp(&a, &b, 8) == 0; }
// every column that existed before the call still exists with the same values
static bool unchanged(const LayDb& L)
{
  for (auto& kv : L.before)
  {
    int ic = L.db->getColIdx(kv.first);
    if (ic < 0) return false;
    for (size_t i = 0; i < kv.second.size(); i++) if (!sameBits(L.db->getValueByColIdx((int)i, ic), kv.second[i])) return false;
  }
  return true;
}
// layout facts actually realised (for the histogram): are the UIDs of the Z variables consecutive in locator order? UID == column index?
static std::string layoutFacts(Db* db, int nvar)
{
  bool consec = true, uidIsCol = true;
  for (int k = 0; k < nvar; k++)
  {
    int uid = db->getUIDByLocator(ELoc::Z, k);
    int col = db->getColIdxByLocator(ELoc::Z, k);
    if (k > 0 && uid != db->getUIDByLocator(ELoc::Z, k - 1) + 1) consec = false;
    if (uid != col) uidIsCol = false;
  }
  return std::string(consec ? "uid-consecutive" : "uid-NOT-consecutive") + (uidIsCol ? ",uid=col" : ",uid!=col");
}

VF_PART(anam_db_layout)
{
  const auto& M = dataMenu(C.thorough());
  // kind 0 AnamHermite(5), 1 AnamEmpirical (normal score table) ; variant 0 plain, 1 TEST entries + selection
  Space sp; sp.axis("data", (int)M.size()).axis("nvar", 3).axis("layout", 4).axis("kind", 2).axis("variant", 2);
  for_each_case(C, sp, [&](uint64_t id, const std::vector<int>& ix) {
    const DataSet& D = M[ix[0]];
    if (D.z.size() > (C.thorough() ? 40u : 12u)) { C.skip(); C.outcome("large-data-skipped-here"); return; }
    if (isConstant(D.z)) { C.skip(); C.outcome("constant-data-excluded"); return; }
    int nvar = ix[1] + 1, layout = ix[2], kind = ix[3], variant = ix[4];
    std::string kase = std::to_string(id);
    std::string lay = LAYNAME[layout];
    int n0 = (int)D.z.size();
    // variable k = the data rotated by k positions (same distribution, same validity interval, different column content)
    std::vector<std::vector<double>> vars(nvar);
    std::vector<double> sel;
    for (int k = 0; k < nvar; k++)
    {
      for (int i = 0; i < n0; i++) vars[k].push_back(D.z[(i + k) % n0]);
      if (variant == 1)
      {
        vars[k].insert(vars[k].begin() + 1 + (k % 2), TEST);       // an undefined value at a variable-dependent place
        vars[k].insert(vars[k].begin(), -777. - k);                // masked wild samples
        vars[k].push_back(12345. + k);
      }
    }
    int nech = (int)vars[0].size();
    if (variant == 1) { sel.assign(nech, 1.); sel[0] = 0; sel[nech - 1] = 0; }
    auto active = [&](int i) { return variant == 0 || sel[i] != 0; };
    bool distinct = true;
    for (int k = 1; k < nvar; k++) for (int j = 0; j < k; j++) if (vars[k] == vars[j]) distinct = false;

    AnamContinuous* a = kind == 0 ? (AnamContinuous*)AnamHermite::create(5) : (AnamContinuous*)new AnamEmpirical(100, TEST, false, true);
    if (a->fitFromArray(VectorDouble(D.z.begin(), D.z.end()))) { C.skip(); C.outcome("fit-fails(judged in other parts)"); delete a; return; }
    std::string desc = std::string(kind ? "AnamEmpirical" : "AnamHermite(5)") + " fitted on " + vstr(D.z) + ", Db layout=" + lay + " nvar=" + std::to_string(nvar) + (variant ? " with TEST values and a selection" : "");
    // Gaussian companions of the variables (scalar transform, judged elsewhere)
    std::vector<std::vector<double>> gau(nvar);
    for (int k = 0; k < nvar; k++)
      for (int i = 0; i < nech; i++) gau[k].push_back(FFFF(vars[k][i]) ? TEST : active(i) ? a->rawToTransformValue(vars[k][i]) : 3.25 + k);

    int nmask0 = 0, nmaskT = 0, nmaskO = 0;
    // judge nout new columns starting at column nc0: column nc0+q must hold f(input of variable kq[q]) on active defined samples
    auto judge = [&](const std::string& fn, LayDb& L, int err, int nc0, const std::vector<int>& kq, const std::vector<std::vector<double>>& in, bool forward) -> bool {
      C.eval();
      std::string K = "anam-db:" + fn + ":" + lay;
      if (err || L.db->getColumnNumber() != nc0 + (int)kq.size())
      {
        C.violation(K + ":fails", desc + ": " + fn + " returns " + std::to_string(err) + " / adds " + std::to_string(L.db->getColumnNumber() - nc0) + " columns instead of " + std::to_string(kq.size()), kase);
        return false;
      }
      bool ok = true;
      for (size_t q = 0; q < kq.size() && ok; q++)
        for (int i = 0; i < nech && ok; i++)
        {
          double got = L.db->getValueByColIdx(i, nc0 + (int)q);
          double vin = in[kq[q]][i];
          if (!active(i)) { if (got == 0) nmask0++; else if (FFFF(got)) nmaskT++; else nmaskO++; continue; }
          if (FFFF(vin))
          {
            if (!FFFF(got)) { ok = false; C.violation(K + ":undefined-not-kept", desc + ": " + fn + " output " + std::to_string(q + 1) + " sample " + std::to_string(i) + " is " + fmt(got) + " although the input of variable " + std::to_string(kq[q] + 1) + " is undefined", kase); }
            continue;
          }
          double want = forward ? a->rawToTransformValue(vin) : a->transformToRawValue(vin);
          if (!sameBits(got, want))
          {
            ok = false;
            // which column was used instead (diagnosis only)
            std::string who = "";
            for (auto& kv : L.before)
            {
              double v = kv.second[i];
              if (!FFFF(v) && sameBits(got, forward ? a->rawToTransformValue(v) : a->transformToRawValue(v))) who = " (= transform of column '" + kv.first + "')";
            }
            C.violation(K + ":wrong-values", desc + ": " + fn + " output " + std::to_string(q + 1) + " sample " + std::to_string(i) + " = " + fmt(got) + " but the transform of variable " + std::to_string(kq[q] + 1) + " (" + fmt(vin) + ") is " + fmt(want) + who, kase);
          }
        }
      if (!unchanged(L)) { ok = false; C.violation(K + ":input-columns-changed", desc + ": " + fn + " modified or removed a pre-existing column", kase); }
      return ok;
    };
    std::vector<int> allk; for (int k = 0; k < nvar; k++) allk.push_back(k);
    const std::vector<double>* psel = variant ? &sel : nullptr;

    // (1) forward, by locator, all variables at once
    {
      LayDb L = buildLayout(layout, vars, psel);
      C.outcome("layout:" + lay + ":" + layoutFacts(L.db, nvar) + ":nvar=" + std::to_string(nvar));
      int nc0 = L.db->getColumnNumber();
      int e = a->rawToGaussianByLocator(L.db);
      bool ok = judge("rawToGaussianByLocator", L, e, nc0, allk, vars, true);
      // (1b) chained inverse on the Gaussian variables just created (they hold the Z locator now)
      if (ok)
      {
        LayDb L2 = L;  // same db, remember the forward outputs too
        for (int k = 0; k < nvar; k++)
        {
          std::vector<double> v; for (int i = 0; i < nech; i++) v.push_back(L.db->getValueByColIdx(i, nc0 + k));
          L2.before[L.db->getNameByColIdx(nc0 + k)] = v;
        }
        int nc1 = L.db->getColumnNumber();
        int e2 = a->gaussianToRawByLocator(L.db);
        std::vector<std::vector<double>> yin(nvar);
        for (int k = 0; k < nvar; k++) for (int i = 0; i < nech; i++) yin[k].push_back(L.db->getValueByColIdx(i, nc0 + k));
        judge("gaussianToRawByLocator(chained)", L2, e2, nc1, allk, yin, false);
      }
      delete L.db;
    }
    // (2) backward, by locator, on Gaussian variables placed in the layout ; round trip to the raw values
    {
      LayDb L = buildLayout(layout, gau, psel);
      int nc0 = L.db->getColumnNumber();
      int e = a->gaussianToRawByLocator(L.db);
      bool ok = judge("gaussianToRawByLocator", L, e, nc0, allk, gau, false);
      if (ok)
      {
        // identity z -> y -> z inside the validity interval, to the accuracy of the method (see anam_hermite / anam_empirical)
        double zlo = std::max(a->getAzmin(), a->getPzmin()), zhi = std::min(a->getAzmax(), a->getPzmax());
        double zscale = std::max({std::fabs(zlo), std::fabs(zhi), std::fabs(zhi - zlo)});
        double dzmax = std::fabs(a->transformToRawValue(1.) - a->transformToRawValue(-1.)) / 100000.;
        HermiteSlope slope;
        if (kind == 0) for (double p : dynamic_cast<AnamHermite*>(a)->getPsiHns()) slope.psi.push_back((LD)p);
        for (int k = 0; k < nvar; k++)
          for (int i = 0; i < nech; i++)
          {
            double z = vars[k][i];
            if (!active(i) || FFFF(z)) continue;
            double back = L.db->getValueByColIdx(i, nc0 + k);
            if (!(z >= zlo && z <= zhi)) { C.skip(); C.outcome("roundtrip:datum-outside-validity-interval(excluded)"); continue; }
            double tol = 0;
            if (kind == 0)
            {
              double y = gau[k][i];
              double Ls = (double)std::max({slope((LD)y - DYMAX), slope((LD)y), slope((LD)y + DYMAX)});
              tol = std::max(dzmax, 2 * Ls * DYMAX) * (1 + 1e-9) + 1e-12 * zscale;
            }
            C.eval();
            C.outcome(std::string("roundtrip:") + (kind ? "empirical:" : "hermite:") + relbin(std::fabs(back - z) / std::max(zscale, 1e-300)));
            if (!(std::fabs(back - z) <= tol))
              C.violation("anam-db:roundtrip:" + lay, desc + ": variable " + std::to_string(k + 1) + " sample " + std::to_string(i) + " z=" + fmt(z) + " -> y=" + fmt(gau[k][i]) + " -> " + fmt(back) + " through the Db wrappers (tolerance " + fmt(tol) + ")", kase);
          }
      }
      delete L.db;
    }
    // (3) by name, one variable at a time (each call designates the variable, output appended)
    {
      LayDb L = buildLayout(layout, vars, psel);
      LayDb G = buildLayout(layout, gau, psel);
      for (int k = 0; k < nvar; k++)
      {
        int nc0 = L.db->getColumnNumber();
        int e = a->rawToGaussian(L.db, L.vnames[k]);
        bool ok = judge("rawToGaussian", L, e, nc0, {k}, vars, true);
        int nc1 = G.db->getColumnNumber();
        int e2 = a->gaussianToRaw(G.db, G.vnames[k]);
        ok = judge("gaussianToRaw", G, e2, nc1, {k}, gau, false) && ok;
        if (!ok) break;
      }
      delete L.db; delete G.db;
    }
    // (4) normal score by name: scores of the active samples = VH::normalScore of the active values of THAT variable
    if (kind == 1)
    {
      LayDb L = buildLayout(layout, vars, psel);
      for (int k = 0; k < nvar; k++)
      {
        int nc0 = L.db->getColumnNumber();
        int e = a->normalScore(L.db, L.vnames[k]);
        C.eval();
        std::string K = "anam-db:normalScore:" + lay;
        if (e || L.db->getColumnNumber() != nc0 + 1) { C.violation(K + ":fails", desc + ": normalScore(" + L.vnames[k] + ") returns " + std::to_string(e), kase); break; }
        VectorDouble act; std::vector<int> where;
        for (int i = 0; i < nech; i++) if (active(i)) { act.push_back(vars[k][i]); where.push_back(i); }
        VectorDouble ref = VH::normalScore(act);
        bool same = ref.size() == act.size();
        for (size_t q = 0; same && q < where.size(); q++)
        {
          double v = L.db->getValueByColIdx(where[q], nc0);
          same = (FFFF(ref[q]) && FFFF(v)) || sameBits(ref[q], v);
        }
        if (!same) { C.violation(K + ":wrong-values", desc + ": normalScore(" + L.vnames[k] + ") differs from VH::normalScore of the active values of that variable", kase); break; }
        if (!unchanged(L)) { C.violation(K + ":input-columns-changed", desc + ": normalScore modified a pre-existing column", kase); break; }
      }
      delete L.db;
    }
    // (5) factors H_k of a (single) Gaussian variable; with several Z variables the calculator refuses (documented)
    if (kind == 0)
    {
      LayDb G = buildLayout(layout, gau, psel);
      VectorInt ifacs = {1, 3, 2};
      int nc0 = G.db->getColumnNumber();
      int e = a->rawToFactorByRanks(G.db, ifacs);
      C.eval();
      std::string K = std::string("anam-db:rawToFactorByRanks:") + lay;
      if (nvar > 1)
      {
        C.skip(); C.outcome(e ? "factors:several-variables-refused(documented)" : "factors:several-variables-accepted(not judged)");
        if (!unchanged(G)) C.violation(K + ":input-columns-changed", desc + ": a refused rawToFactorByRanks modified a pre-existing column", kase);
      }
      else if (e || G.db->getColumnNumber() != nc0 + 3) C.violation(K + ":fails", desc + ": rawToFactorByRanks returns " + std::to_string(e), kase);
      else
      {
        bool ok = true; int nundef0 = 0;
        for (int i = 0; i < nech && ok; i++)
        {
          if (!active(i)) continue;
          if (FFFF(gau[0][i])) { nundef0++; continue; }   // what an undefined input gives is not defined by C18 (the code leaves the initial 0): counted
          VectorDouble want = hermitePolynomials(gau[0][i], 1., ifacs);
          for (int q = 0; q < 3; q++) if (!sameBits(G.db->getValueByColIdx(i, nc0 + q), want[q])) ok = false;
          if (!ok) C.violation(K + ":wrong-values", desc + ": factors of sample " + std::to_string(i) + " are not the Hermite polynomials of the Z variable (" + fmt(gau[0][i]) + ")", kase);
        }
        if (nundef0) C.outcome("factors:undefined-input-not-judged", nundef0);
        if (!unchanged(G)) C.violation(K + ":input-columns-changed", desc + ": rawToFactorByRanks modified a pre-existing column", kase);
        C.outcome("factors:judged");
      }
      delete G.db;
    }
    if (nmask0) C.outcome("masked-sample-output:0(initial value, not judged)", nmask0);
    if (nmaskT) C.outcome("masked-sample-output:TEST(not judged)", nmaskT);
    if (nmaskO) C.outcome("masked-sample-output:other(not judged)", nmaskO);
    if (!distinct) C.outcome("variables-identical(wrong column not observable)");
    if (distinct || nvar == 1) C.nontrivial(id);
    C.outcome(std::string(kind ? "empirical:" : "hermite:") + lay + (variant ? "+undefined+selection" : ""));
    if (id % 2503 == 0) C.sample("{\"data\":" + jstr(D.name) + ",\"nvar\":" + std::to_string(nvar) + ",\"layout\":" + jstr(lay) + ",\"kind\":" + std::to_string(kind) + ",\"variant\":" + std::to_string(variant) + "}");
    delete a;
  });
}

// PCA / MAF wrappers under the same layouts. Oracle: layout invariance, bitwise — the same variables in the same locator
// order and the same samples must give the same transfer matrices, the same factors and the same back-transformed
// variables as the side-by-side table (whose values are judged in parts pca / maf), and dbF2Z must read the factor
// that holds locator rank k wherever it sits.
VF_PART(factor_db_layout)
{
  struct Fam { int nvar; std::vector<std::vector<double>> rows; std::vector<std::vector<int>> ms; };
  static std::vector<Fam> fams;
  if (fams.empty())
  {
    auto add = [&](int nvar, std::vector<double> alpha, int size) { Fam f; f.nvar = nvar; f.rows = rowMenu(alpha, nvar); multisets((int)f.rows.size(), size, f.ms); fams.push_back(f); };
    add(1, {0, 1, 2, 5, 100}, 4);
    add(2, {0, 1, 2, 5}, 3);
    if (C.thorough()) add(2, {0, 1, 2, 5}, 4);
    add(3, {0, 1}, 4);
    if (C.thorough()) add(3, {0, 1, 3}, 4);
  }
  int fi = 0;
  for (auto& f : fams)
  {
    Space sp; sp.axis("multiset", (int)f.ms.size()).axis("layout", 3).axis("variant", 2).axis("maf", 2);
    int famId = fi++;
    for_each_case_fam(C, famId, sp, [&](uint64_t id, const std::vector<int>& ix) {
      int nvar = f.nvar, layout = ix[1] + 1, variant = ix[2];
      bool maf = ix[3];
      std::string lay = LAYNAME[layout], kase = std::to_string(famId) + "/" + std::to_string(id);
      std::string K = std::string(maf ? "maf-db:" : "pca-db:");
      std::vector<std::vector<double>> rows;
      for (int r : f.ms[ix[0]]) rows.push_back(f.rows[r]);
      // a deterministic re-ordering so that samples are not sorted (matters for MAF only)
      std::rotate(rows.begin(), rows.begin() + 1, rows.end());
      RefStat S = refStat(rows, nvar);
      if (S.n < 2 || !(S.lmin > 1e-12L * S.lmax) || !(S.lmax > 0)) { C.skip(); C.outcome("rank-deficient-excluded"); return; }
      std::vector<std::vector<double>> all = rows;
      std::vector<double> sel(rows.size(), 1.);
      if (variant == 1)
      {
        std::vector<double> het(nvar, 7.); het[0] = TEST;
        std::vector<double> wild(nvar, 1000.); wild[nvar - 1] = -3000.;
        all.insert(all.begin() + 1, het); sel.insert(sel.begin() + 1, 1.);
        all.push_back(wild); sel.push_back(0.);
      }
      int nech = (int)all.size();
      std::vector<std::vector<double>> vars(nvar);
      for (int k = 0; k < nvar; k++) for (int i = 0; i < nech; i++) vars[k].push_back(all[i][k]);
      const std::vector<double>* psel = variant ? &sel : nullptr;
      std::string desc = std::string(maf ? "MAF" : "PCA") + " nvar=" + std::to_string(nvar) + " layout=" + lay + " rows=";
      for (auto& r : all) desc += vstr(r);
      auto compute = [&](PCA& p, Db* db) { return maf ? p.maf_compute_interval(db, 0.5, 1.5) : p.pca_compute(db); };
      // reference: side by side
      LayDb R = buildLayout(0, vars, psel);
      PCA p0;
      int e0 = compute(p0, R.db);
      int r0 = R.db->getColumnNumber();
      if (e0 || p0.dbZ2F(R.db) || p0.dbF2Z(R.db)) { C.skip(); C.outcome("reference-fails(judged in pca/maf)"); delete R.db; return; }
      std::vector<std::vector<double>> F0(nvar), Z0(nvar);
      for (int k = 0; k < nvar; k++) for (int i = 0; i < nech; i++) { F0[k].push_back(R.db->getValueByColIdx(i, r0 + k)); Z0[k].push_back(R.db->getValueByColIdx(i, r0 + nvar + k)); }
      bool finite = true;
      for (int k = 0; k < nvar; k++) for (int i = 0; i < nech; i++) if (std::isnan(F0[k][i]) || std::isnan(Z0[k][i])) finite = false;
      if (!finite) { C.skip(); C.outcome("reference-not-finite-excluded"); delete R.db; return; }
      delete R.db;
      // layout under test
      LayDb L = buildLayout(layout, vars, psel);
      C.outcome("layout:" + lay + ":" + layoutFacts(L.db, nvar) + ":nvar=" + std::to_string(nvar));
      PCA p1;
      int e1 = compute(p1, L.db);
      C.eval();
      bool ok = true;
      if (e1) { ok = false; C.violation(K + "compute:" + lay + ":fails", desc + ": compute returns " + std::to_string(e1) + " although it succeeds on the side-by-side table", kase); }
      if (ok)
        for (int i = 0; i < nvar && ok; i++)
          for (int j = 0; j < nvar && ok; j++)
            if (!sameBits(p0.getZ2Fs().getValue(i, j), p1.getZ2Fs().getValue(i, j)) || !sameBits(p0.getF2Zs().getValue(i, j), p1.getF2Zs().getValue(i, j)) || !sameBits(p0.getMean(i), p1.getMean(i)))
            { ok = false; C.violation(K + "compute:" + lay + ":differs", desc + ": means / transfer matrices differ from those of the side-by-side table (same variables, same locator order)", kase); }
      if (ok)
      {
        int nc0 = L.db->getColumnNumber();
        int e = p1.dbZ2F(L.db);
        C.eval();
        if (e || L.db->getColumnNumber() != nc0 + nvar) { ok = false; C.violation(K + "dbZ2F:" + lay + ":fails", desc + ": dbZ2F returns " + std::to_string(e), kase); }
        for (int k = 0; k < nvar && ok; k++)
          for (int i = 0; i < nech && ok; i++)
            if (!sameBits(L.db->getValueByColIdx(i, nc0 + k), F0[k][i]))
            { ok = false; C.violation(K + "dbZ2F:" + lay + ":wrong-values", desc + ": factor " + std::to_string(k + 1) + " sample " + std::to_string(i) + " = " + fmt(L.db->getValueByColIdx(i, nc0 + k)) + ", side-by-side table gives " + fmt(F0[k][i]), kase); }
        if (ok && !unchanged(L)) { ok = false; C.violation(K + "dbZ2F:" + lay + ":input-columns-changed", desc + ": dbZ2F modified a pre-existing column", kase); }
      }
      delete L.db;
      if (ok)
      {
        // factors placed in the layout (masked / heterotopic rows keep TEST factors: they stay non-isotopic)
        LayDb G = buildLayout(layout, F0, psel);
        int nc0 = G.db->getColumnNumber();
        int e = p0.dbF2Z(G.db);
        C.eval();
        if (e || G.db->getColumnNumber() != nc0 + nvar) { ok = false; C.violation(K + "dbF2Z:" + lay + ":fails", desc + ": dbF2Z returns " + std::to_string(e), kase); }
        for (int k = 0; k < nvar && ok; k++)
          for (int i = 0; i < nech && ok; i++)
          {
            double got = G.db->getValueByColIdx(i, nc0 + k);
            if (!sameBits(got, Z0[k][i]))
            { ok = false; C.violation(K + "dbF2Z:" + lay + ":wrong-values", desc + ": back-transformed variable " + std::to_string(k + 1) + " sample " + std::to_string(i) + " = " + fmt(got) + ", side-by-side table gives " + fmt(Z0[k][i]) + " (original " + fmt(vars[k][i]) + ")", kase); }
          }
        if (ok && !unchanged(G)) { ok = false; C.violation(K + "dbF2Z:" + lay + ":input-columns-changed", desc + ": dbF2Z modified a pre-existing column", kase); }
        delete G.db;
      }
      C.nontrivial(Hash().i(famId).u(id).h);
      C.outcome(std::string(maf ? "maf:" : "pca:") + lay + (variant ? "+heterotopic+masked" : ""));
    });
  }
}

// ================================================================================================
// PART 13: object REUSE. Histories of 2..3 fits on ONE object; after the last step the C18 clauses (round trips inside the
// reported interval, monotonicity, factor statistics, orthonormality) are judged on the REUSED object with respect to the data
// of its last fit, with the judging functions of the per-fit parts. Whether the reused object is bitwise equal to a FRESH
// object on which only the last fit was performed is recorded in the histogram only (info:...): "incremental = fresh" is the
// subject of C10, not of C18. E2-style, but the histories are short enough to be enumerated as a product space.
// VH::normalScore is a static function without state: nothing to reuse.
// AnamDiscreteDD / AnamDiscreteIR are not raw<->Gaussian transforms (no inverse, C18 names Hermite and empirical only): not driven.
struct Obs { std::vector<std::pair<std::string, std::vector<double>>> f; void add(const std::string& n, const std::vector<double>& v) { f.push_back({n, v}); } };
// first observable that differs (bitwise), "" if none
static std::string obsDiff(const Obs& a, const Obs& b, std::string& detail)
{
  for (size_t k = 0; k < a.f.size() && k < b.f.size(); k++)
  {
    const auto& x = a.f[k].second; const auto& y = b.f[k].second;
    if (x.size() != y.size()) { detail = a.f[k].first + ": " + std::to_string(x.size()) + " values against " + std::to_string(y.size()); return a.f[k].first; }
    for (size_t i = 0; i < x.size(); i++)
      if (!sameBits(x[i], y[i]) && !(x[i] == 0 && y[i] == 0))
      { detail = a.f[k].first + "[" + std::to_string(i) + "] reused=" + fmt(x[i]) + " fresh=" + fmt(y[i]); return a.f[k].first; }
  }
  if (a.f.size() != b.f.size()) { detail = "number of observables"; return "size"; }
  return "";
}

// ---- PCA / MAF
struct FDat { int nvar; std::vector<std::vector<double>> rows; bool extra; const char* name; };
static const std::vector<FDat>& factorData()
{
  static std::vector<FDat> D = {
    {1, {{0}, {1}, {2}, {5}}, false, "A1"},
    {1, {{100}, {105}, {101}, {90}, {97}}, false, "B1(offset)"},
    {2, {{0, 1}, {1, 5}, {2, 2}, {5, 0}}, false, "A2"},
    {2, {{100, 50}, {101, 55}, {102, 52}, {105, 50}, {103, 51}}, false, "B2(offset)"},
    {2, {{0, 0}, {1, 2}, {2, 4}, {5, 10}}, false, "C2(rank-deficient)"},
    {2, {{5, 1}, {0, 0}, {2, 5}, {1, 1}}, true, "D2(+heterotopic+masked)"},
    {3, {{0, 1, 3}, {1, 0, 0}, {3, 3, 1}, {0, 0, 1}, {1, 3, 0}}, false, "A3"},
    {3, {{10, 21, 33}, {11, 20, 30}, {13, 23, 31}, {10, 20, 31}, {11, 23, 30}}, false, "B3(offset)"},
  };
  return D;
}
static Db* factorDb(const FDat& d)
{
  std::vector<std::vector<double>> all = d.rows;
  std::vector<double> sel(all.size(), 1.);
  if (d.extra)
  {
    std::vector<double> het(d.nvar, 7.); het[0] = TEST;
    std::vector<double> wild(d.nvar, 1000.); wild[d.nvar - 1] = -3000.;
    all.insert(all.begin() + 1, het); sel.insert(sel.begin() + 1, 1.);
    all.push_back(wild); sel.push_back(0.);
  }
  std::vector<std::vector<double>> vars(d.nvar);
  for (int k = 0; k < d.nvar; k++) for (auto& r : all) vars[k].push_back(r[k]);
  LayDb L = buildLayout(0, vars, d.extra ? &sel : nullptr);
  return L.db;
}
static int factorOp(PCA& p, int op, const FDat& d)   // op 0 pca_compute, 1 maf_compute_interval
{
  Db* db = factorDb(d);
  int e = op ? p.maf_compute_interval(db, 0.5, 1.5) : p.pca_compute(db);
  delete db;
  return e;
}
static Obs factorObs(PCA& p, const FDat& d, bool withGh)
{
  Obs o;
  auto mat = [](const AMatrix& m) { std::vector<double> v; for (int i = 0; i < m.getNRows(); i++) for (int j = 0; j < m.getNCols(); j++) v.push_back(m.getValue(i, j)); return v; };
  o.add("nvar", {(double)p.getNVar()});
  o.add("mean", std::vector<double>(p.getMeans().begin(), p.getMeans().end()));
  o.add("sigma", std::vector<double>(p.getSigmas().begin(), p.getSigmas().end()));
  o.add("c0", mat(p.getC0()));
  if (withGh) o.add("gh", mat(p._gh));
  o.add("eigval", std::vector<double>(p.getEigVals().begin(), p.getEigVals().end()));
  o.add("eigvec", mat(p.getEigVecs()));
  o.add("Z2F", mat(p.getZ2Fs()));
  o.add("F2Z", mat(p.getF2Zs()));
  Db* db = factorDb(d);
  int nc0 = db->getColumnNumber();
  int e1 = p.dbZ2F(db);
  int e2 = e1 ? 1 : p.dbF2Z(db);
  o.add("dbZ2F/dbF2Z-return", {(double)e1, (double)e2});
  std::vector<double> F, Z;
  if (!e1 && !e2)
    for (int i = 0; i < db->getSampleNumber(); i++)
      for (int k = 0; k < d.nvar; k++) { F.push_back(db->getValueByColIdx(i, nc0 + k)); Z.push_back(db->getValueByColIdx(i, nc0 + d.nvar + k)); }
  o.add("factors", F);
  o.add("backtransform", Z);
  delete db;
  return o;
}

// ---- anamorphoses
static const std::vector<VectorDouble>& anamData()
{
  static std::vector<VectorDouble> D = {{0, 1, 2, 5, 100}, {1, 2, 4, 8, 16, 32}, {0, 1, 1, 2, 5, 100}, {-4, -1, -0.25, 0, 0.25, 1, 4}, {3, 3.5, 4, 6, 7, 7.5, 9, 12, 20}, {1, 1, 2}};
  return D;
}
static Obs contObs(AnamContinuous* a)
{
  Obs o;
  if (AnamHermite* h = dynamic_cast<AnamHermite*>(a))
  {
    VectorDouble p = h->getPsiHns();
    o.add("coeffs", std::vector<double>(p.begin(), p.end()));
    o.add("mean-variance", {h->getMean(), h->getVariance()});
  }
  if (AnamEmpirical* e = dynamic_cast<AnamEmpirical*>(a))
  {
    o.add("sigma2e", {e->getSigma2e()});
    o.add("ndisc", {(double)e->getNDisc()});
    o.add("ztable", std::vector<double>(e->getZDisc().begin(), e->getZDisc().end()));
    o.add("ytable", std::vector<double>(e->getYDisc().begin(), e->getYDisc().end()));
  }
  o.add("bounds", {a->getAzmin(), a->getAzmax(), a->getAymin(), a->getAymax(), a->getPzmin(), a->getPzmax(), a->getPymin(), a->getPymax()});
  std::vector<double> fw, bw;
  for (int k = -48; k <= 48; k++) fw.push_back(a->transformToRawValue(k / 16.));
  for (int k = -8; k <= 40; k++) bw.push_back(a->rawToTransformValue(k * 0.75));
  o.add("transformToRawValue", fw);
  o.add("rawToTransformValue", bw);
  return o;
}

VF_PART(reuse)
{
  // ---------------- family 0/1: PCA / MAF histories of 2 and 3 computes on one object
  const auto& FD = factorData();
  int nd = (int)FD.size();
  for (int len = 2; len <= 3; len++)
  {
    Space sp;
    for (int k = 0; k < len; k++) sp.axis("data" + std::to_string(k), nd).axis("op" + std::to_string(k), 2);
    for_each_case_fam(C, len - 2, sp, [&](uint64_t id, const std::vector<int>& ix) {
      std::string kase = std::to_string(len - 2) + "/" + std::to_string(id);
      std::string ops, hist;
      PCA reused;
      std::vector<int> rets;
      for (int k = 0; k < len; k++)
      {
        int op = ix[2 * k + 1]; const FDat& d = FD[ix[2 * k]];
        if (k >= len - 2) ops += std::string(k > len - 2 ? ">" : "") + (op ? "maf" : "pca");   // key = the last two computes
        hist += std::string(k ? " then " : "") + (op ? "maf_compute_interval(" : "pca_compute(") + d.name + ")";
        rets.push_back(factorOp(reused, op, d));
      }
      const FDat& last = FD[ix[2 * (len - 1)]];
      int lop = ix[2 * (len - 1) + 1];
      PCA fresh;
      int ef = factorOp(fresh, lop, last);
      C.eval();
      bool nvarChange = false;
      for (int k = 0; k + 1 < len; k++) if (FD[ix[2 * k]].nvar != last.nvar) nvarChange = true;
      std::string cls = std::string("len") + std::to_string(len) + (nvarChange ? ":nvar-changes" : ":same-nvar");
      if (ef != rets.back()) C.outcome("info:reused-object-differs-from-fresh:pca:return-code");
      if (rets.back())
      {
        // a refused compute: accepted when the data are rank deficient (judged inside factorCase), counted
        KEYPFX = "reuse:pca:" + ops + ":";
        factorCase(C, lop == 1, last.rows, last.nvar, last.extra ? 1 : 0, kase, Hash().i(len).u(id).h, &reused, rets.back());
        KEYPFX.clear();
        return;
      }
      if (ef) { C.outcome("pca:" + cls + ":fresh-refuses-reused-accepts"); }
      Obs a = factorObs(reused, last, lop == 1), b = factorObs(fresh, last, lop == 1);
      std::string detail, w = obsDiff(a, b, detail);
      bool firstFailed = false; for (int k = 0; k + 1 < len; k++) if (rets[k]) firstFailed = true;
      // "differs from a fresh object" is histogram information only (incremental-vs-fresh is the subject of C10)
      C.outcome(w.empty() ? "info:reused-object-equals-fresh:pca" : "info:reused-object-differs-from-fresh:pca:" + w);
      C.outcome("pca:" + cls + (firstFailed ? ":after-a-refused-compute" : ""));
      // the C18 clauses on the REUSED object, with respect to the data of its last compute
      KEYPFX = "reuse:pca:" + ops + ":";
      factorCase(C, lop == 1, last.rows, last.nvar, last.extra ? 1 : 0, kase, Hash().i(len).u(id).h, &reused, rets.back());
      KEYPFX.clear();
      if (id % 1201 == 0) C.sample("{\"class\":\"PCA\",\"history\":" + jstr(hist) + "}");
    });
  }
  // ---------------- family 2/3: anamorphosis histories
  // class: 0 AnamHermite(nbpoly 5), 1 AnamHermite(20), 2 empirical normal score, 3 empirical gaussian dilution (default sigma2e),
  //        4 empirical lognormal dilution ndisc=12 sigma2e=1/4
  // step kinds: fit(data) ; the last step is always a fit. middle operation (len 3 only): 0 fit(data), 1 reset to explicit
  // parameters (then BOTH objects, reused and fresh, are reset the same way before the last fit), 2 copy: the last fit is
  // made on a copy-constructed object (and the original must still answer as before the copy)
  const auto& AD = anamData();
  int na = (int)AD.size();
  auto make = [&](int cls) -> AnamContinuous* {
    if (cls == 0) return AnamHermite::create(5);
    if (cls == 1) return AnamHermite::create(20);
    if (cls == 2) return new AnamEmpirical(100, TEST, false, true);
    if (cls == 3) return new AnamEmpirical(100, TEST, true, true);
    return new AnamEmpirical(12, 0.25, true, false);
  };
  static const char* CLS[5] = {"anam-hermite", "anam-hermite", "anam-empirical-normal-score", "anam-empirical-gaussian-dilution", "anam-empirical-lognormal-dilution"};
  static const char* CLSD[5] = {"AnamHermite(5)", "AnamHermite(20)", "AnamEmpirical(normal score)", "AnamEmpirical(gaussian dilution)", "AnamEmpirical(lognormal dilution,12,0.25)"};
  auto doReset = [&](AnamContinuous* a, int cls) {
    if (AnamHermite* h = dynamic_cast<AnamHermite*>(a)) h->reset(-2, 1, 2, 9, -3, 0.5, 3, 10, 1., {5., -2., 0.5, -0.125, 0., 0., 0., 0.});
    if (AnamEmpirical* e = dynamic_cast<AnamEmpirical*>(a)) e->reset(cls == 4 ? 12 : 100, -1, 1, 1, 3, -1, 1, 1, 3, cls == 4 ? 0.25 : TEST, VectorDouble(cls == 4 ? 12 : 100, 0.), VectorDouble(cls == 4 ? 12 : 100, 0.));
  };
  auto safeFit = [&](AnamContinuous* a, const VectorDouble& d, bool& thrown) { thrown = false; int e = 0; try { e = a->fitFromArray(d); } catch (...) { thrown = true; e = -99; } return e; };
  // C18 clauses on a (re)fitted object with respect to the data of its last fit: the judging functions of parts anam_hermite / anam_empirical
  auto judgeClauses = [&](AnamContinuous* a, int cls, const VectorDouble& data, const std::string& steps, const std::string& hist, const std::string& kase, uint64_t sig) {
    KEYPFX = std::string("reuse:") + CLS[cls] + ":" + steps + ":";
    if (AnamHermite* h = dynamic_cast<AnamHermite*>(a)) judgeHermite(C, h, hist, kase, sig, data);
    if (AnamEmpirical* e = dynamic_cast<AnamEmpirical*>(a)) { int n, nseg, nflat; (void)judgeEmpirical(C, e, cls == 2, data, data, hist, kase, n, nseg, nflat); }
    KEYPFX.clear();
  };
  auto info = [&](int cls, const std::string& w) { C.outcome(w.empty() ? std::string("info:reused-object-equals-fresh:") + CLS[cls] : std::string("info:reused-object-differs-from-fresh:") + CLS[cls] + ":" + w); };
  {
    // len 2: fit A, fit B
    Space sp; sp.axis("class", 5).axis("dataA", na).axis("dataB", na);
    for_each_case_fam(C, 2, sp, [&](uint64_t id, const std::vector<int>& ix) {
      int cls = ix[0];
      std::string kase = "2/" + std::to_string(id);
      std::string hist = std::string(CLSD[cls]) + ": fit(" + vstr(AD[ix[1]]) + ") then fit(" + vstr(AD[ix[2]]) + ")";
      AnamContinuous* r = make(cls); AnamContinuous* f = make(cls);
      bool t1, t2, t3;
      int e1 = safeFit(r, AD[ix[1]], t1);
      int e2 = safeFit(r, AD[ix[2]], t2);
      int ef = safeFit(f, AD[ix[2]], t3);
      C.eval();
      if (e2 != ef) info(cls, "return-code");
      if (e2) { C.skip(); C.outcome(std::string(CLS[cls]) + ":len2:last-fit-refused" + (t2 ? "(exception)" : "") + (ef ? "-by-both" : "-by-the-reused-object-only")); }
      else
      {
        if (!ef) { Obs a = contObs(r), b = contObs(f); std::string detail, w = obsDiff(a, b, detail); info(cls, w); }
        C.outcome(std::string(CLS[cls]) + ":len2" + (ix[1] == ix[2] ? ":same-data-twice" : "") + (e1 ? ":after-a-refused-fit" : ""));
        judgeClauses(r, cls, AD[ix[2]], "fit>fit", hist, kase, Hash().i(20).u(id).h);
        C.nontrivial(Hash().i(20).u(id).h);
      }
      delete r; delete f;
    });
  }
  {
    // len 3: fit A, middle, fit C
    Space sp; sp.axis("class", 5).axis("dataA", na).axis("middle", 3).axis("dataB", na).axis("dataC", na);
    for_each_case_fam(C, 3, sp, [&](uint64_t id, const std::vector<int>& ix) {
      int cls = ix[0], mid = ix[2];
      if (mid != 0 && ix[3] != 0) return;   // dataB is only used by the middle fit
      std::string kase = "3/" + std::to_string(id);
      static const char* MID[3] = {"fit", "reset", "copy"};
      std::string hist = std::string(CLSD[cls]) + ": fit(" + vstr(AD[ix[1]]) + ") then " + (mid == 0 ? "fit(" + vstr(AD[ix[3]]) + ")" : mid == 1 ? std::string("reset(explicit parameters)") : std::string("copy-construct")) + " then fit(" + vstr(AD[ix[4]]) + ")" + (mid == 2 ? " on the copy" : "");
      AnamContinuous* r = make(cls); AnamContinuous* f = make(cls);
      bool t;
      int e1 = safeFit(r, AD[ix[1]], t);
      AnamContinuous* target = r; AnamContinuous* copy = nullptr;
      Obs before;
      if (mid == 0) (void)safeFit(r, AD[ix[3]], t);
      if (mid == 1) { doReset(r, cls); doReset(f, cls); }
      if (mid == 2)
      {
        if (!e1) before = contObs(r);
        copy = dynamic_cast<AnamContinuous*>(r->clone());
        target = copy;
      }
      int e3 = safeFit(target, AD[ix[4]], t);
      int ef = safeFit(f, AD[ix[4]], t);
      C.eval();
      std::string steps = std::string(MID[mid]) + ">fit";   // key = the last two steps
      if (e3 != ef) info(cls, "return-code");
      if (e3) { C.skip(); C.outcome(std::string(CLS[cls]) + ":len3:last-fit-refused" + (ef ? "-by-both" : "-by-the-reused-object-only")); }
      else
      {
        if (!ef) { Obs a = contObs(target), b = contObs(f); std::string detail, w = obsDiff(a, b, detail); info(cls, w); }
        C.outcome(std::string(CLS[cls]) + ":len3:" + MID[mid]);
        judgeClauses(target, cls, AD[ix[4]], steps, hist, kase, Hash().i(30).u(id).h);
        if (mid == 2 && !e1)
        {
          // the original is still the transform fitted on the first data set: its clauses must still hold after its copy was refitted
          Obs after = contObs(r);
          std::string d2, w2 = obsDiff(after, before, d2);
          C.outcome(w2.empty() ? "info:original-unchanged-by-refit-of-its-copy" : "info:original-CHANGED-by-refit-of-its-copy:" + w2);
          judgeClauses(r, cls, AD[ix[1]], "copy>fit(original)", hist + " [judging the ORIGINAL object]", kase, Hash().i(31).u(id).h);
        }
        C.nontrivial(Hash().i(30).u(id).h);
      }
      delete r; delete f; delete copy;
    });
  }
  // ---------------- family 4: rotations. ops: 0..NA-1 setAngles(menu), NA..2NA-1 setMatrixDirect(matrix of menu angles),
  // 2NA resetFromSpaceDimension(same ndim), 2NA+1 resetFromSpaceDimension(other ndim) then back, 2NA+2 setIdentity
  {
    static const double RA[][3] = {{30, 0, 0}, {45, 90, 10}, {-60, 22.5, 270}, {0, 0, 0}, {180, 45, -135}};
    const int NA = 5, NOP = 2 * NA + 3;
    auto apply = [&](Rotation& R, int ndim, int op) {
      if (op < NA) { VectorDouble a = {RA[op][0]}; if (ndim == 3) { a.push_back(RA[op][1]); a.push_back(RA[op][2]); } R.setAngles(a); }
      else if (op < 2 * NA)
      {
        Rotation T(ndim); VectorDouble a = {RA[op - NA][0]}; if (ndim == 3) { a.push_back(RA[op - NA][1]); a.push_back(RA[op - NA][2]); }
        T.setAngles(a);
        R.setMatrixDirect(T.getMatrixDirect());
      }
      else if (op == 2 * NA) R.resetFromSpaceDimension(ndim);
      else if (op == 2 * NA + 1) { R.resetFromSpaceDimension(5 - ndim); R.resetFromSpaceDimension(ndim); }
      else R.setIdentity();
    };
    auto robs = [&](Rotation& R, int ndim) {
      Obs o;
      o.add("ndim", {(double)R.getNDim()});
      o.add("flag", {(double)R.isRotated()});
      o.add("angles", std::vector<double>(R.getAngles().begin(), R.getAngles().end()));
      VectorDouble m = R.getMatrixDirectVec(), mi = R.getMatrixInverseVec();
      o.add("matrix", std::vector<double>(m.begin(), m.end()));
      o.add("inverse", std::vector<double>(mi.begin(), mi.end()));
      VectorDouble v(ndim), w(ndim), u(ndim);
      for (int k = 0; k < ndim; k++) v[k] = 1 + 2 * k;
      R.rotateDirect(v, w); R.rotateInverse(v, u);
      o.add("rotateDirect", std::vector<double>(w.begin(), w.end()));
      o.add("rotateInverse", std::vector<double>(u.begin(), u.end()));
      return o;
    };
    for (int len = 2; len <= 3; len++)
    {
      Space sp; sp.axis("ndim", 2);
      for (int k = 0; k < len; k++) sp.axis("op" + std::to_string(k), k == len - 1 ? 2 * NA : NOP);
      for_each_case_fam(C, 2 + len, sp, [&](uint64_t id, const std::vector<int>& ix) {
        int ndim = ix[0] + 2;
        std::string kase = std::to_string(2 + len) + "/" + std::to_string(id);
        auto opn = [&](int op) { return op < NA ? std::string("setAngles") : op < 2 * NA ? std::string("setMatrixDirect") : op == 2 * NA ? std::string("reset") : op == 2 * NA + 1 ? std::string("reset-other-ndim") : std::string("setIdentity"); };
        Rotation R(ndim), F(ndim);
        std::string ops;
        for (int k = 0; k < len; k++) { apply(R, ndim, ix[1 + k]); if (k >= len - 2) ops += (k > len - 2 ? ">" : "") + opn(ix[1 + k]); }
        apply(F, ndim, ix[len]);
        C.eval();
        Obs a = robs(R, ndim), b = robs(F, ndim);
        std::string detail, w = obsDiff(a, b, detail);
        C.outcome(w.empty() ? "info:reused-object-equals-fresh:rotation" : "info:reused-object-differs-from-fresh:rotation:" + w);
        C.outcome(std::string("rotation:len") + std::to_string(len));
        // C18 clauses on the reused object: orthonormal, det +1, direct o inverse = identity (both orders)
        {
          std::string K = "reuse:rotation:" + ops + ":", desc = "one Rotation(ndim=" + std::to_string(ndim) + ") object, operations ending with " + ops;
          const MatrixSquareGeneral& A = R.getMatrixDirect();
          LD det;
          if (ndim == 2) det = (LD)A.getValue(0, 0) * A.getValue(1, 1) - (LD)A.getValue(0, 1) * A.getValue(1, 0);
          else det = (LD)A.getValue(0, 0) * ((LD)A.getValue(1, 1) * A.getValue(2, 2) - (LD)A.getValue(1, 2) * A.getValue(2, 1))
                   - (LD)A.getValue(0, 1) * ((LD)A.getValue(1, 0) * A.getValue(2, 2) - (LD)A.getValue(1, 2) * A.getValue(2, 0))
                   + (LD)A.getValue(0, 2) * ((LD)A.getValue(1, 0) * A.getValue(2, 1) - (LD)A.getValue(1, 1) * A.getValue(2, 0));
          if (fabsl(det - 1) > 1e-12L) C.violation(K + "det", desc + ": determinant " + fmt((double)det), kase);
          bool ortho = true;
          for (int i = 0; i < ndim; i++) for (int j = 0; j < ndim; j++)
          {
            LD sdot = 0; for (int k = 0; k < ndim; k++) sdot += (LD)A.getValue(i, k) * A.getValue(j, k);
            if (fabsl(sdot - (i == j)) > 1e-12L) ortho = false;
          }
          if (!ortho) C.violation(K + "orthonormal", desc + ": direct matrix " + vstr(A.getValues()) + " is not orthonormal", kase);
          VectorDouble v(ndim), w1(ndim), u(ndim);
          for (int k = 0; k < ndim; k++) v[k] = 1 + 2 * k;
          R.rotateDirect(v, w1); R.rotateInverse(w1, u);
          bool ok = true; for (int k = 0; k < ndim; k++) if (std::fabs(u[k] - v[k]) > 16e-12) ok = false;
          if (!ok) C.violation(K + "inverse-of-direct", desc + ": rotateInverse(rotateDirect(" + vstr(v) + "))=" + vstr(u), kase);
          R.rotateInverse(v, w1); R.rotateDirect(w1, u);
          ok = true; for (int k = 0; k < ndim; k++) if (std::fabs(u[k] - v[k]) > 16e-12) ok = false;
          if (!ok) C.violation(K + "direct-of-inverse", desc + ": rotateDirect(rotateInverse(" + vstr(v) + "))=" + vstr(u), kase);
        }
        C.nontrivial(Hash().i(40 + len).u(id).h);
      });
    }
  }
  if (owns_part(C)) C.note("VH::normalScore is a static function (no state): no reuse history; AnamDiscreteDD/IR are not raw<->Gaussian transforms and are not driven");
}

// ================================================================================================
// PART 14: change of support (discrete Gaussian block model) of the Hermite anamorphosis: psi_n -> psi_n r^n.
// Routes: 0 setRCoef(r) after the fit, 1 updatePointToBlock(r) after the fit, 2 r given to the constructor, then the fit.
// Clauses: block coefficients = psi_n r^n (independent product), mean unchanged, variance = sum psi_n^2 r^2n <= point variance,
// computeVariance(c) = sum psi_n^2 r^2n c^n, r = 1 identical to the point model, forward transform (bounds off) = sum psi_n r^n H_n(y)
// with the long double reference polynomials, and - with bounds on, as the object is used - the round trips / monotonicity of
// part anam_hermite inside the interval the object reports AFTER the change of support.
// AnamDiscreteDD / AnamDiscreteIR block models are not raw<->Gaussian transforms (no inverse to compose): not driven.
VF_PART(change_of_support)
{
  const auto& M0 = dataMenu(C.thorough());
  static std::vector<DataSet> M;
  if (M.empty())
  {
    for (auto& d : M0) if (!isConstant(d.z) && d.z.size() >= 4 && d.z.size() <= (C.thorough() ? 129u : 33u) && (C.thorough() || d.z.size() <= 5 || d.name.compare(0, 2, "ms") != 0)) M.push_back(d);
    M.push_back({{0, 0.5, 1, 1, 1.5, 9, 9.5, 10, 10, 11}, "bimodal"});
    M.push_back({{-64, -8, -8, -4, -2, -1, -1, -0.5, -0.25, 0}, "left-skewed"});
  }
  static const int NB[] = {3, 5, 10, 20, 40};
  static const double RC[] = {1, 0.9, 0.5, 0.1};
  static const char* ROUTE[] = {"setRCoef", "updatePointToBlock", "constructor"};
  Space sp; sp.axis("data", (int)M.size()).axis("nbpoly", 5).axis("r", 4).axis("route", 3);
  for_each_case(C, sp, [&](uint64_t id, const std::vector<int>& ix) {
    const DataSet& D = M[ix[0]];
    int nb = NB[ix[1]]; double r = RC[ix[2]]; int route = ix[3];
    std::string kase = std::to_string(id);
    std::string desc = "AnamHermite(nbpoly=" + std::to_string(nb) + ") fitted on " + (D.z.size() <= 12 ? vstr(D.z) : D.name) + ", change of support r=" + fmt(r) + " through " + ROUTE[route];
    AnamHermite* pt = AnamHermite::create(nb);
    if (pt->fitFromArray(D.z)) { C.skip(); C.outcome("point-fit-fails(judged elsewhere)"); delete pt; return; }
    AnamHermite* bl = route == 2 ? AnamHermite::create(nb, true, r) : AnamHermite::create(nb);
    int e = bl->fitFromArray(D.z);
    if (!e && route == 0) bl->setRCoef(r);
    if (!e && route == 1) e = bl->updatePointToBlock(r);
    C.eval();
    if (e) { C.violation(std::string("cos:anam-hermite:") + ROUTE[route] + ":fails", desc + ": returns " + std::to_string(e), kase); delete pt; delete bl; return; }
    std::string K = "cos:anam-hermite:";
    VectorDouble psi = pt->getPsiHns(), psb = bl->getPsiHns();
    // ---- r = 1 : the point model
    if (r == 1)
    {
      Obs a = contObs(bl), b = contObs(pt);
      std::string detail, w = obsDiff(a, b, detail);
      C.outcome(w.empty() ? "r=1:identical-to-point-model" : "r=1:DIFFERS");
      if (!w.empty()) C.violation(K + "r=1-differs-from-point:" + w, desc + ": " + detail, kase);
    }
    // ---- coefficients psi_n r^n, mean, variance
    {
      bool ok = (int)psb.size() == nb;
      LD rn = 1, var = 0, varc = 0, cn = 1;
      for (int n = 0; n < nb && ok; n++)
      {
        LD want = (LD)psi[n] * rn;
        if (fabsl((LD)psb[n] - want) > 1e-12L * fabsl(want) || fabsl((LD)bl->getPsiHn(n) - want) > 1e-12L * fabsl(want))
        { ok = false; C.violation(K + "coefficients", desc + ": block coefficient " + std::to_string(n) + " = " + fmt(psb[n]) + " / " + fmt(bl->getPsiHn(n)) + ", psi_n r^n = " + fmt((double)want), kase); }
        if (n >= 1) { var += want * want; varc += want * want * cn; }   // cn = 0.5^n
        rn *= (LD)r; cn *= 0.5L;
      }
      C.eval();
      if (!sameBits(bl->getMean(), pt->getMean()) || !sameBits(bl->getMean(), psi[0]))
        C.violation(K + "mean", desc + ": mean of the block model " + fmt(bl->getMean()) + ", point model " + fmt(pt->getMean()) + " (psi_0=" + fmt(psi[0]) + ")", kase);
      if (fabsl((LD)bl->getVariance() - var) > 1e-12L * var || fabsl((LD)bl->computeVariance(1.) - var) > 1e-12L * var)
        C.violation(K + "variance", desc + ": variance " + fmt(bl->getVariance()) + " / computeVariance(1)=" + fmt(bl->computeVariance(1.)) + ", sum psi_n^2 r^2n = " + fmt((double)var), kase);
      if (fabsl((LD)bl->computeVariance(0.5) - varc) > 1e-12L * std::max<LD>(varc, 1e-300L))
        C.violation(K + "computeVariance", desc + ": computeVariance(0.5)=" + fmt(bl->computeVariance(0.5)) + ", sum psi_n^2 r^2n 0.5^n = " + fmt((double)varc), kase);
      if (bl->getVariance() > pt->getVariance() * (1 + 1e-12))
        C.violation(K + "variance-not-reduced", desc + ": block variance " + fmt(bl->getVariance()) + " > point variance " + fmt(pt->getVariance()), kase);
      C.outcome(r == 1 ? "variance:r=1" : bl->getVariance() < pt->getVariance() ? "variance:reduced" : "variance:equal");
    }
    // ---- forward transform without bounds = sum psi_n r^n H_n(y)
    {
      bl->setFlagBound(false);
      bool ok = true;
      for (int k = -32; k <= 32 && ok; k++)
      {
        double y = k / 8.;
        std::vector<LD> h; refH((LD)y, nb, h);
        LD want = 0, sabs = 0, rn = 1;
        for (int n = 0; n < nb; n++) { want += (LD)psi[n] * rn * h[n]; sabs += fabsl((LD)psi[n] * rn * h[n]); rn *= (LD)r; }
        double got = bl->transformToRawValue(y);
        C.eval();
        if (fabsl((LD)got - want) > 1e-10L * std::max<LD>(sabs, 1e-300L))
        { ok = false; C.violation(K + "forward", desc + ": (bounds off) T(" + fmt(y) + ")=" + fmt(got) + ", sum psi_n r^n H_n(y)=" + fmt((double)want), kase); }
      }
      bl->setFlagBound(true);
    }
    // ---- round trips / monotonicity inside the interval reported after the change of support
    if (r < 1)
    {
      // the point fit itself must be clean (known _defineBounds defects, non-monotone fits are judged in part anam_hermite)
      Ctx tmp; tmp.cur_part = "scratch";
      judgeHermite(tmp, pt, "", "", 0, D.z);
      bool clean = tmp.violCount.empty() && LAST_BOUNDS_CLASS == 0;
      if (!clean) { C.skip(); C.outcome("roundtrip:point-fit-not-clean-or-bounds-not-nested(excluded)"); }
      else
      {
        // mechanism: the bounds are those of the POINT model; the block curve does not pass through (py, pz) any more
        bl->setFlagBound(false);
        double tlo = bl->transformToRawValue(bl->getPymin()), thi = bl->transformToRawValue(bl->getPymax());
        bl->setFlagBound(true);
        double zsc = std::max({std::fabs(bl->getPzmin()), std::fabs(bl->getPzmax()), 1e-300});
        bool stale = std::fabs(tlo - bl->getPzmin()) > 1e-9 * zsc || std::fabs(thi - bl->getPzmax()) > 1e-9 * zsc;
        uint64_t nv0 = 0; for (auto& kv : C.violCount) nv0 += kv.second;
        // routes 0/1: the bounds come from the point fit, the known _defineBounds mechanisms do not apply to the block curve;
        // route 2: _defineBounds ran on the block curve itself, its known mechanisms keep their own keys
        KEYPFX = K; NO_BOUNDS_MECH = (route != 2);
        if (stale) MECH_OVERRIDE = K + "stale-point-bounds";
        judgeHermite(C, bl, desc, kase, id, D.z);
        MECH_OVERRIDE.clear(); NO_BOUNDS_MECH = false;
        KEYPFX.clear();
        uint64_t nv1 = 0; for (auto& kv : C.violCount) nv1 += kv.second;
        C.outcome(std::string("roundtrip:") + (stale ? "bounds-are-the-point-ones" : "bounds-consistent") + (nv1 > nv0 ? ":CLAUSE-VIOLATED" : ":clauses-hold"));
      }
    }
    C.nontrivial(id);
    C.outcome(std::string("route:") + ROUTE[route] + ":r=" + fmt(r));
    if (id % 1999 == 0) C.sample("{\"data\":" + jstr(D.name) + ",\"nbpoly\":" + std::to_string(nb) + ",\"r\":" + fmt(r) + ",\"route\":" + jstr(ROUTE[route]) + ",\"variance\":" + fmt(bl->getVariance()) + ",\"point_variance\":" + fmt(pt->getVariance()) + "}");
    delete pt; delete bl;
  });
}

int main(int argc, char** argv)
{
  // my_throw() prints every exception text on std::cout, whatever the message redirection: drop it
  return run_main(argc, argv, [](Ctx&) { silence(); std::cout.setstate(std::ios_base::failbit); });
}
