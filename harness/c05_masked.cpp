// C05 — masked or undefined samples never influence a result.
// Engine E1: every Db of a small menu x EVERY selection mask (2^n) x patterns of undefined cells x operation.
// Differential oracle: the same public call on a PHYSICALLY reduced Db which the harness builds itself from the raw arrays
// (never through Db::createReduce / deleteSamples, which are themselves judged against that table).
// Reduction rule (from the property): a sample is removed iff it is masked, or one of its coordinates is undefined, or all of
// its variables are undefined; a value undefined in one variable only stays (same sample, that variable undefined).
#include "vf/c0405_menu.hpp"
#include "vf/fork.hpp"

#include "Basic/NamingConvention.hpp"
#include "Calculators/CalcMigrate.hpp"
#include "Covariances/ACovAnisoList.hpp"
#include "Enum/ECalcVario.hpp"
#include "Enum/EStatOption.hpp"
#include "Estimation/CalcKriging.hpp"
#include "Matrix/MatrixRectangular.hpp"
#include "Matrix/MatrixSquareSymmetric.hpp"
#include "Matrix/Table.hpp"
#include "Matrix/MatrixSparse.hpp"
#include "Space/SpacePoint.hpp"
#include "Neigh/NeighMoving.hpp"
#include "Neigh/NeighUnique.hpp"
#include "Simulation/CalcSimuTurningBands.hpp"
#include "Stats/Classical.hpp"
#include "Anamorphosis/AnamHermite.hpp"
#include "Estimation/CalcSimpleInterpolation.hpp"
#include "Stats/PCA.hpp"
#include "Stats/Regression.hpp"
#include "Variogram/VCloud.hpp"
#include "Variogram/VMap.hpp"
#include "geoslib_f.h"
#include "Variogram/Vario.hpp"
#include "Variogram/VarioParam.hpp"

using namespace vf;
using namespace vfm;

// a child is declared "not returning" on CPU time (1 s, normal cases take milliseconds), not on wall time: the machine may be
// heavily loaded by other jobs; the wall time-out given to run_child is only a backstop
static void limit_child_cpu(int seconds = 1) { struct rlimit rl; rl.rlim_cur = (rlim_t)seconds; rl.rlim_max = (rlim_t)seconds + 1; setrlimit(RLIMIT_CPU, &rl); }
static bool child_hung(const vf::ChildResult& cr) { return cr.kind == vf::ChildResult::TIMEOUT || (cr.kind == vf::ChildResult::SIGNALED && (cr.code == SIGXCPU || cr.code == SIGKILL)); }
namespace c5
{
static const int NUPAT = 5;
static const char* UPAT_NAME[NUPAT] = {"none", "z1[0] undefined", "x1[1] undefined", "z(last var)[1] undefined", "z1[0] and x(last)[2] undefined"};
static void upattern(Raw& r, int pat)
{
  switch (pat)
  {
    case 0: break;
    case 1: r.z[0][0] = TEST; break;
    case 2: r.x[0][1] = TEST; break;
    case 3: r.z[r.nvar - 1][1] = TEST; break;
    case 4: r.z[0][0] = TEST; r.x[r.ndim - 1][2] = TEST; break;
  }
}
// keep[i] by the rule of the property
static std::vector<int> keepOf(const Raw& r)
{
  std::vector<int> k(r.n, 1);
  for (int i = 0; i < r.n; i++)
  {
    if (!r.sel.empty() && r.sel[i] <= 0) k[i] = 0;
    for (int d = 0; d < r.ndim; d++) if (FFFF(r.x[d][i])) k[i] = 0;
    bool anydef = r.z.empty();
    for (auto& z : r.z) if (!FFFF(z[i])) anydef = true;
    if (!anydef) k[i] = 0;
  }
  return k;
}
static VD col(const Db* db, const std::string& name)
{
  int ic = db->getColIdx(name);
  VD v(db->getSampleNumber(), std::nan(""));
  if (ic < 0) return v;
  for (int i = 0; i < db->getSampleNumber(); i++) v[i] = db->getValueByColIdx(i, ic);
  return v;
}
static bool undef(double v) { return FFFF(v) || std::isnan(v); }
struct Obs
{
  std::vector<std::string> lab;
  VD val;
  int err = 0;
  void add(const std::string& l, double v) { lab.push_back(l); val.push_back(v); }
};
// "" when equal
static std::string cmpObs(const Obs& a, const Obs& b, double tol, double& worst)
{
  if (a.err != b.err) return "return codes " + std::to_string(a.err) + " (with masked/undefined samples) vs " + std::to_string(b.err) + " (after removal)";
  if (a.val.size() != b.val.size()) return "number of results " + std::to_string(a.val.size()) + " vs " + std::to_string(b.val.size());
  for (size_t i = 0; i < a.val.size(); i++)
  {
    bool ua = undef(a.val[i]), ub = undef(b.val[i]);
    if (ua || ub) { if (ua != ub) return a.lab[i] + ": " + fmt(a.val[i]) + " vs " + fmt(b.val[i]); continue; }
    double e = std::fabs(a.val[i] - b.val[i]) / std::max({1., std::fabs(a.val[i]), std::fabs(b.val[i])});
    worst = std::max(worst, e);
    if (e > tol) return a.lab[i] + ": " + fmt(a.val[i]) + " (with masked/undefined samples) vs " + fmt(b.val[i]) + " (after removal)";
  }
  return "";
}
static std::string decade(double d)
{
  if (d == 0) return "diff=0";
  int e = (int)std::floor(std::log10(d));
  if (e < -16) e = -16;
  char b[32]; snprintf(b, 32, "diff~1e%+03d", e);
  return b;
}
static Model* mkModel(int ndim, int nvar, int km, int kmean)
{
  // km: 0 spherical/lmc-sph ; 1 nug+aniso rotated ; 2 (mono) two structures in different frames / (bi) exp-rot + gauss
  static const int M1[3] = {1, 5, 6}, M2[3] = {0, 1, 2};
  Model* m = make_model(ndim, nvar, nvar == 1 ? M1[km] : M2[km]);
  if (kmean == 1) m->setDriftIRF(0);
  if (kmean == 2) m->setDriftIRF(1);
  return m;
}
static const char* MEAN_NAME[3] = {"SK mean 0", "ordinary", "linear drift"};

// the 4 targets (+ optional target mask)
static Db* mkTargets(int ndim, int ilay, const VD& tsel, bool withOld)
{
  Raw t; t.ndim = ndim; t.nvar = 0; t.n = 4; t.x = targets(ndim, ilay, 4);
  if (withOld) t.f.push_back({7, 8, 9, 10});   // a pre-existing column which must stay bit-identical
  t.sel = tsel;
  return raw_to_db(t);
}
}  // namespace c5

// -----------------------------------------------------------------------------------------------------
// generic driver: enumerates Db x mask x u-pattern, builds masked + reduced tables, calls op(C, ctx)
// -----------------------------------------------------------------------------------------------------
struct Setup
{
  int ndim, ilay, n, nvar, upat; unsigned mask;
  Raw full, red;
  std::vector<int> keep, rank;  // rank[i] = index in the reduced table or -1
  int nkeep = 0;
  std::string desc;
};
template<class F> static void enumDbs(Ctx& C, int nvarMax, int extraRadix, const char* extraName, F body)
{
  bool T = C.thorough();
  int nmax = T ? 6 : 4;
  Space sp;
  // one product space (plain integer case ids, replayable): masks >= 2^n do not exist for the smaller n and are skipped
  sp.axis("n", nmax - 2).axis("ndim", 2).axis("layout", NLAYOUT).axis("nvar", nvarMax).axis("upat", c5::NUPAT).axis("mask", 1 << nmax).axis(extraName, extraRadix);
  for_each_case(C, sp, [&](uint64_t id, const std::vector<int>& idx0) {
    int n = 3 + idx0[0];
    if (idx0[5] >= (1 << n)) return;
    std::vector<int> idx(idx0.begin() + 1, idx0.end());
    Setup S;
    S.ndim = idx[0] + 1; S.ilay = idx[1]; S.n = n; S.nvar = idx[2] + 1; S.upat = idx[3]; S.mask = (unsigned)idx[4];
    if (S.upat == 3 && S.nvar == 1) { C.skip(); return; }   // same as pattern 1 up to the sample index
    set_ndim(S.ndim);
    S.full = make_raw(S.ndim, S.nvar, S.ilay, n);
    c5::upattern(S.full, S.upat);
    S.full.sel = VD(n); for (int i = 0; i < n; i++) S.full.sel[i] = (S.mask >> i) & 1;
    if (S.mask == (1u << n) - 1 && (idx[5] & 1)) S.full.sel.clear();   // full mask: also the Db without any selection column
    S.keep = c5::keepOf(S.full);
    S.rank.assign(n, -1);
    for (int i = 0; i < n; i++) if (S.keep[i]) S.rank[i] = S.nkeep++;
    S.red = reduce_raw(S.full, S.keep);
    S.desc = "n=" + std::to_string(n) + " data=" + raw_str(S.full) + " undefined-pattern=" + c5::UPAT_NAME[S.upat];
    if (id % 1777 == 3) C.sample("{\"id\":" + std::to_string(id) + ",\"setup\":" + jstr(S.desc) + ",\"removed\":" + std::to_string(S.n - S.nkeep) + "}");
    body(S, idx[5], std::to_string(id));
  });
}
// replay support: for_each_case parses only_case as an integer; our case strings are "n/id" -> handled in main()

// =====================================================================================================
// kriging / xvalid / simtub
// =====================================================================================================
static c5::Obs runKrig(const Raw& data, int ndim, int ilay, int nvar, int km, int kmean, int kneigh, const VD& tsel, std::string* oldcolsDiff)
{
  using namespace c5;
  Obs o;
  DbP din(raw_to_db(data));
  DbP dout(mkTargets(ndim, ilay, tsel, true));
  ModelP m(mkModel(ndim, nvar, km, kmean));
  std::unique_ptr<ANeigh> ng(kneigh == 0 ? (ANeigh*)NeighUnique::create() : (ANeigh*)NeighMoving::create(false, kneigh == 1 ? 2 : 3, TEST, 1, 1, ITEST, VectorDouble(ndim, 1.)));
  std::string before_in = db_snapshot(din.get()), before_out = db_snapshot(dout.get());
  int ncol_out = dout->getColumnNumber();
  o.err = kriging(din.get(), dout.get(), m.get(), ng.get(), EKrigOpt::POINT, true, true, false);
  for (int iv = 0; iv < nvar; iv++)
  {
    std::string z = "Kriging.z" + std::to_string(iv + 1);
    VD e = col(dout.get(), z + ".estim"), s = col(dout.get(), z + ".stdev");
    for (int t = 0; t < 4; t++) { o.add(z + ".estim[target " + std::to_string(t) + "]", e[t]); o.add(z + ".stdev[target " + std::to_string(t) + "]", s[t]); }
  }
  if (oldcolsDiff)
  {
    // old columns bit-identical: the snapshot of the first ncol_out columns of dbout and of all of dbin
    std::string after_in = db_snapshot(din.get());
    if (after_in != before_in) *oldcolsDiff = "input Db modified by kriging";
    // compare only the pre-existing columns of dbout
    std::string after_out = db_snapshot(dout.get());
    // lines 1..ncol_out of the snapshot (line 0 is the header with ncol)
    auto lines = [](const std::string& s, int k) { std::string r; size_t p = s.find('\n') + 1; for (int i = 0; i < k; i++) { size_t q = s.find('\n', p); r += s.substr(p, q - p + 1); p = q + 1; } return r; };
    if (lines(before_out, ncol_out) != lines(after_out, ncol_out)) *oldcolsDiff = "pre-existing columns of the output Db modified by kriging";
  }
  return o;
}

VF_PART(kriging_masked_vs_removed)
{
  using namespace c5;
  // extra axis: model(3) x mean(3) x neigh(3) x target mask(2)
  enumDbs(C, 2, 3 * 3 * 3 * 2, "model-mean-neigh-tmask", [&](Setup& S, int ex, const std::string& kase) {
    int km = ex % 3, kmean = (ex / 3) % 3, kneigh = (ex / 9) % 3, ktm = ex / 27;
    VD tsel = ktm ? VD({1, 0, 0, 1}) : VD();
    if (S.nkeep == 0) { C.skip(); C.outcome("empty-active-set:not-judged"); return; }
    int nfeq = kmean == 0 ? 0 : kmean == 1 ? 1 : 1 + S.ndim;
    // count defined data per variable in the reduced table: need more than the drift equations
    int ndef = 0; for (int i = 0; i < S.red.n; i++) if (!FFFF(S.red.z[0][i])) ndef++;
    if (ndef <= nfeq) { C.skip(); C.outcome("excluded:not-more-data-than-drift-equations"); return; }
    std::string oldDiff;
    Obs a = runKrig(S.full, S.ndim, S.ilay, S.nvar, km, kmean, kneigh, tsel, &oldDiff);
    Obs b = runKrig(S.red, S.ndim, S.ilay, S.nvar, km, kmean, kneigh, tsel, nullptr);
    C.eval();
    double worst = 0;
    std::string d = cmpObs(a, b, 1e-9, worst);
    bool reduced = S.nkeep < S.n;
    if (reduced) C.nontrivial(Hash().s(kase).h);
    C.outcome(std::string(reduced ? "some-removed:" : "nothing-removed:") + (d.empty() ? decade(worst) : "DIFFERENT"));
    std::string what = " ; " + S.desc + " model#" + std::to_string(km) + " " + MEAN_NAME[kmean] + " neigh=" + (kneigh == 0 ? "unique" : kneigh == 1 ? "moving nmaxi=2" : "moving nmaxi=3") + " targetmask=" + vstr(tsel);
    if (!d.empty())
      C.violation(std::string("kriging:") + (kneigh ? "moving" : "unique") + (S.upat == 2 || S.upat == 4 ? ":undefined-coordinate" : S.upat ? ":undefined-value" : ":selection"), "kriging differs: " + d + what, kase);
    if (!oldDiff.empty()) C.violation("kriging:old-columns-modified", oldDiff + what, kase);
    // masked targets keep the undefined value in the new variables
    if (ktm && a.err == 0)
      for (size_t i = 0; i < a.val.size(); i++)
      {
        int t = (int)((i / 2) % 4);
        if (tsel[t] <= 0 && !undef(a.val[i])) { C.violation("kriging:masked-target-written", a.lab[i] + " = " + fmt(a.val[i]) + " at a masked target" + what, kase); break; }
      }
  });
}

VF_PART(xvalid_masked_vs_removed)
{
  using namespace c5;
  enumDbs(C, 1, 3 * 2 * 2, "model-mean-neigh", [&](Setup& S, int ex, const std::string& kase) {
    int km = ex % 3, kmean = (ex / 3) % 2, kneigh = ex / 6;
    if (S.nkeep < 3) { C.skip(); C.outcome("excluded:fewer-than-3-usable-samples"); return; }
    auto run = [&](const Raw& data, VD& est, VD& std_) {
      DbP db(raw_to_db(data));
      ModelP m(mkModel(S.ndim, 1, km, kmean));
      std::unique_ptr<ANeigh> ng(kneigh == 0 ? (ANeigh*)NeighUnique::create() : (ANeigh*)NeighMoving::create(false, 3, TEST, 1, 1, ITEST, VectorDouble(S.ndim, 1.)));
      int err = xvalid(db.get(), m.get(), ng.get(), false, 1, 1, 0);
      est = col(db.get(), "Xvalid.z1.esterr"); std_ = col(db.get(), "Xvalid.z1.stderr");
      return err;
    };
    VD ea, sa, eb, sb;
    Obs a, b;
    a.err = run(S.full, ea, sa); b.err = run(S.red, eb, sb);
    C.eval();
    bool written = false, writtenUndefCoord = false;
    for (int i = 0; i < S.n; i++)
    {
      if (S.rank[i] < 0)
      {
        if (!undef(ea[i]) || !undef(sa[i]))
        {
          bool masked = !S.full.sel.empty() && S.full.sel[i] <= 0, uz = FFFF(S.full.z[0][i]);
          if (!masked && !uz) writtenUndefCoord = true; else written = true;   // active, defined value, undefined coordinate
        }
        continue;
      }
      a.add("esterr[sample " + std::to_string(i) + "]", ea[i]); b.add("", eb[S.rank[i]]);
      a.add("stderr[sample " + std::to_string(i) + "]", sa[i]); b.add("", sb[S.rank[i]]);
    }
    double worst = 0;
    std::string d = cmpObs(a, b, 1e-9, worst);
    bool reduced = S.nkeep < S.n;
    if (reduced) C.nontrivial(Hash().s(kase).h);
    C.outcome(std::string(reduced ? "some-removed:" : "nothing-removed:") + (d.empty() ? decade(worst) : "DIFFERENT"));
    std::string what = " ; " + S.desc + " model#" + std::to_string(km) + " " + MEAN_NAME[kmean] + " neigh=" + (kneigh == 0 ? "unique" : "moving nmaxi=3");
    if (!d.empty()) C.violation(std::string("xvalid:") + (kneigh ? "moving" : "unique") + (S.upat == 2 || S.upat == 4 ? ":undefined-coordinate" : S.upat ? ":undefined-value" : ":selection"), "xvalid differs: " + d + what, kase);
    if (written) C.violation(std::string("xvalid:inactive-site-written:") + (kneigh ? "moving" : "unique"), "a masked / undefined-valued sample received a cross-validation result" + what, kase);
    if (writtenUndefCoord) C.violation(std::string("xvalid:undefined-coordinate-site-written:") + (kneigh ? "moving" : "unique"), "a sample with an undefined coordinate received a cross-validation result" + what, kase);
  });
}

VF_PART(simtub_masked_vs_removed)
{
  using namespace c5;
  enumDbs(C, 1, 2 * 2, "model-neigh", [&](Setup& S, int ex, const std::string& kase) {
    int km = ex % 2, kneigh = ex / 2;   // model 0 spherical, 1 nugget + anisotropic spherical
    if (S.nkeep == 0) { C.skip(); C.outcome("empty-active-set:not-judged"); return; }
    // an ACTIVE sample with an undefined coordinate makes the turning bands run (practically) for ever on the unchanged tree:
    // every such case costs a child time-out, so that pattern is enumerated on the smallest tables only
    if ((S.upat == 2 || S.upat == 4) && (S.n > 3 || ex != 0)) { C.skip(); C.outcome("undefined-coordinate:larger-tables-not-run(time-out cost)"); return; }
    if (!C.thorough() && (S.upat == 4 || (S.upat == 2 && S.ilay != 0))) { C.skip(); C.outcome("undefined-coordinate:quick-tier-runs-one-pattern-and-layout(time-out cost)"); return; }
    auto run = [&](const Raw& data) {
      Obs o;
      DbP din(raw_to_db(data));
      // grid target (conditioning onto a point Db is a separate, already known defect judged by C13); node 2 masked
      VectorInt nx(S.ndim, S.ndim == 1 ? 4 : 2); VectorDouble dx(S.ndim), x0(S.ndim);
      for (int d = 0; d < S.ndim; d++) { dx[d] = 1.375 + 0.25 * d; x0[d] = -0.3125 + 0.125 * d; }
      std::unique_ptr<DbGrid> dout(DbGrid::create(nx, dx, x0));
      dout->addSelection(VectorDouble({1, 1, 0, 1}));
      ModelP m(mkModel(S.ndim, 1, km, 0));
      std::unique_ptr<ANeigh> ng(kneigh == 0 ? (ANeigh*)NeighUnique::create() : (ANeigh*)NeighMoving::create(false, 3, TEST, 1, 1, ITEST, VectorDouble(S.ndim, 1.)));
      law_set_random_seed(13579);
      o.err = simtub(din.get(), dout.get(), m.get(), ng.get(), 2, 4321, 10);
      int nc = dout->getColumnNumber();
      for (int k = 0; k < 2; k++) for (int t = 0; t < 4; t++) o.add("simulation " + std::to_string(k) + " [node " + std::to_string(t) + "]", o.err ? TEST : dout->getValueByColIdx(t, nc - 2 + k));
      return o;
    };
    // each case in a forked child: a conditional simulation that does not return is reported, not waited for
    std::string what = " ; " + S.desc + " model#" + std::to_string(km) + " neigh=" + (kneigh == 0 ? "unique" : "moving nmaxi=3");
    bool reduced = S.nkeep < S.n;
    ChildResult cr = run_child([&](int wfd) {
      limit_child_cpu();
      Obs a = run(S.full), b = run(S.red);
      double worst = 0;
      std::string d = cmpObs(a, b, 1e-9, worst);
      bool written = a.err == 0 && (!undef(a.val[2]) || !undef(a.val[6]));
      child_write(wfd, std::string(written ? "W" : "-") + fmt(a.val[2]) + "|" + decade(worst) + "|" + d);
      return 0;
    }, 120.);
    C.eval();
    std::string cls = (S.upat == 2 || S.upat == 4 ? ":undefined-coordinate" : S.upat ? ":undefined-value" : ":selection");
    if (!cr.clean() || cr.code != 0 || cr.data.size() < 3)
    {
      C.outcome("child:" + cr.describe());
      C.violation(std::string("simtub:") + (child_hung(cr) ? "does-not-return" : "crash") + cls, std::string("conditional simulation ") + (child_hung(cr) ? "uses more than 1 s of CPU (milliseconds after removal): " : "") + cr.describe() + what, kase);
      return;
    }
    size_t p1 = cr.data.find('|'), p2 = cr.data.find('|', p1 + 1);
    std::string d = cr.data.substr(p2 + 1), dec = cr.data.substr(p1 + 1, p2 - p1 - 1);
    if (reduced) C.nontrivial(Hash().s(kase).h);
    C.outcome(std::string(reduced ? "some-removed:" : "nothing-removed:") + (d.empty() ? dec : "DIFFERENT"));
    if (!d.empty()) C.violation(std::string("simtub:") + (kneigh ? "moving" : "unique") + cls, "conditional simulation differs: " + d + what, kase);
    if (cr.data[0] == 'W') C.violation("simtub:masked-target-written", "masked grid node 2 holds " + cr.data.substr(1, p1 - 1) + " in the new simulation variable instead of the undefined value" + what, kase);
  });
}


// -----------------------------------------------------------------------------------------------------
// conditional simulations onto a grid whose NODES CARRY DATA: all / some / none of the samples sit exactly on a node,
// every selection mask on the data, target masks that include nodes carrying a datum, 1..3 simulations.
// (the conditioning step copies a datum lying on a node onto that node: both the datum's and the node's mask matter there)
// -----------------------------------------------------------------------------------------------------
namespace sc
{
static const int NTM = 5;
// grid: 1-D 5 nodes at 0..4 ; 2-D 3 x 2 nodes at (0..2, 0..1) ; unit mesh, origin 0
static int nnodes(int ndim) { return ndim == 1 ? 5 : 6; }
static DbGrid* mkGrid(int ndim, const VD& tsel)
{
  VectorInt nx = ndim == 1 ? VectorInt({5}) : VectorInt({3, 2});
  DbGrid* g = DbGrid::create(nx, VectorDouble(ndim, 1.), VectorDouble(ndim, 0.));
  if (!tsel.empty()) g->addSelection(VectorDouble(tsel.begin(), tsel.end()));
  return g;
}
// node rank carrying sample i in the "on node" layouts (-1: off node)
static const int NODE1[5] = {0, 2, 3, 1, 4};           // 1-D: x = node index
static const int NODE2[5] = {0, 2, 4, 3, 5};           // 2-D: rank = ix + 3 * iy -> (0,0) (2,0) (1,1) (0,1) (2,1)
// kind 0: every sample on a node ; 1: samples 1 and 3 moved off their node ; 2: the generic layout of the menu (none on a node)
static Raw mkData(int ndim, int kind, int n, std::vector<int>& node)
{
  Raw r = make_raw(ndim, 1, 0, n);
  node.assign(n, -1);
  if (kind == 2) return r;
  for (int i = 0; i < n; i++)
  {
    int nd = ndim == 1 ? NODE1[i] : NODE2[i];
    bool off = kind == 1 && (i % 2 == 1);
    if (ndim == 1) r.x[0][i] = nd + (off ? 0.375 : 0.);
    else { r.x[0][i] = nd % 3 + (off ? 0.375 : 0.); r.x[1][i] = nd / 3 + (off ? 0.25 : 0.); }
    if (!off) node[i] = nd;
  }
  return r;
}
// target masks: 0 none ; 1 node of sample 0 masked ; 2 nodes of samples 0 and 2 masked ; 3 a node without datum masked (n<=4) ;
// 4 every node carrying one of the first three samples masked
static VD tmask(int ndim, int k)
{
  int nn = nnodes(ndim);
  if (k == 0) return VD();
  VD t(nn, 1.);
  const int* N = ndim == 1 ? NODE1 : NODE2;
  if (k == 1) t[N[0]] = 0;
  if (k == 2) { t[N[0]] = 0; t[N[2]] = 0; }
  if (k == 3) t[N[4]] = 0;
  if (k == 4) { t[N[0]] = 0; t[N[1]] = 0; t[N[2]] = 0; }
  return t;
}
// ranks in the monovariate menu; 7 = linear (intrinsic, simulated with a constant drift), entered twice: with 10 bands (the
// Poisson intensity is clamped, masked samples cannot matter) and with 1 band (the intensity follows the TOTAL sample count)
static const int MODELS[9] = {1, 2, 3, 7, 107, 4, 5, 6, 8};
}  // namespace sc

VF_PART(simtub_data_on_grid_nodes)
{
  using namespace c5;
  using namespace sc;
  bool T = C.thorough();
  int nmax = T ? 5 : 4, nmod = T ? 9 : 5;
  Space sp;
  sp.axis("n", nmax - 2).axis("ndim", 2).axis("kind", 3).axis("mask", 1 << nmax).axis("tmask", NTM).axis("nbsimu", 3).axis("neigh", 2).axis("model", nmod);
  for_each_case(C, sp, [&](uint64_t id, const std::vector<int>& idx) {
    int n = 3 + idx[0], ndim = idx[1] + 1, kind = idx[2], ktm = idx[4], nbsimu = idx[5] + 1;
    if (!T && nbsimu == 2) return;   // quick: 1 and 3 simulations
    int kneigh = idx[6], im = MODELS[idx[7]] % 100, nbtuba = MODELS[idx[7]] >= 100 ? 1 : 10;
    unsigned mask = (unsigned)idx[3];
    if (mask >= (1u << n)) return;
    if (ktm == 3 && n > 4) { C.skip(); return; }   // node of sample 4 carries a datum when n = 5
    std::string kase = std::to_string(id);
    set_ndim(ndim);
    std::vector<int> node;
    Raw full = mkData(ndim, kind, n, node);
    full.sel = VD(n); for (int i = 0; i < n; i++) full.sel[i] = (mask >> i) & 1;
    std::vector<int> keep = keepOf(full);
    int nkeep = 0; for (int k : keep) nkeep += k;
    if (nkeep == 0) { C.skip(); C.outcome("empty-active-set:not-judged"); return; }
    if (im == 7 && nkeep < 2) { C.skip(); C.outcome("excluded:intrinsic-model-needs-2-data"); return; }
    Raw red = reduce_raw(full, keep);
    VD tsel = tmask(ndim, ktm);
    int nn = nnodes(ndim);
    std::string what = " ; data=" + raw_str(full) + " grid=" + (ndim == 1 ? "5 nodes at 0..4" : "3x2 nodes at (0..2,0..1)") + " node mask=" + vstr(tsel) + " nbsimu=" + std::to_string(nbsimu) + " model=" + model_name(1, im) + " nbtuba=" + std::to_string(nbtuba) +
                       " neigh=" + (kneigh == 0 ? "unique" : "moving nmaxi=3");
    if (id % 9973 == 5) C.sample("{\"id\":" + kase + ",\"data\":" + raw_str(full) + ",\"node_mask\":" + vstr(tsel) + ",\"model\":" + jstr(model_name(1, im)) + "}");
    auto run = [&](const Raw& data) {
      Obs o;
      DbP din(raw_to_db(data));
      std::unique_ptr<DbGrid> dout(mkGrid(ndim, tsel));
      ModelP m(make_model(ndim, 1, im));
      if (im == 7) m->setDriftIRF(0);
      std::unique_ptr<ANeigh> ng(kneigh == 0 ? (ANeigh*)NeighUnique::create() : (ANeigh*)NeighMoving::create(false, 3, TEST));
      law_set_random_seed(13579);
      o.err = simtub(din.get(), dout.get(), m.get(), ng.get(), nbsimu, 4321, nbtuba);
      int nc = dout->getColumnNumber();
      for (int k = 0; k < nbsimu; k++) for (int t = 0; t < nn; t++) o.add("simulation " + std::to_string(k) + " [node " + std::to_string(t) + "]", o.err ? TEST : dout->getValueByColIdx(t, nc - nbsimu + k));
      return o;
    };
    // child output: one line per finding class  "<class>|text"
    ChildResult cr = run_child([&](int wfd) {
      limit_child_cpu();
      Obs a = run(full), b = run(red);
      double worst = 0;
      std::string d = cmpObs(a, b, 1e-9, worst);
      std::string out = "D|" + decade(worst) + "|" + d + "\n";
      if (a.err == 0)
      {
        for (int k = 0; k < nbsimu; k++)
          for (int t = 0; t < nn; t++)
          {
            double v = a.val[k * nn + t];
            bool tmasked = !tsel.empty() && tsel[t] <= 0;
            if (tmasked && !undef(v)) out += std::string(v == 0. ? "Z|" : "V|") + a.lab[k * nn + t] + " = " + fmt(v) + "\n";
          }
        // active, defined data lying on an active node are honoured exactly in every simulation
        for (int i = 0; i < n; i++)
        {
          if (node[i] < 0 || !keep[i]) continue;
          if (!tsel.empty() && tsel[node[i]] <= 0) continue;
          for (int k = 0; k < nbsimu; k++)
          {
            double v = a.val[k * nn + node[i]];
            if (undef(v) || std::fabs(v - full.z[0][i]) > 1e-9 * std::max(1., std::fabs(v))) out += "H|" + a.lab[k * nn + node[i]] + " = " + fmt(v) + " but datum " + std::to_string(i) + " = " + fmt(full.z[0][i]) + " lies on that node\n";
          }
        }
      }
      child_write(wfd, out);
      return 0;
    }, 120.);
    C.eval();
    if (!cr.clean() || cr.code != 0 || cr.data.size() < 3)
    {
      C.outcome("child:" + cr.describe());
      C.violation(std::string("simtub-on-nodes:") + (child_hung(cr) ? "does-not-return" : "crash"), "conditional simulation " + cr.describe() + what, kase);
      return;
    }
    bool reduced = nkeep < n;
    // collision classes of this case (non-vacuity): a masked datum on an active node / an active datum on a masked node
    bool colA = false, colB = false;
    for (int i = 0; i < n; i++)
    {
      if (node[i] < 0) continue;
      bool tm = !tsel.empty() && tsel[node[i]] <= 0;
      if (!keep[i] && !tm) colA = true;
      if (keep[i] && tm) colB = true;
    }
    if (colA) C.outcome("collision:masked-datum-on-active-node");
    if (colB) C.outcome("collision:active-datum-on-masked-node");
    if (colA || colB) C.nontrivial(id); else if (reduced) C.nontrivial(id);
    std::stringstream ss(cr.data);
    std::string line;
    bool z = false;
    while (std::getline(ss, line))
    {
      if (line.size() < 2) continue;
      char k = line[0];
      std::string txt = line.substr(2);
      if (k == 'D')
      {
        size_t q = txt.find('|');
        std::string dec = txt.substr(0, q), d = txt.substr(q + 1);
        C.outcome(std::string(kind == 0 ? "all-on-nodes:" : kind == 1 ? "some-on-nodes:" : "menu-layout(some samples may sit on nodes in 1-D):") + (reduced ? "some-removed:" : "nothing-removed:") + (d.empty() ? dec : "DIFFERENT"));
        if (!d.empty())
        {
          // mechanism seen on the unchanged tree: _npointSimulated counts masked samples; for the intrinsic structures the Poisson
          // intensity of the bands is field / (npoints / nbtuba) (clamped to >= 5 points per band): neutral with 10 bands here
          bool poisson = im == 7 && nbtuba == 1;
          C.violation(poisson ? "simtub:poisson-intensity-follows-total-sample-count-masked-included:linear" :
                      std::string("simtub-on-nodes:") + (colA ? "masked-datum-on-node:" : kind == 2 ? "menu-layout:" : "") + "differs-from-removed:model=" + model_name(1, im), "conditional simulation differs: " + d + what, kase);
        }
      }
      else if (k == 'Z') z = true;
      else if (k == 'V') C.violation("simtub-on-nodes:masked-node-holds-a-value", "masked node: " + txt + " (neither the undefined value nor the initial 0)" + what, kase);
      else if (k == 'H') C.violation("simtub-on-nodes:datum-on-active-node-not-honoured", txt + what, kase);
    }
    if (z) C.violation("simtub:masked-target-written", "masked grid nodes hold 0 in the new simulation variables instead of the undefined value" + what, kase);
  });
}

// =====================================================================================================
// matrices, variograms, statistics, migrate, table reductions
// =====================================================================================================
template<class M> static void addMat(c5::Obs& o, const std::string& name, const M& m)
{
  o.add(name + ".nrows", m.getNRows()); o.add(name + ".ncols", m.getNCols());
  for (int i = 0; i < m.getNRows(); i++) for (int j = 0; j < m.getNCols(); j++) o.add(name + "(" + std::to_string(i) + "," + std::to_string(j) + ")", m.getValue(i, j));
}
static void cleanOptim(Model* m) { m->getCovAnisoList()->optimizationPostProcess(); m->getCovAnisoList()->_p1As.clear(); }

VF_PART(matrices_masked_vs_removed)
{
  using namespace c5;
  enumDbs(C, 2, 3 * 2, "model-verr", [&](Setup& S, int ex, const std::string& kase) {
    int km = ex % 3, kv = ex / 3;
    if (S.nkeep == 0) { C.skip(); C.outcome("empty-active-set:not-judged"); return; }
    Raw full = S.full, red = S.red;
    if (kv) { for (int iv = 0; iv < S.nvar; iv++) full.v.push_back(verr(iv, S.n)); red = reduce_raw(full, S.keep); }
    static const char* OPN[5] = {"evalCovMatrix", "evalCovMatrixSymmetric", "evalCovMatrixOptim", "evalCovMatrixSymmetricOptim", "evalDriftMatrix"};
    for (int op = 0; op < 5; op++)
    {
      auto run = [&](const Raw& data) {
        Obs o;
        DbP db(raw_to_db(data));
        DbP dt(mkTargets(S.ndim, S.ilay, VD({1, 1, 0, 1}), false));   // target 1 (on datum 0, possibly masked) stays active
        ModelP m(mkModel(S.ndim, S.nvar, km, 2));
        switch (op)
        {
          case 0: addMat(o, "C", m->evalCovMatrix(db.get())); addMat(o, "C0", m->evalCovMatrix(db.get(), dt.get())); break;
          case 1: addMat(o, "Csym", m->evalCovMatrixSymmetric(db.get())); break;
          case 2: addMat(o, "Copt", m->evalCovMatrixOptim(db.get())); cleanOptim(m.get()); addMat(o, "C0opt", m->evalCovMatrixOptim(db.get(), dt.get())); break;
          case 3: addMat(o, "CsymOpt", m->evalCovMatrixSymmetricOptim(db.get())); break;
          case 4: addMat(o, "X", m->evalDriftMatrix(db.get())); break;
        }
        return o;
      };
      Obs a = run(full), b = run(red);
      C.eval();
      double worst = 0;
      std::string d = cmpObs(a, b, 0., worst);   // same arithmetic on the same operands: bitwise
      bool reduced = S.nkeep < S.n;
      if (reduced) C.nontrivial(Hash().s(kase).i(op).h);
      C.outcome(std::string(OPN[op]) + (reduced ? ":some-removed:" : ":nothing-removed:") + (d.empty() ? "identical" : "DIFFERENT"));
      if (!d.empty())
        C.violation(std::string(OPN[op]) + (S.upat == 2 || S.upat == 4 ? ":undefined-coordinate" : S.upat ? ":undefined-value" : ":selection"), std::string(OPN[op]) + " differs: " + d + " ; " + S.desc + " model#" + std::to_string(km) + " verr=" + std::to_string(kv), kase);
    }
  });
}

VF_PART(vario_stats_masked_vs_removed)
{
  using namespace c5;
  static const ECalcVario CALC[4] = {ECalcVario::VARIOGRAM, ECalcVario::COVARIANCE, ECalcVario::MADOGRAM, ECalcVario::COVARIANCE_NC};
  static const char* CALCN[4] = {"variogram", "covariance", "madogram", "covariance_nc"};
  enumDbs(C, 2, 2, "weights", [&](Setup& S, int ex, const std::string& kase) {
    if (S.nkeep == 0) { C.skip(); C.outcome("empty-active-set:not-judged"); return; }
    Raw full = S.full, red = S.red;
    if (ex) { full.w = {1, 2, 0.5, 1.5, 0.25, 3}; full.w.resize(S.n); red = reduce_raw(full, S.keep); }
    bool reduced = S.nkeep < S.n;
    std::string cls = (S.upat == 2 || S.upat == 4 ? ":undefined-coordinate" : S.upat ? ":undefined-value" : ":selection");
    // ---- experimental variograms
    for (int kc = 0; kc < 4; kc++)
    {
      auto run = [&](const Raw& data) {
        Obs o;
        DbP db(raw_to_db(data));
        std::unique_ptr<VarioParam> vp(VarioParam::createOmniDirection(4, 1.25, 0.5));
        std::unique_ptr<Vario> v(Vario::computeFromDb(*vp, db.get(), CALC[kc]));
        if (!v) { o.err = 1; return o; }
        int nl = v->getDirSize(0);
        for (int iv = 0; iv < S.nvar; iv++) for (int jv = 0; jv <= iv; jv++)
          for (int i = 0; i < nl; i++)
          {
            int ad = v->getDirAddress(0, iv, jv, i, true, 0);
            if (ad < 0) continue;
            std::string l = "(" + std::to_string(iv) + "," + std::to_string(jv) + ") slot " + std::to_string(i);
            o.add("sw" + l, v->getSwByIndex(0, ad)); o.add("hh" + l, v->getHhByIndex(0, ad)); o.add("gg" + l, v->getGgByIndex(0, ad));
          }
        for (int iv = 0; iv < S.nvar; iv++) for (int jv = 0; jv < S.nvar; jv++) o.add("var(" + std::to_string(iv) + "," + std::to_string(jv) + ")", v->getVar(iv, jv));
        return o;
      };
      Obs a = run(full), b = run(red);
      C.eval();
      double worst = 0;
      std::string d = cmpObs(a, b, 1e-12, worst);
      if (reduced) C.nontrivial(Hash().s(kase).i(kc).h);
      C.outcome(std::string("vario-") + CALCN[kc] + (reduced ? ":some-removed:" : ":nothing-removed:") + (d.empty() ? decade(worst) : "DIFFERENT"));
      if (!d.empty()) C.violation(std::string("vario:") + CALCN[kc] + cls, std::string("experimental ") + CALCN[kc] + " differs: " + d + " ; " + S.desc + " weights=" + std::to_string(ex), kase);
    }
    // ---- monovariate statistics
    {
      auto run = [&](const Raw& data) {
        Obs o;
        DbP db(raw_to_db(data));
        VectorString names; for (int iv = 0; iv < S.nvar; iv++) names.push_back("z" + std::to_string(iv + 1));
        for (int iso = 0; iso < 2; iso++)
        {
          Table t = dbStatisticsMono(db.get(), names, EStatOption::fromKeys({"NUM", "MEAN", "VAR", "MINI", "MAXI", "SUM"}), iso);
          for (int i = 0; i < t.getNRows(); i++) for (int j = 0; j < t.getNCols(); j++) o.add(std::string(iso ? "iso" : "hetero") + " stat(" + std::to_string(i) + "," + std::to_string(j) + ")", t.getValue(i, j));
        }
        return o;
      };
      Obs a = run(full), b = run(red);
      C.eval();
      double worst = 0;
      std::string d = cmpObs(a, b, 1e-12, worst);
      if (reduced) C.nontrivial(Hash().s(kase).i(77).h);
      C.outcome(std::string("statsMono") + (reduced ? ":some-removed:" : ":nothing-removed:") + (d.empty() ? decade(worst) : "DIFFERENT"));
      if (!d.empty()) C.violation("statsMono" + cls, "dbStatisticsMono differs: " + d + " ; " + S.desc + " weights=" + std::to_string(ex), kase);
    }
    // ---- correlation / multi statistics
    if (S.nvar == 2)
    {
      auto run = [&](const Raw& data) {
        Obs o;
        DbP db(raw_to_db(data));
        VectorString names = {"z1", "z2"};
        for (int iso = 0; iso < 2; iso++)
        {
          Table t = dbStatisticsCorrel(db.get(), names, iso);
          for (int i = 0; i < t.getNRows(); i++) for (int j = 0; j < t.getNCols(); j++) o.add(std::string(iso ? "iso" : "hetero") + " correl(" + std::to_string(i) + "," + std::to_string(j) + ")", t.getValue(i, j));
        }
        return o;
      };
      Obs a = run(full), b = run(red);
      C.eval();
      double worst = 0;
      std::string d = cmpObs(a, b, 1e-12, worst);
      C.outcome(std::string("statsCorrel") + (reduced ? ":some-removed:" : ":nothing-removed:") + (d.empty() ? decade(worst) : "DIFFERENT"));
      if (!d.empty()) C.violation("statsCorrel" + cls, "dbStatisticsCorrel differs: " + d + " ; " + S.desc, kase);
    }
  });
}

VF_PART(migrate_reduce_masked_vs_removed)
{
  using namespace c5;
  enumDbs(C, 1, 3, "target", [&](Setup& S, int ex, const std::string& kase) {
    bool reduced = S.nkeep < S.n;
    std::string cls = (S.upat == 2 || S.upat == 4 ? ":undefined-coordinate" : S.upat ? ":undefined-value" : ":selection");
    // ---- table reductions: Db::createReduce and Db::deleteSamples against the harness-built table (selection only: these
    //      operations are defined by the selection, not by definedness)
    if (ex == 0)
    {
      std::vector<int> keepSel(S.n, 1);
      if (!S.full.sel.empty()) for (int i = 0; i < S.n; i++) keepSel[i] = S.full.sel[i] > 0;
      Raw redSel = reduce_raw(S.full, keepSel);
      DbP db(raw_to_db(S.full));
      auto tableOf = [&](const Db* d, Obs& o) {
        for (int k = 0; k < S.ndim; k++) { VD c = col(d, "x" + std::to_string(k + 1)); for (double v : c) o.add("x" + std::to_string(k + 1), v); }
        { VD c = col(d, "z1"); for (double v : c) o.add("z1", v); }
      };
      Obs ref; for (int k = 0; k < S.ndim; k++) for (double v : redSel.x[k]) ref.add("", v); for (double v : redSel.z[0]) ref.add("", v);
      if (redSel.n > 0)
      {
        std::unique_ptr<Db> r1(Db::createReduce(db.get()));
        Obs a; tableOf(r1.get(), a);
        double w = 0; std::string d = cmpObs(a, ref, 0., w);
        C.eval(); C.outcome(std::string("createReduce:") + (d.empty() ? "identical" : "DIFFERENT"));
        if (!d.empty()) C.violation("createReduce:differs", "Db::createReduce differs from the physically reduced table: " + d + " ; " + S.desc, kase);
        DbP d2(raw_to_db(S.full));
        VectorInt dels; for (int i = 0; i < S.n; i++) if (!keepSel[i]) dels.push_back(i);
        if (!dels.empty())
        {
          d2->deleteSamples(dels);
          Obs a2; tableOf(d2.get(), a2);
          std::string dd = cmpObs(a2, ref, 0., w);
          C.eval(); C.outcome(std::string("deleteSamples:") + (dd.empty() ? "identical" : "DIFFERENT"));
          if (!dd.empty()) C.violation("deleteSamples:differs", "Db::deleteSamples differs from the physically reduced table: " + dd + " ; " + S.desc, kase);
        }
      }
    }
    // ---- migrate (nearest sample, plain search): target kinds 0 = points, 1 = points with mask, 2 = grid with flag_fill
    if (S.nkeep == 0) { C.skip(); C.outcome("empty-active-set:not-judged"); return; }
    // exclude targets with equidistant candidate samples (nearest undefined by the statement)
    auto run = [&](const Raw& data, std::vector<int>& tieAt) {
      Obs o;
      DbP din(raw_to_db(data));
      std::unique_ptr<Db> dout;
      VVD tx;
      if (ex < 2) { dout.reset(mkTargets(S.ndim, S.ilay, ex ? VD({1, 0, 1, 1}) : VD(), false)); tx = targets(S.ndim, S.ilay, 4); }
      else
      {
        VectorInt nx(S.ndim, 3); VectorDouble dx(S.ndim), x0(S.ndim);
        for (int d = 0; d < S.ndim; d++) { dx[d] = 1.375 + 0.25 * d; x0[d] = -0.3125 + 0.125 * d; }
        DbGrid* g = DbGrid::create(nx, dx, x0);
        tx = VVD(S.ndim);
        for (int i = 0; i < g->getSampleNumber(); i++) for (int d = 0; d < S.ndim; d++) tx[d].push_back(g->getCoordinate(i, d));
        dout.reset(g);
      }
      o.err = migrate(din.get(), dout.get(), "z1", 1, VectorDouble(), ex == 2, false, false);
      int nc = dout->getColumnNumber();
      int nt = dout->getSampleNumber();
      tieAt.assign(nt, 0);
      for (int t = 0; t < nt; t++)
      {
        std::vector<double> ds;
        for (int i = 0; i < data.n; i++) { double s = 0; bool u = false; for (int d = 0; d < S.ndim; d++) { if (FFFF(data.x[d][i])) u = true; s += (data.x[d][i] - tx[d][t]) * (data.x[d][i] - tx[d][t]); } if (!u) ds.push_back(s); }
        std::sort(ds.begin(), ds.end());
        for (size_t k = 1; k < ds.size(); k++) if (ds[k] == ds[k - 1]) tieAt[t] = 1;
        o.add("migrated z1 [target " + std::to_string(t) + "]", o.err ? TEST : dout->getValueByColIdx(t, nc - 1));
      }
      return o;
    };
    std::vector<int> tieA, tieB;
    Obs a = run(S.full, tieA), b = run(S.red, tieB);
    for (size_t t = 0; t < tieA.size(); t++) if (tieA[t]) { a.val[t] = b.val[t] = TEST; C.outcome("migrate:excluded-equidistant-target"); }
    C.eval();
    double worst = 0;
    std::string d = cmpObs(a, b, 0., worst);
    if (reduced) C.nontrivial(Hash().s(kase).h);
    static const char* TK[3] = {"point-to-point", "point-to-point-masked-targets", "point-to-grid-fill"};
    C.outcome(std::string("migrate:") + TK[ex] + (reduced ? ":some-removed:" : ":nothing-removed:") + (d.empty() ? "identical" : "DIFFERENT"));
    if (!d.empty()) C.violation(std::string("migrate:") + TK[ex] + cls, "migrate differs: " + d + " ; " + S.desc, kase);
  });
}


// =====================================================================================================
// requests restricted to ONE variable (or a pair) of a multivariate, heterotopic data set:
// "a value undefined in one variable only = that variable removed at that sample". Every pattern of undefined cells
// (2^(n*nvar)) so that each variable has its own undefined set; every (ivar0, jvar0), three neighbour lists.
// Reference built by the harness from the raw arrays: the list of (variable, sample) equations of the request, and
// pointwise Model::eval / evalDriftValue between the samples the harness selects itself.
// =====================================================================================================
namespace bv
{
struct Eq { int var, ech; };
// equations of a request on the data: variables `vars`, samples taken in the order of nbgh (all when empty)
static std::vector<Eq> eqs(const Raw& r, const std::vector<int>& vars, const std::vector<int>& nbgh)
{
  std::vector<Eq> e;
  for (int v : vars)
  {
    std::vector<int> order = nbgh;
    if (order.empty()) for (int i = 0; i < r.n; i++) order.push_back(i);
    for (int i : order)
    {
      if (!r.sel.empty() && r.sel[i] <= 0) continue;
      if (FFFF(r.z[v][i])) continue;
      e.push_back({v, i});
    }
  }
  return e;
}
static std::vector<int> varsOf(int ivar0, int nvar) { std::vector<int> v; if (ivar0 >= 0) v.push_back(ivar0); else for (int k = 0; k < nvar; k++) v.push_back(k); return v; }
static Model* mkModel(int ndim, int nvar, int km)
{
  if (nvar == 2) return make_model(ndim, 2, km == 0 ? 0 : 1);
  set_ndim(ndim);
  // trivariate LMC (PSD sills: diagonally dominant)
  Model* m = Model::createFromParam(ECov::SPHERICAL, 3., 1., 1., VectorDouble(), {2, 1, 0.5, 1, 1.5, -0.25, 0.5, -0.25, 1});
  if (km == 1) m->addCovFromParam(ECov::NUGGET, 0., 1., 1., VectorDouble(), {0.5, 0, 0, 0, 0.25, 0, 0, 0, 0.125});
  return m;
}
static SpacePoint sp(const Raw& r, int i) { VectorDouble c(r.ndim); for (int d = 0; d < r.ndim; d++) c[d] = r.x[d][i]; return SpacePoint(c, -1); }
static std::string eqStr(const std::vector<Eq>& e) { std::string s = "["; for (size_t k = 0; k < e.size(); k++) s += (k ? " " : "") + std::string("z") + std::to_string(e[k].var + 1) + "@" + std::to_string(e[k].ech); return s + "]"; }
}  // namespace bv

VF_PART(one_variable_requests_on_heterotopic_data)
{
  using namespace c5;
  using namespace bv;
  bool T = C.thorough();
  // (nvar, n) blocks: quick nvar=2 n=3,4 ; thorough adds nvar=2 n=5 (1024 patterns) and nvar=3 n=3 (512 patterns)
  struct Block { int nvar, n; };
  std::vector<Block> blocks = {{2, 3}, {2, 4}};
  if (T) { blocks.push_back({2, 5}); blocks.push_back({3, 3}); }
  int maxpat = 0; for (auto& b : blocks) maxpat = std::max(maxpat, 1 << (b.nvar * b.n));
  Space sp_;
  sp_.axis("block", (int)blocks.size()).axis("ndim", 2).axis("sel", 2).axis("model", 2).axis("pattern", maxpat);
  for_each_case(C, sp_, [&](uint64_t id, const std::vector<int>& idx) {
    const Block& B = blocks[idx[0]];
    int nvar = B.nvar, n = B.n, ndim = idx[1] + 1, ksel = idx[2], km = idx[3];
    unsigned pat = (unsigned)idx[4];
    if (pat >= (1u << (nvar * n))) return;
    std::string kase = std::to_string(id);
    set_ndim(ndim);
    Raw r = make_raw(ndim, 2, 0, n);
    if (nvar == 3) { r.nvar = 3; r.z.push_back(values(2, n)); }
    for (int v = 0; v < nvar; v++) for (int i = 0; i < n; i++) if ((pat >> (v * n + i)) & 1) r.z[v][i] = TEST;
    if (ksel) { r.sel = VD(n, 1.); r.sel[n - 1] = 0; }
    // do the variables have DIFFERENT undefined sets ?
    bool differ = false;
    for (int v = 1; v < nvar; v++) for (int i = 0; i < n; i++) if (FFFF(r.z[v][i]) != FFFF(r.z[0][i])) differ = true;
    DbP db(raw_to_db(r));
    Raw rt; rt.ndim = ndim; rt.nvar = 0; rt.n = 3; rt.x = targets(ndim, 0, 3);
    DbP dt(raw_to_db(rt));
    ModelP model(bv::mkModel(ndim, nvar, km));
    model->setDriftIRF(1);
    int nbfl = model->getDriftNumber();
    std::string what = " ; data=" + raw_str(r) + " model#" + std::to_string(km);
    if (id % 4099 == 3) C.sample("{\"id\":" + kase + ",\"data\":" + raw_str(r) + "}");
    auto key = [&](const std::string& op, int iv, int jv) {
      return op + ":variable-restricted-request:" + (iv >= 1 || jv >= 1 ? "rank>=1" : iv == 0 || jv == 0 ? "rank0" : "all-variables");
    };
    auto judge = [&](const std::string& op, int iv, int jv, const std::string& d, const std::string& req) {
      C.eval();
      bool restricted = iv >= 0 || jv >= 0;
      C.outcome(op + (restricted ? ":restricted:" : ":all:") + (d.empty() ? "identical" : "DIFFERENT"));
      if (differ && (iv >= 1 || jv >= 1)) C.nontrivial(Hash().u(id).s(op).s(req).h);
      if (!d.empty()) C.violation(key(op, iv, jv), op + "(" + req + "): " + d + what, kase);
    };
    struct RiskyReq { int iv, jv, k1, k2, tgt; };
    std::vector<RiskyReq> risky_reqs;
    static const int NBGH = 3;
    auto nbghOf = [&](int k) { std::vector<int> v; if (k == 1) v = {0, 2}; if (k == 2) v = {n - 1, 0, 1}; return v; };
    for (int iv = -1; iv < nvar; iv++)
      for (int k1 = 0; k1 < NBGH; k1++)
      {
        std::vector<int> nb1 = nbghOf(k1);
        VectorInt NB1(nb1.begin(), nb1.end());
        std::vector<Eq> E1 = eqs(r, varsOf(iv, nvar), nb1);
        std::string req1 = "ivar0=" + std::to_string(iv) + " nbgh1=" + vstr(nb1);
        // ---- Db::getMultipleRanksActive / getMultipleValuesActive (requested variable list = {iv} or all)
        {
          VectorInt ivars; if (iv >= 0) ivars.push_back(iv);
          VectorVectorInt idxs = db->getMultipleRanksActive(ivars, NB1);
          std::vector<Eq> got;
          std::vector<int> vv = varsOf(iv, nvar);
          for (size_t a = 0; a < idxs.size() && a < vv.size(); a++) for (int i : idxs[a]) got.push_back({vv[a], i});
          std::string d;
          if (idxs.size() != vv.size() || eqStr(got) != eqStr(E1)) d = "returns " + eqStr(got) + " expected " + eqStr(E1);
          judge("getMultipleRanksActive", iv, -2, d, req1);
          VectorDouble means(nvar); for (int v = 0; v < nvar; v++) means[v] = 0.5 * (v + 1);
          VectorDouble zv = db->getMultipleValuesActive(ivars, NB1, means);
          d.clear();
          if (zv.size() != E1.size()) d = std::to_string(zv.size()) + " values, expected " + std::to_string(E1.size()) + " " + eqStr(E1);
          else for (size_t a = 0; a < E1.size() && d.empty(); a++) if (zv[a] != r.z[E1[a].var][E1[a].ech] - means[E1[a].var]) d = "value " + std::to_string(a) + " = " + fmt(zv[a]) + " expected z" + std::to_string(E1[a].var + 1) + "@" + std::to_string(E1[a].ech) + " - mean = " + fmt(r.z[E1[a].var][E1[a].ech] - means[E1[a].var]);
          judge("getMultipleValuesActive", iv, -2, d, req1);
          // static helper picking the equations of one sample: position semantics decided by the documentation ("sample indices")
          if (k1 == 0 && iv >= 0)
          {
            VectorVectorInt full = db->getMultipleRanksActive();
            for (int i0 = 0; i0 < n; i0++)
            {
              VectorInt sel = Db::getMultipleSelectedIndices(full, VectorInt({iv}), VectorInt({i0}));
              // expected: rank of equation (iv, i0) in the all-variable ordering, when it exists
              std::vector<Eq> all = eqs(r, varsOf(-1, nvar), {});
              std::vector<int> exp; for (size_t a = 0; a < all.size(); a++) if (all[a].var == iv && all[a].ech == i0) exp.push_back((int)a);
              std::vector<int> gv(sel.begin(), sel.end());
              C.eval();
              C.outcome(gv == exp ? "getMultipleSelectedIndices:as-sample-rank" : "getMultipleSelectedIndices:DIFFERENT");
              if (gv != exp) C.violation("getMultipleSelectedIndices:position-in-list-used-as-sample-rank", "getMultipleSelectedIndices(index, {" + std::to_string(iv) + "}, {" + std::to_string(i0) + "}) returns " + vstr(gv) +
                                         ", the equation of variable " + std::to_string(iv) + " at SAMPLE " + std::to_string(i0) + " has rank " + vstr(exp) + " in " + eqStr(all) + what, kase);
            }
          }
        }
        // ---- drift matrix
        {
          MatrixRectangular X = model->evalDriftMatrix(db.get(), iv, NB1);
          std::string d;
          if (E1.empty()) { if (X.getNRows() != 0) d = "non empty matrix for an empty request"; }
          else if (X.getNRows() != (int)E1.size() || X.getNCols() != nvar * nbfl) d = "dims " + std::to_string(X.getNRows()) + "x" + std::to_string(X.getNCols()) + " expected " + std::to_string(E1.size()) + "x" + std::to_string(nvar * nbfl) + " rows " + eqStr(E1);
          else
            for (size_t a = 0; a < E1.size() && d.empty(); a++)
              for (int jb = 0; jb < nvar * nbfl && d.empty(); jb++)
              {
                double ref = model->evalDriftValue(db.get(), E1[a].ech, E1[a].var, jb, ECalcMember::LHS);
                if (X.getValue((int)a, jb) != ref) d = "(" + std::to_string(a) + "," + std::to_string(jb) + ") = " + fmt(X.getValue((int)a, jb)) + " expected drift of z" + std::to_string(E1[a].var + 1) + "@" + std::to_string(E1[a].ech) + " = " + fmt(ref);
              }
          judge("evalDriftMatrix", iv, -2, d, req1);
        }
        // ---- symmetric covariance matrices
        for (int optim = 0; optim < 2; optim++)
        {
          MatrixSquareSymmetric M = optim ? model->evalCovMatrixSymmetricOptim(db.get(), iv, NB1) : model->evalCovMatrixSymmetric(db.get(), iv, NB1);
          if (optim) cleanOptim(model.get());
          std::string d;
          if (E1.empty()) { if (M.getNRows() != 0) d = "non empty matrix for an empty request"; }
          else if (M.getNRows() != (int)E1.size()) d = "size " + std::to_string(M.getNRows()) + " expected " + std::to_string(E1.size()) + " rows " + eqStr(E1);
          else
            for (size_t a = 0; a < E1.size() && d.empty(); a++)
              for (size_t b = 0; b < E1.size() && d.empty(); b++)
              {
                double ref = model->eval(bv::sp(r, E1[a].ech), bv::sp(r, E1[b].ech), E1[a].var, E1[b].var);
                if (!close(M.getValue((int)a, (int)b), ref, 1e-10, 1.)) d = "(" + std::to_string(a) + "," + std::to_string(b) + ") = " + fmt(M.getValue((int)a, (int)b)) + " expected C(z" + std::to_string(E1[a].var + 1) + "@" + std::to_string(E1[a].ech) + ",z" + std::to_string(E1[b].var + 1) + "@" + std::to_string(E1[b].ech) + ") = " + fmt(ref);
              }
          judge(optim ? "evalCovMatrixSymmetricOptim" : "evalCovMatrixSymmetric", iv, -2, d, req1);
        }
        // ---- rectangular matrices: data x data, and data x targets
        for (int jv = -1; jv < nvar; jv++)
          for (int k2 = 0; k2 < NBGH; k2++)
            for (int tgt = 0; tgt < 2; tgt++)
            {
              if (tgt && k2 == 2) continue;
              std::vector<int> nb2 = tgt ? (k2 == 1 ? std::vector<int>({0, 2}) : std::vector<int>()) : nbghOf(k2);
              VectorInt NB2(nb2.begin(), nb2.end());
              std::vector<Eq> E2;
              if (!tgt) E2 = eqs(r, varsOf(jv, nvar), nb2);
              else for (int v : varsOf(jv, nvar)) { std::vector<int> o = nb2; if (o.empty()) o = {0, 1, 2}; for (int i : o) E2.push_back({v, i}); }
              std::string req = req1 + " jvar0=" + std::to_string(jv) + " nbgh2=" + vstr(nb2) + (tgt ? " db2=3 targets" : " db2=db1");
              auto refval = [&](size_t a, size_t b) { return model->eval(bv::sp(r, E1[a].ech), tgt ? bv::sp(rt, E2[b].ech) : bv::sp(r, E2[b].ech), E1[a].var, E2[b].var); };
              for (int form = 0; form < 3; form++)
              {
                std::string d;
                const char* opn = form == 0 ? "evalCovMatrix" : form == 1 ? "evalCovMatrixOptim" : "evalCovMatrixSparse";
                if (form < 2)
                {
                  MatrixRectangular M = form == 0 ? model->evalCovMatrix(db.get(), tgt ? dt.get() : nullptr, iv, jv, NB1, NB2) : model->evalCovMatrixOptim(db.get(), tgt ? dt.get() : nullptr, iv, jv, NB1, NB2);
                  if (form == 1) cleanOptim(model.get());
                  if (E1.empty() || E2.empty()) { if (M.getNRows() != 0) d = "non empty matrix for an empty request"; }
                  else if (M.getNRows() != (int)E1.size() || M.getNCols() != (int)E2.size()) d = "dims " + std::to_string(M.getNRows()) + "x" + std::to_string(M.getNCols()) + " expected " + std::to_string(E1.size()) + "x" + std::to_string(E2.size()) + " rows " + eqStr(E1) + " columns " + eqStr(E2);
                  else
                    for (size_t a = 0; a < E1.size() && d.empty(); a++)
                      for (size_t b = 0; b < E2.size() && d.empty(); b++)
                        if (!close(M.getValue((int)a, (int)b), refval(a, b), 1e-10, 1.)) d = "(" + std::to_string(a) + "," + std::to_string(b) + ") = " + fmt(M.getValue((int)a, (int)b)) + " expected " + fmt(refval(a, b)) + " rows " + eqStr(E1) + " columns " + eqStr(E2);
                }
                else
                {
                  if (k1 == 2 || k2 == 2) continue;   // sparse form judged on the sorted lists only
                  if (E1.empty() || E2.empty()) continue;
                  // a request for a variable of rank >= 1 writes outside its 1x1 (or nvar x 1) work matrix of sills on the unchanged
                  // tree (heap corruption): those requests run in a forked child, one key for crash-or-wrong (not reproducible)
                  bool risky = iv >= 1 || jv >= 1;
                  auto sparseDiff = [&]() -> std::string {
                    std::unique_ptr<MatrixSparse> M(model->evalCovMatrixSparse(db.get(), tgt ? dt.get() : nullptr, iv, jv, NB1, NB2));
                    if (!M) return "null matrix";
                    for (size_t a = 0; a < E1.size(); a++)
                      for (size_t b = 0; b < E2.size(); b++)
                      {
                        double ref = refval(a, b);
                        double c0 = model->eval(bv::sp(r, 0), bv::sp(r, 0), E1[a].var, E2[b].var);
                        // documented thinning: terms below eps * C(0) are dropped (default eps = 1e-3); judge the clear cases only
                        if (std::fabs(ref) < 2e-3 * std::fabs(c0)) continue;
                        double got = ((int)a < M->getNRows() && (int)b < M->getNCols()) ? M->getValue((int)a, (int)b) : 0.;
                        if (!close(got, ref, 1e-10, 1.)) return "(" + std::to_string(a) + "," + std::to_string(b) + ") = " + fmt(got) + " expected " + fmt(ref) + " rows " + eqStr(E1) + " columns " + eqStr(E2) + " sparse dims " + std::to_string(M->getNRows()) + "x" + std::to_string(M->getNCols());
                      }
                    return "";
                  };
                  if (!risky) d = sparseDiff();
                  else { risky_reqs.push_back({iv, jv, k1, k2, tgt}); continue; }
                }
                judge(opn, iv, jv, d, req);
              }
            }
      }
    // ---- the sparse requests for a variable of rank >= 1, all in ONE forked child (they corrupt the heap on the unchanged tree)
    if (!risky_reqs.empty())
    {
      auto describe = [&](const RiskyReq& q) {
        std::vector<int> nb1 = nbghOf(q.k1), nb2 = q.tgt ? (q.k2 == 1 ? std::vector<int>({0, 2}) : std::vector<int>()) : nbghOf(q.k2);
        return "ivar0=" + std::to_string(q.iv) + " nbgh1=" + vstr(nb1) + " jvar0=" + std::to_string(q.jv) + " nbgh2=" + vstr(nb2) + (q.tgt ? " db2=3 targets" : " db2=db1");
      };
      ChildResult cr = run_child([&](int wfd) {
        limit_child_cpu(5);
        for (size_t k = 0; k < risky_reqs.size(); k++)
        {
          const RiskyReq& q = risky_reqs[k];
          std::vector<int> nb1 = nbghOf(q.k1), nb2 = q.tgt ? (q.k2 == 1 ? std::vector<int>({0, 2}) : std::vector<int>()) : nbghOf(q.k2);
          VectorInt NB1(nb1.begin(), nb1.end()), NB2(nb2.begin(), nb2.end());
          std::vector<Eq> E1 = eqs(r, varsOf(q.iv, nvar), nb1), E2;
          if (!q.tgt) E2 = eqs(r, varsOf(q.jv, nvar), nb2);
          else for (int v : varsOf(q.jv, nvar)) { std::vector<int> o = nb2; if (o.empty()) o = {0, 1, 2}; for (int i : o) E2.push_back({v, i}); }
          std::string d;
          std::unique_ptr<MatrixSparse> M(model->evalCovMatrixSparse(db.get(), q.tgt ? dt.get() : nullptr, q.iv, q.jv, NB1, NB2));
          if (!M) d = "null matrix";
          else
            for (size_t a = 0; a < E1.size() && d.empty(); a++)
              for (size_t b = 0; b < E2.size() && d.empty(); b++)
              {
                double ref = model->eval(bv::sp(r, E1[a].ech), q.tgt ? bv::sp(rt, E2[b].ech) : bv::sp(r, E2[b].ech), E1[a].var, E2[b].var);
                double c0 = model->eval(bv::sp(r, 0), bv::sp(r, 0), E1[a].var, E2[b].var);
                if (std::fabs(ref) < 2e-3 * std::fabs(c0)) continue;
                double got = ((int)a < M->getNRows() && (int)b < M->getNCols()) ? M->getValue((int)a, (int)b) : 0.;
                if (!close(got, ref, 1e-10, 1.)) d = "(" + std::to_string(a) + "," + std::to_string(b) + ") = " + fmt(got) + " expected " + fmt(ref) + " rows " + eqStr(E1) + " columns " + eqStr(E2);
              }
          child_write(wfd, std::to_string(k) + "|" + d + "\n");
        }
        return 0;
      }, 120.);
      std::vector<std::string> res;
      { std::stringstream ss(cr.data); std::string line; while (std::getline(ss, line)) { size_t q = line.find('|'); if (q != std::string::npos) res.push_back(line.substr(q + 1)); } }
      bool died = !cr.clean() || cr.code != 0;
      for (size_t k = 0; k < risky_reqs.size(); k++)
      {
        if (k > res.size()) break;               // requests after the one that killed the child were not executed
        std::string dd = k < res.size() ? res[k] : (died ? "the call ends with " + cr.describe() : "no answer");
        C.eval();
        C.outcome(std::string("evalCovMatrixSparse:rank>=1:") + (dd.empty() ? "identical" : k < res.size() ? "DIFFERENT" : "crash"));
        if (differ) C.nontrivial(Hash().u(id).s("sparse").u(k).h);
        if (!dd.empty()) C.violation("evalCovMatrixSparse:request-for-variable-rank>=1:crashes-or-differs", "evalCovMatrixSparse(" + describe(risky_reqs[k]) + "): " + dd + what, kase);
      }
    }
    // ---- variograms and statistics of one variable: the bivariate heterotopic Db vs the monovariate Db of that variable
    if (nvar == 2 && idx[3] == 0)
    {
      static const ECalcVario CALC[2] = {ECalcVario::VARIOGRAM, ECalcVario::COVARIANCE};
      static const char* CALCN[2] = {"variogram", "covariance"};
      for (int kc = 0; kc < 2; kc++)
      {
        std::unique_ptr<VarioParam> vp(VarioParam::createOmniDirection(4, 1.25, 0.5));
        DbP dball(raw_to_db(r));
        std::unique_ptr<Vario> vall(Vario::computeFromDb(*vp, dball.get(), CALC[kc]));
        for (int pairk = 0; pairk < 3; pairk++)
        {
          int va = pairk == 2 ? 1 : pairk, vb = pairk == 2 ? 0 : pairk;   // (0,0) (1,1) (1,0)
          // reduced table: only the requested variable(s), samples lacking one of them removed
          std::vector<int> keep(n);
          int nk = 0;
          for (int i = 0; i < n; i++) { keep[i] = (r.sel.empty() || r.sel[i] > 0) && !FFFF(r.z[va][i]) && !FFFF(r.z[vb][i]); nk += keep[i]; }
          if (nk < 2) { C.skip(); C.outcome("vario:excluded:fewer-than-2-samples-for-the-variable"); continue; }
          Raw rr = reduce_raw(r, keep);
          if (va == vb) { VD z = rr.z[va]; rr.z.clear(); rr.z.push_back(z); rr.nvar = 1; }
          DbP dred(raw_to_db(rr));
          std::unique_ptr<Vario> vred(Vario::computeFromDb(*vp, dred.get(), CALC[kc]));
          std::string d;
          if (!vall || !vred) { if ((bool)vall != (bool)vred) d = "one of the two calculations failed"; }
          else
          {
            int ia = va == vb ? 0 : va, ib = va == vb ? 0 : vb;
            for (int i = 0; i < vall->getDirSize(0) && d.empty(); i++)
            {
              int a1 = vall->getDirAddress(0, va, vb, i, true, 0), a2 = vred->getDirAddress(0, ia, ib, i, true, 0);
              if (a1 < 0 || a2 < 0) continue;
              double s1 = vall->getSwByIndex(0, a1), s2 = vred->getSwByIndex(0, a2), g1 = vall->getGgByIndex(0, a1), g2 = vred->getGgByIndex(0, a2);
              bool u1 = undef(g1) || s1 == 0, u2 = undef(g2) || s2 == 0;
              if (s1 != s2) d = "slot " + std::to_string(i) + ": pair weight " + fmt(s1) + " vs " + fmt(s2);
              else if (u1 != u2 || (!u1 && !close(g1, g2, 1e-12, 1.))) d = "slot " + std::to_string(i) + ": value " + fmt(g1) + " vs " + fmt(g2);
            }
          }
          // for the cross terms both runs keep partially defined samples out by construction; the covariance kinds centre with the
          // mean of ALL samples of a variable (not only the common ones): judged for the direct terms, and for the variogram cross term
          if (va != vb && kc == 1) { C.outcome("vario:cross-covariance:not-judged(centering uses each variable's own samples)"); continue; }
          C.eval();
          C.outcome(std::string("vario-") + CALCN[kc] + (va == vb ? ":direct:" : ":cross:") + (d.empty() ? "identical" : "DIFFERENT"));
          if (differ) C.nontrivial(Hash().u(id).i(kc).i(pairk).i(777).h);
          if (!d.empty()) C.violation(std::string("vario:") + CALCN[kc] + ":one-variable-of-heterotopic-data:" + (va == vb ? "direct" : "cross"), std::string("experimental ") + CALCN[kc] + " (" + std::to_string(va) + "," + std::to_string(vb) +
                                      ") on the bivariate Db vs on the Db reduced to the variable(s): " + d + what, kase);
        }
      }
      // statistics by name list
      for (int v = 0; v < 2; v++)
      {
        std::vector<int> keep(n);
        int nk = 0;
        for (int i = 0; i < n; i++) { keep[i] = (r.sel.empty() || r.sel[i] > 0) && !FFFF(r.z[v][i]); nk += keep[i]; }
        if (nk == 0) continue;
        Raw rr = reduce_raw(r, keep);
        VD z = rr.z[v]; rr.z.clear(); rr.z.push_back(z); rr.nvar = 1;
        DbP dall(raw_to_db(r)), dred(raw_to_db(rr));
        auto ops = EStatOption::fromKeys({"NUM", "MEAN", "VAR", "MINI", "MAXI", "SUM"});
        for (int form = 0; form < 3; form++)
        {
          // {zv} alone (iso irrelevant) ; {zv, other} and {other, zv} with flagIso=false: the row of zv must not depend on the other variable
          VectorString names; int row = 0;
          std::string zn = "z" + std::to_string(v + 1), on = "z" + std::to_string(2 - v);
          if (form == 0) names = {zn}; else if (form == 1) { names = {zn, on}; row = 0; } else { names = {on, zn}; row = 1; }
          Table ta = dbStatisticsMono(dall.get(), names, ops, form == 0);
          Table tb = dbStatisticsMono(dred.get(), VectorString({"z1"}), ops, true);
          std::string d;
          for (int j = 0; j < tb.getNCols() && d.empty(); j++)
          {
            double a = ta.getValue(row, j), b = tb.getValue(0, j);
            if ((undef(a) != undef(b)) || (!undef(a) && !close(a, b, 1e-12, 1.))) d = "statistic " + std::to_string(j) + " of " + zn + ": " + fmt(a) + " vs " + fmt(b) + " on the Db reduced to that variable";
          }
          C.eval();
          C.outcome(std::string("statsMono-by-name:") + (d.empty() ? "identical" : "DIFFERENT"));
          if (differ) C.nontrivial(Hash().u(id).i(v).i(form).i(888).h);
          if (!d.empty()) C.violation("statsMono:one-variable-of-heterotopic-data", "dbStatisticsMono(names=" + std::string(form == 0 ? "{zv}" : form == 1 ? "{zv,other}" : "{other,zv}") + ", iso=" + std::to_string(form == 0) + "): " + d + what, kase);
        }
      }
    }
  });
}


// =====================================================================================================
// the remaining public "operations that read samples": categorical family (facies count, proportions, indicator variograms),
// multivariate / per-cell statistics, regression, per-column getters with useSel, code list, declustering, simple interpolators,
// variogram cloud and map, PCA and Hermite anamorphosis fits. Same oracle: the call on the Db with masked / undefined samples
// equals the call on the physically reduced Db, in SIZE and in values. Categorical menus put the extreme labels on samples that
// the 2^n masks switch off. One forked child per case runs every operation (crash isolation, CPU limit).
// =====================================================================================================
namespace ot
{
using namespace c5;
static const double FAC[3][6] = {{1, 2, 3, 4, 2, 1}, {4, 1, 2, 3, 1, 2}, {2, 4, 1, 4, 3, 1}};
static const double CODE[6] = {1, 2, 3, 2, 5, 1};
static bool g_valuesComplete = true;   // set per case: getters that read coordinates / codes only are judged when no VALUE is undefined
struct Op { const char* name; std::function<Obs(const Raw& fac, const Raw& con, const VD& code)> run; };
static void addVec(Obs& o, const std::string& nm, const VectorDouble& v) { o.add(nm + ".size", (double)v.size()); for (size_t i = 0; i < v.size(); i++) o.add(nm + "[" + std::to_string(i) + "]", v[i]); }
static void addTable(Obs& o, const std::string& nm, const Table& t) { o.add(nm + ".nrows", t.getNRows()); o.add(nm + ".ncols", t.getNCols()); for (int i = 0; i < t.getNRows(); i++) for (int j = 0; j < t.getNCols(); j++) o.add(nm + "(" + std::to_string(i) + "," + std::to_string(j) + ")", t.getValue(i, j)); }
static void addGrid(Obs& o, const std::string& nm, const DbGrid* g, int firstCol)
{
  if (!g) { o.err = 1; return; }
  o.add(nm + ".nodes", g->getSampleNumber());
  for (int ic = firstCol; ic < g->getColumnNumber(); ic++) for (int i = 0; i < g->getSampleNumber(); i++) o.add(nm + "." + g->getNameByColIdx(ic) + "[" + std::to_string(i) + "]", g->getValueByColIdx(i, ic));
}
static VD lastCols(Db* d, int ncolBefore, int iech) { VD v; for (int ic = ncolBefore; ic < d->getColumnNumber(); ic++) v.push_back(d->getValueByColIdx(iech, ic)); return v; }
// interpolators: values written at the 4 targets (+ target 2 masked)
template<class F> static Obs onTargets(const Raw& con, F call)
{
  Obs o;
  Raw one = con; one.z.resize(1); one.nvar = 1;
  DbP din(raw_to_db(one));
  DbP dout(mkTargets(con.ndim, 0, VD({1, 1, 0, 1}), false));
  int nc = dout->getColumnNumber();
  o.err = call(din.get(), dout.get());
  o.add("new columns", dout->getColumnNumber() - nc);
  for (int t = 0; t < 4; t++) { VD v = lastCols(dout.get(), nc, t); for (size_t k = 0; k < v.size(); k++) o.add("target " + std::to_string(t) + " col " + std::to_string(k), v[k]); }
  return o;
}
static std::vector<Op> ops()
{
  std::vector<Op> L;
  L.push_back({"getFaciesNumber", [](const Raw& f, const Raw&, const VD&) { Obs o; DbP d(raw_to_db(f)); o.add("nfacies", d->getFaciesNumber()); return o; }});
  L.push_back({"dbStatisticsFacies", [](const Raw& f, const Raw&, const VD&) { Obs o; DbP d(raw_to_db(f)); addVec(o, "proportions", dbStatisticsFacies(d.get())); return o; }});
  L.push_back({"dbStatisticsIndicator", [](const Raw& f, const Raw&, const VD&) { Obs o; Raw g = f; for (auto& v : g.z[0]) if (!FFFF(v)) v = (v >= 3) ? 1. : 0.; DbP d(raw_to_db(g)); o.add("indicator mean", dbStatisticsIndicator(d.get())); return o; }});
  L.push_back({"Vario::computeIndic", [](const Raw& f, const Raw&, const VD&) {
    Obs o; DbP d(raw_to_db(f));
    std::unique_ptr<VarioParam> vp(VarioParam::createOmniDirection(3, 1.5, 0.5));
    std::unique_ptr<Vario> v(Vario::create(*vp));
    o.err = v->computeIndic(d.get());
    if (o.err) return o;
    int nv = v->getVariableNumber();
    o.add("number of indicator variables", nv);
    for (int i = 0; i < nv; i++) for (int j = 0; j <= i; j++)
    {
      o.add("var(" + std::to_string(i) + "," + std::to_string(j) + ")", v->getVar(i, j));
      for (int k = 0; k < v->getDirSize(0); k++)
      {
        int ad = v->getDirAddress(0, i, j, k, true, 0);
        if (ad < 0) continue;
        std::string l = "(" + std::to_string(i) + "," + std::to_string(j) + ") slot " + std::to_string(k);
        o.add("sw" + l, v->getSwByIndex(0, ad)); o.add("gg" + l, v->getGgByIndex(0, ad));
      }
    }
    return o; }});
  // the means stored in the Vario are judged apart: on the unchanged tree Vario::_getStatistics loops 'iech < nvar' (number of
  // VARIABLES) instead of the number of samples, so they depend on the table size whatever the masks
  L.push_back({"Vario::computeIndic:getMeans", [](const Raw& f, const Raw&, const VD&) {
    Obs o; DbP d(raw_to_db(f));
    std::unique_ptr<VarioParam> vp(VarioParam::createOmniDirection(3, 1.5, 0.5));
    std::unique_ptr<Vario> v(Vario::create(*vp));
    o.err = v->computeIndic(d.get());
    if (!o.err) addVec(o, "means", v->getMeans());
    return o; }});
  L.push_back({"dbStatisticsMulti", [](const Raw&, const Raw& c, const VD&) { Obs o; DbP d(raw_to_db(c)); for (const char* k : {"MEAN", "VAR", "NUM", "MINI", "MAXI"}) for (int mono = 0; mono < 2; mono++) addTable(o, std::string(k) + (mono ? ":mono" : ":multi"), dbStatisticsMulti(d.get(), {"z1", "z2"}, EStatOption::fromKey(k), mono)); return o; }});
  L.push_back({"dbStatisticsPerCell", [](const Raw&, const Raw& c, const VD&) {
    Obs o; DbP d(raw_to_db(c));
    std::unique_ptr<DbGrid> g(DbGrid::create(VectorInt(c.ndim, 2), VectorDouble(c.ndim, 2.5), VectorDouble(c.ndim, -0.25)));
    for (const char* k : {"NUM", "MEAN", "VAR", "MAXI"}) addVec(o, k, dbStatisticsPerCell(d.get(), g.get(), EStatOption::fromKey(k), "z1"));
    addVec(o, "COV", dbStatisticsPerCell(d.get(), g.get(), EStatOption::fromKey("COV"), "z1", "z2"));
    return o; }});
  L.push_back({"regression", [](const Raw&, const Raw& c, const VD&) { Obs o; DbP d(raw_to_db(c)); Regression r = regression(d.get(), "z1", {"z2"}, 0, true); o.add("count", r.getCount()); addVec(o, "coeffs", r.getCoeffs()); o.add("variance", r.getVariance()); o.add("varres", r.getVarres()); return o; }});
  L.push_back({"column-getters(useSel)", [](const Raw&, const Raw& c, const VD&) {
    Obs o; DbP d(raw_to_db(c));
    // getters that read coordinates only are judged when no VALUE is undefined (a sample without value keeps its location)
    if (g_valuesComplete) { for (int k = 0; k < c.ndim; k++) addVec(o, "extrema x" + std::to_string(k + 1), d->getExtrema(k, true)); o.add("active samples", d->getSampleNumber(true)); o.add("extension diagonal", d->getExtensionDiagonal(true)); }
    for (const char* z : {"z1", "z2"}) { o.add(std::string("min ") + z, d->getMinimum(z, true)); o.add(std::string("max ") + z, d->getMaximum(z, true)); o.add(std::string("mean ") + z, d->getMean(z, true)); o.add(std::string("var ") + z, d->getVariance(z, true)); o.add(std::string("stdv ") + z, d->getStdv(z, true)); addVec(o, std::string("range ") + z, d->getRange(z, true)); }
    o.add("correlation", d->getCorrelation("z1", "z2", true));
    return o; }});
  L.push_back({"getCodeList", [](const Raw&, const Raw& c, const VD& code) { Obs o; if (!g_valuesComplete) return o; /* codes do not depend on values */ DbP d(raw_to_db(c)); d->addColumns(VectorDouble(code.begin(), code.end()), "code", ELoc::C); addVec(o, "codes", d->getCodeList()); return o; }});
  L.push_back({"dbVarianceMatrix", [](const Raw&, const Raw& c, const VD&) { Obs o; DbP d(raw_to_db(c)); MatrixSquareSymmetric m = dbVarianceMatrix(d.get()); o.add("size", m.getNRows()); for (int i = 0; i < m.getNRows(); i++) for (int j = 0; j <= i; j++) o.add("V(" + std::to_string(i) + "," + std::to_string(j) + ")", m.getValue(i, j)); return o; }});
  // declustering: weights of the kept samples (methods 1 = moving window count, 2 = kriging weight of the mean)
  for (int method = 1; method <= 2; method++)
    L.push_back({method == 1 ? "declustering-method1" : "declustering-method2", [method](const Raw&, const Raw& c, const VD&) {
      Obs o; Raw one = c; one.z.resize(1); one.nvar = 1; DbP d(raw_to_db(one));
      ModelP m(make_model(c.ndim, 1, 1));
      std::unique_ptr<NeighUnique> nu(NeighUnique::create());
      int nc = d->getColumnNumber();
      o.err = declustering(d.get(), m.get(), method, nu.get(), nullptr, VectorDouble(c.ndim, 1.5));
      std::vector<int> keep = keepOf(one);
      for (int i = 0; i < one.n; i++)
      {
        VD v = lastCols(d.get(), nc, i);
        if (keep[i]) for (size_t k = 0; k < v.size(); k++) o.add("weight of kept sample (original rank " + std::to_string(i) + ")", v[k]);
      }
      return o; }});
  L.push_back({"inverseDistance", [](const Raw&, const Raw& c, const VD&) { return onTargets(c, [](Db* a, Db* b) { return inverseDistance(a, b, 2., true, TEST); }); }});
  L.push_back({"inverseDistance(dmax)", [](const Raw&, const Raw& c, const VD&) { return onTargets(c, [](Db* a, Db* b) { return inverseDistance(a, b, 1., true, 2.25); }); }});
  L.push_back({"nearestNeighbor", [](const Raw&, const Raw& c, const VD&) { return onTargets(c, [](Db* a, Db* b) { return nearestNeighbor(a, b); }); }});
  L.push_back({"movingAverage", [](const Raw&, const Raw& c, const VD&) { return onTargets(c, [](Db* a, Db* b) { std::unique_ptr<NeighMoving> nm(NeighMoving::create(false, 2, TEST)); return movingAverage(a, b, nm.get()); }); }});
  L.push_back({"movingMedian", [](const Raw&, const Raw& c, const VD&) { return onTargets(c, [](Db* a, Db* b) { std::unique_ptr<NeighMoving> nm(NeighMoving::create(false, 3, TEST)); return movingMedian(a, b, nm.get()); }); }});
  L.push_back({"leastSquares", [](const Raw&, const Raw& c, const VD&) { return onTargets(c, [](Db* a, Db* b) { std::unique_ptr<NeighUnique> nu(NeighUnique::create()); return leastSquares(a, b, nu.get(), 0); }); }});
  L.push_back({"db_vcloud", [](const Raw&, const Raw& c, const VD&) {
    Obs o; Raw one = c; one.z.resize(1); one.nvar = 1; DbP d(raw_to_db(one));
    std::unique_ptr<VarioParam> vp(VarioParam::createOmniDirection(3, 1.5, 0.5));
    std::unique_ptr<DbGrid> g(db_vcloud(d.get(), vp.get(), 8., 40., 4, 4));
    addGrid(o, "cloud", g.get(), 0);
    return o; }});
  L.push_back({"db_vmap", [](const Raw&, const Raw& c, const VD&) {
    Obs o; if (c.ndim != 2) return o;
    Raw one = c; one.z.resize(1); one.nvar = 1; DbP d(raw_to_db(one));
    std::unique_ptr<DbGrid> g(db_vmap(d.get(), ECalcVario::VARIOGRAM, VectorInt({2, 2}), VectorDouble({1.5, 1.5})));
    addGrid(o, "vmap", g.get(), 0);
    return o; }});
  L.push_back({"PCA::pca_compute", [](const Raw&, const Raw& c, const VD&) { Obs o; DbP d(raw_to_db(c)); PCA p; o.err = p.pca_compute(d.get()); if (o.err) return o; addVec(o, "means", p.getMeans()); addVec(o, "sigmas", p.getSigmas()); addVec(o, "eigenvalues", p.getEigVals()); return o; }});
  L.push_back({"AnamHermite::fit", [](const Raw&, const Raw& c, const VD&) { Obs o; DbP d(raw_to_db(c)); AnamHermite a(3); o.err = a.fit(d.get(), "z1"); if (o.err) return o; addVec(o, "psi", a.getPsiHns()); return o; }});
  return L;
}
}  // namespace ot

VF_PART(other_sample_readers_masked_vs_removed)
{
  using namespace c5;
  using namespace ot;
  bool T = C.thorough();
  int nmax = T ? 6 : 5;
  static std::vector<Op> OPS = ops();
  Space sp;
  sp.axis("n", nmax - 3).axis("ndim", 2).axis("facies-menu", 3).axis("upat", 2).axis("mask", 1 << nmax);
  for_each_case(C, sp, [&](uint64_t id, const std::vector<int>& idx) {
    int n = 4 + idx[0], ndim = idx[1] + 1, kf = idx[2], upat = idx[3];
    unsigned mask = (unsigned)idx[4];
    if (mask >= (1u << n)) return;
    std::string kase = std::to_string(id);
    set_ndim(ndim);
    Raw fac = make_raw(ndim, 1, 0, n), con = make_raw(ndim, 2, 0, n);
    for (int i = 0; i < n; i++) fac.z[0][i] = FAC[kf][i];
    if (upat) { fac.z[0][1] = TEST; con.z[0][1] = TEST; con.z[1][1] = TEST; }
    VD sel(n); for (int i = 0; i < n; i++) sel[i] = (mask >> i) & 1;
    fac.sel = sel; con.sel = sel;
    std::vector<int> keep = keepOf(con);
    int nkeep = 0; for (int k : keep) nkeep += k;
    if (nkeep < 3) { C.skip(); C.outcome("excluded:fewer-than-3-usable-samples"); return; }
    Raw facR = reduce_raw(fac, keep), conR = reduce_raw(con, keep);
    VD code(CODE, CODE + n), codeR; for (int i = 0; i < n; i++) if (keep[i]) codeR.push_back(code[i]);
    // does the mask hide the only sample(s) carrying the largest facies label / an extreme of z1 ?
    double fmaxAll = 0, fmaxAct = 0; for (int i = 0; i < n; i++) { if (!FFFF(fac.z[0][i])) fmaxAll = std::max(fmaxAll, fac.z[0][i]); if (keep[i]) fmaxAct = std::max(fmaxAct, fac.z[0][i]); }
    bool extremeHidden = fmaxAct < fmaxAll;
    if (extremeHidden) C.outcome("stimulus:largest-facies-label-only-on-removed-samples");
    std::string what = " ; facies data=" + raw_str(fac) + " continuous data=" + raw_str(con) + " codes=" + vstr(code);
    if (id % 577 == 9) C.sample("{\"id\":" + kase + ",\"facies\":" + raw_str(fac) + ",\"continuous\":" + raw_str(con) + "}");
    g_valuesComplete = (upat == 0);
    ChildResult cr = run_child([&](int wfd) {
      limit_child_cpu(5);
      for (auto& op : OPS)
      {
        child_write(wfd, std::string("B|") + op.name + "\n");
        Obs a = op.run(fac, con, code), b = op.run(facR, conR, codeR);
        double worst = 0;
        std::string d = cmpObs(a, b, 1e-10, worst);
        for (auto& ch : d) if (ch == '\n') ch = ' ';
        child_write(wfd, std::string("R|") + op.name + "|" + std::to_string(a.val.size()) + "|" + decade(worst) + "|" + d + "\n");
      }
      return 0;
    }, 120.);
    std::stringstream ss(cr.data);
    std::string line, begun;
    bool reduced = nkeep < n;
    while (std::getline(ss, line))
    {
      if (line.size() < 3) continue;
      if (line[0] == 'B') { begun = line.substr(2); continue; }
      size_t p1 = line.find('|', 2), p2 = line.find('|', p1 + 1), p3 = line.find('|', p2 + 1);
      std::string op = line.substr(2, p1 - 2), nres = line.substr(p1 + 1, p2 - p1 - 1), dec = line.substr(p2 + 1, p3 - p2 - 1), d = line.substr(p3 + 1);
      begun.clear();
      C.eval();
      C.outcome(op + (nres == "0" ? ":NO-RESULT" : reduced ? ":some-removed:" : ":nothing-removed:") + (nres == "0" ? "" : d.empty() ? "same" : "DIFFERENT"));
      if (reduced) C.nontrivial(Hash().u(id).s(op).h);
      if (!d.empty()) C.violation(op + ":differs-from-removed" + (upat ? ":undefined-value" : ":selection"), op + ": " + d + what, kase);
    }
    if (!cr.clean() || cr.code != 0)
    {
      C.eval();
      C.outcome("child:" + cr.describe() + " in " + begun);
      C.violation((begun.empty() ? std::string("other-readers") : begun) + ":" + (child_hung(cr) ? "does-not-return" : "crash"), begun + " ends with " + cr.describe() + what, kase);
    }
  });
}

int main(int argc, char** argv)
{
  return run_main(argc, argv, [](Ctx&) { silence(); });
}
