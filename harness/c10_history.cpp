// C10 — results depend only on the arguments, not on what was called before; copies are independent;
//        incrementally updated objects answer as fresh ones.
//
// Engine E2 (bfs.hpp) + E3 helper (fork.hpp).  Four parts:
//
//  hist      breadth-first search over histories of ~29 real public calls (covariance-matrix requests incl. failing
//            ones, kriging / xvalid / simtub / migrate / variogram / neighbourhood selection / multigaussian
//            integral / generator draws / debug options ...) on ONE set of long-lived objects (Model, Dbs, grid,
//            neighbourhoods).  EVERY history runs in its own forked child of a process that never called the
//            library (= the property's "fresh process").  Oracle = the property itself: the observation returned
//            by the LAST call of a history equals the observation of the same call executed alone in a pristine
//            child.  The canonical key hashes all mutable hidden state the alphabet can reach (generator seed,
//            OptDbg tables, default space, covariance caches _p1As/_p2A/_isOptimPreProcessed of the list and of every
//            basic structure, neighbourhood memo fields and work arrays, full Db tables incl. UID tables, grid work
//            arrays, number of multigaussian calls standing for the function-local statics of MathFunc.cpp).
//            "A failed call leaves the hidden state unchanged" is NOT judged (the property does not state it); it
//            is only counted in the outcome histogram and used to name the mechanism of a violation.
//  kcalc     E2 on one KrigingCalcul object: set*/get* calls (incl. failing ones); oracle 1: removing all earlier
//            get* calls from the history does not change what the last get* returns (lazy matrices are invisible);
//            oracle 2: when all set* calls succeeded, the last get* answers as a freshly built object that receives
//            the final content once.
//  vec_cow   E2 on three VectorNumT<double>/VectorT handles sharing copy-on-write storage against three
//            independent std::vector<double>.
//  copies    clone / copy-construct / assign of Db, DbGrid, Model, CovAniso, NeighMoving, NeighUnique, Vario,
//            matrices, VectorT: mutate the source, compare the copy with its pre-mutation snapshot (and the other
//            way round), destroy both.
//
// Numbers are compared with a relative tolerance of 1e-12 (same code, same inputs; bitwise equality is counted in the
// histogram) — a stale cache changes results by O(1).
#include "vf/gst.hpp"
#include "vf/bfs.hpp"
#include "vf/fork.hpp"

#include "Basic/MathFunc.hpp"
#include "Anamorphosis/AnamHermite.hpp"
#include "Geometry/Rotation.hpp"
#include "Basic/Tensor.hpp"
#include "Basic/OptCst.hpp"
#include "Basic/OptCustom.hpp"
#include "Enum/ECst.hpp"
#include "Covariances/CovCalcMode.hpp"
#include "Calculators/CalcMigrate.hpp"
#include "Covariances/CovAniso.hpp"
#include "Covariances/ACovAnisoList.hpp"
#include "Estimation/CalcKriging.hpp"
#include "Estimation/KrigingCalcul.hpp"
#include "Matrix/MatrixRectangular.hpp"
#include "Matrix/MatrixSquareGeneral.hpp"
#include "Matrix/MatrixSquareSymmetric.hpp"
#include "Matrix/MatrixSparse.hpp"
#include "Model/Model.hpp"
#include "Neigh/NeighMoving.hpp"
#include "Neigh/NeighUnique.hpp"
#include "Simulation/CalcSimuTurningBands.hpp"
#include "Space/ASpaceObject.hpp"
#include "Space/SpaceRN.hpp"
#include "Variogram/Vario.hpp"
#include "Variogram/VarioParam.hpp"
#include "Variogram/DirParam.hpp"
#include "Geometry/BiTargetCheckCode.hpp"
#include "Matrix/NF_Triplet.hpp"
#include "Basic/VectorNumT.hpp"
#include "Covariances/CovContext.hpp"

#include <random>
extern std::mt19937 Random_gen;  // Law.cpp (process-wide generator of the "new style")

using namespace vf;

// ================================================================================================================
// observations
struct Obs
{
  bool failed = false;   // the call reported failure (error code / empty result)
  bool judged = true;    // false: the result legitimately depends on the process state (unseeded draws)
  std::string tag;       // discrete part of the result (codes, names, sizes)
  std::vector<double> v; // numeric part
};
static std::string obs_ser(const Obs& o)
{
  std::string s = std::string(o.failed ? "1" : "0") + (o.judged ? "1" : "0") + " " + std::to_string(o.v.size()) + " " + std::to_string(o.tag.size()) + " " + o.tag;
  char b[40];
  for (double x : o.v) { snprintf(b, 40, " %a", x); s += b; }
  return s;
}
static bool obs_parse(const std::string& s, Obs& o)
{
  if (s.size() < 4) return false;
  o.failed = s[0] == '1'; o.judged = s[1] == '1';
  const char* p = s.c_str() + 3;
  char* e;
  size_t nv = strtoull(p, &e, 10); p = e;
  size_t nt = strtoull(p, &e, 10); p = e + 1;
  if ((size_t)(s.c_str() + s.size() - p) < nt) return false;
  o.tag.assign(p, nt); p += nt;
  o.v.clear();
  for (size_t i = 0; i < nv; i++) { double x = strtod(p, &e); if (e == p) return false; p = e; o.v.push_back(x); }
  return true;
}
static bool same_double(double a, double b) { return memcmp(&a, &b, 8) == 0 || (a == b); }
// 0 = bitwise/equal, 1 = equal within tolerance, 2 = different
static int obs_cmp(const Obs& a, const Obs& b, std::string* why = nullptr)
{
  if (a.failed != b.failed) { if (why) *why = std::string("status ") + (a.failed ? "failed" : "ok") + " vs " + (b.failed ? "failed" : "ok"); return 2; }
  if (a.tag != b.tag) { if (why) *why = "discrete result '" + a.tag + "' vs '" + b.tag + "'"; return 2; }
  if (a.v.size() != b.v.size()) { if (why) *why = "result size " + std::to_string(a.v.size()) + " vs " + std::to_string(b.v.size()); return 2; }
  int r = 0;
  double worst = 0; size_t wi = 0;
  for (size_t i = 0; i < a.v.size(); i++)
  {
    if (same_double(a.v[i], b.v[i])) continue;
    if (std::isnan(a.v[i]) && std::isnan(b.v[i])) continue;
    if (close(a.v[i], b.v[i], 1e-12)) { r = std::max(r, 1); continue; }
    double d = std::fabs(a.v[i] - b.v[i]);
    if (!(d <= worst)) { worst = d; wi = i; }
    r = 2;
  }
  if (r == 2 && why) *why = "value #" + std::to_string(wi) + " = " + fmt(a.v[wi]) + " vs " + fmt(b.v[wi]) + " (max abs diff " + fmt(worst) + " over " + std::to_string(a.v.size()) + " values)";
  return r;
}
static void put_matrix(Obs& o, const AMatrix& m)
{
  o.tag += std::to_string(m.getNRows()) + "x" + std::to_string(m.getNCols()) + ";";
  for (int i = 0; i < m.getNRows(); i++) for (int j = 0; j < m.getNCols(); j++) o.v.push_back(m.getValue(i, j));
}

// ================================================================================================================
// part hist : the world and its alphabet
struct World
{
  Db *A = nullptr, *B = nullptr, *E = nullptr, *A3 = nullptr;
  DbGrid *G = nullptr, *G2 = nullptr;
  Model *M = nullptr, *M3 = nullptr;
  NeighUnique* U = nullptr;
  NeighMoving* N = nullptr;
  VarioParam* vp = nullptr;
  int nmvn22 = 0, nmvn3 = 0;   // stand for the function-local statics of MathFunc.cpp (not addressable)
  int leftover = 0;            // columns found in a clone after a failed calculator (diagnostic)
  bool oldstyle = true;        // stands for the file static Random_Old_Style of Law.cpp (not addressable)
  double ntdec0 = 0;           // initial value of the option changed by the OptCst ops
};
static World* build_world()
{
  World* w = new World;
  // dyadic coordinates, no two points at the same place, no target on a datum
  w->A = make_db_xz({{0, 1, 0, 2, 3}, {0, 0, 1, 2, 1}}, {{1, 2, 0.5, -1, 3}});
  w->B = make_db_xz({{0.5, 1.5, 2.5}, {0.5, 0.25, 1.75}}, {{1, 2, 4}});
  w->E = make_db_xz({{0, 1, 2, 3}, {1, 0, 1, 0}}, {{TEST, TEST, TEST, TEST}});
  w->A3 = make_db_xz({{0, 1, 0}, {0, 0, 1}, {0, 1, 2}}, {{1, 2, 0.5}});
  w->G = DbGrid::create({3, 3}, {1., 1.}, {0.25, 0.25});
  w->G2 = DbGrid::create({4, 2}, {0.5, 1.}, {-1., 0.5}, {30., 0.});
  w->M = Model::createFromParam(ECov::SPHERICAL, 1., 2., 1., {4., 2.}, VectorDouble(), {30., 0.});
  w->M->addCovFromParam(ECov::NUGGET, 0., 0.5);
  SpaceRN sp3(3);
  w->M3 = Model::createFromParam(ECov::SPHERICAL, 2., 1., 1., VectorDouble(), VectorDouble(), VectorDouble(), &sp3);
  w->U = NeighUnique::create();
  w->N = NeighMoving::create(false, 3, 2.5);
  w->vp = VarioParam::createOmniDirection(3, 1.);
  w->ntdec0 = OptCst::query(ECst::NTDEC);
  return w;
}

// values of the columns a calculator added to db (in creation order), then nothing else: the db is a private clone
static void put_new_columns(Obs& o, Db* db, int ncol0)
{
  o.tag += "newcols=" + std::to_string(db->getColumnNumber() - ncol0) + ";";
  for (int ic = ncol0; ic < db->getColumnNumber(); ic++)
    for (int ie = 0; ie < db->getSampleNumber(); ie++) o.v.push_back(db->getValueByColIdx(ie, ic));
}

enum OpId
{
  OP_OPTIM_AA, OP_OPTIM_EE, OP_OPTIM_AB, OP_OPTIM_A3, OP_OPTIM_AE, OP_SYM_B, OP_SYM_E, OP_COV_AB, OP_COVSYM_A,
  OP_KRIG_U, OP_KRIG_N, OP_KRIG_3D, OP_KRIG_BLOCK, OP_KRIG_LC, OP_KRIGTEST, OP_XVALID_U, OP_XVALID_N,
  OP_SIMTUB_NC, OP_SIMTUB_C, OP_SIMTUB_FAIL, OP_DRAWS, OP_SEEDED_DRAWS, OP_VARIO, OP_MIGRATE, OP_GRIDCONV,
  OP_DBG_KRIG, OP_NEIGH_SEL, OP_MVN3, OP_MVN22,
  // --- widened alphabet -------------------------------------------------------------------------------------------
  // requests with a CovCalcMode restricted to one basic structure
  OP_OPTIM_AB_MODE0, OP_COV_AB_MODE0,
  // CONFIG calls: they change the documented content / options the later requests legitimately depend on
  CF_FILT0_ON, CF_FILT0_OFF, CF_FILT1_ON, CF_FILT1_OFF, CF_OPTIM0_OFF, CF_OPTIM0_ON, CF_RANGE_CHG, CF_RANGE_BACK, CF_SILL_CHG, CF_SILL_BACK,
  CF_DRIFT_ADD, CF_DRIFT_DEL, CF_OPTCST_SET, CF_OPTCST_BACK, CF_OLDSTYLE_OFF, CF_OLDSTYLE_ON,
  // do + request + undo in one call (the content is the same before and after)
  PAIR_FILT0_OPTIM_AA, PAIR_FILT1_SYM_B, PAIR_OPTIMOFF_OPTIM_AB, PAIR_RANGE_OPTIM_AB, PAIR_DRIFT_KRIG_U, PAIR_OLDSTYLE_DRAWS, PAIR_OPTCUSTOM,
  // degenerate arguments of a function that installs its own seed and must restore the caller's
  OP_MVN_UNBOUNDED, OP_MVN_N101,
  NOPS
};
static const int FIRST_NEW_OP = OP_OPTIM_AB_MODE0;
static bool is_config(int op) { return op >= CF_FILT0_ON && op <= CF_OLDSTYLE_ON; }
struct OpInfo { const char* name; const char* family; };
static const OpInfo OPS[NOPS] = {
  {"evalCovMatrixOptim(A,A)", "optim"}, {"evalCovMatrixOptim(E,E)[all values undefined: fails]", "optim"},
  {"evalCovMatrixOptim(A,B)", "optim"}, {"evalCovMatrixOptim(A3,A3)[3-D Db, 2-D model]", "optim"},
  {"evalCovMatrixOptim(A,E)[fails]", "optim"}, {"evalCovMatrixSymmetricOptim(B)", "optim"},
  {"evalCovMatrixSymmetricOptim(E)[fails]", "optim"}, {"evalCovMatrix(A,B)", "covmat"}, {"evalCovMatrixSymmetric(A)", "covmat"},
  {"kriging(A->G,Unique)", "kriging"}, {"kriging(A->G,Moving)", "kriging"}, {"kriging(A->G,3-D model)[fails in check]", "kriging"},
  {"kriging(BLOCK without ndiscs)[fails in run]", "kriging"}, {"kriging(matLC of wrong size)[fails in run]", "kriging"},
  {"krigtest(A->G,Moving,iech0=4,verbose)", "krigtest"}, {"xvalid(A,Unique)", "xvalid"}, {"xvalid(A,Moving)", "xvalid"},
  {"simtub(->G,seed 7)", "simtub"}, {"simtub(A->G,Unique,seed 7)", "simtub"}, {"simtub(nbtuba=0)[fails]", "simtub"},
  {"law_gaussian x3 (unseeded)", "draws"}, {"law_set_random_seed(1234)+law_gaussian x3", "draws"},
  {"Vario::computeFromDb(A)", "vario"}, {"migrate(A->G)", "migrate"}, {"Grid conversions on G and G2", "grid"},
  {"OptDbg::define+kriging+undefine", "kriging"}, {"NeighMoving attach+select x3", "neigh"},
  {"mvndst(n=3)", "mvndst"}, {"mvndst(n=22)", "mvndst"},
  {"evalCovMatrixOptim(A,B,mode=structure 0 only)", "optim"}, {"evalCovMatrix(A,B,mode=structure 0 only)", "covmat"},
  {"setCovaFiltered(0,true)", "config"}, {"setCovaFiltered(0,false)", "config"}, {"setCovaFiltered(1,true)", "config"}, {"setCovaFiltered(1,false)", "config"},
  {"getCova(0)->setOptimEnabled(false)", "config"}, {"getCova(0)->setOptimEnabled(true)", "config"}, {"getCova(0)->setRanges({2,1})", "config"}, {"getCova(0)->setRanges({4,2})", "config"},
  {"getCova(0)->setSill(0,0,3)", "config"}, {"getCova(0)->setSill(0,0,2)", "config"}, {"setDriftIRF(0)", "config"}, {"delAllDrifts()", "config"},
  {"OptCst::define(NTDEC,8)", "config"}, {"OptCst::define(NTDEC,initial)", "config"}, {"law_set_old_style(false)", "config"}, {"law_set_old_style(true)", "config"},
  {"filter(0) on + evalCovMatrixOptim(A,A) + off", "optim"}, {"filter(1) on + evalCovMatrixSymmetricOptim(B) + off", "optim"},
  {"optim(0) off + evalCovMatrixOptim(A,B) + on", "optim"}, {"ranges {2,1} + evalCovMatrixOptim(A,B) + ranges {4,2}", "optim"},
  {"setDriftIRF(0) + kriging(A->G,Unique) + delAllDrifts", "kriging"}, {"old style off + seeded draws + old style on", "draws"},
  {"OptCustom define/undefine + OptCst define/restore", "options"},
  {"mvndst(n=3, every variable unbounded)", "mvndst"}, {"mvndst(n=101)[refused]", "mvndst"}};
// calls documented as consuming / reseeding the process-wide generator; every other call must leave it as it found it
static bool is_random_op(int op) { return op == OP_SIMTUB_NC || op == OP_SIMTUB_C || op == OP_SIMTUB_FAIL || op == OP_DRAWS || op == OP_SEEDED_DRAWS || op == PAIR_OLDSTYLE_DRAWS; }
// which documented option / content a new call touches (part of the finding key)
static std::string option_kind(int op)
{
  switch (op)
  {
    case OP_OPTIM_AB_MODE0: case OP_COV_AB_MODE0: return "calcmode";
    case CF_FILT0_ON: case CF_FILT0_OFF: case CF_FILT1_ON: case CF_FILT1_OFF: case PAIR_FILT0_OPTIM_AA: case PAIR_FILT1_SYM_B: return "filtered-structure";
    case CF_OPTIM0_OFF: case CF_OPTIM0_ON: case PAIR_OPTIMOFF_OPTIM_AB: return "optim-switch";
    case CF_RANGE_CHG: case CF_RANGE_BACK: case PAIR_RANGE_OPTIM_AB: return "ranges";
    case CF_SILL_CHG: case CF_SILL_BACK: return "sill";
    case CF_DRIFT_ADD: case CF_DRIFT_DEL: case PAIR_DRIFT_KRIG_U: return "drift";
    case CF_OPTCST_SET: case CF_OPTCST_BACK: case PAIR_OPTCUSTOM: return "optcst";
    case CF_OLDSTYLE_OFF: case CF_OLDSTYLE_ON: case PAIR_OLDSTYLE_DRAWS: return "old-style";
  }
  return "";
}
static int plain_request(int op)
{
  switch (op)
  {
    case PAIR_FILT0_OPTIM_AA: return OP_OPTIM_AA; case PAIR_FILT1_SYM_B: return OP_SYM_B; case PAIR_OPTIMOFF_OPTIM_AB: case PAIR_RANGE_OPTIM_AB: case OP_OPTIM_AB_MODE0: return OP_OPTIM_AB;
    case PAIR_DRIFT_KRIG_U: return OP_KRIG_U; case PAIR_OLDSTYLE_DRAWS: return OP_SEEDED_DRAWS; case OP_COV_AB_MODE0: return OP_COV_AB;
  }
  return -1;
}
static bool q_is_new(int op) { return op >= FIRST_NEW_OP; }
static bool is_cov_request(int op) { std::string f = OPS[op].family; return f == "optim" || f == "covmat"; }

static Obs apply_op(World& w, int op)
{
  Obs o;
  auto calc_on_clones = [&](bool cloneA, auto fn) {
    Db* a = cloneA ? w.A->clone() : nullptr;
    DbGrid* g = w.G->clone();
    int na = a ? a->getColumnNumber() : 0, ng = g->getColumnNumber();
    int rc = fn(a, g);
    o.failed = rc != 0;
    o.tag += "rc=" + std::to_string(rc) + ";";
    if (!o.failed) { put_new_columns(o, g, ng); if (a) put_new_columns(o, a, na); }
    else w.leftover += (g->getColumnNumber() - ng) + (a ? a->getColumnNumber() - na : 0);
    delete a; delete g;
  };
  switch (op)
  {
    case OP_OPTIM_AA: { MatrixRectangular m = w.M->evalCovMatrixOptim(w.A, w.A); put_matrix(o, m); o.failed = m.size() == 0; break; }
    case OP_OPTIM_EE: { MatrixRectangular m = w.M->evalCovMatrixOptim(w.E, w.E); put_matrix(o, m); o.failed = m.size() == 0; break; }
    case OP_OPTIM_AB: { MatrixRectangular m = w.M->evalCovMatrixOptim(w.A, w.B); put_matrix(o, m); o.failed = m.size() == 0; break; }
    case OP_OPTIM_A3: { MatrixRectangular m = w.M->evalCovMatrixOptim(w.A3, w.A3); put_matrix(o, m); o.failed = m.size() == 0; break; }
    case OP_OPTIM_AE: { MatrixRectangular m = w.M->evalCovMatrixOptim(w.A, w.E); put_matrix(o, m); o.failed = m.size() == 0; break; }
    case OP_SYM_B: { MatrixSquareSymmetric m = w.M->evalCovMatrixSymmetricOptim(w.B); put_matrix(o, m); o.failed = m.size() == 0; break; }
    case OP_SYM_E: { MatrixSquareSymmetric m = w.M->evalCovMatrixSymmetricOptim(w.E); put_matrix(o, m); o.failed = m.size() == 0; break; }
    case OP_COV_AB: { MatrixRectangular m = w.M->evalCovMatrix(w.A, w.B); put_matrix(o, m); o.failed = m.size() == 0; break; }
    case OP_COVSYM_A: { MatrixSquareSymmetric m = w.M->evalCovMatrixSymmetric(w.A); put_matrix(o, m); o.failed = m.size() == 0; break; }
    case OP_KRIG_U: calc_on_clones(true, [&](Db* a, DbGrid* g) { return kriging(a, g, w.M, w.U); }); break;
    case OP_KRIG_N: calc_on_clones(true, [&](Db* a, DbGrid* g) { return kriging(a, g, w.M, w.N); }); break;
    case OP_KRIG_3D: calc_on_clones(true, [&](Db* a, DbGrid* g) { return kriging(a, g, w.M3, w.U); }); break;
    case OP_KRIG_BLOCK: calc_on_clones(true, [&](Db* a, DbGrid* g) { return kriging(a, g, w.M, w.N, EKrigOpt::BLOCK); }); break;
    case OP_KRIG_LC:
      calc_on_clones(true, [&](Db* a, DbGrid* g) { MatrixRectangular LC(3, 2); return kriging(a, g, w.M, w.U, EKrigOpt::POINT, true, true, false, VectorInt(), VectorInt(), &LC); });
      break;
    case OP_KRIGTEST:
    {
      Db* a = w.A->clone(); DbGrid* g = w.G->clone();
      Krigtest_Res r = krigtest(a, g, w.M, w.N, 4, EKrigOpt::POINT, VectorInt(), false, true);
      o.tag += "ndim=" + std::to_string(r.ndim) + ",nvar=" + std::to_string(r.nvar) + ",nech=" + std::to_string(r.nech) + ",neq=" + std::to_string(r.neq) + ",nrhs=" + std::to_string(r.nrhs) + ";nbgh=";
      for (int i : r.nbgh) o.tag += std::to_string(i) + ",";
      put_matrix(o, r.wgt); put_matrix(o, r.var); put_matrix(o, r.zam);
      for (auto& c : r.xyz) for (double x : c) o.v.push_back(x);
      for (double x : r.data) o.v.push_back(x);
      delete a; delete g;
      break;
    }
    case OP_XVALID_U: calc_on_clones(true, [&](Db* a, DbGrid*) { return xvalid(a, w.M, w.U); }); break;
    case OP_XVALID_N: calc_on_clones(true, [&](Db* a, DbGrid*) { return xvalid(a, w.M, w.N); }); break;
    case OP_SIMTUB_NC: calc_on_clones(false, [&](Db*, DbGrid* g) { return simtub(nullptr, g, w.M, nullptr, 2, 7, 10); }); break;
    case OP_SIMTUB_C: calc_on_clones(true, [&](Db* a, DbGrid* g) { return simtub(a, g, w.M, w.U, 1, 7, 10); }); break;
    case OP_SIMTUB_FAIL: calc_on_clones(true, [&](Db* a, DbGrid* g) { return simtub(a, g, w.M, w.N, 1, 7, 0); }); break;
    case OP_DRAWS: { o.judged = false; for (int i = 0; i < 3; i++) o.v.push_back(law_gaussian()); break; }
    case OP_SEEDED_DRAWS: { law_set_random_seed(1234); for (int i = 0; i < 3; i++) o.v.push_back(law_gaussian()); o.v.push_back(law_uniform(0., 1.)); break; }
    case OP_VARIO:
    {
      Db* a = w.A->clone();
      Vario* v = Vario::computeFromDb(*w.vp, a);
      o.failed = v == nullptr;
      if (v)
      {
        int np = v->getLagNumber(0);
        o.tag += "npas=" + std::to_string(np) + ";";
        for (int i = 0; i < np; i++) { o.v.push_back(v->getSwByIndex(0, i)); o.v.push_back(v->getHhByIndex(0, i)); o.v.push_back(v->getGgByIndex(0, i)); }
        delete v;
      }
      delete a;
      break;
    }
    case OP_MIGRATE: calc_on_clones(true, [&](Db* a, DbGrid* g) { return migrate(a, g, "z1"); }); break;
    case OP_GRIDCONV:
    {
      for (const DbGrid* g : {(const DbGrid*)w.G2, (const DbGrid*)w.G})
      {
        const Grid& gr = g->getGrid();
        for (int r = 0; r < gr.getNTotal(); r++)
        {
          VectorDouble c = gr.getCoordinatesByRank(r);
          VectorDouble c2 = w.G->getGrid().getCoordinatesByRank(r % 9, false);  // interleave the two grids' work arrays
          o.v.push_back(c[0]); o.v.push_back(c[1]); o.v.push_back(c2[0] + c2[1]);
          o.v.push_back(gr.getCoordinate(r, 1));
          o.tag += std::to_string(gr.coordinateToRank(c)) + ",";
        }
        VectorInt ind = gr.coordinateToIndices({0.3, 1.2});
        for (int i : ind) o.tag += std::to_string(i) + "/";
        VectorDouble cc = gr.getCoordinatesByCorner({1, 0});
        o.v.push_back(cc[0]); o.v.push_back(cc[1]);
      }
      break;
    }
    case OP_DBG_KRIG:
      calc_on_clones(true, [&](Db* a, DbGrid* g) {
        OptDbg::define(EDbg::KRIGING); OptDbg::define(EDbg::NBGH); OptDbg::setReference(3);
        int rc = kriging(a, g, w.M, w.N);
        OptDbg::undefine(EDbg::KRIGING); OptDbg::undefine(EDbg::NBGH); OptDbg::setReference(-1);
        return rc; });
      break;
    case OP_NEIGH_SEL:
    {
      int rc = w.N->attach(w.A, w.G);
      o.tag += "attach=" + std::to_string(rc) + ";";
      for (int iech : {4, 4, 5})
      {
        VectorInt ranks;
        w.N->select(iech, ranks);
        o.tag += "sel" + std::to_string(iech) + "=";
        for (int r : ranks) o.tag += std::to_string(r) + ",";
        o.tag += w.N->isUnchanged() ? "u;" : "c;";
      }
      break;
    }
    case OP_MVN3:
    case OP_MVN22:
    {
      int n = op == OP_MVN3 ? 3 : 22;
      (op == OP_MVN3 ? w.nmvn3 : w.nmvn22)++;
      std::vector<double> lo(n, -1.), up(n, 1.), cor(n * (n - 1) / 2, 0.25);
      std::vector<int> inf(n, 2);
      double err = 0, val = 0; int inform = 0;
      mvndst(n, lo.data(), up.data(), inf.data(), cor.data(), 2000, 1e-3, 0, &err, &val, &inform);
      o.tag += "inform=" + std::to_string(inform) + ";";
      o.v.push_back(val); o.v.push_back(err);
      break;
    }
    case OP_OPTIM_AB_MODE0: { CovCalcMode mode; mode.setActiveCovListFromOne(0); MatrixRectangular m = w.M->evalCovMatrixOptim(w.A, w.B, -1, -1, VectorInt(), VectorInt(), &mode); put_matrix(o, m); o.failed = m.size() == 0; break; }
    case OP_COV_AB_MODE0: { CovCalcMode mode; mode.setActiveCovListFromOne(0); MatrixRectangular m = w.M->evalCovMatrix(w.A, w.B, -1, -1, VectorInt(), VectorInt(), &mode); put_matrix(o, m); o.failed = m.size() == 0; break; }
    case CF_FILT0_ON: w.M->setCovaFiltered(0, true); break;
    case CF_FILT0_OFF: w.M->setCovaFiltered(0, false); break;
    case CF_FILT1_ON: w.M->setCovaFiltered(1, true); break;
    case CF_FILT1_OFF: w.M->setCovaFiltered(1, false); break;
    case CF_OPTIM0_OFF: w.M->getCova(0)->setOptimEnabled(false); break;
    case CF_OPTIM0_ON: w.M->getCova(0)->setOptimEnabled(true); break;
    case CF_RANGE_CHG: w.M->getCova(0)->setRanges({2., 1.}); break;
    case CF_RANGE_BACK: w.M->getCova(0)->setRanges({4., 2.}); break;
    case CF_SILL_CHG: w.M->getCova(0)->setSill(0, 0, 3.); break;
    case CF_SILL_BACK: w.M->getCova(0)->setSill(0, 0, 2.); break;
    case CF_DRIFT_ADD: w.M->setDriftIRF(0); break;
    case CF_DRIFT_DEL: w.M->delAllDrifts(); break;
    case CF_OPTCST_SET: OptCst::define(ECst::NTDEC, 8.); break;
    case CF_OPTCST_BACK: OptCst::define(ECst::NTDEC, w.ntdec0); break;
    case CF_OLDSTYLE_OFF: law_set_old_style(false); w.oldstyle = false; break;
    case CF_OLDSTYLE_ON: law_set_old_style(true); w.oldstyle = true; break;
    case PAIR_FILT0_OPTIM_AA: { bool f = w.M->getCovAnisoList()->_filtered[0]; w.M->setCovaFiltered(0, true); o = apply_op(w, OP_OPTIM_AA); w.M->setCovaFiltered(0, f); break; }
    case PAIR_FILT1_SYM_B: { bool f = w.M->getCovAnisoList()->_filtered[1]; w.M->setCovaFiltered(1, true); o = apply_op(w, OP_SYM_B); w.M->setCovaFiltered(1, f); break; }
    case PAIR_OPTIMOFF_OPTIM_AB: { bool f = w.M->getCova(0)->CovAniso::_optimEnabled; w.M->getCova(0)->setOptimEnabled(false); o = apply_op(w, OP_OPTIM_AB); w.M->getCova(0)->setOptimEnabled(f); break; }
    case PAIR_RANGE_OPTIM_AB: { VectorDouble r = w.M->getCova(0)->getRanges(); w.M->getCova(0)->setRanges({2., 1.}); o = apply_op(w, OP_OPTIM_AB); w.M->getCova(0)->setRanges(r); break; }
    case PAIR_DRIFT_KRIG_U:
    {
      if (w.M->getDriftNumber() > 0) { o = apply_op(w, OP_KRIG_U); break; }  // the drift is already there: nothing to do / undo
      w.M->setDriftIRF(0); o = apply_op(w, OP_KRIG_U); w.M->delAllDrifts(); break;
    }
    case PAIR_OLDSTYLE_DRAWS: { bool f = w.oldstyle; law_set_old_style(false); o = apply_op(w, OP_SEEDED_DRAWS); law_set_old_style(f); break; }
    case OP_MVN_UNBOUNDED:
    case OP_MVN_N101:
    {
      int n = op == OP_MVN_UNBOUNDED ? 3 : 101;
      std::vector<double> lo(n, THRESH_INF), up(n, THRESH_SUP), cor(n * (n - 1) / 2, 0.25);
      std::vector<int> inf(n, -1);
      double err = 0, val = 0; int inform = 0;
      mvndst(n, lo.data(), up.data(), inf.data(), cor.data(), 2000, 1e-3, 0, &err, &val, &inform);
      o.tag += "inform=" + std::to_string(inform) + ";";
      o.v.push_back(val); o.v.push_back(err);
      o.failed = inform == 2;
      break;
    }
    case PAIR_OPTCUSTOM:
    {
      OptCustom::define("c10_probe", 3.); o.v.push_back(OptCustom::query("c10_probe", -1.)); OptCustom::undefine("c10_probe"); o.v.push_back(OptCustom::query("c10_probe", -1.));
      double v0 = OptCst::query(ECst::NTCAR); OptCst::define(ECst::NTCAR, 17.); o.v.push_back(OptCst::query(ECst::NTCAR)); OptCst::define(ECst::NTCAR, v0);
      break;
    }
  }
  if (is_config(op)) o.tag = "done";
  return o;
}

// ---------------------------------------------------------------------------------------------------------------
// hidden state, by component
enum Comp { C_RNG, C_RNGGEN, C_OPTDBG, C_SPACE, C_COVCACHE_M, C_MODEL_M, C_COVCACHE_M3, C_MODEL_M3, C_NEIGH_U, C_NEIGH_N, C_DB_A, C_DB_B, C_DB_E, C_DB_A3, C_DB_G, C_DB_G2, C_MATHSTATICS, C_OPTIONS, NCOMP };
static const char* COMP_NAME[NCOMP] = {"rng", "rng(new-style stream)", "optdbg", "defaultspace", "cov-cache(M)", "model(M)", "cov-cache(M3)", "model(M3)", "neighUnique", "neighMoving", "Db A", "Db B", "Db E", "Db A3", "grid G", "grid G2", "mathfunc-statics", "options(OptCst/OptCustom/old-style)"};

static void hash_sp(Hash& h, const SpacePoint& p)
{
  h.i(p.getIech()).i(p.isTarget());
  for (double c : p.getCoords()) h.d(c);
}
static void hash_acov_cache(Hash& h, const ACov* c)
{
  h.i(c->_optimEnabled).i(c->_isOptimPreProcessed).u(c->_p1As.size());
  for (auto& p : c->_p1As) hash_sp(h, p);
  hash_sp(h, c->_p2A);
}
static uint64_t key_covcache(const Model* m)
{
  Hash h;
  const ACovAnisoList* l = m->getCovAnisoList();
  hash_acov_cache(h, l);
  for (int i = 0; i < l->getCovaNumber(); i++) { const CovAniso* c = l->getCova(i); hash_acov_cache(h, c); h.i(c->CovAniso::_optimEnabled); }
  return h.h;
}
static uint64_t key_model(const Model* m)
{
  Hash h;
  const ACovAnisoList* l = m->getCovAnisoList();
  h.i(l->getCovaNumber()).i(m->getVariableNumber()).i(m->getDriftNumber());
  for (int i = 0; i < l->getCovaNumber(); i++)
  {
    const CovAniso* c = l->getCova(i);
    h.i(c->getType().getValue()).d(c->getSill(0, 0)).d(c->getParam()).vd(c->getRanges()).vd(c->getAnisoAngles()).i(l->_filtered[i]);
  }
  h.vd(m->getContext().getMean()).vd(m->getContext().getCovar0()).d(m->getContext().getField());
  return h.h;
}
static int which_db(const World& w, const Db* p)
{
  if (p == nullptr) return 0;
  if (p == w.A) return 1; if (p == w.B) return 2; if (p == w.E) return 3; if (p == w.A3) return 4; if (p == w.G) return 5; if (p == w.G2) return 6;
  return 7;  // some other (possibly dead) Db: identity irrelevant, it must never be read again
}
static uint64_t key_neigh(const World& w, const ANeigh* n)
{
  Hash h;
  h.i(which_db(w, n->_dbin)).i(which_db(w, n->_dbout)).i(which_db(w, n->_dbgrid));
  h.vi(n->_rankColCok).i(n->_iechMemo).i(n->_flagSimu).i(n->_flagXvalid).i(n->_flagKFold).i(n->_useBallSearch).i(n->_ballLeafSize);
  h.i(n->_flagIsUnchanged).vi(n->_nbghMemo);
  const NeighMoving* nm = dynamic_cast<const NeighMoving*>(n);
  if (nm)
  {
    h.i(nm->_nMini).i(nm->_nMaxi).i(nm->_nSect).i(nm->_nSMax).d(nm->_distCont).d(nm->getRadius()).u(nm->_bipts.size());
    h.vi(nm->_movingInd).vi(nm->_movingIsect).vi(nm->_movingNsect).vd(nm->_movingDst).i(which_db(w, nm->NeighMoving::_dbgrid));
  }
  return h.h;
}
static uint64_t key_db(const Db* db)
{
  Hash h;
  h.s(db_snapshot(db)).vi(db->_uidcol);
  const DbGrid* g = dynamic_cast<const DbGrid*>(db);
  if (g)
  {
    const Grid& gr = g->getGrid();
    h.vi(gr.getNXs()).vd(gr.getX0s()).vd(gr.getDXs()).vd(gr.getRotAngles());
    h.vi(gr._iwork0).vd(gr._work1).vd(gr._work2);
  }
  return h.h;
}
static std::vector<uint64_t> components(const World& w)
{
  std::vector<uint64_t> c(NCOMP);
  {
    c[C_RNG] = (uint64_t)(unsigned int)law_get_random_seed();  // the value itself (not a hash): the oracle names what happened to it
    std::ostringstream os; os << Random_gen;
    c[C_RNGGEN] = Hash().s(os.str()).h;
  }
  {
    Hash h; h.u(OptDbg::_dbg.size());
    for (auto& e : OptDbg::_dbg) h.i(e.getValue());
    h.i(OptDbg::_currentIndex).i(OptDbg::_reference);
    c[C_OPTDBG] = h.h;
  }
  c[C_SPACE] = Hash().i(getDefaultSpaceDimension()).i(getDefaultSpaceType().getValue()).h;
  c[C_COVCACHE_M] = key_covcache(w.M); c[C_MODEL_M] = key_model(w.M);
  c[C_COVCACHE_M3] = key_covcache(w.M3); c[C_MODEL_M3] = key_model(w.M3);
  c[C_NEIGH_U] = key_neigh(w, w.U); c[C_NEIGH_N] = key_neigh(w, w.N);
  c[C_DB_A] = key_db(w.A); c[C_DB_B] = key_db(w.B); c[C_DB_E] = key_db(w.E); c[C_DB_A3] = key_db(w.A3);
  c[C_DB_G] = key_db(w.G); c[C_DB_G2] = key_db(w.G2);
  c[C_MATHSTATICS] = Hash().i(w.nmvn22).i(w.nmvn3).h;
  {
    Hash h; h.i(w.oldstyle);
    for (auto& kv : OptCst::_cst) h.i(kv.first).d(kv.second);
    for (auto& kv : OptCustom::_cst) h.s(kv.first).d(kv.second);
    c[C_OPTIONS] = h.h;
  }
  return c;
}

// One history = one forked child.  The child prints, per step, failed flag + component hashes, and the last observation.
struct HistRun
{
  bool ok = false;
  std::string problem;                       // child died / protocol error
  std::vector<std::vector<uint64_t>> comps;  // comps[0] = pristine world, comps[k] = after step k
  std::vector<int> failed;                   // per step
  Obs last;
  int leftover = 0;
};
static HistRun run_history(const History& h)
{
  HistRun R;
  ChildResult cr = run_child([&](int wfd) {
    World* w = build_world();
    std::string out;
    auto dump = [&](int failed) {
      out += "S " + std::to_string(failed);
      for (uint64_t c : components(*w)) out += " " + std::to_string(c);
      out += "\n";
    };
    dump(0);
    Obs o;
    for (int op : h) { o = apply_op(*w, op); dump(o.failed); }
    out += "L " + std::to_string(w->leftover) + "\n";
    out += "O " + obs_ser(o) + "\n";
    child_write(wfd, out);
    return 0;
  }, 60.);
  if (!cr.clean() || cr.code != 0) { R.problem = cr.describe(); return R; }
  std::stringstream ss(cr.data);
  std::string line;
  while (std::getline(ss, line))
  {
    if (line.size() < 2) continue;
    if (line[0] == 'S')
    {
      std::stringstream ls(line.substr(2));
      int f; ls >> f;
      std::vector<uint64_t> c; uint64_t x;
      while (ls >> x) c.push_back(x);
      if (c.size() != NCOMP) { R.problem = "protocol"; return R; }
      R.failed.push_back(f); R.comps.push_back(c);
    }
    else if (line[0] == 'L') R.leftover = atoi(line.c_str() + 2);
    else if (line[0] == 'O') { if (!obs_parse(line.substr(2), R.last)) { R.problem = "protocol-obs"; return R; } }
  }
  if (R.comps.size() != h.size() + 1) { R.problem = "protocol-steps"; return R; }
  if (getenv("VF_C10_DUMP")) fprintf(stderr, "DUMP %s\n%s", hist_str(h).c_str(), cr.data.c_str());
  R.ok = true;
  return R;
}
static uint64_t full_key(const std::vector<uint64_t>& c) { Hash h; for (uint64_t x : c) h.u(x); return h.h; }

static std::string hist_names(const History& h)
{
  std::string s;
  for (size_t i = 0; i < h.size(); i++) s += (i ? " ; " : "") + std::string(OPS[h[i]].name);
  return s;
}

// The reference of a history: the CONFIG calls of its prefix (they define the content the observed call legitimately depends
// on), in the same order, WITHOUT the intermediate requests, followed by the observed call — all in a pristine child.
static History reference_history(const History& h)
{
  History r;
  for (size_t i = 0; i + 1 < h.size(); i++) if (is_config(h[i])) r.push_back(h[i]);
  r.push_back(h.back());
  return r;
}
// Bound on the widened alphabet: a history of 3 calls that uses a new (option / content changing) call must also contain a
// covariance-matrix request — the calls whose caches these options feed; a history of 4 calls that uses a new call consists of
// config calls and covariance-matrix requests only.  Histories made of the original 29 calls are enumerated completely.
static bool in_bound(const History& h)
{
  if (h.size() < 3) return true;
  bool hasNew = false, hasCov = false, onlyCovAndConfig = true;
  for (int op : h)
  {
    if (op >= FIRST_NEW_OP) hasNew = true;
    if (is_cov_request(op)) hasCov = true;
    if (!(is_config(op) || (is_cov_request(op) && op < CF_FILT0_ON))) onlyCovAndConfig = false;  // compound do+request+undo calls are shortcuts for depth <= 3
  }
  if (!hasNew) return true;
  if (h.size() == 3) return hasCov;
  return hasCov && onlyCovAndConfig;  // depth 4: config calls interleaved with covariance-matrix requests only
}

VF_PART(hist)
{
  std::map<History, HistRun> refs;
  auto ref_of = [&](const History& h) -> const HistRun& {
    History r = reference_history(h);
    auto it = refs.find(r);
    if (it != refs.end()) return it->second;
    HistRun a = run_history(r);
    if (a.ok)
    {
      HistRun b = run_history(r);
      if (!b.ok || obs_cmp(a.last, b.last) != 0)
      {
        fprintf(stderr, "harness error: the reference history %s is not reproducible in a pristine process (%s)\n", hist_str(r).c_str(), b.problem.c_str());
        exit(2);
      }
    }
    else if (r.size() == 1)
    {
      fprintf(stderr, "harness error: the call '%s' alone in a pristine process is not usable as a reference (%s)\n", OPS[r[0]].name, a.problem.c_str());
      exit(2);
    }
    return refs[r] = a;
  };
  int depth = C.thorough() ? 4 : 3;
  bfs(C, NOPS, depth, [&](const History& h) -> StepResult {
    StepResult sr;
    if (!in_bound(h)) { sr.enabled = false; sr.expand = false; return sr; }
    HistRun R = run_history(h);
    if (h.empty()) { if (!R.ok) { fprintf(stderr, "harness error: cannot build the world: %s\n", R.problem.c_str()); exit(2); } sr.key = full_key(R.comps[0]); return sr; }
    int op = h.back();
    const HistRun& REF = ref_of(h);
    History rh = reference_history(h);
    std::string fam = OPS[op].family;
    if (!REF.ok)
    {
      // the content itself (config calls + observed call, no other request) kills the process: not a history dependence
      C.skip(); C.outcome("excluded:reference-dies:" + fam + ":" + REF.problem);
      sr.key = R.ok ? full_key(R.comps.back()) : Hash().s(hist_str(h)).h; sr.expand = false;
      return sr;
    }
    const Obs& ref = REF.last;
    if (!R.ok)
    {
      // the same call works on the same content without the earlier requests: dying after a history is a result that depends on it
      C.violation(fam + ":crash-after-history:" + R.problem, "after the history [" + hist_names(h) + "] the child process ended with " + R.problem + " whereas [" + hist_names(rh) + "] in a fresh process succeeds", hist_str(h));
      C.outcome("child-died");
      sr.key = Hash().s(hist_str(h)).h; sr.expand = false;
      return sr;
    }
    sr.key = full_key(R.comps.back());
    size_t n = h.size(), m = rh.size();
    // diagnostics (not judged): hidden state touched by a failed call
    if (R.last.failed)
    {
      std::string ch;
      for (int k = 0; k < NCOMP; k++) if (R.comps[n][k] != R.comps[n - 1][k]) ch += std::string(ch.empty() ? "" : "+") + COMP_NAME[k];
      C.outcome(ch.empty() ? "failed-call:hidden-state-unchanged" : "failed-call:hidden-state-changed:" + ch + ":" + fam);
    }
    if (R.leftover) C.outcome("failed-calculator-left-columns-in-its-Dbs(not judged here)");
    // which components differ from the reference (same content, no earlier request) when the observed call starts
    std::vector<int> dirty;
    for (int k = 0; k < NCOMP; k++) if (R.comps[n - 1][k] != REF.comps[m - 1][k]) dirty.push_back(k);
    if (!dirty.empty()) C.nontrivial(Hash().s(hist_str(h)).h);
    // The generator is the one documented global a non-random call must leave as it found it (successful or failing)
    if (!is_random_op(op))
    {
      bool seedMoved = R.comps[n][C_RNG] != R.comps[n - 1][C_RNG], genMoved = R.comps[n][C_RNGGEN] != R.comps[n - 1][C_RNGGEN];
      if (seedMoved || genMoved)
      {
        // a seed above the modulus (the value a never-seeded process starts with) that comes back reduced is its own mechanism
        bool normalised = seedMoved && R.comps[n - 1][C_RNG] >= 20000159ULL && R.comps[n][C_RNG] == R.comps[n - 1][C_RNG] % 20000159ULL;
        std::string what = normalised ? ":unseeded-initial-value-normalised" : seedMoved ? ":seed" : ":new-style-stream";
        std::string key = "rng-changed:" + fam + what;
        C.outcome("GENERATOR-MOVED-BY-NON-RANDOM-CALL:" + fam + what);
        C.violation(key, "'" + std::string(OPS[op].name) + "' (" + (R.last.failed ? "failing" : "successful") + ", not a random procedure) after the history [" + hist_names(History(h.begin(), h.end() - 1)) +
                    "] left the process-wide generator in another state than it found it (" + (seedMoved ? "law_get_random_seed() " + std::to_string(R.comps[n - 1][C_RNG]) + " -> " + std::to_string(R.comps[n][C_RNG]) : "state of the new-style stream differs") + ")", hist_str(h));
      }
      else C.outcome("generator-untouched-by-non-random-call");
    }
    if (is_config(op)) { C.outcome("config-call"); return sr; }
    bool prefixRandom = false;
    for (size_t i = 0; i + 1 < h.size(); i++) if (is_random_op(h[i])) prefixRandom = true;
    // unseeded draws are judged when nothing random precedes them: the generator must then be where the reference left it
    bool judged = R.last.judged || (op == OP_DRAWS && !prefixRandom);
    if (!judged) { C.skip(); C.outcome("not-judged:unseeded-draw-after-a-random-call"); return sr; }
    if (op == OP_DRAWS) C.outcome("judged:unseeded-draw-after-non-random-calls");
    std::string why;
    int cmp = obs_cmp(R.last, ref, &why);
    std::string cls = m > 1 ? ":content-changed-by-config-calls" : "";
    if (cmp == 0) C.outcome((dirty.empty() ? "same-as-fresh:state-was-pristine" : "same-as-fresh:state-was-dirty") + cls);
    else if (cmp == 1) C.outcome("same-as-fresh-within-1e-12");
    else
    {
      // determinism check before reporting
      HistRun R2 = run_history(h), R3 = run_history(h);
      if (!R2.ok || !R3.ok || obs_cmp(R2.last, R.last) != 0 || obs_cmp(R3.last, R.last) != 0)
      {
        fprintf(stderr, "harness error: history %s is not reproducible\n", hist_str(h).c_str());
        exit(2);
      }
      // mechanism: shrink the prefix to a minimal one that still makes the observed call differ from ITS reference (greedy
      // removal of one earlier call at a time), then name the hidden-state component this minimal prefix left different
      History P(h.begin(), h.end() - 1);
      HistRun Rm = R;
      for (bool again = true; again && !P.empty();)
      {
        again = false;
        for (size_t k = 0; k < P.size(); k++)
        {
          History Q = P; Q.erase(Q.begin() + k);
          if (Q.empty()) continue;
          History Qo = Q; Qo.push_back(op);
          const HistRun& Fq = ref_of(Qo);
          if (!Fq.ok) continue;
          HistRun Rq = run_history(Qo);
          if (Rq.ok && obs_cmp(Rq.last, Fq.last) == 2) { P = Q; Rm = Rq; again = true; break; }
        }
      }
      // an option carried by a compound / mode call of the minimal history may be incidental: replace such a call by its plain
      // request wherever the difference persists, so that the finding key names only the options the mechanism needs
      History Pfull = P; Pfull.push_back(op);
      for (size_t k = 0; k < Pfull.size(); k++)
      {
        int inner = plain_request(Pfull[k]);
        if (inner < 0) continue;
        History T = Pfull; T[k] = inner;
        const HistRun& Ft = ref_of(T);
        if (!Ft.ok) continue;
        HistRun Rt = run_history(T);
        if (Rt.ok && obs_cmp(Rt.last, Ft.last) == 2) { Pfull = T; Rm = Rt; }
      }
      P.assign(Pfull.begin(), Pfull.end() - 1);
      int opk = Pfull.back();
      std::string mech = "clean-state";
      {
        History Po = Pfull;
        const HistRun& Fm = ref_of(Po);
        size_t pm = P.size(), fm = Fm.comps.size() - 2;
        static const int PRIO[] = {C_COVCACHE_M, C_COVCACHE_M3, C_RNG, C_RNGGEN, C_MATHSTATICS, C_OPTDBG, C_SPACE, C_OPTIONS, C_NEIGH_N, C_NEIGH_U, C_MODEL_M, C_MODEL_M3, C_DB_A, C_DB_B, C_DB_E, C_DB_A3, C_DB_G, C_DB_G2};
        for (int k : PRIO)
          if (Rm.comps[pm][k] != Fm.comps[fm][k])
          {
            int step = 0;
            for (size_t q = 1; q <= pm; q++) if (Rm.comps[q][k] != Rm.comps[q - 1][k]) step = (int)q;
            mech = (k == C_COVCACHE_M || k == C_COVCACHE_M3) ? "stale-cache" : COMP_NAME[k];
            if (k == C_RNG && Fm.comps[fm][k] >= 20000159ULL && Rm.comps[pm][k] == Fm.comps[fm][k] % 20000159ULL) mech = "rng(unseeded-initial-value-normalised)";
            mech += (step >= 1 && Rm.failed[step]) ? "-after-failure" : "-after-success";
            // which kind of call left it: tells a leak of a plain request from one that needs an option (filter, disabled optimisation ...)
            std::set<std::string> kinds;
            for (int q : P) if (q >= FIRST_NEW_OP) kinds.insert(option_kind(q));
            if (q_is_new(opk)) kinds.insert(option_kind(opk));
            kinds.erase("");
            for (auto& kd : kinds) mech += ":with-" + kd;
            break;
          }
      }
      why += "; minimal history with the same effect: [" + hist_names(Pfull) + "]";
      C.outcome("DIFFERENT-from-fresh:" + fam + ":" + mech);
      sr.expand = false;  // a violating state is not extended: the last call is the one whose result depends on the history
      std::string ds;
      for (int k : dirty) ds += std::string(ds.empty() ? "" : ",") + COMP_NAME[k];
      C.violation(fam + ":" + mech,
                  "'" + std::string(OPS[op].name) + "' after the history [" + hist_names(std::vector<int>(h.begin(), h.end() - 1)) + "] differs from the reference [" + hist_names(rh) + "] run in a fresh process: " + why +
                    "; hidden state differing from the reference when it started: " + ds, hist_str(h));
    }
    if (Hash().s(hist_str(h)).h % 4001 == 0) C.sample("{\"history\":" + jstr(hist_names(h)) + ",\"reference\":" + jstr(hist_names(rh)) + ",\"last_failed\":" + (R.last.failed ? "true" : "false") + ",\"nvalues\":" + std::to_string(R.last.v.size()) + "}");
    return sr;
  });
}

// A recorder with the Ctx interface, filled inside a forked child and applied to the real Ctx by the parent.
struct Rep
{
  std::string txt;
  static std::string clean(std::string s) { for (char& c : s) if (c == '\n' || c == '\x1f') c = ' '; return s; }
  void outcome(const std::string& k) { txt += "o\x1f" + clean(k) + "\n"; }
  void violation(const std::string& k, const std::string& w, const std::string& c) { txt += "v\x1f" + clean(k) + "\x1f" + clean(w) + "\x1f" + clean(c) + "\n"; }
  void nontrivial(uint64_t sig) { txt += "n\x1f" + std::to_string(sig) + "\n"; }
  void skip() { txt += "k\x1f\n"; }
  void sample(const std::string& j) { txt += "s\x1f" + clean(j) + "\n"; }
  std::string ser(const StepResult& s) { return txt + "r\x1f" + std::to_string(s.key) + "\x1f" + (s.expand ? "1" : "0") + "\x1f" + (s.enabled ? "1" : "0") + "\nend\n"; }
  static bool apply(Ctx& C, const std::string& data, StepResult& sr)
  {
    if (data.size() < 4 || data.substr(data.size() - 4) != "end\n") return false;
    std::stringstream ss(data);
    std::string line;
    bool got = false;
    while (std::getline(ss, line))
    {
      std::vector<std::string> f;
      size_t p = 0;
      for (;;) { size_t q = line.find('\x1f', p); if (q == std::string::npos) { f.push_back(line.substr(p)); break; } f.push_back(line.substr(p, q - p)); p = q + 1; }
      if (f[0] == "o" && f.size() >= 2) C.outcome(f[1]);
      else if (f[0] == "v" && f.size() >= 4) C.violation(f[1], f[2], f[3]);
      else if (f[0] == "n" && f.size() >= 2) C.nontrivial(strtoull(f[1].c_str(), nullptr, 10));
      else if (f[0] == "k") C.skip();
      else if (f[0] == "s" && f.size() >= 2) C.sample(f[1]);
      else if (f[0] == "r" && f.size() >= 4) { sr.key = strtoull(f[1].c_str(), nullptr, 10); sr.expand = f[2] == "1"; sr.enabled = f[3] == "1"; got = true; }
    }
    return got;
  }
};

// ================================================================================================================
// part kcalc : KrigingCalcul, an incrementally updated object with lazily computed matrices
namespace kc
{
struct Inputs
{
  VectorDouble Z1{1., 2., 0.5}, Z2{-1., 0., 2.}, Mn{0.5, 0.25};
  MatrixSquareSymmetric S1{3}, S2{3}, S00a{2}, S00b{2}, PC{1};
  MatrixRectangular X1{3, 1}, S0a{3, 2}, S0b{3, 2}, X0{2, 1}, S0bad{2, 2};
  VectorDouble Zp{0.25, 0.75}, PM{0.125};
  VectorInt rk{1}, xe{1}, xv{0};
  Inputs()
  {
    double s1[3][3] = {{2, 0.5, 0.25}, {0.5, 2, 0.75}, {0.25, 0.75, 2}};
    double s2[3][3] = {{3, 1, 0.5}, {1, 2.5, 0.25}, {0.5, 0.25, 4}};
    for (int i = 0; i < 3; i++) for (int j = 0; j <= i; j++) { S1.setValue(i, j, s1[i][j]); S2.setValue(i, j, s2[i][j]); }
    double a[3][2] = {{1, 0.25}, {0.5, 0.125}, {0.75, 1.5}}, b[3][2] = {{0.25, 1}, {1.25, 0.5}, {0.125, 0.375}};
    for (int i = 0; i < 3; i++) for (int j = 0; j < 2; j++) { S0a.setValue(i, j, a[i][j]); S0b.setValue(i, j, b[i][j]); }
    for (int i = 0; i < 3; i++) X1.setValue(i, 0, 1.);
    for (int i = 0; i < 2; i++) X0.setValue(i, 0, 1.);
    S00a.setValue(0, 0, 2.5); S00a.setValue(1, 1, 3.); S00a.setValue(1, 0, 0.5);
    S00b.setValue(0, 0, 4.); S00b.setValue(1, 1, 5.); S00b.setValue(1, 0, 1.);
    PC.setValue(0, 0, 2.);
    S0bad.setValue(0, 0, 1.); S0bad.setValue(1, 1, 1.);
  }
  int idx(const void* p) const
  {
    const void* t[] = {nullptr, &Z1, &Z2, &Mn, &S1, &S2, &S00a, &S00b, &PC, &X1, &S0a, &S0b, &X0, &S0bad, &Zp, &PM, &rk, &xe, &xv};
    for (int i = 0; i < (int)(sizeof t / sizeof *t); i++) if (t[i] == p) return i;
    return 99;  // an object owned by the KrigingCalcul itself
  }
};
enum Op
{
  SET_DATA1, SET_DATA2, SET_LHS_SK, SET_LHS_UK, SET_LHS_UK2, SET_RHS_A, SET_RHS_B, SET_RHS_NOX0, SET_RHS_BAD, SET_VAR_A, SET_VAR_B,
  SET_COLCOK, SET_COLCOK_OFF, SET_BAYES, SET_BAYES_OFF, SET_XVALID, NSET,
  GET_EST = NSET, GET_STDV, GET_VARZ, GET_POSTMEAN, GET_LAMBDA0, GET_MU, GET_POSTCOV, GET_Y0, GET_STDVMAT, GET_VARZMAT, NOPS
};
static const char* NAME[NOPS] = {"setData(Z1,Means)", "setData(Z2,Means)", "setLHS(S1,-)", "setLHS(S1,X)", "setLHS(S2,X)", "setRHS(S0a,X0)", "setRHS(S0b,X0)", "setRHS(S0a,-)",
  "setRHS(2x2)[fails]", "setVar(S00a)", "setVar(S00b)", "setColCokUnique(Zp,{1})", "setColCokUnique(-,-)", "setBayes(pm,pc)", "setBayes(-,-)", "setXvalidUnique({1},{0})",
  "getEstimation", "getStdv", "getVarianceZstar", "getPostMean", "getLambda0", "getMu", "getPostCov", "getY0", "getStdvMat", "getVarianceZstarMat"};
static bool is_get(int op) { return op >= NSET; }
static std::string setter(int op) { if (op < 0) return "?"; std::string n = NAME[op]; return n.substr(0, n.find('(')); }

static void put_vec(Obs& o, const VectorDouble& v) { o.tag += "n=" + std::to_string(v.size()) + ";"; for (double x : v) o.v.push_back(x); o.failed = v.empty(); }
static void put_mat(Obs& o, const AMatrix* m) { if (m == nullptr) { o.tag += "null;"; o.failed = true; return; } put_matrix(o, *m); }
static Obs apply(KrigingCalcul& K, const Inputs& I, int op)
{
  Obs o;
  int rc = -99;
  switch (op)
  {
    case SET_DATA1: rc = K.setData(&I.Z1, &I.Mn); break;
    case SET_DATA2: rc = K.setData(&I.Z2, &I.Mn); break;
    case SET_LHS_SK: rc = K.setLHS(&I.S1, nullptr); break;
    case SET_LHS_UK: rc = K.setLHS(&I.S1, &I.X1); break;
    case SET_LHS_UK2: rc = K.setLHS(&I.S2, &I.X1); break;
    case SET_RHS_A: rc = K.setRHS(&I.S0a, &I.X0); break;
    case SET_RHS_B: rc = K.setRHS(&I.S0b, &I.X0); break;
    case SET_RHS_NOX0: rc = K.setRHS(&I.S0a, nullptr); break;
    case SET_RHS_BAD: rc = K.setRHS(&I.S0bad, nullptr); break;
    case SET_VAR_A: rc = K.setVar(&I.S00a); break;
    case SET_VAR_B: rc = K.setVar(&I.S00b); break;
    case SET_COLCOK: rc = K.setColCokUnique(&I.Zp, &I.rk); break;
    case SET_COLCOK_OFF: rc = K.setColCokUnique(nullptr, nullptr); break;
    case SET_BAYES: rc = K.setBayes(&I.PM, &I.PC); break;
    case SET_BAYES_OFF: rc = K.setBayes(nullptr, nullptr); break;
    case SET_XVALID: rc = K.setXvalidUnique(&I.xe, &I.xv); break;
    case GET_EST: put_vec(o, K.getEstimation()); break;
    case GET_STDV: put_vec(o, K.getStdv()); break;
    case GET_VARZ: put_vec(o, K.getVarianceZstar()); break;
    case GET_POSTMEAN: put_vec(o, K.getPostMean()); break;
    case GET_LAMBDA0: put_mat(o, K.getLambda0()); break;
    case GET_MU: put_mat(o, K.getMu()); break;
    case GET_POSTCOV: put_mat(o, K.getPostCov()); break;
    case GET_Y0: put_mat(o, K.getY0()); break;
    case GET_STDVMAT: put_mat(o, K.getStdvMat()); break;
    case GET_VARZMAT: put_mat(o, K.getVarianceZstarMat()); break;
  }
  if (!is_get(op)) { o.failed = rc != 0; o.tag = "rc=" + std::to_string(rc); }
  return o;
}
static void hm(Hash& h, const AMatrix* m)
{
  if (!m) { h.i(-1); return; }
  h.i(m->getNRows()).i(m->getNCols());
  for (int i = 0; i < m->getNRows(); i++) for (int j = 0; j < m->getNCols(); j++) h.d(m->getValue(i, j));
}
// the "content" (what the setters stored) and the complete hidden state
static uint64_t content_key(const KrigingCalcul& K, const Inputs& I)
{
  Hash h;
  h.i(I.idx(K._Sigma00)).i(I.idx(K._Sigma)).i(I.idx(K._Sigma0)).i(I.idx(K._X)).i(I.idx(K._X0)).i(I.idx(K._PriorCov)).i(I.idx(K._Z)).i(I.idx(K._PriorMean)).i(I.idx(K._Means));
  h.i(K._flagBayes ? I.idx(K._PriorMean) : 0).i(K._ncck > 0 ? I.idx(K._Zp) : 0).i(K._ncck > 0 ? I.idx(K._rankColCok) : 0);
  h.i(K._neq).i(K._nbfl).i(K._nrhs).i(K._ncck).i(K._nxvalid).i(K._flagSK).i(K._flagBayes).i(K._flagDual);
  return h.h;
}
static uint64_t state_key(const KrigingCalcul& K, const Inputs& I)
{
  Hash h;
  h.u(content_key(K, I));
  h.i(I.idx(K._Zp)).i(I.idx(K._rankColCok)).i(I.idx(K._rankXvalidEqs)).i(I.idx(K._rankXvalidVars));
  if (I.idx(K._Sigma00) == 99) hm(h, K._Sigma00);
  h.vd(K._Zstar).vd(K._Beta).vd(K._Z0p).vd(K._bDual).vd(K._cDual);
  const AMatrix* ms[] = {K._LambdaSK, K._LambdaUK, K._MuUK, K._Stdv, K._VarZSK, K._VarZUK, K._XtInvSigma, K._Y0, K._InvSigmaSigma0, K._InvSigma, K._Sigmac, K._InvPriorCov,
                         K._Sigma00pp, K._Sigma00p, K._Sigma0p, K._X0p, K._Y0p, K._Lambda0, K._C_RHS, K._X_RHS};
  for (const AMatrix* m : ms) hm(h, m);
  return h.h;
}

// root = 0: empty object; 1: configured for simple kriging; 2: configured for universal kriging
static const std::vector<int> ROOTS[3] = {{}, {SET_DATA1, SET_LHS_SK, SET_RHS_NOX0, SET_VAR_A}, {SET_DATA1, SET_LHS_UK, SET_RHS_A, SET_VAR_A}};

static StepResult judge(Rep& C, const History& h, int root)
{
  static Inputs I;
  {
    StepResult sr;
    KrigingCalcul K;
    for (int op : ROOTS[root]) apply(K, I, op);
    Obs last;
    bool allSetsOk = true, hasXvalid = false;
    int ngets = 0;
    for (size_t i = 0; i < h.size(); i++)
    {
      // combinations the class does not support (collocated option together with the cross-validation patch of the RHS)
      if ((h[i] == SET_XVALID && K._ncck > 0) || (h[i] == SET_COLCOK && K._nxvalid > 0)) { sr.enabled = false; sr.expand = false; return sr; }
      last = apply(K, I, h[i]);
      if (!is_get(h[i])) { if (last.failed) allSetsOk = false; if (h[i] == SET_XVALID) hasXvalid = true; }
      else if (i + 1 < h.size()) ngets++;
    }
    sr.key = state_key(K, I);
    // Outside the domain: a drift dimension announced by X0 / the prior while no drift matrix X is attached (the setters
    // accept it silently, several getters then dereference the missing X).  Such states are counted and not extended.
    if (K._nbfl > 0 && K._X == nullptr) { C.skip(); C.outcome("excluded:drift-size-known-but-no-drift-matrix-at-data"); sr.expand = false; return sr; }
    if (h.empty() || !is_get(h.back())) return sr;
    int op = h.back();
    std::string hs;
    for (int o2 : ROOTS[root]) hs += std::string(NAME[o2]) + " ; ";
    for (size_t i = 0; i < h.size(); i++) hs += std::string(NAME[h[i]]) + (i + 1 < h.size() ? " ; " : "");
    // oracle 1: earlier get* calls are invisible
    {
      KrigingCalcul F;
      for (int o2 : ROOTS[root]) apply(F, I, o2);
      for (size_t i = 0; i + 1 < h.size(); i++) if (!is_get(h[i])) apply(F, I, h[i]);
      Obs ref = apply(F, I, op);
      std::string why;
      int cmp = obs_cmp(last, ref, &why);
      if (ngets > 0) C.nontrivial(Hash().i(root).s(hist_str(h)).h);
      if (cmp == 2)
      {
        // Mechanism.  Kb = the object just before the observed call (with the earlier gets), Ka after it;
        // Fa = the reference object (no earlier gets) after the observed call.
        KrigingCalcul Kb, Ka, Fa;
        int lastSet = -1;
        for (int o2 : ROOTS[root]) { apply(Kb, I, o2); apply(Ka, I, o2); apply(Fa, I, o2); lastSet = o2; }
        for (size_t i = 0; i + 1 < h.size(); i++) { apply(Kb, I, h[i]); apply(Ka, I, h[i]); if (!is_get(h[i])) { apply(Fa, I, h[i]); lastSet = h[i]; } }
        apply(Ka, I, op); apply(Fa, I, op);
        // members in upstream-to-downstream order of the dependency graph
        auto mem = [](KrigingCalcul& k) { return std::vector<const AMatrix*>{k._InvSigma, k._XtInvSigma, k._Sigmac, k._InvSigmaSigma0, k._Sigma0p, k._Sigma00p, k._Sigma00pp, k._X0p, k._Y0, k._Y0p, k._Lambda0, k._LambdaSK, k._MuUK, k._LambdaUK, k._VarZSK, k._VarZUK, k._Stdv}; };
        const char* nm[] = {"InvSigma", "XtInvSigma", "Sigmac", "InvSigmaSigma0", "Sigma0p", "Sigma00p", "Sigma00pp", "X0p", "Y0", "Y0p", "Lambda0", "LambdaSK", "MuUK", "LambdaUK", "VarZSK", "VarZUK", "Stdv"};
        auto kb = mem(Kb), ka = mem(Ka), fa = mem(Fa);
        auto hk = [](const AMatrix* m) { Hash q; hm(q, m); return q.h; };
        std::vector<std::string> keys;
        // (a) members left allocated by a get* that failed (KrigingCalcul allocates them before checking their inputs): present
        //     before the observed call although the reference cannot compute them at all
        //     (only the members that are allocated before their inputs are checked: MuUK, LambdaUK, VarZSK, VarZUK, Stdv)
        {
          KrigingCalcul Fb;
          for (int o2 : ROOTS[root]) apply(Fb, I, o2);
          for (size_t i = 0; i + 1 < h.size(); i++) if (!is_get(h[i])) apply(Fb, I, h[i]);
          auto fb = mem(Fb);
          if (ref.failed) for (size_t k : {12, 13, 14, 15, 16}) if (kb[k] != nullptr && fb[k] == nullptr) keys.push_back(std::string("kcalc:failed-get-leaves-partial:") + nm[k]);
          if (ref.failed && !Kb._Zstar.empty() && Fb._Zstar.empty()) keys.push_back("kcalc:failed-get-leaves-partial:Zstar");
        }
        // (b) a member computed before an update and not invalidated by it: present on both sides with different content
        if (keys.empty())
          for (size_t k = 0; k < ka.size(); k++) if (kb[k] != nullptr && ka[k] != nullptr && fa[k] != nullptr && hk(ka[k]) != hk(fa[k])) { keys.push_back(std::string("kcalc:stale-after-update:") + nm[k]); why += std::string("; member _") + nm[k] + " computed before the update '" + (lastSet >= 0 ? NAME[lastSet] : "?") + "' (or an earlier one) was kept"; break; }
        if (keys.empty() && !Ka._Zstar.empty() && !Fa._Zstar.empty() && Kb._Zstar.size() > 0) keys.push_back("kcalc:stale-after-update:Zstar");
        if (keys.empty()) keys.push_back(std::string("kcalc:") + NAME[op] + ":other-history-dependence");
        C.outcome("DIFFERENT:" + keys[0].substr(6));
        for (auto& key : keys) C.violation(key, "KrigingCalcul: [" + hs + "] : the last call differs from the same sequence without the earlier get* calls (" + why + ")", hist_str(h));
        sr.expand = false;
        return sr;
      }
      C.outcome(ngets == 0 ? "get:no-earlier-get" : (last.failed ? "get:same-as-without-earlier-gets:failed" : "get:same-as-without-earlier-gets:ok"));
    }
    // oracle 2: incrementally updated == freshly built with the final content
    if (!allSetsOk || hasXvalid) { C.outcome(hasXvalid ? "fresh-build:not-applicable(xvalid patches its own RHS)" : "fresh-build:not-applicable(a set* failed)"); return sr; }
    {
      const VectorDouble* Z = nullptr; const MatrixSquareSymmetric *S = nullptr, *S00 = nullptr; const MatrixRectangular *X = nullptr, *S0 = nullptr, *X0 = nullptr;
      bool lhs = false, rhs = false, colcok = false, colcokSeen = false, bayes = false, bayesSeen = false;
      std::vector<int> all = ROOTS[root];
      for (int o2 : h) all.push_back(o2);
      for (int o2 : all) switch (o2)
      {
        case SET_DATA1: Z = &I.Z1; break; case SET_DATA2: Z = &I.Z2; break;
        case SET_LHS_SK: S = &I.S1; X = nullptr; lhs = true; break; case SET_LHS_UK: S = &I.S1; X = &I.X1; lhs = true; break; case SET_LHS_UK2: S = &I.S2; X = &I.X1; lhs = true; break;
        case SET_RHS_A: S0 = &I.S0a; X0 = &I.X0; rhs = true; break; case SET_RHS_B: S0 = &I.S0b; X0 = &I.X0; rhs = true; break; case SET_RHS_NOX0: S0 = &I.S0a; X0 = nullptr; rhs = true; break;
        case SET_VAR_A: S00 = &I.S00a; break; case SET_VAR_B: S00 = &I.S00b; break;
        case SET_COLCOK: colcok = colcokSeen = true; break; case SET_COLCOK_OFF: colcok = false; colcokSeen = true; break;
        case SET_BAYES: bayes = bayesSeen = true; break; case SET_BAYES_OFF: bayes = false; bayesSeen = true; break;
        default: break;
      }
      KrigingCalcul F;
      int bad = 0;
      if (Z) bad |= F.setData(Z, &I.Mn);
      if (lhs) bad |= F.setLHS(S, X);
      if (rhs) bad |= F.setRHS(S0, X0);
      if (S00) bad |= F.setVar(S00);
      if (bayes) bad |= F.setBayes(&I.PM, &I.PC);
      if (colcok) bad |= F.setColCokUnique(&I.Zp, &I.rk);
      if (bad) { C.skip(); C.outcome("fresh-build:excluded(the one-shot construction is refused)"); return sr; }
      if (content_key(F, I) != content_key(K, I)) { C.skip(); C.outcome("fresh-build:excluded(final content differs: sticky dimensions / partial set)"); return sr; }
      Obs ref = apply(F, I, op);
      std::string why;
      int cmp = obs_cmp(last, ref, &why);
      if (h.size() > 1) C.nontrivial(Hash().i(root + 10).s(hist_str(h)).h);
      if (cmp == 2)
      {
        C.outcome("DIFFERENT:incremental-vs-fresh");
        C.violation(std::string("kcalc:") + NAME[op] + ":incremental-differs-from-fresh", "KrigingCalcul: [" + hs + "] : the last call differs from a freshly built object holding the same final content (" + why + ")", hist_str(h));
        sr.expand = false;
        return sr;
      }
      C.outcome(last.failed ? "fresh-build:same:failed" : "fresh-build:same:ok");
    }
    if (Hash().s(hist_str(h)).h % 2003 == 0) C.sample("{\"root\":" + std::to_string(root) + ",\"history\":" + jstr(hs) + ",\"failed\":" + (last.failed ? "true" : "false") + "}");
    return sr;
  }
}
static std::string names(const History& h, int root)
{
  std::string hs;
  for (int o2 : ROOTS[root]) hs += std::string(NAME[o2]) + " ; ";
  for (size_t i = 0; i < h.size(); i++) hs += std::string(NAME[h[i]]) + (i + 1 < h.size() ? " ; " : "");
  return hs;
}
// every history is judged in a forked child: the class dereferences missing inputs in several unsupported
// configurations, and a crash that happens only because of earlier get* calls is itself a history dependence
static void explore(Ctx& C, int root, int depth)
{
  bfs(C, NOPS, depth, [&](const History& h) -> StepResult {
    StepResult sr;
    ChildResult cr = run_child([&](int wfd) { Rep R; StepResult s = judge(R, h, root); child_write(wfd, R.ser(s)); return 0; }, 30.);
    if (cr.clean() && cr.code == 0 && Rep::apply(C, cr.data, sr)) return sr;
    sr.key = Hash().i(root).s(hist_str(h)).h; sr.expand = false;
    bool earlierGet = false;
    for (size_t i = 0; i + 1 < h.size(); i++) if (is_get(h[i])) earlierGet = true;
    if (earlierGet)
    {
      ChildResult cr2 = run_child([&](int wfd) {
        static Inputs I; KrigingCalcul F;
        for (int o2 : ROOTS[root]) apply(F, I, o2);
        for (size_t i = 0; i + 1 < h.size(); i++) if (!is_get(h[i])) apply(F, I, h[i]);
        apply(F, I, h.back());
        child_write(wfd, "ok"); return 0; }, 30.);
      if (cr2.clean() && cr2.code == 0 && cr2.data == "ok")
      {
        C.outcome("DIFFERENT:process-dies-only-after-earlier-get");
        C.violation("kcalc:crash-after-earlier-get", "KrigingCalcul: [" + names(h, root) + "] ends with " + cr.describe() + " whereas the same sequence without the earlier get* calls returns normally", hist_str(h));
        return sr;
      }
    }
    C.skip(); C.outcome("excluded:unsupported-configuration-crashes-whatever-the-history(" + cr.describe() + ")");
    return sr;
  });
}
}  // namespace kc
VF_PART(kcalc_empty) { kc::explore(C, 0, C.thorough() ? 5 : 4); }
VF_PART(kcalc_sk) { kc::explore(C, 1, C.thorough() ? 5 : 4); }
VF_PART(kcalc_uk) { kc::explore(C, 2, 4); }


// ================================================================================================================
// part vec_cow : three VectorNumT<double> handles sharing copy-on-write storage vs three independent std::vector
namespace vc
{
typedef VectorNumT<double> V;
typedef std::vector<double> R;
enum Kind
{
  K_ASSIGN, K_COPYCTOR, K_MOVE, K_ASSIGN_STD, K_ASSIGN_INIT, K_PUSH, K_INDEX, K_AT, K_SETAT, K_FRONT, K_BACK, K_DATA, K_SUBDATA, K_BEGIN, K_RANGEFOR, K_RBEGIN, K_END,
  K_INSERT1, K_INSERTN, K_REMOVE, K_REMOVEN, K_ERASE_IT, K_ERASE_CIT, K_INSERT_CIT, K_RESIZE_UP, K_RESIZE_DOWN, K_RESIZE_VAL, K_FILL, K_FILLN, K_SWAP, K_SHL_VAL, K_SHL_VEC, K_CLEAR,
  K_ASSIGN_RANGE, K_PUSHFRONT, K_GETVECTOR_WRITE, K_ADDV, K_ADDS, K_MULS, K_RESERVE, NKIND
};
static const char* KN[NKIND] = {"a=b", "a=V(b)", "a=move(V(b))", "a=std::vector", "a={..}", "push_back", "operator[]=", "at()=", "setAt", "front()=", "back()=", "data()[0]=", "subdata(1)[0]=",
  "*begin()=", "for(auto&e:a)", "*rbegin()=", "*(end()-1)=", "insert(i,x)", "insert(i,n,x)", "remove(i)", "remove(i,n)", "erase(begin())", "erase(cbegin())", "insert(cbegin(),f,l)", "resize(n+1)",
  "resize(n-1)", "resize(n+2,x)", "fill(x)", "fill(x,n)", "swap", "a<<x", "a<<b", "clear", "assign(f,l)", "push_front", "getVector().push_back", "add(b)", "add(x)", "multiply(x)", "reserve"};
static const int NOPS = NKIND * 3;
// ops that pass an iterator obtained through a const accessor to a mutator that detaches first
static bool risky(int kind) { return kind == K_ERASE_CIT || kind == K_INSERT_CIT; }

struct St { V v[3]; R r[3]; };
// returns false if the op is not applicable (e.g. element access on an empty vector)
static bool apply(St& s, int op, int step)
{
  int kind = op / 3, i = op % 3, j = (i + 1) % 3;
  double x = 100. * (step + 1) + op;
  V& a = s.v[i]; V& b = s.v[j]; R& ra = s.r[i]; R& rb = s.r[j];
  size_t n = ra.size();
  switch (kind)
  {
    case K_ASSIGN: a = b; ra = rb; break;
    case K_COPYCTOR: { V t(b); a = t; ra = rb; break; }
    case K_MOVE: { V t(b); a = std::move(t); ra = rb; break; }
    case K_ASSIGN_STD: { R t{x, x + 1}; a = t; ra = t; break; }
    case K_ASSIGN_INIT: a = {x, x + 0.5, x + 1}; ra = {x, x + 0.5, x + 1}; break;
    case K_PUSH: a.push_back(x); ra.push_back(x); break;
    case K_INDEX: if (!n) return false; a[n / 2] = x; ra[n / 2] = x; break;
    case K_AT: if (!n) return false; a.at(0) = x; ra.at(0) = x; break;
    case K_SETAT: if (!n) return false; a.setAt((int)n - 1, x); ra[n - 1] = x; break;
    case K_FRONT: if (!n) return false; a.front() = x; ra.front() = x; break;
    case K_BACK: if (!n) return false; a.back() = x; ra.back() = x; break;
    case K_DATA: if (!n) return false; a.data()[0] = x; ra[0] = x; break;
    case K_SUBDATA: if (n < 2) return false; a.subdata(1)[0] = x; ra[1] = x; break;
    case K_BEGIN: if (!n) return false; *a.begin() = x; ra[0] = x; break;
    case K_RANGEFOR: if (!n) return false; for (auto& e : a) e += 1; for (auto& e : ra) e += 1; break;
    case K_RBEGIN: if (!n) return false; *a.rbegin() = x; ra[n - 1] = x; break;
    case K_END: if (!n) return false; *(a.end() - 1) = x; ra[n - 1] = x; break;
    case K_INSERT1: a.insert(n / 2, x); ra.insert(ra.begin() + n / 2, x); break;
    case K_INSERTN: a.insert(0, 2, x); ra.insert(ra.begin(), 2, x); break;
    case K_REMOVE: if (!n) return false; a.remove(0); ra.erase(ra.begin()); break;
    case K_REMOVEN: if (n < 2) return false; a.remove(0, 2); ra.erase(ra.begin(), ra.begin() + 2); break;
    case K_ERASE_IT: if (!n) return false; a.erase(a.begin()); ra.erase(ra.begin()); break;
    case K_ERASE_CIT: if (!n) return false; { auto it = a.cbegin(); a.erase(it); } ra.erase(ra.begin()); break;
    case K_INSERT_CIT: { R t{x, x + 1}; V tv(t); auto it = a.cbegin(); a.insert(it, tv.cbegin(), tv.cend()); ra.insert(ra.begin(), t.begin(), t.end()); break; }
    case K_RESIZE_UP: a.resize(n + 1); ra.resize(n + 1); break;
    case K_RESIZE_DOWN: if (!n) return false; a.resize(n - 1); ra.resize(n - 1); break;
    case K_RESIZE_VAL: a.resize(n + 2, x); ra.resize(n + 2, x); break;
    case K_FILL: if (!n) return false; a.fill(x); std::fill(ra.begin(), ra.end(), x); break;
    case K_FILLN: a.fill(x, 2); ra.assign(2, x); break;
    case K_SWAP: a.swap(b); ra.swap(rb); break;
    case K_SHL_VAL: a << x; ra.push_back(x); break;
    case K_SHL_VEC: { a << b; R t = rb; ra.insert(ra.end(), t.begin(), t.end()); break; }
    case K_CLEAR: a.clear(); ra.clear(); break;
    case K_ASSIGN_RANGE: { R t{x, x + 2}; a.assign(t.begin(), t.end()); ra.assign(t.begin(), t.end()); break; }
    case K_PUSHFRONT: a.push_front(x); ra.insert(ra.begin(), x); break;
    case K_GETVECTOR_WRITE: a.getVector().push_back(x); ra.push_back(x); break;
    case K_ADDV: if (n != rb.size() || !n) return false; { R t = rb; a.add(b); for (size_t k = 0; k < n; k++) ra[k] += t[k]; } break;
    case K_ADDS: if (!n) return false; a.add(x); for (auto& e : ra) e += x; break;
    case K_MULS: if (!n) return false; a.multiply(2.); for (auto& e : ra) e *= 2.; break;
    case K_RESERVE: a.reserve(n + 8); break;
  }
  return true;
}
static uint64_t key(const St& s)
{
  // VectorT never branches on element values (no comparison operator is in the alphabet): the future of a state depends on
  // the sharing pattern, the sizes and whether a push would reallocate.  Contents are compared exactly by the oracle
  // at every step but are abstracted from the key (data independence), so that histories merge.
  Hash h;
  for (int i = 0; i < 3; i++)
  {
    h.u(s.v[i].size());
    for (int j = 0; j < 3; j++) h.i(s.v[i].getVectorPtr() == s.v[j].getVectorPtr());
    h.u(s.v[i].getVectorPtr()->capacity() >= s.v[i].size() + 1 ? 1 : 0);
    h.i(s.v[i]._v.use_count());
  }
  return h.h;
}
static std::string names(const History& h)
{
  std::string t;
  for (size_t k = 0; k < h.size(); k++) t += std::string(k ? " ; " : "") + "abc"[h[k] % 3] + ":" + KN[h[k] / 3] + (h[k] / 3 == K_ASSIGN || h[k] / 3 == K_COPYCTOR || h[k] / 3 == K_MOVE || h[k] / 3 == K_SWAP || h[k] / 3 == K_SHL_VEC || h[k] / 3 == K_ADDV ? std::string("[b=") + "abc"[(h[k] % 3 + 1) % 3] + "]" : "");
  return t;
}
// judge the final state; returns "" or the description of the first disagreement; who = handle that disagrees
static std::string disagree(const St& s, int* who)
{
  for (int i = 0; i < 3; i++)
  {
    const R& got = s.v[i].getVector();
    if (got.size() != s.r[i].size() || !std::equal(got.begin(), got.end(), s.r[i].begin()))
    {
      *who = i;
      return std::string("handle ") + "abc"[i] + " holds " + vstr(got) + " but value semantics give " + vstr(s.r[i]);
    }
  }
  return "";
}
}  // namespace vc

VF_PART(vec_cow)
{
  using namespace vc;
  int depth = C.thorough() ? 6 : 4;
  bfs(C, vc::NOPS, depth, [&](const History& h) -> StepResult {
    StepResult sr;
    St s;
    s.v[0] = V({1., 2., 3.}); s.r[0] = {1., 2., 3.};
    s.v[1] = s.v[0]; s.r[1] = s.r[0];              // b shares a's storage from the start
    s.v[2] = V({7.}); s.r[2] = {7.};
    for (size_t k = 0; k + 1 < h.size(); k++) apply(s, h[k], (int)k);
    if (h.empty()) { sr.key = key(s); return sr; }
    int op = h.back(), kind = op / 3, i = op % 3;
    bool shared = s.v[i]._v.use_count() > 1;
    if (kind == K_ERASE_CIT && s.r[i].empty()) { sr.enabled = false; return sr; }
    if (risky(kind) && shared)
    {
      // undefined behaviour is plausible (iterator into the storage the handle is about to leave): isolate
      ChildResult cr = run_child([&](int wfd) {
        St t = s;  // copies of the handles keep the sharing pattern (one more owner each)
        for (int q = 0; q < 3; q++) t.r[q] = s.r[q];
        apply(s, op, (int)h.size() - 1);
        int who = -1; std::string d = disagree(s, &who);
        child_write(wfd, d.empty() ? "ok" : "bad " + std::to_string(who) + " " + d); return 0; }, 20.);
      sr.key = Hash().s(hist_str(h)).h; sr.expand = false;
      C.nontrivial(Hash().s(hist_str(h)).h);
      if (cr.clean() && cr.code == 0 && cr.data == "ok") { C.outcome("iterator-from-const-accessor-on-shared-handle:ok"); return sr; }
      C.outcome("iterator-from-const-accessor-on-shared-handle:BROKEN");
      C.violation(std::string("vec:") + KN[kind] + ":iterator-invalidated-by-detach", "VectorNumT<double>: [" + names(h) + "] on a handle that shares its storage: " + (cr.clean() && cr.code == 0 ? cr.data : cr.describe()) +
                  " (the iterator was obtained through a const accessor before the mutator detached the storage)", hist_str(h));
      return sr;
    }
    if (!apply(s, op, (int)h.size() - 1)) { sr.enabled = false; return sr; }
    sr.key = key(s);
    if (shared) C.nontrivial(Hash().s(hist_str(h)).h);
    int who = -1;
    std::string d = disagree(s, &who);
    if (d.empty()) { C.outcome(shared ? "agrees:target-was-shared" : "agrees:target-was-unique"); }
    else
    {
      C.outcome(std::string("DISAGREES:") + KN[kind]);
      C.violation(std::string("vec:") + KN[kind] + (who != i ? ":changes-another-handle" : ":wrong-result"), "VectorNumT<double>: [" + names(h) + "] : " + d, hist_str(h));
      sr.expand = false;
    }
    if (Hash().s(hist_str(h)).h % 5003 == 0) C.sample("{\"history\":" + jstr(names(h)) + ",\"shared\":" + (shared ? "true" : "false") + "}");
    return sr;
  });
}

// ================================================================================================================
// part copies : clone / copy-construct / assign, mutate the source, compare the copy with its pre-mutation snapshot
namespace cp
{
static std::string snap_mat(const AMatrix& m) { Obs o; put_matrix(o, m); return obs_ser(o); }
static std::string snap_model(const Model* m)
{
  std::string t = m->toString();
  const ACovAnisoList* l = m->getCovAnisoList();
  for (int i = 0; i < l->getCovaNumber(); i++) t += " sill=" + fmt(l->getCova(i)->getSill(0, 0)) + " ranges=" + vstr(l->getCova(i)->getRanges()) + " ang=" + vstr(l->getCova(i)->getAnisoAngles());
  return t;
}
static std::string snap_neigh(const NeighMoving* n)
{
  std::string t = n->toString() + " nmaxi=" + std::to_string(n->getNMaxi()) + " radius=" + fmt(n->getRadius()) + " nbipts=" + std::to_string(n->getBipts().size());
  for (auto* b : n->getBipts()) t += " [" + b->toString() + "]";
  return t;
}
static std::string snap_vario(const Vario* v)
{
  std::string t = "ndir=" + std::to_string(v->getDirectionNumber());
  for (int i = 0; i < v->getLagNumber(0); i++) t += " " + fmt(v->getSwByIndex(0, i)) + "/" + fmt(v->getGgByIndex(0, i)) + "/" + fmt(v->getHhByIndex(0, i));
  return t;
}
// One type = factory + 3 ways of copying + source mutation + copy mutation + snapshot
struct Case
{
  std::string type;
  std::function<void*()> make;
  std::function<void*(void*, int)> copy;      // kind 0 clone, 1 copy-construct, 2 assign onto a differently built object (may return nullptr: not offered)
  std::function<void(void*)> mutate, mutate2, destroy;
  std::function<std::string(void*)> snap;
};
template<class T> static Case mk(const std::string& type, std::function<T*()> make, std::function<T*()> other, std::function<void(T*)> mutate, std::function<void(T*)> mutate2, std::function<std::string(const T*)> snap, bool hasClone = true)
{
  Case c;
  c.type = type;
  c.make = [=]() { return (void*)make(); };
  c.copy = [=](void* s, int kind) -> void* {
    T* src = (T*)s;
    if (kind == 0) { if constexpr (requires(T* q) { q->clone(); }) return hasClone ? (void*)dynamic_cast<T*>(src->clone()) : nullptr; else return nullptr; }
    if (kind == 1) return (void*)new T(*src);
    T* o = other(); *o = *src; return (void*)o; };
  c.mutate = [=](void* s) { mutate((T*)s); };
  c.mutate2 = [=](void* s) { mutate2((T*)s); };
  c.destroy = [=](void* s) { delete (T*)s; };
  c.snap = [=](void* s) { return snap((const T*)s); };
  return c;
}
static std::vector<Case> cases()
{
  std::vector<Case> v;
  v.push_back(mk<Db>("Db", [] { return make_db_xz({{0, 1, 2}, {0, 1, 0}}, {{1, 2, 3}}); }, [] { return make_db_xz({{5, 6}}, {{7, 8}, {9, 10}}); },
                     [](Db* d) { d->setValue("z1", 1, 99.); d->setName("x1", "renamed"); d->addColumnsByConstant(1, 5., "extra"); d->setLocator("x2", ELoc::F, 0); d->deleteColumn("z1"); },
                     [](Db* d) { d->setValue("x1", 0, -5.); d->addColumnsByConstant(2, 1., "more"); }, [](const Db* d) { return db_snapshot(d); }));
  v.push_back(mk<DbGrid>("DbGrid", [] { return DbGrid::create({2, 3}, {1., 2.}, {0.5, 0.25}, {30., 0.}); }, [] { return DbGrid::create({4}, {1.}); },
                         [](DbGrid* d) { d->setValue("x1", 1, 99.); d->addColumnsByConstant(1, 5., "extra"); d->deleteColumn("x2"); },
                         [](DbGrid* d) { d->addColumnsByConstant(2, 1., "more"); },
                         [](const DbGrid* d) { return db_snapshot(d) + vstr(d->getGrid().getNXs()) + vstr(d->getGrid().getX0s()) + vstr(d->getGrid().getDXs()) + vstr(d->getGrid().getRotAngles()); }));
  auto mkmodel = [] { Model* m = Model::createFromParam(ECov::SPHERICAL, 1., 2., 1., {4., 2.}, VectorDouble(), {30., 0.}); m->addCovFromParam(ECov::NUGGET, 0., 0.5); return m; };
  v.push_back(mk<Model>("Model", mkmodel, [] { return Model::createFromParam(ECov::EXPONENTIAL, 3., 1.); },
                        [](Model* m) { m->getCova(0)->setSill(7.); m->getCova(0)->setRanges({1., 8.}); m->getCova(0)->setAnisoAngles({60., 0.}); m->addCovFromParam(ECov::CUBIC, 2., 1.); m->setDriftIRF(1); },
                        [](Model* m) { m->getCova(1)->setSill(3.); m->delCova(0); }, [](const Model* m) { return snap_model(m); }));
  v.push_back(mk<CovAniso>("CovAniso", [] { CovContext ctxt(1, 2); CovAniso* c = new CovAniso(ECov::SPHERICAL, ctxt); c->setSill(2.); c->setRanges({4., 2.}); c->setAnisoAngles({30., 0.}); return c; },
                           [] { CovContext ctxt(1, 2); CovAniso* c = new CovAniso(ECov::EXPONENTIAL, ctxt); c->setSill(1.); c->setRangeIsotropic(3.); return c; },
                           [](CovAniso* c) { c->setSill(9.); c->setRanges({1., 1.}); c->setAnisoAngles({10., 0.}); }, [](CovAniso* c) { c->setSill(4.); c->setRange(0, 6.); },
                           [](const CovAniso* c) { return c->toString() + " sill=" + fmt(c->getSill(0, 0)) + vstr(c->getRanges()) + vstr(c->getAnisoAngles()); }));
  auto mkneigh = [] { NeighMoving* n = NeighMoving::create(false, 5, 3., 1, 1, ITEST, {1., 0.5}, {45., 0.}); n->addBiTargetCheck(BiTargetCheckCode::create(1, 0.25)); return n; };
  v.push_back(mk<NeighMoving>("NeighMoving", mkneigh, [] { return NeighMoving::create(false, 2, 1.); },
                              [](NeighMoving* n) { n->setNMaxi(9); n->setNMini(2); n->addBiTargetCheck(BiTargetCheckCode::create(2, 0.5)); },
                              [](NeighMoving* n) { n->setNMaxi(1); n->setNSect(4); }, [](const NeighMoving* n) { return snap_neigh(n); }));
  v.push_back(mk<NeighUnique>("NeighUnique", [] { return NeighUnique::create(); }, [] { return NeighUnique::create(true); },
                              [](NeighUnique* n) { n->setFlagXvalid(true); n->setRankColCok({1, 2}); }, [](NeighUnique* n) { n->setFlagKFold(true); }, [](const NeighUnique* n) { return n->toString() + std::to_string(n->getFlagXvalid()) + std::to_string(n->getFlagKFold()); }));
  v.push_back(mk<Vario>("Vario", [] { Db* a = make_db_xz({{0, 1, 0, 2, 3}, {0, 0, 1, 2, 1}}, {{1, 2, 0.5, -1, 3}}); VarioParam* vp = VarioParam::createOmniDirection(3, 1.); Vario* vr = Vario::computeFromDb(*vp, a); delete a; delete vp; return vr; },
                        [] { VarioParam* vp = VarioParam::createOmniDirection(2, 2.); Vario* vr = Vario::create(*vp); delete vp; return vr; },
                        [](Vario* q) { q->setGgByIndex(0, 1, 77.); q->setSwByIndex(0, 2, 5.); }, [](Vario* q) { q->setGgByIndex(0, 2, -1.); }, [](const Vario* q) { return snap_vario(q); }));
  auto fillm = [](AMatrix* m) { for (int i = 0; i < m->getNRows(); i++) for (int j = 0; j < m->getNCols(); j++) if (j <= i || !m->isSymmetric()) m->setValue(i, j, 1. + i + 0.25 * j); };
  v.push_back(mk<MatrixRectangular>("MatrixRectangular", [=] { auto* m = new MatrixRectangular(2, 3); fillm(m); return m; }, [] { return new MatrixRectangular(1, 1); },
                                    [](MatrixRectangular* m) { m->setValue(1, 2, 99.); m->addRow(1); }, [](MatrixRectangular* m) { m->fill(3.); }, [](const MatrixRectangular* m) { return snap_mat(*m); }));
  v.push_back(mk<MatrixSquareGeneral>("MatrixSquareGeneral", [=] { auto* m = new MatrixSquareGeneral(3); fillm(m); return m; }, [] { return new MatrixSquareGeneral(1); },
                                      [](MatrixSquareGeneral* m) { m->setValue(1, 2, 99.); m->transposeInPlace(); }, [](MatrixSquareGeneral* m) { m->fill(3.); }, [](const MatrixSquareGeneral* m) { return snap_mat(*m); }));
  v.push_back(mk<MatrixSquareSymmetric>("MatrixSquareSymmetric", [=] { auto* m = new MatrixSquareSymmetric(3); fillm(m); return m; }, [] { return new MatrixSquareSymmetric(2); },
                                        [](MatrixSquareSymmetric* m) { m->setValue(2, 1, 99.); m->prodScalar(2.); }, [](MatrixSquareSymmetric* m) { m->fill(3.); }, [](const MatrixSquareSymmetric* m) { return snap_mat(*m); }));
  auto mksparse = [](int n) { NF_Triplet t; for (int i = 0; i < n; i++) { t.add(i, i, 2. + i); if (i) t.add(i, i - 1, 0.5); } return MatrixSparse::createFromTriplet(t, n, n); };
  v.push_back(mk<MatrixSparse>("MatrixSparse", [=] { return mksparse(3); }, [=] { return mksparse(2); },
                               [](MatrixSparse* m) { m->setValue(1, 0, 99.); m->prodScalar(3.); }, [](MatrixSparse* m) { m->setValue(2, 2, -1.); }, [](const MatrixSparse* m) { return snap_mat(*m); }));
  v.push_back(mk<VectorDouble>("VectorDouble", [] { return new VectorDouble({1., 2., 3.}); }, [] { return new VectorDouble({9.}); },
                               [](VectorDouble* q) { (*q)[1] = 99.; q->push_back(4.); }, [](VectorDouble* q) { q->clear(); }, [](const VectorDouble* q) { return vstr(*q); }, false));
  v.push_back(mk<VectorVectorDouble>("VectorVectorDouble", [] { return new VectorVectorDouble({{1., 2.}, {3.}}); }, [] { return new VectorVectorDouble({{9.}}); },
                                     [](VectorVectorDouble* q) { (*q)[0][1] = 99.; (*q)[1].push_back(4.); q->push_back({5.}); }, [](VectorVectorDouble* q) { (*q)[0].clear(); },
                                     [](const VectorVectorDouble* q) { std::string t; for (auto& e : *q) t += vstr(e); return t; }, false));
  return v;
}
}  // namespace cp

VF_PART(copies)
{
  static std::vector<cp::Case> cs = cp::cases();
  static const char* KINDS[3] = {"clone", "copy-construct", "assign"};
  Space sp;
  sp.axis("type", (int)cs.size()).axis("kind", 3).axis("order", 2);
  for_each_case(C, sp, [&](uint64_t id, const std::vector<int>& idx) {
    cp::Case& c = cs[idx[0]];
    int kind = idx[1], order = idx[2];
    // every scenario runs in a forked child: sharing of owned pointers shows as double free / use after free
    ChildResult cr = run_child([&](int wfd) {
      std::string out;
      void* src = c.make();
      void* cpy = c.copy(src, kind);
      if (cpy == nullptr) { child_write(wfd, "na"); return 0; }
      std::string s0 = c.snap(src), c0 = c.snap(cpy);
      if (s0 != c0) out += "copy-differs-from-source|";
      child_write(wfd, "stage1 ");
      if (order == 0)
      {
        c.mutate(src);
        if (c.snap(cpy) != c0) out += "mutating-the-source-changed-the-copy|";
        std::string s1 = c.snap(src);
        c.mutate2(cpy);
        if (c.snap(src) != s1) out += "mutating-the-copy-changed-the-source|";
        child_write(wfd, "stage2 ");
        c.destroy(src);
        std::string c1 = c.snap(cpy);  // the copy must stay usable after the source is gone
        c.mutate(cpy);
        child_write(wfd, "stage3 ");
        c.destroy(cpy);
      }
      else
      {
        c.mutate(cpy);
        if (c.snap(src) != s0) out += "mutating-the-copy-changed-the-source|";
        std::string c1 = c.snap(cpy);
        c.mutate2(src);
        if (c.snap(cpy) != c1) out += "mutating-the-source-changed-the-copy|";
        child_write(wfd, "stage2 ");
        c.destroy(cpy);
        std::string s1 = c.snap(src);
        c.mutate(src);
        child_write(wfd, "stage3 ");
        c.destroy(src);
      }
      child_write(wfd, "done " + out);
      return 0; }, 30.);
    if (cr.data == "na") { C.skip(); C.outcome("not-offered:" + c.type + ":" + KINDS[kind]); return; }
    C.eval();
    C.nontrivial(id);
    std::string what;
    size_t p = cr.data.find("done ");
    if (!cr.clean() || cr.code != 0 || p == std::string::npos)
    {
      std::string stage = cr.data.find("stage3") != std::string::npos ? "destroying-the-second-object" : cr.data.find("stage2") != std::string::npos ? "using-or-destroying-after-the-first-was-destroyed" : cr.data.find("stage1") != std::string::npos ? "mutating" : "copying";
      C.outcome("DIES:" + c.type);
      C.violation("copy:" + c.type + ":" + KINDS[kind] + ":dies-" + stage, c.type + " " + KINDS[kind] + " (order " + std::to_string(order) + "): the process ends with " + cr.describe() + " while " + stage + " (shared ownership between copy and source)", std::to_string(id));
      return;
    }
    std::string flags = cr.data.substr(p + 5);
    if (flags.empty()) { C.outcome("independent:" + c.type); }
    else
    {
      std::stringstream ss(flags); std::string f;
      while (std::getline(ss, f, '|')) if (!f.empty())
      {
        C.outcome("NOT-INDEPENDENT:" + c.type + ":" + f);
        C.violation("copy:" + c.type + ":" + KINDS[kind] + ":" + f, c.type + " " + KINDS[kind] + ": " + f, std::to_string(id));
      }
    }
    C.sample("{\"type\":" + jstr(c.type) + ",\"kind\":" + jstr(KINDS[kind]) + ",\"order\":" + std::to_string(order) + "}");
  });
}


// ================================================================================================================
// parts incr_* : an object updated incrementally answers as a freshly built one with the same final content
//
// For every history of public setters the harness keeps its own record of the final CONTENT (a boring reference model of
// what each setter documents: "this radius becomes r", "all radii become r", "the angle becomes a" ...), builds a second
// object from scratch with that content through the constructor / factory route, and compares the COMPLETE observable
// answer of both objects: every getter (incl. the derived flags and scalar forms), toString, the serialized text, values
// on a menu, and one downstream use.  Histories are not pruned (a hidden derived flag is exactly what is looked for).
namespace inc
{
struct Fld { std::string name; std::string text; std::vector<double> v; };
typedef std::vector<Fld> Answer;
static void fn(Answer& a, const std::string& n, double x) { a.push_back({n, "", {x}}); }
static void fv(Answer& a, const std::string& n, const VectorDouble& x) { Fld f{n, "n=" + std::to_string(x.size()), {}}; for (double e : x) f.v.push_back(e); a.push_back(f); }
static void ft(Answer& a, const std::string& n, const std::string& t) { a.push_back({n, t, {}}); }
static void fm(Answer& a, const std::string& n, const AMatrix& m) { Fld f{n, std::to_string(m.getNRows()) + "x" + std::to_string(m.getNCols()), {}}; for (int i = 0; i < m.getNRows(); i++) for (int j = 0; j < m.getNCols(); j++) f.v.push_back(m.getValue(i, j)); a.push_back(f); }
static const double TOL = 1e-9;
// names of the fields that differ (in the order of the answer) and a description of the first one
static std::vector<std::string> differ(const Answer& a, const Answer& b, std::string* why)
{
  std::vector<std::string> d;
  for (size_t k = 0; k < a.size() && k < b.size(); k++)
  {
    bool bad = a[k].text != b[k].text || a[k].v.size() != b[k].v.size();
    std::string w;
    if (bad) w = a[k].name + ": '" + a[k].text.substr(0, 300) + "' vs '" + b[k].text.substr(0, 300) + "'";
    else
      for (size_t i = 0; i < a[k].v.size(); i++)
        if (!same_double(a[k].v[i], b[k].v[i]) && !(std::isnan(a[k].v[i]) && std::isnan(b[k].v[i])) && !close(a[k].v[i], b[k].v[i], TOL))
        { bad = true; w = a[k].name + "[" + std::to_string(i) + "] = " + fmt(a[k].v[i]) + " vs " + fmt(b[k].v[i]); break; }
    if (bad) { if (d.empty() && why) *why = w; d.push_back(a[k].name); }
  }
  return d;
}
// generic exploration: ops on (object, content record); fresh(content) builds the second object; answer(obj) observes
template<class T, class CT>
static void explore(Ctx& C, const std::string& cls, int nops, int depth, std::function<T*()> initial, std::function<CT()> content0,
                    std::function<bool(T*, CT&, int)> apply, std::function<std::string(int)> opname, std::function<T*(const CT&)> fresh,
                    std::function<Answer(T*)> answer, std::function<uint64_t(const CT&)> ckey, std::function<void(T*)> destroy = [](T* t) { delete t; })
{
  bfs(C, nops, depth, [&](const History& h) -> StepResult {
    StepResult sr;
    T* obj = initial();
    CT ct = content0();
    for (int op : h) if (!apply(obj, ct, op)) { destroy(obj); sr.enabled = false; sr.expand = false; return sr; }
    sr.key = Hash().s(hist_str(h)).h;  // never merged
    all_states().keys.insert(Hash().s(cls).u(ckey(ct)).h);
    if (h.empty()) { destroy(obj); return sr; }
    T* fr = fresh(ct);
    Answer a = answer(obj), b = answer(fr);
    std::string why;
    std::vector<std::string> d = differ(a, b, &why);
    std::string hs;
    for (size_t k = 0; k < h.size(); k++) hs += (k ? " ; " : "") + opname(h[k]);
    if (h.size() > 1) C.nontrivial(Hash().s(cls).s(hist_str(h)).h);
    if (d.empty()) C.outcome("same-as-fresh");
    else
    {
      std::string all;
      for (auto& x : d) all += (all.empty() ? "" : ",") + x;
      C.outcome("DIFFERENT:" + d[0]);
      C.violation("incr:" + cls + ":" + d[0], cls + " after [" + hs + "] answers differently from a freshly built object with the same final content: " + why + "; differing answers: " + all, hist_str(h));
      sr.expand = false;
    }
    if (Hash().s(hist_str(h)).h % 3001 == 0) C.sample("{\"class\":" + jstr(cls) + ",\"history\":" + jstr(hs) + "}");
    destroy(obj); destroy(fr);
    return sr;
  }, false);
}

// ---------------------------------------------------------------------------------------------- CovAniso through a Model
struct CovContent { double sc[2]; double ang; double sill; double param; };
static Db* g_lag = nullptr; static Db* g_dat = nullptr; static Db* g_tgt = nullptr; static DbGrid* g_grid = nullptr; static NeighUnique* g_unique = nullptr;
static void cov_world()
{
  if (g_lag) return;
  g_lag = make_db_xz({{0, 1, 0, 3, 12}, {0, 0, 1, 2, -2}}, {{0, 0, 0, 0, 0}});
  g_dat = make_db_xz({{0, 2, 1}, {0, 1, 3}}, {{1, 2, 0.5}});
  g_tgt = make_db_xz({{0.5, 1.5}, {1.25, 0.25}}, {});
  g_grid = DbGrid::create({2, 2}, {1.5, 1.}, {0.25, 0.5});
  g_unique = NeighUnique::create();
}
static const int COV_NOPS = 24;
static std::string cov_opname(int op)
{
  static const char* n[COV_NOPS] = {"setRangeIsotropic(10)", "setRangeIsotropic(4)", "setRange(0,4)", "setRange(0,10)", "setRange(1,4)", "setRange(1,10)", "setRanges({4,10})", "setRanges({10,4})", "setRanges({10,10})",
    "setScale(5)", "setScale(0,2)", "setScale(1,2)", "setScale(1,5)", "setScales({2,5})", "setScales({5,5})", "setAnisoAngles({30,0})", "setAnisoAngles({0,0})", "setAnisoAngle(0,45)", "setAnisoRotation(Rotation 30)",
    "setAnisoRotation(identity matrix)", "setRotationAnglesAndRadius({30,0},ranges {4,10})", "setRotationAnglesAndRadius({},{},scales {5,5})", "setSill(3)", "setParam(2)"};
  return n[op];
}
static bool cov_apply(Model* m, CovContent& c, int op)
{
  CovAniso* cv = m->getCova(0);
  double sd = cv->getScadef();
  switch (op)
  {
    case 0: cv->setRangeIsotropic(10.); c.sc[0] = c.sc[1] = 10. / sd; break;
    case 1: cv->setRangeIsotropic(4.); c.sc[0] = c.sc[1] = 4. / sd; break;
    case 2: cv->setRange(0, 4.); c.sc[0] = 4. / sd; break;
    case 3: cv->setRange(0, 10.); c.sc[0] = 10. / sd; break;
    case 4: cv->setRange(1, 4.); c.sc[1] = 4. / sd; break;
    case 5: cv->setRange(1, 10.); c.sc[1] = 10. / sd; break;
    case 6: cv->setRanges({4., 10.}); c.sc[0] = 4. / sd; c.sc[1] = 10. / sd; break;
    case 7: cv->setRanges({10., 4.}); c.sc[0] = 10. / sd; c.sc[1] = 4. / sd; break;
    case 8: cv->setRanges({10., 10.}); c.sc[0] = c.sc[1] = 10. / sd; break;
    case 9: cv->setScale(5.); c.sc[0] = c.sc[1] = 5.; break;
    case 10: cv->setScale(0, 2.); c.sc[0] = 2.; break;
    case 11: cv->setScale(1, 2.); c.sc[1] = 2.; break;
    case 12: cv->setScale(1, 5.); c.sc[1] = 5.; break;
    case 13: cv->setScales({2., 5.}); c.sc[0] = 2.; c.sc[1] = 5.; break;
    case 14: cv->setScales({5., 5.}); c.sc[0] = c.sc[1] = 5.; break;
    case 15: cv->setAnisoAngles({30., 0.}); c.ang = 30.; break;
    case 16: cv->setAnisoAngles({0., 0.}); c.ang = 0.; break;
    case 17: cv->setAnisoAngle(0, 45.); c.ang = 45.; break;
    case 18: { Rotation r(2); r.setAngles({30., 0.}); cv->setAnisoRotation(r); c.ang = 30.; break; }
    case 19: cv->setAnisoRotation(VectorDouble({1., 0., 0., 1.})); c.ang = 0.; break;
    case 20: cv->setRotationAnglesAndRadius({30., 0.}, {4., 10.}, VectorDouble()); c.ang = 30.; c.sc[0] = 4. / sd; c.sc[1] = 10. / sd; break;
    case 21: cv->setRotationAnglesAndRadius(VectorDouble(), VectorDouble(), {5., 5.}); c.sc[0] = c.sc[1] = 5.; break;
    case 22: cv->setSill(3.); c.sill = 3.; break;
    case 23: if (!cv->hasParam()) return false; cv->setParam(2.); c.param = 2.; break;  // the scales are the stored content: they do not move
  }
  return true;
}
static Answer cov_answer(Model* m)
{
  Answer a;
  const CovAniso* cv = m->getCova(0);
  fn(a, "isIsotropic", cv->isIsotropic()); fn(a, "getFlagAniso", cv->getFlagAniso()); fn(a, "getFlagRotation", cv->getFlagRotation());
  fn(a, "getRange()", cv->getRange()); fn(a, "getScale()", cv->getScale());
  fv(a, "getRanges", cv->getRanges()); fv(a, "getScales", cv->getScales());
  fn(a, "getRange(0)", cv->getRange(0)); fn(a, "getRange(1)", cv->getRange(1)); fn(a, "getScale(0)", cv->getScale(0)); fn(a, "getScale(1)", cv->getScale(1));
  fv(a, "getAnisoAngles", cv->getAnisoAngles()); fm(a, "getAnisoRotMat", cv->getAnisoRotMat()); fm(a, "getAnisoInvMat", cv->getAnisoInvMat()); fv(a, "getAnisoCoeffs", cv->getAnisoCoeffs());
  fm(a, "tensorDirect", cv->getAniso().getTensorDirect()); fm(a, "tensorInverse", cv->getAniso().getTensorInverse()); fm(a, "tensorDirect2", cv->getAniso().getTensorDirect2());
  fn(a, "getSill", cv->getSill(0, 0)); fn(a, "getParam", cv->getParam()); fn(a, "getSlope", cv->getSlope(0, 0)); fn(a, "getScadef", cv->getScadef());
  fn(a, "isValidForTurningBand", cv->isValidForTurningBand());
  fn(a, "Model::getMaximumDistance", m->getMaximumDistance());
  ft(a, "CovAniso::toString", cv->toString()); ft(a, "Tensor::toString", cv->getAniso().toString()); ft(a, "Model::toString", m->toString());
  { std::ostringstream os; m->_serialize(os, false); ft(a, "serialized", os.str()); }
  fm(a, "covariance-on-lag-menu", m->evalCovMatrix(g_lag, g_lag));
  fn(a, "eval0", m->eval0(0, 0));
  {
    Db* d = g_dat->clone(); Db* t = g_tgt->clone();
    int n0 = t->getColumnNumber();
    int rc = kriging(d, t, m, g_unique);
    Fld f{"kriging(3 data -> 2 targets)", "rc=" + std::to_string(rc), {}};
    for (int ic = n0; ic < t->getColumnNumber(); ic++) for (int ie = 0; ie < t->getSampleNumber(); ie++) f.v.push_back(t->getValueByColIdx(ie, ic));
    a.push_back(f); delete d; delete t;
  }
  {
    DbGrid* g = g_grid->clone();
    int n0 = g->getColumnNumber();
    int rc = simtub(nullptr, g, m, nullptr, 1, 7, 10);
    Fld f{"simtub(seed 7, 4 nodes)", "rc=" + std::to_string(rc), {}};
    for (int ic = n0; ic < g->getColumnNumber(); ic++) for (int ie = 0; ie < g->getSampleNumber(); ie++) f.v.push_back(g->getValueByColIdx(ie, ic));
    a.push_back(f); delete g;
  }
  return a;
}
static void cov_explore(Ctx& C, const ECov& type, const std::string& tname, int depth)
{
  cov_world();
  double param0 = 1.;
  explore<Model, CovContent>(C, "CovAniso(" + tname + ")", COV_NOPS, depth,
    [&]() { return Model::createFromParam(type, 10., 2., param0); },
    [&]() { Model* t = Model::createFromParam(type, 10., 2., param0); double sd = t->getCova(0)->getScadef(); delete t; return CovContent{{10. / sd, 10. / sd}, 0., 2., param0}; },
    cov_apply, cov_opname,
    [&](const CovContent& c) { return Model::createFromParam(type, 1., c.sill, c.param, {c.sc[0], c.sc[1]}, VectorDouble(), {c.ang, 0.}, nullptr, false); },
    cov_answer,
    [](const CovContent& c) { return Hash().d(c.sc[0]).d(c.sc[1]).d(c.ang).d(c.sill).d(c.param).h; });
}
}  // namespace inc
VF_PART(incr_cov_spherical) { inc::cov_explore(C, ECov::SPHERICAL, "spherical", C.thorough() ? 4 : 3); }
VF_PART(incr_cov_exponential) { inc::cov_explore(C, ECov::EXPONENTIAL, "exponential", 3); }
VF_PART(incr_cov_matern) { inc::cov_explore(C, ECov::MATERN, "matern", 3); }

// ---------------------------------------------------------------------------------------------- dense matrices
namespace inc
{
struct MatContent { double m[3][3]; };
static const int MAT_NOPS = 15;
static std::string mat_opname(int op)
{
  static const char* n[MAT_NOPS] = {"setValue(0,1,2)", "setValue(2,2,5)", "addScalar(0.5)", "addScalarDiag(1)", "prodScalar(2)", "prodScalar(0.5)", "addMatInPlace(Y)", "addMatInPlace(Y,2,-1)", "setDiagonal({1,2,3})",
    "setDiagonalToConstant(3)", "fill(1.5)", "linearCombination(2,this,1,Y)", "computeEigen()", "determinant()", "invert() of a copy"};
  return n[op];
}
template<class M> static M* mat_make(const MatContent& c) { M* m = new M(3); for (int i = 0; i < 3; i++) for (int j = 0; j < 3; j++) if (j <= i || !std::is_same<M, MatrixSquareSymmetric>::value) m->setValue(i, j, c.m[i][j]); return m; }
static MatContent mat_Y() { return MatContent{{{1, 0.5, 0}, {0.5, 1, 0}, {0, 0, 1}}}; }
template<class M> static bool mat_apply(M* m, MatContent& c, int op)
{
  static M* Y = mat_make<M>(mat_Y());
  MatContent y = mat_Y();
  bool sym = std::is_same<M, MatrixSquareSymmetric>::value;
  switch (op)
  {
    case 0: m->setValue(0, 1, 2.); c.m[0][1] = 2.; if (sym) c.m[1][0] = 2.; break;
    case 1: m->setValue(2, 2, 5.); c.m[2][2] = 5.; break;
    case 2: m->addScalar(0.5); for (auto& r : c.m) for (double& x : r) x += 0.5; break;
    case 3: m->addScalarDiag(1.); for (int i = 0; i < 3; i++) c.m[i][i] += 1.; break;
    case 4: m->prodScalar(2.); for (auto& r : c.m) for (double& x : r) x *= 2.; break;
    case 5: m->prodScalar(0.5); for (auto& r : c.m) for (double& x : r) x *= 0.5; break;
    case 6: m->addMatInPlace(*Y); for (int i = 0; i < 3; i++) for (int j = 0; j < 3; j++) c.m[i][j] += y.m[i][j]; break;
    case 7: m->addMatInPlace(*Y, 2., -1.); for (int i = 0; i < 3; i++) for (int j = 0; j < 3; j++) c.m[i][j] = 2. * c.m[i][j] - y.m[i][j]; break;
    case 8: m->setDiagonal({1., 2., 3.}); for (int i = 0; i < 3; i++) for (int j = 0; j < 3; j++) c.m[i][j] = i == j ? i + 1. : 0.; break;
    case 9: m->setDiagonalToConstant(3.); for (int i = 0; i < 3; i++) for (int j = 0; j < 3; j++) c.m[i][j] = i == j ? 3. : 0.; break;
    case 10: m->fill(1.5); for (auto& r : c.m) for (double& x : r) x = 1.5; break;
    case 11: m->linearCombination(2., m, 1., Y); for (int i = 0; i < 3; i++) for (int j = 0; j < 3; j++) c.m[i][j] = 2. * c.m[i][j] + y.m[i][j]; break;
    case 12: if constexpr (std::is_same<M, MatrixSquareSymmetric>::value) (void)m->computeEigen(); else return false; break;  // pure observers: the content does not move
    case 13: (void)m->determinant(); break;
    case 14: { M cp(*m); (void)cp.invert(); break; }
  }
  return true;
}
template<class M> static Answer mat_answer(M* m)
{
  Answer a;
  fm(a, "values", *m);
  fn(a, "determinant", m->determinant());
  fn(a, "isSymmetric", m->isSymmetric());
  fv(a, "prodMatVec", m->prodMatVec({1., 2., 3.}));
  fn(a, "getMinimum", m->getMinimum()); fn(a, "getMaximum", m->getMaximum());
  { M cp(*m); int rc = cp.invert(); Fld f{"inverse", "rc=" + std::to_string(rc), {}}; if (rc == 0) for (int i = 0; i < 3; i++) for (int j = 0; j < 3; j++) f.v.push_back(cp.getValue(i, j)); a.push_back(f); }
  if constexpr (std::is_same<M, MatrixSquareSymmetric>::value)
  {
    int rc = m->computeEigen();
    Fld f{"computeEigen+getEigenValues", "rc=" + std::to_string(rc), {}};
    if (rc == 0) for (double e : m->getEigenValues()) f.v.push_back(e);
    a.push_back(f);
    Fld g{"getEigenVectors(abs)", "", {}};
    if (rc == 0 && m->getEigenVectors() != nullptr) for (int i = 0; i < 3; i++) for (int j = 0; j < 3; j++) g.v.push_back(std::fabs(m->getEigenVectors()->getValue(i, j)));
    // eigenvectors of a (nearly) multiple eigenvalue are not defined: judged only when the spectrum is simple
    bool simple = f.v.size() == 3;
    for (size_t i = 0; i + 1 < f.v.size(); i++) if (std::fabs(f.v[i] - f.v[i + 1]) < 1e-6 * (1 + std::fabs(f.v[i]))) simple = false;
    if (!simple) g.v.clear();
    a.push_back(g);
  }
  ft(a, "toString", m->toString());
  return a;
}
template<class M> static void mat_explore(Ctx& C, const std::string& cls, int depth)
{
  MatContent c0{{{4, 1, 0.5}, {1, 3, 0.25}, {0.5, 0.25, 2}}};
  explore<M, MatContent>(C, cls, MAT_NOPS, depth, [=]() { return mat_make<M>(c0); }, [=]() { return c0; }, mat_apply<M>, mat_opname,
    [](const MatContent& c) { return mat_make<M>(c); }, mat_answer<M>, [](const MatContent& c) { Hash h; for (auto& r : c.m) for (double x : r) h.d(x); return h.h; });
}
}  // namespace inc
VF_PART(incr_matrix_symmetric) { inc::mat_explore<MatrixSquareSymmetric>(C, "MatrixSquareSymmetric", C.thorough() ? 4 : 3); }
VF_PART(incr_matrix_general) { inc::mat_explore<MatrixSquareGeneral>(C, "MatrixSquareGeneral", C.thorough() ? 4 : 3); }

// ---------------------------------------------------------------------------------------------- NeighMoving, AnamHermite, Db
namespace inc
{
struct NeighContent { int nmaxi, nmini, nsect, nsmax; double distcont; };
static Db* g_ndb = nullptr; static DbGrid* g_ngrid = nullptr;
static Answer neigh_answer(NeighMoving* n)
{
  if (!g_ndb) { g_ndb = make_db_xz({{0, 1, 0, 2, 3, 1, 2}, {0, 0, 1, 2, 1, 2, 0}}, {{1, 2, 0.5, -1, 3, 4, 5}}); g_ngrid = DbGrid::create({2, 2}, {1., 1.}, {0.75, 0.75}); }
  Answer a;
  fn(a, "getNMaxi", n->getNMaxi()); fn(a, "getNMini", n->getNMini()); fn(a, "getNSect", n->getNSect()); fn(a, "getNSMax", n->getNSMax()); fn(a, "getDistCont", n->getDistCont());
  fn(a, "getFlagSector", n->getFlagSector()); fn(a, "getFlagContinuous", n->getFlagContinuous()); fn(a, "getRadius", n->getRadius()); fn(a, "getMaxSampleNumber", n->getMaxSampleNumber(g_ndb));
  ft(a, "toString", n->toString());
  { std::ostringstream os; n->_serialize(os, false); ft(a, "serialized", os.str()); }
  n->attach(g_ndb, g_ngrid);
  std::string t;
  for (int ie = 0; ie < 4; ie++) { VectorInt r; n->select(ie, r); t += "[" ; for (int k : r) t += std::to_string(k) + ","; t += "]"; }
  ft(a, "select on 4 targets", t);
  return a;
}
static bool neigh_apply(NeighMoving* n, NeighContent& c, int op)
{
  switch (op)
  {
    case 0: n->setNMaxi(2); c.nmaxi = 2; break; case 1: n->setNMaxi(5); c.nmaxi = 5; break; case 2: n->setNMini(2); c.nmini = 2; break; case 3: n->setNMini(1); c.nmini = 1; break;
    case 4: n->setNSect(4); c.nsect = 4; break; case 5: n->setNSect(1); c.nsect = 1; break; case 6: n->setNSMax(1); c.nsmax = 1; break; case 7: n->setNSMax(2); c.nsmax = 2; break;
    case 8: n->setDistCont(0.5); c.distcont = 0.5; break; case 9: n->setDistCont(TEST); c.distcont = TEST; break;
    case 10: { VectorInt r; n->attach(g_ndb ? g_ndb : (neigh_answer(n), g_ndb), g_ngrid); n->select(1, r); break; }  // a use between two updates
  }
  return true;
}
static std::string neigh_opname(int op) { static const char* nm[11] = {"setNMaxi(2)", "setNMaxi(5)", "setNMini(2)", "setNMini(1)", "setNSect(4)", "setNSect(1)", "setNSMax(1)", "setNSMax(2)", "setDistCont(0.5)", "setDistCont(TEST)", "attach+select(1)"}; return nm[op]; }

struct AnamContent { double psi[4]; double r; bool bound; };
static const double ANAM_B[8] = {-3., 0.25, 3., 9., -2.5, 0.5, 2.5, 8.};  // pymin pzmin pymax pzmax aymin azmin aymax azmax
static AnamHermite* anam_build(const AnamContent& c)
{
  AnamHermite* a = AnamHermite::create(4, c.bound, c.r);
  a->reset(ANAM_B[0], ANAM_B[1], ANAM_B[2], ANAM_B[3], ANAM_B[4], ANAM_B[5], ANAM_B[6], ANAM_B[7], c.r, {c.psi[0], c.psi[1], c.psi[2], c.psi[3]});
  return a;
}
static bool anam_apply(AnamHermite* a, AnamContent& c, int op)
{
  switch (op)
  {
    case 0: a->setPsiHns({3., -1.5, 0.5, 0.125}); c.psi[0] = 3.; c.psi[1] = -1.5; c.psi[2] = 0.5; c.psi[3] = 0.125; break;
    case 1: a->setPsiHns({4., -2., 0.25, 0.}); c.psi[0] = 4.; c.psi[1] = -2.; c.psi[2] = 0.25; c.psi[3] = 0.; break;
    case 2: a->setPsiHn(1, -0.75); c.psi[1] = -0.75; break;
    case 3: a->setPsiHn(2, 0.375); c.psi[2] = 0.375; break;
    case 4: a->setRCoef(0.5); c.r = 0.5; break;
    case 5: a->setRCoef(1.); c.r = 1.; break;
    case 6: a->setFlagBound(false); c.bound = false; break;
    case 7: a->setFlagBound(true); c.bound = true; break;
    case 8: (void)a->transformToRawValue(0.5); (void)a->getVariance(); break;  // a use between two updates
  }
  return true;
}
static std::string anam_opname(int op) { static const char* nm[9] = {"setPsiHns(A)", "setPsiHns(B)", "setPsiHn(1,-0.75)", "setPsiHn(2,0.375)", "setRCoef(0.5)", "setRCoef(1)", "setFlagBound(false)", "setFlagBound(true)", "transformToRawValue+getVariance"}; return nm[op]; }
static Answer anam_answer(AnamHermite* a)
{
  Answer w;
  fv(w, "getPsiHns", a->getPsiHns()); fn(w, "getRCoef", a->getRCoef()); fn(w, "getFlagBound", a->getFlagBound()); fn(w, "getNbPoly", a->getNbPoly());
  fn(w, "getMean", a->getMean()); fn(w, "getVariance", a->getVariance());
  fn(w, "computeVariance(0.5)", a->computeVariance(0.5)); fn(w, "computeVariance(1)", a->computeVariance(1.));
  VectorDouble y, z;
  for (double t : {-3.5, -1., 0., 0.5, 2., 3.5}) y.push_back(a->transformToRawValue(t));
  for (double t : {0., 1., 2.5, 6., 10.}) z.push_back(a->rawToTransformValue(t));
  fv(w, "transformToRawValue(menu)", y); fv(w, "rawToTransformValue(menu)", z);
  ft(w, "toString", a->toString());
  { std::ostringstream os; a->_serialize(os, false); ft(w, "serialized", os.str()); }
  return w;
}

struct DbContent { std::vector<std::vector<double>> col; };  // x1 x2 z1
static bool db_apply(Db* d, DbContent& c, int op)
{
  int n = (int)c.col[0].size();
  switch (op)
  {
    case 0: d->addSamples(1, 0.5); for (auto& v : c.col) v.push_back(0.5); break;
    case 1: if (n < 2) return false; d->deleteSample(0); for (auto& v : c.col) v.erase(v.begin()); break;
    case 2: if (n < 2) return false; d->deleteSample(n - 1); for (auto& v : c.col) v.pop_back(); break;
    case 3: d->setValue("z1", 1, 9.); c.col[2][1] = 9.; break;
    case 4: d->setValue("x1", 0, -4.); c.col[0][0] = -4.; break;
    case 5: d->setValue("z1", n - 1, TEST); c.col[2][n - 1] = TEST; break;
    case 6: if (n < 3) return false; d->deleteSamples({0, 2}); for (auto& v : c.col) { v.erase(v.begin() + 2); v.erase(v.begin()); } break;
    case 7: (void)d->getMean("z1"); (void)d->getExtrema(0); break;  // a use between two updates
  }
  return true;
}
static std::string db_opname(int op) { static const char* nm[8] = {"addSamples(1,0.5)", "deleteSample(0)", "deleteSample(last)", "setValue(z1,1,9)", "setValue(x1,0,-4)", "setValue(z1,last,TEST)", "deleteSamples({0,2})", "getMean+getExtrema"}; return nm[op]; }
static Answer db_answer(Db* d)
{
  Answer a;
  fn(a, "getSampleNumber", d->getSampleNumber()); fn(a, "getActiveSampleNumber", d->getActiveSampleNumber()); fn(a, "getColumnNumber", d->getColumnNumber()); fn(a, "getNDim", d->getNDim());
  for (const char* nm : {"x1", "x2", "z1"}) { fv(a, std::string("getColumn(") + nm + ")", d->getColumn(nm)); fn(a, std::string("getMean(") + nm + ")", d->getMean(nm)); fn(a, std::string("getVariance(") + nm + ")", d->getVariance(nm)); fn(a, std::string("getMinimum(") + nm + ")", d->getMinimum(nm)); fn(a, std::string("getMaximum(") + nm + ")", d->getMaximum(nm)); }
  fv(a, "getExtrema(0)", d->getExtrema(0)); fv(a, "getExtrema(1)", d->getExtrema(1)); fn(a, "getExtensionDiagonal", d->getExtensionDiagonal());
  fn(a, "getNumberActiveAndDefined(0)", d->getNumberActiveAndDefined(0));
  ft(a, "toString", d->toString());
  return a;
}
}  // namespace inc
VF_PART(incr_neighmoving)
{
  using namespace inc;
  NeighContent c0{5, 1, 1, ITEST, TEST};
  explore<NeighMoving, NeighContent>(C, "NeighMoving", 11, C.thorough() ? 4 : 3, [] { return NeighMoving::create(false, 5, 2.5); }, [=] { return c0; }, neigh_apply, neigh_opname,
    [](const NeighContent& c) { NeighMoving* n = NeighMoving::create(false, c.nmaxi, 2.5, c.nmini, c.nsect, c.nsmax); if (!FFFF(c.distcont)) n->setDistCont(c.distcont); return n; }, neigh_answer,
    [](const NeighContent& c) { return Hash().i(c.nmaxi).i(c.nmini).i(c.nsect).i(c.nsmax).d(c.distcont).h; });
}
VF_PART(incr_anamhermite)
{
  using namespace inc;
  AnamContent c0{{2., -1., 0.25, 0.0625}, 1., true};
  explore<AnamHermite, AnamContent>(C, "AnamHermite", 9, C.thorough() ? 4 : 3, [=] { return anam_build(c0); }, [=] { return c0; }, anam_apply, anam_opname,
    [](const AnamContent& c) { return anam_build(c); }, anam_answer, [](const AnamContent& c) { return Hash().d(c.psi[0]).d(c.psi[1]).d(c.psi[2]).d(c.psi[3]).d(c.r).i(c.bound).h; });
}
VF_PART(incr_db)
{
  using namespace inc;
  DbContent c0{{{0, 1, 0, 2}, {0, 0, 1, 2}, {1, 2, 0.5, -1}}};
  explore<Db, DbContent>(C, "Db", 8, C.thorough() ? 4 : 3, [=] { return make_db_xz({c0.col[0], c0.col[1]}, {c0.col[2]}); }, [=] { return c0; }, db_apply, db_opname,
    [](const DbContent& c) { return make_db_xz({c.col[0], c.col[1]}, {c.col[2]}); }, db_answer, [](const DbContent& c) { Hash h; for (auto& v : c.col) h.vd(v); return h.h; });
}


// ================================================================================================================
// part rng_neutral : a call that is not a random procedure leaves the process-wide generator as it found it
//
// E1 product: (call) x (seed S) x (generator style).  In a forked child: law_set_random_seed(S); one draw (so that the state
// is not the freshly seeded one); CALL; then law_get_random_seed(), the state of the new-style stream and the next
// law_uniform() must be what they are without the call.  The menu holds every non-random call of the hist alphabet plus
// degenerate / failing variants of the functions that install a seed of their own and must restore the caller's
// (mvndst / mvndst2n / mvndst4, ut_icosphere, DbGrid::getDiscretizedBlock, ACov::evalAverageDbToDb, block kriging ...).
namespace rn
{
struct Call { std::string name, family; std::function<void(World&)> run; };
static void run_mvndst(int n, const std::vector<int>& infin)
{
  int m = std::max(n, 1);
  std::vector<double> lo(m, -1.), up(m, 1.), cor(m * (m - 1) / 2 + 1, 0.25);
  std::vector<int> inf(m, 2);
  for (size_t i = 0; i < infin.size() && i < (size_t)m; i++) inf[i] = infin[i];
  double err = 0, val = 0; int inform = 0;
  mvndst(n, lo.data(), up.data(), inf.data(), cor.data(), 2000, 1e-3, 0, &err, &val, &inform);
}
static std::vector<Call> calls()
{
  std::vector<Call> v;
  for (int op = 0; op < NOPS; op++)
    if (!is_random_op(op) && op != CF_OLDSTYLE_OFF && op != CF_OLDSTYLE_ON)  // switching the documented generator style legitimately changes the next draw
      v.push_back({OPS[op].name, OPS[op].family, [op](World& w) { (void)apply_op(w, op); }});
  v.push_back({"mvndst(n=3, all unbounded)", "mvndst", [](World&) { run_mvndst(3, {-1, -1, -1}); }});
  v.push_back({"mvndst(n=1, unbounded)", "mvndst", [](World&) { run_mvndst(1, {-1}); }});
  v.push_back({"mvndst(n=0)", "mvndst", [](World&) { run_mvndst(0, {}); }});
  v.push_back({"mvndst(n=-1)", "mvndst", [](World&) { run_mvndst(-1, {}); }});
  v.push_back({"mvndst(n=101)", "mvndst", [](World&) { run_mvndst(101, {}); }});
  v.push_back({"mvndst(n=3, one bounded)", "mvndst", [](World&) { run_mvndst(3, {-1, -1, 2}); }});
  v.push_back({"mvndst(n=3, two bounded)", "mvndst", [](World&) { run_mvndst(3, {-1, 2, 2}); }});
  v.push_back({"mvndst(n=3, half lines)", "mvndst", [](World&) { run_mvndst(3, {0, 1, 2}); }});
  auto m2 = [](double l0, double u0, double l1, double u1) {
    double lo[2] = {l0, l1}, up[2] = {u0, u1}, mean[2] = {0.25, -0.5}, cor[4] = {2., 0.5, 0.5, 1.}, err, val; int inform;
    mvndst2n(lo, up, mean, cor, 2000, 1e-3, 0, &err, &val, &inform); };
  v.push_back({"mvndst2n(both unbounded)", "mvndst", [=](World&) { m2(THRESH_INF, THRESH_SUP, THRESH_INF, THRESH_SUP); }});
  v.push_back({"mvndst2n(one bounded)", "mvndst", [=](World&) { m2(THRESH_INF, THRESH_SUP, -1., 1.); }});
  v.push_back({"mvndst2n(both bounded)", "mvndst", [=](World&) { m2(-1., 0.5, -1., 1.); }});
  auto m4 = [](bool unb) {
    double lo[4], up[4], cor[16], err, val; int inform;
    for (int i = 0; i < 4; i++) { lo[i] = unb ? THRESH_INF : -1.; up[i] = unb ? THRESH_SUP : 1.; for (int j = 0; j < 4; j++) cor[i * 4 + j] = i == j ? 1. : 0.25; }
    mvndst4(lo, up, cor, 2000, 1e-3, 0, &err, &val, &inform); };
  v.push_back({"mvndst4(all unbounded)", "mvndst", [=](World&) { m4(true); }});
  v.push_back({"mvndst4(all bounded)", "mvndst", [=](World&) { m4(false); }});
  v.push_back({"ut_icosphere(1)", "icosphere", [](World&) { int nt = 0; double* co = nullptr; (void)ut_icosphere(1, 0, &nt, &co); }});
  v.push_back({"ut_icosphere(11)[refused]", "icosphere", [](World&) { int nt = 0; double* co = nullptr; (void)ut_icosphere(11, 0, &nt, &co); }});
  v.push_back({"DbGrid::getDiscretizedBlock(random)", "discretize", [](World& w) { (void)w.G->getDiscretizedBlock({2, 2}, 0, false, true, 132); }});
  v.push_back({"DbGrid::getDiscretizedBlock(regular)", "discretize", [](World& w) { (void)w.G->getDiscretizedBlock({2, 2}, 0, false, false, 132); }});
  v.push_back({"evalAverageDbToDb(eps=0.1,seed=5)", "evalAverage", [](World& w) { (void)w.M->getCovAnisoList()->evalAverageDbToDb(w.A, w.B, 0, 0, 0.1, 5); }});
  v.push_back({"evalAverageDbToDb(eps=0)", "evalAverage", [](World& w) { (void)w.M->getCovAnisoList()->evalAverageDbToDb(w.A, w.B, 0, 0, 0., 5); }});
  v.push_back({"kriging(BLOCK, ndiscs {2,2})", "kriging", [](World& w) { Db* a = w.A->clone(); DbGrid* g = w.G->clone(); (void)kriging(a, g, w.M, w.N, EKrigOpt::BLOCK, true, true, false, {2, 2}); delete a; delete g; }});
  // (kriging(BLOCK) with an ndiscs vector of the wrong size divides by zero, SIGFPE: a robustness matter, not in this menu)
  v.push_back({"krigcell(ndiscs {2,2})", "kriging", [](World& w) { Db* a = w.A->clone(); DbGrid* g = w.G->clone(); (void)krigcell(a, g, w.M, w.N, true, true, {2, 2}); delete a; delete g; }});
  v.push_back({"Db statistics + toString", "statistics", [](World& w) { (void)w.A->getMean("z1"); (void)w.A->getVariance("z1"); (void)w.A->getExtrema(0); (void)w.A->toString(); (void)w.G->toString(); }});
  v.push_back({"serialization of Model / Db / NeighMoving", "serialization", [](World& w) { std::ostringstream os; w.M->_serialize(os, false); w.A->_serialize(os, false); w.N->_serialize(os, false); }});
  v.push_back({"Model::toString + getMaximumDistance", "model", [](World& w) { (void)w.M->toString(); (void)w.M->getMaximumDistance(); }});
  return v;
}
}  // namespace rn

VF_PART(rng_neutral)
{
  static std::vector<rn::Call> cs = rn::calls();
  static const int SEEDS[3] = {1234, 20000158, 7};
  Space sp;
  sp.axis("call", (int)cs.size()).axis("seed", 3).axis("style", 2);
  for_each_case(C, sp, [&](uint64_t id, const std::vector<int>& idx) {
    rn::Call& c = cs[idx[0]];
    int S = SEEDS[idx[1]];
    bool newstyle = idx[2] == 1;
    ChildResult cr = run_child([&](int wfd) {
      World* w = build_world();
      if (newstyle) law_set_old_style(false);
      auto gen = []() { std::ostringstream os; os << Random_gen; return Hash().s(os.str()).h; };
      // reference: the same draws without the call
      law_set_random_seed(S); double r1 = law_uniform(0., 1.); int refSeed = law_get_random_seed(); uint64_t refGen = gen(); double r2 = law_uniform(0., 1.);
      // with the call
      law_set_random_seed(S); double u1 = law_uniform(0., 1.);
      c.run(*w);
      int seed1 = law_get_random_seed(); uint64_t gen1 = gen(); double u2 = law_uniform(0., 1.);
      char b[200];
      snprintf(b, 200, "%d %d %d %d %.17g %.17g %d %d", (int)(u1 == r1), (int)(seed1 == refSeed), (int)(gen1 == refGen), (int)(u2 == r2), u2, r2, seed1, refSeed);
      child_write(wfd, b); return 0; }, 60.);
    C.eval();
    C.nontrivial(id);
    std::string style = newstyle ? "new-style" : "old-style";
    int sameU1 = 0, sameSeed = 0, sameGen = 0, sameU2 = 0, seed1 = 0, refSeed = 0; double u2 = 0, r2 = 0;
    if (!cr.clean() || cr.code != 0 || sscanf(cr.data.c_str(), "%d %d %d %d %lf %lf %d %d", &sameU1, &sameSeed, &sameGen, &sameU2, &u2, &r2, &seed1, &refSeed) != 8)
    {
      C.skip(); C.outcome("excluded:call-dies(" + cr.describe() + "):" + c.name);
      return;
    }
    if (!sameU1) { fprintf(stderr, "harness error: seeding is not reproducible\n"); exit(2); }
    if (sameSeed && sameGen && sameU2) { C.outcome("generator-untouched:" + style); }
    else
    {
      std::string what = !sameSeed ? "seed" : !sameGen ? "new-style-stream" : "next-draw";
      C.outcome("GENERATOR-MOVED:" + c.family + ":" + what + ":" + style);
      C.violation("rng-changed:" + c.family + ":" + what, "'" + c.name + "' is not a random procedure but after law_set_random_seed(" + std::to_string(S) + "); law_uniform(); <call> (" + style +
                  " generator) law_get_random_seed() = " + std::to_string(seed1) + " (without the call " + std::to_string(refSeed) + "), next law_uniform() = " + fmt(u2) + " (without the call " + fmt(r2) + ")", std::to_string(id));
    }
    if (id % 37 == 0) C.sample("{\"call\":" + jstr(c.name) + ",\"seed\":" + std::to_string(S) + ",\"style\":" + jstr(style) + "}");
  });
}

int main(int argc, char** argv)
{
  return run_main(argc, argv, [](Ctx&) { silence(); }, [](Ctx& C) { write_states(C); });
}
